(* Real-number instance of the P2P model (Num/P2PDefs.v) and the pairwise laws:
   every routine adds to each particle exactly the Coulomb-like contributions of the particles it interacts with.
   Uses the axiomatised reals of Coq's standard library; no axiom is declared here. *)
From Coq Require Import List Reals Lra Psatz.
From Tbfmm Require Import Num.P2PDefs.
Import ListNotations.
Local Open Scope R_scope.

Definition r_ops : ops R :=
  {| o_add := Rplus; o_sub := Rminus; o_mul := Rmult; o_div := Rdiv; o_sqrt := sqrt; o_zero := 0; o_one := 1 |}.
Notation partR := (part R).
Notation rhsR := (rhs R).

Definition d2 (s t : partR) : R :=
  (p_x _ s - p_x _ t)^2 + (p_y _ s - p_y _ t)^2 + (p_z _ s - p_z _ t)^2.
Definition rdist (s t : partR) : R := sqrt (d2 s t).
Definition apart (s t : partR) : Prop := 0 < d2 s t.            (* distinct positions *)

(* the contribution of source s to target t: force q_t q_s (x_s - x_t)/r^3, potential q_s / r *)
Definition contrib (s t : partR) : rhsR :=
  {| f_x := p_v _ t * p_v _ s * (p_x _ s - p_x _ t) / (rdist s t)^3;
     f_y := p_v _ t * p_v _ s * (p_y _ s - p_y _ t) / (rdist s t)^3;
     f_z := p_v _ t * p_v _ s * (p_z _ s - p_z _ t) / (rdist s t)^3;
     f_p := p_v _ s / rdist s t |}.
Definition radd (a b : rhsR) : rhsR :=
  {| f_x := f_x _ a + f_x _ b; f_y := f_y _ a + f_y _ b; f_z := f_z _ a + f_z _ b; f_p := f_p _ a + f_p _ b |}.
Definition rsum (l : list rhsR) : rhsR := fold_right radd (rhs0 R r_ops) l.

(* ---------------------------------------------------------------------------------------------------------------- *)
(* records of reals *)

Lemma rhs_eq : forall a b : rhsR,
  f_x _ a = f_x _ b -> f_y _ a = f_y _ b -> f_z _ a = f_z _ b -> f_p _ a = f_p _ b -> a = b.
Proof. intros [ax ay az ap] [bx by_ bz bp]; simpl; intros -> -> -> ->; reflexivity. Qed.

Lemma radd_0_l : forall a, radd (rhs0 R r_ops) a = a.
Proof. intros a; apply rhs_eq; simpl; ring. Qed.

Lemma radd_0_r : forall a, radd a (rhs0 R r_ops) = a.
Proof. intros a; apply rhs_eq; simpl; ring. Qed.

Lemma radd_assoc : forall a b c, radd (radd a b) c = radd a (radd b c).
Proof. intros a b c; apply rhs_eq; simpl; ring. Qed.

Lemma rsum_cons : forall a l, rsum (a :: l) = radd a (rsum l).
Proof. reflexivity. Qed.

(* ---------------------------------------------------------------------------------------------------------------- *)
(* the pair computation *)

Lemma d2_sym : forall s t, d2 s t = d2 t s.
Proof. intros s t; unfold d2; ring. Qed.

Lemma apart_sym : forall s t, apart s t -> apart t s.
Proof. intros s t H; unfold apart; rewrite d2_sym; exact H. Qed.

Lemma rdist_sym : forall s t, rdist s t = rdist t s.
Proof. intros s t; unfold rdist; rewrite d2_sym; reflexivity. Qed.

Lemma rdist_pos : forall s t, apart s t -> 0 < rdist s t.
Proof. intros s t H; unfold rdist; apply sqrt_lt_R0; exact H. Qed.

Lemma rdist_sq : forall s t, apart s t -> rdist s t * rdist s t = d2 s t.
Proof. intros s t H; unfold rdist; apply sqrt_sqrt; unfold apart in H; lra. Qed.

(* the raw pair computation, in the operation order of the model, as an expression over R *)
Definition isd (s t : partR) : R := 1 / d2 s t * sqrt (1 / d2 s t) * (p_v _ t * p_v _ s).

Lemma pair_raw : forall s t,
  pair R r_ops s t =
  ((p_x _ s - p_x _ t) * isd s t, (p_y _ s - p_y _ t) * isd s t, (p_z _ s - p_z _ t) * isd s t, sqrt (1 / d2 s t)).
Proof.
  intros s t; unfold pair, isd; simpl.
  replace ((p_x R s - p_x R t) * (p_x R s - p_x R t) + (p_y R s - p_y R t) * (p_y R s - p_y R t)
           + (p_z R s - p_z R t) * (p_z R s - p_z R t)) with (d2 s t) by (unfold d2; ring).
  reflexivity.
Qed.

Lemma inv_dist : forall s t, apart s t -> sqrt (1 / d2 s t) = / rdist s t.
Proof.
  intros s t H; unfold rdist, Rdiv; rewrite Rmult_1_l.
  apply sqrt_inv; exact H.
Qed.

Lemma isd_law : forall s t, apart s t -> isd s t = p_v _ t * p_v _ s / (rdist s t)^3.
Proof.
  intros s t H; unfold isd; rewrite (inv_dist s t H).
  rewrite <- (rdist_sq s t H).
  pose proof (rdist_pos s t H) as Hp.
  field; lra.
Qed.

Theorem pair_law : forall s t, apart s t ->
  pair R r_ops s t = (f_x _ (contrib s t), f_y _ (contrib s t), f_z _ (contrib s t), / rdist s t).
Proof.
  intros s t H; rewrite pair_raw, (isd_law s t H), (inv_dist s t H); simpl.
  pose proof (rdist_pos s t H) as Hp.
  assert (E : forall d, d * (p_v R t * p_v R s / rdist s t ^ 3) = p_v R t * p_v R s * d / rdist s t ^ 3)
    by (intros d; field; lra).
  rewrite !E; reflexivity.
Qed.

(* the record added to the accumulators of target t for source s, whatever the positions *)
Definition praw (s t : partR) : rhsR :=
  {| f_x := (p_x _ s - p_x _ t) * isd s t; f_y := (p_y _ s - p_y _ t) * isd s t;
     f_z := (p_z _ s - p_z _ t) * isd s t; f_p := sqrt (1 / d2 s t) * p_v _ s |}.

Lemma praw_contrib : forall s t, apart s t -> praw s t = contrib s t.
Proof.
  intros s t H; unfold praw; rewrite (isd_law s t H), (inv_dist s t H).
  pose proof (rdist_pos s t H) as Hp.
  apply rhs_eq; simpl; field; lra.
Qed.

Lemma isd_sym : forall s t, isd s t = isd t s.
Proof. intros s t; unfold isd; rewrite (d2_sym s t); ring. Qed.

(* what the in-place update does to the other side of the pair (source s of target t) *)
Definition back (t s : partR) (sr : rhsR) : rhsR :=
  {| f_x := f_x _ sr - (p_x _ s - p_x _ t) * isd s t; f_y := f_y _ sr - (p_y _ s - p_y _ t) * isd s t;
     f_z := f_z _ sr - (p_z _ s - p_z _ t) * isd s t; f_p := f_p _ sr + sqrt (1 / d2 s t) * p_v _ t |}.

Lemma back_praw : forall t s sr, back t s sr = radd sr (praw t s).
Proof.
  intros t s sr; apply rhs_eq; simpl; rewrite ?(isd_sym t s), ?(d2_sym t s); ring.
Qed.

(* ---------------------------------------------------------------------------------------------------------------- *)
(* one-sided routine *)

Definition rstep (t : partR) (a : rhsR) (s : partR) : rhsR :=
  let '(dx, dy, dz, inv) := pair R r_ops s t in
  {| f_x := f_x _ a + dx; f_y := f_y _ a + dy; f_z := f_z _ a + dz; f_p := f_p _ a + inv * p_v _ s |}.

Lemma rstep_praw : forall t a s, rstep t a s = radd a (praw s t).
Proof. intros t a s; unfold rstep; rewrite pair_raw; reflexivity. Qed.

Lemma fold_rstep : forall t srcs a,
  fold_left (rstep t) srcs a = radd a (rsum (map (fun s => praw s t) srcs)).
Proof.
  intros t srcs; induction srcs as [|s srcs IH]; intros a; simpl.
  - symmetry; apply radd_0_r.
  - rewrite IH, rstep_praw, radd_assoc; reflexivity.
Qed.

Lemma remote_one_fold : forall srcs t r,
  remote_one R r_ops srcs t r = radd r (fold_left (rstep t) srcs (rhs0 R r_ops)).
Proof. reflexivity. Qed.

Lemma remote_one_raw : forall srcs t r,
  remote_one R r_ops srcs t r = radd r (rsum (map (fun s => praw s t) srcs)).
Proof. intros srcs t r; rewrite remote_one_fold, fold_rstep, radd_0_l; reflexivity. Qed.

Theorem remote_law : forall srcs tgts,
  Forall (fun tr => Forall (fun s => apart s (fst tr)) srcs) tgts ->
  full_remote R r_ops srcs tgts =
  map (fun tr => radd (snd tr) (rsum (map (fun s => contrib s (fst tr)) srcs))) tgts.
Proof.
  intros srcs tgts H; unfold full_remote.
  apply map_ext_in; intros tr Hin.
  rewrite Forall_forall in H; specialize (H tr Hin); rewrite Forall_forall in H.
  rewrite remote_one_raw; do 2 f_equal.
  apply map_ext_in; intros s Hs; apply praw_contrib; exact (H s Hs).
Qed.

(* ---------------------------------------------------------------------------------------------------------------- *)
(* equal and opposite forces *)

Theorem contrib_antisym : forall s t, apart s t ->
  f_x _ (contrib t s) = - f_x _ (contrib s t) /\ f_y _ (contrib t s) = - f_y _ (contrib s t) /\
  f_z _ (contrib t s) = - f_z _ (contrib s t) /\
  p_v _ s * f_p _ (contrib t s) = p_v _ t * f_p _ (contrib s t).
Proof.
  intros s t H; pose proof (rdist_pos s t H) as Hp; simpl; rewrite (rdist_sym t s).
  repeat split; field; lra.
Qed.

(* ---------------------------------------------------------------------------------------------------------------- *)
(* mutual routine *)

Definition bmap (t : partR) (srcs : list (partR * rhsR)) : list (partR * rhsR) :=
  map (fun sr => (fst sr, back t (fst sr) (snd sr))) srcs.

Lemma mutual_inner_spec : forall t srcs acc,
  mutual_inner R r_ops t srcs acc = (bmap t srcs, fold_left (rstep t) (map fst srcs) acc).
Proof.
  intros t srcs; induction srcs as [|[s sr] rest IH]; intros acc.
  - reflexivity.
  - cbn [mutual_inner bmap map fold_left fst snd].
    unfold rstep at 2. rewrite pair_raw. rewrite IH. reflexivity.
Qed.

Lemma bmap_fst : forall t srcs, map fst (bmap t srcs) = map fst srcs.
Proof. intros t srcs; unfold bmap; rewrite map_map; apply map_ext; reflexivity. Qed.

Lemma remote_one_back : forall L t s sr,
  remote_one R r_ops L s (back t s sr) = remote_one R r_ops (t :: L) s sr.
Proof.
  intros L t s sr; rewrite !remote_one_raw, back_praw; cbn [map]; rewrite rsum_cons, radd_assoc; reflexivity.
Qed.

Lemma full_mutual_spec : forall tgts srcs,
  snd (full_mutual R r_ops srcs tgts) = full_remote R r_ops (map fst srcs) tgts /\
  map fst (fst (full_mutual R r_ops srcs tgts)) = map fst srcs /\
  map snd (fst (full_mutual R r_ops srcs tgts)) = full_remote R r_ops (map fst tgts) srcs.
Proof.
  induction tgts as [|[t r] rest IH]; intros srcs.
  - cbn [full_mutual fst snd map]. repeat split.
    unfold full_remote. apply map_ext; intros [s sr]. rewrite remote_one_raw. cbn [map fst snd].
    unfold rsum; cbn [fold_right]. symmetry; apply radd_0_r.
  - cbn [full_mutual]. rewrite mutual_inner_spec.
    destruct (IH (bmap t srcs)) as (IH1 & IH2 & IH3).
    destruct (full_mutual R r_ops (bmap t srcs) rest) as [srcsf rs].
    cbn [fst snd] in *. repeat split.
    + unfold full_remote at 1; cbn [map fst snd]. f_equal.
      rewrite IH1, bmap_fst; reflexivity.
    + rewrite IH2; apply bmap_fst.
    + rewrite IH3. unfold full_remote, bmap. rewrite map_map. apply map_ext; intros [s sr].
      cbn [map fst snd]. apply remote_one_back.
Qed.

(* mutual: targets exactly as the one-sided routine; sources receive the symmetric contributions;
   equivalent to two one-sided calls *)
Theorem mutual_split : forall srcs tgts,
  Forall (fun tr => Forall (fun sr => apart (fst sr) (fst tr)) srcs) tgts ->
  snd (full_mutual R r_ops srcs tgts) = full_remote R r_ops (map fst srcs) tgts /\
  map fst (fst (full_mutual R r_ops srcs tgts)) = map fst srcs /\
  map snd (fst (full_mutual R r_ops srcs tgts)) = full_remote R r_ops (map fst tgts) srcs.
Proof. intros srcs tgts _; apply full_mutual_spec. Qed.

(* ---------------------------------------------------------------------------------------------------------------- *)
(* inner routine *)

Lemma inner_row_spec : forall ti later ri,
  inner_row R r_ops ti ri later = (fold_left (rstep ti) (map fst later) ri, bmap ti later).
Proof.
  intros ti later; induction later as [|[tj rj] rest IH]; intros ri.
  - reflexivity.
  - cbn [inner_row bmap map fold_left fst snd].
    unfold rstep at 2. rewrite pair_raw. rewrite IH. reflexivity.
Qed.

Definition dflt : partR * rhsR := (Build_part R 0 0 0 0, rhs0 R r_ops).

Definition others (i : nat) (ps : list (partR * rhsR)) : list (partR * rhsR) := firstn i ps ++ skipn (S i) ps.

Lemma others_bmap : forall t i ps, others i (bmap t ps) = bmap t (others i ps).
Proof.
  intros t i ps; unfold others, bmap. rewrite firstn_map, skipn_map, map_app; reflexivity.
Qed.

Lemma map_praw_bmap : forall t x l,
  map (fun pj => praw (fst pj) x) (bmap t l) = map (fun pj => praw (fst pj) x) l.
Proof. intros t x l; unfold bmap; rewrite map_map; apply map_ext; reflexivity. Qed.

Lemma nth_bmap : forall t i ps, (i < length ps)%nat ->
  nth i (bmap t ps) dflt = (fst (nth i ps dflt), back t (fst (nth i ps dflt)) (snd (nth i ps dflt))).
Proof.
  intros t i ps Hi; unfold bmap.
  set (h := fun sr : partR * rhsR => (fst sr, back t (fst sr) (snd sr))).
  rewrite (nth_indep (map h ps) dflt (h dflt)) by (rewrite map_length; exact Hi).
  exact (map_nth h ps dflt i).
Qed.

Lemma inner_loop_raw : forall n ps, length ps = n ->
  forall i, (i < n)%nat ->
    nth i (inner_loop R r_ops n ps) (rhs0 R r_ops) =
    radd (snd (nth i ps dflt)) (rsum (map (fun pj => praw (fst pj) (fst (nth i ps dflt))) (others i ps))).
Proof.
  induction n as [|n IH]; intros ps Hlen i Hi.
  - inversion Hi.
  - destruct ps as [|[t0 r0] later]; [discriminate Hlen|].
    cbn [length] in Hlen; injection Hlen as Hlen.
    cbn [inner_loop]. rewrite inner_row_spec.
    destruct i as [|i].
    + cbn [nth fst snd]. unfold others; cbn [firstn skipn app].
      rewrite fold_rstep, map_map; reflexivity.
    + cbn [nth]. assert (Hi' : (i < n)%nat) by (apply PeanoNat.Nat.succ_lt_mono; exact Hi).
      assert (Hl' : length (bmap t0 later) = n) by (unfold bmap; rewrite map_length; exact Hlen).
      rewrite (IH (bmap t0 later) Hl' i Hi').
      rewrite others_bmap, map_praw_bmap, nth_bmap by (rewrite Hlen; exact Hi').
      cbn [fst snd]. rewrite back_praw, radd_assoc.
      unfold others; cbn [firstn skipn app map fst]. rewrite rsum_cons. reflexivity.
Qed.

Lemma inner_raw : forall ps i, (i < length ps)%nat ->
  nth i (inner R r_ops ps) (rhs0 R r_ops) =
  radd (snd (nth i ps dflt)) (rsum (map (fun pj => praw (fst pj) (fst (nth i ps dflt))) (others i ps))).
Proof. intros ps i Hi; unfold inner; apply inner_loop_raw; [reflexivity|exact Hi]. Qed.

Lemma ordpairs_others : forall (A : Type) (P : A -> A -> Prop) (d : A),
  (forall a b, P a b -> P b a) ->
  forall ps, ForallOrdPairs P ps ->
  forall i, (i < length ps)%nat -> Forall (fun pj => P pj (nth i ps d)) (firstn i ps ++ skipn (S i) ps).
Proof.
  intros A P d Hsym ps H; induction H as [|a l Hal Hl IH]; intros i Hi.
  - inversion Hi.
  - destruct i as [|i].
    + cbn [firstn skipn app nth]. rewrite Forall_forall in *; intros b Hb; apply Hsym, Hal, Hb.
    + cbn [length] in Hi. apply PeanoNat.Nat.succ_lt_mono in Hi.
      cbn [firstn skipn app nth]. constructor.
      * rewrite Forall_forall in Hal; apply Hal, nth_In, Hi.
      * apply IH; exact Hi.
Qed.

(* inner: every particle receives the contributions of all the OTHERS and no self term,
   for any count including 0 and 1 *)
Theorem inner_law : forall ps, ForallOrdPairs (fun a b => apart (fst a) (fst b)) ps ->
  forall i, (i < length ps)%nat ->
    let pi := nth i ps (Build_part R 0 0 0 0, rhs0 R r_ops) in
    nth i (inner R r_ops ps) (rhs0 R r_ops) =
    radd (snd pi) (rsum (map (fun pj => contrib (fst pj) (fst pi)) (firstn i ps ++ skipn (S i) ps))).
Proof.
  intros ps H i Hi pi. rewrite (inner_raw ps i Hi). fold dflt in pi. fold pi. unfold others.
  do 2 f_equal. apply map_ext_in; intros pj Hj. apply praw_contrib.
  pose proof (ordpairs_others _ (fun a b => apart (fst a) (fst b)) dflt
                (fun a b Hab => apart_sym _ _ Hab) ps H i Hi) as HF.
  rewrite Forall_forall in HF. exact (HF pj Hj).
Qed.

Print Assumptions pair_law.
Print Assumptions remote_law.
Print Assumptions contrib_antisym.
Print Assumptions mutual_split.
Print Assumptions inner_law.
