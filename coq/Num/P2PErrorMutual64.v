(* Rounding clause of the direct P2P property, MUTUAL (FullMutualScalar) and IN-LEAF (GenericInnerScalar) routines on
   the ACTUAL IEEE binary64 computation: the bounds of Num/P2PErrorMutual.v (standard model) are transferred to Flocq's
   operations b64_ops, then to the SpecFloat instance sf_ops 53 1024 that is executed against the C++, in the way
   Num/P2PErrorSum.v does it for the one-sided routine.  No axiom is declared here. *)
From Coq Require Import List Reals Lra Psatz Lia Arith ZArith.
From Flocq Require Import Core Relative Plus_error IEEE754.BinarySingleNaN.
From Coq Require Import Floats.SpecFloat.
From Tbfmm Require Import Num.P2PDefs Num.P2PReal Num.P2PSF Float.LocateProofs Num.P2PError Num.P2PErrorSum
  Num.P2PErrorMutual.
Import ListNotations.
Local Open Scope R_scope.

(* ---------------------------------------------------------------------------------------------------------------- *)
(* Part 1: subtraction whose exact result may be zero, subnormal or normal *)

Lemma tr_sub_any : forall X Y a b, tr X a -> tr Y b -> Rabs (a - b) < bpow radix2 1023 ->
  tr (Bminus mode_NE X Y) (o_sub g64_ops a b).
Proof.
  intros X Y a b TX TY Hlt.
  destruct (Rle_or_lt (bpow radix2 (-1022)) (Rabs (a - b))) as [Hn|Hs].
  - apply tr_sub; [exact TX | exact TY | right; split; assumption].
  - destruct TX as [Fx <-]. destruct TY as [Fy <-].
    cbn [g64_ops o_sub]. rewrite (grnd_small _ Hs).
    assert (Hf : F64 (B2R X - B2R Y)).
    { unfold Rminus. apply (FLT_format_plus_small radix2 (-1074) 53);
        [apply B2R_F64 | apply generic_format_opp; apply B2R_F64 |].
      change (53 + -1074)%Z with (-1021)%Z.
      apply Rle_trans with (bpow radix2 (-1022)); [unfold Rminus in Hs; lra | apply bpow_le; lia]. }
    assert (Hr : rnd64 (B2R X - B2R Y) = B2R X - B2R Y)
      by (apply round_generic; [auto with typeclass_instances | exact Hf]).
    generalize (Bminus_correct 53 1024 _ _ mode_NE X Y Fx Fy).
    change (round radix2 (SpecFloat.fexp 53 1024) (round_mode mode_NE)) with rnd64.
    rewrite Hr. rewrite Rlt_bool_true.
    + intros (H1 & H2 & _). split; assumption.
    + apply Rlt_trans with (1 := Hs). apply bpow_lt; lia.
Qed.

(* ---------------------------------------------------------------------------------------------------------------- *)
(* Part 2a: the input conditions are symmetric *)

Lemma zr_opp : forall lo hi r, zr lo hi r -> zr lo hi (- r).
Proof.
  intros lo hi r [Z|H]; [left; rewrite Z; ring | right; rewrite Rabs_Ropp; exact H].
Qed.

Lemma zr_swap : forall lo hi a b, zr lo hi (a - b) -> zr lo hi (b - a).
Proof. intros lo hi a b H. replace (b - a) with (- (a - b)) by ring. apply zr_opp, H. Qed.

Lemma b64_inputs_ok_sym : forall s t : part b64, b64_inputs_ok s t -> b64_inputs_ok t s.
Proof.
  intros s t (Fs & Ft & (HX & HY & HZ) & Hap & Hvs & Hvt).
  split; [exact Ft|]. split; [exact Fs|].
  split; [split; [apply zr_swap, HX | split; [apply zr_swap, HY | apply zr_swap, HZ]]|].
  split; [apply apart_sym, Hap|]. split; assumption.
Qed.

(* ---------------------------------------------------------------------------------------------------------------- *)
(* Part 2b: the potential term of the in-place update of p by q *)

Definition bbterm_p (p q : part b64) : b64 :=
  let '(_, _, _, inv) := pair b64 b64_ops p q in Bmult mode_NE inv (p_v _ q).

Lemma b64_bterm_ok : forall p q : part b64, b64_inputs_ok p q ->
  term_ok (bbterm_p p q) (P2PErrorMutual.bterm_p g64_ops (partR_of p) (partR_of q)).
Proof.
  intros p q Hok. pose proof (b64_pair_g64_mag p q Hok) as H.
  unfold bbterm_p, P2PErrorMutual.bterm_p.
  destruct (pair b64 b64_ops p q) as [[[fx fy] fz] inv].
  destruct (pair R g64_ops (partR_of p) (partR_of q)) as [[[gx gy] gz] ginv].
  destruct H as ((_ & _ & _ & Ti) & _ & _ & _ & Pi).
  destruct Hok as (_ & (_ & _ & _ & Fvq) & _ & _ & _ & Hvq).
  unfold term_ok. split.
  - apply tr_mul; [exact Ti | apply tr_in; exact Fvq |]. cbn [partR_of p_v].
    apply (zr_nz (-321) 320); [apply (zr_mul (-161) 160 (-160) 160); [apply pr_zr; exact Pi | exact Hvq] | lia | lia].
  - cbn [partR_of p_v].
    apply Rle_trans with (bpow radix2 320); [|apply bpow_le; lia].
    apply (zr_abs_le (-321)).
    apply (g_mul_zr (-161) 160 (-160) 160); [apply pr_zr; exact Pi | exact Hvq | lia | lia].
Qed.

(* ---------------------------------------------------------------------------------------------------------------- *)
(* Part 2c: one accumulator, subtracting steps *)

Definition bsubterm (term : part b64 -> b64) (x : b64) (s : part b64) : b64 := Bminus mode_NE x (term s).

Lemma grnd_acc_bound_sub : forall k a b, 0 <= k <= 67108864 ->
  Rabs a <= k * (2 * Mterm) -> Rabs b <= Mterm -> Rabs (grnd (a - b)) <= (k + 1) * (2 * Mterm).
Proof.
  intros k a b Hk Ha Hb. unfold Rminus. apply grnd_acc_bound; [exact Hk | exact Ha | rewrite Rabs_Ropp; exact Hb].
Qed.

Lemma fold_tr_sub : forall (termB : part b64 -> b64) (termG : partR -> R) (srcs : list (part b64)),
  Forall (fun s => term_ok (termB s) (termG (partR_of s))) srcs ->
  forall (k : nat) (A : b64) (G : R), tr A G -> Rabs G <= INR k * (2 * Mterm) ->
  (Z.of_nat (k + length srcs) <= 2 ^ 26)%Z ->
  tr (fold_left (bsubterm termB) srcs A) (fold_left (subterm g64_ops termG) (map partR_of srcs) G) /\
  Rabs (fold_left (subterm g64_ops termG) (map partR_of srcs) G) <= INR (k + length srcs) * (2 * Mterm).
Proof.
  intros termB termG srcs HF; induction HF as [|s l Hs HF IH]; intros k A G HT HG Hk.
  - cbn [fold_left map length]. rewrite Nat.add_0_r. split; assumption.
  - cbn [fold_left map length] in *. rewrite Nat.add_succ_r in *.
    destruct Hs as [Ts Ms].
    assert (Hk' : 0 <= INR k <= 67108864) by (apply INR_le_2_26; lia).
    apply (IH (S k)).
    + unfold bsubterm, subterm. apply tr_sub_any; [exact HT | exact Ts |].
      apply (below_overflow (INR k)); [exact Hk'|].
      unfold Rminus. apply Rle_trans with (1 := Rabs_triang _ _). rewrite Rabs_Ropp. lra.
    + rewrite S_INR. unfold subterm. cbn [g64_ops o_sub]. apply grnd_acc_bound_sub; assumption.
    + exact Hk.
Qed.

(* two phases on one accumulator, from zero *)
Lemma two_phase_tr : forall (tB1 tB2 : part b64 -> b64) (tG1 tG2 : partR -> R) (l1 l2 : list (part b64)),
  Forall (fun s => term_ok (tB1 s) (tG1 (partR_of s))) l1 ->
  Forall (fun s => term_ok (tB2 s) (tG2 (partR_of s))) l2 ->
  (Z.of_nat (length l1 + length l2) <= 2 ^ 26)%Z ->
  tr (fold_left (baddterm tB2) l2 (fold_left (bsubterm tB1) l1 (B754_zero false)))
     (fold_left (addterm g64_ops tG2) (map partR_of l2) (fold_left (subterm g64_ops tG1) (map partR_of l1) 0)) /\
  tr (fold_left (baddterm tB2) l2 (fold_left (baddterm tB1) l1 (B754_zero false)))
     (fold_left (addterm g64_ops tG2) (map partR_of l2) (fold_left (addterm g64_ops tG1) (map partR_of l1) 0)).
Proof.
  intros tB1 tB2 tG1 tG2 l1 l2 H1 H2 Hlen.
  assert (H0 : Rabs 0 <= INR 0 * (2 * Mterm)) by (rewrite Rabs_R0; simpl; lra).
  assert (Hl1 : (Z.of_nat (0 + length l1) <= 2 ^ 26)%Z) by lia.
  split.
  - destruct (fold_tr_sub tB1 tG1 l1 H1 0%nat (B754_zero false) 0 tr_zero H0 Hl1) as [T1 B1].
    cbn [Nat.add] in B1.
    exact (proj1 (fold_tr tB2 tG2 l2 H2 (length l1) _ _ T1 B1 Hlen)).
  - destruct (fold_tr tB1 tG1 l1 H1 0%nat (B754_zero false) 0 tr_zero H0 Hl1) as [T1 B1].
    cbn [Nat.add] in B1.
    exact (proj1 (fold_tr tB2 tG2 l2 H2 (length l1) _ _ T1 B1 Hlen)).
Qed.

(* ---------------------------------------------------------------------------------------------------------------- *)
(* Part 2d: components of the record folds over b64_ops *)

Lemma b64_back_proj : forall (s : part b64) l r0,
  f_x _ (fold_left (fun a t => backT b64 b64_ops t s a) l r0)
    = fold_left (bsubterm (fun t => bterm_x t s)) l (f_x _ r0) /\
  f_y _ (fold_left (fun a t => backT b64 b64_ops t s a) l r0)
    = fold_left (bsubterm (fun t => bterm_y t s)) l (f_y _ r0) /\
  f_z _ (fold_left (fun a t => backT b64 b64_ops t s a) l r0)
    = fold_left (bsubterm (fun t => bterm_z t s)) l (f_z _ r0) /\
  f_p _ (fold_left (fun a t => backT b64 b64_ops t s a) l r0)
    = fold_left (baddterm (bbterm_p s)) l (f_p _ r0).
Proof.
  intros s l r0. repeat split.
  - apply (fold_left_proj _ _ _ (fun a t => backT b64 b64_ops t s a) (bsubterm (fun t => bterm_x t s)) (f_x b64)).
    intros a t; unfold backT, bsubterm, bterm_x; destruct (pair b64 b64_ops s t) as [[[? ?] ?] ?]; reflexivity.
  - apply (fold_left_proj _ _ _ (fun a t => backT b64 b64_ops t s a) (bsubterm (fun t => bterm_y t s)) (f_y b64)).
    intros a t; unfold backT, bsubterm, bterm_y; destruct (pair b64 b64_ops s t) as [[[? ?] ?] ?]; reflexivity.
  - apply (fold_left_proj _ _ _ (fun a t => backT b64 b64_ops t s a) (bsubterm (fun t => bterm_z t s)) (f_z b64)).
    intros a t; unfold backT, bsubterm, bterm_z; destruct (pair b64 b64_ops s t) as [[[? ?] ?] ?]; reflexivity.
  - apply (fold_left_proj _ _ _ (fun a t => backT b64 b64_ops t s a) (baddterm (bbterm_p s)) (f_p b64)).
    intros a t; unfold backT, baddterm, bbterm_p; destruct (pair b64 b64_ops s t) as [[[? ?] ?] ?]; reflexivity.
Qed.

Lemma b64_step_proj : forall (t : part b64) l r0,
  f_x _ (fold_left (stepT b64 b64_ops t) l r0) = fold_left (baddterm (bterm_x t)) l (f_x _ r0) /\
  f_y _ (fold_left (stepT b64 b64_ops t) l r0) = fold_left (baddterm (bterm_y t)) l (f_y _ r0) /\
  f_z _ (fold_left (stepT b64 b64_ops t) l r0) = fold_left (baddterm (bterm_z t)) l (f_z _ r0) /\
  f_p _ (fold_left (stepT b64 b64_ops t) l r0) = fold_left (baddterm (P2PErrorSum.bterm_p t)) l (f_p _ r0).
Proof.
  intros t l r0. repeat split.
  - apply (fold_left_proj _ _ _ (stepT b64 b64_ops t) (baddterm (bterm_x t)) (f_x b64)).
    intros a s; unfold stepT, baddterm, bterm_x; destruct (pair b64 b64_ops s t) as [[[? ?] ?] ?]; reflexivity.
  - apply (fold_left_proj _ _ _ (stepT b64 b64_ops t) (baddterm (bterm_y t)) (f_y b64)).
    intros a s; unfold stepT, baddterm, bterm_y; destruct (pair b64 b64_ops s t) as [[[? ?] ?] ?]; reflexivity.
  - apply (fold_left_proj _ _ _ (stepT b64 b64_ops t) (baddterm (bterm_z t)) (f_z b64)).
    intros a s; unfold stepT, baddterm, bterm_z; destruct (pair b64 b64_ops s t) as [[[? ?] ?] ?]; reflexivity.
  - apply (fold_left_proj _ _ _ (stepT b64 b64_ops t) (baddterm (P2PErrorSum.bterm_p t)) (f_p b64)).
    intros a s; unfold stepT, baddterm, P2PErrorSum.bterm_p; destruct (pair b64 b64_ops s t) as [[[? ?] ?] ?];
      reflexivity.
Qed.

(* ---------------------------------------------------------------------------------------------------------------- *)
(* Part 2e: the transfer: particle p, updated in place by the particles of l1, then accumulating those of l2.
   backT _ _ tk p evaluates pair p tk, stepT _ _ p _ tj evaluates pair tj p. *)

Theorem two_phase_g64 : forall (p : part b64) (l1 l2 : list (part b64)),
  Forall (fun q => b64_inputs_ok p q) l1 -> Forall (fun q => b64_inputs_ok q p) l2 ->
  (Z.of_nat (length l1 + length l2) <= 2 ^ 26)%Z ->
  let r := fold_left (stepT b64 b64_ops p) l2
             (fold_left (fun a tk => backT b64 b64_ops tk p a) l1 (rhs0 b64 b64_ops)) in
  let g := fold_left (stepT R g64_ops (partR_of p)) (map partR_of l2)
             (fold_left (fun a tk => backT R g64_ops tk (partR_of p) a) (map partR_of l1) (rhs0 R g64_ops)) in
  tr (f_x _ r) (f_x _ g) /\ tr (f_y _ r) (f_y _ g) /\ tr (f_z _ r) (f_z _ g) /\ tr (f_p _ r) (f_p _ g).
Proof.
  intros p l1 l2 H1 H2 Hlen r g. subst r g.
  destruct (b64_step_proj p l2 (fold_left (fun a tk => backT b64 b64_ops tk p a) l1 (rhs0 b64 b64_ops)))
    as (-> & -> & -> & ->).
  destruct (b64_back_proj p l1 (rhs0 b64 b64_ops)) as (-> & -> & -> & ->).
  destruct (step_proj g64_ops (partR_of p) (map partR_of l2)
              (fold_left (fun a tk => backT R g64_ops tk (partR_of p) a) (map partR_of l1) (rhs0 R g64_ops)))
    as (-> & -> & -> & ->).
  destruct (back_proj g64_ops (partR_of p) (map partR_of l1) (rhs0 R g64_ops)) as (-> & -> & -> & ->).
  cbn [rhs0 f_x f_y f_z f_p b64_ops g64_ops o_zero].
  split; [|split; [|split]].
  - apply (proj1 (two_phase_tr (fun t => bterm_x t p) (bterm_x p)
                    (fun t => term_x g64_ops t (partR_of p)) (term_x g64_ops (partR_of p)) l1 l2
                    ltac:(eapply Forall_impl; [|exact H1]; intros q Hq; apply (b64_terms_ok p q Hq))
                    ltac:(eapply Forall_impl; [|exact H2]; intros q Hq; apply (b64_terms_ok q p Hq)) Hlen)).
  - apply (proj1 (two_phase_tr (fun t => bterm_y t p) (bterm_y p)
                    (fun t => term_y g64_ops t (partR_of p)) (term_y g64_ops (partR_of p)) l1 l2
                    ltac:(eapply Forall_impl; [|exact H1]; intros q Hq; apply (b64_terms_ok p q Hq))
                    ltac:(eapply Forall_impl; [|exact H2]; intros q Hq; apply (b64_terms_ok q p Hq)) Hlen)).
  - apply (proj1 (two_phase_tr (fun t => bterm_z t p) (bterm_z p)
                    (fun t => term_z g64_ops t (partR_of p)) (term_z g64_ops (partR_of p)) l1 l2
                    ltac:(eapply Forall_impl; [|exact H1]; intros q Hq; apply (b64_terms_ok p q Hq))
                    ltac:(eapply Forall_impl; [|exact H2]; intros q Hq; apply (b64_terms_ok q p Hq)) Hlen)).
  - apply (proj2 (two_phase_tr (bbterm_p p) (P2PErrorSum.bterm_p p)
                    (P2PErrorMutual.bterm_p g64_ops (partR_of p)) (term_p g64_ops (partR_of p)) l1 l2
                    ltac:(eapply Forall_impl; [|exact H1]; intros q Hq; apply (b64_bterm_ok p q Hq))
                    ltac:(eapply Forall_impl; [|exact H2]; intros q Hq; apply (b64_terms_ok q p Hq)) Hlen)).
Qed.

(* ---------------------------------------------------------------------------------------------------------------- *)
(* Part 3: the bound on the actual binary64 computation, two-phase form and the sources of the mutual routine *)

Definition rhsR_of (r : rhs b64) : rhsR :=
  {| f_x := B2R (f_x _ r); f_y := B2R (f_y _ r); f_z := B2R (f_z _ r); f_p := B2R (f_p _ r) |}.

Definition rhs_finite (r : rhs b64) : Prop :=
  is_finite (f_x _ r) = true /\ is_finite (f_y _ r) = true /\ is_finite (f_z _ r) = true /\
  is_finite (f_p _ r) = true.

Lemma rhsR_eta : forall g : rhsR, {| f_x := f_x _ g; f_y := f_y _ g; f_z := f_z _ g; f_p := f_p _ g |} = g.
Proof. intros [x y z p]; reflexivity. Qed.

Lemma tr_rhs : forall (r : rhs b64) (g : rhsR),
  tr (f_x _ r) (f_x _ g) /\ tr (f_y _ r) (f_y _ g) /\ tr (f_z _ r) (f_z _ g) /\ tr (f_p _ r) (f_p _ g) ->
  rhs_finite r /\ rhsR_of r = g.
Proof.
  intros r g ((Fx & Ex) & (Fy & Ey) & (Fz & Ez) & (Fp & Ep)). split; [repeat split; assumption|].
  unfold rhsR_of. rewrite Ex, Ey, Ez, Ep. apply rhsR_eta.
Qed.

Lemma inputs_apart_l : forall (p : part b64) (l : list (part b64)),
  Forall (fun q => b64_inputs_ok p q) l -> Forall (fun q => apart q (partR_of p)) (map partR_of l).
Proof.
  intros p l HF. apply Forall_map. eapply Forall_impl; [|exact HF].
  intros q (_ & _ & _ & Hap & _). apply apart_sym, Hap.
Qed.

Lemma side_cond_nat : forall k : nat, (Z.of_nat k <= 2 ^ 26)%Z -> (INR k + 16) * (INR k + 17) * u64 <= 1.
Proof. intros k Hk. exact (proj1 (side_cond (INR k) (INR_le_2_26 k Hk))). Qed.

Theorem b64_two_phase_error : forall (p : part b64) (l1 l2 : list (part b64)),
  Forall (fun q => b64_inputs_ok p q) l1 -> Forall (fun q => b64_inputs_ok q p) l2 ->
  (Z.of_nat (length l1 + length l2) <= 2 ^ 26)%Z ->
  let r := fold_left (stepT b64 b64_ops p) l2
             (fold_left (fun a tk => backT b64 b64_ops tk p a) l1 (rhs0 b64 b64_ops)) in
  rhs_finite r /\ acc_bound (bpow radix2 (-53)) (map partR_of (l1 ++ l2)) (partR_of p) (rhsR_of r).
Proof.
  intros p l1 l2 H1 H2 Hlen r.
  destruct (tr_rhs _ _ (two_phase_g64 p l1 l2 H1 H2 Hlen)) as [Hfin Heq]. fold r in Hfin, Heq.
  split; [exact Hfin|]. rewrite Heq, map_app.
  apply (two_phase_bound u64 u64_range g64_ops g64_std_model).
  - apply Forall_app. split; [apply inputs_apart_l, H1 | apply (inputs_apart l2 p H2)].
  - rewrite app_length, !map_length. apply side_cond_nat. rewrite Nat2Z.inj_add. lia.
Qed.

Theorem b64_mutual_source_error : forall (tgts : list (part b64)) (s : part b64),
  Forall (fun t => b64_inputs_ok s t) tgts -> (Z.of_nat (length tgts) <= 2 ^ 26)%Z ->
  let r := fold_left (fun a t => backT b64 b64_ops t s a) tgts (rhs0 b64 b64_ops) in
  rhs_finite r /\ acc_bound (bpow radix2 (-53)) (map partR_of tgts) (partR_of s) (rhsR_of r).
Proof.
  intros tgts s HF Hlen r.
  pose proof (b64_two_phase_error s tgts [] HF (Forall_nil _)) as H.
  cbn [fold_left length] in H. rewrite Nat.add_0_r, app_nil_r in H. exact (H Hlen).
Qed.

(* the one-sided routine in the same form (b64_remote_error of Num/P2PErrorSum.v) *)
Theorem b64_remote_acc_bound : forall (srcs : list (part b64)) (t : part b64),
  Forall (fun s => b64_inputs_ok s t) srcs -> (Z.of_nat (length srcs) <= 2 ^ 26)%Z ->
  let r := remote_one b64 b64_ops srcs t (rhs0 b64 b64_ops) in
  rhs_finite r /\ acc_bound (bpow radix2 (-53)) (map partR_of srcs) (partR_of t) (rhsR_of r).
Proof.
  intros srcs t HF Hlen r. destruct (b64_remote_error srcs t HF Hlen) as (Hfin & HP & HFo).
  split; [exact Hfin|]. unfold acc_bound. rewrite map_length. cbn [rhsR_of f_x f_y f_z f_p].
  split; [exact HP | exact HFo].
Qed.

(* ---------------------------------------------------------------------------------------------------------------- *)
(* Part 4: the in-leaf routine on the actual binary64 computation *)

Theorem b64_inner_error : forall (ps : list (part b64 * rhs b64)) (d : part b64 * rhs b64),
  ForallOrdPairs (fun a b => b64_inputs_ok (fst a) (fst b)) ps ->
  Forall (fun pr => snd pr = rhs0 b64 b64_ops) ps ->
  (Z.of_nat (length ps) <= 2 ^ 26)%Z ->
  forall i, (i < length ps)%nat ->
    let r := nth i (inner b64 b64_ops ps) (rhs0 b64 b64_ops) in
    rhs_finite r /\
    acc_bound (bpow radix2 (-53)) (map partR_of (map fst (firstn i ps ++ skipn (S i) ps)))
      (partR_of (fst (nth i ps d))) (rhsR_of r).
Proof.
  intros ps d Hord Hz Hlen i Hi r. subst r.
  rewrite (inner_structure b64 b64_ops d (rhs0 b64 b64_ops) ps i Hi).
  assert (Z : snd (nth i ps d) = rhs0 b64 b64_ops).
  { rewrite Forall_forall in Hz. apply Hz, nth_In, Hi. }
  rewrite Z, map_app.
  pose proof (ordpairs_others _ (fun a b => b64_inputs_ok (fst a) (fst b)) d
                (fun a b Hab => b64_inputs_ok_sym _ _ Hab) ps Hord i Hi) as HF.
  apply Forall_app in HF. destruct HF as [HF1 HF2].
  apply b64_two_phase_error.
  - apply Forall_map. eapply Forall_impl; [|exact HF1]. intros a Ha. apply b64_inputs_ok_sym, Ha.
  - apply Forall_map. exact HF2.
  - rewrite !map_length, <- app_length.
    pose proof (others_length _ ps i Hi) as HL. lia.
Qed.

(* ---------------------------------------------------------------------------------------------------------------- *)
(* Part 5: the whole mutual routine on the actual binary64 computation, zero initial accumulators *)

Theorem b64_mutual_error : forall (srcs tgts : list (part b64 * rhs b64)),
  Forall (fun sr => snd sr = rhs0 b64 b64_ops) srcs -> Forall (fun tr => snd tr = rhs0 b64 b64_ops) tgts ->
  Forall (fun sr => Forall (fun tr => b64_inputs_ok (fst sr) (fst tr)) tgts) srcs ->
  (Z.of_nat (length tgts) <= 2 ^ 26)%Z -> (Z.of_nat (length srcs) <= 2 ^ 26)%Z ->
  Forall (fun sr' => rhs_finite (snd sr') /\
            acc_bound (bpow radix2 (-53)) (map partR_of (map fst tgts)) (partR_of (fst sr')) (rhsR_of (snd sr')))
    (fst (full_mutual b64 b64_ops srcs tgts)) /\
  Forall2 (fun tr r' => rhs_finite r' /\
            acc_bound (bpow radix2 (-53)) (map partR_of (map fst srcs)) (partR_of (fst tr)) (rhsR_of r'))
    tgts (snd (full_mutual b64 b64_ops srcs tgts)).
Proof.
  intros srcs tgts Zs Zt Hok Ht Hs. split.
  - rewrite full_mutual_sources. apply Forall_map. rewrite Forall_forall in *. intros sr Hin. cbn [fst snd].
    rewrite (Zs sr Hin). apply b64_mutual_source_error.
    + apply Forall_map. exact (Hok sr Hin).
    + rewrite map_length. exact Ht.
  - rewrite full_mutual_targets. unfold full_remote. apply Forall2_map_self.
    rewrite Forall_forall in *. intros tr Hin. rewrite (Zt tr Hin). apply b64_remote_acc_bound.
    + apply Forall_map. rewrite Forall_forall. intros sr Hsr.
      specialize (Hok sr Hsr). rewrite Forall_forall in Hok. exact (Hok tr Hin).
    + rewrite map_length. exact Hs.
Qed.

(* ---------------------------------------------------------------------------------------------------------------- *)
(* Part 6: the SpecFloat computations ARE the Flocq computations, for all inputs *)

Notation sfo := (sf_ops 53 1024).

Definition sf_pr (x : part b64 * rhs b64) : part spec_float * rhs spec_float := (sf_part (fst x), sf_rhs (snd x)).

Lemma sf_rhs0 : sf_rhs (rhs0 b64 b64_ops) = rhs0 spec_float sfo.
Proof. reflexivity. Qed.

Lemma sf_stepT_bridge : forall (t : part b64) (a : rhs b64) (s : part b64),
  stepT spec_float sfo (sf_part t) (sf_rhs a) (sf_part s) = sf_rhs (stepT b64 b64_ops t a s).
Proof. exact sf_step_bridge. Qed.

Lemma sf_backT_bridge : forall (t s : part b64) (a : rhs b64),
  backT spec_float sfo (sf_part t) (sf_part s) (sf_rhs a) = sf_rhs (backT b64 b64_ops t s a).
Proof.
  intros t s a. unfold backT. rewrite sf_pair_bridge.
  destruct (pair b64 b64_ops s t) as [[[dx dy] dz] inv].
  unfold sf_rhs. cbn [f_x f_y f_z f_p sf_part p_v sf_ops b64_ops o_add o_sub o_mul].
  rewrite <- sf_mult_bridge, <- sf_plus_bridge, <- !sf_minus_bridge. reflexivity.
Qed.

Lemma sf_fold_stepT_bridge : forall (t : part b64) (l : list (part b64)) (a : rhs b64),
  fold_left (stepT spec_float sfo (sf_part t)) (map sf_part l) (sf_rhs a)
  = sf_rhs (fold_left (stepT b64 b64_ops t) l a).
Proof.
  intros t l; induction l as [|s l IH]; intros a; cbn [map fold_left]; [reflexivity|].
  rewrite sf_stepT_bridge. apply IH.
Qed.

Lemma sf_fold_backT_bridge : forall (s : part b64) (l : list (part b64)) (a : rhs b64),
  fold_left (fun a t => backT spec_float sfo t (sf_part s) a) (map sf_part l) (sf_rhs a)
  = sf_rhs (fold_left (fun a t => backT b64 b64_ops t s a) l a).
Proof.
  intros s l; induction l as [|t l IH]; intros a; cbn [map fold_left]; [reflexivity|].
  rewrite sf_backT_bridge. apply IH.
Qed.

Lemma sf_remote_one_bridge : forall (srcs : list (part b64)) (t : part b64) (r : rhs b64),
  remote_one spec_float sfo (map sf_part srcs) (sf_part t) (sf_rhs r) = sf_rhs (remote_one b64 b64_ops srcs t r).
Proof.
  intros srcs t r. rewrite !remote_one_stepT. cbv zeta.
  rewrite <- sf_rhs0, sf_fold_stepT_bridge.
  set (acc := fold_left (stepT b64 b64_ops t) srcs (rhs0 b64 b64_ops)).
  unfold sf_rhs. cbn [f_x f_y f_z f_p sf_ops b64_ops o_add].
  rewrite <- !sf_plus_bridge. reflexivity.
Qed.

Lemma sf_pr_fst : forall l, map fst (map sf_pr l) = map sf_part (map fst l).
Proof. intros l. rewrite !map_map. apply map_ext. intros [p r]; reflexivity. Qed.

Theorem sf_full_mutual_bridge : forall (srcs tgts : list (part b64 * rhs b64)),
  full_mutual spec_float sfo (map sf_pr srcs) (map sf_pr tgts) =
  (map sf_pr (fst (full_mutual b64 b64_ops srcs tgts)), map sf_rhs (snd (full_mutual b64 b64_ops srcs tgts))).
Proof.
  intros srcs tgts.
  rewrite (surjective_pairing (full_mutual spec_float sfo (map sf_pr srcs) (map sf_pr tgts))).
  rewrite !full_mutual_sources, !full_mutual_targets, !sf_pr_fst.
  set (TS := map fst tgts). set (SS := map fst srcs). f_equal.
  - rewrite !map_map. apply map_ext. intros [s sr]. unfold sf_pr. cbn [fst snd].
    rewrite sf_fold_backT_bridge. reflexivity.
  - unfold full_remote. rewrite !map_map. apply map_ext. intros [t r]. unfold sf_pr. cbn [fst snd].
    apply sf_remote_one_bridge.
Qed.

Lemma sf_bmapT_bridge : forall (t : part b64) (l : list (part b64 * rhs b64)),
  bmapT spec_float sfo (sf_part t) (map sf_pr l) = map sf_pr (bmapT b64 b64_ops t l).
Proof.
  intros t l. unfold bmapT. rewrite !map_map. apply map_ext. intros [s sr]. unfold sf_pr. cbn [fst snd].
  rewrite sf_backT_bridge. reflexivity.
Qed.

Lemma sf_inner_loop_bridge : forall (n : nat) (ps : list (part b64 * rhs b64)),
  inner_loop spec_float sfo n (map sf_pr ps) = map sf_rhs (inner_loop b64 b64_ops n ps).
Proof.
  induction n as [|n IH]; intros ps; [reflexivity|].
  destruct ps as [|[t0 r0] later]; [reflexivity|].
  cbn [map inner_loop]. unfold sf_pr at 1. cbn [fst snd].
  rewrite !inner_row_gen. cbn [map]. rewrite sf_bmapT_bridge, IH.
  rewrite sf_pr_fst, sf_fold_stepT_bridge. reflexivity.
Qed.

Theorem sf_inner_bridge : forall (ps : list (part b64 * rhs b64)),
  inner spec_float sfo (map sf_pr ps) = map sf_rhs (inner b64 b64_ops ps).
Proof. intros ps. unfold inner. rewrite map_length. apply sf_inner_loop_bridge. Qed.

(* ---------------------------------------------------------------------------------------------------------------- *)
(* Part 7: the bounds for the SpecFloat instance sf_ops 53 1024 that is executed bit for bit against the C++ *)

Definition rhsR_of_sf (r : rhs spec_float) : rhsR :=
  {| f_x := SF2R radix2 (f_x _ r); f_y := SF2R radix2 (f_y _ r); f_z := SF2R radix2 (f_z _ r);
     f_p := SF2R radix2 (f_p _ r) |}.

Definition rhs_finite_sf (r : rhs spec_float) : Prop :=
  is_finite_SF (f_x _ r) = true /\ is_finite_SF (f_y _ r) = true /\ is_finite_SF (f_z _ r) = true /\
  is_finite_SF (f_p _ r) = true.

Lemma rhsR_of_sf_rhs : forall r : rhs b64, rhsR_of_sf (sf_rhs r) = rhsR_of r.
Proof. intros r. unfold rhsR_of_sf, rhsR_of, sf_rhs. cbn [f_x f_y f_z f_p]. rewrite !SF2R_B2SF. reflexivity. Qed.

Lemma rhs_finite_sf_rhs : forall r : rhs b64, rhs_finite_sf (sf_rhs r) <-> rhs_finite r.
Proof.
  intros r. unfold rhs_finite_sf, rhs_finite, sf_rhs. cbn [f_x f_y f_z f_p]. rewrite !is_finite_SF_B2SF. tauto.
Qed.

Theorem sf_two_phase_error : forall (p : part b64) (l1 l2 : list (part b64)),
  Forall (fun q => b64_inputs_ok p q) l1 -> Forall (fun q => b64_inputs_ok q p) l2 ->
  (Z.of_nat (length l1 + length l2) <= 2 ^ 26)%Z ->
  let r := fold_left (stepT spec_float sfo (sf_part p)) (map sf_part l2)
             (fold_left (fun a tk => backT spec_float sfo tk (sf_part p) a) (map sf_part l1)
                (rhs0 spec_float sfo)) in
  rhs_finite_sf r /\ acc_bound (bpow radix2 (-53)) (map partR_of (l1 ++ l2)) (partR_of p) (rhsR_of_sf r).
Proof.
  intros p l1 l2 H1 H2 Hlen r. subst r.
  rewrite <- sf_rhs0, sf_fold_backT_bridge, sf_fold_stepT_bridge, rhsR_of_sf_rhs, rhs_finite_sf_rhs.
  exact (b64_two_phase_error p l1 l2 H1 H2 Hlen).
Qed.

Theorem sf_mutual_source_error : forall (tgts : list (part b64)) (s : part b64),
  Forall (fun t => b64_inputs_ok s t) tgts -> (Z.of_nat (length tgts) <= 2 ^ 26)%Z ->
  let r := fold_left (fun a t => backT spec_float sfo t (sf_part s) a) (map sf_part tgts) (rhs0 spec_float sfo) in
  rhs_finite_sf r /\ acc_bound (bpow radix2 (-53)) (map partR_of tgts) (partR_of s) (rhsR_of_sf r).
Proof.
  intros tgts s HF Hlen r. subst r.
  rewrite <- sf_rhs0, sf_fold_backT_bridge, rhsR_of_sf_rhs, rhs_finite_sf_rhs.
  exact (b64_mutual_source_error tgts s HF Hlen).
Qed.

Theorem sf_inner_error : forall (ps : list (part b64 * rhs b64)) (d : part b64 * rhs b64),
  ForallOrdPairs (fun a b => b64_inputs_ok (fst a) (fst b)) ps ->
  Forall (fun pr => snd pr = rhs0 b64 b64_ops) ps ->
  (Z.of_nat (length ps) <= 2 ^ 26)%Z ->
  forall i, (i < length ps)%nat ->
    let r := nth i (inner spec_float sfo (map sf_pr ps)) (rhs0 spec_float sfo) in
    rhs_finite_sf r /\
    acc_bound (bpow radix2 (-53)) (map partR_of (map fst (firstn i ps ++ skipn (S i) ps)))
      (partR_of (fst (nth i ps d))) (rhsR_of_sf r).
Proof.
  intros ps d Hord Hz Hlen i Hi r. subst r.
  rewrite sf_inner_bridge, <- sf_rhs0, map_nth, rhsR_of_sf_rhs, rhs_finite_sf_rhs.
  exact (b64_inner_error ps d Hord Hz Hlen i Hi).
Qed.

Lemma Forall2_map_r : forall (A B C : Type) (h : B -> C) (Q : A -> C -> Prop) (l : list A) (l' : list B),
  Forall2 (fun a b => Q a (h b)) l l' -> Forall2 Q l (map h l').
Proof. intros A B C h Q l l' H; induction H; cbn [map]; constructor; assumption. Qed.

Lemma Forall2_weaken : forall (A B : Type) (Q Q' : A -> B -> Prop) (l : list A) (l' : list B),
  (forall a b, Q a b -> Q' a b) -> Forall2 Q l l' -> Forall2 Q' l l'.
Proof. intros A B Q Q' l l' HQ H; induction H; constructor; auto. Qed.

Theorem sf_mutual_error : forall (srcs tgts : list (part b64 * rhs b64)),
  Forall (fun sr => snd sr = rhs0 b64 b64_ops) srcs -> Forall (fun tr => snd tr = rhs0 b64 b64_ops) tgts ->
  Forall (fun sr => Forall (fun tr => b64_inputs_ok (fst sr) (fst tr)) tgts) srcs ->
  (Z.of_nat (length tgts) <= 2 ^ 26)%Z -> (Z.of_nat (length srcs) <= 2 ^ 26)%Z ->
  let res := full_mutual spec_float sfo (map sf_pr srcs) (map sf_pr tgts) in
  Forall2 (fun sr sr' => fst sr' = sf_part (fst sr) /\ rhs_finite_sf (snd sr') /\
            acc_bound (bpow radix2 (-53)) (map partR_of (map fst tgts)) (partR_of (fst sr)) (rhsR_of_sf (snd sr')))
    srcs (fst res) /\
  Forall2 (fun tr r' => rhs_finite_sf r' /\
            acc_bound (bpow radix2 (-53)) (map partR_of (map fst srcs)) (partR_of (fst tr)) (rhsR_of_sf r'))
    tgts (snd res).
Proof.
  intros srcs tgts Zs Zt Hok Ht Hs res. subst res. rewrite sf_full_mutual_bridge. cbn [fst snd].
  destruct (b64_mutual_error srcs tgts Zs Zt Hok Ht Hs) as [HS HT]. split.
  - apply Forall2_map_r. rewrite full_mutual_sources in HS |- *. apply Forall_map in HS.
    apply Forall2_map_self. eapply Forall_impl; [|exact HS]. intros sr [Hf Hb]. cbn [fst snd] in *.
    unfold sf_pr. cbn [fst snd]. rewrite rhsR_of_sf_rhs, rhs_finite_sf_rhs.
    split; [reflexivity | split; assumption].
  - apply Forall2_map_r. revert HT. apply Forall2_weaken. intros tr r' [Hf Hb].
    rewrite rhsR_of_sf_rhs, rhs_finite_sf_rhs. split; assumption.
Qed.

(* ---------------------------------------------------------------------------------------------------------------- *)
(* Part 8: the hypotheses are satisfiable (particles of Num/P2PErrorSum.v): sources (1,0,0), (0,2,0), target at the
   origin for the mutual routine; the leaf [origin; (1,0,0)] for the in-leaf routine *)

Definition z64 : rhs b64 := rhs0 b64 b64_ops.

Lemma ex_m_ok : Forall (fun sr : part b64 * rhs b64 =>
                  Forall (fun tr : part b64 * rhs b64 => b64_inputs_ok (fst sr) (fst tr)) [(ex_t, z64)])
                  [(ex_s1, z64); (ex_s2, z64)].
Proof.
  constructor; [constructor; [exact ex_ok1 | constructor]|].
  constructor; [constructor; [exact ex_ok2 | constructor]|]. constructor.
Qed.

Lemma ex_zero2 : Forall (fun sr : part b64 * rhs b64 => snd sr = rhs0 b64 b64_ops) [(ex_s1, z64); (ex_s2, z64)].
Proof. repeat constructor. Qed.
Lemma ex_zero1 : Forall (fun sr : part b64 * rhs b64 => snd sr = rhs0 b64 b64_ops) [(ex_t, z64)].
Proof. repeat constructor. Qed.
Lemma ex_len1 : (Z.of_nat (length [(ex_t, z64)]) <= 2 ^ 26)%Z.
Proof. cbn [length]. lia. Qed.
Lemma ex_len2 : (Z.of_nat (length [(ex_s1, z64); (ex_s2, z64)]) <= 2 ^ 26)%Z.
Proof. cbn [length]. lia. Qed.

Definition ex_sf_mutual_bound :=
  sf_mutual_error [(ex_s1, z64); (ex_s2, z64)] [(ex_t, z64)] ex_zero2 ex_zero1 ex_m_ok ex_len1 ex_len2.

Lemma ex_leaf_ok : ForallOrdPairs (fun a b : part b64 * rhs b64 => b64_inputs_ok (fst a) (fst b))
                     [(ex_t, z64); (ex_s1, z64)].
Proof.
  constructor; [constructor; [apply b64_inputs_ok_sym; exact ex_ok1 | constructor]|].
  constructor; [constructor|]. constructor.
Qed.

Lemma ex_leaf_zero : Forall (fun sr : part b64 * rhs b64 => snd sr = rhs0 b64 b64_ops) [(ex_t, z64); (ex_s1, z64)].
Proof. repeat constructor. Qed.
Lemma ex_leaf_len : (Z.of_nat (length [(ex_t, z64); (ex_s1, z64)]) <= 2 ^ 26)%Z.
Proof. cbn [length]. lia. Qed.

Definition ex_sf_inner_bound := sf_inner_error [(ex_t, z64); (ex_s1, z64)] (ex_t, z64) ex_leaf_ok ex_leaf_zero ex_leaf_len.

(* the values the executable SpecFloat model computes on them *)
Example ex_mutual_value :
  full_mutual spec_float sfo (map sf_pr [(ex_s1, z64); (ex_s2, z64)]) (map sf_pr [(ex_t, z64)]) =
  ([(sf_part ex_s1, {| f_x := S754_finite true 4503599627370496 (-52); f_y := S754_zero false;
                       f_z := S754_zero false; f_p := S754_finite false 4503599627370496 (-52) |});
    (sf_part ex_s2, {| f_x := S754_zero false; f_y := S754_finite true 4503599627370496 (-54);
                       f_z := S754_zero false; f_p := S754_finite false 4503599627370496 (-53) |})],
   [{| f_x := S754_finite false 4503599627370496 (-52); f_y := S754_finite false 4503599627370496 (-54);
       f_z := S754_zero false; f_p := S754_finite false 6755399441055744 (-52) |}]).
Proof. vm_compute. reflexivity. Qed.

Print Assumptions tr_sub_any.
Print Assumptions b64_inputs_ok_sym.
Print Assumptions two_phase_g64.
Print Assumptions b64_two_phase_error.
Print Assumptions b64_mutual_source_error.
Print Assumptions b64_inner_error.
Print Assumptions b64_mutual_error.
Print Assumptions sf_full_mutual_bridge.
Print Assumptions sf_inner_bridge.
Print Assumptions sf_two_phase_error.
Print Assumptions sf_mutual_source_error.
Print Assumptions sf_inner_error.
Print Assumptions sf_mutual_error.
