(* Executable model (exact rationals) of the one-dimensional building block of the uniform interpolation kernel:
   FUnifRoots<FReal, ORDER> (src/kernels/unifkernel/FUnifRoots.hpp): the equispaced roots on [-1,1], the Lagrange polynomials
   L(n, x) in the "reduced round-off" product form the C++ uses, and their derivatives dL(n, x).
   Compared with the C++ (double and float) on every run within rounding (checks/c05.py, harness/h_unif.cpp); the laws
   (interpolation property, partition of unity = charge conservation of P2M / M2M) are in Num/UnifProofs.v. *)
From Coq Require Import QArith List ZArith.
Import ListNotations.
Local Open Scope Q_scope.

(* roots[m] = -1 + 2 m / (order - 1), m = 0 .. order-1 *)
Definition unif_root (order m : nat) : Q := -1 + (2 * inject_Z (Z.of_nat m)) / inject_Z (Z.of_nat order - 1).

Fixpoint qfact (n : nat) : Q := match n with O => 1 | S k => inject_Z (Z.of_nat (S k)) * qfact k end.
Fixpoint qpow (x : Q) (n : nat) : Q := match n with O => 1 | S k => x * qpow x k end.

(* L(n, x) = (-1)^(order-n-1) / (2^(order-1) n! (order-n-1)!) * prod_{m <> n} ((order-1)(x+1) - 2m) *)
Definition unif_scale (order n : nat) : Q :=
  (if Nat.odd (order - n - 1) then -1 else 1) / (qpow 2 (order - 1) * qfact n * qfact (order - n - 1)).
Definition unif_L (order n : nat) (x : Q) : Q :=
  fold_left (fun acc m => if Nat.eqb m n then acc else acc * (inject_Z (Z.of_nat order - 1) * (x + 1) - 2 * inject_Z (Z.of_nat m)))
            (seq 0 order) 1 * unif_scale order n.

(* dL(n, x) = sum_{p <> n} prod_{m <> n, m <> p} (x - root m) / prod_{p <> n} (root n - root p) *)
Definition unif_dL (order n : nat) (x : Q) : Q :=
  let num := fold_left (fun acc p => if Nat.eqb p n then acc else
               acc + fold_left (fun t m => if Nat.eqb m n || Nat.eqb m p then t else t * (x - unif_root order m)) (seq 0 order) 1)
             (seq 0 order) 0 in
  let den := fold_left (fun acc p => if Nat.eqb p n then acc else acc * (unif_root order n - unif_root order p)) (seq 0 order) 1 in
  num / den.

(* the textbook form, for the equivalence theorem *)
Definition lagrange (order n : nat) (x : Q) : Q :=
  fold_left (fun acc m => if Nat.eqb m n then acc else acc * ((x - unif_root order m) / (unif_root order n - unif_root order m)))
            (seq 0 order) 1.

(* P2M weight of a particle at local coordinates (x, y, z) on node (i, j, k), and the sum over all nodes *)
Definition unif_weight (order : nat) (x y z : Q) (i j k : nat) : Q := unif_L order i x * unif_L order j y * unif_L order k z.
Definition qsum (l : list Q) : Q := fold_left Qplus l 0.
Definition unif_total_weight (order : nat) (x y z : Q) : Q :=
  qsum (flat_map (fun i => flat_map (fun j => map (fun k => unif_weight order x y z i j k) (seq 0 order)) (seq 0 order)) (seq 0 order)).
