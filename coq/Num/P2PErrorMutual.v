(* Rounding clause of the direct P2P property, extended to the MUTUAL (FullMutualScalar) and IN-LEAF
   (GenericInnerScalar) routines of Num/P2PDefs.v.
     Part A  structure, for every carrier type and arithmetic: the targets of the mutual routine are those of the
             one-sided routine; every source is the left fold of the in-place updates over the targets; particle i of
             the in-leaf routine first receives the in-place updates of the earlier particles, then accumulates the
             later ones.
     Part B  rounding bound (standard model, unit roundoff u) for the sources of the mutual routine, and the whole
             routine (mutual_error).
     Part C  the same bound for every particle of the in-leaf routine.
   No axiom is declared here. *)
From Coq Require Import List Reals Lra Psatz Lia Arith.
From Tbfmm Require Import Num.P2PDefs Num.P2PReal Num.P2PError.
Import ListNotations.

(* ---------------------------------------------------------------------------------------------------------------- *)
(* Part A: structure, any arithmetic *)

Section Structure.
Variable T : Type.
Variable ar : ops T.

(* the in-place update of the source s (rhs sr) by the target t: exactly the sr' of mutual_inner / rj' of inner_row *)
Definition backT (t s : part T) (sr : rhs T) : rhs T :=
  let '(dx, dy, dz, inv) := pair T ar s t in
  {| f_x := o_sub ar (f_x _ sr) dx; f_y := o_sub ar (f_y _ sr) dy; f_z := o_sub ar (f_z _ sr) dz;
     f_p := o_add ar (f_p _ sr) (o_mul ar inv (p_v _ t)) |}.

(* the "+ term" step of the accumulator of the target t for the source s *)
Definition stepT (t : part T) (a : rhs T) (s : part T) : rhs T :=
  let '(dx, dy, dz, inv) := pair T ar s t in
  {| f_x := o_add ar (f_x _ a) dx; f_y := o_add ar (f_y _ a) dy; f_z := o_add ar (f_z _ a) dz;
     f_p := o_add ar (f_p _ a) (o_mul ar inv (p_v _ s)) |}.

Definition bmapT (t : part T) (srcs : list (part T * rhs T)) : list (part T * rhs T) :=
  map (fun sr => (fst sr, backT t (fst sr) (snd sr))) srcs.

Lemma remote_one_stepT : forall srcs t r,
  remote_one T ar srcs t r =
  let acc := fold_left (stepT t) srcs (rhs0 T ar) in
  {| f_x := o_add ar (f_x _ r) (f_x _ acc); f_y := o_add ar (f_y _ r) (f_y _ acc);
     f_z := o_add ar (f_z _ r) (f_z _ acc); f_p := o_add ar (f_p _ r) (f_p _ acc) |}.
Proof. reflexivity. Qed.

Lemma mutual_inner_gen : forall t srcs acc,
  mutual_inner T ar t srcs acc = (bmapT t srcs, fold_left (stepT t) (map fst srcs) acc).
Proof.
  intros t srcs; induction srcs as [|[s sr] rest IH]; intros acc.
  - reflexivity.
  - cbn [mutual_inner bmapT map fold_left fst snd].
    unfold stepT at 2. unfold backT at 1.
    destruct (pair T ar s t) as [[[dx dy] dz] inv].
    rewrite IH. reflexivity.
Qed.

Lemma bmapT_fst : forall t srcs, map fst (bmapT t srcs) = map fst srcs.
Proof. intros t srcs; unfold bmapT; rewrite map_map; apply map_ext; reflexivity. Qed.

Lemma full_mutual_cons : forall srcs t r rest,
  full_mutual T ar srcs ((t, r) :: rest) =
  (fst (full_mutual T ar (bmapT t srcs) rest),
   remote_one T ar (map fst srcs) t r :: snd (full_mutual T ar (bmapT t srcs) rest)).
Proof.
  intros srcs t r rest. cbn [full_mutual]. rewrite mutual_inner_gen.
  destruct (full_mutual T ar (bmapT t srcs) rest) as [srcsf rs]. reflexivity.
Qed.

(* A1 *)
Theorem full_mutual_targets : forall srcs tgts,
  snd (full_mutual T ar srcs tgts) = full_remote T ar (map fst srcs) tgts.
Proof.
  intros srcs tgts; revert srcs; induction tgts as [|[t r] rest IH]; intros srcs.
  - reflexivity.
  - rewrite full_mutual_cons. cbn [snd]. rewrite IH, bmapT_fst. reflexivity.
Qed.

(* A2 *)
Theorem full_mutual_sources : forall srcs tgts,
  fst (full_mutual T ar srcs tgts) =
  map (fun sr => (fst sr, fold_left (fun a t => backT t (fst sr) a) (map fst tgts) (snd sr))) srcs.
Proof.
  intros srcs tgts; revert srcs; induction tgts as [|[t r] rest IH]; intros srcs.
  - cbn [full_mutual fst map fold_left]. rewrite <- (map_id srcs) at 1. apply map_ext; intros [s sr]; reflexivity.
  - rewrite full_mutual_cons. cbn [fst]. rewrite IH. unfold bmapT. rewrite map_map.
    apply map_ext; intros [s sr]; reflexivity.
Qed.

(* in-leaf routine *)
Lemma inner_row_gen : forall ti later ri,
  inner_row T ar ti ri later = (fold_left (stepT ti) (map fst later) ri, bmapT ti later).
Proof.
  intros ti later; induction later as [|[tj rj] rest IH]; intros ri.
  - reflexivity.
  - cbn [inner_row bmapT map fold_left fst snd].
    unfold stepT at 2. unfold backT at 1.
    destruct (pair T ar tj ti) as [[[dx dy] dz] inv].
    rewrite IH. reflexivity.
Qed.

Lemma nth_bmapT : forall (dd : part T * rhs T) t i ps, (i < length ps)%nat ->
  nth i (bmapT t ps) dd = (fst (nth i ps dd), backT t (fst (nth i ps dd)) (snd (nth i ps dd))).
Proof.
  intros dd t i ps Hi; unfold bmapT.
  set (h := fun sr : part T * rhs T => (fst sr, backT t (fst sr) (snd sr))).
  rewrite (nth_indep (map h ps) dd (h dd)) by (rewrite map_length; exact Hi).
  exact (map_nth h ps dd i).
Qed.

Lemma fst_firstn_bmapT : forall t i ps, map fst (firstn i (bmapT t ps)) = map fst (firstn i ps).
Proof. intros t i ps. rewrite <- !firstn_map, bmapT_fst. reflexivity. Qed.

Lemma fst_skipn_bmapT : forall t i ps, map fst (skipn i (bmapT t ps)) = map fst (skipn i ps).
Proof. intros t i ps. rewrite <- !skipn_map, bmapT_fst. reflexivity. Qed.

(* the value of particle i: updates of the earlier particles (in order), then the terms of the later ones (in order) *)
Definition inner_value (dd : part T * rhs T) (ps : list (part T * rhs T)) (i : nat) : rhs T :=
  let ti := fst (nth i ps dd) in
  fold_left (stepT ti) (map fst (skipn (S i) ps))
    (fold_left (fun a tk => backT tk ti a) (map fst (firstn i ps)) (snd (nth i ps dd))).

Lemma inner_loop_structure : forall (dd : part T * rhs T) (d : rhs T) n ps, length ps = n ->
  forall i, (i < n)%nat -> nth i (inner_loop T ar n ps) d = inner_value dd ps i.
Proof.
  intros dd d; induction n as [|n IH]; intros ps Hlen i Hi.
  - inversion Hi.
  - destruct ps as [|[t0 r0] later]; [discriminate Hlen|].
    cbn [length] in Hlen; injection Hlen as Hlen.
    cbn [inner_loop]. rewrite inner_row_gen.
    destruct i as [|i].
    + reflexivity.
    + cbn [nth]. assert (Hi' : (i < n)%nat) by (apply PeanoNat.Nat.succ_lt_mono; exact Hi).
      assert (Hl' : length (bmapT t0 later) = n) by (unfold bmapT; rewrite map_length; exact Hlen).
      rewrite (IH (bmapT t0 later) Hl' i Hi').
      unfold inner_value.
      rewrite fst_firstn_bmapT, fst_skipn_bmapT, nth_bmapT by (rewrite Hlen; exact Hi').
      cbn [fst snd nth firstn skipn map fold_left]. reflexivity.
Qed.

(* A3 *)
Theorem inner_structure : forall (dd : part T * rhs T) (d : rhs T) ps i, (i < length ps)%nat ->
  nth i (inner T ar ps) d =
  fold_left (stepT (fst (nth i ps dd))) (map fst (skipn (S i) ps))
    (fold_left (fun a tk => backT tk (fst (nth i ps dd)) a) (map fst (firstn i ps)) (snd (nth i ps dd))).
Proof. intros dd d ps i Hi. unfold inner. apply (inner_loop_structure dd d); [reflexivity | exact Hi]. Qed.

Lemma inner_length : forall ps, length (inner T ar ps) = length ps.
Proof.
  intros ps; unfold inner. remember (length ps) as n eqn:Hn. symmetry in Hn. revert ps Hn.
  induction n as [|n IH]; intros ps Hn.
  - reflexivity.
  - destruct ps as [|[t0 r0] later]; [discriminate Hn|].
    cbn [length] in Hn; injection Hn as Hn.
    cbn [inner_loop]. rewrite inner_row_gen. cbn [length]. f_equal.
    apply IH. unfold bmapT; rewrite map_length; exact Hn.
Qed.

End Structure.


(* ---------------------------------------------------------------------------------------------------------------- *)
(* Part B: rounding, standard model *)

Local Open Scope R_scope.

(* r approximates the sum of the contributions to the particle p of the particles of L (exact law: contrib q p),
   in the form of remote_potential_error / remote_force_error, n = number of contributions *)
Definition acc_bound (u : R) (L : list partR) (p : partR) (r : rhsR) : Prop :=
  let n := INR (length L) in
  Rabs (f_p _ r - Rsum (map (fun q => p_v _ q / rdist q p) L))
    <= ((n + 7) * u) * Rsum (map (fun q => Rabs (p_v _ q) / rdist q p) L) /\
  Rabs (f_x _ r - Rsum (map (fun q => f_x _ (contrib q p)) L))
    <= ((n + 17) * u) * Rsum (map (fun q => Rabs (f_x _ (contrib q p))) L) /\
  Rabs (f_y _ r - Rsum (map (fun q => f_y _ (contrib q p)) L))
    <= ((n + 17) * u) * Rsum (map (fun q => Rabs (f_y _ (contrib q p))) L) /\
  Rabs (f_z _ r - Rsum (map (fun q => f_z _ (contrib q p)) L))
    <= ((n + 17) * u) * Rsum (map (fun q => Rabs (f_z _ (contrib q p))) L).

Lemma Forall2_map_self : forall (A B : Type) (Q : A -> B -> Prop) (h : A -> B) (l : list A),
  Forall (fun x => Q x (h x)) l -> Forall2 Q l (map h l).
Proof. intros A B Q h l H; induction H; cbn [map]; constructor; assumption. Qed.

Section Rounding.
Variable u : R.
Hypothesis Hu : 0 <= u <= 1 / 1024.
Variable ar : ops R.
Hypothesis Hm : std_model u ar.

Lemma rel_opp : forall k x y, rel u k x y -> rel u k (- x) (- y).
Proof. intros k x y [f [Hf ->]]. exists f; split; [exact Hf | ring]. Qed.

Lemma Rsum_app : forall a b, Rsum (a ++ b) = Rsum a + Rsum b.
Proof.
  induction a as [|x a IH]; intros b; cbn [app].
  - unfold Rsum at 2; cbn [fold_right]; lra.
  - rewrite !Rsum_cons, IH; lra.
Qed.

(* ---- subtracting steps: a - b = a + (- b) ---- *)
Section SubFold.
Variables (term exact : partR -> R) (k : nat).

Definition subterm (x : R) (s : partR) : R := o_sub ar x (term s).

(* the computed term approximates MINUS the exact contribution *)
Lemma P_subterm : forall m acc A B s, (k <= m)%nat -> rel u k (term s) (- exact s) -> P u m acc A B ->
  P u (S m) (subterm acc s) (A + exact s) (B + Rabs (exact s)).
Proof.
  intros m acc A B s Hk Hs HP. unfold subterm.
  destruct Hm as (_ & Hsub & _). destruct (Hsub acc (term s)) as [e [He ->]].
  apply (P_round u Hu); [|exact He].
  replace (acc - term s) with (acc + - term s) by ring.
  apply P_add; [exact HP|]. apply (P_of_rel u Hu k); [exact Hk|].
  apply rel_opp in Hs. rewrite Ropp_involutive in Hs. exact Hs.
Qed.

Lemma fold_P_sub : forall l, Forall (fun s => rel u k (term s) (- exact s)) l ->
  forall m acc A B, (k <= m)%nat -> P u m acc A B ->
  P u (m + length l) (fold_left subterm l acc) (A + Rsum (map exact l))
    (B + Rsum (map (fun s => Rabs (exact s)) l)).
Proof.
  intros l HF; induction HF as [|s l Hs HF IH]; intros m acc A B Hk HP.
  - cbn [fold_left map length]. unfold Rsum; cbn [fold_right]. rewrite Nat.add_0_r, !Rplus_0_r. exact HP.
  - cbn [fold_left map length]. rewrite !Rsum_cons, <- !Rplus_assoc, Nat.add_succ_r.
    apply (IH (S m)); [lia|]. apply P_subterm; assumption.
Qed.
End SubFold.

(* ---- two phases from zero: l1 with one kind of step, then l2 with adding steps ---- *)
Lemma phase_sub_add : forall (tm1 tm2 exact : partR -> R) (k : nat) l1 l2,
  Forall (fun s => rel u k (tm1 s) (- exact s)) l1 -> Forall (fun s => rel u k (tm2 s) (exact s)) l2 ->
  P u (k + length (l1 ++ l2)) (fold_left (addterm ar tm2) l2 (fold_left (subterm tm1) l1 0))
    (Rsum (map exact (l1 ++ l2))) (Rsum (map (fun s => Rabs (exact s)) (l1 ++ l2))).
Proof.
  intros tm1 tm2 exact k l1 l2 H1 H2.
  pose proof (fold_P_sub tm1 exact k l1 H1 k 0 0 0 (le_n k) (P_zero u k)) as Q1.
  pose proof (fold_P u Hu ar Hm tm2 exact k l2 H2 _ _ _ _ (Nat.le_add_r k (length l1)) Q1) as Q2.
  rewrite !map_app, !Rsum_app, app_length, Nat.add_assoc.
  rewrite !Rplus_0_l in Q2. exact Q2.
Qed.

Lemma phase_add_add : forall (tm1 tm2 exact : partR -> R) (k : nat) l1 l2,
  Forall (fun s => rel u k (tm1 s) (exact s)) l1 -> Forall (fun s => rel u k (tm2 s) (exact s)) l2 ->
  P u (k + length (l1 ++ l2)) (fold_left (addterm ar tm2) l2 (fold_left (addterm ar tm1) l1 0))
    (Rsum (map exact (l1 ++ l2))) (Rsum (map (fun s => Rabs (exact s)) (l1 ++ l2))).
Proof.
  intros tm1 tm2 exact k l1 l2 H1 H2.
  pose proof (fold_P u Hu ar Hm tm1 exact k l1 H1 k 0 0 0 (le_n k) (P_zero u k)) as Q1.
  pose proof (fold_P u Hu ar Hm tm2 exact k l2 H2 _ _ _ _ (Nat.le_add_r k (length l1)) Q1) as Q2.
  rewrite !map_app, !Rsum_app, app_length, Nat.add_assoc.
  rewrite !Rplus_0_l in Q2. exact Q2.
Qed.

(* ---- the components of the two kinds of record steps ---- *)
(* potential term of the in-place update of s by t *)
Definition bterm_p (s t : partR) : R := let '(_, _, _, inv) := pair R ar s t in o_mul ar inv (p_v _ t).

Lemma back_proj : forall s l r0,
  f_x _ (fold_left (fun a t => backT R ar t s a) l r0) = fold_left (subterm (fun t => term_x ar t s)) l (f_x _ r0) /\
  f_y _ (fold_left (fun a t => backT R ar t s a) l r0) = fold_left (subterm (fun t => term_y ar t s)) l (f_y _ r0) /\
  f_z _ (fold_left (fun a t => backT R ar t s a) l r0) = fold_left (subterm (fun t => term_z ar t s)) l (f_z _ r0) /\
  f_p _ (fold_left (fun a t => backT R ar t s a) l r0) = fold_left (addterm ar (bterm_p s)) l (f_p _ r0).
Proof.
  intros s l r0. repeat split.
  - apply (fold_left_proj _ _ _ (fun a t => backT R ar t s a) (subterm (fun t => term_x ar t s)) (f_x R)).
    intros a t; unfold backT, subterm, term_x; destruct (pair R ar s t) as [[[? ?] ?] ?]; reflexivity.
  - apply (fold_left_proj _ _ _ (fun a t => backT R ar t s a) (subterm (fun t => term_y ar t s)) (f_y R)).
    intros a t; unfold backT, subterm, term_y; destruct (pair R ar s t) as [[[? ?] ?] ?]; reflexivity.
  - apply (fold_left_proj _ _ _ (fun a t => backT R ar t s a) (subterm (fun t => term_z ar t s)) (f_z R)).
    intros a t; unfold backT, subterm, term_z; destruct (pair R ar s t) as [[[? ?] ?] ?]; reflexivity.
  - apply (fold_left_proj _ _ _ (fun a t => backT R ar t s a) (addterm ar (bterm_p s)) (f_p R)).
    intros a t; unfold backT, addterm, bterm_p; destruct (pair R ar s t) as [[[? ?] ?] ?]; reflexivity.
Qed.

Lemma step_proj : forall t l r0,
  f_x _ (fold_left (stepT R ar t) l r0) = fold_left (addterm ar (term_x ar t)) l (f_x _ r0) /\
  f_y _ (fold_left (stepT R ar t) l r0) = fold_left (addterm ar (term_y ar t)) l (f_y _ r0) /\
  f_z _ (fold_left (stepT R ar t) l r0) = fold_left (addterm ar (term_z ar t)) l (f_z _ r0) /\
  f_p _ (fold_left (stepT R ar t) l r0) = fold_left (addterm ar (term_p ar t)) l (f_p _ r0).
Proof.
  intros t l r0. repeat split.
  - apply (fold_left_proj _ _ _ (stepT R ar t) (addterm ar (term_x ar t)) (f_x R)).
    intros a s; unfold stepT, addterm, term_x; destruct (pair R ar s t) as [[[? ?] ?] ?]; reflexivity.
  - apply (fold_left_proj _ _ _ (stepT R ar t) (addterm ar (term_y ar t)) (f_y R)).
    intros a s; unfold stepT, addterm, term_y; destruct (pair R ar s t) as [[[? ?] ?] ?]; reflexivity.
  - apply (fold_left_proj _ _ _ (stepT R ar t) (addterm ar (term_z ar t)) (f_z R)).
    intros a s; unfold stepT, addterm, term_z; destruct (pair R ar s t) as [[[? ?] ?] ?]; reflexivity.
  - apply (fold_left_proj _ _ _ (stepT R ar t) (addterm ar (term_p ar t)) (f_p R)).
    intros a s; unfold stepT, addterm, term_p; destruct (pair R ar s t) as [[[? ?] ?] ?]; reflexivity.
Qed.

(* the terms of the in-place update of s by t: the force terms approximate MINUS the contribution of t to s
   (equal and opposite forces), the potential term approximates the potential of t at s *)
Lemma bterm_rel : forall s t, apart s t ->
  rel u 15 (term_x ar t s) (- f_x _ (contrib t s)) /\ rel u 15 (term_y ar t s) (- f_y _ (contrib t s)) /\
  rel u 15 (term_z ar t s) (- f_z _ (contrib t s)) /\ rel u 5 (bterm_p s t) (f_p _ (contrib t s)).
Proof.
  intros s t Hap. destruct (contrib_antisym s t Hap) as (Ax & Ay & Az & _).
  rewrite Ax, Ay, Az, !Ropp_involutive.
  pose proof (pair_rel u Hu ar Hm s t Hap) as H. unfold term_x, term_y, term_z, bterm_p.
  destruct (pair R ar s t) as [[[fx fy] fz] inv]. destruct H as (Hx & Hy & Hz & Hi).
  repeat split; try assumption.
  cbn [contrib f_p]. unfold Rdiv. rewrite (rdist_sym t s), (Rmult_comm (p_v _ t)).
  apply (m_mul u Hu ar Hm 4 0); [exact Hi | apply rel_refl, Hu].
Qed.

(* ---- both phases, every component: particle p, updated in place by l1 then accumulating l2 ---- *)
Lemma two_phase_P : forall p l1 l2, Forall (fun q => apart q p) (l1 ++ l2) ->
  let r := fold_left (stepT R ar p) l2 (fold_left (fun a q => backT R ar q p a) l1 (rhs0 R ar)) in
  let L := l1 ++ l2 in
  P u (15 + length L) (f_x _ r) (Rsum (map (fun q => f_x _ (contrib q p)) L))
    (Rsum (map (fun q => Rabs (f_x _ (contrib q p))) L)) /\
  P u (15 + length L) (f_y _ r) (Rsum (map (fun q => f_y _ (contrib q p)) L))
    (Rsum (map (fun q => Rabs (f_y _ (contrib q p))) L)) /\
  P u (15 + length L) (f_z _ r) (Rsum (map (fun q => f_z _ (contrib q p)) L))
    (Rsum (map (fun q => Rabs (f_z _ (contrib q p))) L)) /\
  P u (5 + length L) (f_p _ r) (Rsum (map (fun q => f_p _ (contrib q p)) L))
    (Rsum (map (fun q => Rabs (f_p _ (contrib q p))) L)).
Proof.
  intros p l1 l2 HF r L. subst r L. apply Forall_app in HF. destruct HF as [H1 H2].
  destruct (step_proj p l2 (fold_left (fun a q => backT R ar q p a) l1 (rhs0 R ar))) as (-> & -> & -> & ->).
  destruct (back_proj p l1 (rhs0 R ar)) as (-> & -> & -> & ->).
  cbn [rhs0 f_x f_y f_z f_p].
  pose proof Hm as (_ & _ & _ & _ & _ & Hz & _). rewrite Hz.
  assert (B1 : Forall (fun q => apart p q) l1).
  { eapply Forall_impl; [|exact H1]. intros q Hq; apply apart_sym, Hq. }
  split; [|split; [|split]].
  - apply (phase_sub_add (fun q => term_x ar q p) (term_x ar p) (fun q => f_x _ (contrib q p)) 15 l1 l2).
    + eapply Forall_impl; [|exact B1]. intros q Hq; apply (bterm_rel p q Hq).
    + eapply Forall_impl; [|exact H2]. intros q Hq; apply (term_rel u Hu ar Hm q p Hq).
  - apply (phase_sub_add (fun q => term_y ar q p) (term_y ar p) (fun q => f_y _ (contrib q p)) 15 l1 l2).
    + eapply Forall_impl; [|exact B1]. intros q Hq; apply (bterm_rel p q Hq).
    + eapply Forall_impl; [|exact H2]. intros q Hq; apply (term_rel u Hu ar Hm q p Hq).
  - apply (phase_sub_add (fun q => term_z ar q p) (term_z ar p) (fun q => f_z _ (contrib q p)) 15 l1 l2).
    + eapply Forall_impl; [|exact B1]. intros q Hq; apply (bterm_rel p q Hq).
    + eapply Forall_impl; [|exact H2]. intros q Hq; apply (term_rel u Hu ar Hm q p Hq).
  - apply (phase_add_add (bterm_p p) (term_p ar p) (fun q => f_p _ (contrib q p)) 5 l1 l2).
    + eapply Forall_impl; [|exact B1]. intros q Hq; apply (bterm_rel p q Hq).
    + eapply Forall_impl; [|exact H2]. intros q Hq; apply (term_rel u Hu ar Hm q p Hq).
Qed.

(* ---- linear form ---- *)
Lemma P_lin : forall K c x A B, P u K x A B -> E u K <= c -> Rabs (x - A) <= c * B.
Proof.
  intros K c x A B [H1 H2] Hc. apply Rle_trans with (1 := H1).
  apply Rmult_le_compat_r; [pose proof (Rabs_pos A); lra | exact Hc].
Qed.

Lemma E15n : forall n, (INR n + 16) * (INR n + 17) * u <= 1 -> E u (15 + n) <= (INR n + 17) * u.
Proof.
  intros n H. apply Rle_trans with (E u (n + 16)); [apply (E_mono u Hu); lia|].
  pose proof (E_lin_n u Hu n 16) as HL. rewrite INR16 in HL.
  replace (INR n + 17) with (INR n + 16 + 1) by ring. apply HL.
  replace (INR n + 16 + 1) with (INR n + 17) by ring. exact H.
Qed.

Lemma E5n : forall n, (INR n + 6) * (INR n + 7) * u <= 1 -> E u (5 + n) <= (INR n + 7) * u.
Proof.
  intros n H. apply Rle_trans with (E u (n + 6)); [apply (E_mono u Hu); lia|].
  pose proof (E_lin_n u Hu n 6) as HL. rewrite INR6 in HL.
  replace (INR n + 7) with (INR n + 6 + 1) by ring. apply HL.
  replace (INR n + 6 + 1) with (INR n + 7) by ring. exact H.
Qed.

Lemma side_6 : forall n, 0 <= n -> (n + 16) * (n + 17) * u <= 1 -> (n + 6) * (n + 7) * u <= 1.
Proof.
  intros n Hn H.
  assert ((n + 6) * (n + 7) * u <= (n + 16) * (n + 17) * u) by (apply Rmult_le_compat_r; nra).
  lra.
Qed.

Lemma two_phase_potential : forall p l1 l2, Forall (fun q => apart q p) (l1 ++ l2) ->
  let r := fold_left (stepT R ar p) l2 (fold_left (fun a q => backT R ar q p a) l1 (rhs0 R ar)) in
  let L := l1 ++ l2 in
  let n := INR (length L) in
  (n + 6) * (n + 7) * u <= 1 ->
  Rabs (f_p _ r - Rsum (map (fun q => p_v _ q / rdist q p) L))
    <= ((n + 7) * u) * Rsum (map (fun q => Rabs (p_v _ q) / rdist q p) L).
Proof.
  intros p l1 l2 HF r L n Hn. rewrite <- (abs_potential L p HF).
  destruct (two_phase_P p l1 l2 HF) as (_ & _ & _ & Hp).
  apply (P_lin (5 + length L)); [exact Hp | apply E5n, Hn].
Qed.

Lemma two_phase_force : forall p l1 l2, Forall (fun q => apart q p) (l1 ++ l2) ->
  let r := fold_left (stepT R ar p) l2 (fold_left (fun a q => backT R ar q p a) l1 (rhs0 R ar)) in
  let L := l1 ++ l2 in
  let n := INR (length L) in
  (n + 16) * (n + 17) * u <= 1 ->
  Rabs (f_x _ r - Rsum (map (fun q => f_x _ (contrib q p)) L))
    <= ((n + 17) * u) * Rsum (map (fun q => Rabs (f_x _ (contrib q p))) L) /\
  Rabs (f_y _ r - Rsum (map (fun q => f_y _ (contrib q p)) L))
    <= ((n + 17) * u) * Rsum (map (fun q => Rabs (f_y _ (contrib q p))) L) /\
  Rabs (f_z _ r - Rsum (map (fun q => f_z _ (contrib q p)) L))
    <= ((n + 17) * u) * Rsum (map (fun q => Rabs (f_z _ (contrib q p))) L).
Proof.
  intros p l1 l2 HF r L n Hn.
  destruct (two_phase_P p l1 l2 HF) as (Hx & Hy & Hz & _).
  repeat split; apply (P_lin (15 + length L)); try assumption; apply E15n, Hn.
Qed.

Lemma two_phase_bound : forall p l1 l2, Forall (fun q => apart q p) (l1 ++ l2) ->
  (INR (length (l1 ++ l2)) + 16) * (INR (length (l1 ++ l2)) + 17) * u <= 1 ->
  acc_bound u (l1 ++ l2) p
    (fold_left (stepT R ar p) l2 (fold_left (fun a q => backT R ar q p a) l1 (rhs0 R ar))).
Proof.
  intros p l1 l2 HF Hn. unfold acc_bound. split.
  - apply (two_phase_potential p l1 l2 HF). apply side_6; [apply pos_INR | exact Hn].
  - apply (two_phase_force p l1 l2 HF). exact Hn.
Qed.

(* ---- B: the sources of the mutual routine ---- *)
Lemma apart_flip : forall s l, Forall (fun t => apart s t) l -> Forall (fun t => apart t s) l.
Proof. intros s l H. eapply Forall_impl; [|exact H]. intros t Ht; apply apart_sym, Ht. Qed.

Theorem mutual_source_potential_error : forall (tgts : list partR) (s : partR),
  Forall (fun t => apart s t) tgts ->
  let m := INR (length tgts) in
  (m + 6) * (m + 7) * u <= 1 ->
  let r := fold_left (fun a t => backT R ar t s a) tgts (rhs0 R ar) in
  Rabs (f_p _ r - Rsum (map (fun t => p_v _ t / rdist s t) tgts))
    <= ((m + 7) * u) * Rsum (map (fun t => Rabs (p_v _ t) / rdist s t) tgts).
Proof.
  intros tgts s HF m Hm' r. apply apart_flip in HF.
  assert (E1 : map (fun t => p_v _ t / rdist s t) tgts = map (fun t => p_v _ t / rdist t s) tgts)
    by (apply map_ext; intros t; rewrite (rdist_sym s t); reflexivity).
  assert (E2 : map (fun t => Rabs (p_v _ t) / rdist s t) tgts = map (fun t => Rabs (p_v _ t) / rdist t s) tgts)
    by (apply map_ext; intros t; rewrite (rdist_sym s t); reflexivity).
  rewrite E1, E2.
  pose proof (two_phase_potential s tgts []) as H. cbn [fold_left] in H. rewrite app_nil_r in H.
  exact (H HF Hm').
Qed.

Theorem mutual_source_force_error : forall (tgts : list partR) (s : partR),
  Forall (fun t => apart s t) tgts ->
  let m := INR (length tgts) in
  (m + 16) * (m + 17) * u <= 1 ->
  let r := fold_left (fun a t => backT R ar t s a) tgts (rhs0 R ar) in
  Rabs (f_x _ r - Rsum (map (fun t => f_x _ (contrib t s)) tgts))
    <= ((m + 17) * u) * Rsum (map (fun t => Rabs (f_x _ (contrib t s))) tgts) /\
  Rabs (f_y _ r - Rsum (map (fun t => f_y _ (contrib t s)) tgts))
    <= ((m + 17) * u) * Rsum (map (fun t => Rabs (f_y _ (contrib t s))) tgts) /\
  Rabs (f_z _ r - Rsum (map (fun t => f_z _ (contrib t s)) tgts))
    <= ((m + 17) * u) * Rsum (map (fun t => Rabs (f_z _ (contrib t s))) tgts).
Proof.
  intros tgts s HF m Hm' r. apply apart_flip in HF.
  pose proof (two_phase_force s tgts []) as H. cbn [fold_left] in H. rewrite app_nil_r in H.
  exact (H HF Hm').
Qed.

Lemma source_bound : forall (tgts : list partR) (s : partR),
  Forall (fun t => apart s t) tgts ->
  (INR (length tgts) + 16) * (INR (length tgts) + 17) * u <= 1 ->
  acc_bound u tgts s (fold_left (fun a t => backT R ar t s a) tgts (rhs0 R ar)).
Proof.
  intros tgts s HF Hn. apply apart_flip in HF.
  pose proof (two_phase_bound s tgts []) as H. cbn [fold_left] in H. rewrite app_nil_r in H.
  exact (H HF Hn).
Qed.

Lemma target_bound : forall (srcs : list partR) (t : partR),
  Forall (fun s => apart s t) srcs ->
  (INR (length srcs) + 16) * (INR (length srcs) + 17) * u <= 1 ->
  acc_bound u srcs t (remote_one R ar srcs t (rhs0 R ar)).
Proof.
  intros srcs t HF Hn. unfold acc_bound. split.
  - apply (remote_potential_error u Hu ar Hm srcs t HF). apply side_6; [apply pos_INR | exact Hn].
  - apply (remote_force_error u Hu ar Hm srcs t HF). exact Hn.
Qed.

(* the whole mutual routine, zero initial accumulators: every source (via full_mutual_sources) and every target
   (via full_mutual_targets) carries the sum of the contributions of the other side within the bound *)
Theorem mutual_error : forall (srcs tgts : list (partR * rhsR)),
  Forall (fun sr => snd sr = rhs0 R ar) srcs -> Forall (fun tr => snd tr = rhs0 R ar) tgts ->
  Forall (fun sr => Forall (fun tr => apart (fst sr) (fst tr)) tgts) srcs ->
  (INR (length tgts) + 16) * (INR (length tgts) + 17) * u <= 1 ->
  (INR (length srcs) + 16) * (INR (length srcs) + 17) * u <= 1 ->
  Forall (fun sr' => acc_bound u (map fst tgts) (fst sr') (snd sr')) (fst (full_mutual R ar srcs tgts)) /\
  Forall2 (fun tr r' => acc_bound u (map fst srcs) (fst tr) r') tgts (snd (full_mutual R ar srcs tgts)).
Proof.
  intros srcs tgts Zs Zt Hap Ht Hs. split.
  - rewrite full_mutual_sources. apply Forall_map. rewrite Forall_forall in *. intros sr Hin. cbn [fst snd].
    rewrite (Zs sr Hin). apply source_bound.
    + apply Forall_map. exact (Hap sr Hin).
    + rewrite map_length. exact Ht.
  - rewrite full_mutual_targets. unfold full_remote. apply Forall2_map_self.
    rewrite Forall_forall in *. intros tr Hin. rewrite (Zt tr Hin). apply target_bound.
    + apply Forall_map. rewrite Forall_forall. intros sr Hsr.
      specialize (Hap sr Hsr). rewrite Forall_forall in Hap. exact (Hap tr Hin).
    + rewrite map_length. exact Hs.
Qed.

(* ---------------------------------------------------------------------------------------------------------------- *)
(* Part C: the in-leaf routine, zero initial accumulators: every particle carries the sum of the contributions of all
   the others, n = number of particles - 1 *)

Lemma others_length : forall (A : Type) (ps : list A) i, (i < length ps)%nat ->
  S (length (firstn i ps ++ skipn (S i) ps)) = length ps.
Proof.
  intros A ps i Hi. rewrite app_length, firstn_length_le, skipn_length by lia. lia.
Qed.

Theorem inner_error : forall (ps : list (partR * rhsR)),
  ForallOrdPairs (fun a b => apart (fst a) (fst b)) ps ->
  Forall (fun pr => snd pr = rhs0 R ar) ps ->
  let n := INR (length ps) - 1 in
  (n + 16) * (n + 17) * u <= 1 ->
  forall i, (i < length ps)%nat ->
    acc_bound u (map fst (firstn i ps ++ skipn (S i) ps)) (fst (nth i ps dflt)) (nth i (inner R ar ps) (rhs0 R ar)).
Proof.
  intros ps Hord Hz n Hn i Hi.
  rewrite (inner_structure R ar dflt (rhs0 R ar) ps i Hi).
  assert (Z : snd (nth i ps dflt) = rhs0 R ar).
  { rewrite Forall_forall in Hz. apply Hz, nth_In, Hi. }
  rewrite Z, map_app.
  pose proof (ordpairs_others _ (fun a b => apart (fst a) (fst b)) dflt
                (fun a b Hab => apart_sym _ _ Hab) ps Hord i Hi) as HF.
  apply two_phase_bound.
  - rewrite <- map_app. apply Forall_map. exact HF.
  - rewrite <- map_app, map_length.
    assert (EN : INR (length (firstn i ps ++ skipn (S i) ps)) = n).
    { unfold n. rewrite <- (others_length _ ps i Hi), S_INR. ring. }
    rewrite EN. exact Hn.
Qed.

End Rounding.

Print Assumptions full_mutual_targets.
Print Assumptions full_mutual_sources.
Print Assumptions inner_structure.
Print Assumptions mutual_source_potential_error.
Print Assumptions mutual_source_force_error.
Print Assumptions mutual_error.
Print Assumptions inner_error.
