(* Rounding clause of the direct P2P property, MUTUAL (FullMutualScalar) and IN-LEAF (GenericInnerScalar) routines on
   the ACTUAL IEEE BINARY32 computation: the port of Num/P2PErrorMutual64.v.  The bounds of Num/P2PErrorMutual.v
   (standard model) are transferred to Flocq's operations b32_ops, then to the SpecFloat instance sf_ops 24 128 that is
   executed against the C++, in the way Num/P2PErrorSum32.v does it for the one-sided routine.
     input predicate b32_inputs_ok18 (Num/P2PErrorSum32.v), u = 2^-24, at most 2^11 contributions per accumulator
     (one term is at most 2^108 in magnitude, running sums stay below 2^13 * 2^108 = 2^121 < 2^127).
   zr_opp, zr_swap, rhsR_eta, rhsR_of_sf, rhs_finite_sf, Forall2_map_r, Forall2_weaken do not depend on the format and
   are those of Num/P2PErrorMutual64.v.  No axiom is declared here. *)
From Coq Require Import List Reals Lra Psatz Lia Arith ZArith.
From Flocq Require Import Core Relative Plus_error IEEE754.BinarySingleNaN.
From Coq Require Import Floats.SpecFloat.
From Tbfmm Require Import Num.P2PDefs Num.P2PReal Num.P2PSF Float.LocateProofs Num.P2PError Num.P2PError32
  Num.P2PErrorSum32 Num.P2PErrorMutual Num.P2PErrorMutual64.
Import ListNotations.
Local Open Scope R_scope.

(* ---------------------------------------------------------------------------------------------------------------- *)
(* Part 1: subtraction whose exact result may be zero, subnormal or normal *)

Lemma tr32_sub_any : forall X Y a b, tr32 X a -> tr32 Y b -> Rabs (a - b) < bpow radix2 127 ->
  tr32 (Bminus mode_NE X Y) (o_sub g32_ops a b).
Proof.
  intros X Y a b TX TY Hlt.
  destruct (Rle_or_lt (bpow radix2 (-126)) (Rabs (a - b))) as [Hn|Hs].
  - apply tr32_sub; [exact TX | exact TY | right; split; assumption].
  - destruct TX as [Fx <-]. destruct TY as [Fy <-].
    cbn [g32_ops o_sub]. rewrite (grnd32_small _ Hs).
    assert (Hf : F32 (B2R X - B2R Y)).
    { unfold Rminus. apply (FLT_format_plus_small radix2 (-149) 24);
        [apply B2R_F32 | apply generic_format_opp; apply B2R_F32 |].
      change (24 + -149)%Z with (-125)%Z.
      apply Rle_trans with (bpow radix2 (-126)); [unfold Rminus in Hs; lra | apply bpow_le; lia]. }
    assert (Hr : rnd32 (B2R X - B2R Y) = B2R X - B2R Y)
      by (apply round_generic; [auto with typeclass_instances | exact Hf]).
    generalize (Bminus_correct 24 128 _ _ mode_NE X Y Fx Fy).
    change (round radix2 (SpecFloat.fexp 24 128) (round_mode mode_NE)) with rnd32.
    rewrite Hr. rewrite Rlt_bool_true.
    + intros (H1 & H2 & _). split; assumption.
    + apply Rlt_trans with (1 := Hs). apply bpow_lt; lia.
Qed.

(* ---------------------------------------------------------------------------------------------------------------- *)
(* Part 2a: the input conditions are symmetric *)

Lemma b32_inputs_ok18_sym : forall s t : part b32, b32_inputs_ok18 s t -> b32_inputs_ok18 t s.
Proof.
  intros s t (Fs & Ft & (HX & HY & HZ) & Hap & Hvs & Hvt).
  split; [exact Ft|]. split; [exact Fs|].
  split; [split; [apply zr_swap, HX | split; [apply zr_swap, HY | apply zr_swap, HZ]]|].
  split; [apply apart_sym, Hap|]. split; assumption.
Qed.

(* ---------------------------------------------------------------------------------------------------------------- *)
(* Part 2b: the potential term of the in-place update of p by q *)

Definition bbterm32_p (p q : part b32) : b32 :=
  let '(_, _, _, inv) := pair b32 b32_ops p q in Bmult mode_NE inv (p_v _ q).

Lemma b32_bterm_ok : forall p q : part b32, b32_inputs_ok18 p q ->
  term32_ok (bbterm32_p p q) (P2PErrorMutual.bterm_p g32_ops (partR32_of p) (partR32_of q)).
Proof.
  intros p q Hok. pose proof (b32_pair_g32_mag p q Hok) as H.
  unfold bbterm32_p, P2PErrorMutual.bterm_p.
  destruct (pair b32 b32_ops p q) as [[[fx fy] fz] inv].
  destruct (pair R g32_ops (partR32_of p) (partR32_of q)) as [[[gx gy] gz] ginv].
  destruct H as ((_ & _ & _ & Ti) & _ & _ & _ & Pi).
  destruct Hok as (_ & (_ & _ & _ & Fvq) & _ & _ & _ & Hvq).
  unfold term32_ok. split.
  - apply tr32_mul; [exact Ti | apply tr32_in; exact Fvq |]. cbn [partR32_of p_v].
    apply (zr_nz32 (-37) 36); [apply (zr_mul (-19) 18 (-18) 18); [apply pr_zr; exact Pi | exact Hvq] | lia | lia].
  - cbn [partR32_of p_v].
    apply Rle_trans with (bpow radix2 36); [|apply bpow_le; lia].
    apply (zr_abs_le32 (-37)).
    apply (g32_mul_zr (-19) 18 (-18) 18); [apply pr_zr; exact Pi | exact Hvq | lia | lia].
Qed.

(* ---------------------------------------------------------------------------------------------------------------- *)
(* Part 2c: one accumulator, subtracting steps *)

Definition bsubterm32 (term : part b32 -> b32) (x : b32) (s : part b32) : b32 := Bminus mode_NE x (term s).

Lemma grnd32_acc_bound_sub : forall k a b, 0 <= k <= 2048 ->
  Rabs a <= k * (2 * Mterm32) -> Rabs b <= Mterm32 -> Rabs (grnd32 (a - b)) <= (k + 1) * (2 * Mterm32).
Proof.
  intros k a b Hk Ha Hb. unfold Rminus. apply grnd32_acc_bound; [exact Hk | exact Ha | rewrite Rabs_Ropp; exact Hb].
Qed.

Lemma fold_tr32_sub : forall (termB : part b32 -> b32) (termG : partR -> R) (srcs : list (part b32)),
  Forall (fun s => term32_ok (termB s) (termG (partR32_of s))) srcs ->
  forall (k : nat) (A : b32) (G : R), tr32 A G -> Rabs G <= INR k * (2 * Mterm32) ->
  (Z.of_nat (k + length srcs) <= 2 ^ 11)%Z ->
  tr32 (fold_left (bsubterm32 termB) srcs A) (fold_left (subterm g32_ops termG) (map partR32_of srcs) G) /\
  Rabs (fold_left (subterm g32_ops termG) (map partR32_of srcs) G) <= INR (k + length srcs) * (2 * Mterm32).
Proof.
  intros termB termG srcs HF; induction HF as [|s l Hs HF IH]; intros k A G HT HG Hk.
  - cbn [fold_left map length]. rewrite Nat.add_0_r. split; assumption.
  - cbn [fold_left map length] in *. rewrite Nat.add_succ_r in *.
    destruct Hs as [Ts Ms].
    assert (Hk' : 0 <= INR k <= 2048) by (apply INR_le_2_11; lia).
    apply (IH (S k)).
    + unfold bsubterm32, subterm. apply tr32_sub_any; [exact HT | exact Ts |].
      apply (below_overflow32 (INR k)); [exact Hk'|].
      unfold Rminus. apply Rle_trans with (1 := Rabs_triang _ _). rewrite Rabs_Ropp. lra.
    + rewrite S_INR. unfold subterm. cbn [g32_ops o_sub]. apply grnd32_acc_bound_sub; assumption.
    + exact Hk.
Qed.

(* two phases on one accumulator, from zero *)
Lemma two_phase_tr32 : forall (tB1 tB2 : part b32 -> b32) (tG1 tG2 : partR -> R) (l1 l2 : list (part b32)),
  Forall (fun s => term32_ok (tB1 s) (tG1 (partR32_of s))) l1 ->
  Forall (fun s => term32_ok (tB2 s) (tG2 (partR32_of s))) l2 ->
  (Z.of_nat (length l1 + length l2) <= 2 ^ 11)%Z ->
  tr32 (fold_left (baddterm32 tB2) l2 (fold_left (bsubterm32 tB1) l1 (B754_zero false)))
     (fold_left (addterm g32_ops tG2) (map partR32_of l2) (fold_left (subterm g32_ops tG1) (map partR32_of l1) 0)) /\
  tr32 (fold_left (baddterm32 tB2) l2 (fold_left (baddterm32 tB1) l1 (B754_zero false)))
     (fold_left (addterm g32_ops tG2) (map partR32_of l2) (fold_left (addterm g32_ops tG1) (map partR32_of l1) 0)).
Proof.
  intros tB1 tB2 tG1 tG2 l1 l2 H1 H2 Hlen.
  assert (H0 : Rabs 0 <= INR 0 * (2 * Mterm32)) by (rewrite Rabs_R0; simpl; lra).
  assert (Hl1 : (Z.of_nat (0 + length l1) <= 2 ^ 11)%Z) by lia.
  split.
  - destruct (fold_tr32_sub tB1 tG1 l1 H1 0%nat (B754_zero false) 0 tr32_zero H0 Hl1) as [T1 B1].
    cbn [Nat.add] in B1.
    exact (proj1 (fold_tr32 tB2 tG2 l2 H2 (length l1) _ _ T1 B1 Hlen)).
  - destruct (fold_tr32 tB1 tG1 l1 H1 0%nat (B754_zero false) 0 tr32_zero H0 Hl1) as [T1 B1].
    cbn [Nat.add] in B1.
    exact (proj1 (fold_tr32 tB2 tG2 l2 H2 (length l1) _ _ T1 B1 Hlen)).
Qed.

(* ---------------------------------------------------------------------------------------------------------------- *)
(* Part 2d: components of the record folds over b32_ops *)

Lemma b32_back_proj : forall (s : part b32) l r0,
  f_x _ (fold_left (fun a t => backT b32 b32_ops t s a) l r0)
    = fold_left (bsubterm32 (fun t => bterm32_x t s)) l (f_x _ r0) /\
  f_y _ (fold_left (fun a t => backT b32 b32_ops t s a) l r0)
    = fold_left (bsubterm32 (fun t => bterm32_y t s)) l (f_y _ r0) /\
  f_z _ (fold_left (fun a t => backT b32 b32_ops t s a) l r0)
    = fold_left (bsubterm32 (fun t => bterm32_z t s)) l (f_z _ r0) /\
  f_p _ (fold_left (fun a t => backT b32 b32_ops t s a) l r0)
    = fold_left (baddterm32 (bbterm32_p s)) l (f_p _ r0).
Proof.
  intros s l r0. repeat split.
  - apply (fold_left_proj _ _ _ (fun a t => backT b32 b32_ops t s a) (bsubterm32 (fun t => bterm32_x t s)) (f_x b32)).
    intros a t; unfold backT, bsubterm32, bterm32_x; destruct (pair b32 b32_ops s t) as [[[? ?] ?] ?]; reflexivity.
  - apply (fold_left_proj _ _ _ (fun a t => backT b32 b32_ops t s a) (bsubterm32 (fun t => bterm32_y t s)) (f_y b32)).
    intros a t; unfold backT, bsubterm32, bterm32_y; destruct (pair b32 b32_ops s t) as [[[? ?] ?] ?]; reflexivity.
  - apply (fold_left_proj _ _ _ (fun a t => backT b32 b32_ops t s a) (bsubterm32 (fun t => bterm32_z t s)) (f_z b32)).
    intros a t; unfold backT, bsubterm32, bterm32_z; destruct (pair b32 b32_ops s t) as [[[? ?] ?] ?]; reflexivity.
  - apply (fold_left_proj _ _ _ (fun a t => backT b32 b32_ops t s a) (baddterm32 (bbterm32_p s)) (f_p b32)).
    intros a t; unfold backT, baddterm32, bbterm32_p; destruct (pair b32 b32_ops s t) as [[[? ?] ?] ?]; reflexivity.
Qed.

Lemma b32_step_proj : forall (t : part b32) l r0,
  f_x _ (fold_left (stepT b32 b32_ops t) l r0) = fold_left (baddterm32 (bterm32_x t)) l (f_x _ r0) /\
  f_y _ (fold_left (stepT b32 b32_ops t) l r0) = fold_left (baddterm32 (bterm32_y t)) l (f_y _ r0) /\
  f_z _ (fold_left (stepT b32 b32_ops t) l r0) = fold_left (baddterm32 (bterm32_z t)) l (f_z _ r0) /\
  f_p _ (fold_left (stepT b32 b32_ops t) l r0) = fold_left (baddterm32 (bterm32_p t)) l (f_p _ r0).
Proof.
  intros t l r0. repeat split.
  - apply (fold_left_proj _ _ _ (stepT b32 b32_ops t) (baddterm32 (bterm32_x t)) (f_x b32)).
    intros a s; unfold stepT, baddterm32, bterm32_x; destruct (pair b32 b32_ops s t) as [[[? ?] ?] ?]; reflexivity.
  - apply (fold_left_proj _ _ _ (stepT b32 b32_ops t) (baddterm32 (bterm32_y t)) (f_y b32)).
    intros a s; unfold stepT, baddterm32, bterm32_y; destruct (pair b32 b32_ops s t) as [[[? ?] ?] ?]; reflexivity.
  - apply (fold_left_proj _ _ _ (stepT b32 b32_ops t) (baddterm32 (bterm32_z t)) (f_z b32)).
    intros a s; unfold stepT, baddterm32, bterm32_z; destruct (pair b32 b32_ops s t) as [[[? ?] ?] ?]; reflexivity.
  - apply (fold_left_proj _ _ _ (stepT b32 b32_ops t) (baddterm32 (bterm32_p t)) (f_p b32)).
    intros a s; unfold stepT, baddterm32, bterm32_p; destruct (pair b32 b32_ops s t) as [[[? ?] ?] ?];
      reflexivity.
Qed.

(* ---------------------------------------------------------------------------------------------------------------- *)
(* Part 2e: the transfer: particle p, updated in place by the particles of l1, then accumulating those of l2.
   backT _ _ tk p evaluates pair p tk, stepT _ _ p _ tj evaluates pair tj p. *)

Theorem two_phase_g32 : forall (p : part b32) (l1 l2 : list (part b32)),
  Forall (fun q => b32_inputs_ok18 p q) l1 -> Forall (fun q => b32_inputs_ok18 q p) l2 ->
  (Z.of_nat (length l1 + length l2) <= 2 ^ 11)%Z ->
  let r := fold_left (stepT b32 b32_ops p) l2
             (fold_left (fun a tk => backT b32 b32_ops tk p a) l1 (rhs0 b32 b32_ops)) in
  let g := fold_left (stepT R g32_ops (partR32_of p)) (map partR32_of l2)
             (fold_left (fun a tk => backT R g32_ops tk (partR32_of p) a) (map partR32_of l1) (rhs0 R g32_ops)) in
  tr32 (f_x _ r) (f_x _ g) /\ tr32 (f_y _ r) (f_y _ g) /\ tr32 (f_z _ r) (f_z _ g) /\ tr32 (f_p _ r) (f_p _ g).
Proof.
  intros p l1 l2 H1 H2 Hlen r g. subst r g.
  destruct (b32_step_proj p l2 (fold_left (fun a tk => backT b32 b32_ops tk p a) l1 (rhs0 b32 b32_ops)))
    as (-> & -> & -> & ->).
  destruct (b32_back_proj p l1 (rhs0 b32 b32_ops)) as (-> & -> & -> & ->).
  destruct (step_proj g32_ops (partR32_of p) (map partR32_of l2)
              (fold_left (fun a tk => backT R g32_ops tk (partR32_of p) a) (map partR32_of l1) (rhs0 R g32_ops)))
    as (-> & -> & -> & ->).
  destruct (back_proj g32_ops (partR32_of p) (map partR32_of l1) (rhs0 R g32_ops)) as (-> & -> & -> & ->).
  cbn [rhs0 f_x f_y f_z f_p b32_ops g32_ops o_zero].
  split; [|split; [|split]].
  - apply (proj1 (two_phase_tr32 (fun t => bterm32_x t p) (bterm32_x p)
                    (fun t => term_x g32_ops t (partR32_of p)) (term_x g32_ops (partR32_of p)) l1 l2
                    ltac:(eapply Forall_impl; [|exact H1]; intros q Hq; apply (b32_terms_ok p q Hq))
                    ltac:(eapply Forall_impl; [|exact H2]; intros q Hq; apply (b32_terms_ok q p Hq)) Hlen)).
  - apply (proj1 (two_phase_tr32 (fun t => bterm32_y t p) (bterm32_y p)
                    (fun t => term_y g32_ops t (partR32_of p)) (term_y g32_ops (partR32_of p)) l1 l2
                    ltac:(eapply Forall_impl; [|exact H1]; intros q Hq; apply (b32_terms_ok p q Hq))
                    ltac:(eapply Forall_impl; [|exact H2]; intros q Hq; apply (b32_terms_ok q p Hq)) Hlen)).
  - apply (proj1 (two_phase_tr32 (fun t => bterm32_z t p) (bterm32_z p)
                    (fun t => term_z g32_ops t (partR32_of p)) (term_z g32_ops (partR32_of p)) l1 l2
                    ltac:(eapply Forall_impl; [|exact H1]; intros q Hq; apply (b32_terms_ok p q Hq))
                    ltac:(eapply Forall_impl; [|exact H2]; intros q Hq; apply (b32_terms_ok q p Hq)) Hlen)).
  - apply (proj2 (two_phase_tr32 (bbterm32_p p) (bterm32_p p)
                    (P2PErrorMutual.bterm_p g32_ops (partR32_of p)) (term_p g32_ops (partR32_of p)) l1 l2
                    ltac:(eapply Forall_impl; [|exact H1]; intros q Hq; apply (b32_bterm_ok p q Hq))
                    ltac:(eapply Forall_impl; [|exact H2]; intros q Hq; apply (b32_terms_ok q p Hq)) Hlen)).
Qed.

(* ---------------------------------------------------------------------------------------------------------------- *)
(* Part 3: the bound on the actual binary32 computation, two-phase form and the sources of the mutual routine *)

Definition rhsR32_of (r : rhs b32) : rhsR :=
  {| f_x := B2R (f_x _ r); f_y := B2R (f_y _ r); f_z := B2R (f_z _ r); f_p := B2R (f_p _ r) |}.

Definition rhs32_finite (r : rhs b32) : Prop :=
  is_finite (f_x _ r) = true /\ is_finite (f_y _ r) = true /\ is_finite (f_z _ r) = true /\
  is_finite (f_p _ r) = true.

Lemma tr32_rhs : forall (r : rhs b32) (g : rhsR),
  tr32 (f_x _ r) (f_x _ g) /\ tr32 (f_y _ r) (f_y _ g) /\ tr32 (f_z _ r) (f_z _ g) /\ tr32 (f_p _ r) (f_p _ g) ->
  rhs32_finite r /\ rhsR32_of r = g.
Proof.
  intros r g ((Fx & Ex) & (Fy & Ey) & (Fz & Ez) & (Fp & Ep)). split; [repeat split; assumption|].
  unfold rhsR32_of. rewrite Ex, Ey, Ez, Ep. apply rhsR_eta.
Qed.

Lemma inputs_apart32_l : forall (p : part b32) (l : list (part b32)),
  Forall (fun q => b32_inputs_ok18 p q) l -> Forall (fun q => apart q (partR32_of p)) (map partR32_of l).
Proof.
  intros p l HF. apply Forall_map. eapply Forall_impl; [|exact HF].
  intros q (_ & _ & _ & Hap & _). apply apart_sym, Hap.
Qed.

Lemma side_cond32_nat : forall k : nat, (Z.of_nat k <= 2 ^ 11)%Z -> (INR k + 16) * (INR k + 17) * u32 <= 1.
Proof. intros k Hk. exact (proj1 (side_cond32 (INR k) (INR_le_2_11 k Hk))). Qed.

Theorem b32_two_phase_error : forall (p : part b32) (l1 l2 : list (part b32)),
  Forall (fun q => b32_inputs_ok18 p q) l1 -> Forall (fun q => b32_inputs_ok18 q p) l2 ->
  (Z.of_nat (length l1 + length l2) <= 2 ^ 11)%Z ->
  let r := fold_left (stepT b32 b32_ops p) l2
             (fold_left (fun a tk => backT b32 b32_ops tk p a) l1 (rhs0 b32 b32_ops)) in
  rhs32_finite r /\ acc_bound (bpow radix2 (-24)) (map partR32_of (l1 ++ l2)) (partR32_of p) (rhsR32_of r).
Proof.
  intros p l1 l2 H1 H2 Hlen r.
  destruct (tr32_rhs _ _ (two_phase_g32 p l1 l2 H1 H2 Hlen)) as [Hfin Heq]. fold r in Hfin, Heq.
  split; [exact Hfin|]. rewrite Heq, map_app.
  apply (two_phase_bound u32 u32_range g32_ops g32_std_model).
  - apply Forall_app. split; [apply inputs_apart32_l, H1 | apply (inputs_apart32 l2 p H2)].
  - rewrite app_length, !map_length. apply side_cond32_nat. rewrite Nat2Z.inj_add. lia.
Qed.

Theorem b32_mutual_source_error : forall (tgts : list (part b32)) (s : part b32),
  Forall (fun t => b32_inputs_ok18 s t) tgts -> (Z.of_nat (length tgts) <= 2 ^ 11)%Z ->
  let r := fold_left (fun a t => backT b32 b32_ops t s a) tgts (rhs0 b32 b32_ops) in
  rhs32_finite r /\ acc_bound (bpow radix2 (-24)) (map partR32_of tgts) (partR32_of s) (rhsR32_of r).
Proof.
  intros tgts s HF Hlen r.
  pose proof (b32_two_phase_error s tgts [] HF (Forall_nil _)) as H.
  cbn [fold_left length] in H. rewrite Nat.add_0_r, app_nil_r in H. exact (H Hlen).
Qed.

(* the one-sided routine in the same form (b32_remote_error of Num/P2PErrorSum32.v) *)
Theorem b32_remote_acc_bound : forall (srcs : list (part b32)) (t : part b32),
  Forall (fun s => b32_inputs_ok18 s t) srcs -> (Z.of_nat (length srcs) <= 2 ^ 11)%Z ->
  let r := remote_one b32 b32_ops srcs t (rhs0 b32 b32_ops) in
  rhs32_finite r /\ acc_bound (bpow radix2 (-24)) (map partR32_of srcs) (partR32_of t) (rhsR32_of r).
Proof.
  intros srcs t HF Hlen r. destruct (b32_remote_error srcs t HF Hlen) as (Hfin & HP & HFo).
  split; [exact Hfin|]. unfold acc_bound. rewrite map_length. cbn [rhsR32_of f_x f_y f_z f_p].
  split; [exact HP | exact HFo].
Qed.

(* ---------------------------------------------------------------------------------------------------------------- *)
(* Part 4: the in-leaf routine on the actual binary32 computation *)

Theorem b32_inner_error : forall (ps : list (part b32 * rhs b32)) (d : part b32 * rhs b32),
  ForallOrdPairs (fun a b => b32_inputs_ok18 (fst a) (fst b)) ps ->
  Forall (fun pr => snd pr = rhs0 b32 b32_ops) ps ->
  (Z.of_nat (length ps) <= 2 ^ 11)%Z ->
  forall i, (i < length ps)%nat ->
    let r := nth i (inner b32 b32_ops ps) (rhs0 b32 b32_ops) in
    rhs32_finite r /\
    acc_bound (bpow radix2 (-24)) (map partR32_of (map fst (firstn i ps ++ skipn (S i) ps)))
      (partR32_of (fst (nth i ps d))) (rhsR32_of r).
Proof.
  intros ps d Hord Hz Hlen i Hi r. subst r.
  rewrite (inner_structure b32 b32_ops d (rhs0 b32 b32_ops) ps i Hi).
  assert (Z : snd (nth i ps d) = rhs0 b32 b32_ops).
  { rewrite Forall_forall in Hz. apply Hz, nth_In, Hi. }
  rewrite Z, map_app.
  pose proof (ordpairs_others _ (fun a b => b32_inputs_ok18 (fst a) (fst b)) d
                (fun a b Hab => b32_inputs_ok18_sym _ _ Hab) ps Hord i Hi) as HF.
  apply Forall_app in HF. destruct HF as [HF1 HF2].
  apply b32_two_phase_error.
  - apply Forall_map. eapply Forall_impl; [|exact HF1]. intros a Ha. apply b32_inputs_ok18_sym, Ha.
  - apply Forall_map. exact HF2.
  - rewrite !map_length, <- app_length.
    pose proof (others_length _ ps i Hi) as HL. lia.
Qed.

(* ---------------------------------------------------------------------------------------------------------------- *)
(* Part 5: the whole mutual routine on the actual binary32 computation, zero initial accumulators *)

Theorem b32_mutual_error : forall (srcs tgts : list (part b32 * rhs b32)),
  Forall (fun sr => snd sr = rhs0 b32 b32_ops) srcs -> Forall (fun tg => snd tg = rhs0 b32 b32_ops) tgts ->
  Forall (fun sr => Forall (fun tg => b32_inputs_ok18 (fst sr) (fst tg)) tgts) srcs ->
  (Z.of_nat (length tgts) <= 2 ^ 11)%Z -> (Z.of_nat (length srcs) <= 2 ^ 11)%Z ->
  Forall (fun sr' => rhs32_finite (snd sr') /\
            acc_bound (bpow radix2 (-24)) (map partR32_of (map fst tgts)) (partR32_of (fst sr')) (rhsR32_of (snd sr')))
    (fst (full_mutual b32 b32_ops srcs tgts)) /\
  Forall2 (fun tg r' => rhs32_finite r' /\
            acc_bound (bpow radix2 (-24)) (map partR32_of (map fst srcs)) (partR32_of (fst tg)) (rhsR32_of r'))
    tgts (snd (full_mutual b32 b32_ops srcs tgts)).
Proof.
  intros srcs tgts Zs Zt Hok Ht Hs. split.
  - rewrite full_mutual_sources. apply Forall_map. rewrite Forall_forall in *. intros sr Hin. cbn [fst snd].
    rewrite (Zs sr Hin). apply b32_mutual_source_error.
    + apply Forall_map. exact (Hok sr Hin).
    + rewrite map_length. exact Ht.
  - rewrite full_mutual_targets. unfold full_remote. apply Forall2_map_self.
    rewrite Forall_forall in *. intros tg Hin. rewrite (Zt tg Hin). apply b32_remote_acc_bound.
    + apply Forall_map. rewrite Forall_forall. intros sr Hsr.
      specialize (Hok sr Hsr). rewrite Forall_forall in Hok. exact (Hok tg Hin).
    + rewrite map_length. exact Hs.
Qed.

(* ---------------------------------------------------------------------------------------------------------------- *)
(* Part 6: the SpecFloat computations ARE the Flocq computations, for all inputs *)

Notation sfo32 := (sf_ops 24 128).

Definition sf32_pr (x : part b32 * rhs b32) : part spec_float * rhs spec_float := (sf_part32 (fst x), sf_rhs32 (snd x)).

Lemma sf32_rhs0 : sf_rhs32 (rhs0 b32 b32_ops) = rhs0 spec_float sfo32.
Proof. reflexivity. Qed.

Lemma sf32_stepT_bridge : forall (t : part b32) (a : rhs b32) (s : part b32),
  stepT spec_float sfo32 (sf_part32 t) (sf_rhs32 a) (sf_part32 s) = sf_rhs32 (stepT b32 b32_ops t a s).
Proof. exact sf32_step_bridge. Qed.

Lemma sf32_backT_bridge : forall (t s : part b32) (a : rhs b32),
  backT spec_float sfo32 (sf_part32 t) (sf_part32 s) (sf_rhs32 a) = sf_rhs32 (backT b32 b32_ops t s a).
Proof.
  intros t s a. unfold backT. rewrite sf32_pair_bridge.
  destruct (pair b32 b32_ops s t) as [[[dx dy] dz] inv].
  unfold sf_rhs32. cbn [f_x f_y f_z f_p sf_part32 p_v sf_ops b32_ops o_add o_sub o_mul].
  rewrite <- sf_mult_bridge32, <- sf_plus_bridge32, <- !sf_minus_bridge32. reflexivity.
Qed.

Lemma sf32_fold_stepT_bridge : forall (t : part b32) (l : list (part b32)) (a : rhs b32),
  fold_left (stepT spec_float sfo32 (sf_part32 t)) (map sf_part32 l) (sf_rhs32 a)
  = sf_rhs32 (fold_left (stepT b32 b32_ops t) l a).
Proof.
  intros t l; induction l as [|s l IH]; intros a; cbn [map fold_left]; [reflexivity|].
  rewrite sf32_stepT_bridge. apply IH.
Qed.

Lemma sf32_fold_backT_bridge : forall (s : part b32) (l : list (part b32)) (a : rhs b32),
  fold_left (fun a t => backT spec_float sfo32 t (sf_part32 s) a) (map sf_part32 l) (sf_rhs32 a)
  = sf_rhs32 (fold_left (fun a t => backT b32 b32_ops t s a) l a).
Proof.
  intros s l; induction l as [|t l IH]; intros a; cbn [map fold_left]; [reflexivity|].
  rewrite sf32_backT_bridge. apply IH.
Qed.

Lemma sf32_remote_one_bridge : forall (srcs : list (part b32)) (t : part b32) (r : rhs b32),
  remote_one spec_float sfo32 (map sf_part32 srcs) (sf_part32 t) (sf_rhs32 r) = sf_rhs32 (remote_one b32 b32_ops srcs t r).
Proof.
  intros srcs t r. rewrite !remote_one_stepT. cbv zeta.
  rewrite <- sf32_rhs0, sf32_fold_stepT_bridge.
  set (acc := fold_left (stepT b32 b32_ops t) srcs (rhs0 b32 b32_ops)).
  unfold sf_rhs32. cbn [f_x f_y f_z f_p sf_ops b32_ops o_add].
  rewrite <- !sf_plus_bridge32. reflexivity.
Qed.

Lemma sf32_pr_fst : forall l, map fst (map sf32_pr l) = map sf_part32 (map fst l).
Proof. intros l. rewrite !map_map. apply map_ext. intros [p r]; reflexivity. Qed.

Theorem sf32_full_mutual_bridge : forall (srcs tgts : list (part b32 * rhs b32)),
  full_mutual spec_float sfo32 (map sf32_pr srcs) (map sf32_pr tgts) =
  (map sf32_pr (fst (full_mutual b32 b32_ops srcs tgts)), map sf_rhs32 (snd (full_mutual b32 b32_ops srcs tgts))).
Proof.
  intros srcs tgts.
  rewrite (surjective_pairing (full_mutual spec_float sfo32 (map sf32_pr srcs) (map sf32_pr tgts))).
  rewrite !full_mutual_sources, !full_mutual_targets, !sf32_pr_fst.
  set (TS := map fst tgts). set (SS := map fst srcs). f_equal.
  - rewrite !map_map. apply map_ext. intros [s sr]. unfold sf32_pr. cbn [fst snd].
    rewrite sf32_fold_backT_bridge. reflexivity.
  - unfold full_remote. rewrite !map_map. apply map_ext. intros [t r]. unfold sf32_pr. cbn [fst snd].
    apply sf32_remote_one_bridge.
Qed.

Lemma sf32_bmapT_bridge : forall (t : part b32) (l : list (part b32 * rhs b32)),
  bmapT spec_float sfo32 (sf_part32 t) (map sf32_pr l) = map sf32_pr (bmapT b32 b32_ops t l).
Proof.
  intros t l. unfold bmapT. rewrite !map_map. apply map_ext. intros [s sr]. unfold sf32_pr. cbn [fst snd].
  rewrite sf32_backT_bridge. reflexivity.
Qed.

Lemma sf32_inner_loop_bridge : forall (n : nat) (ps : list (part b32 * rhs b32)),
  inner_loop spec_float sfo32 n (map sf32_pr ps) = map sf_rhs32 (inner_loop b32 b32_ops n ps).
Proof.
  induction n as [|n IH]; intros ps; [reflexivity|].
  destruct ps as [|[t0 r0] later]; [reflexivity|].
  cbn [map inner_loop]. unfold sf32_pr at 1. cbn [fst snd].
  rewrite !inner_row_gen. cbn [map]. rewrite sf32_bmapT_bridge, IH.
  rewrite sf32_pr_fst, sf32_fold_stepT_bridge. reflexivity.
Qed.

Theorem sf32_inner_bridge : forall (ps : list (part b32 * rhs b32)),
  inner spec_float sfo32 (map sf32_pr ps) = map sf_rhs32 (inner b32 b32_ops ps).
Proof. intros ps. unfold inner. rewrite map_length. apply sf32_inner_loop_bridge. Qed.

(* ---------------------------------------------------------------------------------------------------------------- *)
(* Part 7: the bounds for the SpecFloat instance sf_ops 24 128 that is executed bit for bit against the C++ *)

Lemma rhsR_of_sf_rhs32 : forall r : rhs b32, rhsR_of_sf (sf_rhs32 r) = rhsR32_of r.
Proof. intros r. unfold rhsR_of_sf, rhsR32_of, sf_rhs32. cbn [f_x f_y f_z f_p]. rewrite !SF2R_B2SF. reflexivity. Qed.

Lemma rhs_finite_sf_rhs32 : forall r : rhs b32, rhs_finite_sf (sf_rhs32 r) <-> rhs32_finite r.
Proof.
  intros r. unfold rhs_finite_sf, rhs32_finite, sf_rhs32. cbn [f_x f_y f_z f_p]. rewrite !is_finite_SF_B2SF. tauto.
Qed.

Theorem sf32_two_phase_error : forall (p : part b32) (l1 l2 : list (part b32)),
  Forall (fun q => b32_inputs_ok18 p q) l1 -> Forall (fun q => b32_inputs_ok18 q p) l2 ->
  (Z.of_nat (length l1 + length l2) <= 2 ^ 11)%Z ->
  let r := fold_left (stepT spec_float sfo32 (sf_part32 p)) (map sf_part32 l2)
             (fold_left (fun a tk => backT spec_float sfo32 tk (sf_part32 p) a) (map sf_part32 l1)
                (rhs0 spec_float sfo32)) in
  rhs_finite_sf r /\ acc_bound (bpow radix2 (-24)) (map partR32_of (l1 ++ l2)) (partR32_of p) (rhsR_of_sf r).
Proof.
  intros p l1 l2 H1 H2 Hlen r. subst r.
  rewrite <- sf32_rhs0, sf32_fold_backT_bridge, sf32_fold_stepT_bridge, rhsR_of_sf_rhs32, rhs_finite_sf_rhs32.
  exact (b32_two_phase_error p l1 l2 H1 H2 Hlen).
Qed.

Theorem sf32_mutual_source_error : forall (tgts : list (part b32)) (s : part b32),
  Forall (fun t => b32_inputs_ok18 s t) tgts -> (Z.of_nat (length tgts) <= 2 ^ 11)%Z ->
  let r := fold_left (fun a t => backT spec_float sfo32 t (sf_part32 s) a) (map sf_part32 tgts) (rhs0 spec_float sfo32) in
  rhs_finite_sf r /\ acc_bound (bpow radix2 (-24)) (map partR32_of tgts) (partR32_of s) (rhsR_of_sf r).
Proof.
  intros tgts s HF Hlen r. subst r.
  rewrite <- sf32_rhs0, sf32_fold_backT_bridge, rhsR_of_sf_rhs32, rhs_finite_sf_rhs32.
  exact (b32_mutual_source_error tgts s HF Hlen).
Qed.

Theorem sf32_inner_error : forall (ps : list (part b32 * rhs b32)) (d : part b32 * rhs b32),
  ForallOrdPairs (fun a b => b32_inputs_ok18 (fst a) (fst b)) ps ->
  Forall (fun pr => snd pr = rhs0 b32 b32_ops) ps ->
  (Z.of_nat (length ps) <= 2 ^ 11)%Z ->
  forall i, (i < length ps)%nat ->
    let r := nth i (inner spec_float sfo32 (map sf32_pr ps)) (rhs0 spec_float sfo32) in
    rhs_finite_sf r /\
    acc_bound (bpow radix2 (-24)) (map partR32_of (map fst (firstn i ps ++ skipn (S i) ps)))
      (partR32_of (fst (nth i ps d))) (rhsR_of_sf r).
Proof.
  intros ps d Hord Hz Hlen i Hi r. subst r.
  rewrite sf32_inner_bridge, <- sf32_rhs0, map_nth, rhsR_of_sf_rhs32, rhs_finite_sf_rhs32.
  exact (b32_inner_error ps d Hord Hz Hlen i Hi).
Qed.

Theorem sf32_mutual_error : forall (srcs tgts : list (part b32 * rhs b32)),
  Forall (fun sr => snd sr = rhs0 b32 b32_ops) srcs -> Forall (fun tg => snd tg = rhs0 b32 b32_ops) tgts ->
  Forall (fun sr => Forall (fun tg => b32_inputs_ok18 (fst sr) (fst tg)) tgts) srcs ->
  (Z.of_nat (length tgts) <= 2 ^ 11)%Z -> (Z.of_nat (length srcs) <= 2 ^ 11)%Z ->
  let res := full_mutual spec_float sfo32 (map sf32_pr srcs) (map sf32_pr tgts) in
  Forall2 (fun sr sr' => fst sr' = sf_part32 (fst sr) /\ rhs_finite_sf (snd sr') /\
            acc_bound (bpow radix2 (-24)) (map partR32_of (map fst tgts)) (partR32_of (fst sr)) (rhsR_of_sf (snd sr')))
    srcs (fst res) /\
  Forall2 (fun tg r' => rhs_finite_sf r' /\
            acc_bound (bpow radix2 (-24)) (map partR32_of (map fst srcs)) (partR32_of (fst tg)) (rhsR_of_sf r'))
    tgts (snd res).
Proof.
  intros srcs tgts Zs Zt Hok Ht Hs res. subst res. rewrite sf32_full_mutual_bridge. cbn [fst snd].
  destruct (b32_mutual_error srcs tgts Zs Zt Hok Ht Hs) as [HS HT]. split.
  - apply Forall2_map_r. rewrite full_mutual_sources in HS |- *. apply Forall_map in HS.
    apply Forall2_map_self. eapply Forall_impl; [|exact HS]. intros sr [Hf Hb]. cbn [fst snd] in *.
    unfold sf32_pr. cbn [fst snd]. rewrite rhsR_of_sf_rhs32, rhs_finite_sf_rhs32.
    split; [reflexivity | split; assumption].
  - apply Forall2_map_r. revert HT. apply Forall2_weaken. intros tg r' [Hf Hb].
    rewrite rhsR_of_sf_rhs32, rhs_finite_sf_rhs32. split; assumption.
Qed.

(* ---------------------------------------------------------------------------------------------------------------- *)
(* Part 8: the hypotheses are satisfiable (particles of Num/P2PErrorSum32.v): sources (1,0,0), (0,2,0), target at the
   origin for the mutual routine; the leaf [origin; (1,0,0)] for the in-leaf routine *)

Definition z32 : rhs b32 := rhs0 b32 b32_ops.

Lemma ex32_m_ok : Forall (fun sr : part b32 * rhs b32 =>
                  Forall (fun tg : part b32 * rhs b32 => b32_inputs_ok18 (fst sr) (fst tg)) [(ex32_t0, z32)])
                  [(ex32_s1, z32); (ex32_s2, z32)].
Proof.
  constructor; [constructor; [exact ex32_ok1 | constructor]|].
  constructor; [constructor; [exact ex32_ok2 | constructor]|]. constructor.
Qed.

Lemma ex32_zero2 : Forall (fun sr : part b32 * rhs b32 => snd sr = rhs0 b32 b32_ops) [(ex32_s1, z32); (ex32_s2, z32)].
Proof. repeat constructor. Qed.
Lemma ex32_zero1 : Forall (fun sr : part b32 * rhs b32 => snd sr = rhs0 b32 b32_ops) [(ex32_t0, z32)].
Proof. repeat constructor. Qed.
Lemma ex32_len1 : (Z.of_nat (length [(ex32_t0, z32)]) <= 2 ^ 11)%Z.
Proof. cbn [length]. lia. Qed.
Lemma ex32_len2 : (Z.of_nat (length [(ex32_s1, z32); (ex32_s2, z32)]) <= 2 ^ 11)%Z.
Proof. cbn [length]. lia. Qed.

Definition ex32_sf_mutual_bound :=
  sf32_mutual_error [(ex32_s1, z32); (ex32_s2, z32)] [(ex32_t0, z32)] ex32_zero2 ex32_zero1 ex32_m_ok ex32_len1 ex32_len2.

Lemma ex32_leaf_ok : ForallOrdPairs (fun a b : part b32 * rhs b32 => b32_inputs_ok18 (fst a) (fst b))
                     [(ex32_t0, z32); (ex32_s1, z32)].
Proof.
  constructor; [constructor; [apply b32_inputs_ok18_sym; exact ex32_ok1 | constructor]|].
  constructor; [constructor|]. constructor.
Qed.

Lemma ex32_leaf_zero : Forall (fun sr : part b32 * rhs b32 => snd sr = rhs0 b32 b32_ops) [(ex32_t0, z32); (ex32_s1, z32)].
Proof. repeat constructor. Qed.
Lemma ex32_leaf_len : (Z.of_nat (length [(ex32_t0, z32); (ex32_s1, z32)]) <= 2 ^ 11)%Z.
Proof. cbn [length]. lia. Qed.

Definition ex32_sf_inner_bound := sf32_inner_error [(ex32_t0, z32); (ex32_s1, z32)] (ex32_t0, z32) ex32_leaf_ok ex32_leaf_zero ex32_leaf_len.

(* the values the executable SpecFloat model computes on them *)
Example ex32_mutual_value :
  full_mutual spec_float sfo32 (map sf32_pr [(ex32_s1, z32); (ex32_s2, z32)]) (map sf32_pr [(ex32_t0, z32)]) =
  ([(sf_part32 ex32_s1, {| f_x := S754_finite true 8388608 (-23); f_y := S754_zero false;
                           f_z := S754_zero false; f_p := S754_finite false 8388608 (-23) |});
    (sf_part32 ex32_s2, {| f_x := S754_zero false; f_y := S754_finite true 8388608 (-25);
                           f_z := S754_zero false; f_p := S754_finite false 8388608 (-24) |})],
   [{| f_x := S754_finite false 8388608 (-23); f_y := S754_finite false 8388608 (-25);
       f_z := S754_zero false; f_p := S754_finite false 12582912 (-23) |}]).
Proof. vm_compute. reflexivity. Qed.

Print Assumptions tr32_sub_any.
Print Assumptions b32_inputs_ok18_sym.
Print Assumptions two_phase_g32.
Print Assumptions b32_two_phase_error.
Print Assumptions b32_mutual_source_error.
Print Assumptions b32_inner_error.
Print Assumptions b32_mutual_error.
Print Assumptions sf32_full_mutual_bridge.
Print Assumptions sf32_inner_bridge.
Print Assumptions sf32_two_phase_error.
Print Assumptions sf32_mutual_source_error.
Print Assumptions sf32_inner_error.
Print Assumptions sf32_mutual_error.
