(* Laws of the one-dimensional uniform-interpolation building block (Num/UnifDefs.v), on exact rationals (Qeq):
   interpolation property at the nodes, equivalence of the C++ product form with the textbook Lagrange form,
   partition of unity, derivative sum, total P2M weight, and charge conservation, for the orders 2..8.
   Section 7: partition of unity of unif_L, total weight and charge conservation for EVERY order >= 1 (Neville
   recursion on the product form).  Not generalised: unif_L_is_lagrange and dL_sum_zero (orders 2..8 only). *)
From Coq Require Import QArith List ZArith Lia Bool.
From Tbfmm Require Import Num.UnifDefs.
Import ListNotations.
Local Open Scope Q_scope.

(* ------------------------------------------------------------------------------------------------------------ *)
(* generic facts on qsum                                                                                          *)

Lemma fold_Qplus_acc (l : list Q) (a : Q) : fold_left Qplus l a == a + qsum l.
Proof.
  unfold qsum. revert a. induction l as [|b l IH]; intro a; cbn [fold_left].
  - ring.
  - rewrite (IH (a + b)), (IH (0 + b)). ring.
Qed.

Lemma fold_Qplus_acc_eq (l : list Q) (a b : Q) : a == b -> fold_left Qplus l a == fold_left Qplus l b.
Proof. intro Hab. rewrite (fold_Qplus_acc l a), (fold_Qplus_acc l b), Hab. reflexivity. Qed.

Lemma qsum_nil : qsum [] == 0.
Proof. reflexivity. Qed.

Lemma qsum_cons (a : Q) (l : list Q) : qsum (a :: l) == a + qsum l.
Proof. unfold qsum at 1. cbn [fold_left]. rewrite fold_Qplus_acc. ring. Qed.

Lemma qsum_app (l1 l2 : list Q) : qsum (l1 ++ l2) == qsum l1 + qsum l2.
Proof.
  induction l1 as [|a l1 IH]; cbn [app].
  - rewrite qsum_nil. ring.
  - rewrite !qsum_cons, IH. ring.
Qed.

Lemma qsum_map_ext {A : Type} (f g : A -> Q) (l : list A) :
  (forall a, f a == g a) -> qsum (map f l) == qsum (map g l).
Proof.
  intro Hfg. induction l as [|a l IH]; cbn [map].
  - reflexivity.
  - rewrite !qsum_cons, IH, (Hfg a). reflexivity.
Qed.

Lemma qsum_map_ext_in {A : Type} (f g : A -> Q) (l : list A) :
  (forall a, In a l -> f a == g a) -> qsum (map f l) == qsum (map g l).
Proof.
  induction l as [|a l IH]; intro Hfg; cbn [map].
  - reflexivity.
  - rewrite !qsum_cons, IH, (Hfg a (or_introl eq_refl)).
    + reflexivity.
    + intros b Hb. apply Hfg. right. exact Hb.
Qed.

Lemma qsum_map_scale {A : Type} (c : Q) (f : A -> Q) (l : list A) :
  qsum (map (fun a => c * f a) l) == c * qsum (map f l).
Proof.
  induction l as [|a l IH]; cbn [map].
  - rewrite qsum_nil. ring.
  - rewrite !qsum_cons, IH. ring.
Qed.

Lemma qsum_map_scale_r {A : Type} (c : Q) (f : A -> Q) (l : list A) :
  qsum (map (fun a => f a * c) l) == qsum (map f l) * c.
Proof.
  induction l as [|a l IH]; cbn [map].
  - rewrite qsum_nil. ring.
  - rewrite !qsum_cons, IH. ring.
Qed.

Lemma qsum_map_plus {A : Type} (f g : A -> Q) (l : list A) :
  qsum (map (fun a => f a + g a) l) == qsum (map f l) + qsum (map g l).
Proof.
  induction l as [|a l IH]; cbn [map].
  - rewrite qsum_nil. ring.
  - rewrite !qsum_cons, IH. ring.
Qed.

Lemma qsum_map_zero {A : Type} (l : list A) : qsum (map (fun _ => 0) l) == 0.
Proof.
  induction l as [|a l IH]; cbn [map].
  - reflexivity.
  - rewrite qsum_cons, IH. ring.
Qed.

Lemma qsum_flat_map {A : Type} (f : A -> list Q) (l : list A) :
  qsum (flat_map f l) == qsum (map (fun a => qsum (f a)) l).
Proof.
  induction l as [|a l IH]; cbn [flat_map map].
  - reflexivity.
  - rewrite qsum_app, qsum_cons, IH. reflexivity.
Qed.

(* sum over i, j, k of a_i b_j c_k == (sum a) (sum b) (sum c) *)
Lemma qsum_triple_product {A : Type} (fa fb fc : A -> Q) (la lb lc : list A) :
  qsum (flat_map (fun i => flat_map (fun j => map (fun k => fa i * fb j * fc k) lc) lb) la)
  == qsum (map fa la) * qsum (map fb lb) * qsum (map fc lc).
Proof.
  rewrite qsum_flat_map.
  rewrite (qsum_map_ext _ (fun i => fa i * (qsum (map fb lb) * qsum (map fc lc)))).
  - rewrite qsum_map_scale_r. ring.
  - intro i. rewrite qsum_flat_map.
    rewrite (qsum_map_ext _ (fun j => fa i * fb j * qsum (map fc lc))).
    + rewrite qsum_map_scale_r.
      rewrite (qsum_map_scale (fa i) fb lb). ring.
    + intro j. apply (qsum_map_scale (fa i * fb j) fc lc).
Qed.

(* ------------------------------------------------------------------------------------------------------------ *)
(* the finitely many orders                                                                                       *)

Lemma order_cases (order : nat) :
  (2 <= order <= 8)%nat ->
  order = 2%nat \/ order = 3%nat \/ order = 4%nat \/ order = 5%nat \/ order = 6%nat \/ order = 7%nat \/ order = 8%nat.
Proof. lia. Qed.

Ltac split_order H :=
  apply order_cases in H;
  destruct H as [H|[H|[H|[H|[H|[H|H]]]]]]; subst.

(* unfold everything except the field operations of Q: constants become numerals *)
Ltac unf := cbv - [Qplus Qmult Qminus Qdiv Qopp Qeq Qinv].

Ltac qnz := try (repeat split; let Hq := fresh "Hq" in intro Hq; vm_compute in Hq; discriminate Hq).

(* ------------------------------------------------------------------------------------------------------------ *)
(* 1. interpolation property at the nodes                                                                         *)

Definition nodes_check : bool :=
  forallb (fun order =>
    forallb (fun n =>
      forallb (fun m => Qeq_bool (unif_L order n (unif_root order m)) (if Nat.eqb n m then 1 else 0))
              (seq 0 order))
            (seq 0 order))
          (seq 2 7).

Lemma nodes_check_true : nodes_check = true.
Proof. vm_compute. reflexivity. Qed.

Theorem lagrange_nodes : forall order n m, (2 <= order <= 8)%nat -> (n < order)%nat -> (m < order)%nat ->
  unif_L order n (unif_root order m) == (if Nat.eqb n m then 1 else 0).
Proof.
  intros order n m Ho Hn Hm.
  pose proof nodes_check_true as Hc. unfold nodes_check in Hc.
  rewrite forallb_forall in Hc.
  assert (Hio : In order (seq 2 7)) by (apply in_seq; lia).
  specialize (Hc order Hio). rewrite forallb_forall in Hc.
  assert (Hin : In n (seq 0 order)) by (apply in_seq; lia).
  specialize (Hc n Hin). rewrite forallb_forall in Hc.
  assert (Him : In m (seq 0 order)) by (apply in_seq; lia).
  specialize (Hc m Him).
  apply Qeq_bool_iff. exact Hc.
Qed.

(* ------------------------------------------------------------------------------------------------------------ *)
(* 2. the C++ product form is the textbook Lagrange polynomial                                                    *)

Ltac L_is_lagrange_order :=
  let n := fresh "n" in let x := fresh "x" in let Hn := fresh "Hn" in
  intros n x Hn;
  do 8 (destruct n as [|n]; [first [exfalso; lia | unf; field; qnz]|]); exfalso; lia.

Lemma L_is_lagrange_2 : forall n x, (n < 2)%nat -> unif_L 2 n x == lagrange 2 n x.
Proof. L_is_lagrange_order. Qed.
Lemma L_is_lagrange_3 : forall n x, (n < 3)%nat -> unif_L 3 n x == lagrange 3 n x.
Proof. L_is_lagrange_order. Qed.
Lemma L_is_lagrange_4 : forall n x, (n < 4)%nat -> unif_L 4 n x == lagrange 4 n x.
Proof. L_is_lagrange_order. Qed.
Lemma L_is_lagrange_5 : forall n x, (n < 5)%nat -> unif_L 5 n x == lagrange 5 n x.
Proof. L_is_lagrange_order. Qed.
Lemma L_is_lagrange_6 : forall n x, (n < 6)%nat -> unif_L 6 n x == lagrange 6 n x.
Proof. L_is_lagrange_order. Qed.
Lemma L_is_lagrange_7 : forall n x, (n < 7)%nat -> unif_L 7 n x == lagrange 7 n x.
Proof. L_is_lagrange_order. Qed.
Lemma L_is_lagrange_8 : forall n x, (n < 8)%nat -> unif_L 8 n x == lagrange 8 n x.
Proof. L_is_lagrange_order. Qed.

Theorem unif_L_is_lagrange : forall order n x, (2 <= order <= 8)%nat -> (n < order)%nat ->
  unif_L order n x == lagrange order n x.
Proof.
  intros order n x Ho Hn. split_order Ho.
  - apply L_is_lagrange_2; exact Hn.
  - apply L_is_lagrange_3; exact Hn.
  - apply L_is_lagrange_4; exact Hn.
  - apply L_is_lagrange_5; exact Hn.
  - apply L_is_lagrange_6; exact Hn.
  - apply L_is_lagrange_7; exact Hn.
  - apply L_is_lagrange_8; exact Hn.
Qed.

(* ------------------------------------------------------------------------------------------------------------ *)
(* 3. partition of unity                                                                                          *)

Lemma pou_2 x : qsum (map (fun n => unif_L 2 n x) (seq 0 2)) == 1. Proof. unf. field. Qed.
Lemma pou_3 x : qsum (map (fun n => unif_L 3 n x) (seq 0 3)) == 1. Proof. unf. field. Qed.
Lemma pou_4 x : qsum (map (fun n => unif_L 4 n x) (seq 0 4)) == 1. Proof. unf. field. Qed.
Lemma pou_5 x : qsum (map (fun n => unif_L 5 n x) (seq 0 5)) == 1. Proof. unf. field. Qed.
Lemma pou_6 x : qsum (map (fun n => unif_L 6 n x) (seq 0 6)) == 1. Proof. unf. field. Qed.
Lemma pou_7 x : qsum (map (fun n => unif_L 7 n x) (seq 0 7)) == 1. Proof. unf. field. Qed.
Lemma pou_8 x : qsum (map (fun n => unif_L 8 n x) (seq 0 8)) == 1. Proof. unf. field. Qed.

Theorem partition_of_unity : forall order x, (2 <= order <= 8)%nat ->
  qsum (map (fun n => unif_L order n x) (seq 0 order)) == 1.
Proof.
  intros order x Ho. split_order Ho.
  - apply pou_2.
  - apply pou_3.
  - apply pou_4.
  - apply pou_5.
  - apply pou_6.
  - apply pou_7.
  - apply pou_8.
Qed.

(* ------------------------------------------------------------------------------------------------------------ *)
(* 4. the derivatives sum to zero                                                                                 *)

Lemma dL0_2 x : qsum (map (fun n => unif_dL 2 n x) (seq 0 2)) == 0. Proof. unf. field; qnz. Qed.
Lemma dL0_3 x : qsum (map (fun n => unif_dL 3 n x) (seq 0 3)) == 0. Proof. unf. field; qnz. Qed.
Lemma dL0_4 x : qsum (map (fun n => unif_dL 4 n x) (seq 0 4)) == 0. Proof. unf. field; qnz. Qed.
Lemma dL0_5 x : qsum (map (fun n => unif_dL 5 n x) (seq 0 5)) == 0. Proof. unf. field; qnz. Qed.
Lemma dL0_6 x : qsum (map (fun n => unif_dL 6 n x) (seq 0 6)) == 0. Proof. unf. field; qnz. Qed.
Lemma dL0_7 x : qsum (map (fun n => unif_dL 7 n x) (seq 0 7)) == 0. Proof. unf. field; qnz. Qed.
Lemma dL0_8 x : qsum (map (fun n => unif_dL 8 n x) (seq 0 8)) == 0. Proof. unf. field; qnz. Qed.

Theorem dL_sum_zero : forall order x, (2 <= order <= 8)%nat ->
  qsum (map (fun n => unif_dL order n x) (seq 0 order)) == 0.
Proof.
  intros order x Ho. split_order Ho.
  - apply dL0_2.
  - apply dL0_3.
  - apply dL0_4.
  - apply dL0_5.
  - apply dL0_6.
  - apply dL0_7.
  - apply dL0_8.
Qed.

(* ------------------------------------------------------------------------------------------------------------ *)
(* 5. the P2M weights of a particle sum to one                                                                    *)

Lemma total_weight_from_pou (order : nat) :
  (forall x, qsum (map (fun n => unif_L order n x) (seq 0 order)) == 1) ->
  forall x y z, unif_total_weight order x y z == 1.
Proof.
  intros Hpou x y z. unfold unif_total_weight, unif_weight.
  rewrite (qsum_triple_product (fun i => unif_L order i x) (fun j => unif_L order j y) (fun k => unif_L order k z)).
  rewrite !Hpou. ring.
Qed.

Theorem total_weight_one : forall order x y z, (2 <= order <= 8)%nat -> unif_total_weight order x y z == 1.
Proof.
  intros order x y z Ho. apply total_weight_from_pou. intro x0. apply partition_of_unity. exact Ho.
Qed.

(* ------------------------------------------------------------------------------------------------------------ *)
(* 6. charge conservation of the one-dimensional P2M / M2M                                                        *)

Lemma charge_from_pou (order : nat) :
  (forall x, qsum (map (fun n => unif_L order n x) (seq 0 order)) == 1) ->
  forall ps : list (Q * Q),
  qsum (map (fun n => qsum (map (fun p => snd p * unif_L order n (fst p)) ps)) (seq 0 order)) == qsum (map snd ps).
Proof.
  intros Hpou ps. induction ps as [|p ps IH].
  - cbn [map]. rewrite qsum_map_zero. reflexivity.
  - cbn [map]. rewrite qsum_cons.
    rewrite (qsum_map_ext _ (fun n => snd p * unif_L order n (fst p)
                                      + qsum (map (fun p0 => snd p0 * unif_L order n (fst p0)) ps))).
    + rewrite qsum_map_plus, IH.
      rewrite (qsum_map_scale (snd p) (fun n => unif_L order n (fst p))).
      rewrite Hpou. ring.
    + intro n. apply qsum_cons.
Qed.

Theorem charge_conservation : forall order (ps : list (Q * Q)), (2 <= order <= 8)%nat ->
  qsum (map (fun n => qsum (map (fun p => snd p * unif_L order n (fst p)) ps)) (seq 0 order)) == qsum (map snd ps).
Proof.
  intros order ps Ho. apply charge_from_pou. intro x. apply partition_of_unity. exact Ho.
Qed.

(* ------------------------------------------------------------------------------------------------------------ *)
(* 7. partition of unity (and its two corollaries) for EVERY order >= 1.
   With N = order - 1 and t = N (x + 1) / 2 the C++ factor N (x + 1) - 2 m is 2 (t - m), and
   T(N, n, t) = prod_{m <> n, m <= N} 2 (t - m) * scale(N + 1, n) satisfies the Neville recursion
   (N + 1) T(N + 1, n, t) = t T(N, n - 1, t - 1) + (N + 1 - t) T(N, n, t)   (with T(N, -1, .) = T(N, N + 1, .) = 0),
   so that the sum over n is 1 by induction on N, for every t.                                                   *)

Local Notation qn k := (inject_Z (Z.of_nat k)).

Lemma qn_S (k : nat) : qn (S k) == qn k + 1.
Proof. rewrite Nat2Z.inj_succ. unfold Z.succ. rewrite inject_Z_plus. reflexivity. Qed.

Lemma qn_add_eq (a b c : nat) : c = (a + b)%nat -> qn c == qn a + qn b.
Proof. intro Hc. subst c. rewrite Nat2Z.inj_add, inject_Z_plus. reflexivity. Qed.

Lemma qn_S_nz (k : nat) : ~ qn (S k) == 0.
Proof.
  intro H. unfold Qeq in H. cbn [Qnum Qden inject_Z] in H. lia.
Qed.

Lemma qfact_nz (k : nat) : ~ qfact k == 0.
Proof.
  induction k as [|k IH]; cbn [qfact].
  - intro H. discriminate H.
  - intro H. apply Qmult_integral in H. destruct H as [H|H].
    + exact (qn_S_nz k H).
    + exact (IH H).
Qed.

Lemma qpow2_nz (k : nat) : ~ qpow 2 k == 0.
Proof.
  induction k as [|k IH]; cbn [qpow].
  - intro H. discriminate H.
  - intro H. apply Qmult_integral in H. destruct H as [H|H].
    + discriminate H.
    + exact (IH H).
Qed.

Definition sgn (k : nat) : Q := if Nat.odd k then -1 else 1.

Lemma sgn_S (k : nat) : sgn (S k) == - sgn k.
Proof.
  unfold sgn. rewrite Nat.odd_succ, <- Nat.negb_odd.
  destruct (Nat.odd k); reflexivity.
Qed.

Lemma unif_scale_eq (order n k e : nat) :
  order = S e -> e = (n + k)%nat ->
  unif_scale order n == sgn k / (qpow 2 e * qfact n * qfact k).
Proof.
  intros Ho He. unfold unif_scale, sgn.
  replace (order - n - 1)%nat with k by lia.
  replace (order - 1)%nat with e by lia.
  reflexivity.
Qed.

(* skip-product *)
Definition sp (l : list nat) (n : nat) (g : nat -> Q) : Q :=
  fold_left (fun acc m => if Nat.eqb m n then acc else acc * g m) l 1.

Lemma sp_acc (l : list nat) (n : nat) (g : nat -> Q) (a : Q) :
  fold_left (fun acc m => if Nat.eqb m n then acc else acc * g m) l a == a * sp l n g.
Proof.
  unfold sp. revert a. induction l as [|m l IH]; intro a; cbn [fold_left].
  - ring.
  - destruct (Nat.eqb m n).
    + apply IH.
    + rewrite (IH (a * g m)), (IH (1 * g m)). ring.
Qed.

Lemma sp_cons (m : nat) (l : list nat) (n : nat) (g : nat -> Q) :
  sp (m :: l) n g == (if Nat.eqb m n then 1 else g m) * sp l n g.
Proof.
  unfold sp at 1. cbn [fold_left]. rewrite sp_acc.
  destruct (Nat.eqb m n); ring.
Qed.

Lemma sp_snoc (m : nat) (l : list nat) (n : nat) (g : nat -> Q) :
  sp (l ++ [m]) n g == sp l n g * (if Nat.eqb m n then 1 else g m).
Proof.
  unfold sp at 1. rewrite fold_left_app. cbn [fold_left]. fold (sp l n g).
  destruct (Nat.eqb m n); ring.
Qed.

Lemma sp_ext (l : list nat) (n : nat) (g g' : nat -> Q) :
  (forall m, g m == g' m) -> sp l n g == sp l n g'.
Proof.
  intro Hg. induction l as [|m l IH].
  - reflexivity.
  - rewrite !sp_cons, IH. destruct (Nat.eqb m n); [reflexivity|]. rewrite (Hg m). reflexivity.
Qed.

Lemma sp_shift (l : list nat) (n : nat) (g : nat -> Q) :
  sp (map S l) (S n) g = sp l n (fun m => g (S m)).
Proof.
  unfold sp. generalize 1. induction l as [|m l IH]; intro a; cbn [map fold_left].
  - reflexivity.
  - cbn [Nat.eqb]. apply IH.
Qed.

Definition gfac (t : Q) (m : nat) : Q := 2 * (t - qn m).
Definition Tn (N n : nat) (t : Q) : Q := sp (seq 0 (S N)) n (gfac t) * unif_scale (S N) n.

Lemma unif_L_Tn (N n : nat) (x : Q) : unif_L (S N) n x == Tn N n (qn N * (x + 1) / 2).
Proof.
  unfold unif_L, Tn.
  replace (Z.of_nat (S N) - 1)%Z with (Z.of_nat N) by lia.
  apply Qmult_comp; [|reflexivity].
  apply (sp_ext (seq 0 (S N)) n (fun m => qn N * (x + 1) - 2 * qn m)).
  intro m. unfold gfac. field.
Qed.

Lemma sp_seq_ends (N n : nat) (g : nat -> Q) :
  sp (seq 0 (S (S N))) n g
  == (if Nat.eqb 0 n then 1 else g 0%nat) * (sp (seq 1 N) n g * (if Nat.eqb (S N) n then 1 else g (S N))).
Proof.
  change (seq 0 (S (S N))) with (0%nat :: seq 1 (S N)).
  rewrite sp_cons, seq_S, sp_snoc. reflexivity.
Qed.

Lemma sp_seq_head (N n : nat) (g : nat -> Q) :
  sp (seq 0 (S N)) n g == (if Nat.eqb 0 n then 1 else g 0%nat) * sp (seq 1 N) n g.
Proof.
  change (seq 0 (S N)) with (0%nat :: seq 1 N). apply sp_cons.
Qed.

Lemma sp_seq_shifted (N n' : nat) (t : Q) :
  sp (seq 0 (S N)) n' (gfac (t - 1))
  == sp (seq 1 N) (S n') (gfac t) * (if Nat.eqb N n' then 1 else gfac t (S N)).
Proof.
  rewrite (sp_ext _ _ (gfac (t - 1)) (fun m => gfac t (S m))).
  - rewrite <- sp_shift, seq_shift, seq_S, sp_snoc. reflexivity.
  - intro m. unfold gfac. rewrite (qn_S m). ring.
Qed.

Definition TA (N : nat) (t : Q) (n : nat) : Q := match n with O => 0 | S n' => Tn N n' (t - 1) end.
Definition TB (N : nat) (t : Q) (n : nat) : Q := if Nat.eqb n (S N) then 0 else Tn N n t.

Lemma Tn_rec_zero (N : nat) (t : Q) :
  Tn (S N) 0 t * qn (S N) == t * TA N t 0 + (qn (S N) - t) * TB N t 0.
Proof.
  unfold TA, TB, Tn. cbn [Nat.eqb].
  rewrite sp_seq_ends, sp_seq_head. cbn [Nat.eqb].
  rewrite (unif_scale_eq (S (S N)) 0 (S N) (S N)) by lia.
  rewrite (unif_scale_eq (S N) 0 N N) by lia.
  rewrite sgn_S. cbn [qpow qfact]. unfold gfac.
  field. repeat split; auto using qn_S_nz, qfact_nz, qpow2_nz.
Qed.

Lemma Tn_rec_top (N : nat) (t : Q) :
  Tn (S N) (S N) t * qn (S N) == t * TA N t (S N) + (qn (S N) - t) * TB N t (S N).
Proof.
  unfold TA, TB, Tn. rewrite Nat.eqb_refl.
  rewrite sp_seq_ends, sp_seq_shifted. rewrite !Nat.eqb_refl. cbn [Nat.eqb].
  rewrite (unif_scale_eq (S (S N)) (S N) 0 (S N)) by lia.
  rewrite (unif_scale_eq (S N) N 0 N) by lia.
  cbn [qpow qfact]. unfold gfac. change (Z.of_nat 0) with 0%Z.
  field. repeat split; auto using qn_S_nz, qfact_nz, qpow2_nz.
Qed.

Lemma Tn_rec_mid (N n' k : nat) (t : Q) :
  N = (S n' + k)%nat ->
  Tn (S N) (S n') t * qn (S N) == t * TA N t (S n') + (qn (S N) - t) * TB N t (S n').
Proof.
  intro HN. unfold TA, TB, Tn.
  assert (Hne1 : Nat.eqb n' N = false) by (apply Nat.eqb_neq; lia).
  assert (Hne2 : Nat.eqb N n' = false) by (apply Nat.eqb_neq; lia).
  cbn [Nat.eqb]. rewrite Hne1.
  rewrite sp_seq_ends, sp_seq_shifted, sp_seq_head. cbn [Nat.eqb]. rewrite Hne2.
  rewrite (unif_scale_eq (S (S N)) (S n') (S k) (S N)) by lia.
  rewrite (unif_scale_eq (S N) n' (S k) N) by lia.
  rewrite (unif_scale_eq (S N) (S n') k N) by lia.
  rewrite sgn_S. cbn [qpow qfact]. unfold gfac. change (Z.of_nat 0) with 0%Z.
  rewrite (qn_add_eq (S n') (S k) (S N)) by lia.
  field. repeat split; auto using qn_S_nz, qfact_nz, qpow2_nz.
Qed.

Lemma Tn_rec (N n : nat) (t : Q) :
  (n <= S N)%nat ->
  Tn (S N) n t * qn (S N) == t * TA N t n + (qn (S N) - t) * TB N t n.
Proof.
  intro Hn. destruct n as [|n'].
  - apply Tn_rec_zero.
  - destruct (Nat.eq_dec n' N) as [He|Hne].
    + subst n'. apply Tn_rec_top.
    + apply (Tn_rec_mid N n' (N - S n')). lia.
Qed.

Lemma TA_sum (N : nat) (t : Q) :
  qsum (map (TA N t) (seq 0 (S (S N)))) == qsum (map (fun n => Tn N n (t - 1)) (seq 0 (S N))).
Proof.
  change (seq 0 (S (S N))) with (0%nat :: seq 1 (S N)).
  cbn [map]. rewrite qsum_cons. rewrite <- seq_shift, map_map.
  cbn [TA]. ring.
Qed.

Lemma TB_sum (N : nat) (t : Q) :
  qsum (map (TB N t) (seq 0 (S (S N)))) == qsum (map (fun n => Tn N n t) (seq 0 (S N))).
Proof.
  rewrite (seq_S (S N) 0), map_app, qsum_app. cbn [map Nat.add].
  rewrite qsum_cons, qsum_nil. unfold TB at 2. rewrite Nat.eqb_refl.
  rewrite (qsum_map_ext_in (TB N t) (fun n => Tn N n t)).
  - ring.
  - intros n Hn. apply in_seq in Hn. unfold TB.
    replace (Nat.eqb n (S N)) with false by (symmetry; apply Nat.eqb_neq; lia).
    reflexivity.
Qed.

Lemma Tn_sum (N : nat) : forall t, qsum (map (fun n => Tn N n t) (seq 0 (S N))) == 1.
Proof.
  induction N as [|N IH]; intro t.
  - cbv - [Qplus Qmult Qminus Qdiv Qopp Qeq Qinv]. field.
  - apply (Qmult_inj_r _ _ (qn (S N))); [apply qn_S_nz|].
    rewrite <- qsum_map_scale_r.
    rewrite (qsum_map_ext_in _ (fun n => t * TA N t n + (qn (S N) - t) * TB N t n)).
    + rewrite qsum_map_plus, !qsum_map_scale, TA_sum, TB_sum, (IH t), (IH (t - 1)). ring.
    + intros n Hn. apply in_seq in Hn. apply Tn_rec. lia.
Qed.

Theorem partition_of_unity_any_order : forall order x, (1 <= order)%nat ->
  qsum (map (fun n => unif_L order n x) (seq 0 order)) == 1.
Proof.
  intros order x Ho. destruct order as [|N]; [lia|].
  rewrite (qsum_map_ext _ (fun n => Tn N n (qn N * (x + 1) / 2))).
  - apply Tn_sum.
  - intro n. apply unif_L_Tn.
Qed.

Theorem partition_of_unity_ge2 : forall order x, (2 <= order)%nat ->
  qsum (map (fun n => unif_L order n x) (seq 0 order)) == 1.
Proof. intros order x Ho. apply partition_of_unity_any_order. lia. Qed.

Theorem total_weight_one_any_order : forall order x y z, (1 <= order)%nat -> unif_total_weight order x y z == 1.
Proof.
  intros order x y z Ho. apply total_weight_from_pou. intro x0. apply partition_of_unity_any_order. exact Ho.
Qed.

Theorem charge_conservation_any_order : forall order (ps : list (Q * Q)), (1 <= order)%nat ->
  qsum (map (fun n => qsum (map (fun p => snd p * unif_L order n (fst p)) ps)) (seq 0 order)) == qsum (map snd ps).
Proof.
  intros order ps Ho. apply charge_from_pou. intro x. apply partition_of_unity_any_order. exact Ho.
Qed.

Print Assumptions lagrange_nodes.
Print Assumptions unif_L_is_lagrange.
Print Assumptions partition_of_unity.
Print Assumptions dL_sum_zero.
Print Assumptions total_weight_one.
Print Assumptions charge_conservation.
Print Assumptions partition_of_unity_any_order.
Print Assumptions partition_of_unity_ge2.
Print Assumptions total_weight_one_any_order.
Print Assumptions charge_conservation_any_order.
