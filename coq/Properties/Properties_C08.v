(* C08 — results and the set of elementary interactions do not depend on the grouping.
   Statements only; proofs in Spec/Corollaries.v and Spec/ExactlyOnce.v. *)
From Tbfmm Require Import Base.Prelude Index.MortonDefs Index.ListsDefs Index.ListsCapacity Tree.GroupDefs Tree.BuildDefs
     Tree.Invariant Exec.ExecDefs Spec.Elem Spec.Kernel Spec.ExactlyOnce Spec.Corollaries.
From Coq Require Import Sorting.Permutation.
Local Open Scope Z_scope.

(* the multiset of elementary interactions of a full run equals a specification written ONLY in terms of the dimension, the
   periodic flag, the upper level, the height and the table of occupied leaves - block size and grouping mode do not occur *)
Theorem C08_exec_refines_spec : forall d per H B mode s t idx, (0 < d)%nat -> 1 <= H ->
  tree_ok (parent d) H B mode t -> particles_ok idx t ->
  Forall (fun i => 0 <= i < 2 ^ ((H - 1) * dz d)) idx -> idx <> [] ->
  Permutation (elementary (execute d per s 63 t)) (spec_all d per s H (leaf_table t)).
Proof. exact exec_refines_spec. Qed.
Print Assumptions C08_exec_refines_spec.

(* hence two groupings of the same leaves (any two block sizes, any two modes) perform the same elementary interactions *)
Theorem C08_grouping_independent : forall d per H B1 m1 B2 m2 s t1 t2 idx, (0 < d)%nat -> 1 <= H ->
  tree_ok (parent d) H B1 m1 t1 -> tree_ok (parent d) H B2 m2 t2 -> particles_ok idx t1 -> particles_ok idx t2 ->
  Forall (fun i => 0 <= i < 2 ^ ((H - 1) * dz d)) idx -> idx <> [] -> leaf_table t1 = leaf_table t2 ->
  Permutation (elementary (execute d per s 63 t1)) (elementary (execute d per s 63 t2)).
Proof. exact grouping_independent. Qed.
Print Assumptions C08_grouping_independent.

(* and the particle results are the same (for s <= 2 both equal "every other particle once", whatever B and the mode) *)
Theorem C08_results_independent : forall d H B1 m1 B2 m2 s t1 t2 idx, (0 < d)%nat -> 1 <= H ->
  tree_ok (parent d) H B1 m1 t1 -> tree_ok (parent d) H B2 m2 t2 -> particles_ok idx t1 -> particles_ok idx t2 ->
  Forall (fun i => 0 <= i < 2 ^ ((H - 1) * dz d)) idx -> idx <> [] -> s <= 2 ->
  forall p q, 0 <= p < zlen idx -> 0 <= q < zlen idx ->
    reached (run (H - 1) (execute d false s 63 t1) st0) p q = reached (run (H - 1) (execute d false s 63 t2) st0) p q.
Proof.
  intros d H B1 m1 B2 m2 s t1 t2 idx Hd HH T1 T2 P1 P2 Hr Hne Hs p q Hp Hq.
  pose proof (fun l t Hl Ht => ilist_cell_capacity d false l t Hd Hl Ht) as Hcap.
  rewrite (fmm_exactly_once d Hd Hcap H B1 m1 s t1 idx HH T1 P1 Hr Hne Hs p q Hp Hq).
  rewrite (fmm_exactly_once d Hd Hcap H B2 m2 s t2 idx HH T2 P2 Hr Hne Hs p q Hp Hq).
  reflexivity.
Qed.
Print Assumptions C08_results_independent.

(* the automatic block size is some B >= 1 (max(1, n/(2T))), which the theorems above cover *)
Lemma C08_auto_block_size_pos : forall nleaves threads, 1 <= Z.max 1 (nleaves / (threads * 2)).
Proof. intros. lia. Qed.

Example C08_example :
  let idx := [5;5;63;0;9;12;9;300;301;511] in
  leaf_table (build (parent 3) 4 1 false idx) = leaf_table (build (parent 3) 4 7 true idx).
Proof. vm_compute. reflexivity. Qed.

(* ---- the target/source executor (Spec/CorollariesTsm.v): the elementary interactions are a function of the two leaf tables ---- *)
From Tbfmm Require Import Exec.ExecTsmDefs Exec.CounterDefs Spec.CorollariesTsm.

Theorem C08_tsm_exec_refines_spec : forall d per H Bs Bt ms mt s src tgt idxs idxt, (0 < d)%nat -> 1 <= H ->
  tree_ok (parent d) H Bs ms src -> tree_ok (parent d) H Bt mt tgt -> particles_ok idxs src -> particles_ok idxt tgt ->
  Forall (fun i => 0 <= i < 2 ^ ((H - 1) * dz d)) idxs -> Forall (fun i => 0 <= i < 2 ^ ((H - 1) * dz d)) idxt ->
  Permutation (elementary (execute_tsm d per s 63 src tgt)) (spec_all_tsm d per s H (leaf_table src) (leaf_table tgt)).
Proof. exact tsm_exec_refines_spec. Qed.
Print Assumptions C08_tsm_exec_refines_spec.

Theorem C08_tsm_grouping_independent : forall d per H Bs1 ms1 Bt1 mt1 Bs2 ms2 Bt2 mt2 s src1 tgt1 src2 tgt2 idxs idxt,
  (0 < d)%nat -> 1 <= H ->
  tree_ok (parent d) H Bs1 ms1 src1 -> tree_ok (parent d) H Bt1 mt1 tgt1 ->
  tree_ok (parent d) H Bs2 ms2 src2 -> tree_ok (parent d) H Bt2 mt2 tgt2 ->
  particles_ok idxs src1 -> particles_ok idxt tgt1 -> particles_ok idxs src2 -> particles_ok idxt tgt2 ->
  Forall (fun i => 0 <= i < 2 ^ ((H - 1) * dz d)) idxs -> Forall (fun i => 0 <= i < 2 ^ ((H - 1) * dz d)) idxt ->
  leaf_table src1 = leaf_table src2 -> leaf_table tgt1 = leaf_table tgt2 ->
  Permutation (elementary (execute_tsm d per s 63 src1 tgt1)) (elementary (execute_tsm d per s 63 src2 tgt2)).
Proof. exact tsm_grouping_independent. Qed.
Print Assumptions C08_tsm_grouping_independent.
