(* C07 — the tree is the sorted, partitioned ancestor closure of the occupied leaves.
   Statements only; proofs in Tree/BuildProofs.v. *)
From Tbfmm Require Import Base.Prelude Index.MortonDefs Index.MortonProofs Tree.GroupDefs Tree.BuildDefs Tree.Invariant Tree.BuildProofs.
Local Open Scope Z_scope.

(* the executable checker run on every dumped tree decides exactly the invariant *)
Theorem C07_tree_okb_spec : forall par H B mode t, 0 <= H -> (tree_okb par H B mode t = true <-> tree_ok par H B mode t).
Proof. exact tree_okb_spec. Qed.
Print Assumptions C07_tree_okb_spec.

(* one level up, both grouping strategies: non-empty groups, headers matching content, strictly increasing indices across
   groups, cells = exactly the parents of the level below, block size respected unless one-group-per-parent *)
Theorem C07_level_up_ok : forall par mode B lower, (forall a b, a <= b -> par a <= par b) -> (forall a, 0 <= a -> 0 <= par a) ->
  1 <= B -> level_ok lower -> Forall (fun c => 0 <= c) (level_cells lower) ->
  let up := level_up par mode B lower in
  level_ok up /\ level_cells up = parents_of par (level_cells lower) /\ (mode = false -> Forall (fun g => cg_n g <= B) up)
  /\ Forall (fun c => 0 <= c) (level_cells up).
Proof. exact level_up_ok. Qed.
Print Assumptions C07_level_up_ok.

(* the whole constructor, for every input (any number of particles, any leaf indices >= 0), every height, every block size >= 1,
   both grouping modes, and every monotone parent map (Morton in any dimension, see C07_morton_instance) *)
Theorem C07_build_ok : forall par H B mode idx, (forall a b, a <= b -> par a <= par b) -> (forall a, 0 <= a -> 0 <= par a) ->
  1 <= H -> 1 <= B -> idx <> [] -> Forall (fun c => 0 <= c) idx ->
  tree_ok par H B mode (build par H B mode idx).
Proof. exact build_ok. Qed.
Print Assumptions C07_build_ok.

(* the occupied leaves of the tree are exactly the leaf indices of the input particles *)
Theorem C07_build_leaf_set : forall par H B mode idx, 1 <= H -> 1 <= B -> idx <> [] -> Forall (fun c => 0 <= c) idx ->
  forall i, In i (flat_map pg_indices (t_pgroups (build par H B mode idx))) <-> In i idx.
Proof. exact build_leaf_set. Qed.
Print Assumptions C07_build_leaf_set.

(* the Morton parent map of any dimension satisfies the two hypotheses *)
Lemma morton_parent_monotone : forall d a b, a <= b -> parent d a <= parent d b.
Proof. intros d a b Hab. rewrite !parent_div. apply Z.div_le_mono; [apply pow_dz_pos | exact Hab]. Qed.
Lemma morton_parent_nonneg : forall d a, 0 <= a -> 0 <= parent d a.
Proof. intros d a Ha. rewrite parent_div. apply Z.div_pos; [exact Ha | apply pow_dz_pos]. Qed.
Theorem C07_morton_instance : forall d H B mode idx, 1 <= H -> 1 <= B -> idx <> [] -> Forall (fun c => 0 <= c) idx ->
  tree_ok (parent d) H B mode (build (parent d) H B mode idx).
Proof.
  intros d H B mode idx HH HB Hne Hpos.
  exact (build_ok (parent d) H B mode idx (morton_parent_monotone d) (morton_parent_nonneg d) HH HB Hne Hpos).
Qed.
Print Assumptions C07_morton_instance.

(* non-vacuity *)
Example C07_example : tree_okb (parent 3) 3 2 false (build (parent 3) 3 2 false [5;5;63;0;9;12;9]) = true
                   /\ tree_okb (parent 3) 3 2 true (build (parent 3) 3 2 true [5;5;63;0;9;12;9]) = true.
Proof. vm_compute. split; reflexivity. Qed.
