(* C07 property theorems (statements closed by [exact]); filled as the proofs land. *)
From Tbfmm Require Import Base.Prelude Tree.GroupDefs Tree.BuildDefs Tree.Invariant.
Local Open Scope Z_scope.

(* non-vacuity: the model builds a tree satisfying the invariant on a concrete input *)
Theorem C07_example_tree_ok :
  tree_okb (fun i => i / 8) 3 2 false (build (fun i => i / 8) 3 2 false [5;5;63;0;9;12;9]) = true.
Proof. vm_compute. reflexivity. Qed.
Print Assumptions C07_example_tree_ok.
