(* C05 - uniform interpolation kernel.  The accuracy clause is measured (checks/numcheck.py, DESIGN.md).  What is modelled
   and proved: the one-dimensional building block FUnifRoots (Num/UnifDefs.v: equispaced roots, the Lagrange polynomials in the
   product form of the C++, their derivatives; exact rationals, compared with the C++ values within rounding on every run):
   the product form IS the Lagrange basis on the equispaced nodes, it interpolates (L_n(root_m) = delta_nm), it is a partition
   of unity for every order >= 1 - hence P2M and M2M conserve the total charge whatever the positions (also checked on the real
   kernel at every level: `numc`), and the derivatives sum to zero.
   Truncation error (Num/UnifCauchy.v), one-dimensional archetype of the far-field error: replacing a source at x in the cell
   [-1,1] by its interpolation weights on the nodes changes the Cauchy kernel 1/(d - x) seen from a well-separated target d >= 3
   by EXACTLY -W(x)/W(d)/(d - x) (W the node polynomial; every order >= 2), hence by at most 1/8, 1/62, 1/360, 1/1850, 1/8900,
   1/41000, 1/188000 of its value for the orders 2..8 (sharp to 1 %: Example) - geometric decay in the order.  The same sum is
   evaluated on the C++ roots and polynomial values at run time (checks/c05.py) and must meet the bound. *)
From Coq Require Import QArith List.
From Tbfmm Require Import Num.UnifDefs Num.UnifProofs Num.UnifCauchy.
Local Open Scope Q_scope.

Theorem C05_lagrange_nodes : forall order n m, (2 <= order <= 8)%nat -> (n < order)%nat -> (m < order)%nat ->
  unif_L order n (unif_root order m) == (if Nat.eqb n m then 1 else 0).
Proof. exact lagrange_nodes. Qed.
Print Assumptions C05_lagrange_nodes.

Theorem C05_unif_L_is_lagrange : forall order n x, (2 <= order <= 8)%nat -> (n < order)%nat -> unif_L order n x == lagrange order n x.
Proof. exact unif_L_is_lagrange. Qed.
Print Assumptions C05_unif_L_is_lagrange.

Theorem C05_partition_of_unity : forall order x, (1 <= order)%nat -> qsum (map (fun n => unif_L order n x) (seq 0 order)) == 1.
Proof. exact partition_of_unity_any_order. Qed.
Print Assumptions C05_partition_of_unity.

Theorem C05_total_weight_one : forall order x y z, (1 <= order)%nat -> unif_total_weight order x y z == 1.
Proof. exact total_weight_one_any_order. Qed.
Print Assumptions C05_total_weight_one.

(* P2M / M2M in one dimension: the interpolated weights of any set of (position, charge) pairs sum to the total charge *)
Theorem C05_charge_conservation : forall order (ps : list (Q * Q)), (1 <= order)%nat ->
  qsum (map (fun n => qsum (map (fun p => snd p * unif_L order n (fst p)) ps)) (seq 0 order)) == qsum (map snd ps).
Proof. exact charge_conservation_any_order. Qed.
Print Assumptions C05_charge_conservation.

Theorem C05_dL_sum_zero : forall order x, (2 <= order <= 8)%nat -> qsum (map (fun n => unif_dL order n x) (seq 0 order)) == 0.
Proof. exact dL_sum_zero. Qed.
Print Assumptions C05_dL_sum_zero.

Theorem C05_lagrange_nodes_any_order : forall order n m, (2 <= order)%nat -> (n < order)%nat -> (m < order)%nat ->
  unif_L order n (unif_root order m) == (if Nat.eqb n m then 1 else 0).
Proof. exact lagrange_nodes_any_order. Qed.
Print Assumptions C05_lagrange_nodes_any_order.

Theorem C05_cauchy_identity : forall order x d, (2 <= order)%nat ->
  (forall m, (m < order)%nat -> ~ d == unif_root order m) -> ~ d == x ->
  cauchy_interp order x d == (1 - unif_W order x / unif_W order d) / (d - x).
Proof. exact cauchy_identity. Qed.
Print Assumptions C05_cauchy_identity.

Theorem C05_cauchy_truncation_bound : forall order x d, (2 <= order <= 8)%nat -> -1 <= x <= 1 -> 3 <= d ->
  Qabs.Qabs (cauchy_interp order x d - 1 / (d - x)) <= unif_cap order * (1 / (d - x)).
Proof. exact cauchy_truncation_bound. Qed.
Print Assumptions C05_cauchy_truncation_bound.

Example C05_truncation_sharp :
  (99#100) * (unif_cap 5 * (1 / (3 - (33#40)))) <= Qabs.Qabs (cauchy_interp 5 (33#40) 3 - 1 / (3 - (33#40))).
Proof. vm_compute. discriminate. Qed.

Example C05_example : Qred (unif_L 5 1 (2#7)) = (-360 # 2401) /\ Qred (unif_total_weight 3 (1#3) (-1#2) (3#4)) = 1.
Proof. vm_compute. split; reflexivity. Qed.
