(* C13 — rebuild re-bins moved particles and preserves identity.  Proofs in Tree/ExportProofs.v, Tree/BuildProofs.v, Spec/ExactlyOnce.v. *)
From Tbfmm Require Import Base.Prelude Index.MortonDefs Index.MortonProofs Index.ListsDefs Index.ListsCapacity Tree.GroupDefs Tree.BuildDefs
     Tree.Invariant Tree.ExportDefs Tree.ExportProofs Exec.ExecDefs Spec.Elem Spec.Kernel Spec.ExactlyOnce.
Local Open Scope Z_scope.

(* after positions have been edited, rebuild yields a tree satisfying the whole invariant for the NEW leaf indices: every
   particle keeps its original index, is stored once, in the leaf of its new position *)
Theorem C13_rebuild_ok : forall par H B mode idx', (forall a b, a <= b -> par a <= par b) -> (forall a, 0 <= a -> 0 <= par a) ->
  1 <= H -> 1 <= B -> idx' <> [] -> Forall (fun c => 0 <= c) idx' ->
  tree_ok par H B mode (rebuild par H B mode idx') /\ particles_ok idx' (rebuild par H B mode idx').
Proof. exact rebuild_ok. Qed.
Print Assumptions C13_rebuild_ok.

(* any history of move/rebuild cycles *)
Theorem C13_rebuild_cycles : forall par H B mode (hist : list (list Z)), (forall a b, a <= b -> par a <= par b) -> (forall a, 0 <= a -> 0 <= par a) ->
  1 <= H -> 1 <= B -> Forall (fun idx' => idx' <> [] /\ Forall (fun c => 0 <= c) idx') hist ->
  Forall (fun idx' => tree_ok par H B mode (rebuild par H B mode idx') /\ particles_ok idx' (rebuild par H B mode idx')) hist.
Proof. exact rebuild_cycles. Qed.
Print Assumptions C13_rebuild_cycles.

(* a subsequent execution on the rebuilt tree adds exactly one more full interaction: every other particle once *)
Theorem C13_execute_after_rebuild : forall d H B mode s idx', (0 < d)%nat ->
  1 <= H -> 1 <= B -> idx' <> [] -> Forall (fun i => 0 <= i < 2 ^ ((H - 1) * dz d)) idx' -> s <= 2 ->
  let t := rebuild (parent d) H B mode idx' in
  forall p q, 0 <= p < zlen idx' -> 0 <= q < zlen idx' ->
    reached (run (H - 1) (execute d false s 63 t) st0) p q = (if p =? q then 0%nat else 1%nat).
Proof.
  intros d H B mode s idx' Hd HH HB Hne Hr Hs t.
  pose proof (fun l t Hl Ht => ilist_cell_capacity d false l t Hd Hl Ht) as Hcap.
  exact (proj2 (fmm_exactly_once_build d H B mode s idx' Hd Hcap HH HB Hne Hr Hs)).
Qed.
Print Assumptions C13_execute_after_rebuild.

Example C13_example :
  let t := rebuild (parent 3) 3 2 false [5;5;63;0;9;12;9] in
  tree_okb (parent 3) 3 2 false t = true.
Proof. vm_compute. reflexivity. Qed.
