(* C14 — group buffers are self-describing flat memory.
   Statements only; proofs in Mem/LayoutProofs.v. *)
From Tbfmm Require Import Base.Prelude Mem.LayoutDefs Mem.LayoutProofs.
Local Open Scope Z_scope.

(* GetLeadingDim rounds up to the alignment *)
Theorem C14_leading_spec : forall a sz n, 0 < a -> 0 <= sz * n ->
  sz * n <= leading a sz n < sz * n + a /\ (a | leading a sz n).
Proof. exact leading_spec. Qed.
Print Assumptions C14_leading_spec.

(* every element accessor stays inside its block (all four kinds, any element size, any item count) *)
Theorem C14_accessor_in_block : forall a k off n i row, 0 < a -> 0 < elem_size k -> valid_elem k n i row ->
  off <= elem_offset a k off n i row /\ elem_offset a k off n i row + elem_size k <= off + block_bytes a k n.
Proof. exact accessor_in_block. Qed.
Print Assumptions C14_accessor_in_block.

(* two different elements of one block never share a byte *)
Theorem C14_accessors_disjoint : forall a k off n i row i' row', 0 < a -> 0 < elem_size k ->
  valid_elem k n i row -> valid_elem k n i' row' -> (i, row) <> (i', row') ->
  elem_offset a k off n i row + elem_size k <= elem_offset a k off n i' row'
  \/ elem_offset a k off n i' row' + elem_size k <= elem_offset a k off n i row.
Proof. exact accessors_disjoint. Qed.
Print Assumptions C14_accessors_disjoint.

(* blocks of different kinds never overlap, start at aligned offsets, and end before the trailer *)
Theorem C14_blocks_layout : forall a ks ns b b', 0 < a -> sizes_ok ks ns -> (b < b' < length ks)%nat ->
  nth b (offsets a ks ns) 0 + block_bytes a (nth b ks (Scalar 1)) (nth b ns 0) <= nth b' (offsets a ks ns) 0.
Proof. exact blocks_layout. Qed.
Print Assumptions C14_blocks_layout.
Theorem C14_blocks_before_trailer : forall a ks ns b, 0 < a -> sizes_ok ks ns -> (b < length ks)%nat ->
  0 <= nth b (offsets a ks ns) 0 /\
  nth b (offsets a ks ns) 0 + block_bytes a (nth b ks (Scalar 1)) (nth b ns 0) <= blocks_end a ks ns.
Proof. exact blocks_before_trailer. Qed.
Print Assumptions C14_blocks_before_trailer.
Theorem C14_offsets_aligned : forall a ks ns, 0 < a -> sizes_ok ks ns -> Forall (fun o => (a | o)) (offsets a ks ns).
Proof. exact offsets_aligned. Qed.
Print Assumptions C14_offsets_aligned.

(* in every state reachable by resets of arbitrary sizes (grow, shrink-then-reuse): the allocation is large enough, the trailer
   lies after all blocks and inside the allocation, its 2*nb words do not overlap *)
Theorem C14_trailer_in_alloc : forall a ks st ns, 0 < a -> reachable a ks st -> sizes_ok ks ns ->
  let st' := reset a ks st ns in
  total a ks ns <= mb_alloc st' /\ blocks_end a ks ns <= offs_pos ks (mb_alloc st') 0 /\
  forall k, 0 <= k < nbk ks ->
    offs_pos ks (mb_alloc st') k + 8 <= items_pos ks (mb_alloc st') 0 /\ items_pos ks (mb_alloc st') k + 8 <= mb_alloc st'.
Proof. exact trailer_in_alloc. Qed.
Print Assumptions C14_trailer_in_alloc.

(* a byte copy viewed through the raw-memory constructor sees exactly the counts and offsets that were written, hence computes
   the same element addresses (relative to its own base) as the original *)
Theorem C14_view_roundtrip : forall a ks st ns, 0 < a -> reachable a ks st -> sizes_ok ks ns ->
  init_header ks (reset a ks st ns) = (ns, offsets a ks ns).
Proof. exact view_roundtrip. Qed.
Print Assumptions C14_view_roundtrip.

(* non-vacuity: the particle-group layout after a shrink-then-reuse *)
Example C14_example :
  let ks := [Scalar 32; Vector 40; Vector 8; MultiR 8 5] in
  let st := reset 64 ks (reset 64 ks mb_empty [1;3;7;7]) [1;1;2;2] in
  mb_alloc st = 640 /\ init_header ks st = ([1;1;2;2], [0;64;128;192]).
Proof. vm_compute. split; reflexivity. Qed.
