(* C14 property theorems (statements closed by [exact]); filled as the proofs land. *)
From Tbfmm Require Import Base.Prelude Mem.LayoutDefs.
Local Open Scope Z_scope.

Example C14_example :
  let ks := [Scalar 32; Vector 40; Vector 8; MultiR 8 5] in
  let st := reset 64 ks (reset 64 ks mb_empty [1;3;7;7]) [1;1;2;2] in
  mb_alloc st = 640 /\ init_header ks st = ([1;1;2;2], [0;64;128;192]).
Proof. vm_compute. split; reflexivity. Qed.
Print Assumptions C14_example.
