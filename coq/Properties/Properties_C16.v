(* C16 — cell and leaf lookup finds exactly what exists.
   Statements only; each closed by [exact] of a lemma of Tree/LookupProofs.v. *)
From Tbfmm Require Import Base.Prelude Base.Search Tree.GroupDefs Tree.BuildDefs Tree.Invariant Tree.LookupProofs.
From Coq Require Import Sorting.Sorted.
Local Open Scope Z_scope.

(* the binary search of TbfUtils::lower_bound_indexes terminates within its fuel, for every range and predicate *)
Theorem C16_lower_bound_total : forall first last comp, lower_bound_opt first last comp <> None.
Proof. exact lower_bound_total. Qed.
Print Assumptions C16_lower_bound_total.

(* ... and returns the partition point of any monotone predicate *)
Theorem C16_lower_bound_spec : forall first last comp, first <= last ->
  (forall i j, first <= i -> i <= j -> j < last -> comp j = true -> comp i = true) ->
  let r := lower_bound_indexes first last comp in
  first <= r <= last /\ (forall i, first <= i < r -> comp i = true) /\ (forall i, r <= i < last -> comp i = false).
Proof. exact lower_bound_spec. Qed.
Print Assumptions C16_lower_bound_spec.

(* getElementFromSpacialIndex: position k iff cell k is the index; nothing iff the index is absent *)
Theorem C16_elem_from_index_some : forall cells i k, StronglySorted Z.lt cells ->
  (elem_from_index cells (zlen cells) i = Some k <-> (0 <= k < zlen cells /\ znth cells k 0 = i)).
Proof. exact elem_from_index_some. Qed.
Print Assumptions C16_elem_from_index_some.

Theorem C16_elem_from_index_none : forall cells i, StronglySorted Z.lt cells ->
  (elem_from_index cells (zlen cells) i = None <-> ~ In i cells).
Proof. exact elem_from_index_none. Qed.
Print Assumptions C16_elem_from_index_none.

(* getElementFromParentIndex: the FIRST child of the parent, iff the parent has a child in the group *)
Theorem C16_elem_from_parent_some : forall par cells p k, (forall a b, a <= b -> par a <= par b) -> StronglySorted Z.lt cells ->
  (elem_from_parent par cells (zlen cells) p = Some k <->
   (0 <= k < zlen cells /\ par (znth cells k 0) = p /\ forall k', 0 <= k' < k -> par (znth cells k' 0) <> p)).
Proof. exact elem_from_parent_some. Qed.
Print Assumptions C16_elem_from_parent_some.

Theorem C16_elem_from_parent_none : forall par cells p, (forall a b, a <= b -> par a <= par b) -> StronglySorted Z.lt cells ->
  (elem_from_parent par cells (zlen cells) p = None <-> ~ In p (map par cells)).
Proof. exact elem_from_parent_none. Qed.
Print Assumptions C16_elem_from_parent_none.

(* findGroupWithCell on any level satisfying the tree invariant: a handle (group, position) iff that cell is the index;
   nothing iff the index is in no group - gap, in-range-but-absent, below the first, above the last alike *)
Theorem C16_find_cell_some : forall t level i g k, 0 <= level < zlen (t_levels t) -> level_ok (znth (t_levels t) level []) ->
  (find_cell t level i = Some (g, k) <->
   (0 <= g < zlen (znth (t_levels t) level []) /\
    0 <= k < zlen (cg_cells (znth (znth (t_levels t) level []) g (mk_cgroup []))) /\
    znth (cg_cells (znth (znth (t_levels t) level []) g (mk_cgroup []))) k 0 = i)).
Proof. exact find_cell_some. Qed.
Print Assumptions C16_find_cell_some.

Theorem C16_find_cell_none : forall t level i, 0 <= level < zlen (t_levels t) -> level_ok (znth (t_levels t) level []) ->
  (find_cell t level i = None <-> ~ In i (level_cells (znth (t_levels t) level []))).
Proof. exact find_cell_none. Qed.
Print Assumptions C16_find_cell_none.

(* findGroupWithLeaf *)
Theorem C16_find_leaf_some : forall t i g k, Forall pgroup_ok (t_pgroups t) -> StronglySorted Z.lt (flat_map pg_indices (t_pgroups t)) ->
  (find_leaf t i = Some (g, k) <->
   exists grp, nth_error (t_pgroups t) (Z.to_nat g) = Some grp /\ 0 <= g /\ 0 <= k < zlen (pg_leaves grp) /\ znth (pg_indices grp) k 0 = i).
Proof. exact find_leaf_some. Qed.
Print Assumptions C16_find_leaf_some.

Theorem C16_find_leaf_none : forall t i, Forall pgroup_ok (t_pgroups t) -> StronglySorted Z.lt (flat_map pg_indices (t_pgroups t)) ->
  (find_leaf t i = None <-> ~ In i (flat_map pg_indices (t_pgroups t))).
Proof. exact find_leaf_none. Qed.
Print Assumptions C16_find_leaf_none.

(* non-vacuity: the hypotheses hold on the tree the model builds from a concrete input, and a lookup in a gap answers None *)
Example C16_example :
  let t := build (fun i => i / 8) 3 2 false [5;5;63;0;9;12;9] in
  tree_okb (fun i => i / 8) 3 2 false t = true /\ find_cell t 2 9 = Some (1, 0) /\ find_cell t 2 10 = None /\ find_leaf t 63 = Some (2, 0).
Proof. vm_compute. repeat split; reflexivity. Qed.
