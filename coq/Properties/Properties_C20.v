(* C20 — direct particle-particle routines implement the pairwise law, symmetrically.
   The laws are proved for the real-number instance of the SAME generic Gallina term (Num/P2PDefs.v) whose IEEE instances
   (Num/P2PSF.v) are executed bit-identically against the C++ on every run.  Proofs in Num/P2PReal.v.
   Axioms: the classical real numbers of Coq's standard library (listed by Print Assumptions below). *)
From Coq Require Import Reals ZArith List Floats.SpecFloat.
From Tbfmm Require Import Num.P2PDefs Num.P2PSF Num.P2PReal.
Import ListNotations.
Local Open Scope R_scope.

(* one pair: force q_t q_s (x_s - x_t)/r^3 and 1/r *)
Theorem C20_pair_law : forall s t, apart s t ->
  pair R r_ops s t = (f_x _ (contrib s t), f_y _ (contrib s t), f_z _ (contrib s t), / rdist s t).
Proof. exact pair_law. Qed.
Print Assumptions C20_pair_law.

(* GenericFullRemote: each target receives the sum over all sources of potential q_j/r and force q_i q_j (x_j - x_i)/r^3,
   added to its previous accumulators - any counts including zero *)
Theorem C20_remote_law : forall srcs tgts, Forall (fun tr => Forall (fun s => apart s (fst tr)) srcs) tgts ->
  full_remote R r_ops srcs tgts = map (fun tr => radd (snd tr) (rsum (map (fun s => contrib s (fst tr)) srcs))) tgts.
Proof. exact remote_law. Qed.
Print Assumptions C20_remote_law.

(* FullMutual = two one-sided calls: targets as GenericFullRemote(sources -> targets), sources as
   GenericFullRemote(targets -> sources); positions and charges untouched *)
Theorem C20_mutual_split : forall srcs tgts, Forall (fun tr => Forall (fun sr => apart (fst sr) (fst tr)) srcs) tgts ->
  snd (full_mutual R r_ops srcs tgts) = full_remote R r_ops (map fst srcs) tgts /\
  map fst (fst (full_mutual R r_ops srcs tgts)) = map fst srcs /\
  map snd (fst (full_mutual R r_ops srcs tgts)) = full_remote R r_ops (map fst tgts) srcs.
Proof. exact mutual_split. Qed.
Print Assumptions C20_mutual_split.

(* equal and opposite forces; potentials symmetric in the charges *)
Theorem C20_contrib_antisym : forall s t, apart s t ->
  f_x _ (contrib t s) = - f_x _ (contrib s t) /\ f_y _ (contrib t s) = - f_y _ (contrib s t) /\ f_z _ (contrib t s) = - f_z _ (contrib s t)
  /\ p_v _ s * f_p _ (contrib t s) = p_v _ t * f_p _ (contrib s t).
Proof. exact contrib_antisym. Qed.
Print Assumptions C20_contrib_antisym.

(* GenericInner: every particle receives all the OTHERS and no self term, for any count including 0 and 1 *)
Theorem C20_inner_law : forall ps, ForallOrdPairs (fun a b => apart (fst a) (fst b)) ps ->
  forall i, (i < length ps)%nat ->
    let pi := nth i ps (Build_part R 0 0 0 0, rhs0 R r_ops) in
    nth i (inner R r_ops ps) (rhs0 R r_ops) =
    radd (snd pi) (rsum (map (fun pj => contrib (fst pj) (fst pi)) (firstn i ps ++ skipn (S i) ps))).
Proof. exact inner_law. Qed.
Print Assumptions C20_inner_law.

(* the binary64 instance of the same term: potential of a unit charge at distance 2 is exactly 0.5 *)
Example C20_example :
  let o := sf_ops 53 1024 in
  let one := o_one o in let two := SFadd 53 1024 one one in let z := o_zero o in
  map (fun r => bits_of_sf 53 1024 (f_p _ r))
      (full_remote _ o [{| p_x := two; p_y := z; p_z := z; p_v := one |}] [({| p_x := z; p_y := z; p_z := z; p_v := one |}, rhs0 _ o)])
  = [4602678819172646912%Z].
Proof. vm_compute. reflexivity. Qed.
