(* C20 property theorems (statements closed by [exact]); filled as the proofs land. *)
From Coq Require Import ZArith List Floats.SpecFloat.
From Tbfmm Require Import Num.P2PDefs Num.P2PSF.
Import ListNotations.
Local Open Scope Z_scope.

(* the binary64 instance computes 1/r for r = 2 exactly: potential of a unit charge at distance 2 is 0.5 *)
Example C20_example :
  let o := sf_ops 53 1024 in
  let one := o_one o in let two := SFadd 53 1024 one one in let z := o_zero o in
  map (fun r => bits_of_sf 53 1024 (f_p _ r))
      (full_remote _ o [{| p_x := two; p_y := z; p_z := z; p_v := one |}] [({| p_x := z; p_y := z; p_z := z; p_v := one |}, rhs0 _ o)])
  = [4602678819172646912].
Proof. vm_compute. reflexivity. Qed.
Print Assumptions C20_example.
