(* C18 — interaction counters report the true number of elementary interactions.  Proofs in Exec/CounterProofs.v. *)
From Tbfmm Require Import Base.Prelude Index.MortonDefs Tree.GroupDefs Tree.BuildDefs Tree.Invariant Exec.ExecDefs Exec.CounterDefs
     Spec.Elem Spec.Corollaries Exec.CounterProofs.
From Coq Require Import Sorting.Permutation.
Local Open Scope Z_scope.

(* the counters are a function of the multiset of elementary interactions only *)
Theorem C18_count_trace_elementary : forall tr, count_trace tr = count_elems (elementary tr).
Proof. exact count_trace_elementary. Qed.
Print Assumptions C18_count_trace_elementary.
Theorem C18_count_elems_perm : forall e e', Permutation e e' -> count_elems e = count_elems e'.
Proof. exact count_elems_perm. Qed.
Print Assumptions C18_count_elems_perm.

(* per-worker copies: ANY partition of the calls over kernel copies, merged with Reduce in ANY order, gives the counters of the
   whole run (thread count, schedule and merge order are irrelevant) *)
Theorem C18_merge_any_partition : forall trs tr, Permutation (concat trs) tr -> merge_counters (map count_trace trs) = count_trace tr.
Proof. exact merge_any_partition. Qed.
Print Assumptions C18_merge_any_partition.
Theorem C18_merge_any_order : forall ks ks', Permutation ks ks' -> merge_counters ks = merge_counters ks'.
Proof. exact merge_any_order. Qed.
Print Assumptions C18_merge_any_order.

(* the counters of a full run are those implied by the tree alone: independent of block size, grouping mode *)
Theorem C18_counts_spec : forall d per H B mode s t idx, (0 < d)%nat -> 1 <= H -> tree_ok (parent d) H B mode t -> particles_ok idx t ->
  Forall (fun i => 0 <= i < 2 ^ ((H - 1) * dz d)) idx -> idx <> [] ->
  count_trace (execute d per s 63 t) = count_elems (spec_all d per s H (leaf_table t)).
Proof. exact counts_spec. Qed.
Print Assumptions C18_counts_spec.
Theorem C18_counts_grouping_independent : forall d per H B1 m1 B2 m2 s t1 t2 idx, (0 < d)%nat -> 1 <= H ->
  tree_ok (parent d) H B1 m1 t1 -> tree_ok (parent d) H B2 m2 t2 -> particles_ok idx t1 -> particles_ok idx t2 ->
  Forall (fun i => 0 <= i < 2 ^ ((H - 1) * dz d)) idx -> idx <> [] -> leaf_table t1 = leaf_table t2 ->
  count_trace (execute d per s 63 t1) = count_trace (execute d per s 63 t2).
Proof. exact counts_grouping_independent. Qed.
Print Assumptions C18_counts_grouping_independent.

(* explicit values: P2M = L2P = number of leaves; M2M = L2L = number of parent-child links at levels s'+1..H-1;
   P2PInner = sum n(n-1) *)
Theorem C18_counts_values : forall d per H B mode s t idx, (0 < d)%nat -> 1 <= H ->
  tree_ok (parent d) H B mode t -> particles_ok idx t ->
  Forall (fun i => 0 <= i < 2 ^ ((H - 1) * dz d)) idx -> idx <> [] ->
  let k := count_trace (execute d per s 63 t) in let s' := Z.max 0 s in
  c_p2m k = (if s' <? H then zlen (leaf_table t) else 0) /\ c_l2p k = c_p2m k /\ c_m2m k = c_l2l k /\
  c_m2m k = zsum (map (fun l => zlen (cells_from d (Z.to_nat (H - 1 - (l + 1))) (map fst (leaf_table t)))) (zrange s' (H - 2))) /\
  c_inner k = zsum (map (fun ip => zlen (snd ip) * zlen (snd ip) - zlen (snd ip)) (leaf_table t)).
Proof. exact counts_values. Qed.
Print Assumptions C18_counts_values.

(* operators split over several kernel copies by flag masks partitioning the full set, in any order *)
Theorem C18_counts_split_masks : forall d per s t masks,
  (forall f, In f [1;2;4;8;16;32] -> exists! i, (i < length masks)%nat /\ has (nth i masks 0) f = true) ->
  merge_counters (map (fun m => count_trace (execute d per s m t)) masks) = count_trace (execute d per s 63 t).
Proof. exact counts_split_masks. Qed.
Print Assumptions C18_counts_split_masks.

Example C18_example :
  let t := build (parent 3) 4 3 false [5;5;63;0;9;12;9;300;301;511] in
  merge_counters [count_trace (execute 3 false 2 7 t); count_trace (execute 3 false 2 56 t)] = count_trace (execute 3 false 2 63 t).
Proof. vm_compute. reflexivity. Qed.

(* ---- the per-worker counters of the task executors (Sched/OmpCounters.v): whatever the assignment of tasks to workers and
   whatever the order in which the per-worker counters are merged, the result is the sequential run's counters ---- *)
From Tbfmm Require Import Sched.TaskDefs Sched.OmpDefs Sched.OmpTsmDefs Sched.OmpCounters Exec.ExecTsmDefs.
From Coq Require Import Sorting.Permutation.

Theorem C18_omp_worker_counters_any_order : forall d per stop t a W (ws : list nat),
  (forall i, (i < length (omp_tasks d per stop 63 t))%nat -> (a i < W)%nat) -> Permutation ws (seq 0 W) ->
  merge_counters (map (fun w => count_trace (worker_calls (omp_tasks d per stop 63 t) a w)) ws) = count_trace (execute d per stop 63 t).
Proof. exact omp_worker_counters_any_order. Qed.
Print Assumptions C18_omp_worker_counters_any_order.

Theorem C18_omp_tsm_worker_counters : forall d per stop src tgt a W,
  (forall i, (i < length (omp_tsm_tasks d per stop 63 src tgt))%nat -> (a i < W)%nat) ->
  merge_counters (map (fun w => count_trace (worker_calls (omp_tsm_tasks d per stop 63 src tgt) a w)) (seq 0 W))
  = count_trace (execute_tsm d per stop 63 src tgt).
Proof. exact omp_tsm_worker_counters. Qed.
Print Assumptions C18_omp_tsm_worker_counters.
