(* C18 property theorems (statements closed by [exact]); filled as the proofs land. *)
From Tbfmm Require Import Base.Prelude Index.MortonDefs Tree.GroupDefs Tree.BuildDefs Exec.ExecDefs Exec.CounterDefs.
Local Open Scope Z_scope.

Example C18_example :
  let t := build (parent 3) 4 3 false [5;5;63;0;9;12;9;300;301;511] in
  merge_counters [count_trace (execute 3 false 2 7 t); count_trace (execute 3 false 2 56 t)] = count_trace (execute 3 false 2 63 t).
Proof. vm_compute. reflexivity. Qed.
Print Assumptions C18_example.
