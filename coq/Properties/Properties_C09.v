(* C09 property theorems (statements closed by [exact]); filled as the proofs land. *)
From Tbfmm Require Import Base.Prelude Index.MortonDefs Tree.GroupDefs Tree.BuildDefs Exec.ExecDefs Exec.ExecTsmDefs.
Local Open Scope Z_scope.

Example C09_example_no_assert :
  forallb (fun c => match c with CAssert _ => false | _ => true end)
          (execute_tsm 3 false 2 63 (build (parent 3) 4 2 false [5;5;63;0;9;12;9;300;301;511])
                                    (build (parent 3) 4 2 false [7;63;64;65;300;2;2;100])) = true.
Proof. vm_compute. reflexivity. Qed.
Print Assumptions C09_example_no_assert.
