(* C09 — target/source mode: each target gets each source exactly once, nothing else.
   Statements only; proofs in Spec/ExactlyOnceTsm.v (composition), Exec/RefineTsm.v (transfer / near-field passes on two trees),
   Exec/RefineM2M.v, Spec/Geometry.v. *)
From Tbfmm Require Import Base.Prelude Index.MortonDefs Index.ListsDefs Tree.GroupDefs Tree.BuildDefs Tree.Invariant
     Exec.ExecDefs Exec.ExecTsmDefs Spec.Elem Spec.Kernel Exec.RefineTsm Spec.ExactlyOnceTsm.
From Coq Require Import Sorting.Permutation Sorting.Sorted.
Local Open Scope Z_scope.

(* MAIN: sources and targets are numbered independently; [reached st p q] = number of times SOURCE q reached TARGET p.
   For any two well-formed trees over the same box (any block sizes / grouping modes, any occupancies - sources missing where
   targets exist and vice versa), any dimension, upper level s <= 2: exactly once, for every (target, source) pair *)
Theorem C09_tsm_exactly_once : forall d H B mode s src tgt idxs idxt, (0 < d)%nat -> 1 <= H ->
  tree_ok (parent d) H B mode src -> tree_ok (parent d) H B mode tgt -> particles_ok idxs src -> particles_ok idxt tgt ->
  Forall (fun i => 0 <= i < 2 ^ ((H - 1) * dz d)) idxs -> Forall (fun i => 0 <= i < 2 ^ ((H - 1) * dz d)) idxt ->
  idxs <> [] -> idxt <> [] -> s <= 2 ->
  let st := run (H - 1) (execute_tsm d false s 63 src tgt) st0 in
  forall p q, 0 <= p < zlen idxt -> 0 <= q < zlen idxs -> reached st p q = 1%nat.
Proof. exact tsm_exactly_once. Qed.
Print Assumptions C09_tsm_exactly_once.

(* nothing else: a target's result contains only valid source ids (targets do not interact with each other), and nothing is
   accumulated anywhere outside the target particles (sources receive no results) *)
Theorem C09_tsm_only_sources : forall d H B mode s src tgt idxs idxt, (0 < d)%nat -> 1 <= H ->
  tree_ok (parent d) H B mode src -> tree_ok (parent d) H B mode tgt -> particles_ok idxs src -> particles_ok idxt tgt ->
  Forall (fun i => 0 <= i < 2 ^ ((H - 1) * dz d)) idxs -> Forall (fun i => 0 <= i < 2 ^ ((H - 1) * dz d)) idxt ->
  idxs <> [] -> idxt <> [] -> s <= 2 ->
  let st := run (H - 1) (execute_tsm d false s 63 src tgt) st0 in
  forall p q, 0 <= p < zlen idxt -> ~ (0 <= q < zlen idxs) -> reached st p q = 0%nat.
Proof. exact tsm_only_sources. Qed.
Print Assumptions C09_tsm_only_sources.
Theorem C09_tsm_only_targets : forall d H B mode s src tgt idxs idxt, (0 < d)%nat -> 1 <= H ->
  tree_ok (parent d) H B mode src -> tree_ok (parent d) H B mode tgt -> particles_ok idxs src -> particles_ok idxt tgt ->
  Forall (fun i => 0 <= i < 2 ^ ((H - 1) * dz d)) idxs -> Forall (fun i => 0 <= i < 2 ^ ((H - 1) * dz d)) idxt ->
  idxs <> [] -> idxt <> [] -> s <= 2 ->
  let st := run (H - 1) (execute_tsm d false s 63 src tgt) st0 in
  forall p q, ~ (0 <= p < zlen idxt) -> reached st p q = 0%nat.
Proof. exact tsm_only_targets. Qed.
Print Assumptions C09_tsm_only_targets.

(* no internal assertion can fire, for any flags and upper level, periodic lists or not *)
Theorem C09_tsm_no_assert : forall d per H B mode stop flags src tgt idxs idxt, (0 < d)%nat -> 1 <= H ->
  tree_ok (parent d) H B mode src -> tree_ok (parent d) H B mode tgt -> particles_ok idxs src -> particles_ok idxt tgt ->
  Forall (fun i => 0 <= i < 2 ^ ((H - 1) * dz d)) idxs -> Forall (fun i => 0 <= i < 2 ^ ((H - 1) * dz d)) idxt ->
  idxs <> [] -> idxt <> [] ->
  no_assert (execute_tsm d per stop flags src tgt).
Proof. exact tsm_no_assert. Qed.
Print Assumptions C09_tsm_no_assert.

(* the refinement lemmas specific to two trees: lists built on target groups, mapped onto source groups *)
Theorem C09_tsm_m2l_level_exact : forall d per l sgroups tgroups, level_ok sgroups -> level_ok tgroups ->
  (forall t, In t (level_cells tgroups) -> zlen (ilist_cell d per l t) <= nb_interactions d) ->
  no_assert (tsm_m2l_level d per l sgroups tgroups) /\
  Permutation (elementary (tsm_m2l_level d per l sgroups tgroups)) (spec_m2l_tsm d per l (level_cells sgroups) (level_cells tgroups)).
Proof. exact tsm_m2l_level_exact. Qed.
Print Assumptions C09_tsm_m2l_level_exact.
Theorem C09_tsm_p2p_groups_exact : forall d per L spgs tpgs, Forall pgroup_ok spgs -> Forall pgroup_ok tpgs ->
  StronglySorted Z.lt (flat_map pg_indices spgs) -> StronglySorted Z.lt (flat_map pg_indices tpgs) ->
  no_assert (tsm_p2p_groups d per L spgs tpgs) /\
  Permutation (elementary (tsm_p2p_groups d per L spgs tpgs)) (spec_p2p_tsm d per L (flat_map pg_leaves spgs) (flat_map pg_leaves tpgs)).
Proof. exact tsm_p2p_groups_exact. Qed.
Print Assumptions C09_tsm_p2p_groups_exact.

Example C09_example :
  let src := build (parent 3) 4 2 false [5;5;63;0;9;12;9;300;301;511] in
  let tgt := build (parent 3) 4 3 true [7;63;64;65;300;2;2;100;448] in
  let st := run 3 (execute_tsm 3 false 2 63 src tgt) st0 in
  forallb (fun p => forallb (fun q => Nat.eqb (reached st p q) 1%nat) (zseq 10)) (zseq 9) = true.
Proof. vm_compute. reflexivity. Qed.

(* the OpenMP target/source executor under every legal schedule (task model Sched/OmpTsmDefs.v): different block sizes and
   grouping modes on the two sides, every target gets every source once, nothing outside *)
From Tbfmm Require Import Sched.TaskDefs Sched.OmpTsmDefs Sched.OmpTsmProofs.
Theorem C09_omp_tsm_exactly_once : forall d H B mode s src tgt idxs idxt sigma, (0 < d)%nat -> 1 <= H ->
  tree_ok (parent d) H B mode src -> tree_ok (parent d) H B mode tgt -> particles_ok idxs src -> particles_ok idxt tgt ->
  Forall (fun i => 0 <= i < 2 ^ ((H - 1) * dz d)) idxs -> Forall (fun i => 0 <= i < 2 ^ ((H - 1) * dz d)) idxt ->
  idxs <> [] -> idxt <> [] -> s <= 2 ->
  legal (omp_tsm_tasks d false s 63 src tgt) sigma ->
  forall p q, 0 <= p < zlen idxt -> 0 <= q < zlen idxs ->
    reached (run_schedule (H - 1) (omp_tsm_tasks d false s 63 src tgt) sigma st0) p q = 1%nat.
Proof. exact omp_tsm_exactly_once. Qed.
Print Assumptions C09_omp_tsm_exactly_once.
