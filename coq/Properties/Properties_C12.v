(* C12 property theorems (statements closed by [exact]); filled as the proofs land. *)
From Tbfmm Require Import Base.Prelude Index.MortonDefs Tree.GroupDefs Tree.BuildDefs Tree.Invariant Exec.ExecDefs.
Local Open Scope Z_scope.

(* non-vacuity / smoke: the model executes a concrete tree without any assertion failure *)
Theorem C12_example_no_assert :
  forallb (fun c => match c with CAssert _ => false | _ => true end)
          (execute 3 false 2 63 (build (parent 3) 4 2 false [5;5;63;0;9;12;9;300;301;511])) = true.
Proof. vm_compute. reflexivity. Qed.
Print Assumptions C12_example_no_assert.
