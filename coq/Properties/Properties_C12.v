(* C12 — operator flags compose: staged runs equal a full run, each flag triggers only its operator and writes only its
   outputs, nothing is applied above the upper working level.  Statements only; proofs in Spec/Flags.v. *)
From Tbfmm Require Import Base.Prelude Index.MortonDefs Tree.GroupDefs Tree.BuildDefs Exec.ExecDefs Spec.Kernel Spec.Flags.
Local Open Scope Z_scope.

(* each flag triggers only its own operator: every call of execute(flags) belongs to an operator whose bit is set *)
Theorem C12_single_flag_only : forall d per s flags t c,
  In c (execute d per s flags t) -> (forall id, c <> CAssert id) -> has flags (op_flag c) = true.
Proof. exact single_flag_only. Qed.
Print Assumptions C12_single_flag_only.

(* no operator is applied above the configured upper working level (for every tree, flags, level) *)
Theorem C12_nothing_above_s : forall d per s flags t c, In c (execute d per s flags t) ->
  match c with CM2M l _ _ | CL2L l _ _ | CM2L l _ _ => Z.max 0 s <= l | _ => True end.
Proof. exact nothing_above_s. Qed.
Print Assumptions C12_nothing_above_s.

(* write sets: a trace without P2M/M2M calls leaves every multipole untouched, without M2L/L2L every local, without
   L2P/P2P every particle result (e.g. the near-field flag alone changes particle results but no cell expansion) *)
Theorem C12_run_frame : forall L tr s,
  ((forall c, In c tr -> op_flag c <> 2 /\ op_flag c <> 4) -> s_mult (run L tr s) = s_mult s) /\
  ((forall c, In c tr -> op_flag c <> 8 /\ op_flag c <> 16) -> s_loc (run L tr s) = s_loc s) /\
  ((forall c, In c tr -> op_flag c <> 32 /\ op_flag c <> 1) -> s_rhs (run L tr s) = s_rhs s).
Proof. exact run_frame. Qed.
Print Assumptions C12_run_frame.

(* staged runs: any sequence of execute() calls whose flag sets partition the full set with the far-field chain in dependency
   order (near field anywhere) leaves the same state as one full run - for ANY tree, any upper level, any dimension *)
Theorem C12_staged_equals_full : forall d per L s t h, history_ok h ->
  st_eq (run L (flat_map (fun f => execute d per s f t) h) st0) (run L (execute d per s 63 t) st0).
Proof. exact staged_equals_full. Qed.
Print Assumptions C12_staged_equals_full.

(* the documented three-call split (bottom-to-top / transfer / top-to-bottom) and the fully split runs are admissible; a
   history running the chain backwards, or missing the near field, is not *)
Theorem C12_history_examples :
  history_ok [6; 9; 48] /\ history_ok [2; 4; 8; 16; 32; 1] /\ history_ok [1; 2; 4; 8; 16; 32] /\ history_ok [63] /\ history_ok [6; 8; 48; 1].
Proof. exact history_examples. Qed.
Print Assumptions C12_history_examples.
Theorem C12_history_counterexamples :
  ~ history_ok [48; 9; 6] /\ ~ history_ok [2; 4; 8; 16; 32] /\ ~ history_ok [63; 1] /\ ~ history_ok [].
Proof. exact history_counterexamples. Qed.
Print Assumptions C12_history_counterexamples.

(* ---- the same for the target/source executor and for the periodic four-step sequence (Spec/FlagsTsm.v) ---- *)
From Tbfmm Require Import Exec.ExecTsmDefs Exec.ExecPeriodicDefs Spec.FlagsTsm.

Theorem C12_single_flag_only_tsm : forall d per s flags src tgt c, In c (execute_tsm d per s flags src tgt) ->
  (forall id, c <> CAssert id) -> has flags (op_flag c) = true.
Proof. exact single_flag_only_tsm. Qed.
Print Assumptions C12_single_flag_only_tsm.

Theorem C12_nothing_above_s_tsm : forall d per s flags src tgt c, In c (execute_tsm d per s flags src tgt) ->
  match c with CM2M l _ _ | CL2L l _ _ | CM2L l _ _ => Z.max 0 s <= l | _ => True end.
Proof. exact nothing_above_s_tsm. Qed.
Print Assumptions C12_nothing_above_s_tsm.

Theorem C12_staged_equals_full_tsm : forall d per L s src tgt h, history_ok h ->
  st_eq (run L (flat_map (fun f => execute_tsm d per s f src tgt) h) st0) (run L (execute_tsm d per s 63 src tgt) st0).
Proof. exact staged_equals_full_tsm. Qed.
Print Assumptions C12_staged_equals_full_tsm.

(* the documented periodic sequence is one admissible staged history: ignoring the top-tree calls it equals the full run *)
Theorem C12_periodic_real_equals_full : forall d k L s t,
  st_eq (run L (map_real (periodic_run d k s t)) st0) (run L (execute d true s 63 t) st0).
Proof. exact periodic_real_equals_full. Qed.
Print Assumptions C12_periodic_real_equals_full.

Theorem C12_periodic_tsm_real_equals_full : forall d k L s src tgt,
  st_eq (run L (map_real (periodic_run_tsm d k s src tgt)) st0) (run L (execute_tsm d true s 63 src tgt) st0).
Proof. exact periodic_tsm_real_equals_full. Qed.
Print Assumptions C12_periodic_tsm_real_equals_full.

(* ---- the periodic top tree (TbfAlgorithmPeriodicTopTree / ...Tsm :: execute(flags)), compared with the C++ per flag mask ---- *)
From Tbfmm Require Import Exec.ExecTsmDefs Exec.ExecPeriodicDefs Spec.TopFlags.

Theorem C12_top_single_flag_only : forall d k flags t c, In c (top_execute d k flags t) -> has flags (tcall_op c) = true.
Proof. exact top_single_flag_only. Qed.
Print Assumptions C12_top_single_flag_only.

Theorem C12_top_single_flag_only_tsm : forall d k flags src tgt c, In c (top_execute_tsm d k flags src tgt) -> has flags (tcall_op c) = true.
Proof. exact top_single_flag_only_tsm. Qed.
Print Assumptions C12_top_single_flag_only_tsm.

(* P2M, L2P and P2P (alone or together) trigger nothing on the top tree *)
Theorem C12_top_leaf_flags_nothing : forall d k flags t,
  has flags F_M2M = false -> has flags F_M2L = false -> has flags F_L2L = false -> top_execute d k flags t = nil.
Proof. exact top_leaf_flags_nothing. Qed.
Print Assumptions C12_top_leaf_flags_nothing.

Theorem C12_top_staged_equals_full : forall d k t,
  top_execute d k F_M2M t ++ top_execute d k F_M2L t ++ top_execute d k F_L2L t = top_execute d k 63 t.
Proof. exact top_staged_equals_full. Qed.
Print Assumptions C12_top_staged_equals_full.

Theorem C12_top_staged_equals_full_tsm : forall d k src tgt,
  top_execute_tsm d k F_M2M src tgt ++ top_execute_tsm d k F_M2L src tgt ++ top_execute_tsm d k F_L2L src tgt = top_execute_tsm d k 63 src tgt.
Proof. exact top_staged_equals_full_tsm. Qed.
Print Assumptions C12_top_staged_equals_full_tsm.
