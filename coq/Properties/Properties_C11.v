(* C11 — space-filling-curve index algebra: property theorems.
   Statements only; each is closed by [exact] of a lemma proved in Index/MortonProofs.v, Index/MortonBits.v
   (and Index/ListsProofs.v when present). *)
From Tbfmm Require Import Base.Prelude Index.MortonDefs Index.MortonProofs Index.MortonBits.
Local Open Scope Z_scope.

(* the bit loops terminate within their fuel for every input: the totalised wrappers never take their default *)
Theorem C11_unbox_total : forall d i, unbox_opt d i <> None.
Proof. exact unbox_total. Qed.
Print Assumptions C11_unbox_total.
Theorem C11_box_total : forall d p, length p = d -> Forall (fun x => 0 <= x) p -> box_opt d p <> None.
Proof. exact box_total. Qed.
Print Assumptions C11_box_total.

(* bit layout: bit m of coordinate j is bit m*d + (d-1-j) of the index — for every dimension and every level *)
Theorem C11_unbox_bits : forall d i j m, (j < d)%nat -> 0 <= i -> 0 <= m ->
  Z.testbit (nth j (unbox d i) 0) m = Z.testbit i (m * dz d + (dz d - 1 - Z.of_nat j)).
Proof. exact unbox_bits. Qed.
Print Assumptions C11_unbox_bits.
Theorem C11_box_bits : forall d p j m, length p = d -> Forall (fun x => 0 <= x) p -> (j < d)%nat -> 0 <= m ->
  Z.testbit (box d p) (m * dz d + (dz d - 1 - Z.of_nat j)) = Z.testbit (nth j p 0) m.
Proof. exact box_bits. Qed.
Print Assumptions C11_box_bits.

(* coordinates and indices are in bijection below the level's upper bound *)
Theorem C11_box_unbox : forall d i, (0 < d)%nat -> 0 <= i -> box d (unbox d i) = i.
Proof. exact box_unbox. Qed.
Print Assumptions C11_box_unbox.
Theorem C11_unbox_box : forall d p, (0 < d)%nat -> length p = d -> Forall (fun x => 0 <= x) p -> unbox d (box d p) = p.
Proof. exact unbox_box. Qed.
Print Assumptions C11_unbox_box.
Theorem C11_box_range : forall d p l, (0 < d)%nat -> 0 <= l -> length p = d -> Forall (fun x => 0 <= x) p ->
  (Forall (fun x => x < 2 ^ l) p <-> box d p < 2 ^ (l * dz d)).
Proof. exact box_range. Qed.
Print Assumptions C11_box_range.

(* the parent of an index is the cell that geometrically contains it; the child code is the octant *)
Theorem C11_parent_contains : forall d i, (0 < d)%nat -> 0 <= i -> unbox d (parent d i) = map (fun x => x / 2) (unbox d i).
Proof. exact parent_contains. Qed.
Print Assumptions C11_parent_contains.
Theorem C11_child_code_octant : forall d i, (0 < d)%nat -> 0 <= i -> unbox d (child_code d i) = map (fun x => x mod 2) (unbox d i).
Proof. exact child_code_octant. Qed.
Print Assumptions C11_child_code_octant.
Theorem C11_child_coords : forall d p c, (0 < d)%nat -> 0 <= p -> 0 <= c < 2 ^ dz d ->
  unbox d (child d p c) = map2 (fun x b => 2 * x + b) (unbox d p) (unbox d c).
Proof. exact child_coords. Qed.
Print Assumptions C11_child_coords.

(* parent/child/child-code are mutually consistent *)
Theorem C11_child_parent : forall (d : nat) (p c : Z),
  0 <= c < 2 ^ Z.of_nat d -> parent d (child d p c) = p /\ child_code d (child d p c) = c.
Proof. exact child_parent. Qed.
Print Assumptions C11_child_parent.
Theorem C11_parent_child_code : forall (d : nat) (i : Z), child d (parent d i) (child_code d i) = i.
Proof. exact parent_child_code. Qed.
Print Assumptions C11_parent_child_code.

(* non-vacuity *)
Example C11_example : unbox 3 (box 3 [5; 0; 7]) = [5; 0; 7] /\ unbox 3 (parent 3 (box 3 [5; 0; 7])) = [2; 0; 3].
Proof. vm_compute. split; reflexivity. Qed.

(* ---- position codes and list builders (Index/ListsProofs.v) ---- *)
From Tbfmm Require Import Index.ListsDefs Index.ListsSpec Index.ListsProofs.
From Coq Require Import Sorting.Permutation.

(* position-code encode/decode are inverse *)
Theorem C11_dec7_enc7 : forall d o, length o = d -> Forall (fun x => -3 <= x <= 3) o -> dec7 d (enc7 o) = o.
Proof. exact dec7_enc7. Qed.
Print Assumptions C11_dec7_enc7.
Theorem C11_enc7_dec7 : forall d c, 0 <= c < 7 ^ dz d ->
  enc7 (dec7 d c) = c /\ length (dec7 d c) = d /\ Forall (fun x => -3 <= x <= 3) (dec7 d c).
Proof. exact enc7_dec7. Qed.
Print Assumptions C11_enc7_dec7.
Theorem C11_dec3_enc3 : forall d o, length o = d -> Forall (fun x => -1 <= x <= 1) o -> dec3 d (enc3 o) = o.
Proof. exact dec3_enc3. Qed.
Print Assumptions C11_dec3_enc3.
Theorem C11_enc3_dec3 : forall d c, 0 <= c < 3 ^ dz d ->
  enc3 (dec3 d c) = c /\ length (dec3 d c) = d /\ Forall (fun x => -1 <= x <= 1) (dec3 d c).
Proof. exact enc3_dec3. Qed.
Print Assumptions C11_enc3_dec3.

(* the upper-half filter keeps exactly the lexicographically positive offsets, and exactly one of o / -o is positive:
   each adjacent pair of cells is visited from one side *)
Theorem C11_upper_half : forall d o, length o = d -> Forall (fun x => -1 <= x <= 1) o -> lex_positive d o = lexposb o.
Proof. exact upper_half. Qed.
Print Assumptions C11_upper_half.
Theorem C11_upper_half_antisym : forall o, Forall (fun x => -1 <= x <= 1) o ->
  existsb (fun x => negb (x =? 0)) o = true -> lexposb (map Z.opp o) = negb (lexposb o).
Proof. exact upper_half_antisym. Qed.
Print Assumptions C11_upper_half_antisym.

(* the interaction list is exactly the set of children of the parent's neighbours that are not adjacent to the cell, and the
   neighbour list exactly the adjacent cells - wrapped when periodic, clipped otherwise - each tagged with the code of the
   true relative offset (ilist_spec / nlist_spec are that definition written on coordinates); every d, level and cell *)
Theorem C11_ilist_exact : forall d per l idx, (0 < d)%nat -> 0 <= l -> 0 <= idx < 2 ^ (l * dz d) ->
  Permutation (ilist_cell d per l idx) (ilist_spec d per l idx).
Proof. exact ilist_exact. Qed.
Print Assumptions C11_ilist_exact.
Theorem C11_nlist_exact : forall d per l upper idx, (0 < d)%nat -> 0 <= l -> 0 <= idx < 2 ^ (l * dz d) ->
  Permutation (nlist_cell d per l upper idx) (nlist_spec d per l upper idx).
Proof. exact nlist_exact. Qed.
Print Assumptions C11_nlist_exact.

(* ---- Hilbert ordering (dimension 3), automata over the tables regenerated from the source (Index/HilbertProofs.v) ---- *)
From Tbfmm Require Import Gen.HilbertTablesGen Index.HilbertDefs Index.HilbertProofs.

(* the two regenerated 12x8 tables are mutually inverse automata (finite check by the kernel's vm) *)
Theorem C11_hilbert_tables_inverse :
  forallb (fun s => forallb (fun x =>
     let '(y, n1) := tbl hilbert2morton_table s x in let '(x', n2) := tbl morton2hilbert_table s y in (x' =? x) && (n1 =? n2)) (zseq 8)) (zseq 12) = true
  /\ forallb (fun s => forallb (fun y =>
     let '(x, n1) := tbl morton2hilbert_table s y in let '(y', n2) := tbl hilbert2morton_table s x in (y' =? y) && (n1 =? n2)) (zseq 8)) (zseq 12) = true
  /\ table_wf hilbert2morton_table && table_wf morton2hilbert_table = true.
Proof. exact tables_inverse. Qed.
Print Assumptions C11_hilbert_tables_inverse.

(* index <-> Morton index round trip for every height and every index; bijection with the grid at the leaf level *)
Theorem C11_hilbert_roundtrip : forall H i, 0 <= H -> 0 <= i < 8 ^ H -> h2m H (m2h H i) = i /\ m2h H (h2m H i) = i.
Proof. exact hilbert_roundtrip. Qed.
Print Assumptions C11_hilbert_roundtrip.
Theorem C11_hilbert_leaf_bijection : forall H p, 1 <= H -> length p = 3%nat -> Forall (fun x => 0 <= x < 2 ^ (H - 1)) p ->
  h_unbox H (h_box H p) = p /\ 0 <= h_box H p < 8 ^ (H - 1).
Proof. exact hilbert_leaf_bijection. Qed.
Print Assumptions C11_hilbert_leaf_bijection.

(* KNOWN FINDING D3: the parent of a Hilbert index is not the containing cell (the automaton is padded from the tree height, not
   from the cell's level): 480 of the 512 leaf cells of a height-4 tree *)
Theorem C11_hilbert_parent_refuted : exists H i, 0 <= i < 8 ^ (H - 1) /\ h_unbox H (h_parent i) <> map (fun x => x / 2) (h_unbox H i).
Proof. exact hilbert_parent_refuted. Qed.
Print Assumptions C11_hilbert_parent_refuted.
Theorem C11_hilbert_parent_refuted_count :
  length (filter (fun i => negb (list_eqb Z.eqb (h_unbox 4 (h_parent i)) (map (fun x => x / 2) (h_unbox 4 i)))) (zseq 512)) = 480%nat.
Proof. exact hilbert_parent_refuted_count. Qed.
Print Assumptions C11_hilbert_parent_refuted_count.
