(* C11 — space-filling-curve index algebra: property theorems.
   Statements only; each is closed by [exact] of a lemma proved elsewhere. *)
From Tbfmm Require Import Base.Prelude Index.MortonDefs Index.MortonProofs.
Local Open Scope Z_scope.

(* parent/child/child-code are mutually consistent for every dimension d and every index *)
Theorem C11_child_parent : forall (d : nat) (p c : Z),
  0 <= c < 2 ^ Z.of_nat d -> parent d (child d p c) = p /\ child_code d (child d p c) = c.
Proof. exact child_parent. Qed.
Print Assumptions C11_child_parent.

Theorem C11_parent_child_code : forall (d : nat) (i : Z), child d (parent d i) (child_code d i) = i.
Proof. exact parent_child_code. Qed.
Print Assumptions C11_parent_child_code.
