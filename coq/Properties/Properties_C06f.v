(* C06, floating-point half (binary64): position -> grid coordinate.
   Float/LocateDefs.v is the executable IEEE model (Coq SpecFloat) of TbfSpacialConfiguration + getTreeCoordinate, compared bit
   for bit with the C++ on every run (harness/h_locate.cpp).  Proved here with Flocq (Float/LocateProofs.v): whenever the
   library's own assertion 0 <= rel <= width passes, the coordinate it computes lies INSIDE the grid, for every finite centre
   and position, every positive width in [2^-900, 2^900] and every height 1..60 - the rounding of rel / leafWidth can never
   reach 2^(H-1).  (The case where the assertion itself fails for a particle on the upper face of a non-dyadic box is the
   known finding D11; "the leaf's box contains the position" up to one rounding is decided per run by an exact-rational
   oracle.)  Axioms: the standard library's classical reals (Flocq is built on Reals). *)
From Coq Require Import ZArith Reals Floats.SpecFloat.
From Flocq Require Import Core IEEE754.BinarySingleNaN.
From Tbfmm Require Import Float.LocateDefs Float.LocateProofs.

Theorem C06_locate_in_grid : forall H (center width pos : binary_float 53 1024),
  (1 <= H <= 60)%Z -> is_finite center = true -> is_finite pos = true -> is_finite width = true ->
  (bpow radix2 (-900) <= B2R width <= bpow radix2 900)%R ->
  forall k, locate1 53 1024 H (B2SF center) (B2SF width) (B2SF pos) = LocCoord k -> (0 <= k <= 2 ^ (H - 1) - 1)%Z.
Proof. exact locate1_in_grid. Qed.
Print Assumptions C06_locate_in_grid.

(* the leaf width is exact: width * 2^-(H-1) *)
Theorem C06_leaf_width_exact : forall H (width : binary_float 53 1024), (1 <= H <= 60)%Z -> is_finite width = true ->
  (bpow radix2 (-900) <= B2R width <= bpow radix2 900)%R ->
  SF2R radix2 (leaf_width 53 1024 H (B2SF width)) = (B2R width * bpow radix2 (-(H-1)))%R.
Proof. exact leaf_width_exact. Qed.
Print Assumptions C06_leaf_width_exact.

(* the SpecFloat operations of the executable model are Flocq's IEEE operations *)
Theorem C06_sf_div_is_ieee : forall x y : binary_float 53 1024, B2SF (Bdiv mode_NE x y) = SFdiv 53 1024 (B2SF x) (B2SF y).
Proof. exact sf_div_bridge. Qed.
Print Assumptions C06_sf_div_is_ieee.
Theorem C06_sf_minus_is_ieee : forall x y : binary_float 53 1024, B2SF (Bminus mode_NE x y) = SFsub 53 1024 (B2SF x) (B2SF y).
Proof. exact sf_minus_bridge. Qed.
Print Assumptions C06_sf_minus_is_ieee.

(* binary32 (float coordinates) *)
Theorem C06_locate_in_grid32 : forall H (center width pos : binary_float 24 128),
  (1 <= H <= 30)%Z -> is_finite center = true -> is_finite pos = true -> is_finite width = true ->
  (bpow radix2 (-90) <= B2R width <= bpow radix2 90)%R ->
  forall k, locate1 24 128 H (B2SF center) (B2SF width) (B2SF pos) = LocCoord k -> (0 <= k <= 2 ^ (H - 1) - 1)%Z.
Proof. exact locate1_in_grid32. Qed.
Print Assumptions C06_locate_in_grid32.

(* containment up to ONE rounding: the coordinate returned is the cell containing the relative position the library computed,
   up to the rounding of the quotient (relative 2^-53); exact when the quotient is representable (e.g. dyadic boxes) *)
Theorem C06_locate_contains : forall H (center width pos : binary_float 53 1024), (1 <= H <= 60)%Z ->
  is_finite center = true -> is_finite pos = true -> is_finite width = true ->
  (bpow radix2 (-900) <= B2R width <= bpow radix2 900)%R ->
  forall k, locate1 53 1024 H (B2SF center) (B2SF width) (B2SF pos) = LocCoord k ->
  let rel := SF2R radix2 (SFsub 53 1024 (B2SF pos) (box_corner 53 1024 (B2SF center) (B2SF width))) in
  let lw := (B2R width * bpow radix2 (-(H-1)))%R in
  (rel = B2R width /\ k = 2 ^ (H - 1) - 1)%Z \/
  (IZR k * (1 - bpow radix2 (-53)) <= rel / lw < (IZR k + 1) * (1 + bpow radix2 (-53)))%R.
Proof. exact locate1_contains64. Qed.
Print Assumptions C06_locate_contains.

Theorem C06_locate_contains_exact : forall H (center width pos : binary_float 53 1024), (1 <= H <= 60)%Z ->
  is_finite center = true -> is_finite pos = true -> is_finite width = true ->
  (bpow radix2 (-900) <= B2R width <= bpow radix2 900)%R ->
  forall k, locate1 53 1024 H (B2SF center) (B2SF width) (B2SF pos) = LocCoord k ->
  let rel := SF2R radix2 (SFsub 53 1024 (B2SF pos) (box_corner 53 1024 (B2SF center) (B2SF width))) in
  let lw := (B2R width * bpow radix2 (-(H-1)))%R in
  generic_format radix2 (FLT_exp (-1074) 53) (rel / lw) ->
  (rel = B2R width /\ k = 2 ^ (H - 1) - 1)%Z \/ (IZR k <= rel / lw < IZR k + 1)%R.
Proof. exact locate1_contains_exact64. Qed.
Print Assumptions C06_locate_contains_exact.
