(* C15 — logical obligations behind "no UB / no assertion failure" that a model can carry.  Filled as the proofs land. *)
From Tbfmm Require Import Base.Prelude Index.MortonDefs Index.OverflowDefs Index.ListsDefs Index.ListsCapacity.
Local Open Scope Z_scope.

(* stack arrays sized by the maximum number of interactions / neighbours are never over-filled *)
Theorem C15_ilist_cell_capacity : forall d per l idx, (0 < d)%nat -> 0 <= l -> 0 <= idx < 2 ^ (l * dz d) ->
  zlen (ilist_cell d per l idx) <= nb_interactions d.
Proof. exact ilist_cell_capacity. Qed.
Print Assumptions C15_ilist_cell_capacity.
Theorem C15_nlist_cell_capacity : forall d per l upper idx, (0 < d)%nat -> 0 <= l -> 0 <= idx < 2 ^ (l * dz d) ->
  zlen (nlist_cell d per l upper idx) <= nb_neighbors d.
Proof. exact nlist_cell_capacity. Qed.
Print Assumptions C15_nlist_cell_capacity.
(* the periodic-mode size assertion of the list builder: the list is always full *)
Theorem C15_ilist_cell_full_periodic : forall d l idx, (0 < d)%nat -> 1 <= l -> 0 <= idx < 2 ^ (l * dz d) ->
  zlen (ilist_cell d true l idx) = nb_interactions d.
Proof. exact ilist_cell_full_periodic. Qed.
Print Assumptions C15_ilist_cell_full_periodic.

Example C15_guard_boundary :
  box_safe 3 (repeat (2 ^ 18 - 1) 3) = true /\ box_safe 3 (repeat (2 ^ 19 - 1) 3) = false /\ box 3 (repeat (2 ^ 19 - 1) 3) < 2 ^ 62.
Proof. vm_compute. repeat split; reflexivity. Qed.

(* ---- the index bit loop: exact guard for 64-bit signed arithmetic (Index/OverflowProofs.v) ---- *)
From Tbfmm Require Import Index.OverflowProofs.
(* under the guard (l + d - 1) * d + d - 1 <= 62 no intermediate of getIndexFromBoxPos leaves the signed 64-bit range: every
   dimension, every coordinate vector of the level *)
Theorem C15_box_guard_safe : forall d l pos, (0 < d)%nat -> 0 <= l -> length pos = d -> Forall (fun p => 0 <= p < 2 ^ l) pos ->
  box_guard d l = true -> box_safe d pos = true.
Proof. exact box_guard_safe. Qed.
Print Assumptions C15_box_guard_safe.
Theorem C15_box_trace_nonneg : forall d pos, length pos = d -> Forall (fun p => 0 <= p) pos -> Forall (fun v => 0 <= v) (box_trace d pos).
Proof. exact box_trace_nonneg. Qed.
Print Assumptions C15_box_trace_nonneg.
(* "the index fits 63 bits" does NOT imply the guard: known finding D8 (dimension 3, level 19, a 57-bit index) *)
Theorem C15_box_overflow_refuted : exists d l pos, length pos = d /\ Forall (fun p => 0 <= p < 2 ^ l) pos /\ box d pos < 2 ^ 62 /\ box_safe d pos = false.
Proof. exact box_overflow_refuted. Qed.
Print Assumptions C15_box_overflow_refuted.
Theorem C15_box_guard_tight_corner : forall d l, (1 <= d <= 4)%nat -> 1 <= l <= 63 -> box_guard d l = false -> box_safe d (repeat (2 ^ l - 1) d) = false.
Proof. exact box_guard_tight_corner. Qed.
Print Assumptions C15_box_guard_tight_corner.
