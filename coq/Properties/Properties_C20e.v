(* C20, rounding clause: "results match an exact evaluation to rounding".
   Num/P2PError.v proves, for the SAME generic term (Num/P2PDefs.v) that is executed bit for bit against the C++ through its
   SpecFloat instance, a rounding-error analysis under the standard model of floating-point arithmetic
   (every operation returns exact * (1 + e), |e| <= u), and shows with Flocq that binary64 round-to-nearest satisfies that model
   with u = 2^-53 whenever the exact result of the operation is in the normal range (no underflow / overflow).
   The bounds are then transferred to the ACTUAL IEEE computation of one pair (Flocq's operations and the SpecFloat instance), for
   binary64 (inputs 0 or of magnitude in [2^-160, 2^160]) and binary32 (inputs 0 or of magnitude in [2^-20, 2^20]): under these
   ranges every intermediate result is normal or exactly zero.  The accumulation over a source list is proved for every arithmetic
   satisfying the standard model (remote_*_error) AND on the actual binary64 computation of GenericFullRemote for one target
   (C20_sf_remote_error: up to 2^26 sources; running sums that fall into the subnormal range are exact, none overflows; binary32: C20_sf32_remote_error,
   inputs in [2^-18, 2^18], up to 2^11 sources).  The mutual and in-leaf routines: their structure is characterised for EVERY arithmetic
   (C20_full_mutual_targets: the targets are computed exactly as by the one-sided routine; C20_full_mutual_sources /
   C20_inner_structure: every other particle is a left fold of in-place updates), and the same (n + 7) u / (n + 17) u bounds are proved
   for them under the standard model (C20_mutual_error, C20_inner_error) and on the actual binary64 computation
   (C20_sf_mutual_error, C20_sf_inner_error: SpecFloat instance, same input ranges, up to 2^26 particles; binary32:
   C20_sf32_mutual_error, C20_sf32_inner_error, inputs in [2^-18, 2^18], up to 2^11 particles).
   Axioms: classical reals of Coq's standard library (+ Classical_Prop.classic through Flocq). *)
From Coq Require Import List Reals.
From Flocq Require Import Core IEEE754.BinarySingleNaN.
From Tbfmm Require Import Num.P2PDefs Num.P2PReal Num.P2PSF Num.P2PError Num.P2PError32 Num.P2PErrorSum Num.P2PErrorSum32 Num.P2PErrorMutual Num.P2PErrorMutual64 Num.P2PErrorMutual32.
Local Open Scope R_scope.

(* one pair: potential kernel within 5 u, force components within 16 u (relative) *)
Theorem C20_pair_potential_error : forall u, 0 <= u <= 1 / 1024 -> forall ar, std_model u ar ->
  forall s t, apart s t ->
  let '(fx, fy, fz, inv) := pair R ar s t in Rabs (inv - / rdist s t) <= 5 * u * / rdist s t.
Proof. exact pair_potential_error. Qed.
Print Assumptions C20_pair_potential_error.

Theorem C20_pair_force_error : forall u, 0 <= u <= 1 / 1024 -> forall ar, std_model u ar ->
  forall s t, apart s t ->
  let '(fx, fy, fz, inv) := pair R ar s t in
  Rabs (fx - f_x _ (contrib s t)) <= 16 * u * Rabs (f_x _ (contrib s t)) /\
  Rabs (fy - f_y _ (contrib s t)) <= 16 * u * Rabs (f_y _ (contrib s t)) /\
  Rabs (fz - f_z _ (contrib s t)) <= 16 * u * Rabs (f_z _ (contrib s t)).
Proof. exact pair_force_error. Qed.
Print Assumptions C20_pair_force_error.

(* a whole target: the accumulated potential of n sources is within (n + 7) u of the exact sum, relative to the sum of
   absolute contributions (recursive summation), as long as (n+6)(n+7) u <= 1 *)
Theorem C20_remote_potential_error : forall u, 0 <= u <= 1 / 1024 -> forall ar, std_model u ar ->
  forall srcs t, Forall (fun s => apart s t) srcs ->
  let n := INR (length srcs) in
  (n + 6) * (n + 7) * u <= 1 ->
  Rabs (f_p _ (remote_one R ar srcs t (rhs0 R ar)) - Rsum (map (fun s => p_v _ s / rdist s t) srcs))
  <= ((n + 7) * u) * Rsum (map (fun s => Rabs (p_v _ s) / rdist s t) srcs).
Proof. exact remote_potential_error. Qed.
Print Assumptions C20_remote_potential_error.

Theorem C20_remote_force_error : forall u, 0 <= u <= 1 / 1024 -> forall ar, std_model u ar ->
  forall srcs t, Forall (fun s => apart s t) srcs ->
  let n := INR (length srcs) in
  let r := remote_one R ar srcs t (rhs0 R ar) in
  (n + 16) * (n + 17) * u <= 1 ->
  Rabs (f_x _ r - Rsum (map (fun s => f_x _ (contrib s t)) srcs))
    <= ((n + 17) * u) * Rsum (map (fun s => Rabs (f_x _ (contrib s t))) srcs) /\
  Rabs (f_y _ r - Rsum (map (fun s => f_y _ (contrib s t)) srcs))
    <= ((n + 17) * u) * Rsum (map (fun s => Rabs (f_y _ (contrib s t))) srcs) /\
  Rabs (f_z _ r - Rsum (map (fun s => f_z _ (contrib s t)) srcs))
    <= ((n + 17) * u) * Rsum (map (fun s => Rabs (f_z _ (contrib s t))) srcs).
Proof. exact remote_force_error. Qed.
Print Assumptions C20_remote_force_error.

(* binary64 round-to-nearest satisfies the standard model with u = 2^-53 in the normal range *)
Theorem C20_b64_add_model : forall x y : binary_float 53 1024, is_finite x = true -> is_finite y = true ->
  bpow radix2 (-1022) <= Rabs (B2R x + B2R y) < bpow radix2 1023 ->
  is_finite (Bplus mode_NE x y) = true /\
  exists e, Rabs e <= bpow radix2 (-53) /\ B2R (Bplus mode_NE x y) = (B2R x + B2R y) * (1 + e).
Proof. exact b64_add_model. Qed.
Print Assumptions C20_b64_add_model.

Theorem C20_b64_div_model : forall x y : binary_float 53 1024, is_finite x = true -> B2R y <> 0 ->
  bpow radix2 (-1022) <= Rabs (B2R x / B2R y) < bpow radix2 1023 ->
  is_finite (Bdiv mode_NE x y) = true /\
  exists e, Rabs e <= bpow radix2 (-53) /\ B2R (Bdiv mode_NE x y) = (B2R x / B2R y) * (1 + e).
Proof. exact b64_div_model. Qed.
Print Assumptions C20_b64_div_model.

(* the arithmetic "round to binary64 when the exact result is normal" is an instance of the model: the bounds are not vacuous *)
Theorem C20_g64_std_model : std_model (bpow radix2 (-53)) g64_ops.
Proof. exact g64_std_model. Qed.
Print Assumptions C20_g64_std_model.

(* ---- the error bound on the ACTUAL binary64 computation (the SpecFloat instance that is executed bit for bit against the C++) ----
   inputs: finite binary64 values whose exact coordinate differences are 0 or of magnitude in [2^-160, 2^160] (not all zero)
   and whose charges are 0 or of magnitude in [2^-160, 2^160]: then every intermediate result is finite and normal (or exactly
   zero), the computed inverse distance is within 5 * 2^-53 and each force component within 16 * 2^-53 (relative) of the exact
   value *)
Theorem C20_sf_pair_bridge : forall s t : part (binary_float 53 1024),
  pair SpecFloat.spec_float (Tbfmm.Num.P2PSF.sf_ops 53 1024) (sf_part s) (sf_part t)
  = let '(fx, fy, fz, inv) := pair (binary_float 53 1024) b64_ops s t in (B2SF fx, B2SF fy, B2SF fz, B2SF inv).
Proof. exact sf_pair_bridge. Qed.
Print Assumptions C20_sf_pair_bridge.

Theorem C20_b64_pair_error : forall s t : part (binary_float 53 1024), b64_inputs_ok s t ->
  let sR := partR_of s in let tR := partR_of t in
  let '(fx, fy, fz, inv) := pair (binary_float 53 1024) b64_ops s t in
  (is_finite fx = true /\ is_finite fy = true /\ is_finite fz = true /\ is_finite inv = true) /\
  Rabs (B2R inv - / rdist sR tR) <= 5 * bpow radix2 (-53) * / rdist sR tR /\
  Rabs (B2R fx - f_x _ (contrib sR tR)) <= 16 * bpow radix2 (-53) * Rabs (f_x _ (contrib sR tR)) /\
  Rabs (B2R fy - f_y _ (contrib sR tR)) <= 16 * bpow radix2 (-53) * Rabs (f_y _ (contrib sR tR)) /\
  Rabs (B2R fz - f_z _ (contrib sR tR)) <= 16 * bpow radix2 (-53) * Rabs (f_z _ (contrib sR tR)).
Proof. exact b64_pair_error. Qed.
Print Assumptions C20_b64_pair_error.

(* ---- the same for the float instantiation: binary32 (prec 24, emax 128), inputs 0 or of magnitude in [2^-20, 2^20]: every
   intermediate result is finite and normal (or exactly zero), bounds 5 * 2^-24 and 16 * 2^-24; stated on Flocq's operations and on
   the SpecFloat instance `sf_ops 24 128` that is executed bit for bit against FP2PR<float> ---- *)
Theorem C20_sf32_pair_bridge : forall s t : part (binary_float 24 128),
  pair SpecFloat.spec_float (Tbfmm.Num.P2PSF.sf_ops 24 128) (sf_part32 s) (sf_part32 t)
  = let '(fx, fy, fz, inv) := pair (binary_float 24 128) b32_ops s t in (B2SF fx, B2SF fy, B2SF fz, B2SF inv).
Proof. exact sf32_pair_bridge. Qed.
Print Assumptions C20_sf32_pair_bridge.

Theorem C20_b32_pair_error : forall s t : part (binary_float 24 128), b32_inputs_ok s t ->
  let sR := partR32_of s in let tR := partR32_of t in
  let '(fx, fy, fz, inv) := pair (binary_float 24 128) b32_ops s t in
  (is_finite fx = true /\ is_finite fy = true /\ is_finite fz = true /\ is_finite inv = true) /\
  Rabs (B2R inv - / rdist sR tR) <= 5 * bpow radix2 (-24) * / rdist sR tR /\
  Rabs (B2R fx - f_x _ (contrib sR tR)) <= 16 * bpow radix2 (-24) * Rabs (f_x _ (contrib sR tR)) /\
  Rabs (B2R fy - f_y _ (contrib sR tR)) <= 16 * bpow radix2 (-24) * Rabs (f_y _ (contrib sR tR)) /\
  Rabs (B2R fz - f_z _ (contrib sR tR)) <= 16 * bpow radix2 (-24) * Rabs (f_z _ (contrib sR tR)).
Proof. exact b32_pair_error. Qed.
Print Assumptions C20_b32_pair_error.

Theorem C20_sf32_pair_error : forall s t : part (binary_float 24 128), b32_inputs_ok s t ->
  let sR := partR32_of s in let tR := partR32_of t in
  let '(fx, fy, fz, inv) := pair SpecFloat.spec_float (Tbfmm.Num.P2PSF.sf_ops 24 128) (sf_part32 s) (sf_part32 t) in
  Rabs (SF2R radix2 inv - / rdist sR tR) <= 5 * bpow radix2 (-24) * / rdist sR tR /\
  Rabs (SF2R radix2 fx - f_x _ (contrib sR tR)) <= 16 * bpow radix2 (-24) * Rabs (f_x _ (contrib sR tR)) /\
  Rabs (SF2R radix2 fy - f_y _ (contrib sR tR)) <= 16 * bpow radix2 (-24) * Rabs (f_y _ (contrib sR tR)) /\
  Rabs (SF2R radix2 fz - f_z _ (contrib sR tR)) <= 16 * bpow radix2 (-24) * Rabs (f_z _ (contrib sR tR)).
Proof. exact sf32_pair_error. Qed.
Print Assumptions C20_sf32_pair_error.

Example C20_b32_inputs_satisfiable : b32_inputs_ok ex32_s ex32_t.
Proof. exact ex32_inputs_ok. Qed.

(* ---- accumulation on the ACTUAL binary64 computation: one target, a list of sources (GenericFullRemote's inner loop), stated on the
   SpecFloat instance that is executed bit for bit against the C++: all four accumulators stay finite, the potential is within
   (n + 7) 2^-53 and each force component within (n + 17) 2^-53 of the exact sum, relative to the sum of absolute contributions ---- *)
Theorem C20_sf_remote_error : forall (srcs : list (part (binary_float 53 1024))) (t : part (binary_float 53 1024)),
  Forall (fun s => b64_inputs_ok s t) srcs -> (Z.of_nat (length srcs) <= 2 ^ 26)%Z ->
  let tR := partR_of t in let sR := map partR_of srcs in let n := INR (length srcs) in
  let r := remote_one SpecFloat.spec_float (sf_ops 53 1024) (map sf_part srcs) (sf_part t) (rhs0 _ (sf_ops 53 1024)) in
  (is_finite_SF (f_x _ r) = true /\ is_finite_SF (f_y _ r) = true /\ is_finite_SF (f_z _ r) = true /\
   is_finite_SF (f_p _ r) = true) /\
  Rabs (SF2R radix2 (f_p _ r) - Rsum (map (fun s => p_v _ s / rdist s tR) sR))
    <= ((n + 7) * bpow radix2 (-53)) * Rsum (map (fun s => Rabs (p_v _ s) / rdist s tR) sR) /\
  Rabs (SF2R radix2 (f_x _ r) - Rsum (map (fun s => f_x _ (contrib s tR)) sR))
    <= ((n + 17) * bpow radix2 (-53)) * Rsum (map (fun s => Rabs (f_x _ (contrib s tR))) sR) /\
  Rabs (SF2R radix2 (f_y _ r) - Rsum (map (fun s => f_y _ (contrib s tR)) sR))
    <= ((n + 17) * bpow radix2 (-53)) * Rsum (map (fun s => Rabs (f_y _ (contrib s tR))) sR) /\
  Rabs (SF2R radix2 (f_z _ r) - Rsum (map (fun s => f_z _ (contrib s tR)) sR))
    <= ((n + 17) * bpow radix2 (-53)) * Rsum (map (fun s => Rabs (f_z _ (contrib s tR))) sR).
Proof. exact sf_remote_error. Qed.
Print Assumptions C20_sf_remote_error.

Example C20_remote_inputs_satisfiable :
  Forall (fun s => b64_inputs_ok s ex_t) (ex_s1 :: ex_s2 :: nil) /\ (Z.of_nat (length (ex_s1 :: ex_s2 :: nil)) <= 2 ^ 26)%Z.
Proof. exact (conj ex_inputs ex_len). Qed.

(* ---- binary32 accumulation on the actual computation (inputs 0 or of magnitude in [2^-18, 2^18], at most 2^11 sources) ---- *)
Theorem C20_sf32_remote_error : forall (srcs : list (part (binary_float 24 128))) (t : part (binary_float 24 128)),
  Forall (fun s => b32_inputs_ok18 s t) srcs -> (Z.of_nat (length srcs) <= 2 ^ 11)%Z ->
  let tR := partR32_of t in let sR := map partR32_of srcs in let n := INR (length srcs) in
  let r := remote_one SpecFloat.spec_float (sf_ops 24 128) (map sf_part32 srcs) (sf_part32 t) (rhs0 _ (sf_ops 24 128)) in
  (is_finite_SF (f_x _ r) = true /\ is_finite_SF (f_y _ r) = true /\ is_finite_SF (f_z _ r) = true /\
   is_finite_SF (f_p _ r) = true) /\
  Rabs (SF2R radix2 (f_p _ r) - Rsum (map (fun s => p_v _ s / rdist s tR) sR))
    <= ((n + 7) * bpow radix2 (-24)) * Rsum (map (fun s => Rabs (p_v _ s) / rdist s tR) sR) /\
  Rabs (SF2R radix2 (f_x _ r) - Rsum (map (fun s => f_x _ (contrib s tR)) sR))
    <= ((n + 17) * bpow radix2 (-24)) * Rsum (map (fun s => Rabs (f_x _ (contrib s tR))) sR) /\
  Rabs (SF2R radix2 (f_y _ r) - Rsum (map (fun s => f_y _ (contrib s tR)) sR))
    <= ((n + 17) * bpow radix2 (-24)) * Rsum (map (fun s => Rabs (f_y _ (contrib s tR))) sR) /\
  Rabs (SF2R radix2 (f_z _ r) - Rsum (map (fun s => f_z _ (contrib s tR)) sR))
    <= ((n + 17) * bpow radix2 (-24)) * Rsum (map (fun s => Rabs (f_z _ (contrib s tR))) sR).
Proof. exact sf32_remote_error. Qed.
Print Assumptions C20_sf32_remote_error.

(* ---- the mutual and in-leaf routines: structure in EVERY arithmetic (so also in the IEEE instances executed against the C++) ---- *)
Theorem C20_full_mutual_targets : forall (T : Type) (ar : ops T) srcs tgts,
  snd (full_mutual T ar srcs tgts) = full_remote T ar (map fst srcs) tgts.
Proof. exact full_mutual_targets. Qed.
Print Assumptions C20_full_mutual_targets.

Theorem C20_full_mutual_sources : forall (T : Type) (ar : ops T) srcs tgts,
  fst (full_mutual T ar srcs tgts) =
  map (fun sr => (fst sr, fold_left (fun a t => backT T ar t (fst sr) a) (map fst tgts) (snd sr))) srcs.
Proof. exact full_mutual_sources. Qed.
Print Assumptions C20_full_mutual_sources.

Theorem C20_inner_structure : forall (T : Type) (ar : ops T) (dd : part T * rhs T) (d : rhs T) ps i, (i < length ps)%nat ->
  nth i (inner T ar ps) d =
  fold_left (stepT T ar (fst (nth i ps dd))) (map fst (skipn (S i) ps))
    (fold_left (fun a tk => backT T ar tk (fst (nth i ps dd)) a) (map fst (firstn i ps)) (snd (nth i ps dd))).
Proof. exact inner_structure. Qed.
Print Assumptions C20_inner_structure.

(* ---- and their rounding bounds under the standard model: every source and every target of the mutual routine, every particle of the
   in-leaf routine, zero initial accumulators; acc_bound u L p r = potential within (|L| + 7) u and forces within (|L| + 17) u of the
   exact sums over the contributors L, relative to the sums of absolute contributions ---- *)
Theorem C20_mutual_error : forall u, 0 <= u <= 1 / 1024 -> forall ar, std_model u ar ->
  forall (srcs tgts : list (partR * rhsR)),
  Forall (fun sr => snd sr = rhs0 R ar) srcs -> Forall (fun tr => snd tr = rhs0 R ar) tgts ->
  Forall (fun sr => Forall (fun tr => apart (fst sr) (fst tr)) tgts) srcs ->
  (INR (length tgts) + 16) * (INR (length tgts) + 17) * u <= 1 ->
  (INR (length srcs) + 16) * (INR (length srcs) + 17) * u <= 1 ->
  Forall (fun sr' => acc_bound u (map fst tgts) (fst sr') (snd sr')) (fst (full_mutual R ar srcs tgts)) /\
  Forall2 (fun tr r' => acc_bound u (map fst srcs) (fst tr) r') tgts (snd (full_mutual R ar srcs tgts)).
Proof. exact mutual_error. Qed.
Print Assumptions C20_mutual_error.

Theorem C20_inner_error : forall u, 0 <= u <= 1 / 1024 -> forall ar, std_model u ar ->
  forall (ps : list (partR * rhsR)),
  ForallOrdPairs (fun a b => apart (fst a) (fst b)) ps ->
  Forall (fun pr => snd pr = rhs0 R ar) ps ->
  let n := INR (length ps) - 1 in
  (n + 16) * (n + 17) * u <= 1 ->
  forall i, (i < length ps)%nat ->
    acc_bound u (map fst (firstn i ps ++ skipn (S i) ps)) (fst (nth i ps dflt)) (nth i (inner R ar ps) (rhs0 R ar)).
Proof. exact inner_error. Qed.
Print Assumptions C20_inner_error.

(* ---- the mutual and in-leaf routines on the ACTUAL binary64 computation (SpecFloat instance executed bit for bit against the C++):
   every source and target of FullMutual, every particle of GenericInner, zero initial accumulators ---- *)
Theorem C20_sf_mutual_error : forall (srcs tgts : list (part (binary_float 53 1024) * rhs (binary_float 53 1024))),
  Forall (fun sr => snd sr = rhs0 _ b64_ops) srcs -> Forall (fun tr => snd tr = rhs0 _ b64_ops) tgts ->
  Forall (fun sr => Forall (fun tr => b64_inputs_ok (fst sr) (fst tr)) tgts) srcs ->
  (Z.of_nat (length tgts) <= 2 ^ 26)%Z -> (Z.of_nat (length srcs) <= 2 ^ 26)%Z ->
  let res := full_mutual SpecFloat.spec_float (sf_ops 53 1024) (map sf_pr srcs) (map sf_pr tgts) in
  Forall2 (fun sr sr' => fst sr' = sf_part (fst sr) /\ rhs_finite_sf (snd sr') /\
            acc_bound (bpow radix2 (-53)) (map partR_of (map fst tgts)) (partR_of (fst sr)) (rhsR_of_sf (snd sr')))
    srcs (fst res) /\
  Forall2 (fun tr r' => rhs_finite_sf r' /\
            acc_bound (bpow radix2 (-53)) (map partR_of (map fst srcs)) (partR_of (fst tr)) (rhsR_of_sf r'))
    tgts (snd res).
Proof. exact sf_mutual_error. Qed.
Print Assumptions C20_sf_mutual_error.

Theorem C20_sf_inner_error : forall (ps : list (part (binary_float 53 1024) * rhs (binary_float 53 1024))) (d : part (binary_float 53 1024) * rhs (binary_float 53 1024)),
  ForallOrdPairs (fun a b => b64_inputs_ok (fst a) (fst b)) ps ->
  Forall (fun pr => snd pr = rhs0 _ b64_ops) ps ->
  (Z.of_nat (length ps) <= 2 ^ 26)%Z ->
  forall i, (i < length ps)%nat ->
    let r := nth i (inner SpecFloat.spec_float (sf_ops 53 1024) (map sf_pr ps)) (rhs0 SpecFloat.spec_float (sf_ops 53 1024)) in
    rhs_finite_sf r /\
    acc_bound (bpow radix2 (-53)) (map partR_of (map fst (firstn i ps ++ skipn (S i) ps)))
      (partR_of (fst (nth i ps d))) (rhsR_of_sf r).
Proof. exact sf_inner_error. Qed.
Print Assumptions C20_sf_inner_error.

(* ---- the same for the float instantiation (binary32, SpecFloat instance `sf_ops 24 128`) ---- *)
Theorem C20_sf32_mutual_error : forall (srcs tgts : list (part (binary_float 24 128) * rhs (binary_float 24 128))),
  Forall (fun sr => snd sr = rhs0 _ b32_ops) srcs -> Forall (fun tg => snd tg = rhs0 _ b32_ops) tgts ->
  Forall (fun sr => Forall (fun tg => b32_inputs_ok18 (fst sr) (fst tg)) tgts) srcs ->
  (Z.of_nat (length tgts) <= 2 ^ 11)%Z -> (Z.of_nat (length srcs) <= 2 ^ 11)%Z ->
  let res := full_mutual SpecFloat.spec_float (sf_ops 24 128) (map sf32_pr srcs) (map sf32_pr tgts) in
  Forall2 (fun sr sr' => fst sr' = sf_part32 (fst sr) /\ rhs_finite_sf (snd sr') /\
            acc_bound (bpow radix2 (-24)) (map partR32_of (map fst tgts)) (partR32_of (fst sr)) (rhsR_of_sf (snd sr')))
    srcs (fst res) /\
  Forall2 (fun tg r' => rhs_finite_sf r' /\
            acc_bound (bpow radix2 (-24)) (map partR32_of (map fst srcs)) (partR32_of (fst tg)) (rhsR_of_sf r'))
    tgts (snd res).
Proof. exact sf32_mutual_error. Qed.
Print Assumptions C20_sf32_mutual_error.

Theorem C20_sf32_inner_error : forall (ps : list (part (binary_float 24 128) * rhs (binary_float 24 128))) (d : part (binary_float 24 128) * rhs (binary_float 24 128)),
  ForallOrdPairs (fun a b => b32_inputs_ok18 (fst a) (fst b)) ps ->
  Forall (fun pr => snd pr = rhs0 _ b32_ops) ps ->
  (Z.of_nat (length ps) <= 2 ^ 11)%Z ->
  forall i, (i < length ps)%nat ->
    let r := nth i (inner SpecFloat.spec_float (sf_ops 24 128) (map sf32_pr ps)) (rhs0 SpecFloat.spec_float (sf_ops 24 128)) in
    rhs_finite_sf r /\
    acc_bound (bpow radix2 (-24)) (map partR32_of (map fst (firstn i ps ++ skipn (S i) ps)))
      (partR32_of (fst (nth i ps d))) (rhsR_of_sf r).
Proof. exact sf32_inner_error. Qed.
Print Assumptions C20_sf32_inner_error.
