(* C17 property theorems (statements closed by [exact]); filled as the proofs land. *)
From Tbfmm Require Import Base.Prelude Index.MortonDefs Tree.GroupDefs Tree.BuildDefs Tree.Invariant Tree.ExportDefs.
Local Open Scope Z_scope.

Example C17_example :
  let t := build (parent 3) 3 2 false [5;5;63;0;9;12;9] in
  map (fun i => export_get Z (-1) (fun i _ => i) 1 t i 0) (zseq 7) = zseq 7.
Proof. vm_compute. reflexivity. Qed.
Print Assumptions C17_example.
