(* C17 — bulk export returns every particle's values under its original index.  Proofs in Tree/ExportProofs.v. *)
From Tbfmm Require Import Base.Prelude Index.MortonDefs Tree.GroupDefs Tree.BuildDefs Tree.Invariant Tree.ExportDefs Tree.ExportProofs.
Local Open Scope Z_scope.

(* entry i of the exported array holds the values of the particle inserted at position i: any value type, any number of values
   per particle, any internal ordering, any tree in which every particle is stored once with consistent leaf headers *)
Theorem C17_export_spec : forall (V : Type) (dflt : V) (input : Z -> Z -> V) nv t idx i v,
  particles_ok idx t -> Forall pgroup_ok (t_pgroups t) -> 0 <= i < zlen idx -> 0 <= v < nv ->
  export_get V dflt input nv t i v = input i v.
Proof. exact export_spec. Qed.
Print Assumptions C17_export_spec.

Theorem C17_export_spec_build : forall (V : Type) (dflt : V) (input : Z -> Z -> V) nv par H B mode idx i v,
  (forall a b, a <= b -> par a <= par b) -> (forall a, 0 <= a -> 0 <= par a) ->
  1 <= H -> 1 <= B -> idx <> [] -> Forall (fun c => 0 <= c) idx -> 0 <= i < zlen idx -> 0 <= v < nv ->
  export_get V dflt input nv (build par H B mode idx) i v = input i v.
Proof. exact export_spec_build. Qed.
Print Assumptions C17_export_spec_build.

(* the index expression of the pinned commit (out[value][particle]) does not have the property: witness with 2 particles,
   3 values (this is the defect repaired by the "fix: bulk export ..." commit; kept as documentation of what the check replays) *)
Theorem C17_export_transposed_refuted : exists (t : tree) (i v : Z),
  lookup_write Z (export_writes_transposed Z (fun i v => 10 * i + v) 3 t) i v (-1) <> 10 * i + v /\ 0 <= i < 2 /\ 0 <= v < 3.
Proof. exact export_transposed_refuted. Qed.
Print Assumptions C17_export_transposed_refuted.

Example C17_example :
  let t := build (parent 3) 3 2 false [5;5;63;0;9;12;9] in
  map (fun i => export_get Z (-1) (fun i _ => i) 1 t i 0) (zseq 7) = zseq 7.
Proof. vm_compute. reflexivity. Qed.
