(* C06 — construction stores every particle once, in the right leaf (combinatorial half).
   Statements only; proofs in Tree/BuildProofs.v.  The bit-exact copy of the data values and the zero
   initialisation are decided per run by the harness (data compared bit for bit with the input). *)
From Tbfmm Require Import Base.Prelude Index.MortonDefs Tree.GroupDefs Tree.BuildDefs Tree.Invariant Tree.BuildProofs.
Local Open Scope Z_scope.

(* every input particle is stored exactly once (the stored original indices are a permutation of 0..n-1) and the leaf that
   holds particle p is the leaf of p's index - for every input, height, block size, grouping mode *)
Theorem C06_build_particles : forall par H B mode idx, 1 <= H -> 1 <= B -> idx <> [] -> Forall (fun c => 0 <= c) idx ->
  particles_ok idx (build par H B mode idx).
Proof. exact build_particles. Qed.
Print Assumptions C06_build_particles.

Theorem C06_build_leaf_set : forall par H B mode idx, 1 <= H -> 1 <= B -> idx <> [] -> Forall (fun c => 0 <= c) idx ->
  forall i, In i (flat_map pg_indices (t_pgroups (build par H B mode idx))) <-> In i idx.
Proof. exact build_leaf_set. Qed.
Print Assumptions C06_build_leaf_set.

Example C06_example :
  map lf_parts (all_leaves (build (parent 3) 3 2 false [5;5;63;0;9;12;9])) = [[3]; [0; 1]; [6; 4]; [5]; [2]].
Proof. vm_compute. reflexivity. Qed.
