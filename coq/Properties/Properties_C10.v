(* C10 property theorems (statements closed by [exact]).
   Periodic mode: one contribution from every image in the repetition cube.
   What is proved here (for every dimension d > 0 and every number of extra levels k >= 0):
     - the reported interval has the reported number of repetitions and the closed form [-3*2^k, 3*2^k-1] ([-3,3] for k = 0);
     - the literal call sequence of the periodic top tree (model [top_execute], compared call by call with the real
       TbfAlgorithmPeriodicTopTree at run time), read with the image semantics [tstep] (a multipole/local is the multiset of
       whole-box shifts it has accumulated; M2M/L2L displace by the child offset, M2L by the unwrapped relative offset times
       the cell size), delivers to the box EXACTLY ONCE the image at every shift of the reported cube minus [-1,1]^d;
     - the 1-D heart (window telescope [-3,2] / [-2,3]).
   The remaining half (the 3^d adjacent copies are delivered exactly once by the wrapped lists inside the box) is in
   Spec/GeometryPer.v when present (see the end of this file); the run-time tie is the image-aware kernel of checks/c10.py. *)
From Tbfmm Require Import Base.Prelude Index.MortonDefs Index.ListsDefs Tree.GroupDefs Tree.BuildDefs Exec.ExecDefs Exec.ExecPeriodicDefs
  Spec.TopTree.
From Coq Require Import Permutation.
Local Open Scope Z_scope.

Example C10_example : map repetition_interval [-1; 0; 1; 2; 3] = [(-1, 1); (-3, 3); (-6, 5); (-12, 11); (-24, 23)]
                   /\ map nb_repetitions [-1; 0; 1; 2; 3; 4] = [3; 7; 12; 24; 48; 96].
Proof. vm_compute. split; reflexivity. Qed.

Theorem C10_interval_matches : forall k, 0 <= k ->
  let (lo, hi) := repetition_interval k in
  hi - lo + 1 = nb_repetitions k /\ (k = 0 -> lo = -3 /\ hi = 3) /\ (1 <= k -> lo = - 3 * 2 ^ k /\ hi = 3 * 2 ^ k - 1).
Proof. exact interval_matches. Qed.
Print Assumptions C10_interval_matches.

(* the top tree delivers every far image of the reported cube exactly once, and nothing else *)
Theorem C10_toptree_images : forall d k t, (0 < d)%nat -> 0 <= k -> height t <> 0 ->
  let (lo, hi) := repetition_interval k in
  Permutation (top_run d k (top_execute d k 63 t))
              (filter (fun s => negb (forallb (fun x => Z.abs x <=? 1) s)) (cube_shifts d lo hi)).
Proof. exact toptree_images. Qed.
Print Assumptions C10_toptree_images.

(* the right-hand side has no repetition: "exactly once" *)
Theorem C10_cube_nodup : forall d lo hi, NoDup (cube_shifts d lo hi).
Proof. exact NoDup_cs. Qed.
Print Assumptions C10_cube_nodup.

Theorem C10_cube_members : forall d lo hi v, In v (cube_shifts d lo hi) <-> length v = d /\ inbox lo hi v = true.
Proof. exact In_cs. Qed.
Print Assumptions C10_cube_members.

Theorem C10_window_telescope_1d : forall k, 0 <= k ->
  let (lo, hi) := repetition_interval k in
  Permutation (tele1 k) (filter (fun x => negb (Z.abs x <=? 1)) (zrange lo hi)).
Proof. exact window_telescope_1d. Qed.
Print Assumptions C10_window_telescope_1d.

(* non-vacuity: the semantics run on the real call sequence for d = 2, k = 2 gives 24^2 - 9 = 567 images *)
Example C10_nonvacuous : length (top_run 2 2 (top_execute 2 2 63 test_tree)) = 567%nat /\ toptree_check 2 2 = true.
Proof. vm_compute. split; reflexivity. Qed.
