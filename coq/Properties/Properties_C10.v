(* C10 property theorems (statements closed by [exact]).
   Periodic mode: one contribution from every image in the repetition cube.
   What is proved here (for every dimension d > 0 and every number of extra levels k >= 0):
     - the reported interval has the reported number of repetitions and the closed form [-3*2^k, 3*2^k-1] ([-3,3] for k = 0);
     - the literal call sequence of the periodic top tree (model [top_execute], compared call by call with the real
       TbfAlgorithmPeriodicTopTree at run time), read with the image semantics [tstep] (a multipole/local is the multiset of
       whole-box shifts it has accumulated; M2M/L2L displace by the child offset, M2L by the unwrapped relative offset times
       the cell size), delivers to the box EXACTLY ONCE the image at every shift of the reported cube minus [-1,1]^d;
     - the 1-D heart (window telescope [-3,2] / [-2,3]).
     - the other half: the wrapped interaction / neighbour lists inside the box deliver each image of the 3^d adjacent
       copies exactly once (partition theorem on unwrapped coordinates, distinct offset codes per list, every entry is an
       image in range, exactly one of o / -o in the upper half), and the reported cube is the disjoint union of the two parts.
     - MAIN (Spec/ExactlyOncePer.v, end of this file): the two halves composed through an image-aware free kernel: after the
       documented four-step periodic sequence every particle holds EXACTLY ONE contribution from every image (q, sigma) with
       sigma in the reported repetition cube, none from itself in the central box, nothing else - for every dimension, height
       >= 2, block size, grouping mode, k >= -1, every tree satisfying the invariant (in particular every tree the constructor
       builds).  The semantics of the calls on images ([pstep]: M2L / P2P displace by img_shift = floor((t + o) / 2^l), the top
       tree by [tstep]) is what the image-aware TraceKernel of the harness implements on the real positions; the call sequence
       itself is compared with the C++ on every run. *)
From Tbfmm Require Import Base.Prelude Index.MortonDefs Index.ListsDefs Tree.GroupDefs Tree.BuildDefs Exec.ExecDefs Exec.ExecPeriodicDefs
  Index.ListsSpec Tree.Invariant Spec.TopTree Spec.GeometryPer Spec.ExactlyOncePer Spec.ExactlyOncePerTsm Exec.ImageDefs.
From Coq Require Import Permutation.
Local Open Scope Z_scope.

Example C10_example : map repetition_interval [-1; 0; 1; 2; 3] = [(-1, 1); (-3, 3); (-6, 5); (-12, 11); (-24, 23)]
                   /\ map nb_repetitions [-1; 0; 1; 2; 3; 4] = [3; 7; 12; 24; 48; 96].
Proof. vm_compute. split; reflexivity. Qed.

Theorem C10_interval_matches : forall k, 0 <= k ->
  let (lo, hi) := repetition_interval k in
  hi - lo + 1 = nb_repetitions k /\ (k = 0 -> lo = -3 /\ hi = 3) /\ (1 <= k -> lo = - 3 * 2 ^ k /\ hi = 3 * 2 ^ k - 1).
Proof. exact interval_matches. Qed.
Print Assumptions C10_interval_matches.

(* the top tree delivers every far image of the reported cube exactly once, and nothing else *)
Theorem C10_toptree_images : forall d k t, (0 < d)%nat -> 0 <= k -> height t <> 0 ->
  let (lo, hi) := repetition_interval k in
  Permutation (top_run d k (top_execute d k 63 t))
              (filter (fun s => negb (forallb (fun x => Z.abs x <=? 1) s)) (cube_shifts d lo hi)).
Proof. exact toptree_images. Qed.
Print Assumptions C10_toptree_images.

(* the right-hand side has no repetition: "exactly once" *)
Theorem C10_cube_nodup : forall d lo hi, NoDup (cube_shifts d lo hi).
Proof. exact NoDup_cs. Qed.
Print Assumptions C10_cube_nodup.

Theorem C10_cube_members : forall d lo hi v, In v (cube_shifts d lo hi) <-> length v = d /\ inbox lo hi v = true.
Proof. exact In_cs. Qed.
Print Assumptions C10_cube_members.

Theorem C10_window_telescope_1d : forall k, 0 <= k ->
  let (lo, hi) := repetition_interval k in
  Permutation (tele1 k) (filter (fun x => negb (Z.abs x <=? 1)) (zrange lo hi)).
Proof. exact window_telescope_1d. Qed.
Print Assumptions C10_window_telescope_1d.

(* non-vacuity: the semantics run on the real call sequence for d = 2, k = 2 gives 24^2 - 9 = 567 images *)
Example C10_nonvacuous : length (top_run 2 2 (top_execute 2 2 63 test_tree)) = 567%nat /\ toptree_check 2 2 = true.
Proof. vm_compute. split; reflexivity. Qed.

(* ---- the in-box half: unwrapped leaf coordinates u of an image (sigma in [-1,1]^d  <->  u in [-2^L, 2*2^L)^d) ---- *)
Theorem C10_inbox_near_xor_far_once : forall d L ca u, (0 < d)%nat -> 1 <= L -> length ca = d -> length u = d ->
  Forall (fun x => 0 <= x < 2 ^ L) ca -> Forall (fun x => - 2 ^ L <= x < 2 * 2 ^ L) u ->
     (u = ca /\ ~ near_img d L ca u /\ forall l, 1 <= l <= L -> ~ far_img d L l ca u)
  \/ (u <> ca /\ near_img d L ca u /\ forall l, 1 <= l <= L -> ~ far_img d L l ca u)
  \/ (u <> ca /\ ~ near_img d L ca u /\
      exists l, 1 <= l <= L /\ far_img d L l ca u /\
                forall l', 1 <= l' <= L -> far_img d L l' ca u -> l' = l).
Proof. exact per_near_xor_far_once. Qed.
Print Assumptions C10_inbox_near_xor_far_once.

Theorem C10_ilist_codes_nodup : forall d l idx, (0 < d)%nat -> 0 <= l -> 0 <= idx < 2 ^ (l * dz d) ->
  NoDup (map snd (ilist_spec d true l idx)).
Proof. exact per_ilist_codes_nodup. Qed.
Print Assumptions C10_ilist_codes_nodup.

Theorem C10_nlist_codes_nodup : forall d l upper idx, (0 < d)%nat -> 0 <= l -> 0 <= idx < 2 ^ (l * dz d) ->
  NoDup (map snd (nlist_spec d true l upper idx)).
Proof. exact per_nlist_codes_nodup. Qed.
Print Assumptions C10_nlist_codes_nodup.

Theorem C10_ilist_entries_are_images : forall d l cal src code, (0 < d)%nat -> 1 <= l -> length cal = d ->
  Forall (fun x => 0 <= x < 2 ^ l) cal ->
  In (src, code) (ilist_spec d true l (box d cal)) ->
  exists o, length o = d /\ code = enc7 o /\ src = box d (wrap l (map2 Z.add cal o)) /\ too_close o = false
            /\ Forall (fun x => -2 <= x <= 2 ^ l + 1) (map2 Z.add cal o).
Proof. exact per_ilist_entries. Qed.
Print Assumptions C10_ilist_entries_are_images.

Theorem C10_ilist_entries_leaf_range : forall L l x y, 1 <= l <= L -> -2 <= x <= 2 ^ l + 1 ->
  y / 2 ^ (L - l) = x -> - 2 ^ L <= y < 2 * 2 ^ L.
Proof. exact per_ilist_entries_leaf. Qed.
Print Assumptions C10_ilist_entries_leaf_range.

Theorem C10_nlist_entries_are_images : forall d L ca src code, (0 < d)%nat -> 0 <= L -> length ca = d ->
  Forall (fun x => 0 <= x < 2 ^ L) ca ->
  In (src, code) (nlist_spec d true L false (box d ca)) ->
  exists o, length o = d /\ code = enc3 o /\ src = box d (wrap L (map2 Z.add ca o)) /\
            Forall (fun x => -1 <= x <= 1) o /\ o <> repeat 0 d.
Proof. exact per_nlist_entries. Qed.
Print Assumptions C10_nlist_entries_are_images.

Theorem C10_upper_one_side : forall d o, length o = d -> Forall (fun x => -1 <= x <= 1) o -> o <> repeat 0 d ->
  (lex_positive d o = true /\ lex_positive d (map Z.opp o) = false) \/
  (lex_positive d o = false /\ lex_positive d (map Z.opp o) = true).
Proof. exact per_upper_one_side. Qed.
Print Assumptions C10_upper_one_side.

(* the reported cube = the 3^d copies handled inside the box  +  the shifts handled by the top tree *)
Theorem C10_repetition_cube_split : forall d k, (0 < d)%nat -> 0 <= k ->
  let (lo, hi) := repetition_interval k in
  Permutation (cube_shifts d lo hi) (cube_shifts d (-1) 1 ++ far_shifts d lo hi).
Proof. exact repetition_cube_split. Qed.
Print Assumptions C10_repetition_cube_split.

Example C10_no_extra_level : repetition_interval (-1) = (-1, 1).
Proof. reflexivity. Qed.

(* ---- MAIN: the periodic run end to end ---- *)
Theorem C10_periodic_exactly_once : forall d H B mode k t idx, (0 < d)%nat -> 2 <= H -> -1 <= k ->
  tree_ok (parent d) H B mode t -> particles_ok idx t -> Forall (fun i => 0 <= i < 2 ^ ((H - 1) * dz d)) idx -> idx <> [] ->
  let st := prun d k (H - 1) (periodic_run d k 1 t) pst0 in
  let (lo, hi) := repetition_interval k in
  forall p q sigma, 0 <= p < zlen idx ->
    count_occ ival_eq_dec (p_rhs st p) (q, sigma)
    = if (0 <=? q) && (q <? zlen idx) && (Nat.eqb (length sigma) d) && forallb (fun x => (lo <=? x) && (x <=? hi)) sigma
         && negb ((q =? p) && forallb (Z.eqb 0) sigma) then 1%nat else 0%nat.
Proof. exact periodic_exactly_once. Qed.
Print Assumptions C10_periodic_exactly_once.

(* ... in particular for the tree the constructor builds from any particle set *)
Theorem C10_periodic_exactly_once_build : forall d H B mode k idx, (0 < d)%nat -> 2 <= H -> 1 <= B -> -1 <= k ->
  idx <> [] -> Forall (fun i => 0 <= i < 2 ^ ((H - 1) * dz d)) idx ->
  let t := build (parent d) H B mode idx in
  let st := prun d k (H - 1) (periodic_run d k 1 t) pst0 in
  let (lo, hi) := repetition_interval k in
  forall p q sigma, 0 <= p < zlen idx ->
    count_occ ival_eq_dec (p_rhs st p) (q, sigma) = expected d (zlen idx) lo hi p q sigma.
Proof. exact periodic_exactly_once_build. Qed.
Print Assumptions C10_periodic_exactly_once_build.

(* non-vacuity: d = 2, H = 3, k = 1, five particles: particle 0 holds 5 * 12^2 - 1 = 719 contributions *)
Example C10_periodic_nonvacuous :
  let idx := [0; 5; 5; 15; 9] in
  let t := build (parent 2) 3 2 false idx in
  length (p_rhs (prun 2 1 2 (periodic_run 2 1 1 t) pst0) 0) = 719%nat.
Proof. vm_compute. reflexivity. Qed.

(* the image shift of the theorem is the executable [image_shift] that is compared with TbfPeriodicShifter at run time *)
Theorem C10_image_shift_is_img_shift : forall d l t o, image_shift d l t o = img_shift d l t o.
Proof. reflexivity. Qed.
Print Assumptions C10_image_shift_is_img_shift.

(* ---- the target/source periodic sequence (TbfAlgorithmTsm + TbfAlgorithmPeriodicTopTreeTsm) ---- *)
Theorem C10_periodic_tsm_exactly_once : forall d H B mode k src tgt idxs idxt, (0 < d)%nat -> 2 <= H -> -1 <= k ->
  tree_ok (parent d) H B mode src -> tree_ok (parent d) H B mode tgt -> particles_ok idxs src -> particles_ok idxt tgt ->
  Forall (fun i => 0 <= i < 2 ^ ((H - 1) * dz d)) idxs -> Forall (fun i => 0 <= i < 2 ^ ((H - 1) * dz d)) idxt -> idxs <> [] -> idxt <> [] ->
  let st := prun_tsm d k (H - 1) (periodic_run_tsm d k 1 src tgt) pst0 in
  let (lo, hi) := repetition_interval k in
  forall p q sigma, 0 <= p < zlen idxt ->
    count_occ ival_eq_dec (p_rhs st p) (q, sigma)
    = if (0 <=? q) && (q <? zlen idxs) && (Nat.eqb (length sigma) d) && forallb (fun x => (lo <=? x) && (x <=? hi)) sigma then 1%nat else 0%nat.
Proof. exact periodic_tsm_exactly_once. Qed.
Print Assumptions C10_periodic_tsm_exactly_once.
