(* C10 property theorems (statements closed by [exact]); filled as the proofs land. *)
From Tbfmm Require Import Base.Prelude Index.MortonDefs Tree.GroupDefs Tree.BuildDefs Exec.ExecDefs Exec.ExecPeriodicDefs.
Local Open Scope Z_scope.

Example C10_example : map repetition_interval [-1; 0; 1; 2; 3] = [(-1, 1); (-3, 3); (-6, 5); (-12, 11); (-24, 23)]
                   /\ map nb_repetitions [-1; 0; 1; 2; 3; 4] = [3; 7; 12; 24; 48; 96].
Proof. vm_compute. split; reflexivity. Qed.
Print Assumptions C10_example.
