(* C03 property theorems (statements closed by [exact]); filled as the proofs land. *)
From Tbfmm Require Import Base.Prelude Index.MortonDefs Tree.GroupDefs Tree.BuildDefs Exec.ExecDefs.
Local Open Scope Z_scope.

Example C03_example : has 63 F_P2P = true /\ has 6 F_P2P = false.
Proof. vm_compute. split; reflexivity. Qed.
Print Assumptions C03_example.
