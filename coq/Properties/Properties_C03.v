(* C03 — task-parallel executors equal the sequential one under every legal schedule.
   Part 1 (this file, regenerated input): the task submission sites read from the source on every run
   (Gen/OmpTasksGen.v, written by tools/translate_omp.py) satisfy the descriptor check: every buffer a wrapper writes is
   declared with a write mode, every buffer it reads is declared, and every identifier a task body refers to is copied at task
   creation (or is a member reached through the method's own `this`, outside any lambda).
   Part 2 (appended below as the proofs land): determinism of legal schedules for the task model. *)
From Tbfmm Require Import Base.Prelude Gen.OmpTasksGen Gen.SpecxTasksGen Gen.StarpuTasksGen Sched.TaskDefs.
From Coq Require Import List String.
Import ListNotations.

(* all 8 + 6 submission sites of the two OpenMP executors are present and pass the check *)
Theorem C03_descriptors_ok : forallb site_ok omp_sites = true /\ List.length omp_sites = 14%nat.
Proof. vm_compute. split; reflexivity. Qed.
Print Assumptions C03_descriptors_ok.

(* the same check on the 8 + 6 `runtime.task(...)` submissions of the two Specx executors (Gen/SpecxTasksGen.v, written by
   tools/translate_specx.py): declared SpRead / SpCommutativeWrite accesses cover what the wrapper reads / writes; the callable
   owns (by-value capture) or references tree objects only, and reaches members through a captured `this` *)
Theorem C03_specx_descriptors_ok : forallb site_ok specx_sites = true /\ List.length specx_sites = 14%nat.
Proof. vm_compute. split; reflexivity. Qed.
Print Assumptions C03_specx_descriptors_ok.

Example C03_specx_byref_local_rejected :
  site_ok {| s_exec := "specx"; s_fn := "M2M"; s_in_lambda := false; s_default_shared := false;
             s_deps := [(MIn, KMult, "lowerGroup"); (MCommute, KMult, "upperGroup")];
             s_firstprivate := ["upperGroup"; "lowerGroup"];          (* idxLevel captured by reference: not owned *)
             s_wrappers := [("M2M", ["lowerGroup"; "upperGroup"])];
             s_refs := ["idxLevel"; "kernelWrapper"; "kernels"; "lowerGroup"; "upperGroup"] |}%string = false.
Proof. vm_compute. reflexivity. Qed.

(* the 8 + 6 starpu_insert_task sites (Gen/StarpuTasksGen.v, written by tools/translate_starpu.py): buffer i of the insertion
   is declared with a mode that covers what the callback's wrapper does to the group view built from it; the modes at the
   insertion equal the codelet's modes, the number of handles equals nbuffers and the number of buffers the callback reads;
   as many STARPU_VALUE arguments are packed as the callback unpacks; the argument list is 0-terminated *)
Definition gmode_eqb (a b : gmode) : bool :=
  match a, b with MIn, MIn | MOut, MOut | MInout, MInout | MCommute, MCommute => true | _, _ => false end.
Definition starpu_meta_ok (sm : site * starpu_meta) : bool :=
  let '(s, m) := sm in
  list_eqb gmode_eqb (map (fun x => fst (fst x)) (s_deps s)) (sm_modes m)
  && Nat.eqb (List.length (s_deps s)) (sm_nbuffers m) && Nat.eqb (sm_cb_buffers m) (sm_nbuffers m)
  && Nat.eqb (sm_packed m) (sm_unpacked m) && sm_terminated m.
Theorem C03_starpu_descriptors_ok :
  forallb site_ok starpu_sites = true /\ forallb starpu_meta_ok (combine starpu_sites starpu_metas) = true
  /\ List.length starpu_sites = 14%nat /\ List.length starpu_metas = 14%nat.
Proof. vm_compute. repeat split; reflexivity. Qed.
Print Assumptions C03_starpu_descriptors_ok.

(* the three runtimes are given the SAME access declarations: site by site (same order, same pass, same wrapper functions) the
   multiset of (mode, buffer kind) pairs declared to OpenMP (depend clauses), Specx (SpRead / SpCommutativeWrite) and StarPU (handle
   modes) coincide, StarPU's additional read-only symbolic-data handles apart - so the task model of Part 2 (Sched/OmpDefs.v), whose
   equality with the sequential executor is proved for every legal schedule, is also the model of the Specx and StarPU executors *)
Definition kind_code (k : gkind) : nat := match k with KData => 0 | KRhs => 1 | KMult => 2 | KLoc => 3 | KUnknown => 4 end.
Definition mode_code (m : gmode) : nat := match m with MIn => 0 | MOut => 1 | MInout => 2 | MCommute => 3 | MOther => 4 end.
Fixpoint ins_sorted (x : nat) (l : list nat) : list nat :=
  match l with [] => [x] | y :: r => if Nat.leb x y then x :: l else y :: ins_sorted x r end.
Definition access_signature (s : site) : string * list string * list nat :=
  (s_fn s, map fst (s_wrappers s),
   fold_right ins_sorted [] (flat_map (fun d => match snd (fst d) with KUnknown => [] | k => [5 * mode_code (fst (fst d)) + kind_code k] end) (s_deps s))).
Definition sig_eqb (a b : string * list string * list nat) : bool :=
  String.eqb (fst (fst a)) (fst (fst b)) && list_eqb String.eqb (snd (fst a)) (snd (fst b)) && list_eqb Nat.eqb (snd a) (snd b).
Theorem C03_same_declarations_in_all_runtimes :
  list_eqb sig_eqb (map access_signature specx_sites) (map access_signature omp_sites) = true /\
  list_eqb sig_eqb (map access_signature starpu_sites) (map access_signature omp_sites) = true /\
  forallb (fun s => forallb (fun d => match snd (fst d), fst (fst d) with KUnknown, MIn => true | KUnknown, _ => false | _, _ => true end) (s_deps s)) starpu_sites = true.
Proof. vm_compute. repeat split; reflexivity. Qed.
Print Assumptions C03_same_declarations_in_all_runtimes.

(* execute() submits the passes in this order (near field before L2P), in both executors *)
Theorem C03_execute_order :
  map snd omp_execute_order = ["P2M"; "M2M"; "M2L"; "L2L"; "P2P"; "L2P"]%string /\ omptsm_execute_order = omp_execute_order.
Proof. vm_compute. split; reflexivity. Qed.
Print Assumptions C03_execute_order.

(* the check is not vacuous: the descriptors of the pinned commit (level captured by reference in M2M; members reached through
   the closure in the lambda sites) are rejected *)
Example C03_pinned_M2M_rejected :
  site_ok {| s_exec := "omp"; s_fn := "M2M"; s_in_lambda := false; s_default_shared := true;
             s_deps := [(MIn, KMult, "lowerGroup"); (MCommute, KMult, "upperGroup")];
             s_firstprivate := ["upperGroup"; "lowerGroup"; "kernelsPtr"];
             s_wrappers := [("M2M", ["lowerGroup"; "upperGroup"])];
             s_refs := ["idxLevel"; "kernelWrapper"; "kernelsPtr"; "lowerGroup"; "upperGroup"] |}%string = false.
Proof. vm_compute. reflexivity. Qed.
Example C03_pinned_lambda_rejected :
  site_ok {| s_exec := "omp"; s_fn := "M2L"; s_in_lambda := true; s_default_shared := true;
             s_deps := [(MIn, KMult, "groupSrcPtr"); (MCommute, KLoc, "groupTargetPtr")];
             s_firstprivate := ["idxLevel"; "indexesVec"; "groupSrcPtr"; "groupTargetPtr"; "kernelsPtr"];
             s_wrappers := [("M2LBetweenGroups", ["groupTargetPtr"; "groupSrcPtr"])];
             s_refs := ["groupSrcPtr"; "groupTargetPtr"; "idxLevel"; "indexesVec"; "kernelWrapper"; "kernelsPtr"] |}%string = false.
Proof. vm_compute. reflexivity. Qed.
Example C03_missing_dependency_rejected :
  site_ok {| s_exec := "omp"; s_fn := "L2P"; s_in_lambda := false; s_default_shared := true;
             s_deps := [(MIn, KData, "particleGroupObj"); (MCommute, KRhs, "particleGroupObj")];
             s_firstprivate := ["leafGroupObj"; "particleGroupObj"; "kernelsPtr"];
             s_wrappers := [("L2P", ["leafGroupObj"; "particleGroupObj"])];
             s_refs := ["kernelWrapper"; "kernelsPtr"; "leafGroupObj"; "particleGroupObj"] |}%string = false.
Proof. vm_compute. reflexivity. Qed.

(* ---------------- Part 2: every legal schedule of the task executor equals the sequential executor ---------------- *)
From Tbfmm Require Import Index.MortonDefs Index.ListsDefs Index.ListsCapacity Tree.GroupDefs Tree.BuildDefs Tree.Invariant
     Exec.ExecDefs Spec.Kernel Spec.Flags Spec.ExactlyOnce Sched.OmpDefs Sched.Determinism Sched.OmpProofs.
Local Open Scope Z_scope.

(* generic: for ANY list of tasks whose bodies touch only what they declared, every linear extension of the declared-conflict
   order (any interleaving a conforming runtime may choose, any worker assignment) computes the state of the submission order *)
Theorem C03_determinism : forall L ts sigma s, Forall (task_wf L) ts -> legal ts sigma ->
  st_eq (run_schedule L ts sigma s) (run_schedule L ts (seq 0 (List.length ts)) s).
Proof. exact determinism. Qed.
Print Assumptions C03_determinism.

(* also when the runtime treats `commute` as mutexinoutset (OpenMP >= 5.0) and may swap two writers of the same buffer that do
   not read each other's output: additive kernels commute *)
Theorem C03_determinism_commute : forall L ts sigma s, Forall (task_wf L) ts -> legal_commute L ts sigma ->
  st_eq (run_schedule L ts sigma s) (run_schedule L ts (seq 0 (List.length ts)) s).
Proof. exact determinism_commute. Qed.
Print Assumptions C03_determinism_commute.

(* the tasks submitted by the OpenMP executor model touch only the group buffers they declare (tree invariant => task_wf) *)
Theorem C03_omp_tasks_wf : forall d per H B mode stop flags t idx, (0 < d)%nat -> 1 <= H -> tree_ok (parent d) H B mode t -> particles_ok idx t ->
  Forall (task_wf (H - 1)) (omp_tasks d per stop flags t).
Proof. exact omp_tasks_wf. Qed.
Print Assumptions C03_omp_tasks_wf.

(* their bodies perform exactly the sequential executor's calls (the near field being submitted before L2P) *)
Theorem C03_omp_submission_equals_seq : forall d per L stop t,
  st_eq (run L (flat_map tk_calls (omp_tasks d per stop 63 t)) st0) (run L (execute d per stop 63 t) st0).
Proof. exact omp_submission_equals_seq. Qed.
Print Assumptions C03_omp_submission_equals_seq.

Lemma st_eq_trans : forall a b c, st_eq a b -> st_eq b c -> st_eq a c.
Proof.
  intros a b c [H1 [H2 H3]] [K1 [K2 K3]]. repeat split; intros.
  - rewrite H1. apply K1.
  - rewrite H2. apply K2.
  - rewrite H3. apply K3.
Qed.

(* MAIN: under every legal schedule the task executor leaves every cell and every particle with the sequential values *)
Theorem C03_omp_equals_seq : forall d per H B mode stop t idx sigma, (0 < d)%nat -> 1 <= H ->
  tree_ok (parent d) H B mode t -> particles_ok idx t ->
  legal (omp_tasks d per stop 63 t) sigma ->
  st_eq (run_schedule (H - 1) (omp_tasks d per stop 63 t) sigma st0) (run (H - 1) (execute d per stop 63 t) st0).
Proof.
  intros d per H B mode stop t idx sigma Hd HH Hok Hp Hl.
  eapply st_eq_trans.
  - apply determinism; [ exact (omp_tasks_wf d per H B mode stop 63 t idx Hd HH Hok Hp) | exact Hl ].
  - rewrite run_submission_order. apply omp_submission_equals_seq.
Qed.
Print Assumptions C03_omp_equals_seq.

(* hence exactly-once under every legal schedule (non-periodic, upper level <= 2) *)
Theorem C03_omp_exactly_once : forall d H B mode s t idx sigma, (0 < d)%nat -> 1 <= H ->
  tree_ok (parent d) H B mode t -> particles_ok idx t ->
  Forall (fun i => 0 <= i < 2 ^ ((H - 1) * dz d)) idx -> idx <> [] -> s <= 2 ->
  legal (omp_tasks d false s 63 t) sigma ->
  forall p q, 0 <= p < zlen idx -> 0 <= q < zlen idx ->
    reached (run_schedule (H - 1) (omp_tasks d false s 63 t) sigma st0) p q = (if p =? q then 0%nat else 1%nat).
Proof.
  intros d H B mode s t idx sigma Hd HH Hok Hp Hr Hne Hs Hl p q Hpp Hq.
  pose proof (C03_omp_equals_seq d false H B mode s t idx sigma Hd HH Hok Hp Hl) as [_ [_ E]].
  unfold reached. rewrite E.
  pose proof (fun l t Hl Ht => ilist_cell_capacity d false l t Hd Hl Ht) as Hcap.
  exact (fmm_exactly_once d Hd Hcap H B mode s t idx HH Hok Hp Hr Hne Hs p q Hpp Hq).
Qed.
Print Assumptions C03_omp_exactly_once.

(* ---- the target/source OpenMP executor (TbfOpenmpAlgorithmTsm): task model Sched/OmpTsmDefs.v, proofs Sched/OmpTsmProofs.v ---- *)
From Tbfmm Require Import Exec.ExecTsmDefs Sched.OmpTsmDefs Sched.OmpTsmProofs.

Theorem C03_omp_tsm_tasks_wf : forall d per H Bs Bt ms mt stop flags src tgt idxs idxt,
  (0 < d)%nat -> 1 <= H -> tree_ok (parent d) H Bs ms src -> tree_ok (parent d) H Bt mt tgt ->
  particles_ok idxs src -> particles_ok idxt tgt ->
  Forall (task_wf (H - 1)) (omp_tsm_tasks d per stop flags src tgt).
Proof. exact omp_tsm_tasks_wf. Qed.
Print Assumptions C03_omp_tsm_tasks_wf.

(* MAIN for the target/source executor: every legal schedule leaves the state of the sequential target/source executor *)
Theorem C03_omp_tsm_equals_seq : forall d per H Bs Bt ms mt stop src tgt idxs idxt sigma,
  (0 < d)%nat -> 1 <= H -> tree_ok (parent d) H Bs ms src -> tree_ok (parent d) H Bt mt tgt ->
  particles_ok idxs src -> particles_ok idxt tgt ->
  legal (omp_tsm_tasks d per stop 63 src tgt) sigma ->
  st_eq (run_schedule (H - 1) (omp_tsm_tasks d per stop 63 src tgt) sigma st0)
        (run (H - 1) (execute_tsm d per stop 63 src tgt) st0).
Proof. exact omp_tsm_equals_seq. Qed.
Print Assumptions C03_omp_tsm_equals_seq.

(* hence every target receives every source exactly once under every legal schedule *)
Theorem C03_omp_tsm_exactly_once : forall d H B mode s src tgt idxs idxt sigma, (0 < d)%nat -> 1 <= H ->
  tree_ok (parent d) H B mode src -> tree_ok (parent d) H B mode tgt -> particles_ok idxs src -> particles_ok idxt tgt ->
  Forall (fun i => 0 <= i < 2 ^ ((H - 1) * dz d)) idxs -> Forall (fun i => 0 <= i < 2 ^ ((H - 1) * dz d)) idxt ->
  idxs <> [] -> idxt <> [] -> s <= 2 ->
  legal (omp_tsm_tasks d false s 63 src tgt) sigma ->
  forall p q, 0 <= p < zlen idxt -> 0 <= q < zlen idxs ->
    reached (run_schedule (H - 1) (omp_tsm_tasks d false s 63 src tgt) sigma st0) p q = 1%nat.
Proof. exact omp_tsm_exactly_once. Qed.
Print Assumptions C03_omp_tsm_exactly_once.
