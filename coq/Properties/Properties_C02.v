(* C02 — every operator call receives geometrically consistent arguments.
   Statements only; proofs in Spec/Corollaries.v. *)
From Tbfmm Require Import Base.Prelude Index.MortonDefs Index.ListsDefs Index.ListsSpec Tree.GroupDefs Tree.BuildDefs
     Tree.Invariant Exec.ExecDefs Spec.Elem Spec.Corollaries.
Local Open Scope Z_scope.

(* every call of every execute(flags), on any well-formed tree, periodic lists or not:
   - leaf operators receive exactly the particles of an occupied leaf (non-empty);
   - upward/downward translations receive 1..2^d pairwise distinct children of the given parent, all existing at level l+1,
     each with the position code child_code = its octant (see C11_child_code_octant), the parent existing at level l;
   - transfers receive 1..6^d-3^d sources existing at the level, each a member of the target's interaction list
     (so its code decodes to the true relative offset, well separated, parents adjacent: C02_ilist_geometry);
   - direct interactions receive two occupied leaves with their particle sets, the source being the neighbour designated by the
     code (C02_nlist_geometry);  no internal assertion fires and no call has an empty source list *)
Theorem C02_args_consistent : forall d per H B mode s flags t idx, (0 < d)%nat -> 1 <= H ->
  tree_ok (parent d) H B mode t -> particles_ok idx t ->
  Forall (fun i => 0 <= i < 2 ^ ((H - 1) * dz d)) idx -> idx <> [] ->
  Forall (call_ok d per H t) (execute d per s flags t).
Proof. exact args_consistent. Qed.
Print Assumptions C02_args_consistent.

Theorem C02_ilist_geometry : forall d per l tg src code,
  In (src, code) (ilist_spec d per l tg) ->
  exists o, let u := map2 Z.add (unbox d tg) o in
    length o = d /\ Forall (fun x => -3 <= x <= 3) o /\ code = enc7 o /\ dec7 d code = o /\
    too_close o = false /\ parents_adjacent (unbox d tg) u = true /\
    src = box d (if per then wrap l u else u) /\ (per = false -> in_grid l u = true) /\ ilist_active per l = true.
Proof. exact ilist_spec_geometry. Qed.
Print Assumptions C02_ilist_geometry.

Example C02_example :
  let t := build (parent 3) 4 3 false [5;5;63;0;9;12;9;300;301;511] in
  existsb (fun c => match c with CM2L 2 _ (_ :: _) => true | _ => false end) (execute 3 false 2 63 t) = true.
Proof. vm_compute. reflexivity. Qed.

(* ---- target/source executor and the periodic top tree (Spec/ArgsTsm.v) ---- *)
From Tbfmm Require Import Exec.ExecTsmDefs Exec.ExecPeriodicDefs Spec.ArgsTsm.

(* leaf operators and upward translations get SOURCE leaves / cells, downward ones TARGET cells; every transfer source is an
   existing source cell at the stated level listed (with that code) in the target cell's specification list; the one-sided
   direct interaction gets an existing source leaf that is the target leaf itself (centre code) or one of its full neighbour
   list; nothing is ever empty *)
Theorem C02_tsm_args_consistent : forall d per H Bs Bt ms mt s flags src tgt idxs idxt, (0 < d)%nat -> 1 <= H ->
  tree_ok (parent d) H Bs ms src -> tree_ok (parent d) H Bt mt tgt -> particles_ok idxs src -> particles_ok idxt tgt ->
  Forall (fun i => 0 <= i < 2 ^ ((H - 1) * dz d)) idxs -> Forall (fun i => 0 <= i < 2 ^ ((H - 1) * dz d)) idxt ->
  Forall (call_ok_tsm d per H src tgt) (execute_tsm d per s flags src tgt).
Proof. exact tsm_args_consistent. Qed.
Print Assumptions C02_tsm_args_consistent.

(* the top tree: the base calls hand over exactly the level-1 cells with their true child codes; every upward call all 2^d
   children; every transfer call distinct codes of offsets in [-3,3]^d that are not adjacent, in the exact number of the
   window; downward calls child 0 *)
Theorem C02_top_args_consistent : forall d k flags t, (0 < d)%nat -> 0 <= k -> Forall (top_call_ok d k t) (top_execute d k flags t).
Proof. exact top_args_consistent. Qed.
Print Assumptions C02_top_args_consistent.

Theorem C02_top_args_consistent_tsm : forall d k flags src tgt, (0 < d)%nat -> 0 <= k ->
  Forall (top_call_ok_tsm d k src tgt) (top_execute_tsm d k flags src tgt).
Proof. exact top_args_consistent_tsm. Qed.
Print Assumptions C02_top_args_consistent_tsm.
