(* C01 — every pair of distinct particles interacts exactly once.
   Statements only; each closed by [exact]/[apply] of lemmas of Spec/ExactlyOnce.v, Exec/Refine*.v, Index/ListsCapacity.v. *)
From Tbfmm Require Import Base.Prelude Index.MortonDefs Index.ListsDefs Index.ListsCapacity Tree.GroupDefs Tree.BuildDefs
     Tree.Invariant Exec.ExecDefs Spec.Elem Spec.Kernel Spec.Geometry Spec.ExactlyOnce Exec.RefineM2M Exec.RefineM2L.
From Coq Require Import Sorting.Permutation Sorting.Sorted.
Local Open Scope Z_scope.

Lemma cap : forall d, (0 < d)%nat -> forall l t, 0 <= l -> 0 <= t < 2 ^ (l * dz d) -> zlen (ilist_cell d false l t) <= nb_interactions d.
Proof. intros d Hd l t Hl Ht. exact (ilist_cell_capacity d false l t Hd Hl Ht). Qed.

(* MAIN (any well-formed tree): with the free additive kernel, after one complete execution of the group-level executor
   model on ANY tree satisfying the tree invariant (any block size, either grouping mode, any occupancy, any dimension d >= 1,
   any height H >= 1, upper working level s <= 2), the weight of particle q has reached particle p exactly once if p <> q and
   never if p = q. *)
Theorem C01_exactly_once : forall d H B mode s t idx, (0 < d)%nat ->
  1 <= H -> tree_ok (parent d) H B mode t -> particles_ok idx t ->
  Forall (fun i => 0 <= i < 2 ^ ((H - 1) * dz d)) idx -> idx <> [] -> s <= 2 ->
  let st := run (H - 1) (execute d false s 63 t) st0 in
  forall p q, 0 <= p < zlen idx -> 0 <= q < zlen idx -> reached st p q = (if p =? q then 0%nat else 1%nat).
Proof. intros d H B mode s t idx Hd. exact (fmm_exactly_once d Hd (cap d Hd) H B mode s t idx). Qed.
Print Assumptions C01_exactly_once.

(* the same for the tree the constructor model builds from any particle set, together with: no internal assertion of the
   executor (sizes of the stack arrays, found-parent / found-child / found-source checks, cursor consistency) can fire *)
Theorem C01_exactly_once_build : forall d H B mode s idx, (0 < d)%nat ->
  1 <= H -> 1 <= B -> idx <> [] -> Forall (fun i => 0 <= i < 2 ^ ((H - 1) * dz d)) idx -> s <= 2 ->
  let t := build (parent d) H B mode idx in
  no_assert (execute d false s 63 t) /\
  forall p q, 0 <= p < zlen idx -> 0 <= q < zlen idx ->
    reached (run (H - 1) (execute d false s 63 t) st0) p q = (if p =? q then 0%nat else 1%nat).
Proof. intros d H B mode s idx Hd. exact (fmm_exactly_once_build d H B mode s idx Hd (cap d Hd)). Qed.
Print Assumptions C01_exactly_once_build.

(* cell equation (upward): at and below the upper working level every multipole holds exactly the particles of its cell *)
Theorem C01_multipoles : forall d H B mode s t idx l c, (0 < d)%nat ->
  1 <= H -> tree_ok (parent d) H B mode t -> particles_ok idx t ->
  Forall (fun i => 0 <= i < 2 ^ ((H - 1) * dz d)) idx -> idx <> [] ->
  let st := run (H - 1) (execute d false s 63 t) st0 in
  Z.max 0 s <= l < H -> In c (level_cells (levels_of t l)) ->
  forall q, count_occ Z.eq_dec (s_mult st l c) q =
            (if existsb (fun lf => (anc d (H - 1) l (lf_index lf) =? c) && zmem q (lf_parts lf)) (all_leaves t) then 1%nat else 0%nat).
Proof. intros d H B mode s t idx l c Hd. exact (fmm_multipoles d Hd (cap d Hd) H B mode s t idx l c). Qed.
Print Assumptions C01_multipoles.

(* no assertion can fire for any flags / any upper level *)
Theorem C01_no_assert : forall d H B mode s flags t idx, (0 < d)%nat ->
  1 <= H -> tree_ok (parent d) H B mode t -> particles_ok idx t ->
  Forall (fun i => 0 <= i < 2 ^ ((H - 1) * dz d)) idx -> idx <> [] ->
  no_assert (execute d false s flags t).
Proof. intros d H B mode s flags t idx Hd. exact (execute_no_assert d Hd (cap d Hd) H B mode s flags t idx). Qed.
Print Assumptions C01_no_assert.

(* the refinement lemmas the composition rests on (whatever the grouping): *)
(* R1+R2: the two-cursor level driver + sibling wrapper emit every child->parent link exactly once *)
Theorem C01_staircase_m2m : forall d l lowers uppers, (0 < d)%nat ->
  level_ok lowers -> level_ok uppers -> Forall (fun c => 0 <= c) (level_cells lowers) ->
  level_cells uppers = parents_of (parent d) (level_cells lowers) ->
  let tr := staircase d (staircase_fuel lowers uppers) (CM2M l) lowers uppers in
  no_assert tr /\ Permutation (elementary tr) (spec_links d EM2M l (level_cells lowers)).
Proof. exact staircase_m2m_exact. Qed.
Print Assumptions C01_staircase_m2m.
(* R3+R4: list builder + index/group mapper + run-by-target wrappers emit every (target, existing list member) exactly once *)
Theorem C01_m2l_level : forall d per l groups, level_ok groups ->
  (forall t, In t (level_cells groups) -> zlen (ilist_cell d per l t) <= nb_interactions d) ->
  no_assert (m2l_level d per l groups) /\
  Permutation (elementary (m2l_level d per l groups)) (spec_m2l d per l (level_cells groups)).
Proof. exact m2l_level_exact. Qed.
Print Assumptions C01_m2l_level.
Theorem C01_p2p_groups : forall d per L pgs, Forall pgroup_ok pgs -> StronglySorted Z.lt (flat_map pg_indices pgs) ->
  no_assert (p2p_groups d per L pgs) /\
  Permutation (elementary (p2p_groups d per L pgs))
              (spec_p2p d per L (flat_map pg_leaves pgs) ++ spec_p2p_inner (flat_map pg_leaves pgs)).
Proof. exact p2p_groups_exact. Qed.
Print Assumptions C01_p2p_groups.
(* geometry: two leaves are either near (equal/adjacent) and never in far interaction, or far at exactly one level *)
Theorem C01_near_xor_far_once : forall d L s a b, (0 < d)%nat -> 0 <= L -> 0 <= s <= 2 ->
  0 <= a < 2 ^ (L * dz d) -> 0 <= b < 2 ^ (L * dz d) ->
  ((a = b \/ adjacent d L a b) /\ forall l, s <= l <= L -> ~ far_at d L l a b)
  \/ (~ (a = b \/ adjacent d L a b) /\ exists l, s <= l <= L /\ far_at d L l a b /\ forall l', s <= l' <= L -> far_at d L l' a b -> l' = l).
Proof. exact near_xor_far_once. Qed.
Print Assumptions C01_near_xor_far_once.

(* non-vacuity: a concrete 3-D tree of height 4 meets the hypotheses and the conclusion evaluates to true *)
Example C01_example :
  let idx := [5;5;63;0;9;12;9;300;301;511;448;449;64;65;100;200;201;77] in
  let t := build (parent 3) 4 3 false idx in
  tree_okb (parent 3) 4 3 false t = true /\
  forallb (fun p => forallb (fun q => Nat.eqb (reached (run 3 (execute 3 false 2 63 t) st0) p q) (if p =? q then 0%nat else 1%nat))
                            (zseq 18)) (zseq 18) = true.
Proof. vm_compute. split; reflexivity. Qed.
