(* Executable model of TbfInteractionCounter (src/kernels/counterkernels/tbfinteractioncounter.hpp:18-29, 53-136). *)
From Tbfmm Require Import Base.Prelude Exec.ExecDefs.
Local Open Scope Z_scope.

Record counters := { c_p2m : Z; c_m2m : Z; c_m2l : Z; c_l2l : Z; c_l2p : Z; c_p2p : Z; c_inner : Z }.

Definition counters0 : counters := {| c_p2m := 0; c_m2m := 0; c_m2l := 0; c_l2l := 0; c_l2p := 0; c_p2p := 0; c_inner := 0 |}.

(* the increment performed by the wrapper before forwarding the call unchanged to the wrapped kernel *)
Definition count_call (k : counters) (c : call) : counters :=
  match c with
  | CP2M _ _ => {| c_p2m := c_p2m k + 1; c_m2m := c_m2m k; c_m2l := c_m2l k; c_l2l := c_l2l k; c_l2p := c_l2p k; c_p2p := c_p2p k; c_inner := c_inner k |}
  | CM2M _ _ ch => {| c_p2m := c_p2m k; c_m2m := c_m2m k + zlen ch; c_m2l := c_m2l k; c_l2l := c_l2l k; c_l2p := c_l2p k; c_p2p := c_p2p k; c_inner := c_inner k |}
  | CM2L _ _ sr => {| c_p2m := c_p2m k; c_m2m := c_m2m k; c_m2l := c_m2l k + zlen sr; c_l2l := c_l2l k; c_l2p := c_l2p k; c_p2p := c_p2p k; c_inner := c_inner k |}
  | CL2L _ _ ch => {| c_p2m := c_p2m k; c_m2m := c_m2m k; c_m2l := c_m2l k; c_l2l := c_l2l k + zlen ch; c_l2p := c_l2p k; c_p2p := c_p2p k; c_inner := c_inner k |}
  | CL2P _ _ => {| c_p2m := c_p2m k; c_m2m := c_m2m k; c_m2l := c_m2l k; c_l2l := c_l2l k; c_l2p := c_l2p k + 1; c_p2p := c_p2p k; c_inner := c_inner k |}
  | CP2P _ _ _ sp tp | CP2PTsm _ _ _ sp tp =>
      {| c_p2m := c_p2m k; c_m2m := c_m2m k; c_m2l := c_m2l k; c_l2l := c_l2l k; c_l2p := c_l2p k; c_p2p := c_p2p k + zlen sp * zlen tp; c_inner := c_inner k |}
  | CP2PInner _ parts =>
      {| c_p2m := c_p2m k; c_m2m := c_m2m k; c_m2l := c_m2l k; c_l2l := c_l2l k; c_l2p := c_l2p k; c_p2p := c_p2p k;
         c_inner := c_inner k + (zlen parts * zlen parts - zlen parts) |}
  | CAssert _ => k
  end.

Definition count_trace (tr : list call) : counters := fold_left count_call tr counters0.

(* Counters::Reduce *)
Definition reduce (a b : counters) : counters :=
  {| c_p2m := c_p2m a + c_p2m b; c_m2m := c_m2m a + c_m2m b; c_m2l := c_m2l a + c_m2l b; c_l2l := c_l2l a + c_l2l b;
     c_l2p := c_l2p a + c_l2p b; c_p2p := c_p2p a + c_p2p b; c_inner := c_inner a + c_inner b |}.

(* merging per-worker copies as the examples do: fold from an empty Counters *)
Definition merge_counters (ks : list counters) : counters := fold_left reduce ks counters0.
