(* Executable model of the sequential target/source executor
   TbfAlgorithmTsm (src/algorithms/sequential/tbfalgorithmtsm.hpp): two trees; sources carry multipoles,
   targets carry locals and results. *)
From Tbfmm Require Import Base.Prelude Base.Search Index.MortonDefs Tree.GroupDefs Index.ListsDefs Tree.BuildDefs Exec.ExecDefs.
Local Open Scope Z_scope.

Section ExecTsm.
Variable d : nat.
Variable per : bool.

(* M2L: lists built on the TARGET groups without the self-inclusion test; (external ++ internal) mapped onto SOURCE groups *)
Definition tsm_pass_M2L (s : Z) (src tgt : tree) : list call :=
  flat_map (fun l =>
    let sgroups := levels_of src l in
    flat_map (fun g =>
      let '(internal, external) := ilist_block d per l false g in
      flat_map (fun gv => m2l_between d l g (fst gv) (snd gv))
               (map_indexes_and_blocks cg_first cg_last (external ++ internal) sgroups))
      (levels_of tgt l))
    (zrange s (height tgt - 1)).

(* P2P: full neighbour list (no upper-half filter, no self-inclusion test) + self list, mapped onto source particle groups *)
Definition tsm_pass_P2P (src tgt : tree) : list call :=
  flat_map (fun g =>
    let '(internal, external) := nlist_block d per (height tgt - 1) false false g in
    flat_map (fun gv => p2p_between CP2PTsm (fst gv) g (snd gv))
             (map_indexes_and_blocks pg_first pg_last (external ++ internal ++ self_block d g) (t_pgroups src)))
    (t_pgroups tgt).

Definition execute_tsm (stop : Z) (flags : Z) (src tgt : tree) : list call :=
  let s := Z.max 0 stop in
  (if has flags F_P2M then pass_P2M s src else [])
  ++ (if has flags F_M2M then pass_M2M d s src else [])
  ++ (if has flags F_M2L then tsm_pass_M2L s src tgt else [])
  ++ (if has flags F_L2L then pass_L2L d s tgt else [])
  ++ (if has flags F_L2P then pass_L2P s tgt else [])
  ++ (if has flags F_P2P then tsm_pass_P2P src tgt else []).

End ExecTsm.
