(* Property C18 "interaction counters report the true number of elementary interactions".
   Model: Exec/CounterDefs.v (TbfInteractionCounter).  Nothing here changes a definition of the model. *)
From Tbfmm Require Import Base.Prelude Index.MortonDefs Tree.GroupDefs Index.ListsDefs Tree.BuildDefs Tree.Invariant
  Exec.ExecDefs Exec.CounterDefs Spec.Elem Spec.Corollaries.
From Coq Require Import Sorting.Permutation ZifyBool Zify.
Local Open Scope Z_scope.

(* ------------------------------------------------------------------ *)
(* 0. counters as a commutative monoid                                 *)
(* ------------------------------------------------------------------ *)
Lemma counters_eq (a b : counters) :
  c_p2m a = c_p2m b -> c_m2m a = c_m2m b -> c_m2l a = c_m2l b -> c_l2l a = c_l2l b ->
  c_l2p a = c_l2p b -> c_p2p a = c_p2p b -> c_inner a = c_inner b -> a = b.
Proof.
  destruct a as [a1 a2 a3 a4 a5 a6 a7], b as [b1 b2 b3 b4 b5 b6 b7]. cbn [c_p2m c_m2m c_m2l c_l2l c_l2p c_p2p c_inner].
  intros -> -> -> -> -> -> ->. reflexivity.
Qed.

Ltac cfields := apply counters_eq; cbn [reduce counters0 c_p2m c_m2m c_m2l c_l2l c_l2p c_p2p c_inner]; lia.

Lemma reduce_0_l a : reduce counters0 a = a.
Proof. cfields. Qed.

Lemma reduce_0_r a : reduce a counters0 = a.
Proof. cfields. Qed.

Lemma reduce_comm a b : reduce a b = reduce b a.
Proof. cfields. Qed.

Lemma reduce_assoc a b c : reduce (reduce a b) c = reduce a (reduce b c).
Proof. cfields. Qed.

Lemma reduce_swap k a b : reduce (reduce k a) b = reduce (reduce k b) a.
Proof. cfields. Qed.

Lemma fold_reduce : forall ks k, fold_left reduce ks k = reduce k (merge_counters ks).
Proof.
  unfold merge_counters. induction ks as [|x ks IH]; intros k; cbn [fold_left].
  - rewrite reduce_0_r. reflexivity.
  - rewrite IH, (IH (reduce counters0 x)), reduce_0_l, reduce_assoc. reflexivity.
Qed.

Lemma merge_nil : merge_counters [] = counters0.
Proof. reflexivity. Qed.

Lemma merge_cons x ks : merge_counters (x :: ks) = reduce x (merge_counters ks).
Proof. unfold merge_counters at 1. cbn [fold_left]. rewrite fold_reduce, reduce_0_l. reflexivity. Qed.

Lemma merge_app a b : merge_counters (a ++ b) = reduce (merge_counters a) (merge_counters b).
Proof.
  induction a as [|x a IH]; cbn [app].
  - rewrite merge_nil, reduce_0_l. reflexivity.
  - rewrite !merge_cons, IH, reduce_assoc. reflexivity.
Qed.

(* a left fold that adds [f x] for every x *)
Lemma fold_add {A} (step : counters -> A -> counters) (f : A -> counters) :
  (forall k x, step k x = reduce k (f x)) ->
  forall l k, fold_left step l k = reduce k (merge_counters (map f l)).
Proof.
  intros Hs. induction l as [|x l IH]; intros k; cbn [fold_left map].
  - rewrite merge_nil, reduce_0_r. reflexivity.
  - rewrite IH, Hs, merge_cons, reduce_assoc. reflexivity.
Qed.

(* ------------------------------------------------------------------ *)
(* 1. counters only depend on the multiset of elementary interactions  *)
(* ------------------------------------------------------------------ *)
Definition count_elem (k : counters) (e : elem) : counters :=
  match e with
  | EP2M _ _ => {| c_p2m := c_p2m k + 1; c_m2m := c_m2m k; c_m2l := c_m2l k; c_l2l := c_l2l k; c_l2p := c_l2p k; c_p2p := c_p2p k; c_inner := c_inner k |}
  | EM2M _ _ _ _ => {| c_p2m := c_p2m k; c_m2m := c_m2m k + 1; c_m2l := c_m2l k; c_l2l := c_l2l k; c_l2p := c_l2p k; c_p2p := c_p2p k; c_inner := c_inner k |}
  | EM2L _ _ _ _ => {| c_p2m := c_p2m k; c_m2m := c_m2m k; c_m2l := c_m2l k + 1; c_l2l := c_l2l k; c_l2p := c_l2p k; c_p2p := c_p2p k; c_inner := c_inner k |}
  | EL2L _ _ _ _ => {| c_p2m := c_p2m k; c_m2m := c_m2m k; c_m2l := c_m2l k; c_l2l := c_l2l k + 1; c_l2p := c_l2p k; c_p2p := c_p2p k; c_inner := c_inner k |}
  | EL2P _ _ => {| c_p2m := c_p2m k; c_m2m := c_m2m k; c_m2l := c_m2l k; c_l2l := c_l2l k; c_l2p := c_l2p k + 1; c_p2p := c_p2p k; c_inner := c_inner k |}
  | EP2P _ _ _ sp tp | EP2PTsm _ _ _ sp tp =>
      {| c_p2m := c_p2m k; c_m2m := c_m2m k; c_m2l := c_m2l k; c_l2l := c_l2l k; c_l2p := c_l2p k; c_p2p := c_p2p k + zlen sp * zlen tp; c_inner := c_inner k |}
  | EP2PInner _ parts =>
      {| c_p2m := c_p2m k; c_m2m := c_m2m k; c_m2l := c_m2l k; c_l2l := c_l2l k; c_l2p := c_l2p k; c_p2p := c_p2p k;
         c_inner := c_inner k + (zlen parts * zlen parts - zlen parts) |}
  | EAssert _ => k
  end.

Definition count_elems (es : list elem) : counters := fold_left count_elem es counters0.

(* the contribution of one record / one call *)
Definition eval (e : elem) : counters := count_elem counters0 e.
Definition cval (c : call) : counters := count_call counters0 c.

Lemma count_elem_add k e : count_elem k e = reduce k (eval e).
Proof. destruct e; unfold eval; cbn [count_elem]; cfields. Qed.

Lemma count_call_add k c : count_call k c = reduce k (cval c).
Proof. destruct c; unfold cval; cbn [count_call]; cfields. Qed.

Lemma fold_count_elem es k : fold_left count_elem es k = reduce k (merge_counters (map eval es)).
Proof. apply fold_add. exact count_elem_add. Qed.

Lemma fold_count_call tr k : fold_left count_call tr k = reduce k (merge_counters (map cval tr)).
Proof. apply fold_add. exact count_call_add. Qed.

Lemma count_elems_merge es : count_elems es = merge_counters (map eval es).
Proof. unfold count_elems. rewrite fold_count_elem, reduce_0_l. reflexivity. Qed.

Lemma count_trace_merge tr : count_trace tr = merge_counters (map cval tr).
Proof. unfold count_trace. rewrite fold_count_call, reduce_0_l. reflexivity. Qed.

Lemma count_elems_app a b : count_elems (a ++ b) = reduce (count_elems a) (count_elems b).
Proof. rewrite !count_elems_merge, map_app, merge_app. reflexivity. Qed.

(* a batch of n unit records *)
Lemma count_batch {A} (E : A -> elem) (u : counters) :
  (forall x, eval (E x) = u) ->
  forall (l : list A) k, fold_left count_elem (map E l) k =
    {| c_p2m := c_p2m k + zlen l * c_p2m u; c_m2m := c_m2m k + zlen l * c_m2m u; c_m2l := c_m2l k + zlen l * c_m2l u;
       c_l2l := c_l2l k + zlen l * c_l2l u; c_l2p := c_l2p k + zlen l * c_l2p u; c_p2p := c_p2p k + zlen l * c_p2p u;
       c_inner := c_inner k + zlen l * c_inner u |}.
Proof.
  intros Hu. induction l as [|x l IH]; intros k; cbn [map fold_left].
  - unfold zlen. cbn [length]. cfields.
  - rewrite IH, count_elem_add, Hu. unfold zlen. cbn [length]. cfields.
Qed.

Lemma count_call_elems k c : count_call k c = fold_left count_elem (elems_of_call c) k.
Proof.
  destruct c; cbn [elems_of_call]; try reflexivity.
  - rewrite (count_batch (fun cc => EM2M lvl parent (fst cc) (snd cc)) (eval (EM2M 0 0 0 0))) by reflexivity.
    cbn [count_call]. unfold eval. cbn [count_elem]. cfields.
  - rewrite (count_batch (fun sc => EM2L lvl tgt (fst sc) (snd sc)) (eval (EM2L 0 0 0 0))) by reflexivity.
    cbn [count_call]. unfold eval. cbn [count_elem]. cfields.
  - rewrite (count_batch (fun cc => EL2L lvl parent (fst cc) (snd cc)) (eval (EL2L 0 0 0 0))) by reflexivity.
    cbn [count_call]. unfold eval. cbn [count_elem]. cfields.
Qed.

Lemma fold_trace_elementary : forall tr k, fold_left count_call tr k = fold_left count_elem (elementary tr) k.
Proof.
  induction tr as [|c tr IH]; intros k; [reflexivity|].
  change (elementary (c :: tr)) with (elems_of_call c ++ elementary tr).
  rewrite fold_left_app. cbn [fold_left]. rewrite IH, count_call_elems. reflexivity.
Qed.

Theorem count_trace_elementary : forall tr, count_trace tr = count_elems (elementary tr).
Proof. intros tr. apply fold_trace_elementary. Qed.

(* merging in any order *)
Lemma fold_reduce_perm ks ks' : Permutation ks ks' -> forall k, fold_left reduce ks k = fold_left reduce ks' k.
Proof.
  induction 1 as [|x l l' _ IH|x y l|l l' l'' _ IH1 _ IH2]; intros k; cbn [fold_left].
  - reflexivity.
  - apply IH.
  - rewrite reduce_swap. reflexivity.
  - rewrite IH1. apply IH2.
Qed.

Theorem merge_any_order : forall ks ks', Permutation ks ks' -> merge_counters ks = merge_counters ks'.
Proof. intros ks ks' Hp. apply fold_reduce_perm. exact Hp. Qed.

Theorem count_elems_perm : forall e e', Permutation e e' -> count_elems e = count_elems e'.
Proof.
  intros e e' Hp. rewrite !count_elems_merge. apply merge_any_order. apply Permutation_map. exact Hp.
Qed.

Lemma count_trace_perm tr tr' : Permutation tr tr' -> count_trace tr = count_trace tr'.
Proof.
  intros Hp. rewrite !count_trace_merge. apply merge_any_order. apply Permutation_map. exact Hp.
Qed.

(* ------------------------------------------------------------------ *)
(* 2. merging per-worker copies                                        *)
(* ------------------------------------------------------------------ *)
Theorem count_trace_app : forall a b, count_trace (a ++ b) = reduce (count_trace a) (count_trace b).
Proof. intros a b. rewrite !count_trace_merge, map_app, merge_app. reflexivity. Qed.

Lemma count_trace_nil : count_trace [] = counters0.
Proof. reflexivity. Qed.

Theorem merge_partition : forall trs, merge_counters (map count_trace trs) = count_trace (concat trs).
Proof.
  induction trs as [|tr trs IH]; [reflexivity|].
  cbn [map concat]. rewrite merge_cons, count_trace_app, IH. reflexivity.
Qed.

Theorem merge_any_partition : forall trs tr, Permutation (concat trs) tr ->
  merge_counters (map count_trace trs) = count_trace tr.
Proof. intros trs tr Hp. rewrite merge_partition. apply count_trace_perm. exact Hp. Qed.

(* ------------------------------------------------------------------ *)
(* 3. the counters of a full run are those implied by the tree alone   *)
(* ------------------------------------------------------------------ *)
Theorem counts_spec : forall d per H B mode s t idx, (0 < d)%nat -> 1 <= H ->
  tree_ok (parent d) H B mode t -> particles_ok idx t ->
  Forall (fun i => 0 <= i < 2 ^ ((H - 1) * dz d)) idx -> idx <> [] ->
  count_trace (execute d per s 63 t) = count_elems (spec_all d per s H (leaf_table t)).
Proof.
  intros d per H B mode s t idx Hd HH Hok Hpart Hrange Hne.
  rewrite count_trace_elementary. apply count_elems_perm.
  exact (exec_refines_spec d per H B mode s t idx Hd HH Hok Hpart Hrange Hne).
Qed.

Theorem counts_grouping_independent : forall d per H B1 m1 B2 m2 s t1 t2 idx, (0 < d)%nat -> 1 <= H ->
  tree_ok (parent d) H B1 m1 t1 -> tree_ok (parent d) H B2 m2 t2 -> particles_ok idx t1 -> particles_ok idx t2 ->
  Forall (fun i => 0 <= i < 2 ^ ((H - 1) * dz d)) idx -> idx <> [] -> leaf_table t1 = leaf_table t2 ->
  count_trace (execute d per s 63 t1) = count_trace (execute d per s 63 t2).
Proof.
  intros d per H B1 m1 B2 m2 s t1 t2 idx Hd HH Hok1 Hok2 Hp1 Hp2 Hrange Hne E.
  rewrite (counts_spec d per H B1 m1 s t1 idx Hd HH Hok1 Hp1 Hrange Hne).
  rewrite (counts_spec d per H B2 m2 s t2 idx Hd HH Hok2 Hp2 Hrange Hne).
  rewrite E. reflexivity.
Qed.

(* ------------------------------------------------------------------ *)
(* 4. explicit values                                                  *)
(* ------------------------------------------------------------------ *)
(* additive observations of a counter record *)
Definition additive (f : counters -> Z) : Prop := f counters0 = 0 /\ forall a b, f (reduce a b) = f a + f b.

Lemma additive_p2m : additive c_p2m. Proof. split; reflexivity. Qed.
Lemma additive_m2m : additive c_m2m. Proof. split; reflexivity. Qed.
Lemma additive_m2l : additive c_m2l. Proof. split; reflexivity. Qed.
Lemma additive_l2l : additive c_l2l. Proof. split; reflexivity. Qed.
Lemma additive_l2p : additive c_l2p. Proof. split; reflexivity. Qed.
Lemma additive_p2p : additive c_p2p. Proof. split; reflexivity. Qed.
Lemma additive_inner : additive c_inner. Proof. split; reflexivity. Qed.

Lemma zsum_app a b : zsum (a ++ b) = zsum a + zsum b.
Proof. induction a as [|x a IH]; cbn [app zsum]; lia. Qed.

Lemma zsum_rev l : zsum (rev l) = zsum l.
Proof. induction l as [|x l IH]; cbn [rev zsum]; [reflexivity|]. rewrite zsum_app. cbn [zsum]. lia. Qed.

Lemma zsum_map_add {A} (a b : A -> Z) l : zsum (map (fun x => a x + b x) l) = zsum (map a l) + zsum (map b l).
Proof. induction l as [|x l IH]; cbn [map zsum]; lia. Qed.

Lemma zsum_map_zero {A} (g : A -> Z) l : (forall x, In x l -> g x = 0) -> zsum (map g l) = 0.
Proof.
  induction l as [|x l IH]; intros Hz; cbn [map zsum]; [reflexivity|].
  rewrite (Hz x (or_introl eq_refl)), IH; [reflexivity|]. intros y Hy. apply Hz. right. exact Hy.
Qed.

Lemma zsum_map_const {A} (g : A -> Z) v l : (forall x, In x l -> g x = v) -> zsum (map g l) = zlen l * v.
Proof.
  induction l as [|x l IH]; intros Hz; cbn [map zsum]; [reflexivity|].
  rewrite (Hz x (or_introl eq_refl)), IH; [unfold zlen; cbn [length]; lia|]. intros y Hy. apply Hz. right. exact Hy.
Qed.

Lemma zsum_flat_map {A B} (g : B -> Z) (F : A -> list B) l :
  zsum (map g (flat_map F l)) = zsum (map (fun a => zsum (map g (F a))) l).
Proof. induction l as [|a l IH]; cbn [flat_map map zsum]; [reflexivity|]. rewrite map_app, zsum_app, IH. reflexivity. Qed.

Lemma zlen_app {A} (a b : list A) : zlen (a ++ b) = zlen a + zlen b.
Proof. unfold zlen. rewrite app_length. lia. Qed.

Lemma zlen_map {A B} (f : A -> B) l : zlen (map f l) = zlen l.
Proof. unfold zlen. rewrite map_length. reflexivity. Qed.

Lemma zlen_flat_map {A B} (F : A -> list B) l : zlen (flat_map F l) = zsum (map (fun a => zlen (F a)) l).
Proof. induction l as [|a l IH]; cbn [flat_map map zsum]; [reflexivity|]. rewrite zlen_app, IH. reflexivity. Qed.

Lemma additive_merge f : additive f -> forall ks, f (merge_counters ks) = zsum (map f ks).
Proof.
  intros (H0 & Hadd). induction ks as [|k ks IH]; cbn [map zsum].
  - rewrite merge_nil. exact H0.
  - rewrite merge_cons, Hadd, IH. reflexivity.
Qed.

Lemma additive_elems f es : additive f -> f (count_elems es) = zsum (map (fun e => f (eval e)) es).
Proof. intros Hf. rewrite count_elems_merge, (additive_merge f Hf), map_map. reflexivity. Qed.

Lemma additive_trace_app f a b : additive f -> f (count_trace (a ++ b)) = f (count_trace a) + f (count_trace b).
Proof. intros (H0 & Hadd). rewrite count_trace_app. apply Hadd. Qed.

(* the kind of an elementary record *)
Definition tag (e : elem) : Z :=
  match e with
  | EP2M _ _ => 0 | EM2M _ _ _ _ => 1 | EM2L _ _ _ _ => 2 | EL2L _ _ _ _ => 3 | EL2P _ _ => 4
  | EP2P _ _ _ _ _ => 5 | EP2PTsm _ _ _ _ _ => 6 | EP2PInner _ _ => 7 | EAssert _ => 8
  end.

Definition inner_w (e : elem) : Z :=
  match e with EP2PInner _ parts => zlen parts * zlen parts - zlen parts | _ => 0 end.

Definition all_tag (n : Z) (es : list elem) : Prop := forall e, In e es -> tag e = n.

Lemma p2m_tag e : c_p2m (eval e) = if tag e =? 0 then 1 else 0. Proof. destruct e; reflexivity. Qed.
Lemma m2m_tag e : c_m2m (eval e) = if tag e =? 1 then 1 else 0. Proof. destruct e; reflexivity. Qed.
Lemma l2l_tag e : c_l2l (eval e) = if tag e =? 3 then 1 else 0. Proof. destruct e; reflexivity. Qed.
Lemma l2p_tag e : c_l2p (eval e) = if tag e =? 4 then 1 else 0. Proof. destruct e; reflexivity. Qed.
Lemma inner_tag e : c_inner (eval e) = inner_w e. Proof. destruct e; reflexivity. Qed.

(* number of records of kind m in a list whose records are all of kind n *)
Lemma unit_count (f : counters -> Z) m n es :
  (forall e, f (eval e) = if tag e =? m then 1 else 0) -> all_tag n es ->
  zsum (map (fun e => f (eval e)) es) = if n =? m then zlen es else 0.
Proof.
  intros Hf Hn. destruct (Z.eqb_spec n m) as [E|E].
  - rewrite (zsum_map_const _ 1); [lia|]. intros e He. rewrite Hf, (Hn e He), E, Z.eqb_refl. reflexivity.
  - apply zsum_map_zero. intros e He. rewrite Hf, (Hn e He). destruct (Z.eqb_spec n m); [contradiction|reflexivity].
Qed.

Lemma inner_zero n es : all_tag n es -> n <> 7 -> zsum (map (fun e => c_inner (eval e)) es) = 0.
Proof.
  intros Hn H7. apply zsum_map_zero. intros e He. rewrite inner_tag. specialize (Hn e He).
  destruct e; cbn [tag] in Hn; try reflexivity. congruence.
Qed.

(* the pieces of spec_all *)
Lemma all_tag_if n (b : bool) es : all_tag n es -> all_tag n (if b then es else []).
Proof. destruct b; [trivial|]. intros _ e []. Qed.

Lemma all_tag_map {A} n (E : A -> elem) l : (forall x, tag (E x) = n) -> all_tag n (map E l).
Proof. intros HE e He. apply in_map_iff in He. destruct He as (x & <- & _). apply HE. Qed.

Lemma all_tag_fm {A} n (F : A -> list elem) l : (forall a, all_tag n (F a)) -> all_tag n (flat_map F l).
Proof. intros HF e He. apply in_flat_map in He. destruct He as (a & _ & He). exact (HF a e He). Qed.

Lemma all_tag_m2l d per l cs : all_tag 2 (spec_m2l d per l cs).
Proof.
  unfold spec_m2l. apply all_tag_fm. intros t. apply all_tag_fm. intros sc e He.
  destruct (zmem (fst sc) cs); [|destruct He]. destruct He as [<-|[]]. reflexivity.
Qed.

Lemma all_tag_p2p d per L lvs : all_tag 5 (spec_p2p d per L lvs).
Proof. intros e He. apply spec_p2p_only in He. destruct He as (a & b & k & sp & tp & ->). reflexivity. Qed.

Lemma zlen_links d (mk : Z -> Z -> Z -> Z -> elem) (cl : Z -> list Z) ls :
  zlen (flat_map (fun l => spec_links d mk l (cl (l + 1))) ls) = zsum (map (fun l => zlen (cl (l + 1))) ls).
Proof. rewrite zlen_flat_map. f_equal. apply map_ext. intros l. unfold spec_links. apply zlen_map. Qed.

Lemma zlen_if {A} (b : bool) (l : list A) : zlen (if b then l else []) = if b then zlen l else 0.
Proof. destruct b; reflexivity. Qed.

Section Values.
Variables (d : nat) (per : bool) (s H : Z) (lt : list (Z * list Z)).

Notation s' := (Z.max 0 s).
Notation cl := (fun l => cells_from d (Z.to_nat (H - 1 - l)) (map fst lt)).
Notation q0 := (if s' <? H then map (fun ip => EP2M (fst ip) (snd ip)) lt else []).
Notation q1 := (flat_map (fun l => spec_links d EM2M l (cl (l + 1))) (rev (zrange s' (H - 2)))).
Notation q2 := (flat_map (fun l => spec_m2l d per l (cl l)) (zrange s' (H - 1))).
Notation q3 := (flat_map (fun l => spec_links d EL2L l (cl (l + 1))) (zrange s' (H - 2))).
Notation q4 := (if s' <? H then map (fun ip => EL2P (fst ip) (snd ip)) lt else []).
Notation q5 := (spec_p2p d per (H - 1) (map leaf_of lt)).
Notation q7 := (spec_p2p_inner (map leaf_of lt)).

Lemma spec_all_pieces : spec_all d per s H lt = q0 ++ q1 ++ q2 ++ q3 ++ q4 ++ (q5 ++ q7).
Proof. reflexivity. Qed.

Lemma t0 : all_tag 0 q0. Proof. apply all_tag_if, all_tag_map. reflexivity. Qed.
Lemma t1 : all_tag 1 q1. Proof. apply all_tag_fm. intros l. apply all_tag_map. reflexivity. Qed.
Lemma t2 : all_tag 2 q2. Proof. apply all_tag_fm. intros l. apply all_tag_m2l. Qed.
Lemma t3 : all_tag 3 q3. Proof. apply all_tag_fm. intros l. apply all_tag_map. reflexivity. Qed.
Lemma t4 : all_tag 4 q4. Proof. apply all_tag_if, all_tag_map. reflexivity. Qed.
Lemma t5 : all_tag 5 q5. Proof. apply all_tag_p2p. Qed.
Lemma t7 : all_tag 7 q7. Proof. apply all_tag_map. reflexivity. Qed.

(* a unit counter with tag m *)
Lemma unit_field (f : counters -> Z) m : additive f ->
  (forall e, f (eval e) = if tag e =? m then 1 else 0) ->
  f (count_elems (spec_all d per s H lt)) =
    (if 0 =? m then zlen q0 else 0) + (if 1 =? m then zlen q1 else 0) + (if 2 =? m then zlen q2 else 0)
    + (if 3 =? m then zlen q3 else 0) + (if 4 =? m then zlen q4 else 0) + (if 5 =? m then zlen q5 else 0)
    + (if 7 =? m then zlen q7 else 0).
Proof.
  intros Hf Hu. rewrite (additive_elems f _ Hf), spec_all_pieces.
  rewrite !map_app, !zsum_app.
  rewrite (unit_count f m 0 q0 Hu t0), (unit_count f m 1 q1 Hu t1), (unit_count f m 2 q2 Hu t2),
    (unit_count f m 3 q3 Hu t3), (unit_count f m 4 q4 Hu t4), (unit_count f m 5 q5 Hu t5), (unit_count f m 7 q7 Hu t7).
  lia.
Qed.

Lemma value_p2m : c_p2m (count_elems (spec_all d per s H lt)) = if s' <? H then zlen lt else 0.
Proof.
  rewrite (unit_field c_p2m 0 additive_p2m p2m_tag). cbn [Z.eqb Pos.eqb].
  rewrite zlen_if, zlen_map. lia.
Qed.

Lemma value_l2p : c_l2p (count_elems (spec_all d per s H lt)) = if s' <? H then zlen lt else 0.
Proof.
  rewrite (unit_field c_l2p 4 additive_l2p l2p_tag). cbn [Z.eqb Pos.eqb].
  rewrite zlen_if, zlen_map. lia.
Qed.

Lemma value_m2m : c_m2m (count_elems (spec_all d per s H lt)) =
  zsum (map (fun l => zlen (cl (l + 1))) (zrange s' (H - 2))).
Proof.
  rewrite (unit_field c_m2m 1 additive_m2m m2m_tag). cbn [Z.eqb Pos.eqb].
  rewrite (zlen_links d EM2M cl), map_rev, zsum_rev. lia.
Qed.

Lemma value_l2l : c_l2l (count_elems (spec_all d per s H lt)) =
  zsum (map (fun l => zlen (cl (l + 1))) (zrange s' (H - 2))).
Proof.
  rewrite (unit_field c_l2l 3 additive_l2l l2l_tag). cbn [Z.eqb Pos.eqb].
  rewrite (zlen_links d EL2L cl). lia.
Qed.

Lemma value_inner : c_inner (count_elems (spec_all d per s H lt)) =
  zsum (map (fun ip => zlen (snd ip) * zlen (snd ip) - zlen (snd ip)) lt).
Proof.
  rewrite (additive_elems c_inner _ additive_inner), spec_all_pieces.
  rewrite !map_app, !zsum_app.
  rewrite (inner_zero 0 q0 t0), (inner_zero 1 q1 t1), (inner_zero 2 q2 t2), (inner_zero 3 q3 t3),
    (inner_zero 4 q4 t4), (inner_zero 5 q5 t5) by discriminate.
  unfold spec_p2p_inner. rewrite !map_map. cbn [Z.add].
  f_equal.
Qed.

End Values.

Theorem counts_values : forall d per H B mode s t idx, (0 < d)%nat -> 1 <= H ->
  tree_ok (parent d) H B mode t -> particles_ok idx t ->
  Forall (fun i => 0 <= i < 2 ^ ((H - 1) * dz d)) idx -> idx <> [] ->
  let k := count_trace (execute d per s 63 t) in let s' := Z.max 0 s in
  c_p2m k = (if s' <? H then zlen (leaf_table t) else 0) /\ c_l2p k = c_p2m k /\ c_m2m k = c_l2l k /\
  c_m2m k = zsum (map (fun l => zlen (cells_from d (Z.to_nat (H - 1 - (l + 1))) (map fst (leaf_table t)))) (zrange s' (H - 2))) /\
  c_inner k = zsum (map (fun ip => zlen (snd ip) * zlen (snd ip) - zlen (snd ip)) (leaf_table t)).
Proof.
  intros d per H B mode s t idx Hd HH Hok Hpart Hrange Hne. cbv zeta.
  rewrite (counts_spec d per H B mode s t idx Hd HH Hok Hpart Hrange Hne).
  rewrite value_p2m, value_l2p, value_m2m, value_l2l, value_inner.
  repeat split; reflexivity.
Qed.

(* ------------------------------------------------------------------ *)
(* 5. operators split over several copies by flag masks                *)
(* ------------------------------------------------------------------ *)
Lemma uniq_sum (g : Z -> bool) (v : Z) : forall h,
  (exists! i, (i < length h)%nat /\ g (nth i h 0) = true) ->
  zsum (map (fun m => if g m then v else 0) h) = v.
Proof.
  induction h as [|m r IH]; intros (i & (Hi & Hg) & Hu).
  - cbn [length] in Hi. lia.
  - cbn [map zsum]. destruct (g m) eqn:Em.
    + rewrite zsum_map_zero; [lia|]. intros x Hx.
      destruct (g x) eqn:Ex; [|reflexivity]. exfalso.
      apply (In_nth r x 0) in Hx. destruct Hx as (j & Hj & Ej).
      assert (E0 : i = 0%nat) by (apply Hu; split; [cbn [length]; lia|exact Em]).
      assert (E1 : i = S j) by (apply Hu; split; [cbn [length]; lia|cbn [nth]; rewrite Ej; exact Ex]).
      lia.
    + destruct i as [|i']; [cbn [nth] in Hg; congruence|].
      rewrite IH; [lia|]. exists i'. split.
      * split; [cbn [length] in Hi; lia|exact Hg].
      * intros j (Hj & Hgj). assert (E : S i' = S j) by (apply Hu; split; [cbn [length]; lia|exact Hgj]). lia.
Qed.

Lemma additive_trace_if f (b : bool) tr : additive f ->
  f (count_trace (if b then tr else [])) = if b then f (count_trace tr) else 0.
Proof. intros (H0 & _). destruct b; [reflexivity|exact H0]. Qed.

Lemma split_field f d per s t masks : additive f ->
  (forall k, In k [1;2;4;8;16;32] -> exists! i, (i < length masks)%nat /\ has (nth i masks 0) k = true) ->
  zsum (map (fun m => f (count_trace (execute d per s m t))) masks) = f (count_trace (execute d per s 63 t)).
Proof.
  intros Hf Hm.
  assert (Hex : forall m, f (count_trace (execute d per s m t)) =
     (if has m F_P2M then f (count_trace (pass_P2M (Z.max 0 s) t)) else 0)
     + ((if has m F_M2M then f (count_trace (pass_M2M d (Z.max 0 s) t)) else 0)
     + ((if has m F_M2L then f (count_trace (pass_M2L d per (Z.max 0 s) t)) else 0)
     + ((if has m F_L2L then f (count_trace (pass_L2L d (Z.max 0 s) t)) else 0)
     + ((if has m F_L2P then f (count_trace (pass_L2P (Z.max 0 s) t)) else 0)
     + (if has m F_P2P then f (count_trace (pass_P2P d per t)) else 0)))))).
  { intros m. unfold execute. cbv zeta.
    rewrite !(additive_trace_app f _ _ Hf), !(additive_trace_if f _ _ Hf). reflexivity. }
  rewrite (map_ext _ _ Hex), !zsum_map_add.
  rewrite (uniq_sum (fun m => has m F_P2M)) by (apply (Hm 2); cbn [In]; tauto).
  rewrite (uniq_sum (fun m => has m F_M2M)) by (apply (Hm 4); cbn [In]; tauto).
  rewrite (uniq_sum (fun m => has m F_M2L)) by (apply (Hm 8); cbn [In]; tauto).
  rewrite (uniq_sum (fun m => has m F_L2L)) by (apply (Hm 16); cbn [In]; tauto).
  rewrite (uniq_sum (fun m => has m F_L2P)) by (apply (Hm 32); cbn [In]; tauto).
  rewrite (uniq_sum (fun m => has m F_P2P)) by (apply (Hm 1); cbn [In]; tauto).
  rewrite (Hex 63). reflexivity.
Qed.

Theorem counts_split_masks : forall d per s t masks,
  (forall f, In f [1;2;4;8;16;32] -> exists! i, (i < length masks)%nat /\ has (nth i masks 0) f = true) ->
  merge_counters (map (fun m => count_trace (execute d per s m t)) masks) = count_trace (execute d per s 63 t).
Proof.
  intros d per s t masks Hm.
  assert (Hall : forall f, additive f ->
            f (merge_counters (map (fun m => count_trace (execute d per s m t)) masks)) = f (count_trace (execute d per s 63 t))).
  { intros f Hf. rewrite (additive_merge f Hf), map_map. apply split_field; assumption. }
  apply counters_eq; apply Hall.
  - exact additive_p2m.
  - exact additive_m2m.
  - exact additive_m2l.
  - exact additive_l2l.
  - exact additive_l2p.
  - exact additive_p2p.
  - exact additive_inner.
Qed.

(* the hypothesis of counts_split_masks is satisfiable, in any order of the masks *)
Example split_masks_examples :
  (forall f, In f [1;2;4;8;16;32] -> exists! i, (i < length [48;9;6])%nat /\ has (nth i [48;9;6] 0) f = true) /\
  (forall f, In f [1;2;4;8;16;32] -> exists! i, (i < length [1;32;2;16;4;8])%nat /\ has (nth i [1;32;2;16;4;8] 0) f = true).
Proof.
  split; intros f Hf; cbn [In] in Hf;
    repeat (destruct Hf as [<-|Hf];
      [first [ exists 0%nat; split; [split; [cbn; lia|reflexivity]|]
             | exists 1%nat; split; [split; [cbn; lia|reflexivity]|]
             | exists 2%nat; split; [split; [cbn; lia|reflexivity]|]
             | exists 3%nat; split; [split; [cbn; lia|reflexivity]|]
             | exists 4%nat; split; [split; [cbn; lia|reflexivity]|]
             | exists 5%nat; split; [split; [cbn; lia|reflexivity]|] ];
       intros j (Hj & Hg); cbn [length] in Hj;
       do 6 (destruct j as [|j]; [try reflexivity; cbv in Hg; discriminate|]); lia|]);
    destruct Hf.
Qed.

Print Assumptions count_trace_elementary.
Print Assumptions count_elems_perm.
Print Assumptions count_trace_app.
Print Assumptions merge_partition.
Print Assumptions merge_any_order.
Print Assumptions merge_any_partition.
Print Assumptions counts_spec.
Print Assumptions counts_grouping_independent.
Print Assumptions counts_values.
Print Assumptions counts_split_masks.
