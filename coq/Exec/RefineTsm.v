(* Refinement of the transfer (M2L) and near-field (P2P) passes of the TARGET/SOURCE executor (two trees):
   whatever the two groupings, every (target cell, existing source member of its list) pair reaches the kernel
   exactly once and no internal assertion fires. *)
From Tbfmm Require Import Base.Prelude Base.Search Index.MortonDefs Tree.GroupDefs Index.ListsDefs Tree.BuildDefs
  Tree.Invariant Tree.LookupProofs Exec.ExecDefs Exec.ExecTsmDefs Spec.Elem Exec.RefineM2L.
From Coq Require Import Sorting.Sorted Sorting.Mergesort Sorting.Permutation ZifyBool.
Local Open Scope Z_scope.

(* ------------------------------------------------------------------ *)
(* 0. statements                                                       *)
(* ------------------------------------------------------------------ *)

Definition tsm_m2l_level (d : nat) (per : bool) (l : Z) (sgroups tgroups : list cgroup) : list call :=
  flat_map (fun g =>
    let '(internal, external) := ilist_block d per l false g in
    flat_map (fun gv => m2l_between d l g (fst gv) (snd gv))
             (map_indexes_and_blocks cg_first cg_last (external ++ internal) sgroups)) tgroups.

Definition spec_m2l_tsm (d : nat) (per : bool) (l : Z) (scells tcells : list Z) : list elem :=
  flat_map (fun t => flat_map (fun sc => if zmem (fst sc) scells then [EM2L l t (fst sc) (snd sc)] else [])
                              (ilist_cell d per l t)) tcells.

Definition tsm_p2p_groups (d : nat) (per : bool) (L : Z) (spgs tpgs : list pgroup) : list call :=
  flat_map (fun g =>
    let '(internal, external) := nlist_block d per L false false g in
    flat_map (fun gv => p2p_between CP2PTsm (fst gv) g (snd gv))
             (map_indexes_and_blocks pg_first pg_last (external ++ internal ++ self_block d g) spgs)) tpgs.

(* every target leaf t receives, once each: every existing source leaf among its neighbours (full list, no
   upper-half filter) and the source leaf with its own index *)
Definition spec_p2p_tsm (d : nat) (per : bool) (L : Z) (slvs tlvs : list leaf) : list elem :=
  let scells := map lf_index slvs in
  flat_map (fun t => flat_map (fun sc => if zmem (fst sc) scells
                                         then [EP2PTsm (fst sc) t (snd sc) (parts_of slvs (fst sc)) (parts_of tlvs t)] else [])
                              (nlist_cell d per L false t ++ [(t, enc3 (repeat 0 d))])) (map lf_index tlvs).

(* ------------------------------------------------------------------ *)
(* 1. classify without the self-inclusion test                         *)
(* ------------------------------------------------------------------ *)

Lemma classify_filter_false first last find recs :
  classify first last false find recs =
  (filter (fun r => (first <=? x_src r) && (x_src r <=? last)) recs,
   filter (fun r => negb ((first <=? x_src r) && (x_src r <=? last))) recs).
Proof.
  unfold classify. induction recs as [|r recs IH]; [reflexivity|].
  cbn [fold_right filter]. rewrite IH. cbn [fst snd negb orb].
  destruct ((first <=? x_src r) && (x_src r <=? last)); cbn [negb]; reflexivity.
Qed.

Lemma perm_filter_neg_pos {A} (p : A -> bool) l :
  Permutation (filter (fun a => negb (p a)) l ++ filter p l) l.
Proof.
  induction l as [|a l IH]; [constructor|]. cbn [filter]. destruct (p a); cbn [negb].
  - apply Permutation_sym. apply Permutation_cons_app. apply Permutation_sym. exact IH.
  - cbn [app]. constructor. exact IH.
Qed.

(* ------------------------------------------------------------------ *)
(* 2. one target group against the source groups, abstractly           *)
(* ------------------------------------------------------------------ *)

Section TsmPerm.
Variable G : Type.
Variables (idx : G -> list Z) (gfirst glast gn : G -> Z).
Variable B : Type.
Variable e' : Z -> Z -> Z -> B.
Variable sgs : list G.
Hypothesis sgs_ok : Forall (gok G idx gfirst glast gn) sgs.
Hypothesis sgs_sorted : StronglySorted Z.lt (lev G idx sgs).

Notation tkk := (kk G idx gn B e').

Lemma tsm_batches_perm (lst R : list xinter) : Permutation lst R ->
  Permutation (batches G B tkk (map_indexes_and_blocks gfirst glast lst sgs))
              (flat_map (HH B e' (lev G idx sgs)) R).
Proof.
  intros Hp.
  eapply Permutation_trans.
  { apply (mib_flat G gfirst glast B tkk).
    - exact (gs_rs G idx gfirst glast gn sgs sgs_ok sgs_sorted).
    - exact (kk_prop G idx gfirst glast gn B e' sgs sgs_ok sgs_sorted). }
  rewrite (flat_map_ext _ _ (Kall_HH G idx gfirst glast gn B e' sgs sgs_ok sgs_sorted)).
  apply Permutation_flat_map. exact Hp.
Qed.

Lemma tsm_batch_facts (lst R : list xinter) gv : Permutation lst R ->
  In gv (map_indexes_and_blocks gfirst glast lst sgs) ->
  In (fst gv) sgs /\ incl (snd gv) R
  /\ forall p, (length (filter p (snd gv)) <= length (filter p R))%nat.
Proof.
  intros Hp Hin. apply mib_batches in Hin. destruct Hin as (H1 & H2 & H3).
  split; [exact H1|]. split.
  - intros x Hx. apply (Permutation_in x Hp). apply H2. exact Hx.
  - intros p. rewrite <- (Permutation_length (perm_filter p _ _ Hp)). apply H3.
Qed.
End TsmPerm.

(* ------------------------------------------------------------------ *)
(* 3. M2L                                                              *)
(* ------------------------------------------------------------------ *)

Definition tsm_m2l_group_calls (d : nat) (per : bool) (l : Z) (sgroups : list cgroup) (g : cgroup) : list call :=
  let '(internal, external) := ilist_block d per l false g in
  flat_map (fun gv => m2l_between d l g (fst gv) (snd gv))
           (map_indexes_and_blocks cg_first cg_last (external ++ internal) sgroups).

Lemma tsm_m2l_level_groups d per l sgroups tgroups :
  tsm_m2l_level d per l sgroups tgroups = flat_map (tsm_m2l_group_calls d per l sgroups) tgroups.
Proof. reflexivity. Qed.

Section TsmM2LLevel.
Variables (d : nat) (per : bool) (l : Z) (sgroups tgroups : list cgroup).
Hypothesis Hslev : level_ok sgroups.
Hypothesis Htlev : level_ok tgroups.
Hypothesis Hlen : forall t, In t (level_cells tgroups) -> zlen (ilist_cell d per l t) <= nb_interactions d.

Notation f := (ilist_cell d per l).
Notation cinr := (inr cgroup cg_first cg_last).
Notation cpout := (pout cgroup cg_first cg_last).
Notation crecs := (recs cgroup cg_cells f).

Lemma sc_ok : Forall (gok cgroup cg_cells cg_first cg_last cg_n) sgroups.
Proof. exact (proj1 Hslev). Qed.
Lemma sc_sorted : StronglySorted Z.lt (lev cgroup cg_cells sgroups).
Proof. exact (proj2 Hslev). Qed.
Lemma tc_ok : Forall (gok cgroup cg_cells cg_first cg_last cg_n) tgroups.
Proof. exact (proj1 Htlev). Qed.
Lemma tc_sorted : StronglySorted Z.lt (lev cgroup cg_cells tgroups).
Proof. exact (proj2 Htlev). Qed.

Lemma ilist_block_false_eq g : ilist_block d per l false g = (filter (cinr g) (crecs g), filter (cpout g) (crecs g)).
Proof.
  unfold ilist_block. destruct (ilist_active per l) eqn:E; cbn [negb].
  - rewrite classify_filter_false. reflexivity.
  - unfold recs. rewrite records_nil; [reflexivity|]. intros t. unfold ilist_cell. rewrite E. reflexivity.
Qed.

Lemma tsm_lists_perm g : Permutation (filter (cpout g) (crecs g) ++ filter (cinr g) (crecs g)) (crecs g).
Proof. exact (perm_filter_neg_pos (cinr g) (crecs g)). Qed.

Lemma tsm_m2l_group g : In g tgroups ->
  no_assert (tsm_m2l_group_calls d per l sgroups g) /\
  Permutation (elementary (tsm_m2l_group_calls d per l sgroups g))
              (flat_map (HH elem (EM2L l) (level_cells sgroups)) (crecs g)).
Proof.
  intros Hg. unfold tsm_m2l_group_calls. rewrite ilist_block_false_eq.
  pose proof (g_ok cgroup cg_cells cg_first cg_last cg_n tgroups tc_ok g Hg) as Hgo.
  pose proof (g_sorted cgroup cg_cells cg_first cg_last cg_n tgroups tc_ok tc_sorted g Hg) as Hgs.
  set (lst := filter (cpout g) (crecs g) ++ filter (cinr g) (crecs g)).
  assert (Hp : Permutation lst (crecs g)) by apply tsm_lists_perm.
  assert (HA : forall gv, In gv (map_indexes_and_blocks cg_first cg_last lst sgroups) ->
            no_assert (m2l_between d l g (fst gv) (snd gv)) /\
            elementary (m2l_between d l g (fst gv) (snd gv))
            = flat_map (kk cgroup cg_cells cg_n elem (EM2L l) (fst gv)) (snd gv)).
  { intros gv Hgv.
    destruct (tsm_batch_facts cgroup cg_first cg_last sgroups lst (crecs g) gv Hp Hgv) as (H1 & H2 & H3).
    apply (m2l_between_ok d l g (fst gv) (snd gv)).
    - rewrite Forall_forall. intros x Hx. apply (recs_rec_ok f g x Hgo Hgs). apply H2. exact Hx.
    - intros x Hx.
      assert (Hin : In (x_tgt x) (level_cells tgroups)).
      { apply (lev_incl cgroup cg_cells tgroups g _ Hg). apply (records_In (cg_cells g) f x). apply H2. exact Hx. }
      specialize (Hlen _ Hin). specialize (H3 (fun y => x_tgt y =? x_tgt x)).
      pose proof (records_count (cg_cells g) f (x_tgt x) (ss_lt_NoDup _ Hgs)) as Hc.
      unfold recs in H3. unfold zlen in *. lia. }
  split.
  - apply no_assert_fm. intros gv Hgv. apply (HA gv Hgv).
  - rewrite elementary_fm. rewrite (fm_ext_in _ _ _ (fun gv Hgv => proj2 (HA gv Hgv))).
    exact (tsm_batches_perm cgroup cg_cells cg_first cg_last cg_n elem (EM2L l) sgroups sc_ok sc_sorted lst (crecs g) Hp).
Qed.

Theorem tsm_m2l_level_exact_sec :
  no_assert (tsm_m2l_level d per l sgroups tgroups) /\
  Permutation (elementary (tsm_m2l_level d per l sgroups tgroups))
              (spec_m2l_tsm d per l (level_cells sgroups) (level_cells tgroups)).
Proof.
  rewrite tsm_m2l_level_groups. split.
  - apply no_assert_fm. intros g Hg. apply (tsm_m2l_group g Hg).
  - rewrite elementary_fm.
    eapply Permutation_trans; [apply perm_fm_pointwise; intros g Hg; exact (proj2 (tsm_m2l_group g Hg))|].
    match goal with |- Permutation ?a ?b => replace b with a; [apply Permutation_refl|] end.
    unfold spec_m2l_tsm. change (level_cells tgroups) with (flat_map cg_cells tgroups). rewrite fm_fm. apply flat_map_ext. intros g.
    exact (records_flat (fun t s c => if zmem s (level_cells sgroups) then [EM2L l t s c] else []) (cg_cells g) f).
Qed.
End TsmM2LLevel.

Theorem tsm_m2l_level_exact : forall d per l sgroups tgroups, level_ok sgroups -> level_ok tgroups ->
  (forall t, In t (level_cells tgroups) -> zlen (ilist_cell d per l t) <= nb_interactions d) ->
  no_assert (tsm_m2l_level d per l sgroups tgroups) /\
  Permutation (elementary (tsm_m2l_level d per l sgroups tgroups))
              (spec_m2l_tsm d per l (level_cells sgroups) (level_cells tgroups)).
Proof. exact tsm_m2l_level_exact_sec. Qed.

Theorem tsm_pass_M2L_unfold : forall d per s src tgt, tsm_pass_M2L d per s src tgt =
  flat_map (fun l => tsm_m2l_level d per l (levels_of src l) (levels_of tgt l)) (zrange s (height tgt - 1)).
Proof. reflexivity. Qed.

(* ------------------------------------------------------------------ *)
(* 4. P2P                                                              *)
(* ------------------------------------------------------------------ *)

Definition tsm_p2p_group_calls (d : nat) (per : bool) (L : Z) (spgs : list pgroup) (g : pgroup) : list call :=
  let '(internal, external) := nlist_block d per L false false g in
  flat_map (fun gv => p2p_between CP2PTsm (fst gv) g (snd gv))
           (map_indexes_and_blocks pg_first pg_last (external ++ internal ++ self_block d g) spgs).

Lemma tsm_p2p_groups_groups d per L spgs tpgs :
  tsm_p2p_groups d per L spgs tpgs = flat_map (tsm_p2p_group_calls d per L spgs) tpgs.
Proof. reflexivity. Qed.

Definition selff (d : nat) (t : Z) : list (Z * Z) := [(t, enc3 (repeat 0 d))].

Lemma self_block_records d g : self_block d g = records_of (pg_indices g) (selff d).
Proof.
  unfold self_block, records_of, selff. cbn [map fst snd]. symmetry. apply fm_single.
Qed.

Lemma records_okp (f0 : Z -> list (Z * Z)) g x : pgroup_ok g -> StronglySorted Z.lt (pg_indices g) ->
  In x (records_of (pg_indices g) f0) -> rec_okp g x.
Proof.
  intros Hg Hgs Hx. pose proof (pgroup_ok_gok g Hg) as Hgo.
  apply records_In in Hx. destruct Hx as (Hpos & Hz & _).
  assert (Hpos' := Hpos). rewrite pg_indices_len in Hpos'.
  split; [exact Hpos'|]. split.
  - apply (gfind1_some pgroup pg_indices pg_first pg_last pg_nl g (x_tgt x) (x_tpos x) Hgo Hgs).
    split; [exact Hpos|apply Hz].
  - rewrite leaf_at_index by exact Hpos'. apply Hz.
Qed.

Section TsmP2PGroups.
Variables (d : nat) (per : bool) (L : Z) (spgs tpgs : list pgroup).
Hypothesis Hspok : Forall pgroup_ok spgs.
Hypothesis Htpok : Forall pgroup_ok tpgs.
Hypothesis Hsps : StronglySorted Z.lt (flat_map pg_indices spgs).
Hypothesis Htps : StronglySorted Z.lt (flat_map pg_indices tpgs).

Notation f := (nlist_cell d per L false).
Notation slvs := (flat_map pg_leaves spgs).
Notation tlvs := (flat_map pg_leaves tpgs).
Definition ep2ptsm (t s c : Z) : elem := EP2PTsm s t c (parts_of slvs s) (parts_of tlvs t).
Notation pinr := (inr pgroup pg_first pg_last).
Notation ppout := (pout pgroup pg_first pg_last).
Notation precs := (recs pgroup pg_indices f).
Notation srecs := (fun g => records_of (pg_indices g) (selff d)).

Lemma nlist_block_false_eq g : nlist_block d per L false false g = (filter (pinr g) (precs g), filter (ppout g) (precs g)).
Proof. unfold nlist_block. rewrite classify_filter_false. reflexivity. Qed.

Lemma tsm_between_x_ok g G x : In g tpgs -> In G spgs -> rec_okp g x ->
  no_assert (between_x CP2PTsm G g x) /\
  elementary (between_x CP2PTsm G g x) = kk pgroup pg_indices pg_nl elem ep2ptsm G x.
Proof.
  intros Hg HG (Hpos & Hfind & Hidx). unfold between_x, kk.
  change (gfind1 pgroup pg_indices pg_nl G (x_src x)) with (pg_find G (x_src x)).
  destruct (pg_find G (x_src x)) as [ks|] eqn:E; [|split; [apply no_assert_nil|reflexivity]].
  destruct (find_leaf_src spgs Hspok Hsps G (x_src x) ks HG E) as (Hks & Hsrc).
  cbv zeta. rewrite Hfind, Z.eqb_refl, Hsrc, Hidx, !Z.eqb_refl. cbn [andb app]. split.
  - intros id [H|[]]. discriminate.
  - unfold elementary. cbn [flat_map elems_of_call app]. unfold ev, ep2ptsm.
    rewrite (leaf_parts spgs Hsps G ks HG Hks), (leaf_parts tpgs Htps g (x_tpos x) Hg Hpos), Hsrc, Hidx. reflexivity.
Qed.

Lemma tsm_p2p_group g : In g tpgs ->
  no_assert (tsm_p2p_group_calls d per L spgs g) /\
  Permutation (elementary (tsm_p2p_group_calls d per L spgs g))
              (flat_map (HH elem ep2ptsm (map lf_index slvs)) (precs g ++ srecs g)).
Proof.
  intros Hg. unfold tsm_p2p_group_calls. rewrite nlist_block_false_eq, self_block_records.
  pose proof (p_ok tpgs Htpok) as Htok.
  pose proof (g_ok pgroup pg_indices pg_first pg_last pg_nl tpgs Htok g Hg) as Hgo.
  pose proof (g_sorted pgroup pg_indices pg_first pg_last pg_nl tpgs Htok Htps g Hg) as Hgs.
  assert (Hgok : pgroup_ok g) by (rewrite Forall_forall in Htpok; apply Htpok; exact Hg).
  set (lst := filter (ppout g) (precs g) ++ filter (pinr g) (precs g) ++ srecs g).
  assert (Hp : Permutation lst (precs g ++ srecs g)).
  { unfold lst. rewrite app_assoc. apply Permutation_app_tail. exact (perm_filter_neg_pos (pinr g) (precs g)). }
  assert (HA : forall gv, In gv (map_indexes_and_blocks pg_first pg_last lst spgs) ->
            no_assert (p2p_between CP2PTsm (fst gv) g (snd gv)) /\
            elementary (p2p_between CP2PTsm (fst gv) g (snd gv))
            = flat_map (kk pgroup pg_indices pg_nl elem ep2ptsm (fst gv)) (snd gv)).
  { intros gv Hgv.
    destruct (tsm_batch_facts pgroup pg_first pg_last spgs lst (precs g ++ srecs g) gv Hp Hgv) as (H1 & H2 & _).
    rewrite p2p_between_unfold.
    assert (Hx : forall x, In x (snd gv) -> no_assert (between_x CP2PTsm (fst gv) g x) /\
                   elementary (between_x CP2PTsm (fst gv) g x) = kk pgroup pg_indices pg_nl elem ep2ptsm (fst gv) x).
    { intros x Hx. apply tsm_between_x_ok; [exact Hg|exact H1|].
      apply H2 in Hx. apply in_app_or in Hx. destruct Hx as [Hx|Hx].
      - exact (records_okp f g x Hgok Hgs Hx).
      - exact (records_okp (selff d) g x Hgok Hgs Hx). }
    split.
    - apply no_assert_fm. intros x Hx'. apply (Hx x Hx').
    - rewrite elementary_fm. apply fm_ext_in. intros x Hx'. apply (Hx x Hx'). }
  split.
  - apply no_assert_fm. intros gv Hgv. apply (HA gv Hgv).
  - rewrite elementary_fm. rewrite (fm_ext_in _ _ _ (fun gv Hgv => proj2 (HA gv Hgv))).
    rewrite map_fm.
    exact (tsm_batches_perm pgroup pg_indices pg_first pg_last pg_nl elem ep2ptsm spgs (p_ok spgs Hspok) Hsps
             lst (precs g ++ srecs g) Hp).
Qed.

Lemma tsm_group_spec g :
  Permutation (flat_map (HH elem ep2ptsm (map lf_index slvs)) (precs g ++ srecs g))
    (flat_map (fun t => flat_map (fun sc => if zmem (fst sc) (map lf_index slvs) then [ep2ptsm t (fst sc) (snd sc)] else [])
                                 (f t ++ selff d t)) (pg_indices g)).
Proof.
  rewrite flat_map_app.
  pose (h := fun t s c : Z => if zmem s (map lf_index slvs) then [ep2ptsm t s c] else []).
  change (HH elem ep2ptsm (map lf_index slvs)) with (fun x => h (x_tgt x) (x_src x) (x_code x)).
  unfold recs. rewrite !(records_flat h).
  eapply Permutation_trans; [apply Permutation_sym; apply perm_fm_app|].
  match goal with |- Permutation ?a ?b => replace b with a; [apply Permutation_refl|] end.
  apply flat_map_ext. intros t. rewrite flat_map_app. reflexivity.
Qed.

Theorem tsm_p2p_groups_exact_sec :
  no_assert (tsm_p2p_groups d per L spgs tpgs) /\
  Permutation (elementary (tsm_p2p_groups d per L spgs tpgs)) (spec_p2p_tsm d per L slvs tlvs).
Proof.
  rewrite tsm_p2p_groups_groups. split.
  - apply no_assert_fm. intros g Hg. apply (tsm_p2p_group g Hg).
  - rewrite elementary_fm.
    eapply Permutation_trans; [apply perm_fm_pointwise; intros g Hg; exact (proj2 (tsm_p2p_group g Hg))|].
    eapply Permutation_trans; [apply perm_fm_pointwise; intros g Hg; exact (tsm_group_spec g)|].
    match goal with |- Permutation ?a ?b => replace b with a; [apply Permutation_refl|] end.
    unfold spec_p2p_tsm. cbv zeta. rewrite (map_fm lf_index pg_leaves tpgs). rewrite fm_fm. reflexivity.
Qed.
End TsmP2PGroups.

Theorem tsm_p2p_groups_exact : forall d per L spgs tpgs, Forall pgroup_ok spgs -> Forall pgroup_ok tpgs ->
  StronglySorted Z.lt (flat_map pg_indices spgs) -> StronglySorted Z.lt (flat_map pg_indices tpgs) ->
  no_assert (tsm_p2p_groups d per L spgs tpgs) /\
  Permutation (elementary (tsm_p2p_groups d per L spgs tpgs))
              (spec_p2p_tsm d per L (flat_map pg_leaves spgs) (flat_map pg_leaves tpgs)).
Proof. exact tsm_p2p_groups_exact_sec. Qed.

Theorem tsm_pass_P2P_unfold : forall d per src tgt,
  tsm_pass_P2P d per src tgt = tsm_p2p_groups d per (height tgt - 1) (t_pgroups src) (t_pgroups tgt).
Proof. reflexivity. Qed.

Print Assumptions tsm_m2l_level_exact.
Print Assumptions tsm_pass_M2L_unfold.
Print Assumptions tsm_p2p_groups_exact.
Print Assumptions tsm_pass_P2P_unfold.
