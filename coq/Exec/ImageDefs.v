(* Which periodic copy of the box an entry of a wrapped list refers to: the cell reached from target cell [t] (Morton index at
   level [l]) by the unwrapped relative offset [o] lies in the copy displaced by floor((t_j + o_j) / 2^l) boxes in dimension j.
   This is what TbfPeriodicShifter::Neighbor (src/utils/tbfperiodicshifter.hpp:11-62) computes for the neighbour lists
   (offsets in [-1,1], result in {-1,0,1}); it is compared with the C++ on every run (harness/h_index `pshift`) and it is the
   [img_shift] of the periodic exactly-once theorem (Spec/ExactlyOncePer.v, equality by reflexivity in Properties_C10). *)
From Tbfmm Require Import Base.Prelude Index.MortonDefs.
Local Open Scope Z_scope.

Definition image_shift (d : nat) (l t : Z) (o : list Z) : list Z :=
  map2 (fun tj oj => (tj + oj) / 2 ^ l) (unbox d t) o.

Definition need_shift (d : nat) (l t : Z) (o : list Z) : bool :=
  existsb (fun x => negb (x =? 0)) (image_shift d l t o).
