(* The M2M / L2L level drivers (two-cursor loop [staircase] + per-pair wrapper [sibling_wrapper])
   emit every (child -> parent) link of a level exactly once, whatever the grouping of the two levels,
   and none of the internal assertions fires (including the capacity check 54 and the out-of-fuel marker 999).
   The proofs give more than a permutation: the links come out in increasing child order. *)
From Tbfmm Require Import Base.Prelude Base.Search Index.MortonDefs Tree.GroupDefs Index.ListsDefs Tree.BuildDefs
  Tree.Invariant Exec.ExecDefs Spec.Elem Tree.LookupProofs Index.MortonProofs.
From Coq Require Import Sorting.Sorted Sorting.Permutation ZifyBool.
Local Open Scope Z_scope.

(* ------------------------------------------------------------------ *)
(* 0. small list facts                                                 *)
(* ------------------------------------------------------------------ *)

Lemma zlen_cons : forall A (x : A) l, zlen (x :: l) = zlen l + 1.
Proof. intros A x l. unfold zlen. cbn [length]. lia. Qed.

Lemma zlen_app : forall A (a b : list A), zlen (a ++ b) = zlen a + zlen b.
Proof. intros A a b. unfold zlen. rewrite app_length. lia. Qed.

Lemma zlen_pos : forall A (l : list A), l <> [] -> 0 < zlen l.
Proof. intros A l Hne. destruct l as [|x l]; [congruence|]. rewrite zlen_cons. pose proof (zlen_nonneg A l). lia. Qed.

Lemma hd_or_app : forall (a b : list Z) d, a <> [] -> hd_or (a ++ b) d = hd_or a d.
Proof. intros a b d Hne. destruct a as [|x a]; [congruence|reflexivity]. Qed.

Lemma last_or_app : forall (a b : list Z) d, b <> [] -> last_or (a ++ b) d = last_or b d.
Proof.
  induction a as [|x a IH]; intros b d Hne; [reflexivity|].
  cbn [app]. destruct (a ++ b) as [|y r] eqn:E.
  - apply app_eq_nil in E. destruct E as [_ E]. congruence.
  - change (last_or (x :: y :: r) d) with (last_or (y :: r) d). rewrite <- E. apply IH. exact Hne.
Qed.

Lemma znth_app_hd : forall (a b : list Z), b <> [] -> znth (a ++ b) (zlen a) 0 = hd_or b 0.
Proof.
  intros a b Hne. rewrite znth_nat by apply zlen_nonneg. unfold zlen. rewrite Nat2Z.id.
  rewrite app_nth2 by lia. rewrite Nat.sub_diag. destruct b as [|x b]; [congruence|reflexivity].
Qed.

Lemma znth_app_l_In : forall (a b : list Z) k, 0 <= k < zlen a -> In (znth (a ++ b) k 0) a.
Proof.
  intros a b k Hk. unfold zlen in Hk. rewrite znth_nat by lia.
  rewrite app_nth1 by lia. apply nth_In. lia.
Qed.

Lemma skipn_z_app_exact : forall A (a b : list A), skipn_z (zlen a) (a ++ b) = b.
Proof.
  intros A a b. unfold skipn_z, zlen. rewrite Nat2Z.id, skipn_app, Nat.sub_diag, skipn_all. reflexivity.
Qed.

Lemma In_dedup_adj : forall l x, In x (dedup_adj l) <-> In x l.
Proof.
  induction l as [|a l IH]; intros x; [reflexivity|].
  destruct l as [|b l].
  - reflexivity.
  - change (dedup_adj (a :: b :: l)) with (if a =? b then dedup_adj (b :: l) else a :: dedup_adj (b :: l)).
    destruct (Z.eqb_spec a b) as [->|Hne].
    + rewrite IH. split; [intros H; right; exact H|]. intros [<-|H]; [left; reflexivity|exact H].
    + cbn [In]. rewrite IH. reflexivity.
Qed.

(* a strictly increasing list inside [a, a+n) has at most n elements *)
Lemma ss_range_len : forall l a n, StronglySorted Z.lt l -> (forall x, In x l -> a <= x < a + n) -> zlen l <= Z.max 0 n.
Proof.
  induction l as [|x r IH]; intros a n Hs Hr.
  - unfold zlen. cbn [length]. lia.
  - apply StronglySorted_inv in Hs. destruct Hs as [Hs Hall]. rewrite Forall_forall in Hall.
    rewrite zlen_cons.
    assert (Hx : a <= x < a + n) by (apply Hr; left; reflexivity).
    assert (Hrec : zlen r <= Z.max 0 (a + n - x - 1)).
    { apply (IH (x + 1)); [exact Hs|]. intros y Hy.
      assert (H1 : x < y) by (apply Hall; exact Hy).
      assert (H2 : a <= y < a + n) by (apply Hr; right; exact Hy). lia. }
    lia.
Qed.

(* ------------------------------------------------------------------ *)
(* 1. traces                                                           *)
(* ------------------------------------------------------------------ *)

Lemma na_nil : no_assert [].
Proof. intros id H. destruct H. Qed.

Lemma na_app : forall a b, no_assert a -> no_assert b -> no_assert (a ++ b).
Proof. intros a b Ha Hb id H. apply in_app_or in H. destruct H as [H|H]; [exact (Ha id H)|exact (Hb id H)]. Qed.

Lemma elementary_app : forall a b, elementary (a ++ b) = elementary a ++ elementary b.
Proof. intros a b. unfold elementary. apply flat_map_app. Qed.

(* ------------------------------------------------------------------ *)
(* 2. generic development                                              *)
(* ------------------------------------------------------------------ *)

Section Generic.
Variable d : nat.
Notation par := (parent d).
Notation ccode := (child_code d).

Variable mk : Z -> list (Z * Z) -> call.
Variable mke : Z -> Z -> Z -> elem.
Hypothesis mk_elems : forall p ch, elems_of_call (mk p ch) = map (fun cc => mke p (fst cc) (snd cc)) ch.
Hypothesis mk_not_assert : forall p ch id, mk p ch <> CAssert id.

Definition link (c : Z) : elem := mke (par c) c (ccode c).

Lemma par_mono : forall a b, a <= b -> par a <= par b.
Proof. intros a b Hab. rewrite !parent_div. apply Z.div_le_mono; [apply pow_dz_pos|exact Hab]. Qed.

Lemma par_range : forall c, par c * 2 ^ dz d <= c < par c * 2 ^ dz d + 2 ^ dz d.
Proof.
  intros c. rewrite parent_div. pose proof (pow_dz_pos d) as HP.
  pose proof (Z.mul_div_le c _ HP). pose proof (Z.mul_succ_div_gt c _ HP). lia.
Qed.

Lemma na_cons_mk : forall p ch t, no_assert t -> no_assert (mk p ch :: t).
Proof. intros p ch t Ht id [H|H]; [exact (mk_not_assert p ch id H)|exact (Ht id H)]. Qed.

Lemma elementary_cons_mk : forall p ch t,
  elementary (mk p ch :: t) = map (fun cc => mke p (fst cc) (snd cc)) ch ++ elementary t.
Proof. intros p ch t. unfold elementary. cbn [flat_map]. rewrite mk_elems. reflexivity. Qed.

(* capacity: strictly increasing cells with the same parent are at most 2^d *)
Lemma siblings_capacity : forall l p, StronglySorted Z.lt l -> (forall x, In x l -> par x = p) -> zlen l <= nb_children d.
Proof.
  intros l p Hs Hp. unfold nb_children.
  pose proof (pow_dz_pos d) as HP.
  assert (H : zlen l <= Z.max 0 (2 ^ dz d)).
  { apply (ss_range_len l (p * 2 ^ dz d)); [exact Hs|]. intros x Hx.
    pose proof (par_range x) as Hr. rewrite (Hp x Hx) in Hr. exact Hr. }
  lia.
Qed.

(* ---- R2: the inner loop on suffixes ---- *)
Lemma sibling_loop_spec : forall lower upper cur_rev,
  lower <> [] -> upper <> [] ->
  par (hd_or lower 0) = hd_or upper 0 ->
  StronglySorted Z.lt (rev (map fst cur_rev) ++ lower) ->
  Forall (fun cc => par (fst cc) = hd_or upper 0) cur_rev ->
  StronglySorted Z.lt upper ->
  (forall c, In c lower -> par c <= last_or upper 0 -> In (par c) upper) ->
  (forall q, In q upper -> q <= par (last_or lower 0) -> exists c, In c lower /\ par c = q) ->
  exists A B, lower = A ++ B
    /\ (forall c, In c A -> par c <= last_or upper 0)
    /\ (forall c, In c B -> last_or upper 0 < par c)
    /\ no_assert (sibling_loop d mk lower upper cur_rev)
    /\ elementary (sibling_loop d mk lower upper cur_rev) =
         map (fun cc => mke (hd_or upper 0) (fst cc) (snd cc)) (rev cur_rev) ++ map link A.
Proof.
  induction lower as [|c lrest IH]; intros upper cur_rev Hl Hu Hhd Hss Hcur Hsu C1 C2; [congruence|].
  destruct upper as [|p urest]; [congruence|].
  cbn [hd_or] in Hhd, Hcur |- *.
  set (lu := last_or (p :: urest) 0) in *.
  assert (Hple : p <= lu) by (apply sorted_le_last; [exact Hsu|left; reflexivity]).
  assert (Hsl : StronglySorted Z.lt (c :: lrest)) by (apply ss_app in Hss; tauto).
  (* capacity *)
  assert (Hcap : zlen cur_rev < nb_children d).
  { assert (Hs1 : StronglySorted Z.lt (rev (map fst cur_rev) ++ [c])).
    { change (c :: lrest) with ([c] ++ lrest) in Hss. rewrite app_assoc in Hss. apply ss_app in Hss. tauto. }
    assert (Hp1 : forall x, In x (rev (map fst cur_rev) ++ [c]) -> par x = p).
    { intros x Hx. apply in_app_or in Hx. destruct Hx as [Hx|[<-|[]]]; [|exact Hhd].
      apply in_rev in Hx. apply in_map_iff in Hx. destruct Hx as (cc & <- & Hcc).
      rewrite Forall_forall in Hcur. apply Hcur. exact Hcc. }
    pose proof (siblings_capacity _ p Hs1 Hp1) as Hc.
    rewrite zlen_app in Hc. unfold zlen in Hc at 1. rewrite rev_length, map_length in Hc.
    fold (zlen cur_rev) in Hc. rewrite zlen_cons in Hc. unfold zlen in Hc at 2. cbn [length] in Hc. lia. }
  cbn [sibling_loop]. rewrite Hhd, Z.eqb_refl.
  destruct (zlen cur_rev <? nb_children d) eqn:Ecap; [|lia].
  cbn [app].
  destruct lrest as [|c2 lrest'].
  - (* c is the last remaining child *)
    exists [c], []. split; [reflexivity|]. split; [intros x [<-|[]]; lia|]. split; [intros x []|].
    split; [apply na_cons_mk, na_nil|].
    rewrite elementary_cons_mk. cbn [rev]. rewrite map_app. cbn [map fst snd elementary flat_map].
    unfold link. rewrite Hhd, app_nil_r. reflexivity.
  - assert (Hc2 : c < c2).
    { apply StronglySorted_inv in Hsl. destruct Hsl as [_ Hall]. rewrite Forall_forall in Hall. apply Hall. left. reflexivity. }
    assert (Hsl2 : StronglySorted Z.lt (c2 :: lrest')) by (apply StronglySorted_inv in Hsl; tauto).
    assert (Hge : forall x, In x (c2 :: lrest') -> par c2 <= par x).
    { intros x Hx. apply par_mono. change c2 with (hd_or (c2 :: lrest') 0). apply sorted_hd_le; assumption. }
    assert (Hlast : last_or (c :: c2 :: lrest') 0 = last_or (c2 :: lrest') 0) by reflexivity.
    destruct (Z.eqb_spec (par c2) p) as [E2|E2].
    + (* next child has the same parent *)
      destruct (IH (p :: urest) ((c, ccode c) :: cur_rev)) as (A & B & HAB & HA & HB & Hna & Hel).
      * discriminate.
      * discriminate.
      * cbn [hd_or]. exact E2.
      * cbn [map fst rev]. rewrite <- app_assoc. exact Hss.
      * constructor; [exact Hhd|exact Hcur].
      * exact Hsu.
      * intros x Hx Hle. apply C1; [right; exact Hx|exact Hle].
      * intros q Hq Hle. rewrite <- Hlast in Hle. destruct (C2 q Hq Hle) as (x & [<-|Hx] & Hpx).
        -- exists c2. split; [left; reflexivity|lia].
        -- exists x. split; assumption.
      * exists (c :: A), B. split; [cbn [app]; rewrite HAB; reflexivity|].
        split; [intros x [<-|Hx]; [fold lu; lia|apply HA; exact Hx]|].
        split; [exact HB|]. split; [exact Hna|].
        rewrite Hel. cbn [hd_or rev map]. rewrite map_app, <- app_assoc. cbn [map fst snd app].
        unfold link at 2. rewrite Hhd. reflexivity.
    + (* next child has another parent: flush *)
      assert (Hlt : p < par c2).
      { assert (par c <= par c2) by (apply par_mono; lia). lia. }
      destruct urest as [|p2 urest'].
      * (* no more parents in this group *)
        assert (Hlu : lu = p) by reflexivity.
        exists [c], (c2 :: lrest'). split; [reflexivity|]. split; [intros x [<-|[]]; lia|].
        split; [intros x Hx; specialize (Hge x Hx); lia|].
        cbn [sibling_loop app].
        split; [apply na_cons_mk, na_nil|].
        rewrite elementary_cons_mk. cbn [rev]. rewrite map_app. cbn [map fst snd elementary flat_map].
        unfold link. rewrite Hhd, app_nil_r. reflexivity.
      * assert (Hsu2 : StronglySorted Z.lt (p2 :: urest')) by (apply StronglySorted_inv in Hsu; tauto).
        assert (Hpp2 : forall q, In q (p2 :: urest') -> p < q).
        { apply StronglySorted_inv in Hsu. destruct Hsu as [_ Hall]. rewrite Forall_forall in Hall. exact Hall. }
        assert (Hlu2 : last_or (p2 :: urest') 0 = lu) by reflexivity.
        assert (Hc2last : par c2 <= par (last_or (c :: c2 :: lrest') 0)).
        { apply par_mono. apply sorted_le_last; [exact Hsl|right; left; reflexivity]. }
        assert (H1 : p2 <= par c2).
        { destruct (Z_le_gt_dec (par c2) lu) as [Hle|Hgt].
          - assert (Hin : In (par c2) (p :: p2 :: urest')) by (apply C1; [right; left; reflexivity|exact Hle]).
            destruct Hin as [Hin|Hin]; [lia|].
            change p2 with (hd_or (p2 :: urest') 0). apply sorted_hd_le; assumption.
          - assert (p2 <= lu) by (rewrite <- Hlu2; apply sorted_le_last; [exact Hsu2|left; reflexivity]). lia. }
        assert (H2 : par c2 = p2).
        { destruct (C2 p2) as (x & Hx & Hpx); [right; left; reflexivity|lia|].
          destruct Hx as [<-|Hx].
          - specialize (Hpp2 p2 (or_introl eq_refl)). lia.
          - specialize (Hge x Hx). lia. }
        rewrite H2, Z.eqb_refl. cbn [app].
        destruct (IH (p2 :: urest') []) as (A & B & HAB & HA & HB & Hna & Hel).
        -- discriminate.
        -- discriminate.
        -- cbn [hd_or]. exact H2.
        -- cbn [map rev app]. exact Hsl2.
        -- constructor.
        -- exact Hsu2.
        -- intros x Hx Hle. rewrite Hlu2 in Hle.
           destruct (C1 x (or_intror Hx) Hle) as [Hin|Hin]; [|exact Hin].
           specialize (Hge x Hx). lia.
        -- intros q Hq Hle. rewrite <- Hlast in Hle.
           destruct (C2 q (or_intror Hq) Hle) as (x & [<-|Hx] & Hpx).
           ++ specialize (Hpp2 q Hq). lia.
           ++ exists x. split; assumption.
        -- rewrite Hlu2 in HA, HB.
           exists (c :: A), B. split; [cbn [app]; rewrite HAB; reflexivity|].
           split; [intros x [<-|Hx]; [lia|apply HA; exact Hx]|].
           split; [exact HB|]. split; [apply na_cons_mk; exact Hna|].
           rewrite elementary_cons_mk, Hel. cbn [rev map app]. rewrite map_app, <- app_assoc.
           cbn [map fst snd app]. unfold link at 2. rewrite Hhd. reflexivity.
Qed.


(* ---- the wrapper starts the loop at the right suffixes ---- *)
Lemma sibling_wrapper_spec : forall l u ldone ltodo udone utodo,
  cgroup_ok l -> cgroup_ok u ->
  cg_cells l = ldone ++ ltodo -> cg_cells u = udone ++ utodo ->
  ltodo <> [] -> utodo <> [] -> (ldone = [] \/ udone = []) ->
  StronglySorted Z.lt (cg_cells l) -> StronglySorted Z.lt (cg_cells u) ->
  par (hd_or ltodo 0) = hd_or utodo 0 ->
  (forall c, In c ldone -> par c < hd_or utodo 0) ->
  sibling_wrapper d mk l u = sibling_loop d mk ltodo utodo [].
Proof.
  intros l u ldone ltodo udone utodo (Hlne & Hlf & Hll & Hln) (Hune & Huf & Hul & Hun)
         Hlc Huc Hlt Hut Hdone Hsl Hsu Hhd He.
  set (s := hd_or utodo 0) in *.
  assert (Hs_u : In s (cg_cells u)).
  { rewrite Huc. apply in_or_app. right. apply hd_or_In. exact Hut. }
  assert (Hh_l : In (hd_or ltodo 0) (cg_cells l)).
  { rewrite Hlc. apply in_or_app. right. apply hd_or_In. exact Hlt. }
  assert (Hstart : Z.max (par (cg_first l)) (cg_first u) = s).
  { assert (H1 : par (cg_first l) <= s).
    { rewrite <- Hhd. apply par_mono. rewrite Hlf. apply sorted_hd_le; assumption. }
    assert (H2 : cg_first u <= s) by (rewrite Huf; apply sorted_hd_le; assumption).
    destruct Hdone as [Hd|Hd].
    - assert (par (cg_first l) = s).
      { rewrite Hlf, Hlc, Hd. cbn [app]. exact Hhd. }
      lia.
    - assert (cg_first u = s).
      { rewrite Huf, Huc, Hd. reflexivity. }
      lia. }
  unfold sibling_wrapper. cbv zeta. rewrite Hstart.
  assert (Hfu : cg_find u s = Some (zlen udone)).
  { unfold cg_find. rewrite Hun. apply elem_from_index_some; [exact Hsu|].
    rewrite Huc. split.
    - rewrite zlen_app. pose proof (zlen_nonneg _ udone). pose proof (zlen_pos _ utodo Hut). lia.
    - apply znth_app_hd. exact Hut. }
  assert (Hfl : cg_find_parent par l s = Some (zlen ldone)).
  { unfold cg_find_parent. rewrite Hln. apply elem_from_parent_some; [exact par_mono|exact Hsl|].
    rewrite Hlc. split; [|split].
    - rewrite zlen_app. pose proof (zlen_nonneg _ ldone). pose proof (zlen_pos _ ltodo Hlt). lia.
    - rewrite znth_app_hd by exact Hlt. exact Hhd.
    - intros k' Hk'. pose proof (He _ (znth_app_l_In ldone ltodo k' Hk')). lia. }
  rewrite Hfu, Hfl, Hlc, Huc, !skipn_z_app_exact. reflexivity.
Qed.

(* ---- R1: the two-cursor loop ---- *)
Lemma staircase_inv : forall fuel lrest urest l u ldone ltodo udone utodo,
  (length lrest + length urest < fuel)%nat ->
  Forall cgroup_ok (l :: lrest) -> Forall cgroup_ok (u :: urest) ->
  cg_cells l = ldone ++ ltodo -> cg_cells u = udone ++ utodo ->
  ltodo <> [] -> utodo <> [] -> (ldone = [] \/ udone = []) ->
  StronglySorted Z.lt (ldone ++ ltodo ++ level_cells lrest) ->
  StronglySorted Z.lt (udone ++ utodo ++ level_cells urest) ->
  (forall c, In c (ltodo ++ level_cells lrest) -> In (par c) (utodo ++ level_cells urest)) ->
  (forall q, In q (utodo ++ level_cells urest) -> exists c, In c (ltodo ++ level_cells lrest) /\ par c = q) ->
  (forall c, In c ldone -> par c < hd_or utodo 0) ->
  no_assert (staircase d fuel mk (l :: lrest) (u :: urest)) /\
  elementary (staircase d fuel mk (l :: lrest) (u :: urest)) = map link (ltodo ++ level_cells lrest).
Proof.
  induction fuel as [|f IH]; intros lrest urest l u ldone ltodo udone utodo
    Hfuel Hokl Hoku Hlc Huc Hlt Hut Hdone HsL HsU Hc Hd He; [lia|].
  set (Lr := level_cells lrest) in *. set (Ur := level_cells urest) in *.
  pose proof (Forall_inv Hokl) as Hl_ok. pose proof (Forall_inv Hoku) as Hu_ok.
  destruct (Hl_ok) as (Hlne & Hlf & Hll & Hln). destruct (Hu_ok) as (Hune & Huf & Hul & Hun).
  (* sortedness facts *)
  destruct (ss_app _ _ HsL) as (_ & HsL2 & _).
  destruct (ss_app _ _ HsL2) as (Hs_lt & Hs_Lr & Hx_lt_Lr).
  destruct (ss_app _ _ HsU) as (_ & HsU2 & _).
  destruct (ss_app _ _ HsU2) as (Hs_ut & Hs_Ur & Hx_ut_Ur).
  assert (Hs_l : StronglySorted Z.lt (cg_cells l)).
  { rewrite Hlc. rewrite app_assoc in HsL. apply ss_app in HsL. tauto. }
  assert (Hs_u : StronglySorted Z.lt (cg_cells u)).
  { rewrite Huc. rewrite app_assoc in HsU. apply ss_app in HsU. tauto. }
  assert (Hlast_l : cg_last l = last_or ltodo 0) by (rewrite Hll, Hlc; apply last_or_app; exact Hlt).
  assert (Hlast_u : cg_last u = last_or utodo 0) by (rewrite Hul, Huc; apply last_or_app; exact Hut).
  set (s := hd_or utodo 0) in *.
  assert (Hs_in : In s utodo) by (apply hd_or_In; exact Hut).
  assert (Hh_in : In (hd_or ltodo 0) ltodo) by (apply hd_or_In; exact Hlt).
  assert (Hll_in : In (last_or ltodo 0) ltodo) by (apply last_or_In; exact Hlt).
  assert (Hlu_in : In (last_or utodo 0) utodo) by (apply last_or_In; exact Hut).
  assert (Hhd : par (hd_or ltodo 0) = s).
  { assert (H1 : s <= par (hd_or ltodo 0)).
    { unfold s. rewrite <- (hd_or_app utodo Ur 0 Hut). apply sorted_hd_le; [exact HsU2|].
      apply Hc. apply in_or_app. left. exact Hh_in. }
    destruct (Hd s) as (c & Hcin & Hpc); [apply in_or_app; left; exact Hs_in|].
    assert (H2 : hd_or ltodo 0 <= c).
    { rewrite <- (hd_or_app ltodo Lr 0 Hlt). apply sorted_hd_le; assumption. }
    apply par_mono in H2. lia. }
  assert (Hs_le_lu : s <= last_or utodo 0) by (apply sorted_le_last; assumption).
  assert (Hs_le_pl : s <= par (last_or ltodo 0)).
  { rewrite <- Hhd. apply par_mono. apply sorted_le_last; assumption. }
  (* the wrapper *)
  assert (Hsw : sibling_wrapper d mk l u = sibling_loop d mk ltodo utodo []).
  { apply (sibling_wrapper_spec l u ldone ltodo udone utodo); assumption. }
  destruct (sibling_loop_spec ltodo utodo []) as (A & B & HAB & HA & HB & Hna & Hel).
  { exact Hlt. } { exact Hut. } { exact Hhd. } { cbn [map rev app]. exact Hs_lt. } { constructor. } { exact Hs_ut. }
  { intros c Hcin Hle. specialize (Hc c (in_or_app _ _ _ (or_introl Hcin))).
    apply in_app_or in Hc. destruct Hc as [Hc|Hc]; [exact Hc|].
    specialize (Hx_ut_Ur _ _ Hlu_in Hc). lia. }
  { intros q Hq Hle. destruct (Hd q (in_or_app _ _ _ (or_introl Hq))) as (c & Hcin & Hpc).
    apply in_app_or in Hcin. destruct Hcin as [Hcin|Hcin]; [exists c; split; assumption|].
    specialize (Hx_lt_Lr _ _ Hll_in Hcin).
    assert (par (last_or ltodo 0) <= par c) by (apply par_mono; lia).
    exists (last_or ltodo 0). split; [exact Hll_in|lia]. }
  cbn [map rev app] in Hel.
  (* the overlap check *)
  assert (Hchk : (par (cg_first l) <=? cg_last u) || (cg_first u <=? par (cg_last l)) = true).
  { rewrite Hlast_l, Hlast_u. destruct Hdone as [Hd0|Hd0].
    - assert (par (cg_first l) = s) by (rewrite Hlf, Hlc, Hd0; cbn [app]; exact Hhd). lia.
    - assert (cg_first u = s) by (rewrite Huf, Huc, Hd0; reflexivity). lia. }
  cbn [staircase]. rewrite Hchk, Hsw. cbn [app]. rewrite Hlast_l, Hlast_u.
  destruct (Z.leb_spec (par (last_or ltodo 0)) (last_or utodo 0)) as [Eb|Eb].
  - (* the lower group is finished *)
    assert (HB0 : B = []).
    { destruct B as [|b B']; [reflexivity|exfalso].
      assert (Hb : In b ltodo) by (rewrite HAB; apply in_or_app; right; left; reflexivity).
      pose proof (HB b (or_introl eq_refl)) as Hb2.
      assert (b <= last_or ltodo 0) by (apply sorted_le_last; assumption).
      assert (par b <= par (last_or ltodo 0)) by (apply par_mono; assumption). lia. }
    rewrite HB0, app_nil_r in HAB. subst A. clear HB HB0 B.
    destruct lrest as [|l2 lrest'].
    + split; [exact Hna|]. rewrite Hel. unfold Lr. cbn [level_cells flat_map]. rewrite app_nil_r. reflexivity.
    + pose proof (Forall_inv_tail Hokl) as Hokl'. pose proof (Forall_inv Hokl') as Hl2_ok.
      destruct Hl2_ok as (Hl2ne & Hl2f & _).
      assert (HLr : Lr = cg_cells l2 ++ level_cells lrest') by reflexivity.
      assert (Hf2_in : In (cg_first l2) Lr).
      { rewrite HLr, Hl2f. apply in_or_app. left. apply hd_or_In. exact Hl2ne. }
      assert (Hf2_le : forall c, In c Lr -> par (cg_first l2) <= par c).
      { intros c Hcin. apply par_mono. rewrite Hl2f, <- (hd_or_app _ (level_cells lrest') 0 Hl2ne), <- HLr.
        apply sorted_hd_le; assumption. }
      pose proof (Hc _ (in_or_app _ _ _ (or_intror Hf2_in))) as Hpf2.
      destruct (Z.ltb_spec (last_or utodo 0) (par (cg_first l2))) as [E3|E3].
      * (* next lower group, next upper group *)
        assert (Hpf2' : In (par (cg_first l2)) Ur).
        { apply in_app_or in Hpf2. destruct Hpf2 as [H|H]; [|exact H].
          assert (par (cg_first l2) <= last_or utodo 0) by (apply sorted_le_last; assumption). lia. }
        destruct urest as [|u2 urest']; [destruct Hpf2'|].
        pose proof (Forall_inv_tail Hoku) as Hoku'. pose proof (Forall_inv Hoku') as Hu2_ok.
        destruct Hu2_ok as (Hu2ne & _).
        assert (HUr : Ur = cg_cells u2 ++ level_cells urest') by reflexivity.
        destruct (IH lrest' urest' l2 u2 [] (cg_cells l2) [] (cg_cells u2)) as (Hna2 & Hel2).
        -- cbn [length] in Hfuel. lia.
        -- exact Hokl'.
        -- exact Hoku'.
        -- reflexivity.
        -- reflexivity.
        -- exact Hl2ne.
        -- exact Hu2ne.
        -- left. reflexivity.
        -- cbn [app]. rewrite <- HLr. exact Hs_Lr.
        -- cbn [app]. rewrite <- HUr. exact Hs_Ur.
        -- rewrite <- HLr, <- HUr. intros c Hcin.
           pose proof (Hc _ (in_or_app _ _ _ (or_intror Hcin))) as H. apply in_app_or in H.
           destruct H as [H|H]; [|exact H].
           assert (par c <= last_or utodo 0) by (apply sorted_le_last; assumption).
           specialize (Hf2_le c Hcin). lia.
        -- rewrite <- HLr, <- HUr. intros q Hq.
           destruct (Hd q (in_or_app _ _ _ (or_intror Hq))) as (c & Hcin & Hpc).
           apply in_app_or in Hcin. destruct Hcin as [Hcin|Hcin]; [|exists c; split; assumption].
           specialize (HA c Hcin). specialize (Hx_ut_Ur _ _ Hlu_in Hq). lia.
        -- intros c [].
        -- split; [apply na_app; assumption|].
           rewrite elementary_app, Hel, Hel2, <- HLr, map_app. reflexivity.
      * (* next lower group, same upper group *)
        assert (Hpf2' : In (par (cg_first l2)) utodo).
        { apply in_app_or in Hpf2. destruct Hpf2 as [H|H]; [exact H|].
          specialize (Hx_ut_Ur _ _ Hlu_in H). lia. }
        destruct (in_split _ _ Hpf2') as (X & Y & HXY).
        set (s' := par (cg_first l2)) in *.
        assert (HX_lt : forall x, In x X -> x < s').
        { intros x Hx. rewrite HXY in Hs_ut. apply ss_app in Hs_ut. destruct Hs_ut as (_ & _ & H).
          apply H; [exact Hx|left; reflexivity]. }
        assert (HsU3 : StronglySorted Z.lt ((s' :: Y) ++ Ur)).
        { rewrite HXY, <- app_assoc in HsU2. apply ss_app in HsU2. tauto. }
        destruct (IH lrest' urest l2 u [] (cg_cells l2) (udone ++ X) (s' :: Y)) as (Hna2 & Hel2).
        -- cbn [length] in Hfuel. lia.
        -- exact Hokl'.
        -- exact Hoku.
        -- reflexivity.
        -- rewrite Huc, HXY, app_assoc. reflexivity.
        -- exact Hl2ne.
        -- discriminate.
        -- left. reflexivity.
        -- cbn [app]. rewrite <- HLr. exact Hs_Lr.
        -- fold Ur. rewrite HXY in HsU. rewrite <- !app_assoc in HsU. rewrite <- !app_assoc. exact HsU.
        -- fold Ur. rewrite <- HLr. intros c Hcin.
           pose proof (Hc _ (in_or_app _ _ _ (or_intror Hcin))) as H.
           rewrite HXY, <- app_assoc in H. apply in_app_or in H.
           destruct H as [H|H]; [|exact H].
           specialize (HX_lt _ H). specialize (Hf2_le c Hcin). lia.
        -- fold Ur. rewrite <- HLr. intros q Hq.
           assert (Hq' : In q (utodo ++ Ur)).
           { rewrite HXY, <- app_assoc. apply in_or_app. right. exact Hq. }
           destruct (Hd q Hq') as (c & Hcin & Hpc).
           apply in_app_or in Hcin. destruct Hcin as [Hcin|Hcin]; [|exists c; split; assumption].
           assert (Hsq : s' <= q).
           { change s' with (hd_or ((s' :: Y) ++ Ur) 0). apply sorted_hd_le; assumption. }
           specialize (Hx_lt_Lr _ _ Hcin Hf2_in).
           assert (par c <= s') by (apply par_mono; lia).
           exists (cg_first l2). split; [exact Hf2_in|]. fold s'. lia.
        -- intros c [].
        -- split; [apply na_app; assumption|].
           rewrite elementary_app, Hel, Hel2, <- HLr, map_app. reflexivity.
  - (* the upper group is finished, the lower one is not *)
    assert (HllB : In (last_or ltodo 0) B).
    { pose proof Hll_in as H. rewrite HAB in H at 2. apply in_app_or in H. destruct H as [H|H]; [|exact H].
      specialize (HA _ H). lia. }
    assert (HinUr : In (par (last_or ltodo 0)) Ur).
    {
      pose proof (Hc _ (in_or_app _ _ _ (or_introl Hll_in))) as H. apply in_app_or in H.
      destruct H as [H|H]; [|exact H].
      assert (par (last_or ltodo 0) <= last_or utodo 0) by (apply sorted_le_last; assumption). lia. }
    destruct urest as [|u2 urest']; [destruct HinUr|].
    pose proof (Forall_inv_tail Hoku) as Hoku'. pose proof (Forall_inv Hoku') as Hu2_ok.
    destruct Hu2_ok as (Hu2ne & _).
    assert (HUr : Ur = cg_cells u2 ++ level_cells urest') by reflexivity.
    assert (HgtUr : forall q, In q Ur -> last_or utodo 0 < q).
    { intros q Hq. apply Hx_ut_Ur; assumption. }
    destruct (IH lrest urest' l u2 (ldone ++ A) B [] (cg_cells u2)) as (Hna2 & Hel2).
    + cbn [length] in Hfuel. lia.
    + exact Hokl.
    + exact Hoku'.
    + rewrite Hlc, HAB, app_assoc. reflexivity.
    + reflexivity.
    + intros HB0. rewrite HB0 in HllB. destruct HllB.
    + exact Hu2ne.
    + right. reflexivity.
    + fold Lr. rewrite HAB in HsL. rewrite <- !app_assoc in HsL. rewrite <- !app_assoc. exact HsL.
    + cbn [app]. rewrite <- HUr. exact Hs_Ur.
    + fold Lr. rewrite <- HUr. intros c Hcin.
      assert (Hcin' : In c (ltodo ++ Lr)).
      { rewrite HAB, <- app_assoc. apply in_or_app. right. exact Hcin. }
      pose proof (Hc c Hcin') as H. apply in_app_or in H. destruct H as [H|H]; [|exact H].
      assert (Hple : par c <= last_or utodo 0) by (apply sorted_le_last; assumption).
      apply in_app_or in Hcin. destruct Hcin as [Hcin|Hcin].
      * specialize (HB c Hcin). lia.
      * specialize (Hx_lt_Lr _ _ Hll_in Hcin).
        assert (par (last_or ltodo 0) <= par c) by (apply par_mono; lia). lia.
    + fold Lr. rewrite <- HUr. intros q Hq.
      destruct (Hd q (in_or_app _ _ _ (or_intror Hq))) as (c & Hcin & Hpc).
      rewrite HAB, <- app_assoc in Hcin. apply in_app_or in Hcin.
      destruct Hcin as [Hcin|Hcin]; [|exists c; split; assumption].
      specialize (HA c Hcin). specialize (HgtUr q Hq). lia.
    + intros c Hcin.
      assert (Hh2 : last_or utodo 0 < hd_or (cg_cells u2) 0).
      { apply HgtUr. rewrite HUr. apply in_or_app. left. apply hd_or_In. exact Hu2ne. }
      apply in_app_or in Hcin. destruct Hcin as [Hcin|Hcin].
      * specialize (He c Hcin). lia.
      * specialize (HA c Hcin). lia.
    + split; [apply na_app; assumption|].
      rewrite elementary_app, Hel, Hel2. fold Lr. rewrite HAB, <- map_app, <- app_assoc. reflexivity.
Qed.

(* ---- whole level ---- *)
Theorem staircase_exact_gen : forall lowers uppers,
  level_ok lowers -> level_ok uppers ->
  level_cells uppers = parents_of par (level_cells lowers) ->
  let tr := staircase d (staircase_fuel lowers uppers) mk lowers uppers in
  no_assert tr /\ elementary tr = map link (level_cells lowers).
Proof.
  intros lowers uppers (Hokl & HsL) (Hoku & HsU) Hpar. cbv zeta.
  assert (Hmem : forall q, In q (level_cells uppers) <-> In q (map par (level_cells lowers))).
  { intros q. rewrite Hpar. unfold parents_of. apply In_dedup_adj. }
  destruct lowers as [|l lrest].
  - unfold staircase_fuel. cbn [staircase]. destruct uppers; split; try apply na_nil; reflexivity.
  - pose proof (Forall_inv Hokl) as (Hlne & _).
    assert (Hl1 : In (hd_or (cg_cells l) 0) (level_cells (l :: lrest))).
    { cbn [level_cells flat_map]. apply in_or_app. left. apply hd_or_In. exact Hlne. }
    assert (Hu1 : In (par (hd_or (cg_cells l) 0)) (level_cells uppers)).
    { apply Hmem. apply in_map. exact Hl1. }
    destruct uppers as [|u urest]; [destruct Hu1|].
    pose proof (Forall_inv Hoku) as (Hune & _).
    change (level_cells (l :: lrest)) with (cg_cells l ++ level_cells lrest) in *.
    change (level_cells (u :: urest)) with (cg_cells u ++ level_cells urest) in *.
    apply (staircase_inv _ lrest urest l u [] (cg_cells l) [] (cg_cells u)).
    + unfold staircase_fuel. cbn [length]. lia.
    + exact Hokl.
    + exact Hoku.
    + reflexivity.
    + reflexivity.
    + exact Hlne.
    + exact Hune.
    + left. reflexivity.
    + exact HsL.
    + exact HsU.
    + intros c Hcin. apply Hmem. apply in_map. exact Hcin.
    + intros q Hq. apply Hmem in Hq. apply in_map_iff in Hq. destruct Hq as (c & Hpc & Hcin).
      exists c. split; assumption.
    + intros c [].
Qed.

End Generic.

(* ------------------------------------------------------------------ *)
(* 3. the two instances                                                *)
(* ------------------------------------------------------------------ *)

Theorem staircase_m2m_exact_ordered : forall d l lowers uppers,
  level_ok lowers -> level_ok uppers ->
  level_cells uppers = parents_of (parent d) (level_cells lowers) ->
  let tr := staircase d (staircase_fuel lowers uppers) (CM2M l) lowers uppers in
  no_assert tr /\ elementary tr = spec_links d EM2M l (level_cells lowers).
Proof.
  intros d l lowers uppers Hl Hu Hp.
  apply (staircase_exact_gen d (CM2M l) (EM2M l)); try assumption.
  - intros p ch. reflexivity.
  - intros p ch id. discriminate.
Qed.

Theorem staircase_l2l_exact_ordered : forall d l lowers uppers,
  level_ok lowers -> level_ok uppers ->
  level_cells uppers = parents_of (parent d) (level_cells lowers) ->
  let tr := staircase d (staircase_fuel lowers uppers) (CL2L l) lowers uppers in
  no_assert tr /\ elementary tr = spec_links d EL2L l (level_cells lowers).
Proof.
  intros d l lowers uppers Hl Hu Hp.
  apply (staircase_exact_gen d (CL2L l) (EL2L l)); try assumption.
  - intros p ch. reflexivity.
  - intros p ch id. discriminate.
Qed.

Theorem staircase_m2m_exact : forall d l lowers uppers, (0 < d)%nat ->
  level_ok lowers -> level_ok uppers -> Forall (fun c => 0 <= c) (level_cells lowers) ->
  level_cells uppers = parents_of (parent d) (level_cells lowers) ->
  let tr := staircase d (staircase_fuel lowers uppers) (CM2M l) lowers uppers in
  no_assert tr /\ Permutation (elementary tr) (spec_links d EM2M l (level_cells lowers)).
Proof.
  intros d l lowers uppers _ Hl Hu _ Hp. cbv zeta.
  destruct (staircase_m2m_exact_ordered d l lowers uppers Hl Hu Hp) as (Hna & Hel).
  split; [exact Hna|]. rewrite Hel. apply Permutation_refl.
Qed.

Theorem staircase_l2l_exact : forall d l lowers uppers, (0 < d)%nat ->
  level_ok lowers -> level_ok uppers -> Forall (fun c => 0 <= c) (level_cells lowers) ->
  level_cells uppers = parents_of (parent d) (level_cells lowers) ->
  let tr := staircase d (staircase_fuel lowers uppers) (CL2L l) lowers uppers in
  no_assert tr /\ Permutation (elementary tr) (spec_links d EL2L l (level_cells lowers)).
Proof.
  intros d l lowers uppers _ Hl Hu _ Hp. cbv zeta.
  destruct (staircase_l2l_exact_ordered d l lowers uppers Hl Hu Hp) as (Hna & Hel).
  split; [exact Hna|]. rewrite Hel. apply Permutation_refl.
Qed.

Print Assumptions staircase_m2m_exact.
Print Assumptions staircase_l2l_exact.
Print Assumptions staircase_m2m_exact_ordered.
Print Assumptions staircase_l2l_exact_ordered.
