(* Executable model of the sequential executor at group level:
   TbfAlgorithm (src/algorithms/sequential/tbfalgorithm.hpp),
   TbfGroupKernelInterface (src/algorithms/sequential/tbfgroupkernelinterface.hpp),
   TbfAlgorithmUtils::TbfMapIndexesAndBlocks (src/algorithms/tbfalgorithmutils.hpp:15-66).
   The model produces the sequence of kernel calls (a trace); an internal assertion of the C++ that
   would fail appears in the trace as [CAssert id]. *)
From Tbfmm Require Import Base.Prelude Base.Search Index.MortonDefs Tree.GroupDefs Index.ListsDefs Tree.BuildDefs.
From Coq Require Import Sorting.Mergesort Orders.
Local Open Scope Z_scope.

Inductive call :=
| CP2M (leaf : Z) (parts : list Z)
| CM2M (lvl parent : Z) (children : list (Z * Z))      (* (child index, position code) *)
| CM2L (lvl tgt : Z) (srcs : list (Z * Z))             (* (source index, position code) *)
| CL2L (lvl parent : Z) (children : list (Z * Z))
| CL2P (leaf : Z) (parts : list Z)
| CP2P (src tgt code : Z) (sparts tparts : list Z)     (* mutual *)
| CP2PTsm (src tgt code : Z) (sparts tparts : list Z)  (* one-sided *)
| CP2PInner (leaf : Z) (parts : list Z)
| CAssert (id : Z).

(* std::sort(..., SrcFirst): by (indexSrc, indexTarget); ties unspecified in C++ (merge sort here) *)
Module XOrder <: TotalLeBool.
  Definition t := xinter.
  Definition leb (a b : t) := (x_src a <? x_src b) || ((x_src a =? x_src b) && (x_tgt a <=? x_tgt b)).
  Theorem leb_total : forall a1 a2, leb a1 a2 = true \/ leb a2 a1 = true.
  Proof.
    intros a b. unfold leb.
    destruct (Z.ltb_spec (x_src a) (x_src b)); [left; reflexivity|].
    destruct (Z.ltb_spec (x_src b) (x_src a)); [right; reflexivity|].
    assert (E : x_src a = x_src b) by lia. rewrite E, Z.eqb_refl. simpl.
    destruct (Z.leb_spec (x_tgt a) (x_tgt b)); [left; reflexivity|right]. apply Z.leb_le. lia.
  Qed.
End XOrder.
Module XSort := Sort XOrder.

Section Exec.
Variable d : nat.
Variable per : bool.

Notation par := (parent d).
Notation ccode := (child_code d).

(* ---------------- M2M / L2L wrapper (tbfgroupkernelinterface.hpp:31-81, 172-222) ---------------- *)
(* [mk] builds the call (CM2M or CL2L).  lower/upper: the remaining cells from idxChild / idxParent. *)
Fixpoint sibling_loop (mk : Z -> list (Z * Z) -> call) (lower upper : list Z) (cur_rev : list (Z * Z)) : list call :=
  match upper with
  | [] => []
  | p :: urest =>
      match lower with
      | [] => match cur_rev with [] => [] | _ => [mk p (rev cur_rev)] end
      | c :: lrest =>
          let chk := if par c =? p then [] else [CAssert 52] in
          let chk2 := if zlen cur_rev <? nb_children d then [] else [CAssert 54] in
          let cur' := (c, ccode c) :: cur_rev in
          match lrest with
          | [] => chk ++ chk2 ++ [mk p (rev cur')]
          | c2 :: _ =>
              if par c2 =? p then chk ++ chk2 ++ sibling_loop mk lrest upper cur'
              else
                let chk3 := match urest with [] => [] | p2 :: _ => if par c2 =? p2 then [] else [CAssert 68] end in
                chk ++ chk2 ++ mk p (rev cur') :: chk3 ++ sibling_loop mk lrest urest []
          end
      end
  end.

Definition sibling_wrapper (mk : Z -> list (Z * Z) -> call) (lower upper : cgroup) : list call :=
  let startingIndex := Z.max (par (cg_first lower)) (cg_first upper) in
  match cg_find upper startingIndex, cg_find_parent par lower startingIndex with
  | Some ip, Some ic =>
      sibling_loop mk (skipn_z ic (cg_cells lower)) (skipn_z ip (cg_cells upper)) []
  | None, _ => [CAssert 44]
  | _, None => [CAssert 45]
  end.

(* ---------------- level drivers M2M / L2L (tbfalgorithm.hpp:56-83, 112-139) ---------------- *)
Fixpoint staircase (fuel : nat) (mk : Z -> list (Z * Z) -> call) (lowers uppers : list cgroup) : list call :=
  match fuel with
  | O => [CAssert 999]
  | S f =>
      match uppers, lowers with
      | u :: urest, l :: lrest =>
          let chk := if (par (cg_first l) <=? cg_last u) || (cg_first u <=? par (cg_last l)) then [] else [CAssert 68] in
          let calls := sibling_wrapper mk l u in
          if par (cg_last l) <=? cg_last u then
            match lrest with
            | l2 :: _ => if cg_last u <? par (cg_first l2)
                         then chk ++ calls ++ staircase f mk lrest urest
                         else chk ++ calls ++ staircase f mk lrest uppers
            | [] => chk ++ calls
            end
          else chk ++ calls ++ staircase f mk lowers urest
      | _, _ => []
      end
  end.

Definition staircase_fuel (lowers uppers : list cgroup) : nat := S (length lowers + length uppers).

(* ---------------- TbfMapIndexesAndBlocks (tbfalgorithmutils.hpp:15-66) ---------------- *)
Fixpoint drop_src_lt (v : Z) (l : list xinter) : list xinter :=
  match l with [] => [] | x :: r => if x_src x <? v then drop_src_lt v r else l end.
Fixpoint take_src_le (v : Z) (l : list xinter) : list xinter * list xinter :=
  match l with
  | [] => ([], [])
  | x :: r => if x_src x <=? v then let '(a, b) := take_src_le v r in (x :: a, b) else ([], l)
  end.
(* (first, last, payload) of the source groups *)
Fixpoint drop_grp_last_lt {G} (first last : G -> Z) (v : Z) (l : list G) : list G :=
  match l with [] => [] | g :: r => if last g <? v then drop_grp_last_lt first last v r else l end.

(* std::lower_bound / std::upper_bound on sorted ranges are modelled by their ISO specification
   (first element not satisfying / satisfying the predicate) as linear scans. *)
Fixpoint map_indexes {G} (fuel : nat) (first last : G -> Z) (idx : list xinter) (groups : list G)
         : list (G * list xinter) :=
  match fuel with
  | O => []
  | S f =>
      match idx, groups with
      | _ :: _, g :: _ =>
          match drop_src_lt (first g) idx with
          | [] => []
          | (x :: _) as rest =>
              if last g <? x_src x then
                match drop_grp_last_lt first last (x_src x) groups with
                | [] => []
                | groups' => map_indexes f first last rest groups'
                end
              else
                let '(mine, rest') := take_src_le (last g) rest in
                (g, mine) :: map_indexes f first last rest' groups
          end
      | _, _ => []
      end
  end.

Definition map_fuel {G} (idx : list xinter) (groups : list G) : nat := S (2 * (length idx + length groups)).

Definition map_indexes_and_blocks {G} (first last : G -> Z) (idx : list xinter) (groups : list G) : list (G * list xinter) :=
  match idx, groups with
  | [], _ => []
  | _, [] => []
  | _, _ => let sorted := XSort.sort idx in map_indexes (map_fuel sorted groups) first last sorted groups
  end.

(* ---------------- M2L wrappers (tbfgroupkernelinterface.hpp:83-169) ---------------- *)
(* split a list of interactions into maximal runs of equal indexTarget, as the do/while does *)
Fixpoint runs_by_target (l : list xinter) (cur_rev : list xinter) : list (list xinter) :=
  match l with
  | [] => match cur_rev with [] => [] | _ => [rev cur_rev] end
  | x :: r =>
      match cur_rev with
      | [] => runs_by_target r [x]
      | y :: _ => if x_tgt y =? x_tgt x then runs_by_target r (x :: cur_rev)
                  else rev cur_rev :: runs_by_target r [x]
      end
  end.

(* note: the C++ compares every element with the FIRST of the run (interaction.indexTarget);
   runs of equal target are the same thing. *)
Definition m2l_between (lvl : Z) (tgt src : cgroup) (view : list xinter) : list call :=
  flat_map (fun run =>
    match run with
    | [] => []
    | x0 :: _ =>
        let srcs := flat_map (fun x => match cg_find src (x_src x) with Some _ => [(x_src x, x_code x)] | None => [] end) run in
        let chk := if forallb (fun x => match cg_find tgt (x_tgt x) with Some k => k =? x_tpos x | None => false end)
                              (filter (fun x => match cg_find src (x_src x) with Some _ => true | None => false end) run)
                   then [] else [CAssert 145] in
        let chk2 := if zlen srcs <=? nb_interactions d then [] else [CAssert 148] in
        match srcs with
        | [] => chk
        | _ => chk ++ chk2 ++ [CM2L lvl (znth (cg_cells tgt) (x_tpos x0) (-1)) srcs]
        end
    end) (runs_by_target view []).

Definition m2l_in_group (lvl : Z) (g : cgroup) (lst : list xinter) : list call :=
  flat_map (fun run =>
    match run with
    | [] => []
    | x0 :: _ =>
        let chk := if forallb (fun x => match cg_find g (x_src x) with Some _ => true | None => false end) run then [] else [CAssert 101] in
        let chk1 := if forallb (fun x => match cg_find g (x_tgt x) with Some k => k =? x_tpos x | None => false end) run then [] else [CAssert 102] in
        let chk2 := if zlen run <=? nb_interactions d then [] else [CAssert 105] in
        chk ++ chk1 ++ chk2 ++ [CM2L lvl (znth (cg_cells g) (x_tpos x0) (-1)) (map (fun x => (x_src x, x_code x)) run)]
    end) (runs_by_target lst []).

(* ---------------- P2P wrappers (tbfgroupkernelinterface.hpp:239-310) ---------------- *)
Definition leaf_at (g : pgroup) (k : Z) : leaf :=
  nth (Z.to_nat k) (pg_leaves g) {| lf_index := -1; lf_n := 0; lf_off := 0; lf_parts := [] |}.

Definition p2p_between (mk : Z -> Z -> Z -> list Z -> list Z -> call) (src tgt : pgroup) (view : list xinter) : list call :=
  flat_map (fun x =>
    match pg_find src (x_src x) with
    | Some ks =>
        let chk := match pg_find tgt (x_tgt x) with Some k => if k =? x_tpos x then [] else [CAssert 289] | None => [CAssert 289] end in
        let ls := leaf_at src ks in let lt := leaf_at tgt (x_tpos x) in
        let chk2 := if (lf_index ls =? x_src x) && (lf_index lt =? x_tgt x) then [] else [CAssert 292] in
        chk ++ chk2 ++ [mk (lf_index ls) (lf_index lt) (x_code x) (lf_parts ls) (lf_parts lt)]
    | None => []
    end) view.

Definition p2p_in_group (g : pgroup) (lst : list xinter) : list call :=
  flat_map (fun x =>
    match pg_find g (x_src x) with
    | Some ks =>
        let chk := match pg_find g (x_tgt x) with Some k => if k =? x_tpos x then [] else [CAssert 246] | None => [CAssert 246] end in
        let ls := leaf_at g ks in let lt := leaf_at g (x_tpos x) in
        chk ++ [CP2P (lf_index ls) (lf_index lt) (x_code x) (lf_parts ls) (lf_parts lt)]
    | None => [CAssert 245]
    end) lst.

Definition p2p_inner (g : pgroup) : list call :=
  map (fun lf => CP2PInner (lf_index lf) (lf_parts lf)) (pg_leaves g).

(* ---------------- passes ---------------- *)
Definition levels_of (t : tree) (l : Z) : list cgroup := znth (t_levels t) l [].
Definition height (t : tree) : Z := zlen (t_levels t).

Definition pass_P2M (s : Z) (t : tree) : list call :=
  if s <? height t then
    let chk := if zlen (levels_of t (height t - 1)) =? zlen (t_pgroups t) then [] else [CAssert 36] in
    chk ++ flat_map (fun cp =>
      let '(cg, pg) := cp in
      let chk := if (pg_first pg =? cg_first cg) && (pg_last pg =? cg_last cg) && (pg_nl pg =? cg_n cg) then [] else [CAssert 45] in
      chk ++ flat_map (fun cl =>
          let '(c, lf) := cl in
          (if lf_index lf =? c then [] else [CAssert 21]) ++ [CP2M c (lf_parts lf)])
        (combine (cg_cells cg) (pg_leaves pg)))
      (combine (levels_of t (height t - 1)) (t_pgroups t))
  else [].

Definition pass_L2P (s : Z) (t : tree) : list call :=
  if s <? height t then
    flat_map (fun cp =>
      let '(cg, pg) := cp in
      flat_map (fun cl => let '(c, lf) := cl in
          (if lf_index lf =? c then [] else [CAssert 229]) ++ [CL2P c (lf_parts lf)])
        (combine (cg_cells cg) (pg_leaves pg)))
      (combine (levels_of t (height t - 1)) (t_pgroups t))
  else [].

(* for idxLevel = H-2 downto s *)
Definition pass_M2M (s : Z) (t : tree) : list call :=
  flat_map (fun l =>
    let uppers := levels_of t l in let lowers := levels_of t (l + 1) in
    staircase (staircase_fuel lowers uppers) (CM2M l) lowers uppers)
    (rev (zrange s (height t - 2))).

(* for idxLevel = s to H-2 *)
Definition pass_L2L (s : Z) (t : tree) : list call :=
  flat_map (fun l =>
    let uppers := levels_of t l in let lowers := levels_of t (l + 1) in
    staircase (staircase_fuel lowers uppers) (CL2L l) lowers uppers)
    (zrange s (height t - 2)).

(* for idxLevel = s to H-1; for each group: out-of-group part mapped on all groups, then in-group part *)
Definition pass_M2L (s : Z) (t : tree) : list call :=
  flat_map (fun l =>
    let groups := levels_of t l in
    flat_map (fun g =>
      let '(internal, external) := ilist_block d per l true g in
      flat_map (fun gv => m2l_between l g (fst gv) (snd gv))
               (map_indexes_and_blocks cg_first cg_last external groups)
      ++ m2l_in_group l g internal) groups)
    (zrange s (height t - 1)).

Definition pass_P2P (t : tree) : list call :=
  let groups := t_pgroups t in
  flat_map (fun g =>
    let '(internal, external) := nlist_block d per (height t - 1) true true g in
    flat_map (fun gv => p2p_between CP2P (fst gv) g (snd gv))
             (map_indexes_and_blocks pg_first pg_last external groups)
    ++ p2p_in_group g internal
    ++ p2p_inner g) groups.

(* TbfOperations flags *)
Definition F_P2P := 1. Definition F_P2M := 2. Definition F_M2M := 4.
Definition F_M2L := 8. Definition F_L2L := 16. Definition F_L2P := 32.
Definition has (flags f : Z) : bool := negb (Z.land flags f =? 0).

(* execute(tree, flags): the if-chain of tbfalgorithm.hpp:204-226; stopUpperLevel = max(0, inStopUpperLevel) *)
Definition execute (stop : Z) (flags : Z) (t : tree) : list call :=
  let s := Z.max 0 stop in
  (if has flags F_P2M then pass_P2M s t else [])
  ++ (if has flags F_M2M then pass_M2M s t else [])
  ++ (if has flags F_M2L then pass_M2L s t else [])
  ++ (if has flags F_L2L then pass_L2L s t else [])
  ++ (if has flags F_L2P then pass_L2P s t else [])
  ++ (if has flags F_P2P then pass_P2P t else []).

End Exec.
