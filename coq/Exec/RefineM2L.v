(* Refinement of the transfer (M2L) and near-field (P2P) passes of the group executor:
   whatever the grouping, every (target, existing member of its list) pair reaches the kernel exactly once
   and no internal assertion fires. *)
From Tbfmm Require Import Base.Prelude Base.Search Index.MortonDefs Tree.GroupDefs Index.ListsDefs Tree.BuildDefs
  Tree.Invariant Tree.LookupProofs Exec.ExecDefs Spec.Elem.
From Coq Require Import Sorting.Sorted Sorting.Mergesort Sorting.Permutation ZifyBool Relations.Relation_Definitions Classes.RelationClasses.
Local Open Scope Z_scope.

(* ------------------------------------------------------------------ *)
(* 1. lists                                                            *)
(* ------------------------------------------------------------------ *)

Lemma fm_nil_all {A B} (f : A -> list B) l : (forall a, In a l -> f a = []) -> flat_map f l = [].
Proof.
  induction l as [|a l IH]; intros H; [reflexivity|]. cbn [flat_map].
  rewrite (H a (or_introl eq_refl)), IH; [reflexivity|]. intros b Hb. apply H. right. exact Hb.
Qed.

Lemma fm_ext_in {A B} (f g : A -> list B) l : (forall a, In a l -> f a = g a) -> flat_map f l = flat_map g l.
Proof.
  induction l as [|a l IH]; intros H; [reflexivity|]. cbn [flat_map].
  rewrite (H a (or_introl eq_refl)), IH; [reflexivity|]. intros b Hb. apply H. right. exact Hb.
Qed.

Lemma fm_fm {A B C} (f : B -> list C) (g : A -> list B) l :
  flat_map f (flat_map g l) = flat_map (fun a => flat_map f (g a)) l.
Proof. induction l as [|a l IH]; [reflexivity|]. cbn [flat_map]. rewrite flat_map_app, IH. reflexivity. Qed.

Lemma fm_map {A B C} (f : B -> list C) (g : A -> B) l : flat_map f (map g l) = flat_map (fun a => f (g a)) l.
Proof. induction l as [|a l IH]; [reflexivity|]. cbn [flat_map map]. rewrite IH. reflexivity. Qed.

Lemma map_fm {A B C} (f : B -> C) (g : A -> list B) l : map f (flat_map g l) = flat_map (fun a => map f (g a)) l.
Proof. induction l as [|a l IH]; [reflexivity|]. cbn [flat_map]. rewrite map_app, IH. reflexivity. Qed.

Lemma fm_concat {A B} (f : A -> list B) (ls : list (list A)) :
  flat_map f (concat ls) = flat_map (fun l => flat_map f l) ls.
Proof. induction ls as [|a l IH]; [reflexivity|]. cbn [flat_map concat]. rewrite flat_map_app, IH. reflexivity. Qed.

Lemma perm_fm_pointwise {A B} (f g : A -> list B) l :
  (forall a, In a l -> Permutation (f a) (g a)) -> Permutation (flat_map f l) (flat_map g l).
Proof.
  induction l as [|a l IH]; intros H; [constructor|]. cbn [flat_map]. apply Permutation_app.
  - apply H. left. reflexivity.
  - apply IH. intros b Hb. apply H. right. exact Hb.
Qed.

Lemma perm_fm_app {A B} (f g : A -> list B) l :
  Permutation (flat_map (fun a => f a ++ g a) l) (flat_map f l ++ flat_map g l).
Proof.
  induction l as [|a l IH]; [constructor|]. cbn [flat_map].
  rewrite <- !app_assoc. apply Permutation_app_head.
  eapply Permutation_trans; [apply Permutation_app_head; exact IH|].
  apply Permutation_app_swap_app.
Qed.

Lemma perm_filter {A} (p : A -> bool) l l' : Permutation l l' -> Permutation (filter p l) (filter p l').
Proof.
  intros H. induction H as [|x l l' H IH|x y l|l l' l'' H1 IH1 H2 IH2].
  - constructor.
  - cbn [filter]. destruct (p x); [constructor|]; exact IH.
  - cbn [filter]. destruct (p x), (p y); try apply Permutation_refl. constructor.
  - eapply Permutation_trans; eassumption.
Qed.

Lemma perm_fm_split {A B} (h : A -> list B) (p : A -> bool) l :
  Permutation (flat_map h l) (flat_map h (filter p l) ++ flat_map h (filter (fun a => negb (p a)) l)).
Proof.
  induction l as [|a l IH]; [constructor|]. cbn [flat_map filter]. destruct (p a); cbn [negb flat_map].
  - rewrite <- app_assoc. apply Permutation_app_head. exact IH.
  - eapply Permutation_trans; [apply Permutation_app_head; exact IH|]. apply Permutation_app_swap_app.
Qed.

Lemma fm_le1_length {A B} (f : A -> list B) l : (forall a, (length (f a) <= 1)%nat) ->
  (length (flat_map f l) <= length l)%nat.
Proof.
  intros H. induction l as [|a l IH]; [cbn; lia|]. cbn [flat_map length]. rewrite app_length.
  specialize (H a). lia.
Qed.

Lemma filter_length_le' {A} (p : A -> bool) l : (length (filter p l) <= length l)%nat.
Proof. induction l as [|a l IH]; [cbn; lia|]. cbn [filter]. destruct (p a); cbn [length]; lia. Qed.

Lemma filter_filter_len {A} (p q : A -> bool) l : (length (filter p (filter q l)) <= length (filter p l))%nat.
Proof.
  induction l as [|a l IH]; [cbn; lia|]. cbn [filter]. destruct (q a); cbn [filter]; destruct (p a); cbn [length]; lia.
Qed.

Lemma filter_all {A} (p : A -> bool) l : (forall a, In a l -> p a = true) -> filter p l = l.
Proof.
  induction l as [|a l IH]; intros H; [reflexivity|]. cbn [filter]. rewrite (H a (or_introl eq_refl)), IH; [reflexivity|].
  intros b Hb. apply H. right. exact Hb.
Qed.

Lemma filter_none {A} (p : A -> bool) l : (forall a, In a l -> p a = false) -> filter p l = [].
Proof.
  induction l as [|a l IH]; intros H; [reflexivity|]. cbn [filter]. rewrite (H a (or_introl eq_refl)), IH; [reflexivity|].
  intros b Hb. apply H. right. exact Hb.
Qed.

Lemma map_snd_combine' {A B} (l1 : list A) (l2 : list B) : length l1 = length l2 -> map snd (combine l1 l2) = l2.
Proof.
  revert l2. induction l1 as [|a l1 IH]; intros [|b l2] H; try reflexivity; try discriminate.
  cbn [combine map snd]. rewrite IH; [reflexivity|]. cbn [length] in H. lia.
Qed.

Lemma zmem_In b l : zmem b l = true <-> In b l.
Proof.
  unfold zmem. rewrite existsb_exists. split.
  - intros (x & Hx & E). apply Z.eqb_eq in E. subst x. exact Hx.
  - intros H. exists b. split; [exact H|apply Z.eqb_refl].
Qed.

Lemma zmem_false b l : zmem b l = false <-> ~ In b l.
Proof. rewrite <- zmem_In. destruct (zmem b l); split; congruence. Qed.

Lemma zmem_app b l1 l2 : zmem b (l1 ++ l2) = zmem b l1 || zmem b l2.
Proof. apply existsb_app. Qed.

(* contiguous segments *)
Definition seg {A} (v s : list A) : Prop := exists a b, s = a ++ v ++ b.

Lemma seg_refl {A} (v : list A) : seg v v.
Proof. exists [], []. rewrite app_nil_r. reflexivity. Qed.

Lemma seg_trans {A} (u v w : list A) : seg u v -> seg v w -> seg u w.
Proof.
  intros (a & b & ->) (a' & b' & ->). exists (a' ++ a), (b ++ b').
  rewrite <- !app_assoc. reflexivity.
Qed.

Lemma seg_prefix {A} (a b : list A) : seg a (a ++ b).
Proof. exists [], b. reflexivity. Qed.

Lemma seg_suffix {A} (a b : list A) : seg b (a ++ b).
Proof. exists a, []. rewrite app_nil_r. reflexivity. Qed.

Lemma seg_incl {A} (v s : list A) : seg v s -> incl v s.
Proof. intros (a & b & ->) x Hx. apply in_or_app. right. apply in_or_app. left. exact Hx. Qed.

Lemma seg_filter_len {A} (p : A -> bool) v s : seg v s -> (length (filter p v) <= length (filter p s))%nat.
Proof. intros (a & b & ->). rewrite !filter_app, !app_length. lia. Qed.

Lemma ss_app_gen {A} (R : A -> A -> Prop) : forall l1 l2, StronglySorted R (l1 ++ l2) ->
  StronglySorted R l1 /\ StronglySorted R l2 /\ (forall x y, In x l1 -> In y l2 -> R x y).
Proof.
  induction l1 as [|a l1 IH]; intros l2 Hs.
  - cbn [app] in Hs. split; [constructor|]. split; [exact Hs|]. intros x y Hx. destruct Hx.
  - cbn [app] in Hs. apply StronglySorted_inv in Hs. destruct Hs as [Hs Hall].
    destruct (IH l2 Hs) as (H1 & H2 & H3). rewrite Forall_forall in Hall.
    split.
    + constructor; [exact H1|]. rewrite Forall_forall. intros x Hx. apply Hall. apply in_or_app. left. exact Hx.
    + split; [exact H2|]. intros x y Hx Hy. destruct Hx as [<-|Hx].
      * apply Hall. apply in_or_app. right. exact Hy.
      * apply H3; assumption.
Qed.

Lemma ss_weaken {A} (R R' : A -> A -> Prop) l : (forall a b, R a b -> R' a b) -> StronglySorted R l -> StronglySorted R' l.
Proof.
  intros HR Hs. induction Hs as [|a l Hs IH Hall]; constructor; [exact IH|].
  eapply Forall_impl; [|exact Hall]. intros b. apply HR.
Qed.

Lemma ss_lt_NoDup l : StronglySorted Z.lt l -> NoDup l.
Proof.
  intros Hs. induction Hs as [|a l Hs IH Hall]; constructor; [|exact IH].
  intros Hin. rewrite Forall_forall in Hall. specialize (Hall a Hin). lia.
Qed.

(* ------------------------------------------------------------------ *)
(* 2. groups with sorted disjoint contents                             *)
(* ------------------------------------------------------------------ *)

Section Groups.
Variable G : Type.
Variables (idx : G -> list Z) (gfirst glast gn : G -> Z).

Notation gok := (gok G idx gfirst glast gn).
Definition gfind1 (g : G) (i : Z) : option Z := elem_from_index (idx g) (gn g) i.
Definition lev (gs : list G) : list Z := flat_map idx gs.

Fixpoint rs (gs : list G) : Prop :=
  match gs with
  | [] => True
  | g :: r => gfirst g <= glast g /\ Forall (fun g' => glast g < gfirst g') r /\ rs r
  end.

Lemma gok_range g i : gok g -> StronglySorted Z.lt (idx g) -> In i (idx g) -> gfirst g <= i <= glast g.
Proof.
  intros (Hne & Hf & Hl & Hn) Hs Hi. rewrite Hf, Hl. split; [apply sorted_hd_le|apply sorted_le_last]; assumption.
Qed.

Lemma lev_parts : forall gs, Forall gok gs -> StronglySorted Z.lt (lev gs) ->
  Forall (fun g => StronglySorted Z.lt (idx g)) gs /\ rs gs.
Proof.
  induction gs as [|g r IH]; intros Hok Hs; [split; constructor|].
  unfold lev in Hs. cbn [flat_map] in Hs. apply ss_app in Hs. destruct Hs as (H1 & H2 & H3).
  apply Forall_cons_iff in Hok. destruct Hok as [Hg Hr].
  destruct (IH Hr H2) as (IH1 & IH2). split; [constructor; assumption|].
  cbn [rs]. destruct Hg as (Hne & Hf & Hl & Hn). split; [|split; [|exact IH2]].
  - rewrite Hf, Hl. apply sorted_le_last; [exact H1|]. apply hd_or_In. exact Hne.
  - rewrite Forall_forall. intros g' Hg'. rewrite Forall_forall in Hr.
    destruct (Hr g' Hg') as (Hne' & Hf' & _). rewrite Hl, Hf'. apply H3.
    + apply last_or_In. exact Hne.
    + apply in_flat_map. exists g'. split; [exact Hg'|]. apply hd_or_In. exact Hne'.
Qed.

Lemma rs_pair : forall gs g g', rs gs -> In g gs -> In g' gs -> g = g' \/ glast g < gfirst g' \/ glast g' < gfirst g.
Proof.
  induction gs as [|a r IH]; intros g g' Hrs Hg Hg'; [destruct Hg|].
  cbn [rs] in Hrs. destruct Hrs as (_ & Hall & Hr). rewrite Forall_forall in Hall.
  destruct Hg as [<-|Hg], Hg' as [<-|Hg'].
  - left. reflexivity.
  - right. left. apply Hall. exact Hg'.
  - right. right. apply Hall. exact Hg.
  - apply IH; assumption.
Qed.

Lemma rs_suffix : forall pre r, rs (pre ++ r) -> rs r.
Proof.
  induction pre as [|a pre IH]; intros r H; [exact H|]. cbn [app rs] in H. apply IH. apply H.
Qed.

Lemma rs_le : forall gs g, rs gs -> In g gs -> gfirst g <= glast g.
Proof.
  induction gs as [|a r IH]; intros g Hrs Hg; [destruct Hg|]. cbn [rs] in Hrs.
  destruct Hg as [<-|Hg]; [apply Hrs|]. apply IH; [apply Hrs|exact Hg].
Qed.

Lemma gfind1_some g i k : gok g -> StronglySorted Z.lt (idx g) ->
  (gfind1 g i = Some k <-> 0 <= k < zlen (idx g) /\ znth (idx g) k 0 = i).
Proof.
  intros (_ & _ & _ & Hn) Hs. unfold gfind1. rewrite Hn. apply elem_from_index_some. exact Hs.
Qed.

Lemma gfind1_none g i : gok g -> StronglySorted Z.lt (idx g) -> (gfind1 g i = None <-> ~ In i (idx g)).
Proof.
  intros (_ & _ & _ & Hn) Hs. unfold gfind1. rewrite Hn. apply elem_from_index_none. exact Hs.
Qed.

Lemma gfind1_In g i k : gok g -> StronglySorted Z.lt (idx g) -> gfind1 g i = Some k -> In i (idx g).
Proof.
  intros Hg Hs H. apply (gfind1_some g i k Hg Hs) in H. destruct H as (Hk & <-). apply znth_In. exact Hk.
Qed.

Lemma gfind1_In_some g i : gok g -> StronglySorted Z.lt (idx g) -> In i (idx g) -> exists k, gfind1 g i = Some k.
Proof.
  intros Hg Hs Hi. destruct (gfind1 g i) as [k|] eqn:E; [exists k; reflexivity|].
  apply (gfind1_none g i Hg Hs) in E. contradiction.
Qed.

Section Level.
Variable gs : list G.
Hypothesis gs_ok : Forall gok gs.
Hypothesis gs_sorted : StronglySorted Z.lt (lev gs).

Lemma g_ok g : In g gs -> gok g.
Proof. intros H. rewrite Forall_forall in gs_ok. apply gs_ok. exact H. Qed.

Lemma g_sorted g : In g gs -> StronglySorted Z.lt (idx g).
Proof. intros H. destruct (lev_parts gs gs_ok gs_sorted) as (H1 & _). rewrite Forall_forall in H1. apply H1. exact H. Qed.

Lemma gs_rs : rs gs.
Proof. apply (lev_parts gs gs_ok gs_sorted). Qed.

Lemma own_range g i : In g gs -> gfirst g <= i <= glast g -> In i (lev gs) -> In i (idx g).
Proof.
  intros Hg Hr Hi. apply in_flat_map in Hi. destruct Hi as (g' & Hg' & Hi').
  pose proof (gok_range g' i (g_ok g' Hg') (g_sorted g' Hg') Hi') as Hr'.
  destruct (rs_pair gs g g' gs_rs Hg Hg') as [->|[H|H]]; [exact Hi'|lia|lia].
Qed.

Lemma lev_incl g i : In g gs -> In i (idx g) -> In i (lev gs).
Proof. intros Hg Hi. apply in_flat_map. exists g. split; assumption. Qed.
End Level.

Lemma K_char {B} (b : B) i : forall gs, Forall gok gs -> StronglySorted Z.lt (lev gs) ->
  flat_map (fun g => match gfind1 g i with Some _ => [b] | None => [] end) gs = if zmem i (lev gs) then [b] else [].
Proof.
  induction gs as [|g r IH]; intros Hok Hs; [reflexivity|].
  pose proof (g_ok _ Hok g (or_introl eq_refl)) as Hg.
  pose proof (g_sorted _ Hok Hs g (or_introl eq_refl)) as Hsg.
  unfold lev in *. cbn [flat_map]. rewrite zmem_app.
  cbn [flat_map] in Hs. apply ss_app in Hs. destruct Hs as (H1 & H2 & H3).
  apply Forall_cons_iff in Hok. destruct Hok as [_ Hr]. rewrite (IH Hr H2).
  destruct (gfind1 g i) as [k|] eqn:E.
  - pose proof (gfind1_In g i k Hg Hsg E) as Hi.
    destruct (zmem_In i (idx g)) as [_ Hz]. rewrite (Hz Hi). cbn [orb].
    destruct (zmem i (flat_map idx r)) eqn:E2; [|reflexivity].
    apply zmem_In in E2. specialize (H3 i i Hi E2). lia.
  - apply (gfind1_none g i Hg Hsg) in E. apply zmem_false in E. rewrite E. reflexivity.
Qed.

(* ------------------------------------------------------------------ *)
(* 3. TbfMapIndexesAndBlocks                                           *)
(* ------------------------------------------------------------------ *)

Definition src_le (a b : xinter) : Prop := x_src a <= x_src b.

Lemma drop_src_lt_spec v : forall l, exists pre, l = pre ++ drop_src_lt v l /\ Forall (fun x => x_src x < v) pre
  /\ match drop_src_lt v l with [] => True | x :: _ => v <= x_src x end.
Proof.
  induction l as [|x r IH]; [exists []; cbn; auto|].
  cbn [drop_src_lt]. destruct (x_src x <? v) eqn:E.
  - destruct IH as (pre & H1 & H2 & H3). exists (x :: pre). split; [cbn [app]; f_equal; exact H1|].
    split; [constructor; [lia|exact H2]|exact H3].
  - exists []. split; [reflexivity|]. split; [constructor|lia].
Qed.

Lemma take_src_le_spec v : forall l a b, take_src_le v l = (a, b) ->
  l = a ++ b /\ Forall (fun x => x_src x <= v) a /\ match b with [] => True | x :: _ => v < x_src x end.
Proof.
  induction l as [|x r IH]; intros a b H; cbn [take_src_le] in H.
  - injection H as <- <-. auto.
  - destruct (x_src x <=? v) eqn:E.
    + destruct (take_src_le v r) as [a' b'] eqn:E2. injection H as <- <-.
      destruct (IH a' b' eq_refl) as (H1 & H2 & H3). split; [cbn [app]; f_equal; exact H1|].
      split; [constructor; [lia|exact H2]|exact H3].
    + injection H as <- <-. split; [reflexivity|]. split; [constructor|lia].
Qed.

Lemma drop_grp_spec v : forall gs, exists pre, gs = pre ++ drop_grp_last_lt gfirst glast v gs /\ Forall (fun g => glast g < v) pre.
Proof.
  induction gs as [|g r IH]; [exists []; cbn; auto|].
  cbn [drop_grp_last_lt]. destruct (glast g <? v) eqn:E.
  - destruct IH as (pre & H1 & H2). exists (g :: pre). split; [cbn [app]; f_equal; exact H1|].
    constructor; [lia|exact H2].
  - exists []. split; [reflexivity|constructor].
Qed.

Section MapIdx.
Variable B : Type.
Variable k : G -> xinter -> list B.
Definition kprop (g : G) : Prop := forall x, ~ (gfirst g <= x_src x <= glast g) -> k g x = [].
Definition Kall (gs : list G) (x : xinter) : list B := flat_map (fun g => k g x) gs.
Definition batches (R : list (G * list xinter)) : list B := flat_map (fun gv => flat_map (k (fst gv)) (snd gv)) R.

Lemma map_indexes_flat : forall fuel S gs, (length S + length gs <= fuel)%nat -> rs gs ->
  StronglySorted src_le S -> Forall kprop gs ->
  batches (map_indexes fuel gfirst glast S gs) = flat_map (Kall gs) S.
Proof.
  induction fuel as [|f IH]; intros S gs Hfuel Hrs Hss Hk.
  - destruct S; [reflexivity|]. cbn [length] in Hfuel. lia.
  - cbn [map_indexes]. destruct S as [|x0 S0]; [reflexivity|].
    destruct gs as [|g gr].
    { symmetry. apply fm_nil_all. intros. reflexivity. }
    set (S := x0 :: S0) in *.
    destruct (drop_src_lt_spec (gfirst g) S) as (pre & Hsplit & Hpre & Hhd).
    assert (Hpre0 : flat_map (Kall (g :: gr)) pre = []).
    { apply fm_nil_all. intros a Ha. unfold Kall. apply fm_nil_all. intros g' Hg'.
      rewrite Forall_forall in Hk, Hpre. apply (Hk g' Hg'). specialize (Hpre a Ha).
      pose proof (rs_le (g :: gr) g Hrs (or_introl eq_refl)) as Hfl.
      cbn [rs] in Hrs. destruct Hrs as (_ & Hall & _). rewrite Forall_forall in Hall.
      destruct Hg' as [<-|Hg']; [lia|]. specialize (Hall g' Hg'). lia. }
    rewrite Hsplit at 2. rewrite flat_map_app, Hpre0. cbn [app].
    rewrite Hsplit in Hss. apply ss_app_gen in Hss. destruct Hss as (_ & Hss & _).
    assert (Hlen : (length (drop_src_lt (gfirst g) S) <= length S)%nat).
    { rewrite Hsplit at 2. rewrite app_length. lia. }
    destruct (drop_src_lt (gfirst g) S) as [|x rest0] eqn:Erest; [reflexivity|].
    set (rest := x :: rest0) in *.
    assert (Hxle : forall y, In y rest -> x_src x <= x_src y).
    { intros y [<-|Hy]; [lia|]. apply StronglySorted_inv in Hss. destruct Hss as [_ Hall].
      rewrite Forall_forall in Hall. apply Hall. exact Hy. }
    destruct (glast g <? x_src x) eqn:Egap.
    + destruct (drop_grp_spec (x_src x) (g :: gr)) as (gpre & Hgs & Hgpre).
      assert (HK : forall y, In y rest -> Kall (g :: gr) y = Kall (drop_grp_last_lt gfirst glast (x_src x) (g :: gr)) y).
      { intros y Hy. rewrite Hgs at 1. unfold Kall. rewrite flat_map_app.
        rewrite fm_nil_all; [reflexivity|]. intros g' Hg'. rewrite Forall_forall in Hk, Hgpre.
        apply Hk; [rewrite Hgs; apply in_or_app; left; exact Hg'|].
        specialize (Hgpre g' Hg'). specialize (Hxle y Hy). lia. }
      rewrite (fm_ext_in _ _ rest HK).
      assert (Hglen : (length (drop_grp_last_lt gfirst glast (x_src x) (g :: gr)) < length (g :: gr))%nat).
      { cbn [drop_grp_last_lt]. rewrite Egap.
        destruct (drop_grp_spec (x_src x) gr) as (gp & Hg2 & _). cbn [length].
        rewrite Hg2 at 2. rewrite app_length. lia. }
      assert (Hrs' : rs (drop_grp_last_lt gfirst glast (x_src x) (g :: gr))).
      { apply (rs_suffix gpre). rewrite <- Hgs. exact Hrs. }
      assert (Hk' : Forall kprop (drop_grp_last_lt gfirst glast (x_src x) (g :: gr))).
      { rewrite Forall_forall in *. intros g' Hg'. apply Hk. rewrite Hgs. apply in_or_app. right. exact Hg'. }
      destruct (drop_grp_last_lt gfirst glast (x_src x) (g :: gr)) as [|g2 gr2] eqn:Egrp.
      * symmetry. apply fm_nil_all. intros. reflexivity.
      * apply IH; try assumption. cbn [length] in *. lia.
    + destruct (take_src_le (glast g) rest) as [mine rest'] eqn:Etake.
      destruct (take_src_le_spec _ _ _ _ Etake) as (Hr & Hmine & Hhd').
      unfold batches. cbn [flat_map fst snd]. fold (batches (map_indexes f gfirst glast rest' (g :: gr))).
      assert (Hmne : mine <> []).
      { unfold rest in Etake. cbn [take_src_le] in Etake.
        destruct (x_src x <=? glast g) eqn:E; [|lia].
        destruct (take_src_le (glast g) rest0). injection Etake as <- _. discriminate. }
      assert (Hss2 := Hss). rewrite Hr in Hss2. apply ss_app_gen in Hss2. destruct Hss2 as (_ & Hss' & _).
      rewrite IH; try assumption.
      2:{ assert (length rest = length mine + length rest')%nat by (rewrite Hr at 1; apply app_length).
          destruct mine; [congruence|]. cbn [length] in *. lia. }
      rewrite Hr. rewrite flat_map_app. f_equal.
      apply fm_ext_in. intros y Hy. unfold Kall. cbn [flat_map].
      rewrite fm_nil_all; [rewrite app_nil_r; reflexivity|]. intros g' Hg'.
      rewrite Forall_forall in Hk, Hmine. apply Hk; [right; exact Hg'|].
      specialize (Hmine y Hy). cbn [rs] in Hrs. destruct Hrs as (_ & Hall & _). rewrite Forall_forall in Hall.
      specialize (Hall g' Hg'). lia.
Qed.

Lemma map_indexes_batches : forall fuel S gs gv, In gv (map_indexes fuel gfirst glast S gs) ->
  In (fst gv) gs /\ seg (snd gv) S.
Proof.
  induction fuel as [|f IH]; intros S gs gv Hin; [destruct Hin|].
  cbn [map_indexes] in Hin. destruct S as [|x0 S0]; [destruct Hin|].
  destruct gs as [|g gr]; [destruct Hin|].
  set (S := x0 :: S0) in *.
  destruct (drop_src_lt_spec (gfirst g) S) as (pre & Hsplit & _ & _).
  assert (Hseg : seg (drop_src_lt (gfirst g) S) S) by (rewrite Hsplit at 2; apply seg_suffix).
  destruct (drop_src_lt (gfirst g) S) as [|x rest0] eqn:Erest; [destruct Hin|].
  set (rest := x :: rest0) in *.
  destruct (glast g <? x_src x) eqn:Egap.
  - destruct (drop_grp_spec (x_src x) (g :: gr)) as (gpre & Hgs & _).
    destruct (drop_grp_last_lt gfirst glast (x_src x) (g :: gr)) as [|g2 gr2] eqn:Egrp; [destruct Hin|].
    apply IH in Hin. destruct Hin as (H1 & H2). split.
    + rewrite Hgs. apply in_or_app. right. exact H1.
    + eapply seg_trans; eassumption.
  - destruct (take_src_le (glast g) rest) as [mine rest'] eqn:Etake.
    destruct (take_src_le_spec _ _ _ _ Etake) as (Hr & _ & _).
    destruct Hin as [<-|Hin].
    + cbn [fst snd]. split; [left; reflexivity|]. eapply seg_trans; [|exact Hseg]. rewrite Hr. apply seg_prefix.
    + apply IH in Hin. destruct Hin as (H1 & H2). split; [exact H1|].
      eapply seg_trans; [exact H2|]. eapply seg_trans; [|exact Hseg]. rewrite Hr. apply seg_suffix.
Qed.

Lemma xleb_trans : Transitive (fun x y => is_true (XOrder.leb x y)).
Proof.
  intros a b c. unfold XOrder.leb, is_true. intros H1 H2. lia.
Qed.

Lemma sort_src_sorted ext : StronglySorted src_le (XSort.sort ext).
Proof.
  apply (ss_weaken (fun x y => is_true (XOrder.leb x y))).
  - intros a b. unfold XOrder.leb, is_true, src_le. lia.
  - apply XSort.StronglySorted_sort. exact xleb_trans.
Qed.

Lemma mib_flat ext gs : rs gs -> Forall kprop gs ->
  Permutation (batches (map_indexes_and_blocks gfirst glast ext gs)) (flat_map (Kall gs) ext).
Proof.
  intros Hrs Hk. unfold map_indexes_and_blocks.
  destruct ext as [|x0 ext0]; [constructor|].
  destruct gs as [|g gr].
  { rewrite (fm_nil_all (Kall [])); [constructor|]. intros. reflexivity. }
  set (ext := x0 :: ext0). set (gs := g :: gr) in *.
  rewrite map_indexes_flat; try assumption.
  - apply Permutation_flat_map. apply Permutation_sym. apply XSort.Permuted_sort.
  - unfold map_fuel. lia.
  - apply sort_src_sorted.
Qed.

Lemma mib_batches ext gs gv : In gv (map_indexes_and_blocks gfirst glast ext gs) ->
  In (fst gv) gs /\ incl (snd gv) ext /\ forall p, (length (filter p (snd gv)) <= length (filter p ext))%nat.
Proof.
  unfold map_indexes_and_blocks. intros Hin.
  destruct ext as [|x0 ext0]; [destruct Hin|]. destruct gs as [|g gr]; [destruct Hin|].
  set (ext := x0 :: ext0) in *. set (gs := g :: gr) in *.
  apply map_indexes_batches in Hin. destruct Hin as (H1 & H2).
  pose proof (XSort.Permuted_sort ext) as Hp.
  split; [exact H1|]. split.
  - intros x Hx. apply (Permutation_in x (Permutation_sym Hp)). apply (seg_incl _ _ H2). exact Hx.
  - intros p. rewrite (Permutation_length (perm_filter p _ _ Hp)). apply seg_filter_len. exact H2.
Qed.
End MapIdx.

End Groups.

(* ------------------------------------------------------------------ *)
(* 4. records_of, classify, runs_by_target                             *)
(* ------------------------------------------------------------------ *)

Lemma zseq_zlen_length {A} (cells : list A) :
  zseq (zlen cells) = map (fun k => 0 + Z.of_nat k) (seq 0 (length cells)).
Proof.
  unfold zseq, zrange, zlen.
  replace (Z.to_nat (Z.of_nat (length cells) - 1 - 0 + 1)) with (length cells) by lia. reflexivity.
Qed.

Lemma combine_seq_In : forall (cells : list Z) s k c,
  In (k, c) (combine (map (fun j => 0 + Z.of_nat j) (seq s (length cells))) cells) ->
  exists j, (j < length cells)%nat /\ k = Z.of_nat (s + j) /\ nth_error cells j = Some c.
Proof.
  induction cells as [|a r IH]; intros s k c H; [destruct H|].
  cbn [length seq map combine] in H. destruct H as [H|H].
  - injection H as <- <-. exists 0%nat. cbn [length nth_error]. split; [lia|]. split; [lia|reflexivity].
  - apply IH in H. destruct H as (j & Hj & Hk & Hn). exists (S j). cbn [length nth_error].
    split; [lia|]. split; [lia|exact Hn].
Qed.

Lemma records_In cells f x : In x (records_of cells f) ->
  0 <= x_tpos x < zlen cells /\ (forall dflt, znth cells (x_tpos x) dflt = x_tgt x) /\ In (x_tgt x) cells.
Proof.
  unfold records_of. intros H. apply in_flat_map in H. destruct H as ((k & c) & Hkc & Hx).
  apply in_map_iff in Hx. destruct Hx as (sc & <- & _). cbn [x_tpos x_tgt fst snd].
  rewrite zseq_zlen_length in Hkc. apply combine_seq_In in Hkc. destruct Hkc as (j & Hj & -> & Hn).
  cbn [Nat.add]. unfold zlen. split; [lia|]. split.
  - intros dflt. rewrite znth_nat by lia. rewrite Nat2Z.id. apply nth_error_nth. exact Hn.
  - eapply nth_error_In. exact Hn.
Qed.

Lemma records_flat {B} (h : Z -> Z -> Z -> list B) cells f :
  flat_map (fun x => h (x_tgt x) (x_src x) (x_code x)) (records_of cells f)
  = flat_map (fun t => flat_map (fun sc => h t (fst sc) (snd sc)) (f t)) cells.
Proof.
  unfold records_of. rewrite fm_fm.
  transitivity (flat_map (fun t => flat_map (fun sc => h t (fst sc) (snd sc)) (f t))
                         (map snd (combine (zseq (zlen cells)) cells))).
  - rewrite fm_map. apply flat_map_ext. intros kc. rewrite fm_map. reflexivity.
  - rewrite map_snd_combine'; [reflexivity|].
    rewrite zseq_zlen_length, map_length, seq_length. reflexivity.
Qed.

Definition recs_of_pairs (f : Z -> list (Z * Z)) (kcs : list (Z * Z)) : list xinter :=
  flat_map (fun kc => map (fun sc => {| x_tgt := snd kc; x_src := fst sc; x_tpos := fst kc; x_code := snd sc |})
                          (f (snd kc))) kcs.

Lemma recs_pairs_absent f t : forall kcs, ~ In t (map snd kcs) ->
  filter (fun x => x_tgt x =? t) (recs_of_pairs f kcs) = [].
Proof.
  intros kcs Hn. apply filter_none. intros x Hx. unfold recs_of_pairs in Hx.
  apply in_flat_map in Hx. destruct Hx as (kc & Hkc & Hx). apply in_map_iff in Hx. destruct Hx as (sc & <- & _).
  cbn [x_tgt]. destruct (Z.eqb_spec (snd kc) t) as [E|E]; [|reflexivity].
  exfalso. apply Hn. rewrite <- E. apply in_map. exact Hkc.
Qed.

Lemma recs_pairs_count f t : forall kcs, NoDup (map snd kcs) ->
  (length (filter (fun x => (x_tgt x =? t)%Z) (recs_of_pairs f kcs)) <= length (f t))%nat.
Proof.
  induction kcs as [|kc r IH]; intros Hnd; [cbn; lia|].
  cbn [map] in Hnd. apply NoDup_cons_iff in Hnd. destruct Hnd as [Hnin Hnd].
  unfold recs_of_pairs. cbn [flat_map]. fold (recs_of_pairs f r). rewrite filter_app, app_length.
  destruct (Z.eq_dec (snd kc) t) as [E|E].
  - rewrite (recs_pairs_absent f t r) by (rewrite <- E; exact Hnin). cbn [length].
    pose proof (filter_length_le' (fun x => x_tgt x =? t)
      (map (fun sc => {| x_tgt := snd kc; x_src := fst sc; x_tpos := fst kc; x_code := snd sc |}) (f (snd kc)))) as Hl.
    rewrite map_length, E in Hl. rewrite E. lia.
  - rewrite filter_none.
    + cbn [length]. specialize (IH Hnd). lia.
    + intros x Hx. apply in_map_iff in Hx. destruct Hx as (sc & <- & _). cbn [x_tgt]. lia.
Qed.

Lemma records_count cells f t : NoDup cells ->
  (length (filter (fun x => (x_tgt x =? t)%Z) (records_of cells f)) <= length (f t))%nat.
Proof.
  intros Hnd. apply (recs_pairs_count f t (combine (zseq (zlen cells)) cells)).
  rewrite map_snd_combine'; [exact Hnd|].
  rewrite zseq_zlen_length, map_length, seq_length. reflexivity.
Qed.

Lemma classify_filter first last find recs :
  classify first last true find recs =
  (filter (fun r => (first <=? x_src r) && (x_src r <=? last) && match find (x_src r) with Some _ => true | None => false end) recs,
   filter (fun r => negb ((first <=? x_src r) && (x_src r <=? last))) recs).
Proof.
  unfold classify. induction recs as [|r recs IH]; [reflexivity|].
  cbn [fold_right filter]. rewrite IH. cbn [fst snd negb orb].
  destruct ((first <=? x_src r) && (x_src r <=? last)); cbn [andb negb]; [|reflexivity].
  destruct (find (x_src r)); reflexivity.
Qed.

Definition uniform (run : list xinter) : Prop := forall x y, In x run -> In y run -> x_tgt x = x_tgt y.

Lemma runs_concat : forall l cur, concat (runs_by_target l cur) = rev cur ++ l.
Proof.
  induction l as [|x r IH]; intros cur; cbn [runs_by_target].
  - destruct cur as [|y c]; [reflexivity|]. cbn [concat]. reflexivity.
  - destruct cur as [|y c].
    + rewrite IH. reflexivity.
    + destruct (x_tgt y =? x_tgt x).
      * rewrite IH. cbn [rev]. rewrite <- app_assoc. reflexivity.
      * cbn [concat]. rewrite IH. reflexivity.
Qed.

Lemma uniform_rev cur : uniform cur -> uniform (rev cur).
Proof. intros H x y Hx Hy. apply H; apply in_rev; assumption. Qed.

Lemma runs_ok : forall l cur, uniform cur -> Forall (fun run => run <> [] /\ uniform run) (runs_by_target l cur).
Proof.
  induction l as [|x r IH]; intros cur Hu; cbn [runs_by_target].
  - destruct cur as [|y c]; [constructor|]. constructor; [|constructor]. split.
    + cbn [rev]. intros E. apply app_eq_nil in E. destruct E as [_ E]. discriminate.
    + apply uniform_rev. exact Hu.
  - destruct cur as [|y c].
    + apply IH. intros a b [<-|[]] [<-|[]]. reflexivity.
    + destruct (Z.eqb_spec (x_tgt y) (x_tgt x)) as [E|E].
      * apply IH. intros a b Ha Hb.
        assert (Hy : forall z, In z (x :: y :: c) -> x_tgt z = x_tgt y).
        { intros z [<-|Hz]; [symmetry; exact E|]. apply Hu; [exact Hz|left; reflexivity]. }
        rewrite (Hy a Ha), (Hy b Hb). reflexivity.
      * constructor.
        -- split; [|apply uniform_rev; exact Hu].
           cbn [rev]. intros E'. apply app_eq_nil in E'. destruct E' as [_ E']. discriminate.
        -- apply IH. intros a b [<-|[]] [<-|[]]. reflexivity.
Qed.

Lemma runs_seg v run : In run (runs_by_target v []) -> seg run v.
Proof.
  intros H. apply in_split in H. destruct H as (r1 & r2 & E).
  pose proof (runs_concat v []) as Hc. rewrite E in Hc. rewrite concat_app in Hc. cbn [concat rev app] in Hc.
  exists (concat r1), (concat r2). symmetry. exact Hc.
Qed.

Lemma runs_props v run : In run (runs_by_target v []) -> run <> [] /\ uniform run /\ seg run v.
Proof.
  intros H. pose proof (runs_ok v [] ltac:(intros x y [])) as Hok. rewrite Forall_forall in Hok.
  destruct (Hok run H) as (H1 & H2). split; [exact H1|]. split; [exact H2|]. apply runs_seg. exact H.
Qed.

Lemma runs_flat {B} (h : xinter -> list B) v : flat_map (fun run => flat_map h run) (runs_by_target v []) = flat_map h v.
Proof. rewrite <- fm_concat. rewrite runs_concat. reflexivity. Qed.

(* ------------------------------------------------------------------ *)
(* 5. one level, abstractly                                            *)
(* ------------------------------------------------------------------ *)

Section LevelPerm.
Variable G : Type.
Variables (idx : G -> list Z) (gfirst glast gn : G -> Z).
Variable B : Type.
Variable f : Z -> list (Z * Z).
Variable e' : Z -> Z -> Z -> B.

Notation find := (gfind1 G idx gn).
Definition ev (x : xinter) : B := e' (x_tgt x) (x_src x) (x_code x).
Definition kk (g : G) (x : xinter) : list B := match find g (x_src x) with Some _ => [ev x] | None => [] end.
Definition recs (g : G) : list xinter := records_of (idx g) f.
Definition inr (g : G) (x : xinter) : bool := (gfirst g <=? x_src x) && (x_src x <=? glast g).
Definition pin (g : G) (x : xinter) : bool := inr g x && match find g (x_src x) with Some _ => true | None => false end.
Definition pout (g : G) (x : xinter) : bool := negb (inr g x).
Definition HH (cells : list Z) (x : xinter) : list B := if zmem (x_src x) cells then [ev x] else [].

Variable gs : list G.
Hypothesis gs_ok : Forall (gok G idx gfirst glast gn) gs.
Hypothesis gs_sorted : StronglySorted Z.lt (lev G idx gs).

Lemma kk_prop : Forall (kprop G gfirst glast B kk) gs.
Proof.
  rewrite Forall_forall. intros g Hg x Hx. unfold kk. destruct (find g (x_src x)) as [k|] eqn:E; [|reflexivity].
  exfalso. apply Hx. apply (gok_range G idx gfirst glast gn g).
  - exact (g_ok G idx gfirst glast gn gs gs_ok g Hg).
  - exact (g_sorted G idx gfirst glast gn gs gs_ok gs_sorted g Hg).
  - apply (gfind1_In G idx gfirst glast gn g _ k); [exact (g_ok G idx gfirst glast gn gs gs_ok g Hg)| |exact E].
    exact (g_sorted G idx gfirst glast gn gs gs_ok gs_sorted g Hg).
Qed.

Lemma Kall_HH x : Kall G B kk gs x = HH (lev G idx gs) x.
Proof. unfold Kall, kk, HH. apply (K_char G idx gfirst glast gn); assumption. Qed.

Lemma pin_HH g x : In g gs -> pin g x = true -> HH (lev G idx gs) x = [ev x].
Proof.
  intros Hg Hp. unfold pin in Hp. apply andb_true_iff in Hp. destruct Hp as [_ Hp].
  destruct (find g (x_src x)) as [k|] eqn:E; [|discriminate].
  unfold HH. destruct (zmem_In (x_src x) (lev G idx gs)) as [_ Hz]. rewrite Hz; [reflexivity|].
  apply (lev_incl G idx gs g); [exact Hg|].
  apply (gfind1_In G idx gfirst glast gn g _ k); [exact (g_ok G idx gfirst glast gn gs gs_ok g Hg)| |exact E].
  exact (g_sorted G idx gfirst glast gn gs gs_ok gs_sorted g Hg).
Qed.

Lemma in_filter_eq g : In g gs -> forall l,
  flat_map (HH (lev G idx gs)) (filter (fun a => negb (pout g a)) l) = flat_map (HH (lev G idx gs)) (filter (pin g) l).
Proof.
  intros Hg. induction l as [|a l IH]; [reflexivity|]. cbn [filter].
  assert (Ho : pout g a = negb (inr g a)) by reflexivity.
  assert (Hi : pin g a = inr g a && match find g (x_src a) with Some _ => true | None => false end) by reflexivity.
  rewrite Ho, Hi. clear Ho Hi.
  destruct (inr g a) eqn:Er; cbn [negb andb]; [|exact IH].
  destruct (find g (x_src a)) as [k|] eqn:E.
  - cbn [flat_map]. f_equal. exact IH.
  - cbn [flat_map]. rewrite IH.
    assert (Hn : HH (lev G idx gs) a = []).
    { unfold HH. destruct (zmem (x_src a) (lev G idx gs)) eqn:Ez; [|reflexivity]. exfalso.
      apply zmem_In in Ez. unfold inr in Er.
      apply (own_range G idx gfirst glast gn gs gs_ok gs_sorted g) in Ez; [|exact Hg|lia].
      apply (gfind1_none G idx gfirst glast gn g (x_src a)) in E; [contradiction| |].
      - exact (g_ok G idx gfirst glast gn gs gs_ok g Hg).
      - exact (g_sorted G idx gfirst glast gn gs gs_ok gs_sorted g Hg). }
    rewrite Hn. reflexivity.
Qed.

Definition group_out (g : G) : list B :=
  batches G B kk (map_indexes_and_blocks gfirst glast (filter (pout g) (recs g)) gs)
  ++ flat_map (fun x => [ev x]) (filter (pin g) (recs g)).

Lemma group_perm g : In g gs -> Permutation (group_out g) (flat_map (HH (lev G idx gs)) (recs g)).
Proof.
  intros Hg. unfold group_out.
  eapply Permutation_trans.
  { apply Permutation_app; [|apply Permutation_refl].
    apply (mib_flat G gfirst glast B kk); [exact (gs_rs G idx gfirst glast gn gs gs_ok gs_sorted)|exact kk_prop]. }
  rewrite (flat_map_ext _ _ Kall_HH).
  rewrite <- (fm_ext_in (HH (lev G idx gs)) (fun x => [ev x]) (filter (pin g) (recs g))).
  2:{ intros x Hx. apply filter_In in Hx. apply (pin_HH g x Hg). apply Hx. }
  apply Permutation_sym.
  eapply Permutation_trans; [apply (perm_fm_split _ (pout g))|].
  apply Permutation_app_head. rewrite (in_filter_eq g Hg). apply Permutation_refl.
Qed.

Theorem level_perm :
  Permutation (flat_map group_out gs)
    (flat_map (fun t => flat_map (fun sc => if zmem (fst sc) (lev G idx gs) then [e' t (fst sc) (snd sc)] else []) (f t))
              (lev G idx gs)).
Proof.
  eapply Permutation_trans; [apply perm_fm_pointwise; exact group_perm|].
  match goal with |- Permutation ?a ?b => replace b with a; [apply Permutation_refl|] end.
  unfold lev at 3. rewrite fm_fm. apply flat_map_ext. intros g.
  exact (records_flat (fun t s c => if zmem s (lev G idx gs) then [e' t s c] else []) (idx g) f).
Qed.

(* facts about the batches handed to the groups *)
Lemma batch_facts g gv : In g gs -> In gv (map_indexes_and_blocks gfirst glast (filter (pout g) (recs g)) gs) ->
  In (fst gv) gs /\ incl (snd gv) (recs g)
  /\ forall t, (length (filter (fun x => (x_tgt x =? t)%Z) (snd gv)) <= length (f t))%nat.
Proof.
  intros Hg Hin. apply mib_batches in Hin. destruct Hin as (H1 & H2 & H3).
  split; [exact H1|]. split.
  - intros x Hx. apply H2 in Hx. apply filter_In in Hx. apply Hx.
  - intros t. eapply Nat.le_trans; [apply H3|].
    eapply Nat.le_trans; [|apply (records_count (idx g) f t)].
    + apply filter_filter_len.
    + apply ss_lt_NoDup. exact (g_sorted G idx gfirst glast gn gs gs_ok gs_sorted g Hg).
Qed.
End LevelPerm.

(* ------------------------------------------------------------------ *)
(* 6. traces                                                           *)
(* ------------------------------------------------------------------ *)

Lemma no_assert_nil : no_assert [].
Proof. intros id []. Qed.

Lemma no_assert_app a b : no_assert a -> no_assert b -> no_assert (a ++ b).
Proof. intros Ha Hb id H. apply in_app_or in H. destruct H as [H|H]; [exact (Ha id H)|exact (Hb id H)]. Qed.

Lemma no_assert_fm {A} (F : A -> list call) l : (forall a, In a l -> no_assert (F a)) -> no_assert (flat_map F l).
Proof. intros H id Hin. apply in_flat_map in Hin. destruct Hin as (a & Ha & Hin). exact (H a Ha id Hin). Qed.

Lemma elementary_app a b : elementary (a ++ b) = elementary a ++ elementary b.
Proof. apply flat_map_app. Qed.

Lemma elementary_fm {A} (F : A -> list call) l : elementary (flat_map F l) = flat_map (fun a => elementary (F a)) l.
Proof. apply fm_fm. Qed.

Lemma fm_single {A B} (h : A -> B) l : flat_map (fun x => [h x]) l = map h l.
Proof. induction l as [|a l IH]; [reflexivity|]. cbn [flat_map map app]. rewrite IH. reflexivity. Qed.

(* ------------------------------------------------------------------ *)
(* 7. M2L                                                              *)
(* ------------------------------------------------------------------ *)

Definition rec_ok (g : cgroup) (x : xinter) : Prop :=
  cg_find g (x_tgt x) = Some (x_tpos x) /\ znth (cg_cells g) (x_tpos x) (-1) = x_tgt x.

Definition between_body (d : nat) (lvl : Z) (tgt src : cgroup) (run : list xinter) : list call :=
    match run with
    | [] => []
    | x0 :: _ =>
        let srcs := flat_map (fun x => match cg_find src (x_src x) with Some _ => [(x_src x, x_code x)] | None => [] end) run in
        let chk := if forallb (fun x => match cg_find tgt (x_tgt x) with Some k => k =? x_tpos x | None => false end)
                              (filter (fun x => match cg_find src (x_src x) with Some _ => true | None => false end) run)
                   then [] else [CAssert 145] in
        let chk2 := if zlen srcs <=? nb_interactions d then [] else [CAssert 148] in
        match srcs with
        | [] => chk
        | _ => chk ++ chk2 ++ [CM2L lvl (znth (cg_cells tgt) (x_tpos x0) (-1)) srcs]
        end
    end.

Lemma m2l_between_unfold d lvl tgt src view :
  m2l_between d lvl tgt src view = flat_map (between_body d lvl tgt src) (runs_by_target view []).
Proof. reflexivity. Qed.

Definition in_body (d : nat) (lvl : Z) (g : cgroup) (run : list xinter) : list call :=
    match run with
    | [] => []
    | x0 :: _ =>
        let chk := if forallb (fun x => match cg_find g (x_src x) with Some _ => true | None => false end) run then [] else [CAssert 101] in
        let chk1 := if forallb (fun x => match cg_find g (x_tgt x) with Some k => k =? x_tpos x | None => false end) run then [] else [CAssert 102] in
        let chk2 := if zlen run <=? nb_interactions d then [] else [CAssert 105] in
        chk ++ chk1 ++ chk2 ++ [CM2L lvl (znth (cg_cells g) (x_tpos x0) (-1)) (map (fun x => (x_src x, x_code x)) run)]
    end.

Lemma m2l_in_group_unfold d lvl g lst :
  m2l_in_group d lvl g lst = flat_map (in_body d lvl g) (runs_by_target lst []).
Proof. reflexivity. Qed.

Definition em2l (lvl : Z) (x : xinter) : elem := EM2L lvl (x_tgt x) (x_src x) (x_code x).

Lemma between_body_nf d lvl g G run : run <> [] -> uniform run -> Forall (rec_ok g) run ->
  zlen run <= nb_interactions d ->
  no_assert (between_body d lvl g G run) /\
  elementary (between_body d lvl g G run)
  = flat_map (fun x => match cg_find G (x_src x) with Some _ => [em2l lvl x] | None => [] end) run.
Proof.
  destruct run as [|x0 r]; [congruence|]. intros _ Hu Hok Hlen. unfold between_body. cbv zeta.
  set (F := fun x : xinter => match cg_find G (x_src x) with Some _ => [(x_src x, x_code x)] | None => [] end).
  set (srcs := flat_map F (x0 :: r)).
  rewrite Forall_forall in Hok.
  assert (Hchk : forallb (fun x => match cg_find g (x_tgt x) with Some k => k =? x_tpos x | None => false end)
                   (filter (fun x => match cg_find G (x_src x) with Some _ => true | None => false end) (x0 :: r)) = true).
  { apply forallb_forall. intros x Hx. apply filter_In in Hx. destruct Hx as [Hx _].
    destruct (Hok x Hx) as [E _]. rewrite E. apply Z.eqb_refl. }
  rewrite Hchk.
  assert (Hchk2 : (zlen srcs <=? nb_interactions d) = true).
  { apply Z.leb_le. unfold zlen in *.
    assert (Hl : (length srcs <= length (x0 :: r))%nat).
    { apply fm_le1_length. intros a. unfold F. destruct (cg_find G (x_src a)); cbn; lia. }
    lia. }
  rewrite Hchk2. cbn [app].
  destruct (Hok x0 (or_introl eq_refl)) as [_ Ht]. rewrite Ht.
  assert (Hel : map (fun sc => EM2L lvl (x_tgt x0) (fst sc) (snd sc)) srcs
                = flat_map (fun x => match cg_find G (x_src x) with Some _ => [em2l lvl x] | None => [] end) (x0 :: r)).
  { unfold srcs. rewrite map_fm. apply fm_ext_in. intros x Hx. unfold F, em2l.
    rewrite (Hu x x0 Hx (or_introl eq_refl)). destruct (cg_find G (x_src x)); reflexivity. }
  destruct srcs as [|s0 sr] eqn:Es.
  - split; [apply no_assert_nil|]. rewrite <- Hel. reflexivity.
  - split.
    + intros id [H|[]]. discriminate.
    + unfold elementary. cbn [flat_map elems_of_call]. rewrite app_nil_r. exact Hel.
Qed.

Lemma in_body_nf d lvl g run : run <> [] -> uniform run -> Forall (rec_ok g) run ->
  (forall x, In x run -> exists k, cg_find g (x_src x) = Some k) ->
  zlen run <= nb_interactions d ->
  no_assert (in_body d lvl g run) /\ elementary (in_body d lvl g run) = flat_map (fun x => [em2l lvl x]) run.
Proof.
  destruct run as [|x0 r]; [congruence|]. intros _ Hu Hok Hsrc Hlen. unfold in_body. cbv zeta.
  rewrite Forall_forall in Hok.
  assert (Hchk : forallb (fun x => match cg_find g (x_src x) with Some _ => true | None => false end) (x0 :: r) = true).
  { apply forallb_forall. intros x Hx. destruct (Hsrc x Hx) as (k & E). rewrite E. reflexivity. }
  assert (Hchk1 : forallb (fun x => match cg_find g (x_tgt x) with Some k => k =? x_tpos x | None => false end) (x0 :: r) = true).
  { apply forallb_forall. intros x Hx. destruct (Hok x Hx) as [E _]. rewrite E. apply Z.eqb_refl. }
  assert (Hchk2 : (zlen (x0 :: r) <=? nb_interactions d) = true) by (apply Z.leb_le; exact Hlen).
  rewrite Hchk, Hchk1, Hchk2. cbn [app].
  destruct (Hok x0 (or_introl eq_refl)) as [_ Ht]. rewrite Ht. split.
  - intros id [H|[]]. discriminate.
  - rewrite fm_single. unfold elementary. cbn [flat_map elems_of_call]. rewrite app_nil_r, map_map.
    apply map_ext_in. intros x Hx. unfold em2l. cbn [fst snd].
    rewrite (Hu x x0 Hx (or_introl eq_refl)). reflexivity.
Qed.

Lemma run_length_bound (N : Z) v run : In run (runs_by_target v []) ->
  (forall x, In x v -> zlen (filter (fun y => x_tgt y =? x_tgt x) v) <= N) -> zlen run <= N.
Proof.
  intros Hrun Hb. destruct (runs_props v run Hrun) as (Hne & Hu & Hseg).
  destruct run as [|x0 r]; [congruence|].
  assert (Hx0 : In x0 v) by (apply (seg_incl _ _ Hseg); left; reflexivity).
  specialize (Hb x0 Hx0).
  pose proof (seg_filter_len (fun y => x_tgt y =? x_tgt x0) _ _ Hseg) as Hl.
  rewrite (filter_all _ (x0 :: r)) in Hl.
  - unfold zlen in *. lia.
  - intros a Ha. apply Z.eqb_eq. apply Hu; [exact Ha|left; reflexivity].
Qed.

Lemma m2l_between_ok d lvl g G v : Forall (rec_ok g) v ->
  (forall x, In x v -> zlen (filter (fun y => x_tgt y =? x_tgt x) v) <= nb_interactions d) ->
  no_assert (m2l_between d lvl g G v) /\
  elementary (m2l_between d lvl g G v)
  = flat_map (fun x => match cg_find G (x_src x) with Some _ => [em2l lvl x] | None => [] end) v.
Proof.
  intros Hok Hb. rewrite m2l_between_unfold.
  assert (Hrun : forall run, In run (runs_by_target v []) ->
            no_assert (between_body d lvl g G run) /\
            elementary (between_body d lvl g G run)
            = flat_map (fun x => match cg_find G (x_src x) with Some _ => [em2l lvl x] | None => [] end) run).
  { intros run Hrun. destruct (runs_props v run Hrun) as (Hne & Hu & Hseg).
    apply between_body_nf; try assumption.
    - rewrite Forall_forall in *. intros x Hx. apply Hok. apply (seg_incl _ _ Hseg). exact Hx.
    - apply (run_length_bound _ v run Hrun Hb). }
  split.
  - apply no_assert_fm. intros run Hr. apply (Hrun run Hr).
  - rewrite elementary_fm. rewrite (fm_ext_in _ _ _ (fun run Hr => proj2 (Hrun run Hr))).
    apply runs_flat.
Qed.

Lemma m2l_in_group_ok d lvl g v : Forall (rec_ok g) v ->
  (forall x, In x v -> exists k, cg_find g (x_src x) = Some k) ->
  (forall x, In x v -> zlen (filter (fun y => x_tgt y =? x_tgt x) v) <= nb_interactions d) ->
  no_assert (m2l_in_group d lvl g v) /\ elementary (m2l_in_group d lvl g v) = flat_map (fun x => [em2l lvl x]) v.
Proof.
  intros Hok Hsrc Hb. rewrite m2l_in_group_unfold.
  assert (Hrun : forall run, In run (runs_by_target v []) ->
            no_assert (in_body d lvl g run) /\ elementary (in_body d lvl g run) = flat_map (fun x => [em2l lvl x]) run).
  { intros run Hrun. destruct (runs_props v run Hrun) as (Hne & Hu & Hseg).
    apply in_body_nf; try assumption.
    - rewrite Forall_forall in *. intros x Hx. apply Hok. apply (seg_incl _ _ Hseg). exact Hx.
    - intros x Hx. apply Hsrc. apply (seg_incl _ _ Hseg). exact Hx.
    - apply (run_length_bound _ v run Hrun Hb). }
  split.
  - apply no_assert_fm. intros run Hr. apply (Hrun run Hr).
  - rewrite elementary_fm. rewrite (fm_ext_in _ _ _ (fun run Hr => proj2 (Hrun run Hr))).
    apply runs_flat.
Qed.

Lemma records_nil cells (f0 : Z -> list (Z * Z)) : (forall t, f0 t = []) -> records_of cells f0 = [].
Proof. intros H. unfold records_of. apply fm_nil_all. intros kc _. rewrite H. reflexivity. Qed.

Lemma recs_rec_ok (f0 : Z -> list (Z * Z)) g x : cgroup_ok g -> StronglySorted Z.lt (cg_cells g) ->
  In x (records_of (cg_cells g) f0) -> rec_ok g x.
Proof.
  intros Hg Hsg Hx. apply records_In in Hx. destruct Hx as (Hpos & Hz & _). split; [|apply Hz].
  apply (gfind1_some cgroup cg_cells cg_first cg_last cg_n g (x_tgt x) (x_tpos x) Hg Hsg).
  split; [exact Hpos|apply Hz].
Qed.

Definition m2l_group_calls (d : nat) (per : bool) (l : Z) (groups : list cgroup) (g : cgroup) : list call :=
  let '(internal, external) := ilist_block d per l true g in
  flat_map (fun gv => m2l_between d l g (fst gv) (snd gv)) (map_indexes_and_blocks cg_first cg_last external groups)
  ++ m2l_in_group d l g internal.

Definition m2l_level (d : nat) (per : bool) (l : Z) (groups : list cgroup) : list call :=
  flat_map (fun g =>
    let '(internal, external) := ilist_block d per l true g in
    flat_map (fun gv => m2l_between d l g (fst gv) (snd gv)) (map_indexes_and_blocks cg_first cg_last external groups)
    ++ m2l_in_group d l g internal) groups.

Lemma m2l_level_groups d per l groups : m2l_level d per l groups = flat_map (m2l_group_calls d per l groups) groups.
Proof. reflexivity. Qed.

Section M2LLevel.
Variables (d : nat) (per : bool) (l : Z) (groups : list cgroup).
Hypothesis Hlev : level_ok groups.
Hypothesis Hlen : forall t, In t (level_cells groups) -> zlen (ilist_cell d per l t) <= nb_interactions d.

Notation f := (ilist_cell d per l).
Notation cpin := (pin cgroup cg_cells cg_first cg_last cg_n).
Notation cpout := (pout cgroup cg_first cg_last).
Notation crecs := (recs cgroup cg_cells f).

Lemma c_ok : Forall (gok cgroup cg_cells cg_first cg_last cg_n) groups.
Proof. exact (proj1 Hlev). Qed.
Lemma c_sorted : StronglySorted Z.lt (lev cgroup cg_cells groups).
Proof. exact (proj2 Hlev). Qed.

Lemma ilist_block_eq g : ilist_block d per l true g = (filter (cpin g) (crecs g), filter (cpout g) (crecs g)).
Proof.
  unfold ilist_block. destruct (ilist_active per l) eqn:E; cbn [negb].
  - rewrite classify_filter. reflexivity.
  - unfold recs. rewrite records_nil; [reflexivity|]. intros t. unfold ilist_cell. rewrite E. reflexivity.
Qed.

Lemma m2l_group g : In g groups ->
  no_assert (m2l_group_calls d per l groups g) /\
  elementary (m2l_group_calls d per l groups g)
  = group_out cgroup cg_cells cg_first cg_last cg_n elem f (EM2L l) groups g.
Proof.
  intros Hg. unfold m2l_group_calls. rewrite ilist_block_eq.
  pose proof (g_ok cgroup cg_cells cg_first cg_last cg_n groups c_ok g Hg) as Hgo.
  pose proof (g_sorted cgroup cg_cells cg_first cg_last cg_n groups c_ok c_sorted g Hg) as Hgs.
  assert (Hrec : forall x, In x (crecs g) -> rec_ok g x).
  { intros x Hx. apply (recs_rec_ok f g x Hgo Hgs Hx). }
  assert (Hcnt : forall v, (forall t, (length (filter (fun x => (x_tgt x =? t)%Z) v) <= length (f t))%nat) ->
            incl v (crecs g) -> forall x, In x v -> zlen (filter (fun y => x_tgt y =? x_tgt x) v) <= nb_interactions d).
  { intros v Hv Hincl x Hx. specialize (Hv (x_tgt x)).
    assert (Hin : In (x_tgt x) (level_cells groups)).
    { apply (lev_incl cgroup cg_cells groups g _ Hg). apply (records_In (cg_cells g) f x). apply Hincl. exact Hx. }
    specialize (Hlen _ Hin). unfold zlen in *. lia. }
  assert (HA : forall gv, In gv (map_indexes_and_blocks cg_first cg_last (filter (cpout g) (crecs g)) groups) ->
            no_assert (m2l_between d l g (fst gv) (snd gv)) /\
            elementary (m2l_between d l g (fst gv) (snd gv))
            = flat_map (kk cgroup cg_cells cg_n elem (EM2L l) (fst gv)) (snd gv)).
  { intros gv Hgv.
    destruct (batch_facts cgroup cg_cells cg_first cg_last cg_n f groups c_ok c_sorted g gv Hg Hgv) as (H1 & H2 & H3).
    apply (m2l_between_ok d l g (fst gv) (snd gv)).
    - rewrite Forall_forall. intros x Hx. apply Hrec. apply H2. exact Hx.
    - apply Hcnt; assumption. }
  assert (HB : no_assert (m2l_in_group d l g (filter (cpin g) (crecs g))) /\
               elementary (m2l_in_group d l g (filter (cpin g) (crecs g)))
               = flat_map (fun x => [ev elem (EM2L l) x]) (filter (cpin g) (crecs g))).
  { apply (m2l_in_group_ok d l g).
    - rewrite Forall_forall. intros x Hx. apply Hrec. apply filter_In in Hx. apply Hx.
    - intros x Hx. apply filter_In in Hx. destruct Hx as [_ Hp]. unfold pin in Hp.
      apply andb_true_iff in Hp. destruct Hp as [_ Hp].
      destruct (gfind1 cgroup cg_cells cg_n g (x_src x)) as [k|] eqn:E; [|discriminate]. exists k. exact E.
    - apply Hcnt.
      + intros t. eapply Nat.le_trans; [apply filter_filter_len|].
        apply (records_count (cg_cells g) f t). apply ss_lt_NoDup. exact Hgs.
      + intros x Hx. apply filter_In in Hx. apply Hx. }
  split.
  - apply no_assert_app; [|apply HB]. apply no_assert_fm. intros gv Hgv. apply (HA gv Hgv).
  - rewrite elementary_app, elementary_fm. unfold group_out, batches. f_equal; [|apply HB].
    apply fm_ext_in. intros gv Hgv. apply (HA gv Hgv).
Qed.

Theorem m2l_level_exact_sec :
  no_assert (m2l_level d per l groups) /\
  Permutation (elementary (m2l_level d per l groups)) (spec_m2l d per l (level_cells groups)).
Proof.
  rewrite m2l_level_groups. split.
  - apply no_assert_fm. intros g Hg. apply (m2l_group g Hg).
  - rewrite elementary_fm. rewrite (fm_ext_in _ _ _ (fun g Hg => proj2 (m2l_group g Hg))).
    exact (level_perm cgroup cg_cells cg_first cg_last cg_n elem f (EM2L l) groups c_ok c_sorted).
Qed.
End M2LLevel.

(* one level of the transfer pass: whatever the grouping, every (target cell, existing member of its interaction list)
   pair is handed to the kernel exactly once, and no internal assertion (CAssert) fires *)
Theorem m2l_level_exact : forall d per l groups, level_ok groups ->
  (forall t, In t (level_cells groups) -> zlen (ilist_cell d per l t) <= nb_interactions d) ->
  no_assert (m2l_level d per l groups) /\
  Permutation (elementary (m2l_level d per l groups)) (spec_m2l d per l (level_cells groups)).
Proof. exact m2l_level_exact_sec. Qed.

Theorem pass_M2L_unfold : forall d per s t,
  pass_M2L d per s t = flat_map (fun l => m2l_level d per l (levels_of t l)) (zrange s (height t - 1)).
Proof. reflexivity. Qed.

(* ------------------------------------------------------------------ *)
(* 8. P2P                                                              *)
(* ------------------------------------------------------------------ *)

Lemma leaf_at_index g k : 0 <= k < zlen (pg_leaves g) -> lf_index (leaf_at g k) = znth (pg_indices g) k 0.
Proof.
  intros Hk. unfold leaf_at, pg_indices. rewrite znth_nat by lia. unfold zlen in Hk.
  set (dflt := {| lf_index := -1; lf_n := 0; lf_off := 0; lf_parts := [] |}).
  rewrite (nth_indep (map lf_index (pg_leaves g)) 0 (lf_index dflt)) by (rewrite map_length; lia).
  rewrite map_nth. reflexivity.
Qed.

Lemma leaf_at_In g k : 0 <= k < zlen (pg_leaves g) -> In (leaf_at g k) (pg_leaves g).
Proof. intros Hk. unfold leaf_at. apply nth_In. unfold zlen in Hk. lia. Qed.

Lemma parts_of_leaf : forall lvs lf, NoDup (map lf_index lvs) -> In lf lvs -> parts_of lvs (lf_index lf) = lf_parts lf.
Proof.
  unfold parts_of. induction lvs as [|a lvs IH]; intros lf Hnd Hin; [destruct Hin|].
  cbn [map] in Hnd. apply NoDup_cons_iff in Hnd. destruct Hnd as [Hnin Hnd]. cbn [find].
  destruct (Z.eqb_spec (lf_index a) (lf_index lf)) as [E|E].
  - destruct Hin as [<-|Hin]; [reflexivity|]. exfalso. apply Hnin. rewrite E. apply in_map. exact Hin.
  - destruct Hin as [<-|Hin]; [congruence|]. apply IH; assumption.
Qed.

Definition rec_okp (g : pgroup) (x : xinter) : Prop :=
  0 <= x_tpos x < zlen (pg_leaves g) /\ pg_find g (x_tgt x) = Some (x_tpos x)
  /\ lf_index (leaf_at g (x_tpos x)) = x_tgt x.

Definition between_x (mk : Z -> Z -> Z -> list Z -> list Z -> call) (src tgt : pgroup) (x : xinter) : list call :=
    match pg_find src (x_src x) with
    | Some ks =>
        let chk := match pg_find tgt (x_tgt x) with Some k => if k =? x_tpos x then [] else [CAssert 289] | None => [CAssert 289] end in
        let ls := leaf_at src ks in let lt := leaf_at tgt (x_tpos x) in
        let chk2 := if (lf_index ls =? x_src x) && (lf_index lt =? x_tgt x) then [] else [CAssert 292] in
        chk ++ chk2 ++ [mk (lf_index ls) (lf_index lt) (x_code x) (lf_parts ls) (lf_parts lt)]
    | None => []
    end.

Lemma p2p_between_unfold mk src tgt view : p2p_between mk src tgt view = flat_map (between_x mk src tgt) view.
Proof. reflexivity. Qed.

Definition in_x (g : pgroup) (x : xinter) : list call :=
    match pg_find g (x_src x) with
    | Some ks =>
        let chk := match pg_find g (x_tgt x) with Some k => if k =? x_tpos x then [] else [CAssert 246] | None => [CAssert 246] end in
        let ls := leaf_at g ks in let lt := leaf_at g (x_tpos x) in
        chk ++ [CP2P (lf_index ls) (lf_index lt) (x_code x) (lf_parts ls) (lf_parts lt)]
    | None => [CAssert 245]
    end.

Lemma p2p_in_group_unfold g lst : p2p_in_group g lst = flat_map (in_x g) lst.
Proof. reflexivity. Qed.

Definition p2p_group_calls (d : nat) (per : bool) (L : Z) (pgs : list pgroup) (g : pgroup) : list call :=
  let '(internal, external) := nlist_block d per L true true g in
  flat_map (fun gv => p2p_between CP2P (fst gv) g (snd gv)) (map_indexes_and_blocks pg_first pg_last external pgs)
  ++ p2p_in_group g internal ++ p2p_inner g.

Definition p2p_groups (d : nat) (per : bool) (L : Z) (pgs : list pgroup) : list call :=
  flat_map (fun g =>
    let '(internal, external) := nlist_block d per L true true g in
    flat_map (fun gv => p2p_between CP2P (fst gv) g (snd gv)) (map_indexes_and_blocks pg_first pg_last external pgs)
    ++ p2p_in_group g internal ++ p2p_inner g) pgs.

Lemma p2p_groups_groups d per L pgs : p2p_groups d per L pgs = flat_map (p2p_group_calls d per L pgs) pgs.
Proof. reflexivity. Qed.

Section P2PGroups.
Variables (d : nat) (per : bool) (L : Z) (pgs : list pgroup).
Hypothesis Hpok : Forall pgroup_ok pgs.
Hypothesis Hps : StronglySorted Z.lt (flat_map pg_indices pgs).

Notation f := (nlist_cell d per L true).
Notation lvs := (flat_map pg_leaves pgs).
Definition ep2p (t s c : Z) : elem := EP2P s t c (parts_of lvs s) (parts_of lvs t).
Notation ppin := (pin pgroup pg_indices pg_first pg_last pg_nl).
Notation ppout := (pout pgroup pg_first pg_last).
Notation precs := (recs pgroup pg_indices f).

Lemma p_ok : Forall (gok pgroup pg_indices pg_first pg_last pg_nl) pgs.
Proof. eapply Forall_impl; [|exact Hpok]. exact pgroup_ok_gok. Qed.
Lemma p_sorted : StronglySorted Z.lt (lev pgroup pg_indices pgs).
Proof. exact Hps. Qed.

Lemma lvs_NoDup : NoDup (map lf_index lvs).
Proof. rewrite map_fm. apply ss_lt_NoDup. exact Hps. Qed.

Lemma nlist_block_eq g : nlist_block d per L true true g = (filter (ppin g) (precs g), filter (ppout g) (precs g)).
Proof. unfold nlist_block. rewrite classify_filter. reflexivity. Qed.

Lemma leaf_parts g k : In g pgs -> 0 <= k < zlen (pg_leaves g) ->
  lf_parts (leaf_at g k) = parts_of lvs (lf_index (leaf_at g k)).
Proof.
  intros Hg Hk. symmetry. apply parts_of_leaf; [exact lvs_NoDup|].
  apply in_flat_map. exists g. split; [exact Hg|]. apply leaf_at_In. exact Hk.
Qed.

Lemma find_leaf_src G i ks : In G pgs -> pg_find G i = Some ks ->
  0 <= ks < zlen (pg_leaves G) /\ lf_index (leaf_at G ks) = i.
Proof.
  intros HG E.
  pose proof (g_ok pgroup pg_indices pg_first pg_last pg_nl pgs p_ok G HG) as Hgo.
  pose proof (g_sorted pgroup pg_indices pg_first pg_last pg_nl pgs p_ok p_sorted G HG) as Hgs.
  apply (gfind1_some pgroup pg_indices pg_first pg_last pg_nl G i ks Hgo Hgs) in E.
  destruct E as (Hk & Hz). rewrite pg_indices_len in Hk. split; [exact Hk|].
  rewrite leaf_at_index by exact Hk. exact Hz.
Qed.

Lemma precs_ok g x : In g pgs -> In x (precs g) -> rec_okp g x.
Proof.
  intros Hg Hx.
  pose proof (g_ok pgroup pg_indices pg_first pg_last pg_nl pgs p_ok g Hg) as Hgo.
  pose proof (g_sorted pgroup pg_indices pg_first pg_last pg_nl pgs p_ok p_sorted g Hg) as Hgs.
  apply records_In in Hx. destruct Hx as (Hpos & Hz & _).
  assert (Hpos' := Hpos). rewrite pg_indices_len in Hpos'.
  split; [exact Hpos'|]. split.
  - apply (gfind1_some pgroup pg_indices pg_first pg_last pg_nl g (x_tgt x) (x_tpos x) Hgo Hgs).
    split; [exact Hpos|apply Hz].
  - rewrite leaf_at_index by exact Hpos'. apply Hz.
Qed.

Lemma between_x_ok g G x : In g pgs -> In G pgs -> rec_okp g x ->
  no_assert (between_x CP2P G g x) /\
  elementary (between_x CP2P G g x) = kk pgroup pg_indices pg_nl elem ep2p G x.
Proof.
  intros Hg HG (Hpos & Hfind & Hidx). unfold between_x, kk.
  change (gfind1 pgroup pg_indices pg_nl G (x_src x)) with (pg_find G (x_src x)).
  destruct (pg_find G (x_src x)) as [ks|] eqn:E; [|split; [apply no_assert_nil|reflexivity]].
  destruct (find_leaf_src G (x_src x) ks HG E) as (Hks & Hsrc).
  cbv zeta. rewrite Hfind, Z.eqb_refl, Hsrc, Hidx, !Z.eqb_refl. cbn [andb app]. split.
  - intros id [H|[]]. discriminate.
  - unfold elementary. cbn [flat_map elems_of_call app]. unfold ev, ep2p.
    rewrite (leaf_parts G ks HG Hks), (leaf_parts g (x_tpos x) Hg Hpos), Hsrc, Hidx. reflexivity.
Qed.

Lemma in_x_ok g x : In g pgs -> rec_okp g x -> (exists ks, pg_find g (x_src x) = Some ks) ->
  no_assert (in_x g x) /\ elementary (in_x g x) = [ev elem ep2p x].
Proof.
  intros Hg (Hpos & Hfind & Hidx) (ks & E). unfold in_x. rewrite E.
  destruct (find_leaf_src g (x_src x) ks Hg E) as (Hks & Hsrc).
  cbv zeta. rewrite Hfind, Z.eqb_refl, Hsrc, Hidx. cbn [app]. split.
  - intros id [H|[]]. discriminate.
  - unfold elementary. cbn [flat_map elems_of_call app]. unfold ev, ep2p.
    rewrite (leaf_parts g ks Hg Hks), (leaf_parts g (x_tpos x) Hg Hpos), Hsrc, Hidx. reflexivity.
Qed.

Definition inner_elems (g : pgroup) : list elem := map (fun lf => EP2PInner (lf_index lf) (lf_parts lf)) (pg_leaves g).

Lemma p2p_inner_ok g : no_assert (p2p_inner g) /\ elementary (p2p_inner g) = inner_elems g.
Proof.
  unfold p2p_inner, inner_elems. split.
  - intros id H. apply in_map_iff in H. destruct H as (lf & H & _). discriminate.
  - unfold elementary. rewrite fm_map. cbn [elems_of_call]. apply fm_single.
Qed.

Lemma p2p_group g : In g pgs ->
  no_assert (p2p_group_calls d per L pgs g) /\
  elementary (p2p_group_calls d per L pgs g)
  = group_out pgroup pg_indices pg_first pg_last pg_nl elem f ep2p pgs g ++ inner_elems g.
Proof.
  intros Hg. unfold p2p_group_calls. rewrite nlist_block_eq.
  assert (HA : forall gv, In gv (map_indexes_and_blocks pg_first pg_last (filter (ppout g) (precs g)) pgs) ->
            no_assert (p2p_between CP2P (fst gv) g (snd gv)) /\
            elementary (p2p_between CP2P (fst gv) g (snd gv))
            = flat_map (kk pgroup pg_indices pg_nl elem ep2p (fst gv)) (snd gv)).
  { intros gv Hgv.
    destruct (batch_facts pgroup pg_indices pg_first pg_last pg_nl f pgs p_ok p_sorted g gv Hg Hgv) as (H1 & H2 & _).
    rewrite p2p_between_unfold.
    assert (Hx : forall x, In x (snd gv) -> no_assert (between_x CP2P (fst gv) g x) /\
                   elementary (between_x CP2P (fst gv) g x) = kk pgroup pg_indices pg_nl elem ep2p (fst gv) x).
    { intros x Hx. apply between_x_ok; [exact Hg|exact H1|]. apply precs_ok; [exact Hg|]. apply H2. exact Hx. }
    split.
    - apply no_assert_fm. intros x Hx'. apply (Hx x Hx').
    - rewrite elementary_fm. apply fm_ext_in. intros x Hx'. apply (Hx x Hx'). }
  assert (HB : no_assert (p2p_in_group g (filter (ppin g) (precs g))) /\
               elementary (p2p_in_group g (filter (ppin g) (precs g)))
               = flat_map (fun x => [ev elem ep2p x]) (filter (ppin g) (precs g))).
  { rewrite p2p_in_group_unfold.
    assert (Hx : forall x, In x (filter (ppin g) (precs g)) ->
                   no_assert (in_x g x) /\ elementary (in_x g x) = [ev elem ep2p x]).
    { intros x Hx. apply filter_In in Hx. destruct Hx as [Hx Hp]. apply in_x_ok; [exact Hg| |].
      - apply precs_ok; assumption.
      - unfold pin in Hp. apply andb_true_iff in Hp. destruct Hp as [_ Hp].
        change (gfind1 pgroup pg_indices pg_nl g (x_src x)) with (pg_find g (x_src x)) in Hp.
        destruct (pg_find g (x_src x)) as [ks|]; [|discriminate]. exists ks. reflexivity. }
    split.
    - apply no_assert_fm. intros x Hx'. apply (Hx x Hx').
    - rewrite elementary_fm. apply fm_ext_in. intros x Hx'. apply (Hx x Hx'). }
  destruct (p2p_inner_ok g) as (HC1 & HC2).
  split.
  - apply no_assert_app; [|apply no_assert_app; [apply HB|exact HC1]].
    apply no_assert_fm. intros gv Hgv. apply (HA gv Hgv).
  - rewrite !elementary_app, elementary_fm, HC2, app_assoc. f_equal.
    unfold group_out, batches. f_equal; [|apply HB].
    apply fm_ext_in. intros gv Hgv. apply (HA gv Hgv).
Qed.

Theorem p2p_groups_exact_sec :
  no_assert (p2p_groups d per L pgs) /\
  Permutation (elementary (p2p_groups d per L pgs)) (spec_p2p d per L lvs ++ spec_p2p_inner lvs).
Proof.
  rewrite p2p_groups_groups. split.
  - apply no_assert_fm. intros g Hg. apply (p2p_group g Hg).
  - rewrite elementary_fm. rewrite (fm_ext_in _ _ _ (fun g Hg => proj2 (p2p_group g Hg))).
    eapply Permutation_trans; [apply perm_fm_app|]. apply Permutation_app.
    + unfold spec_p2p. cbv zeta. rewrite map_fm.
      exact (level_perm pgroup pg_indices pg_first pg_last pg_nl elem f ep2p pgs p_ok p_sorted).
    + unfold spec_p2p_inner. rewrite map_fm. apply Permutation_refl.
Qed.
End P2PGroups.

(* the near-field pass *)
Theorem p2p_groups_exact : forall d per L pgs, Forall pgroup_ok pgs -> StronglySorted Z.lt (flat_map pg_indices pgs) ->
  no_assert (p2p_groups d per L pgs) /\
  Permutation (elementary (p2p_groups d per L pgs))
              (spec_p2p d per L (flat_map pg_leaves pgs) ++ spec_p2p_inner (flat_map pg_leaves pgs)).
Proof. exact p2p_groups_exact_sec. Qed.

Theorem pass_P2P_unfold : forall d per t, pass_P2P d per t = p2p_groups d per (height t - 1) (t_pgroups t).
Proof. reflexivity. Qed.

Print Assumptions m2l_level_exact.
Print Assumptions pass_M2L_unfold.
Print Assumptions p2p_groups_exact.
