(* Executable model of the periodic top tree
   TbfAlgorithmPeriodicTopTree (src/algorithms/periodic/tbfalgorithmperiodictoptree.hpp:40-262, 279-292, 410-443)
   and of the documented four-step periodic sequence. *)
From Tbfmm Require Import Base.Prelude Base.Search Index.MortonDefs Tree.GroupDefs Index.ListsDefs Tree.BuildDefs Exec.ExecDefs Exec.ExecTsmDefs.
Local Open Scope Z_scope.

(* calls on the virtual cells above the root; [lvl] is the level argument handed to the kernel *)
Inductive tcall :=
| TM2M_base (lvl : Z) (children : list (Z * Z))   (* real level-1 cells (index, code) -> multipoles[lvl] *)
| TM2M (lvl : Z) (codes : list Z)                 (* 2^d copies of multipoles[lvl+1], codes -> multipoles[lvl] *)
| TM2L (lvl : Z) (codes : list Z)                 (* copies of multipoles[lvl] at these relative positions -> locals[lvl] *)
| TL2L (lvl : Z) (codes : list Z)                 (* locals[lvl] -> locals[lvl+1] *)
| TL2L_base (lvl : Z) (children : list (Z * Z)).  (* locals[lvl] -> real level-1 cells *)

Inductive pcall := Real (c : call) | Top (c : tcall).

Section Periodic.
Variable d : nat.

(* all offsets of [lo,hi]^d except the adjacent cube [-1,1]^d, encoded base 7 *)
Definition window_codes (lo hi : Z) : list Z :=
  flat_map (fun o => if too_close o then [] else [enc7 o]) (odometer (repeat (lo, hi) d)).

Definition level1_children (t : tree) : list (Z * Z) :=
  map (fun c => (c, child_code d c)) (flat_map cg_cells (levels_of t 1)).

(* k = nbLevelsAbove0 >= 0; the top configuration has height k + 5 *)
Definition top_M2M (k : Z) (t : tree) : list tcall :=
  TM2M_base (k + 3) (level1_children t)
  :: map (fun l => TM2M l (zseq (Z.shiftl 1 (dz d)))) (rev (zrange 3 (k + 2))).

Definition top_M2L (k : Z) : list tcall :=
  if k =? 0 then [TM2L 3 (window_codes (-3) 3)]
  else map (fun l => if l =? 3 then TM2L l (window_codes (-3) 2) else TM2L l (window_codes (-2) 3)) (zrange 3 (k + 3)).

Definition top_L2L (k : Z) (t : tree) : list tcall :=
  map (fun l => TL2L l [0]) (zrange 3 (k + 2)) ++ [TL2L_base (k + 3) (level1_children t)].

Definition top_execute (k : Z) (flags : Z) (t : tree) : list tcall :=
  if (k <? 0) || (height t =? 0) then [] else
  (if has flags F_M2M then top_M2M k t else [])
  ++ (if has flags F_M2L then top_M2L k else [])
  ++ (if has flags F_L2L then top_L2L k t else []).

(* the four-step sequence of the documentation / unit tests, stopUpperLevel = 1 *)
Definition periodic_run (k : Z) (stop : Z) (t : tree) : list pcall :=
  map Real (execute d true stop (F_P2M + F_M2M) t)
  ++ map Top (top_execute k 63 t)
  ++ map Real (execute d true stop (F_M2L + F_P2P) t)
  ++ map Real (execute d true stop (F_L2L + F_L2P) t).

(* target/source variant (TbfAlgorithmPeriodicTopTreeTsm): the upward part reads the SOURCE tree's level-1 cells, the final
   downward call writes the TARGET tree's level-1 cells *)
Definition top_execute_tsm (k : Z) (flags : Z) (src tgt : tree) : list tcall :=
  if (k <? 0) || (height src =? 0) then [] else
  (if has flags F_M2M then top_M2M k src else [])
  ++ (if has flags F_M2L then top_M2L k else [])
  ++ (if has flags F_L2L then top_L2L k tgt else []).

Definition periodic_run_tsm (k : Z) (stop : Z) (src tgt : tree) : list pcall :=
  map Real (execute_tsm d true stop (F_P2M + F_M2M) src tgt)
  ++ map Top (top_execute_tsm k 63 src tgt)
  ++ map Real (execute_tsm d true stop (F_M2L + F_P2P) src tgt)
  ++ map Real (execute_tsm d true stop (F_L2L + F_L2P) src tgt).

(* GetNbRepetitionsPerDim / getRepetitionsIntervals *)
Definition nb_repetitions (k : Z) : Z := if k =? -1 then 3 else if k =? 0 then 7 else 6 * Z.shiftl 1 k.
Definition repetition_interval (k : Z) : Z * Z :=
  if k =? -1 then (-1, 1) else if k =? 0 then (-3, 3)
  else let h := Z.quot (nb_repetitions k) 2 in (- h, h - 1).

End Periodic.
