(* Corollaries of the refinement theorems:
   (A) property C08: a full execution refines a specification written on the leaf table only
       (no reference to the grouping), hence two trees over the same particles with different
       groupings produce the same elementary interactions;
   (B) property C02: every operator call made by the executor receives consistent arguments. *)
From Tbfmm Require Import Base.Prelude Base.Search Index.MortonDefs Tree.GroupDefs Index.ListsDefs Index.ListsSpec
  Tree.BuildDefs Tree.Invariant Tree.LookupProofs Tree.BuildProofs Index.MortonProofs Index.MortonBits Index.ListsProofs
  Index.ListsCapacity Exec.ExecDefs Spec.Elem Spec.Kernel Spec.Geometry Exec.RefineM2M Exec.RefineM2L Spec.ExactlyOnce.
From Coq Require Import Sorting.Sorted Sorting.Permutation ZifyBool Zify.
Local Open Scope Z_scope.
Ltac Zify.zify_post_hook ::= Z.div_mod_to_equations.

(* ------------------------------------------------------------------ *)
(* 0. definitions                                                      *)
(* ------------------------------------------------------------------ *)
Definition leaf_table (t : tree) : list (Z * list Z) := map (fun lf => (lf_index lf, lf_parts lf)) (all_leaves t).

(* cells of the level n levels above, computed from the cells of a level *)
Fixpoint cells_from (d : nat) (n : nat) (cells : list Z) : list Z :=
  match n with O => cells | S k => cells_from d k (parents_of (parent d) cells) end.

(* a leaf record rebuilt from a row of the leaf table (the header fields lf_n / lf_off are not used by the specification) *)
Definition leaf_of (ip : Z * list Z) : leaf :=
  {| lf_index := fst ip; lf_n := zlen (snd ip); lf_off := 0; lf_parts := snd ip |}.

(* the full run, written in terms of d, per, s' = max 0 s, H and the leaf table only *)
Definition spec_all (d : nat) (per : bool) (s H : Z) (lt : list (Z * list Z)) : list elem :=
  let s' := Z.max 0 s in
  let cl := fun l => cells_from d (Z.to_nat (H - 1 - l)) (map fst lt) in
  let lvs := map leaf_of lt in
  (if s' <? H then map (fun ip => EP2M (fst ip) (snd ip)) lt else [])
  ++ flat_map (fun l => spec_links d EM2M l (cl (l + 1))) (rev (zrange s' (H - 2)))
  ++ flat_map (fun l => spec_m2l d per l (cl l)) (zrange s' (H - 1))
  ++ flat_map (fun l => spec_links d EL2L l (cl (l + 1))) (zrange s' (H - 2))
  ++ (if s' <? H then map (fun ip => EL2P (fst ip) (snd ip)) lt else [])
  ++ (spec_p2p d per (H - 1) lvs ++ spec_p2p_inner lvs).

Definition cells_at (t : tree) (l : Z) : list Z := level_cells (levels_of t l).

Definition call_ok (d : nat) (per : bool) (H : Z) (t : tree) (c : call) : Prop :=
  match c with
  | CP2M leaf parts | CL2P leaf parts | CP2PInner leaf parts =>
      In (leaf, parts) (leaf_table t) /\ parts <> []
  | CM2M l p ch | CL2L l p ch =>
      0 <= l < H - 1 /\ In p (cells_at t l) /\ ch <> [] /\ zlen ch <= nb_children d /\ NoDup (map fst ch) /\
      Forall (fun cc => In (fst cc) (cells_at t (l + 1)) /\ parent d (fst cc) = p /\ snd cc = child_code d (fst cc)) ch
  | CM2L l tg sr =>
      0 <= l < H /\ In tg (cells_at t l) /\ sr <> [] /\ zlen sr <= nb_interactions d /\
      Forall (fun sc => In (fst sc) (cells_at t l) /\ In sc (ilist_spec d per l tg)) sr
  | CP2P src tg code sp tp =>
      In (src, sp) (leaf_table t) /\ In (tg, tp) (leaf_table t) /\ sp <> [] /\ tp <> [] /\
      In (src, code) (nlist_spec d per (H - 1) true tg)
  | CP2PTsm _ _ _ _ _ => False
  | CAssert _ => False
  end.

(* ------------------------------------------------------------------ *)
(* 1. the specification does not look at the leaf headers              *)
(* ------------------------------------------------------------------ *)
Ltac perm_eq :=
  match goal with |- Permutation ?a ?b => let E := fresh "E" in assert (E : b = a); [|rewrite E; apply Permutation_refl] end.

Definition tab (lf : leaf) : Z * list Z := (lf_index lf, lf_parts lf).

Lemma leaf_table_tab t : leaf_table t = map tab (all_leaves t).
Proof. reflexivity. Qed.

Lemma index_leaf_of_tab lvs : map lf_index (map leaf_of (map tab lvs)) = map lf_index lvs.
Proof. rewrite !map_map. apply map_ext. intros lf. reflexivity. Qed.

Lemma parts_of_tab i : forall lvs, parts_of (map leaf_of (map tab lvs)) i = parts_of lvs i.
Proof.
  unfold parts_of. induction lvs as [|lf lvs IH]; [reflexivity|].
  cbn [map find]. change (lf_index (leaf_of (tab lf))) with (lf_index lf).
  destruct (lf_index lf =? i); [reflexivity|exact IH].
Qed.

Lemma spec_p2p_tab d per L lvs : spec_p2p d per L (map leaf_of (map tab lvs)) = spec_p2p d per L lvs.
Proof.
  unfold spec_p2p. cbv zeta. rewrite index_leaf_of_tab.
  apply fm_ext_in. intros x _. apply fm_ext_in. intros sc _. rewrite !parts_of_tab. reflexivity.
Qed.

Lemma spec_inner_tab lvs : spec_p2p_inner (map leaf_of (map tab lvs)) = spec_p2p_inner lvs.
Proof. unfold spec_p2p_inner. rewrite !map_map. apply map_ext. intros lf. reflexivity. Qed.

Lemma fst_tab lvs : map fst (map tab lvs) = map lf_index lvs.
Proof. rewrite map_map. apply map_ext. intros lf. reflexivity. Qed.


(* ------------------------------------------------------------------ *)
(* 1b. generic facts on traces and the shape of the calls of each pass *)
(* ------------------------------------------------------------------ *)
Lemma elems_incl c tr : In c tr -> incl (elems_of_call c) (elementary tr).
Proof. intros Hin e He. unfold elementary. apply in_flat_map. exists c. split; assumption. Qed.

Lemma Forall_fm {A B} (P : B -> Prop) (f : A -> list B) l :
  (forall a, In a l -> Forall P (f a)) -> Forall P (flat_map f l).
Proof.
  induction l as [|a l IH]; intros Hf; cbn [flat_map]; [constructor|].
  apply Forall_app. split; [apply Hf; left; reflexivity|]. apply IH. intros b Hb. apply Hf. right. exact Hb.
Qed.

Lemma no_assert_app_inv a b : no_assert (a ++ b) -> no_assert a /\ no_assert b.
Proof. intros Hna. split; intros id Hin; apply (Hna id); apply in_or_app; [left|right]; exact Hin. Qed.

Lemma na_app_sh (P : call -> Prop) a b :
  (no_assert a -> Forall P a) -> (no_assert b -> Forall P b) -> no_assert (a ++ b) -> Forall P (a ++ b).
Proof.
  intros Ha Hb Hna. apply no_assert_app_inv in Hna. destruct Hna as [Hna Hnb].
  apply Forall_app. split; [apply Ha; exact Hna|apply Hb; exact Hnb].
Qed.

Lemma na_fm_sh {A} (P : call -> Prop) (F : A -> list call) l :
  (forall a, In a l -> no_assert (F a) -> Forall P (F a)) -> no_assert (flat_map F l) -> Forall P (flat_map F l).
Proof.
  induction l as [|a l IH]; intros Hf Hna; cbn [flat_map] in *; [constructor|].
  apply na_app_sh; [apply Hf; left; reflexivity| |exact Hna].
  apply IH. intros b Hb. apply Hf. right. exact Hb.
Qed.

(* an internal check followed by the rest: if nothing fires, the check passed *)
Lemma chk_tail_sh (P : call -> Prop) (b : bool) id rest :
  (b = true -> no_assert rest -> Forall P rest) ->
  no_assert ((if b then [] else [CAssert id]) ++ rest) -> Forall P ((if b then [] else [CAssert id]) ++ rest).
Proof.
  destruct b; cbn [app]; intros Hr Hna; [apply Hr; [reflexivity|exact Hna]|].
  exfalso. apply (Hna id). left. reflexivity.
Qed.

Lemma chk_only_sh (P : call -> Prop) (b : bool) id :
  no_assert (if b then [] else [CAssert id]) -> Forall P (if b then [] else [CAssert id]).
Proof. destruct b; intros Hna; [constructor|]. exfalso. apply (Hna id). left. reflexivity. Qed.

Lemma rev_cons_nonnil {A} (x : A) l : rev (x :: l) <> [].
Proof. cbn [rev]. intros E. apply app_eq_nil in E. destruct E as [_ E]. discriminate. Qed.

(* --- M2M / L2L: every call is [mk p ch] with ch non-empty, or an assertion --- *)
Section LinkShape.
Variable d : nat.
Variable mk : Z -> list (Z * Z) -> call.

Definition lsh (c : call) : Prop := (exists p ch, c = mk p ch /\ ch <> []) \/ exists id, c = CAssert id.

Lemma lsh_mk p ch : ch <> [] -> lsh (mk p ch).
Proof. intros Hne. left. exists p, ch. split; [reflexivity|exact Hne]. Qed.

Lemma lsh_chk (b : bool) id : Forall lsh (if b then [] else [CAssert id]).
Proof. destruct b; [constructor|]. constructor; [right; exists id; reflexivity|constructor]. Qed.

Lemma lsh_chk_app (b : bool) id rest : Forall lsh rest -> Forall lsh ((if b then [] else [CAssert id]) ++ rest).
Proof. intros Hr. apply Forall_app. split; [apply lsh_chk|exact Hr]. Qed.

Lemma sibling_loop_sh : forall lower upper cur, Forall lsh (sibling_loop d mk lower upper cur).
Proof.
  induction lower as [|c lrest IH]; intros upper cur.
  - destruct upper as [|p urest]; [constructor|]. cbn [sibling_loop].
    destruct cur as [|x cur]; [constructor|]. constructor; [|constructor]. apply lsh_mk. apply rev_cons_nonnil.
  - destruct upper as [|p urest]; [constructor|]. cbn [sibling_loop].
    destruct lrest as [|c2 lr].
    + apply lsh_chk_app. apply lsh_chk_app. constructor; [|constructor]. apply lsh_mk. apply rev_cons_nonnil.
    + destruct (parent d c2 =? p).
      * apply lsh_chk_app. apply lsh_chk_app. apply IH.
      * apply lsh_chk_app. apply lsh_chk_app. constructor; [apply lsh_mk; apply rev_cons_nonnil|].
        apply Forall_app. split; [|apply IH]. destruct urest as [|p2 ur]; [constructor|apply lsh_chk].
Qed.

Lemma sibling_wrapper_sh l u : Forall lsh (sibling_wrapper d mk l u).
Proof.
  unfold sibling_wrapper. cbv zeta.
  destruct (cg_find u _) as [ip|].
  - destruct (cg_find_parent _ l _) as [ic|]; [apply sibling_loop_sh|].
    constructor; [right; eexists; reflexivity|constructor].
  - constructor; [right; eexists; reflexivity|constructor].
Qed.

Lemma staircase_sh : forall fuel lowers uppers, Forall lsh (staircase d fuel mk lowers uppers).
Proof.
  induction fuel as [|f IH]; intros lowers uppers; cbn [staircase].
  - constructor; [right; eexists; reflexivity|constructor].
  - destruct uppers as [|u urest]; [constructor|]. destruct lowers as [|l lrest]; [constructor|].
    cbv zeta.
    destruct (parent d (cg_last l) <=? cg_last u).
    + destruct lrest as [|l2 lr].
      * apply lsh_chk_app. apply sibling_wrapper_sh.
      * destruct (cg_last u <? parent d (cg_first l2)); apply lsh_chk_app; apply Forall_app; (split; [apply sibling_wrapper_sh|apply IH]).
    + apply lsh_chk_app. apply Forall_app. split; [apply sibling_wrapper_sh|apply IH].
Qed.
End LinkShape.

(* --- M2L: if no assertion fires, every call is CM2L of the level with a non-empty, bounded source list --- *)
Definition m2l_sh (N l : Z) (c : call) : Prop := exists tg sr, c = CM2L l tg sr /\ sr <> [] /\ zlen sr <= N.

Lemma between_body_sh d lvl tgt src run : no_assert (between_body d lvl tgt src run) ->
  Forall (m2l_sh (nb_interactions d) lvl) (between_body d lvl tgt src run).
Proof.
  destruct run as [|x0 r]; [constructor|]. unfold between_body. cbv beta iota zeta.
  match goal with |- context [match ?s with [] => _ | _ :: _ => _ end] => destruct s as [|p0 l0] eqn:Es end.
  - apply chk_only_sh.
  - apply chk_tail_sh. intros _. apply chk_tail_sh. intros Hb _.
    constructor; [|constructor]. eexists. eexists. split; [reflexivity|]. split; [discriminate|lia].
Qed.

Lemma in_body_sh d lvl g run : no_assert (in_body d lvl g run) ->
  Forall (m2l_sh (nb_interactions d) lvl) (in_body d lvl g run).
Proof.
  destruct run as [|x0 r]; [constructor|]. unfold in_body. cbv beta iota zeta.
  apply chk_tail_sh. intros _. apply chk_tail_sh. intros _. apply chk_tail_sh. intros Hb _.
  constructor; [|constructor]. eexists. eexists. split; [reflexivity|]. split; [discriminate|].
  unfold zlen in *. rewrite map_length. lia.
Qed.

Lemma m2l_level_sh d per l groups : no_assert (m2l_level d per l groups) ->
  Forall (m2l_sh (nb_interactions d) l) (m2l_level d per l groups).
Proof.
  unfold m2l_level. apply na_fm_sh. intros g _.
  destruct (ilist_block d per l true g) as [internal external].
  apply na_app_sh.
  - apply na_fm_sh. intros gv _. rewrite m2l_between_unfold. apply na_fm_sh. intros run _. apply between_body_sh.
  - rewrite m2l_in_group_unfold. apply na_fm_sh. intros run _. apply in_body_sh.
Qed.

(* --- P2P: only CP2P, CP2PInner (or assertions) --- *)
Definition p2p_sh (c : call) : Prop :=
  match c with CP2P _ _ _ _ _ | CP2PInner _ _ | CAssert _ => True | _ => False end.

Ltac p2p_sh_list := repeat first [apply Forall_nil | apply Forall_cons; [exact I|]].

Lemma between_x_sh src tgt x : Forall p2p_sh (between_x CP2P src tgt x).
Proof.
  unfold between_x. destruct (pg_find src (x_src x)) as [ks|]; [|constructor]. cbv zeta.
  apply Forall_app. split.
  - destruct (pg_find tgt (x_tgt x)) as [k|]; [destruct (k =? x_tpos x)|]; p2p_sh_list.
  - apply Forall_app. split; [|p2p_sh_list].
    match goal with |- context [if ?b then _ else _] => destruct b end; p2p_sh_list.
Qed.

Lemma in_x_sh g x : Forall p2p_sh (in_x g x).
Proof.
  unfold in_x. destruct (pg_find g (x_src x)) as [ks|]; [|p2p_sh_list]. cbv zeta.
  apply Forall_app. split; [|p2p_sh_list].
  destruct (pg_find g (x_tgt x)) as [k|]; [destruct (k =? x_tpos x)|]; p2p_sh_list.
Qed.

Lemma p2p_groups_sh d per L pgs : Forall p2p_sh (p2p_groups d per L pgs).
Proof.
  unfold p2p_groups. apply Forall_fm. intros g _.
  destruct (nlist_block d per L true true g) as [internal external].
  apply Forall_app. split; [|apply Forall_app; split].
  - apply Forall_fm. intros gv _. rewrite p2p_between_unfold. apply Forall_fm. intros x _. apply between_x_sh.
  - rewrite p2p_in_group_unfold. apply Forall_fm. intros x _. apply in_x_sh.
  - unfold p2p_inner. apply Forall_forall. intros c Hc. apply in_map_iff in Hc. destruct Hc as (lf & <- & _). exact I.
Qed.

(* --- reading the specification lists --- *)
Lemma spec_m2l_in d per l l' cs tg a k : In (EM2L l' tg a k) (spec_m2l d per l cs) ->
  l' = l /\ In tg cs /\ In a cs /\ In (a, k) (ilist_cell d per l tg).
Proof.
  unfold spec_m2l. intros Hin. apply in_flat_map in Hin. destruct Hin as (t' & Ht' & Hin).
  apply in_flat_map in Hin. destruct Hin as ([a' k'] & Hsc & Hin). cbn [fst snd] in Hin.
  destruct (zmem a' cs) eqn:Ez; [|destruct Hin]. destruct Hin as [E|[]]. injection E as -> -> -> ->.
  apply zmem_In in Ez. repeat split; assumption.
Qed.

Lemma spec_p2p_in d per L lvs a b k sp tp : In (EP2P a b k sp tp) (spec_p2p d per L lvs) ->
  In a (map lf_index lvs) /\ In b (map lf_index lvs) /\ In (a, k) (nlist_cell d per L true b)
  /\ sp = parts_of lvs a /\ tp = parts_of lvs b.
Proof.
  unfold spec_p2p. cbv zeta. intros Hin. apply in_flat_map in Hin. destruct Hin as (t' & Ht' & Hin).
  apply in_flat_map in Hin. destruct Hin as ([a' k'] & Hsc & Hin). cbn [fst snd] in Hin.
  destruct (zmem a' (map lf_index lvs)) eqn:Ez; [|destruct Hin]. destruct Hin as [E|[]].
  injection E as -> -> -> <- <-. apply zmem_In in Ez. repeat split; assumption.
Qed.

Lemma spec_p2p_only d per L lvs e : In e (spec_p2p d per L lvs) -> exists a b k sp tp, e = EP2P a b k sp tp.
Proof.
  unfold spec_p2p. cbv zeta. intros Hin. apply in_flat_map in Hin. destruct Hin as (t' & Ht' & Hin).
  apply in_flat_map in Hin. destruct Hin as (sc & Hsc & Hin).
  destruct (zmem (fst sc) (map lf_index lvs)); [|destruct Hin]. destruct Hin as [<-|[]]. eauto 6.
Qed.

(* a segment of a list of links *)
Lemma map_links_eq d (E : Z -> Z -> Z -> elem) p :
  (forall p1 c1 k1 p2 c2 k2, E p1 c1 k1 = E p2 c2 k2 -> p1 = p2 /\ c1 = c2 /\ k1 = k2) ->
  forall (c2 : list Z) (ch : list (Z * Z)),
  map (fun c => E (parent d c) c (child_code d c)) c2 = map (fun cc => E p (fst cc) (snd cc)) ch ->
  c2 = map fst ch /\ Forall (fun cc => parent d (fst cc) = p /\ snd cc = child_code d (fst cc)) ch.
Proof.
  intros Hinj. induction c2 as [|c c2 IH]; intros ch Heq.
  - destruct ch; [split; [reflexivity|constructor]|discriminate].
  - destruct ch as [|cc ch]; [discriminate|]. cbn [map] in Heq. injection Heq as E1 E2.
    apply Hinj in E1. destruct E1 as (Ep & Ec & Ek). destruct (IH ch E2) as (Hc2 & HF).
    split; [cbn [map]; congruence|]. constructor; [|exact HF]. rewrite <- Ec. split; [exact Ep|symmetry; exact Ek].
Qed.

(* ------------------------------------------------------------------ *)
(* 2. the passes of a well-formed tree, for both values of [per]       *)
(* ------------------------------------------------------------------ *)
Section Cor.
Variable d : nat.
Hypothesis Hd : (0 < d)%nat.

Lemma cap0 : forall l t, 0 <= l -> 0 <= t < 2 ^ (l * dz d) -> zlen (ilist_cell d false l t) <= nb_interactions d.
Proof. intros l t Hl Ht. apply ilist_cell_capacity; assumption. Qed.

Section Tree.
Variables (per : bool) (H B : Z) (mode : bool) (t : tree) (idx : list Z).
Hypothesis HH : 1 <= H.
Hypothesis Hok : tree_ok (parent d) H B mode t.
Hypothesis Hpart : particles_ok idx t.
Hypothesis Hrange : Forall (fun i => 0 <= i < 2 ^ ((H - 1) * dz d)) idx.

Notation L := (H - 1).
Notation cells l := (level_cells (levels_of t l)).
Notation lvs := (all_leaves t).

Lemma c_height : height t = H.
Proof. exact (height_H d H B mode t Hok). Qed.

Lemma c_level_ok l : 0 <= l < H -> level_ok (levels_of t l).
Proof. exact (level_ok_at d Hd cap0 H B mode t Hok l). Qed.

Lemma c_parents l : 0 <= l < H - 1 -> cells l = parents_of (parent d) (cells (l + 1)).
Proof. exact (cells_parents d H B mode t Hok l). Qed.

Lemma c_leaf_cells : cells L = map lf_index lvs.
Proof. exact (leaf_cells d H B mode t Hok). Qed.

Lemma c_range l c : 0 <= l < H -> In c (cells l) -> 0 <= c < 2 ^ (l * dz d).
Proof. exact (cells_range d Hd cap0 H B mode t idx Hok Hpart Hrange l c). Qed.

Lemma c_sorted l : 0 <= l < H -> StronglySorted Z.lt (cells l).
Proof. exact (cells_sorted d Hd cap0 H B mode t Hok l). Qed.

Lemma c_lvs_nodup : NoDup (map lf_index lvs).
Proof. exact (lvs_nodup d Hd cap0 H B mode t HH Hok). Qed.

Lemma c_leaf_nonempty lf : In lf lvs -> lf_parts lf <> [].
Proof. exact (leaf_nonempty d H B mode t Hok lf). Qed.

(* P2M, L2P *)
Lemma c_P2M s0 : pass_P2M s0 t = if s0 <? H then map (fun lf => CP2M (lf_index lf) (lf_parts lf)) lvs else [].
Proof. exact (pass_P2M_eq d Hd cap0 H B mode t HH Hok s0). Qed.

Lemma c_L2P s0 : pass_L2P s0 t = if s0 <? H then map (fun lf => CL2P (lf_index lf) (lf_parts lf)) lvs else [].
Proof. exact (pass_L2P_eq d H B mode t Hok s0). Qed.

Lemma el_P2M s0 : elementary (pass_P2M s0 t) = if s0 <? H then map (fun ip => EP2M (fst ip) (snd ip)) (leaf_table t) else [].
Proof.
  rewrite c_P2M. destruct (s0 <? H); [|reflexivity].
  rewrite leaf_table_tab, map_map. apply elementary_map_single. reflexivity.
Qed.

Lemma el_L2P s0 : elementary (pass_L2P s0 t) = if s0 <? H then map (fun ip => EL2P (fst ip) (snd ip)) (leaf_table t) else [].
Proof.
  rewrite c_L2P. destruct (s0 <? H); [|reflexivity].
  rewrite leaf_table_tab, map_map. apply elementary_map_single. reflexivity.
Qed.

(* M2M, L2L *)
Lemma c_m2m_level l : 0 <= l <= H - 2 ->
  no_assert (m2m_level d t l) /\ elementary (m2m_level d t l) = spec_links d EM2M l (cells (l + 1)).
Proof. exact (m2m_level_ok d Hd cap0 H B mode t Hok l). Qed.

Lemma c_l2l_level l : 0 <= l <= H - 2 ->
  no_assert (l2l_level d t l) /\ elementary (l2l_level d t l) = spec_links d EL2L l (cells (l + 1)).
Proof. exact (l2l_level_ok d Hd cap0 H B mode t Hok l). Qed.

Lemma c_M2M s0 : pass_M2M d s0 t = flat_map (m2m_level d t) (rev (zrange s0 (H - 2))).
Proof. exact (pass_M2M_eq d H B mode t Hok s0). Qed.

Lemma c_L2L s0 : pass_L2L d s0 t = flat_map (l2l_level d t) (zrange s0 (H - 2)).
Proof. exact (pass_L2L_eq d H B mode t Hok s0). Qed.

Lemma el_M2M s0 : 0 <= s0 ->
  elementary (pass_M2M d s0 t) = flat_map (fun l => spec_links d EM2M l (cells (l + 1))) (rev (zrange s0 (H - 2))).
Proof.
  intros Hs. rewrite c_M2M, elementary_fm. apply fm_ext_in. intros l Hl. apply in_rev in Hl.
  apply In_zrange in Hl. apply c_m2m_level. lia.
Qed.

Lemma el_L2L s0 : 0 <= s0 ->
  elementary (pass_L2L d s0 t) = flat_map (fun l => spec_links d EL2L l (cells (l + 1))) (zrange s0 (H - 2)).
Proof.
  intros Hs. rewrite c_L2L, elementary_fm. apply fm_ext_in. intros l Hl.
  apply In_zrange in Hl. apply c_l2l_level. lia.
Qed.

(* M2L *)
Lemma c_m2l_level l : 0 <= l < H ->
  no_assert (m2l_level d per l (levels_of t l)) /\
  Permutation (elementary (m2l_level d per l (levels_of t l))) (spec_m2l d per l (cells l)).
Proof.
  intros Hl. apply m2l_level_exact; [apply c_level_ok; exact Hl|].
  intros c Hc. apply ilist_cell_capacity; [exact Hd|lia|]. apply c_range; assumption.
Qed.

Lemma c_M2L s0 : pass_M2L d per s0 t = flat_map (fun l => m2l_level d per l (levels_of t l)) (zrange s0 L).
Proof. rewrite pass_M2L_unfold, c_height. reflexivity. Qed.

Lemma el_M2L s0 : 0 <= s0 ->
  Permutation (elementary (pass_M2L d per s0 t)) (flat_map (fun l => spec_m2l d per l (cells l)) (zrange s0 L)).
Proof.
  intros Hs. rewrite c_M2L, elementary_fm. apply perm_fm_pointwise. intros l Hl. apply In_zrange in Hl.
  apply c_m2l_level. lia.
Qed.

(* P2P *)
Lemma c_P2P : no_assert (pass_P2P d per t) /\
  Permutation (elementary (pass_P2P d per t)) (spec_p2p d per L lvs ++ spec_p2p_inner lvs).
Proof.
  rewrite pass_P2P_unfold, c_height. apply p2p_groups_exact.
  - exact (pgs_ok d H B mode t Hok).
  - exact (pgs_sorted d Hd cap0 H B mode t HH Hok).
Qed.

(* the cells of every level from the leaf indices *)
Lemma cells_from_level : forall n m, 0 <= m - Z.of_nat n -> m <= L ->
  cells_from d n (cells m) = cells (m - Z.of_nat n).
Proof.
  induction n as [|n IH]; intros m Hlo Hhi.
  - cbn [cells_from]. f_equal. f_equal. lia.
  - cbn [cells_from]. replace (cells m) with (cells (m - 1 + 1)) by (f_equal; f_equal; lia).
    rewrite <- (c_parents (m - 1)) by lia. rewrite IH by lia. f_equal. f_equal. lia.
Qed.

Lemma cells_from_table l : 0 <= l <= L ->
  cells_from d (Z.to_nat (L - l)) (map fst (leaf_table t)) = cells l.
Proof.
  intros Hl. rewrite leaf_table_tab, fst_tab, <- c_leaf_cells.
  rewrite cells_from_level by lia. f_equal. f_equal. lia.
Qed.

Lemma execute_63 s : execute d per s 63 t
  = pass_P2M (Z.max 0 s) t ++ pass_M2M d (Z.max 0 s) t ++ pass_M2L d per (Z.max 0 s) t
    ++ pass_L2L d (Z.max 0 s) t ++ pass_L2P (Z.max 0 s) t ++ pass_P2P d per t.
Proof. reflexivity. Qed.

Theorem tree_refines_spec s :
  Permutation (elementary (execute d per s 63 t)) (spec_all d per s H (leaf_table t)).
Proof.
  rewrite execute_63. unfold spec_all. cbv zeta.
  assert (Hs : 0 <= Z.max 0 s) by lia. set (s' := Z.max 0 s) in *.
  rewrite !elementary_app.
  rewrite el_P2M, el_L2P.
  rewrite (el_M2M s' Hs), (el_L2L s' Hs).
  apply Permutation_app; [apply Permutation_refl|].
  apply Permutation_app.
  { perm_eq. apply fm_ext_in. intros l Hl. apply in_rev in Hl. apply In_zrange in Hl.
    replace (H - 1 - (l + 1)) with (L - (l + 1)) by lia. rewrite cells_from_table by lia. reflexivity. }
  apply Permutation_app.
  { apply (Permutation_trans (el_M2L s' Hs)). perm_eq. apply fm_ext_in.
    intros l Hl. apply In_zrange in Hl. rewrite cells_from_table by lia. reflexivity. }
  apply Permutation_app.
  { perm_eq. apply fm_ext_in. intros l Hl. apply In_zrange in Hl.
    replace (H - 1 - (l + 1)) with (L - (l + 1)) by lia. rewrite cells_from_table by lia. reflexivity. }
  apply Permutation_app; [apply Permutation_refl|].
  rewrite leaf_table_tab, spec_p2p_tab, spec_inner_tab. apply c_P2P.
Qed.

(* ------------------------------------------------------------------ *)
(* 2b. the arguments of every call                                     *)
(* ------------------------------------------------------------------ *)
Notation ok := (call_ok d per H t).

Lemma leaf_row lf : In lf lvs -> In (lf_index lf, lf_parts lf) (leaf_table t) /\ lf_parts lf <> [].
Proof.
  intros Hlf. split; [|apply c_leaf_nonempty; exact Hlf].
  unfold leaf_table. apply in_map_iff. exists lf. split; [reflexivity|exact Hlf].
Qed.

Lemma leaf_row_index a : In a (map lf_index lvs) -> In (a, parts_of lvs a) (leaf_table t) /\ parts_of lvs a <> [].
Proof.
  intros Ha. apply in_map_iff in Ha. destruct Ha as (lf & <- & Hlf).
  rewrite (parts_of_leaf lvs lf c_lvs_nodup Hlf). apply leaf_row. exact Hlf.
Qed.

Lemma P2M_calls s0 : Forall ok (pass_P2M s0 t).
Proof.
  rewrite c_P2M. destruct (s0 <? H); [|constructor]. apply Forall_forall. intros c Hc.
  apply in_map_iff in Hc. destruct Hc as (lf & <- & Hlf). cbn [call_ok]. apply leaf_row. exact Hlf.
Qed.

Lemma L2P_calls s0 : Forall ok (pass_L2P s0 t).
Proof.
  rewrite c_L2P. destruct (s0 <? H); [|constructor]. apply Forall_forall. intros c Hc.
  apply in_map_iff in Hc. destruct Hc as (lf & <- & Hlf). cbn [call_ok]. apply leaf_row. exact Hlf.
Qed.

Definition links_ok (l p : Z) (ch : list (Z * Z)) : Prop :=
  0 <= l < H - 1 /\ In p (cells_at t l) /\ ch <> [] /\ zlen ch <= nb_children d /\ NoDup (map fst ch) /\
  Forall (fun cc => In (fst cc) (cells_at t (l + 1)) /\ parent d (fst cc) = p /\ snd cc = child_code d (fst cc)) ch.

Lemma links_level (C : Z -> list (Z * Z) -> call) (E : Z -> Z -> Z -> elem) l tr :
  (forall p ch, elems_of_call (C p ch) = map (fun cc => E p (fst cc) (snd cc)) ch) ->
  (forall p1 c1 k1 p2 c2 k2, E p1 c1 k1 = E p2 c2 k2 -> p1 = p2 /\ c1 = c2 /\ k1 = k2) ->
  0 <= l <= H - 2 -> no_assert tr ->
  elementary tr = map (fun c => E (parent d c) c (child_code d c)) (cells (l + 1)) ->
  Forall (lsh C) tr ->
  forall c, In c tr -> exists p ch, c = C p ch /\ links_ok l p ch.
Proof.
  intros Hel Hinj Hl Hna Heq Hsh c Hc.
  rewrite Forall_forall in Hsh. destruct (Hsh c Hc) as [(p & ch & -> & Hne)|(id & ->)].
  2:{ exfalso. apply (Hna id). exact Hc. }
  exists p, ch. split; [reflexivity|].
  apply in_split in Hc. destruct Hc as (ta & tb & ->).
  rewrite elementary_app in Heq. change (elementary (C p ch :: tb)) with (elems_of_call (C p ch) ++ elementary tb) in Heq.
  rewrite Hel in Heq. symmetry in Heq.
  apply map_eq_app in Heq. destruct Heq as (c1 & r1 & Ecs & _ & Heq).
  apply map_eq_app in Heq. destruct Heq as (c2 & c3 & Er1 & Heq & _).
  destruct (map_links_eq d E p Hinj c2 ch Heq) as (Ec2 & HF).
  pose proof (c_sorted (l + 1) ltac:(lia)) as Hss. rewrite Ecs, Er1 in Hss.
  apply ss_app_gen in Hss. destruct Hss as (_ & Hss & _).
  apply ss_app_gen in Hss. destruct Hss as (Hss & _ & _).
  assert (Hin : forall x, In x c2 -> In x (cells (l + 1))).
  { intros x Hx. rewrite Ecs, Er1. apply in_or_app. right. apply in_or_app. left. exact Hx. }
  assert (Hpar : forall x, In x c2 -> parent d x = p).
  { intros x Hx. rewrite Ec2 in Hx. apply in_map_iff in Hx. destruct Hx as (cc & <- & Hcc).
    rewrite Forall_forall in HF. apply (HF cc Hcc). }
  unfold links_ok, cells_at. repeat split.
  - lia.
  - lia.
  - destruct ch as [|cc0 ch0]; [congruence|].
    rewrite (c_parents l) by lia. apply in_parents_of. exists (fst cc0). split.
    + apply Hin. rewrite Ec2. left. reflexivity.
    + apply Hpar. rewrite Ec2. left. reflexivity.
  - exact Hne.
  - replace (zlen ch) with (zlen c2) by (rewrite Ec2; unfold zlen; rewrite map_length; reflexivity).
    apply (siblings_capacity d c2 p Hss Hpar).
  - rewrite <- Ec2. apply ss_lt_NoDup. exact Hss.
  - apply Forall_forall. intros cc Hcc. rewrite Forall_forall in HF. destruct (HF cc Hcc) as (H1 & H2).
    repeat split; [|exact H1|exact H2]. apply Hin. rewrite Ec2. apply in_map. exact Hcc.
Qed.

Lemma m2m_level_calls l : 0 <= l <= H - 2 -> Forall ok (m2m_level d t l).
Proof.
  intros Hl. destruct (c_m2m_level l Hl) as (Hna & Hel). apply Forall_forall. intros c Hc.
  assert (Hinj : forall p1 c1 k1 p2 c2 k2, EM2M l p1 c1 k1 = EM2M l p2 c2 k2 -> p1 = p2 /\ c1 = c2 /\ k1 = k2).
  { intros p1 c1 k1 p2 c2 k2 E. injection E as -> -> ->. repeat split. }
  destruct (links_level (CM2M l) (EM2M l) l (m2m_level d t l) (fun p ch => eq_refl) Hinj Hl Hna Hel
              (staircase_sh d (CM2M l) _ _ _) c Hc) as (p & ch & -> & Hk).
  exact Hk.
Qed.

Lemma l2l_level_calls l : 0 <= l <= H - 2 -> Forall ok (l2l_level d t l).
Proof.
  intros Hl. destruct (c_l2l_level l Hl) as (Hna & Hel). apply Forall_forall. intros c Hc.
  assert (Hinj : forall p1 c1 k1 p2 c2 k2, EL2L l p1 c1 k1 = EL2L l p2 c2 k2 -> p1 = p2 /\ c1 = c2 /\ k1 = k2).
  { intros p1 c1 k1 p2 c2 k2 E. injection E as -> -> ->. repeat split. }
  destruct (links_level (CL2L l) (EL2L l) l (l2l_level d t l) (fun p ch => eq_refl) Hinj Hl Hna Hel
              (staircase_sh d (CL2L l) _ _ _) c Hc) as (p & ch & -> & Hk).
  exact Hk.
Qed.

Lemma M2M_calls s0 : 0 <= s0 -> Forall ok (pass_M2M d s0 t).
Proof.
  intros Hs. rewrite c_M2M. apply Forall_fm. intros l Hl. apply in_rev in Hl. apply In_zrange in Hl.
  apply m2m_level_calls. lia.
Qed.

Lemma L2L_calls s0 : 0 <= s0 -> Forall ok (pass_L2L d s0 t).
Proof.
  intros Hs. rewrite c_L2L. apply Forall_fm. intros l Hl. apply In_zrange in Hl.
  apply l2l_level_calls. lia.
Qed.

Lemma m2l_level_calls l : 0 <= l < H -> Forall ok (m2l_level d per l (levels_of t l)).
Proof.
  intros Hl. destruct (c_m2l_level l Hl) as (Hna & Hperm).
  pose proof (m2l_level_sh d per l (levels_of t l) Hna) as Hsh. rewrite Forall_forall in Hsh.
  apply Forall_forall. intros c Hc. destruct (Hsh c Hc) as (tg & sr & -> & Hne & Hlen).
  assert (Hall : forall sc, In sc sr -> In tg (cells l) /\ In (fst sc) (cells l) /\ In sc (ilist_cell d per l tg)).
  { intros sc Hsc.
    assert (He : In (EM2L l tg (fst sc) (snd sc)) (spec_m2l d per l (cells l))).
    { apply (Permutation_in _ Hperm). apply (elems_incl _ _ Hc). cbn [elems_of_call].
      apply in_map_iff. exists sc. split; [reflexivity|exact Hsc]. }
    apply spec_m2l_in in He. destruct He as (_ & H1 & H2 & H3). rewrite <- surjective_pairing in H3. tauto. }
  assert (Htg : In tg (cells l)).
  { destruct sr as [|sc0 sr0]; [congruence|]. apply (Hall sc0). left. reflexivity. }
  cbn [call_ok]. unfold cells_at. repeat split; try assumption; try lia.
  apply Forall_forall. intros sc Hsc. destruct (Hall sc Hsc) as (_ & H2 & H3). split; [exact H2|].
  apply (Permutation_in _ (ilist_exact d per l tg Hd ltac:(lia) (c_range l tg Hl Htg))). exact H3.
Qed.

Lemma M2L_calls s0 : 0 <= s0 -> Forall ok (pass_M2L d per s0 t).
Proof.
  intros Hs. rewrite c_M2L. apply Forall_fm. intros l Hl. apply In_zrange in Hl.
  apply m2l_level_calls. lia.
Qed.

Lemma P2P_calls : Forall ok (pass_P2P d per t).
Proof.
  destruct c_P2P as (Hna & Hperm).
  pose proof (p2p_groups_sh d per (height t - 1) (t_pgroups t)) as Hsh. rewrite <- pass_P2P_unfold in Hsh.
  rewrite Forall_forall in Hsh. apply Forall_forall. intros c Hc. specialize (Hsh c Hc).
  assert (He : forall e, In e (elems_of_call c) -> In e (spec_p2p d per L lvs ++ spec_p2p_inner lvs)).
  { intros e Hin. apply (Permutation_in _ Hperm). apply (elems_incl _ _ Hc). exact Hin. }
  destruct c as [lf ps|l p ch|l tg sr|l p ch|lf ps|src tg code sp tp|src tg code sp tp|lf ps|id]; try contradiction.
  - specialize (He _ (or_introl eq_refl)). apply in_app_or in He. destruct He as [He|He].
    2:{ unfold spec_p2p_inner in He. apply in_map_iff in He. destruct He as (lf & E & _). discriminate. }
    apply spec_p2p_in in He. destruct He as (Ha & Hb & Hn & -> & ->).
    destruct (leaf_row_index src Ha) as (R1 & N1). destruct (leaf_row_index tg Hb) as (R2 & N2).
    cbn [call_ok]. repeat split; try assumption.
    assert (Hr : 0 <= tg < 2 ^ (L * dz d)). { apply (c_range L); [lia|]. rewrite c_leaf_cells. exact Hb. }
    apply (Permutation_in _ (nlist_exact d per L true tg Hd ltac:(lia) Hr)). exact Hn.
  - specialize (He _ (or_introl eq_refl)). apply in_app_or in He. destruct He as [He|He].
    { apply spec_p2p_only in He. destruct He as (a & b & k & sp & tp & E). discriminate. }
    unfold spec_p2p_inner in He. apply in_map_iff in He. destruct He as (lf' & E & Hlf). injection E as <- <-.
    cbn [call_ok]. apply leaf_row. exact Hlf.
  - exfalso. apply (Hna id). exact Hc.
Qed.

Theorem tree_args_consistent s flags : Forall ok (execute d per s flags t).
Proof.
  unfold execute. cbv zeta. assert (Hs : 0 <= Z.max 0 s) by lia.
  repeat (apply Forall_app; split).
  - destruct (has flags F_P2M); [apply P2M_calls|constructor].
  - destruct (has flags F_M2M); [apply M2M_calls; exact Hs|constructor].
  - destruct (has flags F_M2L); [apply M2L_calls; exact Hs|constructor].
  - destruct (has flags F_L2L); [apply L2L_calls; exact Hs|constructor].
  - destruct (has flags F_L2P); [apply L2P_calls|constructor].
  - destruct (has flags F_P2P); [apply P2P_calls|constructor].
Qed.

End Tree.
End Cor.

(* ------------------------------------------------------------------ *)
(* 3. property C08                                                     *)
(* ------------------------------------------------------------------ *)
Theorem exec_refines_spec : forall d per H B mode s t idx, (0 < d)%nat -> 1 <= H ->
  tree_ok (parent d) H B mode t -> particles_ok idx t ->
  Forall (fun i => 0 <= i < 2 ^ ((H - 1) * dz d)) idx -> idx <> [] ->
  Permutation (elementary (execute d per s 63 t)) (spec_all d per s H (leaf_table t)).
Proof.
  intros d per H B mode s t idx Hd HH Hok Hpart Hrange _.
  exact (tree_refines_spec d Hd per H B mode t idx HH Hok Hpart Hrange s).
Qed.

Theorem grouping_independent : forall d per H B1 m1 B2 m2 s t1 t2 idx, (0 < d)%nat -> 1 <= H ->
  tree_ok (parent d) H B1 m1 t1 -> tree_ok (parent d) H B2 m2 t2 -> particles_ok idx t1 -> particles_ok idx t2 ->
  Forall (fun i => 0 <= i < 2 ^ ((H - 1) * dz d)) idx -> idx <> [] -> leaf_table t1 = leaf_table t2 ->
  Permutation (elementary (execute d per s 63 t1)) (elementary (execute d per s 63 t2)).
Proof.
  intros d per H B1 m1 B2 m2 s t1 t2 idx Hd HH Hok1 Hok2 Hp1 Hp2 Hrange Hne E.
  apply (Permutation_trans (exec_refines_spec d per H B1 m1 s t1 idx Hd HH Hok1 Hp1 Hrange Hne)).
  rewrite E. apply Permutation_sym.
  exact (exec_refines_spec d per H B2 m2 s t2 idx Hd HH Hok2 Hp2 Hrange Hne).
Qed.

(* ------------------------------------------------------------------ *)
(* 4. property C02                                                     *)
(* ------------------------------------------------------------------ *)
Theorem args_consistent : forall d per H B mode s flags t idx, (0 < d)%nat -> 1 <= H ->
  tree_ok (parent d) H B mode t -> particles_ok idx t ->
  Forall (fun i => 0 <= i < 2 ^ ((H - 1) * dz d)) idx -> idx <> [] ->
  Forall (call_ok d per H t) (execute d per s flags t).
Proof.
  intros d per H B mode s flags t idx Hd HH Hok Hpart Hrange _.
  exact (tree_args_consistent d Hd per H B mode t idx HH Hok Hpart Hrange s flags).
Qed.

(* ------------------------------------------------------------------ *)
(* 5. what membership in the specification lists means                 *)
(* ------------------------------------------------------------------ *)
(* a member (src, code) of the interaction list of [tg]: [code] encodes (and decodes to) the true offset o between the
   two cells, src is the cell at tg + o (wrapped when periodic, inside the grid otherwise), the cells are not adjacent
   and their parents are *)
Theorem ilist_spec_geometry : forall d per l tg src code,
  In (src, code) (ilist_spec d per l tg) ->
  exists o, let u := map2 Z.add (unbox d tg) o in
    length o = d /\ Forall (fun x => -3 <= x <= 3) o /\ code = enc7 o /\ dec7 d code = o /\
    too_close o = false /\ parents_adjacent (unbox d tg) u = true /\
    src = box d (if per then wrap l u else u) /\ (per = false -> in_grid l u = true) /\ ilist_active per l = true.
Proof.
  intros d per l tg src code Hin. unfold ilist_spec in Hin.
  destruct (ilist_active per l) eqn:Hact; cbn [negb] in Hin; [|destruct Hin].
  apply in_flat_map in Hin. destruct Hin as (o & Ho & Hin). cbv zeta in Hin.
  apply cube_Forall in Ho. destruct Ho as (Hlen & HF).
  exists o. cbv zeta.
  destruct (too_close o) eqn:Etc; [destruct Hin|].
  destruct (parents_adjacent (unbox d tg) (map2 Z.add (unbox d tg) o)) eqn:Epa; cbn [negb] in Hin; [|destruct Hin].
  assert (Hdec : dec7 d (enc7 o) = o) by (apply dec7_enc7; assumption).
  destruct per.
  - destruct Hin as [E|[]]. injection E as <- <-. repeat split; try assumption; try reflexivity. discriminate.
  - destruct (in_grid l (map2 Z.add (unbox d tg) o)) eqn:Eg; [|destruct Hin].
    destruct Hin as [E|[]]. injection E as <- <-. repeat split; try assumption; reflexivity.
Qed.

(* a member (src, code) of the upper-half neighbour list of [tg] *)
Theorem nlist_spec_geometry : forall d per l tg src code,
  In (src, code) (nlist_spec d per l true tg) ->
  exists o, let u := map2 Z.add (unbox d tg) o in
    length o = d /\ Forall (fun x => -1 <= x <= 1) o /\ code = enc3 o /\ dec3 d code = o /\
    forallb (Z.eqb 0) o = false /\ lex_positive d o = true /\
    src = box d (if per then wrap l u else u) /\ (per = false -> in_grid l u = true).
Proof.
  intros d per l tg src code Hin. unfold nlist_spec in Hin.
  apply in_flat_map in Hin. destruct Hin as (o & Ho & Hin). cbv zeta in Hin.
  apply cube_Forall in Ho. destruct Ho as (Hlen & HF).
  exists o. cbv zeta.
  destruct (forallb (Z.eqb 0) o) eqn:Ez; [destruct Hin|].
  destruct (lex_positive d o) eqn:Elp; cbn [andb negb] in Hin; [|destruct Hin].
  assert (Hdec : dec3 d (enc3 o) = o) by (apply dec3_enc3; assumption).
  destruct per.
  - destruct Hin as [E|[]]. injection E as <- <-. repeat split; try assumption; try reflexivity. discriminate.
  - destruct (in_grid l (map2 Z.add (unbox d tg) o)) eqn:Eg; [|destruct Hin].
    destruct Hin as [E|[]]. injection E as <- <-. repeat split; try assumption; reflexivity.
Qed.

Print Assumptions exec_refines_spec.
Print Assumptions grouping_independent.
Print Assumptions args_consistent.
Print Assumptions ilist_spec_geometry.
Print Assumptions nlist_spec_geometry.
