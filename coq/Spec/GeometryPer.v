(* Geometry of the PERIODIC interaction / neighbour lists (the in-box half of the periodic FMM):
   the periodic lists deliver every image of the 3^d adjacent copies of the box exactly once.
   Everything is stated on UNWRAPPED coordinate vectors: [ca] = leaf coordinates of the target leaf (in [0,2^L)),
   [u] = unwrapped leaf coordinates of an image of a source leaf (in [-2^L, 2*2^L)). *)
From Tbfmm Require Import Base.Prelude Index.MortonDefs Index.ListsDefs Index.ListsSpec
  Index.MortonProofs Index.MortonBits Index.ListsProofs Exec.ExecPeriodicDefs Spec.Geometry Spec.TopTree.
From Coq Require Import ZifyBool Zify Permutation.
Local Open Scope Z_scope.
Ltac Zify.zify_post_hook ::= Z.div_mod_to_equations.

(* ------------------------------------------------------------------ *)
(* Definitions                                                         *)
(* ------------------------------------------------------------------ *)
(* ancestor coordinates at level l; floor division, also for negative coordinates *)
Definition ancv (L l : Z) (u : list Z) : list Z := map (fun x => x / 2 ^ (L - l)) u.
Definition vsub : list Z -> list Z -> list Z := map2 Z.sub.
(* the neighbour list of leaf a contains the image u (as wrapped cell + unwrapped offset code) *)
Definition near_img (d : nat) (L : Z) (ca u : list Z) : Prop :=
  In (box d (wrap L u), enc3 (vsub u ca)) (nlist_spec d true L false (box d ca)).
(* the interaction list at level l of a's ancestor contains the ancestor of the image u *)
Definition far_img (d : nat) (L l : Z) (ca u : list Z) : Prop :=
  In (box d (wrap l (ancv L l u)), enc7 (vsub (ancv L l u) (ancv L l ca)))
     (ilist_spec d true l (box d (ancv L l ca))).

(* ------------------------------------------------------------------ *)
(* Validation by computation (all targets, all images of the 3^d copies) *)
(* ------------------------------------------------------------------ *)
Definition pair_inb (p : Z * Z) (l : list (Z * Z)) : bool :=
  existsb (fun q => (fst q =? fst p) && (snd q =? snd p)) l.
Definition near_imgb (d : nat) (L : Z) (ca u : list Z) : bool :=
  pair_inb (box d (wrap L u), enc3 (vsub u ca)) (nlist_spec d true L false (box d ca)).
Definition far_imgb (d : nat) (L l : Z) (ca u : list Z) : bool :=
  pair_inb (box d (wrap l (ancv L l u)), enc7 (vsub (ancv L l u) (ancv L l ca)))
           (ilist_spec d true l (box d (ancv L l ca))).
(* MAIN 1 as a boolean: equal / near / far at exactly one level, mutually exclusive *)
Definition main1b (d : nat) (L : Z) (ca u : list Z) : bool :=
  let e := veqb u ca in
  let n := near_imgb d L ca u in
  let c := length (filter (fun l => far_imgb d L l ca u) (zrange 1 L)) in
  (e && negb n && (c =? 0)%nat) || (negb e && n && (c =? 0)%nat) || (negb e && negb n && (c =? 1)%nat).
Definition main1_all (d : nat) (L : Z) : bool :=
  forallb (fun ca => forallb (fun u => main1b d L ca u) (cube d (- 2 ^ L) (2 * 2 ^ L - 1)))
          (cube d 0 (2 ^ L - 1)).

Example main1_check_1_1 : main1_all 1 1 = true. Proof. vm_compute. reflexivity. Qed.
Example main1_check_1_2 : main1_all 1 2 = true. Proof. vm_compute. reflexivity. Qed.
Example main1_check_1_3 : main1_all 1 3 = true. Proof. vm_compute. reflexivity. Qed.
Example main1_check_2_1 : main1_all 2 1 = true. Proof. vm_compute. reflexivity. Qed.
Example main1_check_2_2 : main1_all 2 2 = true. Proof. vm_compute. reflexivity. Qed.
Example main1_check_3_1 : main1_all 3 1 = true. Proof. vm_compute. reflexivity. Qed.
(* main1_all 2 3 = true was also checked (76 s), not kept in the build *)

(* the critical corner L = 1, d = 1, target leaf 0: the six images -2 .. 3 *)
Example corner_L1 :
  map (fun u => (veqb [u] [0], near_imgb 1 1 [0] [u], far_imgb 1 1 1 [0] [u])) (zrange (-2) 3) =
  [(false, false, true); (false, true, false); (true, false, false);
   (false, true, false); (false, false, true); (false, false, true)].
Proof. vm_compute. reflexivity. Qed.

Fixpoint znodupb (l : list Z) : bool :=
  match l with [] => true | x :: r => negb (zmem x r) && znodupb r end.
Definition codes_nodup_all (d : nat) (l : Z) : bool :=
  forallb (fun idx => znodupb (map snd (ilist_spec d true l idx))
                      && znodupb (map snd (nlist_spec d true l false idx))
                      && znodupb (map snd (nlist_spec d true l true idx))) (zseq (2 ^ (l * dz d))).
Example codes_check : map (fun dl => codes_nodup_all (fst dl) (snd dl))
                          [(1%nat, 0); (1%nat, 1); (1%nat, 2); (2%nat, 0); (2%nat, 1); (2%nat, 2); (3%nat, 1)]
                      = [true; true; true; true; true; true; true].
Proof. vm_compute. reflexivity. Qed.

(* every periodic list is full: 6^d - 3^d interactions, 3^d - 1 neighbours, also at L = 1 and L = 0 *)
Example full_lists :
  (map (fun idx => length (ilist_spec 2 true 1 idx)) (zseq 4),
   map (fun idx => length (nlist_spec 2 true 1 false idx)) (zseq 4),
   map (fun idx => length (nlist_spec 2 true 0 false idx)) (zseq 1))
  = ([27; 27; 27; 27]%nat, [8; 8; 8; 8]%nat, [8%nat]).
Proof. vm_compute. reflexivity. Qed.

Definition upper_check (d : nat) : bool :=
  forallb (fun o => veqb o (repeat 0 d) || xorb (lex_positive d o) (lex_positive d (map Z.opp o))) (cube d (-1) 1).
Example upper_check_123 : (upper_check 1, upper_check 2, upper_check 3) = (true, true, true).
Proof. vm_compute. reflexivity. Qed.

Definition split_check (d : nat) (k : Z) : bool :=
  let (lo, hi) := repetition_interval k in
  mseqb (cube_shifts d lo hi) (cube_shifts d (-1) 1 ++ far_shifts d lo hi).
Example split_check_small :
  (split_check 1 0, split_check 1 1, split_check 1 2, split_check 2 0, split_check 2 1, split_check 3 0)
  = (true, true, true, true, true, true).
Proof. vm_compute. reflexivity. Qed.

(* ------------------------------------------------------------------ *)
(* MAIN 5: the repetition cube = the 3^d adjacent copies + the top-tree shifts *)
(* ------------------------------------------------------------------ *)
Lemma cube_split_gen d lo hi : lo <= -1 -> 1 <= hi ->
  Permutation (cube_shifts d lo hi) (cube_shifts d (-1) 1 ++ far_shifts d lo hi).
Proof.
  intros Hlo Hhi. unfold far_shifts.
  change (fun s : list Z => negb (forallb (fun x => Z.abs x <=? 1) s)) with (fun s => negb (too_close s)).
  apply NoDup_Permutation.
  - apply NoDup_cs.
  - apply NoDup_app_intro; [apply NoDup_cs|apply NoDup_filter, NoDup_cs|].
    intros x Hx1 Hx2. apply In_cs in Hx1. destruct Hx1 as [_ Hx1].
    apply filter_In in Hx2. destruct Hx2 as [_ Hx2].
    rewrite too_close_inbox, Hx1 in Hx2. discriminate.
  - intros v. rewrite in_app_iff, filter_In, !In_cs, too_close_inbox. split.
    + intros [Hlen Hin]. destruct (inbox (-1) 1 v) eqn:E.
      * left. split; [exact Hlen|reflexivity].
      * right. split; [split; [exact Hlen|exact Hin]|reflexivity].
    + intros [[Hlen Hin]|[[Hlen Hin] _]].
      * split; [exact Hlen|]. apply (inbox_mono (-1) 1 lo hi); [lia|lia|exact Hin].
      * split; [exact Hlen|exact Hin].
Qed.

Theorem repetition_cube_split : forall d k, (0 < d)%nat -> 0 <= k ->
  let (lo, hi) := repetition_interval k in
  Permutation (cube_shifts d lo hi) (cube_shifts d (-1) 1 ++ far_shifts d lo hi).
Proof.
  intros d k _ Hk. destruct (Z.eq_dec k 0) as [->|Hne].
  - change (repetition_interval 0) with (-3, 3). apply cube_split_gen; lia.
  - rewrite repetition_interval_pos by lia.
    assert (Hp : 2 <= 2 ^ k).
    { change 2 with (2 ^ 1) at 1. apply Z.pow_le_mono_r; lia. }
    apply cube_split_gen; lia.
Qed.

Example repetition_interval_m1 : repetition_interval (-1) = (-1, 1).
Proof. reflexivity. Qed.
(* for k = -1 the whole cube is the 3^d adjacent copies, nothing is left to the top tree *)
Example repetition_cube_m1 : forall d,
  (let (lo, hi) := repetition_interval (-1) in cube_shifts d lo hi) = cube_shifts d (-1) 1.
Proof. reflexivity. Qed.

(* ------------------------------------------------------------------ *)
(* MAIN 4: of two opposite offsets exactly one is in the upper half    *)
(* ------------------------------------------------------------------ *)
Lemma forallb_eqb0_repeat o : forallb (Z.eqb 0) o = true -> o = repeat 0 (length o).
Proof.
  induction o as [|x o IH]; cbn [forallb length repeat]; intros H; [reflexivity|].
  apply andb_prop in H. destruct H as [H1 H2]. apply Z.eqb_eq in H1. subst x.
  f_equal. apply IH. exact H2.
Qed.

Lemma forallb_eqb0_of_repeat n : forallb (Z.eqb 0) (repeat 0 n) = true.
Proof. induction n as [|n IH]; cbn [repeat forallb]; [reflexivity|]. rewrite IH. reflexivity. Qed.

Lemma nonzero_eqb0 d o : length o = d -> (o <> repeat 0 d <-> forallb (Z.eqb 0) o = false).
Proof.
  intros Hlen. split.
  - intros Hne. destruct (forallb (Z.eqb 0) o) eqn:E; [|reflexivity].
    exfalso. apply Hne. rewrite <- Hlen. apply forallb_eqb0_repeat. exact E.
  - intros E ->. rewrite forallb_eqb0_of_repeat in E. discriminate.
Qed.

Theorem per_upper_one_side : forall d o, length o = d -> Forall (fun x => -1 <= x <= 1) o -> o <> repeat 0 d ->
  (lex_positive d o = true /\ lex_positive d (map Z.opp o) = false) \/
  (lex_positive d o = false /\ lex_positive d (map Z.opp o) = true).
Proof.
  intros d o Hlen HF Hne.
  assert (HF' : Forall (fun x => -1 <= x <= 1) (map Z.opp o)).
  { apply Forall_forall. intros x Hx. apply in_map_iff in Hx. destruct Hx as (y & <- & Hy).
    rewrite Forall_forall in HF. specialize (HF y Hy). cbv beta in HF. lia. }
  rewrite (upper_half d (map Z.opp o)) by (try exact HF'; rewrite map_length; exact Hlen).
  rewrite (upper_half d o Hlen HF).
  rewrite (upper_half_antisym o HF).
  - destruct (lexposb o); [left|right]; split; reflexivity.
  - apply forallb_eqb0_false. apply (nonzero_eqb0 d o Hlen). exact Hne.
Qed.

(* ------------------------------------------------------------------ *)
(* MAIN 2: the offset codes of one periodic list are pairwise distinct *)
(* ------------------------------------------------------------------ *)
Theorem per_ilist_codes_nodup : forall d l idx, (0 < d)%nat -> 0 <= l -> 0 <= idx < 2 ^ (l * dz d) ->
  NoDup (map snd (ilist_spec d true l idx)).
Proof.
  intros d l idx _ _ _. unfold ilist_spec.
  destruct (negb (ilist_active true l)); [constructor|].
  change (NoDup (map snd (flat_map (sbi d true l (unbox d idx)) (cube d (-3) 3)))).
  rewrite map_flat_map.
  apply NoDup_flat_map_g with (g := dec7 d).
  - apply NoDup_odometer.
  - intros o _. destruct (sbi_shape d true l (unbox d idx) o) as [->|[s ->]]; cbn [map].
    + constructor.
    + constructor; [intros []|constructor].
  - intros o y Ho Hy. apply cube_Forall in Ho. destruct Ho as [Hlen HF].
    destruct (sbi_shape d true l (unbox d idx) o) as [E|[s E]]; rewrite E in Hy; cbn [map snd In] in Hy.
    + destruct Hy.
    + destruct Hy as [<-|[]]. apply dec7_enc7; assumption.
Qed.

Theorem per_nlist_codes_nodup : forall d l upper idx, (0 < d)%nat -> 0 <= l -> 0 <= idx < 2 ^ (l * dz d) ->
  NoDup (map snd (nlist_spec d true l upper idx)).
Proof.
  intros d l upper idx _ _ _.
  change (NoDup (map snd (flat_map (sbn d true l upper (unbox d idx)) (cube d (-1) 1)))).
  rewrite map_flat_map.
  apply NoDup_flat_map_g with (g := dec3 d).
  - apply NoDup_odometer.
  - intros o _. destruct (sbn_shape d true l upper (unbox d idx) o) as [->|[s ->]]; cbn [map].
    + constructor.
    + constructor; [intros []|constructor].
  - intros o y Ho Hy. apply cube_Forall in Ho. destruct Ho as [Hlen HF].
    destruct (sbn_shape d true l upper (unbox d idx) o) as [E|[s E]]; rewrite E in Hy; cbn [map snd In] in Hy.
    + destruct Hy.
    + destruct Hy as [<-|[]]. apply dec3_enc3; assumption.
Qed.

(* ------------------------------------------------------------------ *)
(* Vector helpers                                                      *)
(* ------------------------------------------------------------------ *)
Lemma box_inj d p q : (0 < d)%nat -> length p = d -> length q = d ->
  Forall (fun x => 0 <= x) p -> Forall (fun x => 0 <= x) q -> box d p = box d q -> p = q.
Proof.
  intros Hd Hp Hq Np Nq E.
  rewrite <- (unbox_box d p Hd Hp Np), <- (unbox_box d q Hd Hq Nq), E. reflexivity.
Qed.

Lemma wrap_length l u : length (wrap l u) = length u.
Proof. unfold wrap. apply map_length. Qed.

Lemma wrap_nonneg l u : 0 <= l -> Forall (fun x => 0 <= x) (wrap l u).
Proof.
  intros Hl. unfold wrap. apply Forall_forall. intros x Hx. apply in_map_iff in Hx.
  destruct Hx as (y & <- & _). apply Z.mod_pos_bound. apply pow2_pos. exact Hl.
Qed.

Lemma wrap_nth l u j : nth j (wrap l u) 0 = nth j u 0 mod 2 ^ l.
Proof. unfold wrap. apply (nth_map0 (fun x => x mod 2 ^ l)). apply Zmod_0_l. Qed.

Lemma vsub_length a b : length a = length b -> length (vsub a b) = length a.
Proof. apply map2_length. Qed.

Lemma vsub_nth a b j : length a = length b -> (j < length a)%nat ->
  nth j (vsub a b) 0 = nth j a 0 - nth j b 0.
Proof. intros H Hj. unfold vsub. apply (map2_nth Z.sub 0 0 0); assumption. Qed.

Lemma vadd_nth a b j : length a = length b -> (j < length a)%nat ->
  nth j (map2 Z.add a b) 0 = nth j a 0 + nth j b 0.
Proof. intros H Hj. apply (map2_nth Z.add 0 0 0); assumption. Qed.

Lemma add_vsub c v : length c = length v -> map2 Z.add c (vsub v c) = v.
Proof.
  revert v. induction c as [|x c IH]; intros [|y v] H; cbn [length] in H; try lia; [reflexivity|].
  unfold vsub in *. cbn [map2]. rewrite IH by lia. f_equal. lia.
Qed.

Lemma ancv_length L l u : length (ancv L l u) = length u.
Proof. unfold ancv. apply map_length. Qed.

Lemma ancv_nth L l u j : nth j (ancv L l u) 0 = nth j u 0 / 2 ^ (L - l).
Proof. unfold ancv. apply (nth_map0 (fun x => x / 2 ^ (L - l))). apply Zdiv_0_l. Qed.

Lemma Forall2_len {A B} (R : A -> B -> Prop) l1 l2 : Forall2 R l1 l2 -> length l1 = length l2.
Proof. intros H. induction H; cbn [length]; [reflexivity|]. rewrite IHForall2. reflexivity. Qed.

(* ------------------------------------------------------------------ *)
(* Membership in the periodic specification lists                      *)
(* ------------------------------------------------------------------ *)
Lemma per_nlist_mem d l c src code : (0 < d)%nat -> length c = d -> Forall (fun x => 0 <= x) c ->
  (In (src, code) (nlist_spec d true l false (box d c)) <->
   exists o, In o (cube d (-1) 1) /\ forallb (Z.eqb 0) o = false /\
             src = box d (wrap l (map2 Z.add c o)) /\ code = enc3 o).
Proof.
  intros Hd Hc Hnn. unfold nlist_spec. rewrite (unbox_box d c Hd Hc Hnn), in_flat_map. cbv beta zeta. split.
  - intros (o & Ho & Hin). destruct (forallb (Z.eqb 0) o) eqn:E; [destruct Hin|].
    cbn [andb] in Hin. destruct Hin as [Hin|[]]. injection Hin as <- <-.
    exists o. repeat split; assumption.
  - intros (o & Ho & E & -> & ->). exists o. split; [exact Ho|].
    rewrite E. cbn [andb]. left. reflexivity.
Qed.

Lemma per_ilist_mem d l c src code : (0 < d)%nat -> 1 <= l -> length c = d -> Forall (fun x => 0 <= x) c ->
  (In (src, code) (ilist_spec d true l (box d c)) <->
   exists o, In o (cube d (-3) 3) /\ too_close o = false /\ parents_adjacent c (map2 Z.add c o) = true /\
             src = box d (wrap l (map2 Z.add c o)) /\ code = enc7 o).
Proof.
  intros Hd Hl Hc Hnn. unfold ilist_spec, ilist_active.
  destruct (Z.leb_spec 1 l) as [_|Hbad]; [|lia]. cbn [negb].
  rewrite (unbox_box d c Hd Hc Hnn), in_flat_map. cbv beta zeta. split.
  - intros (o & Ho & Hin). destruct (too_close o) eqn:E; [destruct Hin|].
    destruct (parents_adjacent c (map2 Z.add c o)) eqn:Ep; cbn [negb] in Hin; [|destruct Hin].
    destruct Hin as [Hin|[]]. injection Hin as <- <-.
    exists o. repeat split; assumption.
  - intros (o & Ho & E & Ep & -> & ->). exists o. split; [exact Ho|].
    rewrite E, Ep. cbn [negb]. left. reflexivity.
Qed.

(* ------------------------------------------------------------------ *)
(* The codes identify the offset even for unwrapped (out of range) offsets *)
(* ------------------------------------------------------------------ *)
Lemma fold_enc_acc b off : forall o acc,
  fold_left (fun a r => a * b + (r + off)) o acc = acc * b ^ Z.of_nat (length o) + enc_base b off o.
Proof.
  unfold enc_base. induction o as [|x o IH]; intros acc.
  - cbn. lia.
  - cbn [fold_left length]. rewrite (IH (acc * b + (x + off))), (IH (0 * b + (x + off))).
    replace (Z.of_nat (S (length o))) with (Z.succ (Z.of_nat (length o))) by lia.
    rewrite Z.pow_succ_r by lia. ring.
Qed.

Lemma enc_base_cons b off x o :
  enc_base b off (x :: o) = (x + off) * b ^ Z.of_nat (length o) + enc_base b off o.
Proof. unfold enc_base at 1. cbn [fold_left]. rewrite fold_enc_acc. ring. Qed.

(* x and y differ by a multiple e*M with |e| <= K *)
Definition congr (M K x y : Z) : Prop := exists e, x - y = e * M /\ - K <= e <= K.

Lemma enc_diff_bound b off M : 1 <= b -> 0 <= M -> forall o o', Forall2 (congr M (b - 1)) o o' ->
  Z.abs (enc_base b off o - enc_base b off o') <= M * (b ^ Z.of_nat (length o) - 1).
Proof.
  intros Hb HM o o' HF. induction HF as [|x x' o o' Hx HF IH].
  - cbn. lia.
  - destruct Hx as (e & He & Hr).
    rewrite !enc_base_cons. rewrite <- (Forall2_len _ _ _ HF). cbn [length].
    replace (Z.of_nat (S (length o))) with (Z.succ (Z.of_nat (length o))) by lia.
    rewrite Z.pow_succ_r by lia.
    set (P := b ^ Z.of_nat (length o)) in *.
    assert (HP : 0 < P) by (apply Z.pow_pos_nonneg; lia).
    set (E1 := enc_base b off o) in *. set (E2 := enc_base b off o') in *.
    assert (HQ : 0 <= M * P) by nia.
    assert (H1 : (x + off) * P + E1 - ((x' + off) * P + E2) = e * (M * P) + (E1 - E2)).
    { replace x with (x' + e * M) by lia. ring. }
    assert (H2 : - ((b - 1) * (M * P)) <= e * (M * P) <= (b - 1) * (M * P)) by nia.
    rewrite H1.
    replace (M * (b * P - 1)) with (b * (M * P) - M) by ring.
    replace (M * (P - 1)) with (M * P - M) in IH by ring.
    replace ((b - 1) * (M * P)) with (b * (M * P) - M * P) in H2 by ring.
    set (Q := M * P) in *. set (bQ := b * Q) in *. lia.
Qed.

Lemma enc_base_inj_congr b off M : 1 <= b -> 0 < M -> forall o o', Forall2 (congr M (b - 1)) o o' ->
  enc_base b off o = enc_base b off o' -> o = o'.
Proof.
  intros Hb HM o o' HF. induction HF as [|x x' o o' Hx HF IH]; intros E.
  - reflexivity.
  - pose proof (enc_diff_bound b off M Hb ltac:(lia) o o' HF) as Hbd.
    destruct Hx as (e & He & Hr).
    rewrite !enc_base_cons in E. rewrite <- (Forall2_len _ _ _ HF) in E.
    set (P := b ^ Z.of_nat (length o)) in *.
    assert (HP : 0 < P) by (apply Z.pow_pos_nonneg; lia).
    set (E1 := enc_base b off o) in *. set (E2 := enc_base b off o') in *.
    assert (H1 : e * (M * P) + (E1 - E2) = 0).
    { replace x with (x' + e * M) in E by lia. lia. }
    replace (M * (P - 1)) with (M * P - M) in Hbd by ring.
    assert (HQ : 0 < M * P) by nia.
    assert (He0 : e = 0).
    { destruct (Z.eq_dec e 0) as [E0|E0]; [exact E0|exfalso].
      assert (H2 : M * P <= e * (M * P) \/ e * (M * P) <= - (M * P)) by nia.
      set (Q := M * P) in *. lia. }
    subst e. assert (x = x') by lia. subst x'. f_equal. apply IH. lia.
Qed.

Lemma congr_mono M K K' x y : K <= K' -> congr M K x y -> congr M K' x y.
Proof. intros HK (e & He & Hr). exists e. split; [exact He|lia]. Qed.

Lemma mod_eq_congr M K x y : 0 < M -> x mod M = y mod M -> - K * M <= x - y <= K * M -> congr M K x y.
Proof.
  intros HM E Hr. exists (x / M - y / M).
  pose proof (Z.div_mod x M ltac:(lia)) as Hx. pose proof (Z.div_mod y M ltac:(lia)) as Hy.
  assert (H1 : x - y = (x / M - y / M) * M) by (rewrite Hx, Hy at 1; rewrite E; ring).
  split; [exact H1|]. set (e := x / M - y / M) in *. nia.
Qed.

(* the image at the unwrapped position v, tagged with the code of v - c, can only be produced by the offset v - c *)
Lemma offset_recover b off K d l c o v :
  (0 < d)%nat -> 0 <= l -> 1 <= b -> K <= b - 1 ->
  length c = d -> length o = d -> length v = d ->
  (forall j, (j < d)%nat -> - K * 2 ^ l <= nth j c 0 + nth j o 0 - nth j v 0 <= K * 2 ^ l) ->
  box d (wrap l (map2 Z.add c o)) = box d (wrap l v) ->
  enc_base b off o = enc_base b off (vsub v c) -> o = vsub v c.
Proof.
  intros Hd Hl Hb HK Hc Ho Hv Hr Ebox Eenc.
  assert (Hco : length (map2 Z.add c o) = d) by (rewrite map2_length; lia).
  apply box_inj in Ebox; [|exact Hd|rewrite wrap_length; exact Hco|rewrite wrap_length; exact Hv
                          |apply wrap_nonneg; exact Hl|apply wrap_nonneg; exact Hl].
  apply (enc_base_inj_congr b off (2 ^ l) Hb (pow2_pos l Hl)); [|exact Eenc].
  apply Forall2_nthZ. split; [rewrite vsub_length; lia|].
  intros j Hj. rewrite Ho in Hj. rewrite vsub_nth by lia.
  apply (congr_mono (2 ^ l) K); [exact HK|].
  assert (Ej : nth j (wrap l (map2 Z.add c o)) 0 = nth j (wrap l v) 0) by (rewrite Ebox; reflexivity).
  rewrite !wrap_nth, vadd_nth in Ej by lia.
  destruct (mod_eq_congr (2 ^ l) K _ _ (pow2_pos l Hl) Ej (Hr j Hj)) as (e & He & Hre).
  exists e. split; [lia|exact Hre].
Qed.

(* ------------------------------------------------------------------ *)
(* MAIN 3: every entry of a periodic list is an image inside the 3^d adjacent copies *)
(* ------------------------------------------------------------------ *)
Lemma Forall_range_nonneg hi c : Forall (fun x => 0 <= x < hi) c -> Forall (fun x => 0 <= x) c.
Proof. apply Forall_impl. intros x Hx. lia. Qed.

Theorem per_ilist_entries : forall d l cal src code, (0 < d)%nat -> 1 <= l -> length cal = d ->
  Forall (fun x => 0 <= x < 2 ^ l) cal ->
  In (src, code) (ilist_spec d true l (box d cal)) ->
  exists o, length o = d /\ code = enc7 o /\ src = box d (wrap l (map2 Z.add cal o)) /\ too_close o = false
            /\ Forall (fun x => -2 <= x <= 2 ^ l + 1) (map2 Z.add cal o).
Proof.
  intros d l cal src code Hd Hl Hc HF Hin.
  apply per_ilist_mem in Hin; [|exact Hd|exact Hl|exact Hc|apply (Forall_range_nonneg _ _ HF)].
  destruct Hin as (o & Ho & Htc & Hpa & Hsrc & Hcode).
  apply cube_Forall in Ho. destruct Ho as [Hlen Hor].
  exists o. repeat split; try assumption.
  assert (Hco : length (map2 Z.add cal o) = d) by (rewrite map2_length; lia).
  apply Forall_nthZ. rewrite Hco. intros j Hj. rewrite vadd_nth by lia.
  rewrite (parents_adjacent_nth d Hd cal _ Hc Hco) in Hpa. specialize (Hpa j Hj).
  rewrite vadd_nth in Hpa by lia.
  rewrite Forall_nthZ, Hc in HF. specialize (HF j Hj). cbv beta in HF.
  assert (H2 : 2 ^ l = 2 * 2 ^ (l - 1)).
  { replace l with (Z.succ (l - 1)) at 1 by lia. rewrite Z.pow_succ_r by lia. reflexivity. }
  set (P := 2 ^ (l - 1)) in *. lia.
Qed.

(* with l >= 1 every leaf below such an image cell has unwrapped coordinates in [-2^L, 2*2^L) *)
Corollary per_ilist_entries_leaf_range : forall L l x, 1 <= l <= L -> -2 <= x <= 2 ^ l + 1 ->
  - 2 ^ L <= x * 2 ^ (L - l) /\ (x + 1) * 2 ^ (L - l) <= 2 * 2 ^ L.
Proof.
  intros L l x Hl Hx.
  assert (HL : 2 ^ L = 2 ^ l * 2 ^ (L - l)).
  { rewrite <- Z.pow_add_r by lia. f_equal. lia. }
  assert (Hs : 0 < 2 ^ (L - l)) by (apply pow2_pos; lia).
  assert (Hm : 2 <= 2 ^ l).
  { change 2 with (2 ^ 1) at 1. apply Z.pow_le_mono_r; lia. }
  rewrite HL. set (m := 2 ^ l) in *. set (s := 2 ^ (L - l)) in *. nia.
Qed.

(* ... hence every leaf y whose ancestor at level l is such an image cell is an image inside the 3^d copies *)
Corollary per_ilist_entries_leaf : forall L l x y, 1 <= l <= L -> -2 <= x <= 2 ^ l + 1 ->
  y / 2 ^ (L - l) = x -> - 2 ^ L <= y < 2 * 2 ^ L.
Proof.
  intros L l x y Hl Hx Hy.
  destruct (per_ilist_entries_leaf_range L l x Hl Hx) as [H1 H2].
  assert (Hs : 0 < 2 ^ (L - l)) by (apply pow2_pos; lia).
  set (s := 2 ^ (L - l)) in *. nia.
Qed.

Theorem per_nlist_entries : forall d L ca src code, (0 < d)%nat -> 0 <= L -> length ca = d ->
  Forall (fun x => 0 <= x < 2 ^ L) ca ->
  In (src, code) (nlist_spec d true L false (box d ca)) ->
  exists o, length o = d /\ code = enc3 o /\ src = box d (wrap L (map2 Z.add ca o)) /\
            Forall (fun x => -1 <= x <= 1) o /\ o <> repeat 0 d.
Proof.
  intros d L ca src code Hd HL Hc HF Hin.
  apply per_nlist_mem in Hin; [|exact Hd|exact Hc|apply (Forall_range_nonneg _ _ HF)].
  destruct Hin as (o & Ho & Hz & Hsrc & Hcode).
  apply cube_Forall in Ho. destruct Ho as [Hlen Hor].
  exists o. repeat split; try assumption.
  apply (nonzero_eqb0 d o Hlen). exact Hz.
Qed.

(* ------------------------------------------------------------------ *)
(* Adjacency at height n above the leaves, signed floor division       *)
(* ------------------------------------------------------------------ *)
Definition adjv (d : nat) (ca u : list Z) (n : Z) : Prop :=
  forall j, (j < d)%nat -> Z.abs (nth j u 0 / 2 ^ n - nth j ca 0 / 2 ^ n) <= 1.

Lemma adjv_dec d ca u n : adjv d ca u n \/ ~ adjv d ca u n.
Proof.
  unfold adjv. apply bounded_forall_dec. intros j.
  destruct (Z_le_dec (Z.abs (nth j u 0 / 2 ^ n - nth j ca 0 / 2 ^ n)) 1); [left|right]; assumption.
Qed.

Lemma adjv_mono d ca u n n' : 0 <= n <= n' -> adjv d ca u n -> adjv d ca u n'.
Proof.
  intros Hn H j Hj. specialize (H j Hj).
  replace n' with (n + (n' - n)) by lia.
  rewrite <- !div_pow2_add by lia.
  apply div_adj; [apply pow2_pos; lia|exact H].
Qed.

Lemma adjv_0 d ca u : adjv d ca u 0 <-> forall j, (j < d)%nat -> Z.abs (nth j u 0 - nth j ca 0) <= 1.
Proof.
  unfold adjv. split; intros H j Hj; specialize (H j Hj);
    rewrite ?Z.pow_0_r, ?Z.div_1_r in *; exact H.
Qed.

Lemma anc_rng L l x a b : 0 <= l <= L -> a * 2 ^ L <= x < b * 2 ^ L ->
  a * 2 ^ l <= x / 2 ^ (L - l) < b * 2 ^ l.
Proof.
  intros Hl Hx.
  assert (HL : 2 ^ L = 2 ^ (L - l) * 2 ^ l).
  { rewrite <- Z.pow_add_r by lia. f_equal. lia. }
  assert (Hs : 0 < 2 ^ (L - l)) by (apply pow2_pos; lia).
  rewrite HL in Hx. split.
  - apply Z.div_le_lower_bound; [exact Hs|]. lia.
  - apply Z.div_lt_upper_bound; [exact Hs|]. lia.
Qed.

(* ------------------------------------------------------------------ *)
(* MAIN 1                                                              *)
(* ------------------------------------------------------------------ *)
Section Main.
Variables (d : nat) (L : Z) (ca u : list Z).
Hypothesis Hd : (0 < d)%nat.
Hypothesis HL : 1 <= L.
Hypothesis Hca : length ca = d.
Hypothesis Hu : length u = d.
Hypothesis Rca : forall j, (j < d)%nat -> 0 <= nth j ca 0 < 2 ^ L.
Hypothesis Ru : forall j, (j < d)%nat -> - 2 ^ L <= nth j u 0 < 2 * 2 ^ L.

Lemma ca_nonneg : Forall (fun x => 0 <= x) ca.
Proof. apply Forall_nthZ. rewrite Hca. intros j Hj. apply (Rca j Hj). Qed.

Lemma adjv_top : adjv d ca u L.
Proof.
  intros j Hj. pose proof (Rca j Hj) as Hc. pose proof (Ru j Hj) as Hr.
  assert (Hp : 0 < 2 ^ L) by (apply pow2_pos; lia).
  rewrite (Z.div_small (nth j ca 0)) by lia.
  assert (H : -1 <= nth j u 0 / 2 ^ L <= 1) by (apply div_bounds; [exact Hp|lia]).
  lia.
Qed.

Lemma vsub_zero_iff : forallb (Z.eqb 0) (vsub u ca) = true <-> u = ca.
Proof.
  rewrite forallb_nth, vsub_length by lia. split.
  - intros H. apply nth_ext with (d := 0) (d' := 0); [lia|].
    intros j Hj. specialize (H j Hj). rewrite vsub_nth in H by lia. lia.
  - intros E j Hj. rewrite vsub_nth by lia. rewrite E. lia.
Qed.

Lemma near_img_iff : near_img d L ca u <-> (u <> ca /\ adjv d ca u 0).
Proof.
  unfold near_img. rewrite (per_nlist_mem d L ca _ _ Hd Hca ca_nonneg). split.
  - intros (o & Ho & Hz & Ebox & Eenc).
    apply cube_Forall in Ho. destruct Ho as [Hlen Hor]. rewrite Forall_nthZ, Hlen in Hor.
    assert (E : o = vsub u ca).
    { apply (offset_recover 3 1 2 d L ca o u Hd ltac:(lia) ltac:(lia) ltac:(lia) Hca Hlen Hu).
      - intros j Hj. specialize (Hor j Hj). pose proof (Rca j Hj). pose proof (Ru j Hj).
        cbv beta in Hor. lia.
      - symmetry. exact Ebox.
      - symmetry. exact Eenc. }
    subst o. split.
    + intros Eq. apply vsub_zero_iff in Eq. congruence.
    + apply adjv_0. intros j Hj. specialize (Hor j Hj). rewrite vsub_nth in Hor by lia.
      cbv beta in Hor. lia.
  - intros [Hne Hadj]. rewrite adjv_0 in Hadj. exists (vsub u ca).
    split; [|split; [|split]].
    + apply In_cube. split; [rewrite vsub_length; lia|].
      intros j Hj. specialize (Hadj j Hj). rewrite vsub_nth by lia. lia.
    + destruct (forallb (Z.eqb 0) (vsub u ca)) eqn:E; [|reflexivity].
      apply vsub_zero_iff in E. contradiction.
    + rewrite add_vsub by lia. reflexivity.
    + reflexivity.
Qed.

Section Level.
Variable l : Z.
Hypothesis Hl : 1 <= l <= L.
Let cal := ancv L l ca.
Let ul := ancv L l u.

Let cal_len : length cal = d.
Proof. unfold cal. rewrite ancv_length. exact Hca. Qed.
Let ul_len : length ul = d.
Proof. unfold ul. rewrite ancv_length. exact Hu. Qed.
Let cal_rng : forall j, (j < d)%nat -> 0 <= nth j cal 0 < 2 ^ l.
Proof.
  intros j Hj. unfold cal. rewrite ancv_nth.
  pose proof (anc_rng L l (nth j ca 0) 0 1 ltac:(lia)) as H.
  pose proof (Rca j Hj). lia.
Qed.
Let ul_rng : forall j, (j < d)%nat -> - 2 ^ l <= nth j ul 0 < 2 * 2 ^ l.
Proof.
  intros j Hj. unfold ul. rewrite ancv_nth.
  pose proof (anc_rng L l (nth j u 0) (-1) 2 ltac:(lia)) as H.
  pose proof (Ru j Hj). lia.
Qed.
Let cal_nonneg : Forall (fun x => 0 <= x) cal.
Proof. apply Forall_nthZ. rewrite cal_len. intros j Hj. apply (cal_rng j Hj). Qed.

Let padj_iff : (forall j, (j < d)%nat -> Z.abs (nth j cal 0 / 2 - nth j ul 0 / 2) <= 1) <-> adjv d ca u (L - l + 1).
Proof.
  unfold adjv, cal, ul. split; intros H j Hj; specialize (H j Hj).
  - rewrite !ancv_nth, !div_pow2_half in H by lia. lia.
  - rewrite !ancv_nth, !div_pow2_half by lia. lia.
Qed.

Let nadj_iff : (forall j, (j < d)%nat -> Z.abs (nth j (vsub ul cal) 0) <= 1) <-> adjv d ca u (L - l).
Proof.
  unfold adjv. split; intros H j Hj; specialize (H j Hj).
  - rewrite vsub_nth in H by lia. unfold cal, ul in H. rewrite !ancv_nth in H. exact H.
  - rewrite vsub_nth by lia. unfold cal, ul. rewrite !ancv_nth. exact H.
Qed.

Lemma far_img_iff : far_img d L l ca u <-> (adjv d ca u (L - l + 1) /\ ~ adjv d ca u (L - l)).
Proof.
  unfold far_img. fold cal ul.
  rewrite (per_ilist_mem d l cal _ _ Hd ltac:(lia) cal_len cal_nonneg).
  assert (H2 : 2 <= 2 ^ l).
  { change 2 with (2 ^ 1) at 1. apply Z.pow_le_mono_r; lia. }
  split.
  - intros (o & Ho & Htc & Hpa & Ebox & Eenc).
    apply cube_Forall in Ho. destruct Ho as [Hlen Hor]. rewrite Forall_nthZ, Hlen in Hor.
    assert (E : o = vsub ul cal).
    { apply (offset_recover 7 3 3 d l cal o ul Hd ltac:(lia) ltac:(lia) ltac:(lia) cal_len Hlen ul_len).
      - intros j Hj. specialize (Hor j Hj). pose proof (cal_rng j Hj). pose proof (ul_rng j Hj).
        cbv beta in Hor. lia.
      - symmetry. exact Ebox.
      - symmetry. exact Eenc. }
    subst o. rewrite add_vsub in Hpa by lia.
    rewrite (parents_adjacent_nth d Hd cal ul cal_len ul_len) in Hpa.
    split; [apply (proj1 padj_iff); exact Hpa|].
    intros Hadj. pose proof (proj2 nadj_iff Hadj) as Hadj'.
    apply (too_close_nth d Hd) in Hadj'; [congruence|rewrite vsub_length; lia].
  - intros [Hp' Hn]. pose proof (proj2 padj_iff Hp') as Hp. exists (vsub ul cal).
    assert (Hlen : length (vsub ul cal) = d) by (rewrite vsub_length; lia).
    split; [|split; [|split; [|split]]].
    + apply In_cube. split; [exact Hlen|].
      intros j Hj. specialize (Hp j Hj). rewrite vsub_nth by lia. lia.
    + destruct (too_close (vsub ul cal)) eqn:E; [|reflexivity].
      exfalso. apply Hn. apply (proj1 nadj_iff). apply (too_close_nth d Hd _ Hlen). exact E.
    + rewrite add_vsub by lia. apply (parents_adjacent_nth d Hd cal ul cal_len ul_len). exact Hp.
    + rewrite add_vsub by lia. reflexivity.
    + reflexivity.
Qed.
End Level.

Lemma per_main : 
     (u = ca /\ ~ near_img d L ca u /\ forall l, 1 <= l <= L -> ~ far_img d L l ca u)
  \/ (u <> ca /\ near_img d L ca u /\ forall l, 1 <= l <= L -> ~ far_img d L l ca u)
  \/ (u <> ca /\ ~ near_img d L ca u /\
      exists l, 1 <= l <= L /\ far_img d L l ca u /\
                forall l', 1 <= l' <= L -> far_img d L l' ca u -> l' = l).
Proof.
  assert (Hnofar : adjv d ca u 0 -> forall l, 1 <= l <= L -> ~ far_img d L l ca u).
  { intros Hadj l Hl Hfar. apply (far_img_iff l Hl) in Hfar. destruct Hfar as [_ Hn].
    apply Hn. apply (adjv_mono d ca u 0); [lia|exact Hadj]. }
  destruct (adjv_dec d ca u 0) as [Hadj|Hnadj].
  - destruct (list_eq_dec Z.eq_dec u ca) as [E|E].
    + left. split; [exact E|]. split; [|apply Hnofar; exact Hadj].
      intros Hn. apply near_img_iff in Hn. destruct Hn as [Hne _]. contradiction.
    + right. left. split; [exact E|]. split; [|apply Hnofar; exact Hadj].
      apply near_img_iff. split; assumption.
  - right. right.
    assert (Hne : u <> ca).
    { intros E. apply Hnadj. apply adjv_0. intros j Hj. rewrite E. lia. }
    split; [exact Hne|]. split.
    { intros Hn. apply near_img_iff in Hn. destruct Hn as [_ Hn]. contradiction. }
    set (P := fun n : nat => adjv d ca u (Z.of_nat n)).
    assert (Htop : P (Z.to_nat L)).
    { unfold P. rewrite Z2Nat.id by lia. exact adjv_top. }
    destruct (first_switch P (fun n => adjv_dec d ca u (Z.of_nat n)) _ Hnadj Htop)
      as (k & Hk & Hnk & HSk).
    unfold P in Hnk, HSk.
    exists (L - Z.of_nat k). split; [lia|]. split.
    + apply (far_img_iff (L - Z.of_nat k)); [lia|].
      replace (L - (L - Z.of_nat k) + 1) with (Z.of_nat (S k)) by lia.
      replace (L - (L - Z.of_nat k)) with (Z.of_nat k) by lia.
      split; [exact HSk|exact Hnk].
    + intros l' Hl' Hfar. apply (far_img_iff l' Hl') in Hfar. destruct Hfar as [H1 H2].
      destruct (Z_lt_le_dec (L - l') (Z.of_nat k)) as [Hlt|Hge].
      * exfalso. apply Hnk. apply (adjv_mono d ca u (L - l' + 1)); [lia|exact H1].
      * destruct (Z.eq_dec (L - l') (Z.of_nat k)) as [E|E]; [lia|].
        exfalso. apply H2. apply (adjv_mono d ca u (Z.of_nat (S k))); [lia|exact HSk].
Qed.
End Main.

Theorem per_near_xor_far_once : forall d L ca u, (0 < d)%nat -> 1 <= L -> length ca = d -> length u = d ->
  Forall (fun x => 0 <= x < 2 ^ L) ca -> Forall (fun x => - 2 ^ L <= x < 2 * 2 ^ L) u ->
     (u = ca /\ ~ near_img d L ca u /\ forall l, 1 <= l <= L -> ~ far_img d L l ca u)
  \/ (u <> ca /\ near_img d L ca u /\ forall l, 1 <= l <= L -> ~ far_img d L l ca u)
  \/ (u <> ca /\ ~ near_img d L ca u /\
      exists l, 1 <= l <= L /\ far_img d L l ca u /\
                forall l', 1 <= l' <= L -> far_img d L l' ca u -> l' = l).
Proof.
  intros d L ca u Hd HL Hca Hu Fca Fu.
  rewrite Forall_nthZ, Hca in Fca. rewrite Forall_nthZ, Hu in Fu.
  apply per_main; assumption.
Qed.

Print Assumptions per_near_xor_far_once.
Print Assumptions per_ilist_codes_nodup.
Print Assumptions per_nlist_codes_nodup.
Print Assumptions per_ilist_entries.
Print Assumptions per_ilist_entries_leaf_range.
Print Assumptions per_ilist_entries_leaf.
Print Assumptions per_nlist_entries.
Print Assumptions per_upper_one_side.
Print Assumptions repetition_cube_split.
