(* Property C02 for the remaining executors: every operator call receives consistent arguments
   (a) in the TARGET/SOURCE executor (two trees): P2M/M2M read the SOURCE tree, L2L/L2P write the TARGET tree,
       M2L goes from existing source cells to an existing target cell along the specification list,
       P2PTsm goes from an existing source leaf to an existing target leaf, either the leaf with the same index
       (centre code) or a member of the FULL neighbour list of the target;
   (b) in the periodic top tree (single tree and target/source variants). *)
From Tbfmm Require Import Base.Prelude Base.Search Index.MortonDefs Tree.GroupDefs Index.ListsDefs Index.ListsSpec
  Tree.BuildDefs Tree.Invariant Tree.LookupProofs Tree.BuildProofs Index.MortonProofs Index.MortonBits Index.ListsProofs
  Index.ListsCapacity Exec.ExecDefs Exec.ExecTsmDefs Exec.ExecPeriodicDefs Spec.Elem Spec.Kernel Spec.Geometry
  Exec.RefineM2M Exec.RefineM2L Exec.RefineTsm Spec.ExactlyOnce Spec.ExactlyOnceTsm Spec.Corollaries.
From Coq Require Import Sorting.Sorted Sorting.Permutation ZifyBool Zify.
Local Open Scope Z_scope.
Ltac Zify.zify_post_hook ::= Z.div_mod_to_equations.

(* ------------------------------------------------------------------ *)
(* A. the target/source executor                                       *)
(* ------------------------------------------------------------------ *)
(* the children handed to an M2M / L2L call on tree [t]: distinct existing children of the existing parent [p],
   each with its true position code *)
Definition links_ok_in (d : nat) (H : Z) (t : tree) (l p : Z) (ch : list (Z * Z)) : Prop :=
  0 <= l < H - 1 /\ In p (cells_at t l) /\ ch <> [] /\ zlen ch <= nb_children d /\ NoDup (map fst ch) /\
  Forall (fun cc => In (fst cc) (cells_at t (l + 1)) /\ parent d (fst cc) = p /\ snd cc = child_code d (fst cc)) ch.

Definition call_ok_tsm (d : nat) (per : bool) (H : Z) (src tgt : tree) (c : call) : Prop :=
  match c with
  | CP2M leaf parts => In (leaf, parts) (leaf_table src) /\ parts <> []
  | CL2P leaf parts => In (leaf, parts) (leaf_table tgt) /\ parts <> []
  | CM2M l p ch => links_ok_in d H src l p ch
  | CL2L l p ch => links_ok_in d H tgt l p ch
  | CM2L l tg sr =>
      0 <= l < H /\ In tg (cells_at tgt l) /\ sr <> [] /\ zlen sr <= nb_interactions d /\
      Forall (fun sc => In (fst sc) (cells_at src l) /\ In sc (ilist_spec d per l tg)) sr
  | CP2PTsm s tg code sp tp =>
      In (s, sp) (leaf_table src) /\ In (tg, tp) (leaf_table tgt) /\ sp <> [] /\ tp <> [] /\
      ((s = tg /\ code = enc3 (repeat 0 d)) \/ In (s, code) (nlist_spec d per (H - 1) false tg))
  | CP2P _ _ _ _ _ => False
  | CP2PInner _ _ => False
  | CAssert _ => False
  end.

(* the self code is the centre of the 3^d cube *)
Lemma enc3_zeros n : 2 * enc3 (repeat 0 n) + 1 = 3 ^ Z.of_nat n.
Proof.
  induction n as [|n IH]; [reflexivity|].
  cbn [repeat]. rewrite enc3_cons, repeat_length, Nat2Z.inj_succ, Z.pow_succ_r by lia. lia.
Qed.

Lemma self_code_centre d : enc3 (repeat 0 d) = Z.quot (pow3d d) 2.
Proof.
  unfold pow3d, dz. pose proof (enc3_zeros d) as E.
  assert (Hp : 0 < 3 ^ Z.of_nat d) by (apply Z.pow_pos_nonneg; lia).
  rewrite Z.quot_div_nonneg by lia. lia.
Qed.

(* generic: a property of every call + a shape of every call gives another property *)
Lemma Forall_conv (P S Q : call -> Prop) tr :
  (forall c, P c -> S c -> Q c) -> Forall P tr -> Forall S tr -> Forall Q tr.
Proof.
  intros HQ HP HS. rewrite Forall_forall in *. intros c Hc. apply HQ; [apply HP|apply HS]; exact Hc.
Qed.

(* --- reading the two-tree specification lists --- *)
Lemma spec_m2l_tsm_in d per l l' sc tc tg a k : In (EM2L l' tg a k) (spec_m2l_tsm d per l sc tc) ->
  l' = l /\ In tg tc /\ In a sc /\ In (a, k) (ilist_cell d per l tg).
Proof.
  unfold spec_m2l_tsm. intros Hin. apply in_flat_map in Hin. destruct Hin as (t' & Ht' & Hin).
  apply in_flat_map in Hin. destruct Hin as ([a' k'] & Hsc & Hin). cbn [fst snd] in Hin.
  destruct (zmem a' sc) eqn:Ez; [|destruct Hin]. destruct Hin as [E|[]]. injection E as -> -> -> ->.
  apply zmem_In in Ez. repeat split; assumption.
Qed.

Lemma spec_p2p_tsm_in d per L slvs tlvs a b k sp tp : In (EP2PTsm a b k sp tp) (spec_p2p_tsm d per L slvs tlvs) ->
  In a (map lf_index slvs) /\ In b (map lf_index tlvs) /\
  In (a, k) (nlist_cell d per L false b ++ [(b, enc3 (repeat 0 d))]) /\
  sp = parts_of slvs a /\ tp = parts_of tlvs b.
Proof.
  unfold spec_p2p_tsm. cbv zeta. intros Hin. apply in_flat_map in Hin. destruct Hin as (t' & Ht' & Hin).
  apply in_flat_map in Hin. destruct Hin as ([a' k'] & Hsc & Hin). cbn [fst snd] in Hin.
  destruct (zmem a' (map lf_index slvs)) eqn:Ez; [|destruct Hin]. destruct Hin as [E|[]].
  injection E as -> -> -> <- <-. apply zmem_In in Ez. repeat split; assumption.
Qed.

(* --- shapes --- *)
Definition p2m_sh (c : call) : Prop := match c with CP2M _ _ => True | _ => False end.
Definition l2p_sh (c : call) : Prop := match c with CL2P _ _ => True | _ => False end.
Definition m2m_sh (c : call) : Prop := match c with CM2M _ _ _ | CAssert _ => True | _ => False end.
Definition l2l_sh (c : call) : Prop := match c with CL2L _ _ _ | CAssert _ => True | _ => False end.
Definition p2ptsm_sh (c : call) : Prop := match c with CP2PTsm _ _ _ _ _ | CAssert _ => True | _ => False end.

Lemma lsh_m2m l c : lsh (CM2M l) c -> m2m_sh c.
Proof. intros [(p & ch & -> & _)|(id & ->)]; exact I. Qed.

Lemma lsh_l2l l c : lsh (CL2L l) c -> l2l_sh c.
Proof. intros [(p & ch & -> & _)|(id & ->)]; exact I. Qed.

Lemma m2m_level_shape d t l : Forall m2m_sh (m2m_level d t l).
Proof. unfold m2m_level. eapply Forall_impl; [exact (lsh_m2m l)|apply staircase_sh]. Qed.

Lemma l2l_level_shape d t l : Forall l2l_sh (l2l_level d t l).
Proof. unfold l2l_level. eapply Forall_impl; [exact (lsh_l2l l)|apply staircase_sh]. Qed.

Ltac tsm_sh_list := repeat first [apply Forall_nil | apply Forall_cons; [exact I|]].

Lemma tsm_between_x_sh src tgt x : Forall p2ptsm_sh (between_x CP2PTsm src tgt x).
Proof.
  unfold between_x. destruct (pg_find src (x_src x)) as [ks|]; [|constructor]. cbv zeta.
  apply Forall_app. split.
  - destruct (pg_find tgt (x_tgt x)) as [k|]; [destruct (k =? x_tpos x)|]; tsm_sh_list.
  - apply Forall_app. split; [|tsm_sh_list].
    match goal with |- context [if ?b then _ else _] => destruct b end; tsm_sh_list.
Qed.

Lemma tsm_p2p_groups_sh d per L spgs tpgs : Forall p2ptsm_sh (tsm_p2p_groups d per L spgs tpgs).
Proof.
  unfold tsm_p2p_groups. apply Forall_fm. intros g _.
  destruct (nlist_block d per L false false g) as [internal external].
  apply Forall_fm. intros gv _. rewrite p2p_between_unfold. apply Forall_fm. intros x _. apply tsm_between_x_sh.
Qed.

Lemma tsm_m2l_level_sh d per l sgroups tgroups : no_assert (tsm_m2l_level d per l sgroups tgroups) ->
  Forall (m2l_sh (nb_interactions d) l) (tsm_m2l_level d per l sgroups tgroups).
Proof.
  unfold tsm_m2l_level. apply na_fm_sh. intros g _.
  destruct (ilist_block d per l false g) as [internal external].
  apply na_fm_sh. intros gv _. rewrite m2l_between_unfold. apply na_fm_sh. intros run _. apply between_body_sh.
Qed.

(* --- the passes on two well-formed trees of the same height --- *)
Section TwoTreesArgs.
Variable d : nat.
Hypothesis Hd : (0 < d)%nat.
Variables (per : bool) (H Bs Bt : Z) (ms mt : bool) (src tgt : tree) (idxs idxt : list Z).
Hypothesis HH : 1 <= H.
Hypothesis Hsok : tree_ok (parent d) H Bs ms src.
Hypothesis Htok : tree_ok (parent d) H Bt mt tgt.
Hypothesis Hspart : particles_ok idxs src.
Hypothesis Htpart : particles_ok idxt tgt.
Hypothesis Hsrange : Forall (fun i => 0 <= i < 2 ^ ((H - 1) * dz d)) idxs.
Hypothesis Htrange : Forall (fun i => 0 <= i < 2 ^ ((H - 1) * dz d)) idxt.

Notation L := (H - 1).
Notation okt := (call_ok_tsm d per H src tgt).

Lemma tsm_P2M_calls s0 : Forall okt (pass_P2M s0 src).
Proof.
  rewrite (c_P2M d Hd H Bs ms src HH Hsok). destruct (s0 <? H); [|constructor]. apply Forall_forall. intros c Hc.
  apply in_map_iff in Hc. destruct Hc as (lf & <- & Hlf). cbn [call_ok_tsm].
  exact (leaf_row d H Bs ms src Hsok lf Hlf).
Qed.

Lemma tsm_L2P_calls s0 : Forall okt (pass_L2P s0 tgt).
Proof.
  rewrite (c_L2P d H Bt mt tgt Htok). destruct (s0 <? H); [|constructor]. apply Forall_forall. intros c Hc.
  apply in_map_iff in Hc. destruct Hc as (lf & <- & Hlf). cbn [call_ok_tsm].
  exact (leaf_row d H Bt mt tgt Htok lf Hlf).
Qed.

Lemma tsm_M2M_calls s0 : 0 <= s0 -> Forall okt (pass_M2M d s0 src).
Proof.
  intros Hs.
  apply (Forall_conv (call_ok d per H src) m2m_sh).
  - intros c Hc Hsh. destruct c; try contradiction. exact Hc.
  - exact (M2M_calls d Hd per H Bs ms src Hsok s0 Hs).
  - rewrite (c_M2M d H Bs ms src Hsok). apply Forall_fm. intros l _. apply m2m_level_shape.
Qed.

Lemma tsm_L2L_calls s0 : 0 <= s0 -> Forall okt (pass_L2L d s0 tgt).
Proof.
  intros Hs.
  apply (Forall_conv (call_ok d per H tgt) l2l_sh).
  - intros c Hc Hsh. destruct c; try contradiction. exact Hc.
  - exact (L2L_calls d Hd per H Bt mt tgt Htok s0 Hs).
  - rewrite (c_L2L d H Bt mt tgt Htok). apply Forall_fm. intros l _. apply l2l_level_shape.
Qed.

Lemma tsm_m2l_level_calls l : 0 <= l < H ->
  Forall okt (tsm_m2l_level d per l (levels_of src l) (levels_of tgt l)).
Proof.
  intros Hl.
  destruct (tsm_m2l_level_ok d Hd H Bs Bt ms mt src tgt idxt Hsok Htok Htpart Htrange per l Hl) as (Hna & Hperm).
  pose proof (tsm_m2l_level_sh d per l _ _ Hna) as Hsh. rewrite Forall_forall in Hsh.
  apply Forall_forall. intros c Hc. destruct (Hsh c Hc) as (tg & sr & -> & Hne & Hlen).
  assert (Hall : forall sc, In sc sr -> In tg (cells_at tgt l) /\ In (fst sc) (cells_at src l) /\ In sc (ilist_cell d per l tg)).
  { intros sc Hsc.
    assert (He : In (EM2L l tg (fst sc) (snd sc))
                    (spec_m2l_tsm d per l (level_cells (levels_of src l)) (level_cells (levels_of tgt l)))).
    { apply (Permutation_in _ Hperm). apply (elems_incl _ _ Hc). cbn [elems_of_call].
      apply in_map_iff. exists sc. split; [reflexivity|exact Hsc]. }
    apply spec_m2l_tsm_in in He. destruct He as (_ & H1 & H2 & H3). rewrite <- surjective_pairing in H3.
    unfold cells_at. tauto. }
  assert (Htg : In tg (cells_at tgt l)).
  { destruct sr as [|sc0 sr0]; [congruence|]. apply (Hall sc0). left. reflexivity. }
  cbn [call_ok_tsm]. repeat split; try assumption; try lia.
  apply Forall_forall. intros sc Hsc. destruct (Hall sc Hsc) as (_ & H2 & H3). split; [exact H2|].
  assert (Hr : 0 <= tg < 2 ^ (l * dz d)).
  { exact (c_range d Hd H Bt mt tgt idxt Htok Htpart Htrange l tg Hl Htg). }
  apply (Permutation_in _ (ilist_exact d per l tg Hd ltac:(lia) Hr)). exact H3.
Qed.

Lemma tsm_M2L_calls s0 : 0 <= s0 -> Forall okt (tsm_pass_M2L d per s0 src tgt).
Proof.
  intros Hs. rewrite (tsm_pass_M2L_eq d H Bt mt src tgt Htok). apply Forall_fm. intros l Hl.
  apply In_zrange in Hl. apply tsm_m2l_level_calls. lia.
Qed.

Lemma tsm_P2P_calls : Forall okt (tsm_pass_P2P d per src tgt).
Proof.
  destruct (tsm_pass_P2P_ok d Hd H Bs Bt ms mt src tgt HH Hsok Htok per) as (Hna & Hperm).
  pose proof (tsm_p2p_groups_sh d per (height tgt - 1) (t_pgroups src) (t_pgroups tgt)) as Hsh.
  rewrite <- tsm_pass_P2P_unfold in Hsh.
  rewrite Forall_forall in Hsh. apply Forall_forall. intros c Hc. specialize (Hsh c Hc).
  assert (He : forall e, In e (elems_of_call c) -> In e (spec_p2p_tsm d per L (all_leaves src) (all_leaves tgt))).
  { intros e Hin. apply (Permutation_in _ Hperm). apply (elems_incl _ _ Hc). exact Hin. }
  destruct c as [lf ps|l p ch|l tg sr|l p ch|lf ps|s tg code sp tp|s tg code sp tp|lf ps|id]; try contradiction.
  - specialize (He _ (or_introl eq_refl)). apply spec_p2p_tsm_in in He.
    destruct He as (Ha & Hb & Hn & -> & ->).
    destruct (leaf_row_index d Hd H Bs ms src HH Hsok s Ha) as (R1 & N1).
    destruct (leaf_row_index d Hd H Bt mt tgt HH Htok tg Hb) as (R2 & N2).
    cbn [call_ok_tsm]. repeat split; try assumption.
    apply in_app_or in Hn. destruct Hn as [Hn|[E|[]]].
    + right.
      assert (Hr : 0 <= tg < 2 ^ (L * dz d)).
      { apply (c_range d Hd H Bt mt tgt idxt Htok Htpart Htrange L tg); [lia|].
        rewrite (c_leaf_cells d H Bt mt tgt Htok). exact Hb. }
      apply (Permutation_in _ (nlist_exact d per L false tg Hd ltac:(lia) Hr)). exact Hn.
    + left. injection E as <- <-. split; reflexivity.
  - exfalso. apply (Hna id). exact Hc.
Qed.

Theorem tsm_tree_args_consistent s flags : Forall okt (execute_tsm d per s flags src tgt).
Proof.
  unfold execute_tsm. cbv zeta. assert (Hs : 0 <= Z.max 0 s) by lia.
  repeat (apply Forall_app; split).
  - destruct (has flags F_P2M); [apply tsm_P2M_calls|constructor].
  - destruct (has flags F_M2M); [apply tsm_M2M_calls; exact Hs|constructor].
  - destruct (has flags F_M2L); [apply tsm_M2L_calls; exact Hs|constructor].
  - destruct (has flags F_L2L); [apply tsm_L2L_calls; exact Hs|constructor].
  - destruct (has flags F_L2P); [apply tsm_L2P_calls|constructor].
  - destruct (has flags F_P2P); [apply tsm_P2P_calls|constructor].
Qed.

End TwoTreesArgs.

Theorem tsm_args_consistent : forall d per H Bs Bt ms mt s flags src tgt idxs idxt, (0 < d)%nat -> 1 <= H ->
  tree_ok (parent d) H Bs ms src -> tree_ok (parent d) H Bt mt tgt -> particles_ok idxs src -> particles_ok idxt tgt ->
  Forall (fun i => 0 <= i < 2 ^ ((H - 1) * dz d)) idxs -> Forall (fun i => 0 <= i < 2 ^ ((H - 1) * dz d)) idxt ->
  Forall (call_ok_tsm d per H src tgt) (execute_tsm d per s flags src tgt).
Proof.
  intros d per H Bs Bt ms mt s flags src tgt idxs idxt Hd HH Hsok Htok Hsp Htp Hsr Htr.
  eapply tsm_tree_args_consistent; eassumption.
Qed.

(* ------------------------------------------------------------------ *)
(* B. the periodic top tree                                            *)
(* ------------------------------------------------------------------ *)
(* the children of a base call: ALL level-1 cells of the real tree, in order, each with its true position code *)
Definition base_ok (d : nat) (k : Z) (t : tree) (l : Z) (ch : list (Z * Z)) : Prop :=
  l = k + 3 /\ map fst ch = cells_at t 1 /\ Forall (fun cc => snd cc = child_code d (fst cc)) ch.

(* a relative position of the top-tree transfer: a valid offset of [-3,3]^d outside the adjacent cube, base-7 encoded *)
Definition top_code_ok (d : nat) (code : Z) : Prop :=
  exists o, code = enc7 o /\ length o = d /\ Forall (fun x => -3 <= x <= 3) o /\ too_close o = false.

(* number of source positions of one top-tree M2L: the full 7^d - 3^d window when there is a single level above the
   root (k = 0; this exceeds nb_interactions), 6^d - 3^d = nb_interactions otherwise *)
Definition top_m2l_count (d : nat) (k : Z) : Z := if k =? 0 then 7 ^ dz d - 3 ^ dz d else nb_interactions d.

Definition top_call_ok_tsm (d : nat) (k : Z) (src tgt : tree) (c : tcall) : Prop :=
  match c with
  | TM2M_base l ch => base_ok d k src l ch
  | TM2M l codes => 3 <= l <= k + 2 /\ codes = zseq (2 ^ dz d)
  | TM2L l codes => 3 <= l <= k + 3 /\ NoDup codes /\ codes <> [] /\ zlen codes = top_m2l_count d k /\
                    Forall (top_code_ok d) codes
  | TL2L l codes => 3 <= l <= k + 2 /\ codes = [0]
  | TL2L_base l ch => base_ok d k tgt l ch
  end.

Definition top_call_ok (d : nat) (k : Z) (t : tree) (c : tcall) : Prop := top_call_ok_tsm d k t t c.

Lemma level1_children_ok d k t : base_ok d k t (k + 3) (level1_children d t).
Proof.
  unfold base_ok, level1_children, cells_at, level_cells. split; [reflexivity|]. split.
  - rewrite map_map. cbn [fst]. apply map_id.
  - apply Forall_forall. intros cc Hcc. apply in_map_iff in Hcc. destruct Hcc as (c & <- & _). reflexivity.
Qed.

(* --- the windows --- *)
Lemma window_codes_shape d lo hi : -3 <= lo -> hi <= 3 -> Forall (top_code_ok d) (window_codes d lo hi).
Proof.
  intros Hlo Hhi. apply Forall_forall. intros code Hin. unfold window_codes in Hin.
  apply in_flat_map in Hin. destruct Hin as (o & Ho & Hin).
  destruct (too_close o) eqn:Etc; [destruct Hin|]. destruct Hin as [<-|[]].
  apply (cube_Forall d lo hi) in Ho. destruct Ho as (Hlen & HF).
  exists o. repeat split; try assumption.
  eapply Forall_impl; [|exact HF]. cbv beta. intros x Hx. lia.
Qed.

Lemma window_codes_nodup d lo hi : -3 <= lo -> hi <= 3 -> NoDup (window_codes d lo hi).
Proof.
  intros Hlo Hhi. unfold window_codes. apply NoDup_flat_map_g with (g := dec7 d).
  - apply NoDup_odometer.
  - intros o _. destruct (too_close o); [constructor|]. constructor; [intros []|constructor].
  - intros o y Ho Hy. destruct (too_close o); [destruct Hy|]. destruct Hy as [<-|[]].
    apply (cube_Forall d lo hi) in Ho. destruct Ho as (Hlen & HF).
    apply dec7_enc7; [exact Hlen|]. eapply Forall_impl; [|exact HF]. cbv beta. intros x Hx. lia.
Qed.

Lemma window_codes_count d lo hi kt :
  (forall c, length (filter (closeP c) (zrange lo hi)) = 3%nat) ->
  (forall c, length (filter (trueP c) (zrange lo hi)) = kt) ->
  zlen (window_codes d lo hi) = Z.of_nat kt ^ dz d - 3 ^ dz d.
Proof.
  intros Hc Ht. unfold zlen, window_codes. fold (cube d lo hi).
  rewrite (len_flat_eq _ (fun o => negb (too_close o))).
  2:{ intros o _. destruct (too_close o); reflexivity. }
  set (c := repeat 0 d). assert (Hlen : length c = d) by apply repeat_length.
  rewrite (filter_ext_in' _ (fun o => negb (fa2 closeP c o) && fa2 trueP c o)).
  2:{ intros o Ho. apply In_cube in Ho. destruct Ho as [Ho _].
      rewrite fa2_trueP, andb_true_r. unfold too_close.
      rewrite (forallb_fa2 (fun r => Z.abs r <=? 1) c o) by lia. reflexivity. }
  pose proof (count_split (fa2 closeP c) (fa2 trueP c) (cube d lo hi)) as Hs.
  rewrite (filter_ext_in' (fun x => fa2 closeP c x && fa2 trueP c x) (fa2 closeP c)) in Hs
    by (intros o _; rewrite fa2_trueP; apply andb_true_r).
  pose proof (count_pow_Z trueP lo hi kt d c Ht Hlen) as H6.
  pose proof (count_pow_Z closeP lo hi 3%nat d c Hc Hlen) as H3.
  change (Z.of_nat 3) with 3 in H3. lia.
Qed.

Lemma window_full_count d : zlen (window_codes d (-3) 3) = 7 ^ dz d - 3 ^ dz d.
Proof. apply (window_codes_count d (-3) 3 7%nat); intros c; vm_compute; reflexivity. Qed.

Lemma window_low_count d : zlen (window_codes d (-3) 2) = nb_interactions d.
Proof. apply (window_codes_count d (-3) 2 6%nat); intros c; vm_compute; reflexivity. Qed.

Lemma window_high_count d : zlen (window_codes d (-2) 3) = nb_interactions d.
Proof. apply (window_codes_count d (-2) 3 6%nat); intros c; vm_compute; reflexivity. Qed.

Lemma pow_gap d a : (0 < d)%nat -> 3 < a -> 0 < a ^ dz d - 3 ^ dz d.
Proof.
  intros Hd Ha. assert (3 ^ dz d < a ^ dz d); [|lia]. apply Z.pow_lt_mono_l; unfold dz; lia.
Qed.

Lemma zlen_pos_nonnil {A} (l : list A) : 0 < zlen l -> l <> [].
Proof. intros Hp ->. unfold zlen in Hp. cbn [length] in Hp. lia. Qed.

Section Top.
Variable d : nat.
Hypothesis Hd : (0 < d)%nat.
Variable k : Z.
Hypothesis Hk : 0 <= k.

Lemma top_M2M_calls src tgt : Forall (top_call_ok_tsm d k src tgt) (top_M2M d k src).
Proof.
  unfold top_M2M. constructor; [cbn [top_call_ok_tsm]; apply level1_children_ok|].
  apply Forall_forall. intros c Hc. apply in_map_iff in Hc. destruct Hc as (l & <- & Hl).
  apply in_rev in Hl. apply In_zrange in Hl. cbn [top_call_ok_tsm]. split; [lia|].
  rewrite Z.shiftl_1_l. reflexivity.
Qed.

Lemma top_L2L_calls src tgt : Forall (top_call_ok_tsm d k src tgt) (top_L2L d k tgt).
Proof.
  unfold top_L2L. apply Forall_app. split.
  - apply Forall_forall. intros c Hc. apply in_map_iff in Hc. destruct Hc as (l & <- & Hl).
    apply In_zrange in Hl. cbn [top_call_ok_tsm]. split; [lia|reflexivity].
  - constructor; [|constructor]. cbn [top_call_ok_tsm]. apply level1_children_ok.
Qed.

Lemma top_M2L_calls src tgt : Forall (top_call_ok_tsm d k src tgt) (top_M2L d k).
Proof.
  unfold top_M2L. destruct (Z.eqb_spec k 0) as [E0|N0].
  - constructor; [|constructor]. cbn [top_call_ok_tsm]. unfold top_m2l_count.
    replace (k =? 0) with true by lia.
    pose proof (window_full_count d) as Hc. pose proof (pow_gap d 7 Hd ltac:(lia)) as Hg.
    split; [lia|]. split; [apply window_codes_nodup; lia|]. split; [apply zlen_pos_nonnil; lia|].
    split; [exact Hc|apply window_codes_shape; lia].
  - apply Forall_forall. intros c Hc. apply in_map_iff in Hc. destruct Hc as (l & <- & Hl).
    apply In_zrange in Hl.
    assert (Hg : 0 < nb_interactions d) by (unfold nb_interactions; apply pow_gap; [exact Hd|lia]).
    assert (Hcnt : top_m2l_count d k = nb_interactions d).
    { unfold top_m2l_count. destruct (Z.eqb_spec k 0); [contradiction|reflexivity]. }
    destruct (l =? 3); cbn [top_call_ok_tsm]; rewrite Hcnt.
    + pose proof (window_low_count d) as Hc.
      split; [lia|]. split; [apply window_codes_nodup; lia|]. split; [apply zlen_pos_nonnil; lia|].
      split; [exact Hc|apply window_codes_shape; lia].
    + pose proof (window_high_count d) as Hc.
      split; [lia|]. split; [apply window_codes_nodup; lia|]. split; [apply zlen_pos_nonnil; lia|].
      split; [exact Hc|apply window_codes_shape; lia].
Qed.
End Top.

Theorem top_args_consistent_tsm : forall d k flags src tgt, (0 < d)%nat -> 0 <= k ->
  Forall (top_call_ok_tsm d k src tgt) (top_execute_tsm d k flags src tgt).
Proof.
  intros d k flags src tgt Hd Hk. unfold top_execute_tsm.
  destruct ((k <? 0) || (height src =? 0)); [constructor|].
  repeat (apply Forall_app; split).
  - destruct (has flags F_M2M); [apply top_M2M_calls; assumption|constructor].
  - destruct (has flags F_M2L); [apply top_M2L_calls; assumption|constructor].
  - destruct (has flags F_L2L); [apply top_L2L_calls; assumption|constructor].
Qed.

Theorem top_args_consistent : forall d k flags t, (0 < d)%nat -> 0 <= k ->
  Forall (top_call_ok d k t) (top_execute d k flags t).
Proof.
  intros d k flags t Hd Hk. exact (top_args_consistent_tsm d k flags t t Hd Hk).
Qed.

(* what the count means for the kernel capacity: within nb_interactions except in the single-level configuration *)
Lemma top_m2l_count_capacity d k : 0 < k -> top_m2l_count d k = nb_interactions d.
Proof. intros Hk. unfold top_m2l_count. destruct (Z.eqb_spec k 0); [lia|reflexivity]. Qed.

Lemma top_m2l_count_le7 d k : top_m2l_count d k <= 7 ^ dz d.
Proof.
  unfold top_m2l_count, nb_interactions.
  assert (0 < 3 ^ dz d) by (apply Z.pow_pos_nonneg; unfold dz; lia).
  assert (6 ^ dz d <= 7 ^ dz d) by (apply Z.pow_le_mono_l; lia).
  destruct (k =? 0); lia.
Qed.

Print Assumptions tsm_args_consistent.
Print Assumptions self_code_centre.
Print Assumptions top_args_consistent.
Print Assumptions top_args_consistent_tsm.
Print Assumptions top_m2l_count_capacity.
Print Assumptions top_m2l_count_le7.
