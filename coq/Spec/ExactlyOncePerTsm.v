(* The PERIODIC TARGET/SOURCE theorem: after [periodic_run_tsm d k 1 src tgt] (two trees, TbfAlgorithmPeriodicTopTreeTsm +
   TbfAlgorithmTsm with periodic lists) every TARGET particle holds exactly one contribution from every image of every
   SOURCE particle inside the reported repetition cube (the central box and a source at the same position included:
   there is no self exclusion between two different particle sets), and nothing else.
   Source and target particles are numbered independently as in Spec/ExactlyOnceTsm.v: [p_rhs] is indexed by target ids
   and holds (source id, shift); multipoles live on the source tree's cells, locals on the target tree's.
   The development follows Spec/ExactlyOncePer.v pass by pass and reuses its per-tree lemmas (instantiated on the
   source tree for P2M/M2M and on the target tree for L2L/L2P). *)
From Tbfmm Require Import Base.Prelude Base.Search Index.MortonDefs Tree.GroupDefs Index.ListsDefs Index.ListsSpec
  Tree.BuildDefs Tree.Invariant Tree.LookupProofs Tree.BuildProofs Index.MortonProofs Index.MortonBits Index.ListsProofs
  Index.ListsCapacity Exec.ExecDefs Exec.ExecTsmDefs Exec.ExecPeriodicDefs Spec.Elem Spec.Kernel Spec.Geometry
  Exec.RefineM2M Exec.RefineM2L Exec.RefineTsm Spec.ExactlyOnce Spec.Corollaries Spec.TopTree Spec.GeometryPer
  Spec.ExactlyOnceTsm Spec.ExactlyOncePer.
From Coq Require Import Sorting.Sorted Sorting.Permutation ZifyBool Zify.
Local Open Scope Z_scope.
Ltac Zify.zify_post_hook ::= Z.div_mod_to_equations.

(* ------------------------------------------------------------------ *)
(* 1. the image-aware free kernel with the one-sided near field        *)
(* ------------------------------------------------------------------ *)
(* [rstep] / [pstep] of Spec/ExactlyOncePer.v, except for the one-sided direct call: every particle of [tp] (target
   ids) receives the particles of [sp] (source ids) at the whole-box shift of the neighbour, the sources receive nothing *)
Definition p2ptsm_step (d : nat) (L : Z) (s : pst) (tgt code : Z) (sp tp : list Z) : pst :=
  {| p_mult := p_mult s; p_loc := p_loc s;
     p_rhs := vupd_all (p_rhs s) tp (fun _ => tag (img_shift d L tgt (dec3 d code)) sp);
     p_top := p_top s; p_box := p_box s |}.

Definition rstep_tsm (d : nat) (L : Z) (s : pst) (c : call) : pst :=
  match c with
  | CP2PTsm _ tgt code sp tp => p2ptsm_step d L s tgt code sp tp
  | _ => rstep d L s c
  end.

Definition pstep_tsm (d : nat) (k L : Z) (s : pst) (c : pcall) : pst :=
  match c with
  | Real (CP2PTsm _ tgt code sp tp) => p2ptsm_step d L s tgt code sp tp
  | _ => pstep d k L s c
  end.

Definition prun_tsm (d : nat) (k L : Z) (calls : list pcall) (s : pst) : pst := fold_left (pstep_tsm d k L) calls s.

(* the right-hand side of the main statement: no self exclusion *)
Definition expected_tsm (d : nat) (n lo hi q : Z) (sigma : list Z) : nat :=
  if (0 <=? q) && (q <? n) && (Nat.eqb (length sigma) d) && forallb (fun x => (lo <=? x) && (x <=? hi)) sigma
  then 1%nat else 0%nat.

(* ------------------------------------------------------------------ *)
(* 2. validation of the definitions and of the statement by computation *)
(* ------------------------------------------------------------------ *)
(* for every target p: the number of values is (number of sources) * (images in the cube), and the count of (q, sigma)
   is the expected one for every q in [-1, ns] and every sigma of a strictly larger cube (and two vectors of a wrong
   length); nothing is written under an id that is not a target id *)
Definition per_tsm_check (d : nat) (H Bs Bt : Z) (ms mt : bool) (k : Z) (idxs idxt : list Z) : bool :=
  let src := build (parent d) H Bs ms idxs in
  let tgt := build (parent d) H Bt mt idxt in
  let st := prun_tsm d k (H - 1) (periodic_run_tsm d k 1 src tgt) pst0 in
  let ns := zlen idxs in
  let nt := zlen idxt in
  let (lo, hi) := repetition_interval k in
  let probes := cube d (lo - 1) (hi + 1) ++ [[]; repeat 0 (S d)] in
  forallb (fun p =>
    (zlen (p_rhs st p) =? ns * (hi - lo + 1) ^ Z.of_nat d)
    && forallb (fun q => forallb (fun sigma =>
         Nat.eqb (count_occ ival_eq_dec (p_rhs st p) (q, sigma)) (expected_tsm d ns lo hi q sigma)) probes)
         (zrange (-1) ns)) (zseq nt)
  && forallb (fun p => zlen (p_rhs st p) =? 0) ((-1) :: zrange nt (nt + ns + 1)).

(* d = 1, H = 2 *)
Example tchk_1_2_m1 : per_tsm_check 1 2 2 2 false false (-1) [0; 1; 1] [1; 0] = true. Proof. vm_compute. reflexivity. Qed.
Example tchk_1_2_0 : per_tsm_check 1 2 1 1 false false 0 [0; 0] [1; 1; 1] = true. Proof. vm_compute. reflexivity. Qed.
Example tchk_1_2_1 : per_tsm_check 1 2 100 100 true true 1 [1] [0; 1] = true. Proof. vm_compute. reflexivity. Qed.
Example tchk_1_2_2 : per_tsm_check 1 2 2 2 true true 2 [0; 1] [0; 1] = true. Proof. vm_compute. reflexivity. Qed.
Example tchk_1_2_single : per_tsm_check 1 2 2 2 false false 1 [1] [1] = true. Proof. vm_compute. reflexivity. Qed.
(* d = 1, H = 3 *)
Example tchk_1_3_m1 : per_tsm_check 1 3 1 1 false false (-1) [3; 0; 2] [1; 1; 2; 0] = true. Proof. vm_compute. reflexivity. Qed.
Example tchk_1_3_0 : per_tsm_check 1 3 2 2 true true 0 [0; 1] [2; 3] = true. Proof. vm_compute. reflexivity. Qed.
Example tchk_1_3_1 : per_tsm_check 1 3 100 100 false false 1 [2; 2; 2] [0; 1; 2; 3] = true. Proof. vm_compute. reflexivity. Qed.
Example tchk_1_3_2 : per_tsm_check 1 3 2 2 false false 2 [3; 1] [3; 1] = true. Proof. vm_compute. reflexivity. Qed.
Example tchk_1_3_single_s : per_tsm_check 1 3 1 1 true true 0 [2] [0; 1; 2; 3; 3] = true. Proof. vm_compute. reflexivity. Qed.
Example tchk_1_3_single_t : per_tsm_check 1 3 1 1 true true 1 [0; 1; 2; 3; 3] [3] = true. Proof. vm_compute. reflexivity. Qed.
(* d = 1, H = 4 *)
Example tchk_1_4_m1 : per_tsm_check 1 4 2 2 false false (-1) [7; 0; 3; 4] [4; 1; 0; 7; 7] = true. Proof. vm_compute. reflexivity. Qed.
Example tchk_1_4_0 : per_tsm_check 1 4 1 1 true true 0 [0; 2; 4; 6] [1; 3; 5; 7] = true. Proof. vm_compute. reflexivity. Qed.
Example tchk_1_4_1 : per_tsm_check 1 4 100 100 false false 1 [5; 5; 5] [0; 7; 2; 5] = true. Proof. vm_compute. reflexivity. Qed.
Example tchk_1_4_2 : per_tsm_check 1 4 2 2 true true 2 [6; 1; 1] [6; 1; 1] = true. Proof. vm_compute. reflexivity. Qed.
Example tchk_1_4_single : per_tsm_check 1 4 2 2 false false 2 [0] [7] = true. Proof. vm_compute. reflexivity. Qed.
(* d = 2, H = 2 *)
Example tchk_2_2_m1 : per_tsm_check 2 2 2 2 false false (-1) [0; 3; 3] [1; 2] = true. Proof. vm_compute. reflexivity. Qed.
Example tchk_2_2_0 : per_tsm_check 2 2 1 1 true true 0 [0; 1; 2; 3] [0; 1; 2; 3] = true. Proof. vm_compute. reflexivity. Qed.
Example tchk_2_2_1 : per_tsm_check 2 2 100 100 false false 1 [2; 2] [1; 2; 0] = true. Proof. vm_compute. reflexivity. Qed.
Example tchk_2_2_single : per_tsm_check 2 2 2 2 true true 1 [3] [3] = true. Proof. vm_compute. reflexivity. Qed.
(* d = 2, H = 3 *)
Example tchk_2_3_m1 : per_tsm_check 2 3 2 2 true true (-1) [0; 15; 6] [6; 9; 3; 12] = true. Proof. vm_compute. reflexivity. Qed.
Example tchk_2_3_0 : per_tsm_check 2 3 1 1 false false 0 [5; 10; 0] [5; 10; 0] = true. Proof. vm_compute. reflexivity. Qed.
Example tchk_2_3_1 : per_tsm_check 2 3 100 100 true true 1 [12; 12] [1; 7; 12] = true. Proof. vm_compute. reflexivity. Qed.
Example tchk_2_3_single : per_tsm_check 2 3 2 2 false false 0 [9] [0; 3; 9; 15] = true. Proof. vm_compute. reflexivity. Qed.
(* independent block sizes / grouping modes of the two trees *)
Example tchk_mix_1 : per_tsm_check 1 3 1 100 false true 1 [3; 0; 2; 2] [1; 1; 2; 0] = true. Proof. vm_compute. reflexivity. Qed.
Example tchk_mix_2 : per_tsm_check 1 4 3 2 true false 0 [7; 0; 3; 4; 5] [4; 1; 0; 6] = true. Proof. vm_compute. reflexivity. Qed.
Example tchk_mix_3 : per_tsm_check 2 3 2 1 true false (-1) [0; 15; 6; 7] [6; 9; 3] = true. Proof. vm_compute. reflexivity. Qed.
Example tchk_mix_4 : per_tsm_check 2 2 1 2 false true 1 [0; 3] [3; 3; 1] = true. Proof. vm_compute. reflexivity. Qed.

(* ------------------------------------------------------------------ *)
(* 3. running the one-sided kernel                                     *)
(* ------------------------------------------------------------------ *)
Section RecordsTsm.
Variable d : nat.
Variable L : Z.

Definition is_tsm (e : elem) : bool := match e with EP2PTsm _ _ _ _ _ => true | _ => false end.
Definition is_tsm_call (c : call) : bool := match c with CP2PTsm _ _ _ _ _ => true | _ => false end.

(* contribution of a one-sided direct record to target particle p (independent of the state) *)
Definition pcr_tsm (e : elem) (p : Z) (y : ival) : nat :=
  match e with
  | EP2PTsm _ tgt code sp tp => cnt tp p *n ci (tag (img_shift d L tgt (dec3 d code)) sp) y
  | _ => 0%nat
  end.

Definition rrun_tsm (tr : list call) (s : pst) : pst := fold_left (rstep_tsm d L) tr s.

Lemma rrun_tsm_app a b w : rrun_tsm (a ++ b) w = rrun_tsm b (rrun_tsm a w).
Proof. unfold rrun_tsm. apply fold_left_app. Qed.

Lemma plain_call_elems c : is_tsm_call c = false -> forall e, In e (elems_of_call c) -> is_tsm e = false.
Proof.
  destruct c; intros E e He; try discriminate; cbn [elems_of_call] in He;
    try (apply in_map_iff in He; destruct He as (cc & <- & _); reflexivity);
    try (destruct He as [<-|[]]; reflexivity).
Qed.

Lemma rstep_tsm_plain s c : is_tsm_call c = false -> rstep_tsm d L s c = rstep d L s c.
Proof. destruct c; intros E; try reflexivity. discriminate. Qed.

Lemma plain_elems_call c : (forall e, In e (elems_of_call c) -> is_tsm e = false) -> is_tsm_call c = false.
Proof.
  intros Hn. destruct c; try reflexivity. specialize (Hn _ (or_introl eq_refl)). discriminate.
Qed.

(* a trace without one-sided direct records runs as in Spec/ExactlyOncePer.v *)
Lemma rrun_tsm_plain : forall tr, (forall e, In e (elementary tr) -> is_tsm e = false) ->
  forall s, rrun_tsm tr s = rrun d L tr s.
Proof.
  induction tr as [|c tr IH]; intros Hn s; [reflexivity|].
  change (elementary (c :: tr)) with (elems_of_call c ++ elementary tr) in Hn.
  change (rrun_tsm (c :: tr) s) with (rrun_tsm tr (rstep_tsm d L s c)).
  change (rrun d L (c :: tr) s) with (rrun d L tr (rstep d L s c)).
  rewrite rstep_tsm_plain.
  - apply IH. intros e He. apply Hn. apply in_or_app. right. exact He.
  - apply plain_elems_call. intros e He. apply Hn. apply in_or_app. left. exact He.
Qed.

Lemma tsm_elem_zero e s : is_tsm e = true ->
  (forall l x y, pcm d L s e l x y = 0%nat) /\ (forall l x y, pcl d s e l x y = 0%nat) /\
  (forall p y, pcr d L s e p y = 0%nat).
Proof. destruct e; intros E; try discriminate. repeat split. Qed.

Lemma rstep_tsm_counts s c : (forall e, In e (elems_of_call c) -> is_tsm e = true) ->
  (forall l x y, ci (p_mult (rstep_tsm d L s c) l x) y = ci (p_mult s l x) y) /\
  (forall l x y, ci (p_loc (rstep_tsm d L s c) l x) y = ci (p_loc s l x) y) /\
  (forall p y, ci (p_rhs (rstep_tsm d L s c) p) y
               = ci (p_rhs s p) y +n sumn (fun e => pcr_tsm e p y) (elems_of_call c)).
Proof.
  intros Ht. destruct (is_tsm_call c) eqn:E.
  - destruct c; try discriminate. cbn [rstep_tsm p2ptsm_step p_mult p_loc p_rhs elems_of_call]. repeat split.
    intros p y. rewrite vupd_all_ci, sumn_cons, sumn_nil. cbn [pcr_tsm]. lia.
  - rewrite (rstep_tsm_plain s c E).
    assert (Hno : forall e, In e (elems_of_call c) -> False).
    { intros e He. pose proof (Ht e He) as H1. pose proof (plain_call_elems c E e He) as H2. congruence. }
    repeat split.
    + intros l x y. rewrite rstep_mult, sumn_zero; [lia|]. intros e He. destruct (Hno e He).
    + intros l x y. rewrite rstep_loc, sumn_zero; [lia|]. intros e He. destruct (Hno e He).
    + intros p y. rewrite rstep_rhs. f_equal.
      rewrite sumn_zero by (intros e He; destruct (Hno e He)).
      rewrite sumn_zero by (intros e He; destruct (Hno e He)). reflexivity.
Qed.

(* a trace of one-sided direct records only *)
Lemma rrun_tsm_counts : forall tr, (forall e, In e (elementary tr) -> is_tsm e = true) -> forall s,
  (forall l x y, ci (p_mult (rrun_tsm tr s) l x) y = ci (p_mult s l x) y) /\
  (forall l x y, ci (p_loc (rrun_tsm tr s) l x) y = ci (p_loc s l x) y) /\
  (forall p y, ci (p_rhs (rrun_tsm tr s) p) y
               = ci (p_rhs s p) y +n sumn (fun e => pcr_tsm e p y) (elementary tr)).
Proof.
  induction tr as [|c tr IH]; intros Ht s.
  - cbn. repeat split; intros; lia.
  - change (elementary (c :: tr)) with (elems_of_call c ++ elementary tr) in *.
    change (rrun_tsm (c :: tr) s) with (rrun_tsm tr (rstep_tsm d L s c)).
    destruct (IH (fun e He => Ht e (in_or_app _ _ e (or_intror He))) (rstep_tsm d L s c)) as (IM & IL & IR).
    destruct (rstep_tsm_counts s c (fun e He => Ht e (in_or_app _ _ e (or_introl He)))) as (SM & SL & SR).
    repeat split.
    + intros l x y. rewrite IM. apply SM.
    + intros l x y. rewrite IL. apply SL.
    + intros p y. rewrite IR, SR, sumn_app. lia.
Qed.

Lemma rrun_tsm_top tr : forall s, p_top (rrun_tsm tr s) = p_top s /\ p_box (rrun_tsm tr s) = p_box s.
Proof.
  induction tr as [|c tr IH]; intros s; [split; reflexivity|].
  change (rrun_tsm (c :: tr) s) with (rrun_tsm tr (rstep_tsm d L s c)).
  destruct (IH (rstep_tsm d L s c)) as [H1 H2].
  assert (H3 : p_top (rstep_tsm d L s c) = p_top s /\ p_box (rstep_tsm d L s c) = p_box s).
  { destruct c; split; reflexivity. }
  destruct H3 as [H3 H4]. split; congruence.
Qed.

End RecordsTsm.

Lemma prun_tsm_app d k L a b w : prun_tsm d k L (a ++ b) w = prun_tsm d k L b (prun_tsm d k L a w).
Proof. unfold prun_tsm. apply fold_left_app. Qed.

Lemma prun_tsm_real d k L tr : forall w, prun_tsm d k L (map Real tr) w = rrun_tsm d L tr w.
Proof.
  induction tr as [|c tr IH]; intros w; [reflexivity|]. cbn [map].
  change (prun_tsm d k L (Real c :: map Real tr) w) with (prun_tsm d k L (map Real tr) (pstep_tsm d k L w (Real c))).
  change (rrun_tsm d L (c :: tr) w) with (rrun_tsm d L tr (rstep_tsm d L w c)).
  rewrite IH. reflexivity.
Qed.

Lemma prun_tsm_top d k L cs : forall w, prun_tsm d k L (map Top cs) w = prun d k L (map Top cs) w.
Proof. induction cs as [|c cs IH]; intros w; [reflexivity|]. cbn [map]. apply IH. Qed.

(* ------------------------------------------------------------------ *)
(* 4. geometry of the FULL periodic neighbour list + the self list     *)
(* ------------------------------------------------------------------ *)
Section PerTsmGeom.
Variable d : nat.
Hypothesis Hd : (0 < d)%nat.

(* how often the full neighbour list of leaf a delivers the copy s of leaf b *)
Definition fulln (L a b : Z) (s : list Z) : nat :=
  sumn (fun sc => b2n ((fst sc =? b) && veqb s (img_shift d L a (dec3 d (snd sc))))) (nlist_spec d true L false a).

Lemma fulln_eval L a b s : 0 <= L -> 0 <= a < 2 ^ (L * dz d) -> 0 <= b < 2 ^ (L * dz d) ->
  fulln L a b s = b2n (nimgb d L (unbox d a) (unbox d b) s).
Proof.
  intros HL Ha Hb. unfold fulln. rewrite nlist_spec_sbn.
  rewrite sumn_flat_map.
  destruct (unbox_range_F d Hd L a HL Ha) as [Hcl _].
  destruct (unbox_range_F d Hd L b HL Hb) as [Hbl HbF].
  assert (Eb : b = box d (unbox d b)) by (symmetry; apply box_unbox; [exact Hd|lia]).
  set (c := unbox d a) in *. set (c' := unbox d b) in *.
  set (os := vsub (uimg L c' s) c).
  rewrite (sumn_ext_in _ (fun o => if veqb o os
     then b2n (Nat.eqb (length s) d && negb (forallb (Z.eqb 0) o)) else 0%nat)).
  2:{ intros o Ho. apply cube_Forall in Ho. destruct Ho as [Hol Hor].
      unfold sbn. cbv zeta.
      destruct (forallb (Z.eqb 0) o); [destruct (veqb o os); rewrite ?andb_false_r; reflexivity|].
      cbn [negb andb].
      rewrite sumn_cons, sumn_nil. cbn [fst snd]. rewrite dec3_enc3 by assumption.
      rewrite img_shift_map. fold c. rewrite Eb. rewrite (key_img d Hd L c c' o s) by (try assumption; lia). fold os.
      destruct (veqb o os); destruct (Nat.eqb (length s) d); reflexivity. }
  rewrite (sumn_cube_pick d 1). unfold nimgb. fold os.
  destruct (cubeb d 1 os); destruct (Nat.eqb (length s) d); cbn [andb]; reflexivity.
Qed.

Lemma div_range_zero P c : Forall (fun z => 0 <= z < P) c -> map (fun z => z / P) c = repeat 0 (length c).
Proof.
  induction 1 as [|z c Hz _ IH]; [reflexivity|]. cbn [map length repeat]. rewrite IH. f_equal. apply Z.div_small. exact Hz.
Qed.

(* the self entry of the target/source near field is the central copy *)
Lemma img_shift_self L x : 0 <= L -> 0 <= x < 2 ^ (L * dz d) ->
  img_shift d L x (dec3 d (enc3 (repeat 0 d))) = repeat 0 d.
Proof.
  intros HL Hx. destruct (unbox_range_F d Hd L x HL Hx) as [Hlen HF].
  rewrite dec3_enc3; [|apply repeat_length|apply Forall_forall; intros z Hz; apply repeat_spec in Hz; lia].
  rewrite img_shift_map. replace (repeat 0 d) with (repeat 0 (length (unbox d x))) by (f_equal; exact Hlen).
  rewrite map2_add_zeros. apply (div_range_zero _ _ HF).
Qed.

(* the interaction lists of the levels 1..L of the ancestors of target leaf a, its FULL neighbour list and its self
   list deliver the copy s of source leaf b exactly once when s is in [-1,1]^d, and never otherwise *)
Theorem geom_once_tsm L a b s : 1 <= L -> 0 <= a < 2 ^ (L * dz d) -> 0 <= b < 2 ^ (L * dz d) ->
  sumn (fun l => farn d l (anc d L l a) (anc d L l b) s) (zrange 1 L) +n fulln L a b s
  +n b2n (b =? a) *n b2n (veqb s (repeat 0 d))
  = b2n (Nat.eqb (length s) d && inbox (-1) 1 s).
Proof.
  intros HL Ha Hb.
  pose proof (geom_once d Hd L a b s 0 1 HL Ha Hb ltac:(intros E; discriminate E)) as HG.
  rewrite (near_total d Hd L a b s) in HG by (try assumption; lia).
  rewrite fulln_eval by (try assumption; lia).
  change (1 =? 0) with false in HG. cbn [negb andb] in HG. rewrite andb_true_r in HG. exact HG.
Qed.

End PerTsmGeom.

(* ------------------------------------------------------------------ *)
(* 5. two well-formed trees, periodic lists                            *)
(* ------------------------------------------------------------------ *)
Section PerTsmCompose.
Variable d : nat.
Hypothesis Hd : (0 < d)%nat.
Variables (H Bs Bt : Z) (ms mt : bool) (src tgt : tree) (idxs idxt : list Z).
Hypothesis HH : 2 <= H.
Hypothesis Hsok : tree_ok (parent d) H Bs ms src.
Hypothesis Htok : tree_ok (parent d) H Bt mt tgt.
Hypothesis Hspart : particles_ok idxs src.
Hypothesis Htpart : particles_ok idxt tgt.
Hypothesis Hsrange : Forall (fun i => 0 <= i < 2 ^ ((H - 1) * dz d)) idxs.
Hypothesis Htrange : Forall (fun i => 0 <= i < 2 ^ ((H - 1) * dz d)) idxt.

Notation L := (H - 1).
Notation scells l := (level_cells (levels_of src l)).
Notation tcells l := (level_cells (levels_of tgt l)).
Notation vs := (ExactlyOnce.valid idxs).
Notation vt := (ExactlyOnce.valid idxt).
Notation los := (ExactlyOnce.lo idxs).
Notation lot := (ExactlyOnce.lo idxt).
Notation slvs := (all_leaves src).
Notation tlvs := (all_leaves tgt).
Notation zv := (repeat 0 d).
Notation rrun := (rrun d L).
Notation rrunT := (rrun_tsm d L).
Notation ch1s := (level1_children d src).
Notation ch1t := (level1_children d tgt).

Let HH1 : 1 <= H. Proof. lia. Qed.

(* instances of the per-tree facts *)
Lemma ps_cells_nodup l : 0 <= l < H -> NoDup (scells l).
Proof. intros Hl. exact (ExactlyOncePer.t_cells_nodup d Hd H Bs ms src Hsok l Hl). Qed.

Lemma pt_cells_nodup l : 0 <= l < H -> NoDup (tcells l).
Proof. intros Hl. exact (ExactlyOncePer.t_cells_nodup d Hd H Bt mt tgt Htok l Hl). Qed.

Lemma ps_cells_range l c : 0 <= l < H -> In c (scells l) -> 0 <= c < 2 ^ (l * dz d).
Proof. intros Hl Hc. exact (ExactlyOncePer.t_cells_range d Hd H Bs ms src idxs Hsok Hspart Hsrange l c Hl Hc). Qed.

Lemma pt_cells_range l c : 0 <= l < H -> In c (tcells l) -> 0 <= c < 2 ^ (l * dz d).
Proof. intros Hl Hc. exact (ExactlyOncePer.t_cells_range d Hd H Bt mt tgt idxt Htok Htpart Htrange l c Hl Hc). Qed.

Lemma ps_lo_leaf q : vs q = true -> In (los q) (scells L).
Proof. intros Hv. exact (ExactlyOncePer.t_lo_leaf d Hd H Bs ms src idxs Hsok Hspart q Hv). Qed.

Lemma pt_lo_leaf p : vt p = true -> In (lot p) (tcells L).
Proof. intros Hv. exact (ExactlyOncePer.t_lo_leaf d Hd H Bt mt tgt idxt Htok Htpart p Hv). Qed.

Lemma ps_lo_range q : vs q = true -> 0 <= los q < 2 ^ (L * dz d).
Proof. intros Hv. apply (ps_cells_range L); [lia|]. apply ps_lo_leaf. exact Hv. Qed.

Lemma pt_lo_range p : vt p = true -> 0 <= lot p < 2 ^ (L * dz d).
Proof. intros Hv. apply (pt_cells_range L); [lia|]. apply pt_lo_leaf. exact Hv. Qed.

Lemma ps_anc_in_cells l q : 0 <= l < H -> vs q = true -> In (anc d L l (los q)) (scells l).
Proof. intros Hl Hv. exact (ExactlyOncePer.t_anc_in_cells d Hd H Bs ms src idxs Hsok Hspart l q Hl Hv). Qed.

Lemma ps_cnt_parts_of c q : In c (scells L) -> cnt (parts_of slvs c) q = ExactlyOnce.pc idxs c q.
Proof. intros Hc. exact (ExactlyOncePer.t_cnt_parts_of d Hd H Bs ms src idxs HH Hsok Hspart c q Hc). Qed.

Lemma pt_cnt_parts_of c p : In c (tcells L) -> cnt (parts_of tlvs c) p = ExactlyOnce.pc idxt c p.
Proof. intros Hc. exact (ExactlyOncePer.t_cnt_parts_of d Hd H Bt mt tgt idxt HH Htok Htpart c p Hc). Qed.

Lemma ps_height : height src = H.
Proof. exact (height_H d H Bs ms src Hsok). Qed.

Lemma pt_height : height tgt = H.
Proof. exact (height_H d H Bt mt tgt Htok). Qed.

(* ------------------------------------------------------------------ *)
(* 6. the upward call: the SOURCE tree alone                           *)
(* ------------------------------------------------------------------ *)
Lemma up_tsm_eq : execute_tsm d true 1 (F_P2M + F_M2M) src tgt = execute d true 1 (F_P2M + F_M2M) src.
Proof. rewrite up_eq. unfold execute_tsm. cbn. rewrite ?app_nil_r. reflexivity. Qed.

Lemma up_plain e : In e (elementary (execute d true 1 (F_P2M + F_M2M) src)) -> is_tsm e = false.
Proof.
  rewrite up_eq, RefineM2L.elementary_app. intros He. apply in_app_or in He. destruct He as [He|He].
  - rewrite (el_P2M d Hd H Bs ms src HH1 Hsok 1) in He. destruct (1 <? H); [|destruct He].
    apply in_map_iff in He. destruct He as (ip & <- & _). reflexivity.
  - rewrite (el_M2M d Hd H Bs ms src Hsok 1 ltac:(lia)) in He. apply in_flat_map in He. destruct He as (l & _ & He).
    unfold spec_links in He. apply in_map_iff in He. destruct He as (c & <- & _). reflexivity.
Qed.

(* after the upward call every multipole of the source tree (levels 1..L) holds exactly the SOURCE particles below
   its cell, each once, at zero shift *)
Lemma up_state_tsm :
  let w1 := rrunT (execute_tsm d true 1 (F_P2M + F_M2M) src tgt) pst0 in
  MultInvP d H idxs 1 w1 /\
  (forall l x y, ci (p_loc w1 l x) y = 0%nat) /\
  (forall p y, ci (p_rhs w1 p) y = 0%nat) /\
  p_top w1 = tinit.
Proof.
  cbv zeta. rewrite up_tsm_eq, (rrun_tsm_plain d L _ up_plain).
  destruct (up_state d Hd H Bs ms src idxs HH Hsok Hspart pst0 ltac:(reflexivity)) as (I1 & L1 & R1). cbv zeta in I1, L1, R1.
  split; [exact I1|]. split; [|split].
  - intros l x y. rewrite L1. reflexivity.
  - intros p y. rewrite R1. reflexivity.
  - rewrite (proj1 (rrun_top d L _ pst0)). reflexivity.
Qed.

(* ------------------------------------------------------------------ *)
(* 7. the top tree: reads the SOURCE level-1 cells, writes the TARGET level-1 cells *)
(* ------------------------------------------------------------------ *)
Definition top_mid (k : Z) : list tcall :=
  map (fun l => TM2M l (zseq (Z.shiftl 1 (dz d)))) (rev (zrange 3 (k + 2))) ++ top_M2L d k
  ++ map (fun l => TL2L l [0]) (zrange 3 (k + 2)).

Lemma top_mid_nonbase k : 0 <= k -> Forall (fun c => is_base c = false) (top_mid k).
Proof.
  intros Hk. unfold top_mid. apply (proj2 (Forall_app _ _ _)); split.
  - apply Forall_forall. intros c Hc. apply in_map_iff in Hc. destruct Hc as (l & <- & _). reflexivity.
  - apply (proj2 (Forall_app _ _ _)); split.
    + rewrite top_M2L_eq by exact Hk. apply Forall_forall. intros c Hc. apply in_map_iff in Hc.
      destruct Hc as (l & <- & _). reflexivity.
    + apply Forall_forall. intros c Hc. apply in_map_iff in Hc. destruct Hc as (l & <- & _). reflexivity.
Qed.

Lemma top_exec_tsm_eq k : 0 <= k ->
  top_execute_tsm d k 63 src tgt = TM2M_base (k + 3) ch1s :: top_mid k ++ [TL2L_base (k + 3) ch1t].
Proof.
  intros Hk. unfold top_execute_tsm. rewrite ps_height.
  destruct ((k <? 0) || (H =? 0)) eqn:E; [lia|].
  change (has 63 F_M2M) with true. change (has 63 F_M2L) with true. change (has 63 F_L2L) with true.
  unfold top_M2M, top_L2L, top_mid. cbn [app]. rewrite <- !app_assoc. reflexivity.
Qed.

Lemma top_exec_src_eq k : 0 <= k ->
  top_execute d k 63 src = TM2M_base (k + 3) ch1s :: top_mid k ++ [TL2L_base (k + 3) ch1s].
Proof.
  intros Hk. rewrite top_execute_eq; [|exact Hk|rewrite ps_height; lia].
  unfold top_M2M, top_L2L, top_mid. cbn [app]. rewrite <- !app_assoc. reflexivity.
Qed.

(* the shifts delivered by the top tree do not depend on which level-1 cells are read or written *)
Lemma top_run_tsm k : 0 <= k -> top_run d k (top_execute_tsm d k 63 src tgt) = top_run d k (top_execute d k 63 src).
Proof.
  intros Hk. unfold top_run. rewrite (top_exec_tsm_eq k Hk), (top_exec_src_eq k Hk).
  cbn [fold_left]. rewrite !fold_left_app. reflexivity.
Qed.

(* what the final downward call of the top tree writes into every level-1 cell of the TARGET tree *)
Definition topv_tsm (k : Z) (w : pst) : list ival :=
  flat_map (fun sg => shiftv sg (flat_map (fun cc => p_mult w 1 (fst cc)) ch1s))
           (top_run d k (top_execute_tsm d k 63 src tgt)).

Lemma topv_tsm_eq k w : 0 <= k -> topv_tsm k w = topv d src k w.
Proof. intros Hk. unfold topv_tsm, topv. rewrite (top_run_tsm k Hk). reflexivity. Qed.

Lemma top_effect_tsm k w : 0 <= k -> p_top w = tinit ->
  let w2 := prun d k L (map Top (top_execute_tsm d k 63 src tgt)) w in
  p_mult w2 = p_mult w /\ p_rhs w2 = p_rhs w /\
  (forall l x y, ci (p_loc w2 l x) y
     = ci (p_loc w l x) y +n (if (l =? 1) && zmem x (tcells 1) then ci (topv_tsm k w) y else 0%nat)).
Proof.
  intros Hk Htop. cbv zeta.
  assert (Htr : tres (p_top (prun d k L (map Top (top_execute_tsm d k 63 src tgt)) w))
                = top_run d k (top_execute_tsm d k 63 src tgt)).
  { rewrite prun_top_state, Htop. reflexivity. }
  unfold topv_tsm. rewrite <- Htr. clear Htr.
  rewrite (top_exec_tsm_eq k Hk). pose proof (top_mid_nonbase k Hk) as Hmid. set (mid := top_mid k) in *.
  cbn [map]. rewrite map_app. cbn [map].
  change (prun d k L (Top (TM2M_base (k + 3) ch1s) :: map Top mid ++ [Top (TL2L_base (k + 3) ch1t)]) w)
    with (prun d k L (map Top mid ++ [Top (TL2L_base (k + 3) ch1t)]) (pstep d k L w (Top (TM2M_base (k + 3) ch1s)))).
  rewrite prun_app. set (wa := pstep d k L w (Top (TM2M_base (k + 3) ch1s))).
  destruct (prun_mid d H k mid Hmid wa) as (M1 & L1 & R1 & B1).
  set (wb := prun d k L (map Top mid) wa) in *.
  cbn [prun fold_left pstep p_mult p_loc p_rhs p_top tres].
  rewrite M1, L1, R1, B1. repeat split.
  intros l x y. cbn [wa pstep p_loc p_box].
  rewrite fold_vupd2_ci. f_equal.
  set (V := ci _ y). unfold level1_children. rewrite sumn_map. cbn [fst].
  change (flat_map cg_cells (levels_of tgt 1)) with (tcells 1).
  destruct (l =? 1); cbn [andb].
  - rewrite (sumn_ext_in _ (fun c => if c =? x then V else 0%nat)) by (intros c _; rewrite (Z.eqb_sym x c); reflexivity).
    rewrite sumn_pick by (apply pt_cells_nodup; lia). reflexivity.
  - apply sumn_zero. reflexivity.
Qed.

(* the state after the upward call and the top tree *)
Definition run_up_top_tsm (k : Z) : pst :=
  prun_tsm d k L (map Real (execute_tsm d true 1 (F_P2M + F_M2M) src tgt) ++ map Top (top_execute_tsm d k 63 src tgt)) pst0.

Lemma top_execute_tsm_neg k : k < 0 -> top_execute_tsm d k 63 src tgt = [].
Proof. intros Hk. unfold top_execute_tsm. replace (k <? 0) with true by lia. reflexivity. Qed.

Lemma up_top_state_tsm k : -1 <= k ->
  MultInvP d H idxs 1 (run_up_top_tsm k) /\
  (forall l x q s, ci (p_loc (run_up_top_tsm k) l x) (q, s)
     = if (l =? 1) && zmem x (tcells 1) then b2n (vs q && (0 <=? k) && farsb d k s) else 0%nat) /\
  (forall p y, ci (p_rhs (run_up_top_tsm k) p) y = 0%nat).
Proof.
  intros Hk. unfold run_up_top_tsm. rewrite prun_tsm_app, prun_tsm_real, prun_tsm_top.
  destruct up_state_tsm as (I1 & L1 & R1 & T1). cbv zeta in I1, L1, R1, T1.
  set (w1 := rrunT (execute_tsm d true 1 (F_P2M + F_M2M) src tgt) pst0) in *.
  destruct (Z_lt_le_dec k 0) as [Hneg|Hpos].
  - rewrite top_execute_tsm_neg by exact Hneg. cbn [map prun fold_left]. split; [exact I1|]. split.
    + intros l x q s. rewrite L1.
      replace (0 <=? k) with false by lia. rewrite andb_false_r. destruct ((l =? 1) && zmem x (tcells 1)); reflexivity.
    + exact R1.
  - destruct (top_effect_tsm k w1 Hpos T1) as (M2 & R2 & L2). cbv zeta in M2, R2, L2.
    set (w2 := prun d k L (map Top (top_execute_tsm d k 63 src tgt)) w1) in *.
    split; [|split].
    + destruct I1 as [Ia Ib]. split; intros; rewrite M2; [apply Ia|apply Ib]; assumption.
    + intros l x q s. rewrite L2, L1. cbn [Nat.add].
      rewrite (topv_tsm_eq k w1 Hpos), (topv_count d Hd H Bs ms src idxs HH Hsok Hspart k w1 Hpos I1).
      replace (0 <=? k) with true by lia. rewrite andb_true_r. reflexivity.
    + intros p y. rewrite R2. apply R1.
Qed.

(* ------------------------------------------------------------------ *)
(* 8. the transfer pass: locals of TARGET cells from multipoles of SOURCE cells, periodic lists *)
(* ------------------------------------------------------------------ *)
Notation pfarv := (ExactlyOncePer.farv d H idxs).
Notation sbelow := (ExactlyOnce.below d H idxs).

Lemma m2l_tsm_perm :
  Permutation (elementary (tsm_pass_M2L d true 1 src tgt)) (tsm_m2l_spec d H src tgt true 1).
Proof.
  exact (proj2 (tsm_pass_M2L_ok d Hd H Bs Bt ms mt src tgt idxt Hsok Htok Htpart Htrange true 1 ltac:(lia))).
Qed.

Lemma m2l_plain e : In e (elementary (tsm_pass_M2L d true 1 src tgt)) -> is_tsm e = false.
Proof.
  intros He. apply (Permutation_in _ m2l_tsm_perm) in He.
  destruct (tsm_m2l_spec_shape d H src tgt true 1 e He) as (l & x & b & code & ->). reflexivity.
Qed.

Lemma ilist_sum_tsm w l x q s : 1 <= l <= L -> In x (tcells l) -> MultInvP d H idxs 1 w ->
  sumn (fun sc => if zmem (fst sc) (scells l)
                  then ci (shiftv (img_shift d l x (dec7 d (snd sc))) (p_mult w l (fst sc))) (q, s) else 0%nat)
       (ilist_cell d true l x) = pfarv l x (q, s).
Proof.
  intros Hl Hx Hinv. pose proof (pt_cells_range l x ltac:(lia) Hx) as Hr.
  rewrite (sumn_perm _ _ _ (ilist_exact d true l x Hd ltac:(lia) Hr)).
  unfold ExactlyOncePer.farv, farn. cbn [fst snd].
  assert (Hsh : forall sc, ci (shiftv (img_shift d l x (dec7 d (snd sc))) (p_mult w l (fst sc))) (q, s)
                  = sbelow l (fst sc) q *n b2n (veqb s (img_shift d l x (dec7 d (snd sc))))).
  { intros sc. apply (shift_mult d Hd H idxs w 1); [exact Hinv|lia|].
    apply img_shift_length; try exact Hd. apply dec7_length. }
  destruct (vs q) eqn:Hv.
  - apply sumn_ext_in. intros sc _. rewrite Hsh. unfold ExactlyOnce.below. rewrite Hv. cbn [andb].
    destruct (Z.eqb_spec (anc d L l (los q)) (fst sc)) as [E|E].
    + rewrite <- E. rewrite (proj2 (zmem_In _ _) (ps_anc_in_cells l q ltac:(lia) Hv)). rewrite Z.eqb_refl.
      cbn [b2n andb]. lia.
    + rewrite (proj2 (Z.eqb_neq (fst sc) (anc d L l (los q)))) by congruence.
      cbn [b2n andb]. destruct (zmem (fst sc) (scells l)); reflexivity.
  - apply sumn_zero. intros sc _. rewrite Hsh. unfold ExactlyOnce.below. rewrite Hv. cbn [andb b2n].
    destruct (zmem (fst sc) (scells l)); reflexivity.
Qed.

Lemma m2l_level_sum_tsm w l' l x q s : 1 <= l' <= L -> MultInvP d H idxs 1 w ->
  sumn (fun e => pcl d w e l x (q, s)) (spec_m2l_tsm d true l' (scells l') (tcells l'))
  = if l' =? l then (if zmem x (tcells l') then pfarv l' x (q, s) else 0%nat) else 0%nat.
Proof.
  intros Hl' Hm. unfold spec_m2l_tsm. rewrite sumn_flat_map.
  rewrite (sumn_ext_in _ (fun t' => if t' =? x then
            (if l' =? l then sumn (fun sc => if zmem (fst sc) (scells l')
                 then ci (shiftv (img_shift d l' t' (dec7 d (snd sc))) (p_mult w l' (fst sc))) (q, s) else 0%nat)
                                  (ilist_cell d true l' t') else 0%nat)
            else 0%nat)).
  2:{ intros t' _. rewrite sumn_flat_map.
      destruct (Z.eqb_spec t' x) as [->|Hne]; [destruct (Z.eqb_spec l' l) as [->|Hne]|].
      - apply sumn_ext_in. intros sc _. rewrite sumn_if_list. cbn [pcl]. rewrite !Z.eqb_refl. reflexivity.
      - apply sumn_zero. intros sc _. rewrite sumn_if_list. cbn [pcl].
        destruct (Z.eqb_spec l l'); [congruence|]. destruct (zmem (fst sc) (scells l')); reflexivity.
      - apply sumn_zero. intros sc _. rewrite sumn_if_list. cbn [pcl].
        destruct (Z.eqb_spec x t'); [congruence|]. rewrite andb_false_r. destruct (zmem (fst sc) (scells l')); reflexivity. }
  rewrite sumn_pick by (apply pt_cells_nodup; lia).
  destruct (zmem x (tcells l')) eqn:Ex; [|destruct (l' =? l); reflexivity].
  destruct (l' =? l); [|reflexivity]. apply ilist_sum_tsm; [exact Hl'|apply zmem_In; exact Ex|exact Hm].
Qed.

Lemma m2l_sum_tsm w l x q s : MultInvP d H idxs 1 w ->
  sumn (fun e => pcl d w e l x (q, s)) (tsm_m2l_spec d H src tgt true 1)
  = if (1 <=? l) && (l <=? L) && zmem x (tcells l) then pfarv l x (q, s) else 0%nat.
Proof.
  intros Hinv. unfold tsm_m2l_spec. rewrite sumn_flat_map.
  rewrite (sumn_ext_in _ (fun l' => if l' =? l then (if zmem x (tcells l') then pfarv l' x (q, s) else 0%nat) else 0%nat)).
  2:{ intros l' Hl'. apply In_zrange in Hl'. apply m2l_level_sum_tsm; [lia|exact Hinv]. }
  rewrite sumn_pick by apply NoDup_zrange. rewrite zmem_zrange.
  destruct ((1 <=? l) && (l <=? L)); reflexivity.
Qed.

Lemma m2l_effect_tsm w : MultInvP d H idxs 1 w ->
  (forall l x y, ci (p_mult (rrunT (tsm_pass_M2L d true 1 src tgt) w) l x) y = ci (p_mult w l x) y) /\
  (forall l x q s, ci (p_loc (rrunT (tsm_pass_M2L d true 1 src tgt) w) l x) (q, s)
     = ci (p_loc w l x) (q, s) +n (if (1 <=? l) && (l <=? L) && zmem x (tcells l) then pfarv l x (q, s) else 0%nat)) /\
  (forall p y, ci (p_rhs (rrunT (tsm_pass_M2L d true 1 src tgt) w) p) y = ci (p_rhs w p) y).
Proof.
  intros Hinv. rewrite (rrun_tsm_plain d L _ m2l_plain). pose proof m2l_tsm_perm as Hperm.
  assert (Hok' : Forall (peok d L allrd nordM) (elementary (tsm_pass_M2L d true 1 src tgt))).
  { apply Forall_forall. intros e He. apply (Permutation_in _ Hperm) in He.
    destruct (tsm_m2l_spec_shape d H src tgt true 1 e He) as (l & x & b & code & ->). apply peok_M2L; [exact I|intros []]. }
  destruct (rrun_counts d L _ _ _ Hok' w) as (HM & HL & HR).
  repeat split.
  - intros l x y. rewrite HM, (sumn_perm _ _ _ Hperm), sumn_zero; [lia|].
    intros e He. destruct (tsm_m2l_spec_shape d H src tgt true 1 e He) as (l1 & x1 & b & code & ->). reflexivity.
  - intros l x q s. rewrite HL, (sumn_perm _ _ _ Hperm), (m2l_sum_tsm w l x q s Hinv). reflexivity.
  - intros p y. rewrite HR, (sumn_perm _ _ _ Hperm), sumn_zero; [lia|].
    intros e He. destruct (tsm_m2l_spec_shape d H src tgt true 1 e He) as (l1 & x1 & b & code & ->). reflexivity.
Qed.

(* ------------------------------------------------------------------ *)
(* 9. the one-sided near-field pass: every target leaf with the source leaves among its FULL periodic neighbour
      list and itself                                                    *)
(* ------------------------------------------------------------------ *)
Notation pcs := (ExactlyOnce.pc idxs).
Notation pct := (ExactlyOnce.pc idxt).

Lemma p2p_tsm_perm :
  Permutation (elementary (tsm_pass_P2P d true src tgt)) (spec_p2p_tsm d true L slvs tlvs).
Proof. exact (proj2 (tsm_pass_P2P_ok d Hd H Bs Bt ms mt src tgt HH1 Hsok Htok true)). Qed.

Lemma p2p_all_tsm e : In e (elementary (tsm_pass_P2P d true src tgt)) -> is_tsm e = true.
Proof.
  intros He. apply (Permutation_in _ p2p_tsm_perm) in He.
  destruct (tsm_p2p_spec_shape d H src tgt true e He) as (a & b & c & sp & tp & ->). reflexivity.
Qed.

Lemma pick_pct (F : Z -> nat) p : sumn (fun t' => pct t' p *n F t') (tcells L) = b2n (vt p) *n F (lot p).
Proof. exact (pick_pc d Hd H Bt mt tgt idxt HH Htok Htpart F p). Qed.

(* the members of the full periodic neighbour list of target leaf x that exist in the source tree *)
Lemma nlist_sum_tsm (g : Z -> bool) x q : In x (tcells L) ->
  sumn (fun sc => if zmem (fst sc) (scells L) then pcs (fst sc) q *n b2n (g (snd sc)) else 0%nat)
       (nlist_cell d true L false x)
  = b2n (vs q) *n sumn (fun sc => b2n ((fst sc =? los q) && g (snd sc))) (nlist_spec d true L false x).
Proof.
  intros Hx. pose proof (pt_cells_range L x ltac:(lia) Hx) as Hr.
  rewrite (sumn_perm _ _ _ (nlist_exact d true L false x Hd ltac:(lia) Hr)).
  rewrite <- sumn_mul_l. apply sumn_ext_in. intros sc _. unfold ExactlyOnce.pc.
  destruct (vs q) eqn:Hv; cbn [andb].
  - destruct (Z.eqb_spec (los q) (fst sc)) as [E|E].
    + rewrite <- E. rewrite (proj2 (zmem_In _ _) (ps_lo_leaf q Hv)), Z.eqb_refl. reflexivity.
    + rewrite (proj2 (Z.eqb_neq (fst sc) (los q))) by congruence. cbn [b2n andb].
      destruct (zmem (fst sc) (scells L)); reflexivity.
  - cbn [b2n]. destruct (zmem (fst sc) (scells L)); reflexivity.
Qed.

(* the source leaf with the index of target leaf x, if it exists *)
Lemma self_sum_tsm x q : (if zmem x (scells L) then pcs x q else 0%nat) = b2n (vs q && (los q =? x)).
Proof.
  unfold ExactlyOnce.pc. destruct (zmem x (scells L)) eqn:E; [reflexivity|]. apply zmem_false in E.
  destruct (vs q) eqn:Hv; [|reflexivity]. cbn [andb].
  destruct (Z.eqb_spec (los q) x) as [<-|]; [|reflexivity]. exfalso. apply E. apply ps_lo_leaf. exact Hv.
Qed.

(* what the near-field pass delivers to target particle p *)
Definition nearv_tsm (p : Z) (y : ival) : nat :=
  b2n (vt p && vs (fst y))
  *n (fulln d L (lot p) (los (fst y)) (snd y) +n b2n (los (fst y) =? lot p) *n zb d (snd y)).

Lemma leaf_sum_tsm x q s : In x (tcells L) ->
  sumn (fun sc => if zmem (fst sc) (scells L)
                  then pcs (fst sc) q *n b2n (veqb s (img_shift d L x (dec3 d (snd sc)))) else 0%nat)
       (nlist_cell d true L false x ++ [(x, enc3 zv)])
  = b2n (vs q) *n (fulln d L x (los q) s +n b2n (los q =? x) *n zb d s).
Proof.
  intros Hx. pose proof (pt_cells_range L x ltac:(lia) Hx) as Hr.
  rewrite sumn_app, sumn_cons, sumn_nil. cbn [fst snd].
  rewrite (nlist_sum_tsm (fun code => veqb s (img_shift d L x (dec3 d code))) x q Hx). fold (fulln d L x (los q) s).
  rewrite (img_shift_self d Hd L x ltac:(lia) Hr). fold (zb d s).
  rewrite if_mul_r, self_sum_tsm. destruct (vs q); destruct (los q =? x); cbn [andb b2n]; lia.
Qed.

Lemma p2p_sum_tsm p q s :
  sumn (fun e => pcr_tsm d L e p (q, s)) (spec_p2p_tsm d true L slvs tlvs) = nearv_tsm p (q, s).
Proof.
  unfold spec_p2p_tsm. cbv zeta.
  rewrite <- (leaf_cells d H Bs ms src Hsok), <- (leaf_cells d H Bt mt tgt Htok). rewrite sumn_flat_map.
  rewrite (sumn_ext_in _ (fun t' => pct t' p *n
      sumn (fun sc => if zmem (fst sc) (scells L)
                      then pcs (fst sc) q *n b2n (veqb s (img_shift d L t' (dec3 d (snd sc)))) else 0%nat)
           (nlist_cell d true L false t' ++ [(t', enc3 zv)]))).
  2:{ intros t' Ht'. rewrite sumn_flat_map, <- sumn_mul_l.
      apply sumn_ext_in. intros sc _. rewrite sumn_if_list.
      destruct (zmem (fst sc) (scells L)) eqn:Eb; [|lia]. apply zmem_In in Eb.
      cbn [pcr_tsm]. rewrite ci_tag, (pt_cnt_parts_of t' p Ht'), (ps_cnt_parts_of (fst sc) q Eb). reflexivity. }
  rewrite pick_pct. unfold nearv_tsm. cbn [fst snd].
  destruct (vt p) eqn:Hv; [|reflexivity]. cbn [andb b2n].
  rewrite (leaf_sum_tsm (lot p) q s (pt_lo_leaf p Hv)). lia.
Qed.

Lemma p2p_effect_tsm w :
  (forall l x y, ci (p_mult (rrunT (tsm_pass_P2P d true src tgt) w) l x) y = ci (p_mult w l x) y) /\
  (forall l x y, ci (p_loc (rrunT (tsm_pass_P2P d true src tgt) w) l x) y = ci (p_loc w l x) y) /\
  (forall p q s, ci (p_rhs (rrunT (tsm_pass_P2P d true src tgt) w) p) (q, s) = ci (p_rhs w p) (q, s) +n nearv_tsm p (q, s)).
Proof.
  destruct (rrun_tsm_counts d L _ p2p_all_tsm w) as (HM & HL & HR).
  split; [exact HM|]. split; [exact HL|].
  intros p q s. rewrite HR, (sumn_perm _ _ _ p2p_tsm_perm), p2p_sum_tsm. reflexivity.
Qed.

(* ------------------------------------------------------------------ *)
(* 10. the downward passes (TARGET tree) and the complete sequence     *)
(* ------------------------------------------------------------------ *)
Lemma mid_tsm_eq :
  execute_tsm d true 1 (F_M2L + F_P2P) src tgt = tsm_pass_M2L d true 1 src tgt ++ tsm_pass_P2P d true src tgt.
Proof. unfold execute_tsm. cbn. reflexivity. Qed.

Lemma down_tsm_eq : execute_tsm d true 1 (F_L2L + F_L2P) src tgt = pass_L2L d 1 tgt ++ pass_L2P 1 tgt.
Proof. unfold execute_tsm. cbn. rewrite ?app_nil_r. reflexivity. Qed.

Lemma l2l_plain e : In e (elementary (pass_L2L d 1 tgt)) -> is_tsm e = false.
Proof.
  intros He. rewrite (el_L2L d Hd H Bt mt tgt Htok 1 ltac:(lia)) in He. apply in_flat_map in He. destruct He as (l & _ & He).
  unfold spec_links in He. apply in_map_iff in He. destruct He as (c & <- & _). reflexivity.
Qed.

Lemma l2p_plain e : In e (elementary (pass_L2P 1 tgt)) -> is_tsm e = false.
Proof.
  intros He. rewrite (el_L2P d H Bt mt tgt Htok 1) in He. destruct (1 <? H); [|destruct He].
  apply in_map_iff in He. destruct He as (ip & <- & _). reflexivity.
Qed.

Lemma run_split_tsm k :
  prun_tsm d k L (periodic_run_tsm d k 1 src tgt) pst0
  = rrun (pass_L2P 1 tgt) (rrun (pass_L2L d 1 tgt) (rrunT (tsm_pass_P2P d true src tgt)
      (rrunT (tsm_pass_M2L d true 1 src tgt) (run_up_top_tsm k)))).
Proof.
  unfold periodic_run_tsm, run_up_top_tsm.
  rewrite !prun_tsm_app, !prun_tsm_real, mid_tsm_eq, down_tsm_eq, !rrun_tsm_app.
  rewrite (rrun_tsm_plain d L _ l2p_plain), (rrun_tsm_plain d L _ l2l_plain). reflexivity.
Qed.

Lemma final_state_tsm k : -1 <= k ->
  MultInvP d H idxs 1 (prun_tsm d k L (periodic_run_tsm d k 1 src tgt) pst0) /\
  (forall p q s, vt p = true ->
     ci (p_rhs (prun_tsm d k L (periodic_run_tsm d k 1 src tgt) pst0) p) (q, s)
     = nearv_tsm p (q, s) +n (topT d idxs k (q, s) +n Fsum_p d H idxs L (lot p) (q, s))) /\
  (forall p y, vt p = false -> ci (p_rhs (prun_tsm d k L (periodic_run_tsm d k 1 src tgt) pst0) p) y = 0%nat).
Proof.
  intros Hk. rewrite run_split_tsm.
  destruct (up_top_state_tsm k Hk) as (I2 & L2 & R2). set (w2 := run_up_top_tsm k) in *.
  destruct (m2l_effect_tsm w2 I2) as (M3 & L3 & R3). set (w3 := rrunT (tsm_pass_M2L d true 1 src tgt) w2) in *.
  destruct (p2p_effect_tsm w3) as (M4 & L4 & R4). set (w4 := rrunT (tsm_pass_P2P d true src tgt) w3) in *.
  assert (I4 : LocInvP d H tgt idxs (topT d idxs k) 1 w4).
  { split.
    - intros x [q' s'] Hx. rewrite L4, L3, L2, (Fsum_base_p d Hd). rewrite Z.eqb_refl, (proj2 (zmem_In x _) Hx).
      replace ((1 <=? 1) && (1 <=? L)) with true by lia. reflexivity.
    - intros l x [q' s'] Hl Hx. rewrite L4, L3, L2. rewrite (proj2 (zmem_In x _) Hx).
      replace ((1 <=? l) && (l <=? L)) with true by lia. replace (l =? 1) with false by lia. reflexivity. }
  rewrite (pass_L2L_eq d H Bt mt tgt Htok 1).
  destruct (l2l_pass_inv_p d Hd H Bt mt tgt idxs Htok (topT d idxs k) (Z.to_nat (L - 1)) 1 w4 ltac:(lia) ltac:(lia) I4)
    as (I5 & M5 & R5).
  set (w5 := rrun (flat_map (l2l_level d tgt) (zrange 1 (H - 2))) w4) in *.
  destruct (l2p_effect_p d Hd H Bt mt tgt idxt HH Htok Htpart w5) as (M6 & L6 & R6).
  split; [|split].
  - destruct I2 as [Ia Ib]. split.
    + intros l x q s Hl. rewrite M6, M5, M4, M3. apply Ia. exact Hl.
    + intros l x y Hl. rewrite M6, M5, M4, M3. apply Ib. exact Hl.
  - intros p q s Hp. rewrite R6, R5, R4, R3, R2, Hp. cbn [Nat.add].
    rewrite (proj1 I5 (lot p) (q, s) (pt_lo_leaf p Hp)). reflexivity.
  - intros p [q s] Hp. rewrite R6, R5, R4, R3, R2, Hp. unfold nearv_tsm. rewrite Hp. reflexivity.
Qed.

(* MAIN, inside the section: the count of (q, s) in target particle p *)
Lemma final_count_tsm k p q s : -1 <= k -> 0 <= p < zlen idxt ->
  ci (p_rhs (prun_tsm d k L (periodic_run_tsm d k 1 src tgt) pst0) p) (q, s)
  = expected_tsm d (zlen idxs) (fst (repetition_interval k)) (snd (repetition_interval k)) q s.
Proof.
  intros Hk Hp. assert (Hvp : vt p = true) by (unfold ExactlyOnce.valid; lia).
  rewrite (proj1 (proj2 (final_state_tsm k Hk)) p q s Hvp). unfold expected_tsm.
  change ((0 <=? q) && (q <? zlen idxs)) with (vs q).
  change (forallb (fun x => (fst (repetition_interval k) <=? x) && (x <=? snd (repetition_interval k))) s)
    with (inbox (fst (repetition_interval k)) (snd (repetition_interval k)) s).
  unfold nearv_tsm, topT, Fsum_p, ExactlyOncePer.farv. cbn [fst snd]. rewrite Hvp.
  destruct (vs q) eqn:Hvq; cbn [andb].
  2:{ rewrite sumn_zero by reflexivity. reflexivity. }
  pose proof (geom_once_tsm d Hd L (lot p) (los q) s ltac:(lia) (pt_lo_range p Hvp) (ps_lo_range q Hvq)) as HG.
  cbn [b2n] in *. unfold zb.
  set (S1 := sumn (fun l' => farn d l' (anc d L l' (lot p)) (anc d L l' (los q)) s) (zrange 1 L)) in *.
  set (N1 := fulln d L (lot p) (los q) s) in *.
  set (I1 := b2n (los q =? lot p) *n b2n (veqb s zv)) in *.
  replace (1 *n (N1 +n I1) +n (b2n ((0 <=? k) && farsb d k s) +n S1))
    with (S1 +n N1 +n I1 +n b2n ((0 <=? k) && farsb d k s)) by lia.
  rewrite HG. clear HG S1 N1 I1.
  destruct (Nat.eqb (length s) d) eqn:Hs; cbn [andb].
  2:{ unfold farsb. rewrite Hs. cbn [andb]. rewrite andb_false_r. reflexivity. }
  unfold farsb. rewrite Hs. cbn [andb].
  destruct (Z_lt_le_dec k 0) as [Hneg|Hpos].
  - assert (k = -1) as -> by lia. change (repetition_interval (-1)) with (-1, 1). cbn [fst snd].
    change (0 <=? -1) with false. cbn [andb b2n]. destruct (inbox (-1) 1 s); reflexivity.
  - replace (0 <=? k) with true by lia. cbn [andb].
    destruct (rep_interval_bounds d Hd H k Hpos) as [Blo Bhi].
    set (rlo := fst (repetition_interval k)) in *. set (rhi := snd (repetition_interval k)) in *.
    destruct (inbox (-1) 1 s) eqn:E1; cbn [andb negb].
    + rewrite (inbox_mono (-1) 1 rlo rhi s Blo Bhi E1). rewrite andb_false_r. reflexivity.
    + rewrite andb_true_r. destruct (inbox rlo rhi s); reflexivity.
Qed.

End PerTsmCompose.

(* ------------------------------------------------------------------ *)
(* 11. the top-level theorems                                          *)
(* ------------------------------------------------------------------ *)
(* (a) the top tree: after the upward call (source tree) and the top-tree calls, every level-1 local of the TARGET tree
   holds every SOURCE particle at every whole-box shift of the reported repetition cube minus [-1,1]^d, each exactly
   once, and nothing else *)
Theorem top_part_images_tsm : forall d H Bs Bt ms mt k src tgt idxs idxt, (0 < d)%nat -> 2 <= H -> 0 <= k ->
  tree_ok (parent d) H Bs ms src -> tree_ok (parent d) H Bt mt tgt -> particles_ok idxs src -> particles_ok idxt tgt ->
  Forall (fun i => 0 <= i < 2 ^ ((H - 1) * dz d)) idxs -> Forall (fun i => 0 <= i < 2 ^ ((H - 1) * dz d)) idxt ->
  let st := prun_tsm d k (H - 1) (map Real (execute_tsm d true 1 (F_P2M + F_M2M) src tgt)
                                  ++ map Top (top_execute_tsm d k 63 src tgt)) pst0 in
  let (lo, hi) := repetition_interval k in
  forall c1 q sigma, In c1 (level_cells (levels_of tgt 1)) ->
    count_occ ival_eq_dec (p_loc st 1 c1) (q, sigma)
    = if (0 <=? q) && (q <? zlen idxs) && Nat.eqb (length sigma) d && forallb (fun x => (lo <=? x) && (x <=? hi)) sigma
         && negb (forallb (fun x => (-1 <=? x) && (x <=? 1)) sigma) then 1%nat else 0%nat.
Proof.
  intros d H Bs Bt ms mt k src tgt idxs idxt Hd HH Hk Hsok Htok Hsp Htp Hsr Htr st.
  destruct (up_top_state_tsm d Hd H Bs Bt ms mt src tgt idxs HH Hsok Htok Hsp k ltac:(lia)) as (_ & HL & _).
  fold (run_up_top_tsm d H src tgt k) in st. unfold run_up_top_tsm in HL. fold st in HL.
  destruct (repetition_interval k) as [lo hi] eqn:Ek.
  intros c1 q sigma Hc. change (count_occ ival_eq_dec ?v ?y) with (ci v y). rewrite HL.
  rewrite Z.eqb_refl, (proj2 (zmem_In c1 _) Hc). cbn [andb].
  replace (0 <=? k) with true by lia. unfold farsb, inbox, ExactlyOnce.valid. rewrite Ek. cbn [fst snd].
  rewrite andb_true_r, !andb_assoc. reflexivity.
Qed.

(* (b) the multipole invariant: after the whole sequence every multipole of a level 1..H-1 of the SOURCE tree holds
   exactly the source particles below its cell, each once, at zero shift *)
Theorem per_tsm_multipoles : forall d H Bs Bt ms mt k src tgt idxs idxt, (0 < d)%nat -> 2 <= H -> -1 <= k ->
  tree_ok (parent d) H Bs ms src -> tree_ok (parent d) H Bt mt tgt -> particles_ok idxs src -> particles_ok idxt tgt ->
  Forall (fun i => 0 <= i < 2 ^ ((H - 1) * dz d)) idxs -> Forall (fun i => 0 <= i < 2 ^ ((H - 1) * dz d)) idxt ->
  let st := prun_tsm d k (H - 1) (periodic_run_tsm d k 1 src tgt) pst0 in
  forall l c q sigma, 1 <= l < H ->
    count_occ ival_eq_dec (p_mult st l c) (q, sigma)
    = if (0 <=? q) && (q <? zlen idxs) && (anc d (H - 1) l (znth idxs q (-1)) =? c) && list_eqb Z.eqb sigma (repeat 0 d)
      then 1%nat else 0%nat.
Proof.
  intros d H Bs Bt ms mt k src tgt idxs idxt Hd HH Hk Hsok Htok Hsp Htp Hsr Htr st l c q sigma Hl.
  destruct (final_state_tsm d Hd H Bs Bt ms mt src tgt idxs idxt HH Hsok Htok Hsp Htp Htr k Hk) as ([Hhi _] & _).
  fold st in Hhi.
  change (count_occ ival_eq_dec ?v ?y) with (ci v y). rewrite Hhi by lia.
  unfold ExactlyOnce.below, zb, ExactlyOnce.valid, ExactlyOnce.lo, veqb.
  destruct ((0 <=? q) && (q <? zlen idxs) && (anc d (H - 1) l (znth idxs q (-1)) =? c));
    destruct (list_eqb Z.eqb sigma (repeat 0 d)); reflexivity.
Qed.

(* MAIN, general form: the two trees may have different block sizes and grouping modes; moreover nothing is written
   under an id that is not a target id (the sources receive nothing) *)
Theorem periodic_tsm_exactly_once_gen : forall d H Bs Bt ms mt k src tgt idxs idxt, (0 < d)%nat -> 2 <= H -> -1 <= k ->
  tree_ok (parent d) H Bs ms src -> tree_ok (parent d) H Bt mt tgt -> particles_ok idxs src -> particles_ok idxt tgt ->
  Forall (fun i => 0 <= i < 2 ^ ((H - 1) * dz d)) idxs -> Forall (fun i => 0 <= i < 2 ^ ((H - 1) * dz d)) idxt ->
  let st := prun_tsm d k (H - 1) (periodic_run_tsm d k 1 src tgt) pst0 in
  let (lo, hi) := repetition_interval k in
  (forall p q sigma, 0 <= p < zlen idxt ->
     count_occ ival_eq_dec (p_rhs st p) (q, sigma)
     = if (0 <=? q) && (q <? zlen idxs) && (Nat.eqb (length sigma) d) && forallb (fun x => (lo <=? x) && (x <=? hi)) sigma
       then 1%nat else 0%nat) /\
  (forall p y, ~ (0 <= p < zlen idxt) -> count_occ ival_eq_dec (p_rhs st p) y = 0%nat).
Proof.
  intros d H Bs Bt ms mt k src tgt idxs idxt Hd HH Hk Hsok Htok Hsp Htp Hsr Htr st.
  pose proof (final_count_tsm d Hd H Bs Bt ms mt src tgt idxs idxt HH Hsok Htok Hsp Htp Hsr Htr k) as HF. fold st in HF.
  destruct (final_state_tsm d Hd H Bs Bt ms mt src tgt idxs idxt HH Hsok Htok Hsp Htp Htr k Hk) as (_ & _ & HZ).
  fold st in HZ.
  destruct (repetition_interval k) as [lo hi]. cbn [fst snd] in HF. split.
  - intros p q sigma Hp. apply (HF p q sigma Hk Hp).
  - intros p y Hp. apply HZ. unfold ExactlyOnce.valid. lia.
Qed.

(* MAIN *)
Theorem periodic_tsm_exactly_once : forall d H B mode k src tgt idxs idxt, (0 < d)%nat -> 2 <= H -> -1 <= k ->
  tree_ok (parent d) H B mode src -> tree_ok (parent d) H B mode tgt -> particles_ok idxs src -> particles_ok idxt tgt ->
  Forall (fun i => 0 <= i < 2 ^ ((H - 1) * dz d)) idxs -> Forall (fun i => 0 <= i < 2 ^ ((H - 1) * dz d)) idxt ->
  idxs <> [] -> idxt <> [] ->
  let st := prun_tsm d k (H - 1) (periodic_run_tsm d k 1 src tgt) pst0 in
  let (lo, hi) := repetition_interval k in
  forall p q sigma, 0 <= p < zlen idxt ->
    count_occ ival_eq_dec (p_rhs st p) (q, sigma)
    = if (0 <=? q) && (q <? zlen idxs) && (Nat.eqb (length sigma) d) && forallb (fun x => (lo <=? x) && (x <=? hi)) sigma
      then 1%nat else 0%nat.
Proof.
  intros d H B mode k src tgt idxs idxt Hd HH Hk Hsok Htok Hsp Htp Hsr Htr _ _ st.
  pose proof (periodic_tsm_exactly_once_gen d H B B mode mode k src tgt idxs idxt Hd HH Hk Hsok Htok Hsp Htp Hsr Htr) as HG.
  cbv zeta in HG. fold st in HG. destruct (repetition_interval k) as [lo hi]. exact (proj1 HG).
Qed.

(* the sources receive nothing: no value is stored under an id that is not a target id *)
Theorem periodic_tsm_only_targets : forall d H B mode k src tgt idxs idxt, (0 < d)%nat -> 2 <= H -> -1 <= k ->
  tree_ok (parent d) H B mode src -> tree_ok (parent d) H B mode tgt -> particles_ok idxs src -> particles_ok idxt tgt ->
  Forall (fun i => 0 <= i < 2 ^ ((H - 1) * dz d)) idxs -> Forall (fun i => 0 <= i < 2 ^ ((H - 1) * dz d)) idxt ->
  idxs <> [] -> idxt <> [] ->
  let st := prun_tsm d k (H - 1) (periodic_run_tsm d k 1 src tgt) pst0 in
  forall p y, ~ (0 <= p < zlen idxt) -> count_occ ival_eq_dec (p_rhs st p) y = 0%nat.
Proof.
  intros d H B mode k src tgt idxs idxt Hd HH Hk Hsok Htok Hsp Htp Hsr Htr _ _ st.
  pose proof (periodic_tsm_exactly_once_gen d H B B mode mode k src tgt idxs idxt Hd HH Hk Hsok Htok Hsp Htp Hsr Htr) as HG.
  cbv zeta in HG. fold st in HG. destruct (repetition_interval k) as [lo hi]. exact (proj2 HG).
Qed.

(* (c) the in-box part alone: without extra levels (k = -1, the top tree makes no call) the wrapped lists of the
   target/source executor deliver every image of the 3^d adjacent copies of every source exactly once *)
Theorem inbox_images_once_tsm : forall d H B mode src tgt idxs idxt, (0 < d)%nat -> 2 <= H ->
  tree_ok (parent d) H B mode src -> tree_ok (parent d) H B mode tgt -> particles_ok idxs src -> particles_ok idxt tgt ->
  Forall (fun i => 0 <= i < 2 ^ ((H - 1) * dz d)) idxs -> Forall (fun i => 0 <= i < 2 ^ ((H - 1) * dz d)) idxt ->
  idxs <> [] -> idxt <> [] ->
  let st := prun_tsm d (-1) (H - 1) (periodic_run_tsm d (-1) 1 src tgt) pst0 in
  forall p q sigma, 0 <= p < zlen idxt ->
    count_occ ival_eq_dec (p_rhs st p) (q, sigma)
    = if (0 <=? q) && (q <? zlen idxs) && (Nat.eqb (length sigma) d) && forallb (fun x => (-1 <=? x) && (x <=? 1)) sigma
      then 1%nat else 0%nat.
Proof.
  intros d H B mode src tgt idxs idxt Hd HH Hsok Htok Hsp Htp Hsr Htr Hsne Htne.
  exact (periodic_tsm_exactly_once d H B mode (-1) src tgt idxs idxt Hd HH ltac:(lia) Hsok Htok Hsp Htp Hsr Htr Hsne Htne).
Qed.

(* corollary for the trees built by the model of the constructor *)
Theorem periodic_tsm_exactly_once_build : forall d H B mode k idxs idxt, (0 < d)%nat -> 2 <= H -> 1 <= B -> -1 <= k ->
  idxs <> [] -> idxt <> [] ->
  Forall (fun i => 0 <= i < 2 ^ ((H - 1) * dz d)) idxs -> Forall (fun i => 0 <= i < 2 ^ ((H - 1) * dz d)) idxt ->
  let src := build (parent d) H B mode idxs in
  let tgt := build (parent d) H B mode idxt in
  let st := prun_tsm d k (H - 1) (periodic_run_tsm d k 1 src tgt) pst0 in
  let (lo, hi) := repetition_interval k in
  forall p q sigma, 0 <= p < zlen idxt ->
    count_occ ival_eq_dec (p_rhs st p) (q, sigma) = expected_tsm d (zlen idxs) lo hi q sigma.
Proof.
  intros d H B mode k idxs idxt Hd HH HB Hk Hsne Htne Hsr Htr src tgt.
  destruct (build_tree_ok d H B mode idxs ltac:(lia) HB Hsne Hsr) as (Hsok & Hsp).
  destruct (build_tree_ok d H B mode idxt ltac:(lia) HB Htne Htr) as (Htok & Htp).
  exact (periodic_tsm_exactly_once d H B mode k src tgt idxs idxt Hd HH Hk Hsok Htok Hsp Htp Hsr Htr Hsne Htne).
Qed.

Print Assumptions rrun_tsm_counts.
Print Assumptions geom_once_tsm.
Print Assumptions top_part_images_tsm.
Print Assumptions per_tsm_multipoles.
Print Assumptions inbox_images_once_tsm.
Print Assumptions periodic_tsm_exactly_once_gen.
Print Assumptions periodic_tsm_exactly_once.
Print Assumptions periodic_tsm_only_targets.
Print Assumptions periodic_tsm_exactly_once_build.
