(* The free additive kernel: every value is the multiset (here: list, read up to
   permutation / through count_occ) of the particle ids whose weight it contains.
   [run] replays a trace of kernel calls on a state; any exactly additive kernel
   (e.g. the uint64 TraceKernel of the harness) is a homomorphic image of it. *)
From Tbfmm Require Import Base.Prelude Exec.ExecDefs.
Local Open Scope Z_scope.

Record st := { s_mult : Z -> Z -> list Z;    (* level -> cell index -> value *)
               s_loc  : Z -> Z -> list Z;
               s_rhs  : Z -> list Z }.       (* particle id -> value *)

Definition st0 : st := {| s_mult := fun _ _ => []; s_loc := fun _ _ => []; s_rhs := fun _ => [] |}.

Definition upd2 (f : Z -> Z -> list Z) (l i : Z) (v : list Z) : Z -> Z -> list Z :=
  fun l' i' => if (l' =? l) && (i' =? i) then f l' i' ++ v else f l' i'.
Definition upd1 (f : Z -> list Z) (p : Z) (v : list Z) : Z -> list Z :=
  fun p' => if p' =? p then f p' ++ v else f p'.
(* add v to every particle of [ps] *)
Definition upd_all (f : Z -> list Z) (ps : list Z) (v : Z -> list Z) : Z -> list Z :=
  fold_left (fun g p => upd1 g p (v p)) ps f.

Definition rm (p : Z) (l : list Z) : list Z := filter (fun q => negb (q =? p)) l.

(* L = leaf level *)
Definition step (L : Z) (s : st) (c : call) : st :=
  match c with
  | CP2M leaf parts => {| s_mult := upd2 (s_mult s) L leaf parts; s_loc := s_loc s; s_rhs := s_rhs s |}
  | CM2M l p ch =>
      {| s_mult := upd2 (s_mult s) l p (flat_map (fun cc => s_mult s (l + 1) (fst cc)) ch); s_loc := s_loc s; s_rhs := s_rhs s |}
  | CM2L l t sr =>
      {| s_mult := s_mult s; s_loc := upd2 (s_loc s) l t (flat_map (fun sc => s_mult s l (fst sc)) sr); s_rhs := s_rhs s |}
  | CL2L l p ch =>
      {| s_mult := s_mult s;
         s_loc := fold_left (fun f cc => upd2 f (l + 1) (fst cc) (s_loc s l p)) ch (s_loc s);
         s_rhs := s_rhs s |}
  | CL2P leaf parts =>
      {| s_mult := s_mult s; s_loc := s_loc s; s_rhs := upd_all (s_rhs s) parts (fun _ => s_loc s L leaf) |}
  | CP2P _ _ _ sp tp =>
      {| s_mult := s_mult s; s_loc := s_loc s;
         s_rhs := upd_all (upd_all (s_rhs s) tp (fun _ => sp)) sp (fun _ => tp) |}
  | CP2PTsm _ _ _ sp tp =>
      {| s_mult := s_mult s; s_loc := s_loc s; s_rhs := upd_all (s_rhs s) tp (fun _ => sp) |}
  | CP2PInner _ parts =>
      {| s_mult := s_mult s; s_loc := s_loc s; s_rhs := upd_all (s_rhs s) parts (fun p => rm p parts) |}
  | CAssert _ => s
  end.

Definition run (L : Z) (tr : list call) (s : st) : st := fold_left (step L) tr s.

(* how many times particle q's weight has reached particle p *)
Definition reached (s : st) (p q : Z) : nat := count_occ Z.eq_dec (s_rhs s p) q.
