(* Image semantics of the periodic top tree: the call sequence [top_execute d k 63 t] delivers to the simulation box,
   exactly once, the image of the box at every shift of the reported repetition cube minus the adjacent cube [-1,1]^d. *)
From Tbfmm Require Import Base.Prelude Base.Search Index.MortonDefs Tree.GroupDefs Index.ListsDefs Tree.BuildDefs
  Index.ListsSpec Exec.ExecDefs Exec.ExecTsmDefs Exec.ExecPeriodicDefs
  Index.MortonProofs Index.MortonBits Index.ListsProofs.
From Coq Require Import ZifyBool Zify Permutation.
Local Open Scope Z_scope.
Ltac Zify.zify_post_hook ::= Z.div_mod_to_equations.

(* a value is the multiset (list) of box shifts (vectors of Z, in units of one box width) at which a copy of the
   box's multipole has been accumulated *)
Definition shifts := list (list Z).
Definition shift_by (v : list Z) (s : shifts) : shifts := map (map2 Z.add v) s.
(* child number c (bits, dimension 0 = most significant bit, as [unbox d c]) of a virtual cell of level j sits at
   offset bits(c) * 2^(k+2-j) boxes *)
Definition child_offset (d : nat) (k j c : Z) : list Z := map (fun b => b * 2 ^ (k + 2 - j)) (unbox d c).

Record tstate := { tM : Z -> shifts; tL : Z -> shifts; tres : shifts }.
Definition upd (f : Z -> shifts) (j : Z) (v : shifts) : Z -> shifts := fun i => if i =? j then v else f i.

Definition tstep (d : nat) (k : Z) (st : tstate) (c : tcall) : tstate :=
  match c with
  | TM2M_base l _ => {| tM := upd (tM st) l [repeat 0 d]; tL := tL st; tres := tres st |}
  | TM2M j codes =>
      {| tM := upd (tM st) j (tM st j ++ flat_map (fun c => shift_by (child_offset d k j c) (tM st (j + 1))) codes);
         tL := tL st; tres := tres st |}
  | TM2L j codes =>
      {| tM := tM st;
         tL := upd (tL st) j
                 (tL st j ++ flat_map (fun code => shift_by (map (fun o => o * 2 ^ (k + 3 - j)) (dec7 d code)) (tM st j)) codes);
         tres := tres st |}
  | TL2L j codes =>
      {| tM := tM st;
         tL := upd (tL st) (j + 1)
                 (tL st (j + 1) ++ flat_map (fun c => shift_by (map Z.opp (child_offset d k j c)) (tL st j)) codes);
         tres := tres st |}
  | TL2L_base l _ => {| tM := tM st; tL := tL st; tres := tL st l |}
  end.

Definition tinit : tstate := {| tM := fun _ => []; tL := fun _ => []; tres := [] |}.

Definition top_run (d : nat) (k : Z) (calls : list tcall) : shifts := tres (fold_left (tstep d k) calls tinit).

Definition cube_shifts (d : nat) (lo hi : Z) : shifts := odometer (repeat (lo, hi) d).

Definition far_shifts (d : nat) (lo hi : Z) : shifts :=
  filter (fun s => negb (forallb (fun x => Z.abs x <=? 1) s)) (cube_shifts d lo hi).

(* ------------------------------------------------------------------ *)
(* validation by computation                                           *)
(* ------------------------------------------------------------------ *)
Definition veqb (a b : list Z) : bool := list_eqb Z.eqb a b.
Definition vcount (x : list Z) (l : shifts) : nat := length (filter (veqb x) l).
Definition mseqb (l1 l2 : shifts) : bool :=
  (length l1 =? length l2)%nat && forallb (fun x => (vcount x l1 =? vcount x l2)%nat) l1.

Definition test_tree : tree := {| t_levels := [[]; []]; t_pgroups := [] |}.

Definition toptree_check (d : nat) (k : Z) : bool :=
  let (lo, hi) := repetition_interval k in
  mseqb (top_run d k (top_execute d k 63 test_tree)) (far_shifts d lo hi).

Example check_1_0 : toptree_check 1 0 = true. Proof. vm_compute. reflexivity. Qed.
Example check_1_1 : toptree_check 1 1 = true. Proof. vm_compute. reflexivity. Qed.
Example check_1_2 : toptree_check 1 2 = true. Proof. vm_compute. reflexivity. Qed.
Example check_1_3 : toptree_check 1 3 = true. Proof. vm_compute. reflexivity. Qed.
Example check_1_4 : toptree_check 1 4 = true. Proof. vm_compute. reflexivity. Qed.
Example check_2_0 : toptree_check 2 0 = true. Proof. vm_compute. reflexivity. Qed.
Example check_2_1 : toptree_check 2 1 = true. Proof. vm_compute. reflexivity. Qed.
Example check_2_2 : toptree_check 2 2 = true. Proof. vm_compute. reflexivity. Qed.
Example check_2_3 : toptree_check 2 3 = true. Proof. vm_compute. reflexivity. Qed.
Example check_3_0 : toptree_check 3 0 = true. Proof. vm_compute. reflexivity. Qed.
Example check_3_1 : toptree_check 3 1 = true. Proof. vm_compute. reflexivity. Qed.

(* ------------------------------------------------------------------ *)
(* the reported interval                                               *)
(* ------------------------------------------------------------------ *)
Lemma repetition_interval_pos k : 1 <= k -> repetition_interval k = (- 3 * 2 ^ k, 3 * 2 ^ k - 1).
Proof.
  intros Hk. unfold repetition_interval, nb_repetitions.
  destruct (k =? -1) eqn:E1; [lia|]. destruct (k =? 0) eqn:E0; [lia|].
  rewrite Z.shiftl_mul_pow2 by lia. rewrite Z.mul_1_l.
  replace (6 * 2 ^ k) with (3 * 2 ^ k * 2) by ring.
  rewrite Z.quot_mul by lia. f_equal. ring.
Qed.

Theorem interval_matches : forall k, 0 <= k ->
  let (lo, hi) := repetition_interval k in
  hi - lo + 1 = nb_repetitions k /\ (k = 0 -> lo = -3 /\ hi = 3) /\ (1 <= k -> lo = - 3 * 2 ^ k /\ hi = 3 * 2 ^ k - 1).
Proof.
  intros k Hk. destruct (Z.eq_dec k 0) as [->|Hne].
  - cbn. repeat split; lia.
  - rewrite repetition_interval_pos by lia. unfold nb_repetitions.
    destruct (k =? -1) eqn:E1; [lia|]. destruct (k =? 0) eqn:E0; [lia|].
    rewrite Z.shiftl_mul_pow2 by lia. repeat split; lia.
Qed.

(* ------------------------------------------------------------------ *)
(* boxes of vectors                                                    *)
(* ------------------------------------------------------------------ *)
Definition inbox (lo hi : Z) (v : list Z) : bool := forallb (fun x => (lo <=? x) && (x <=? hi)) v.

Lemma inbox_spec lo hi v : inbox lo hi v = true <-> Forall (fun x => lo <= x <= hi) v.
Proof.
  unfold inbox. rewrite forallb_forall, Forall_forall. split; intros H x Hx; specialize (H x Hx); lia.
Qed.

Lemma In_cs d lo hi v : In v (cube_shifts d lo hi) <-> length v = d /\ inbox lo hi v = true.
Proof.
  rewrite inbox_spec. split.
  - apply cube_Forall.
  - intros [Hlen HF]. apply In_cube. split; [exact Hlen|]. rewrite Forall_nthZ in HF. rewrite <- Hlen. exact HF.
Qed.

Lemma NoDup_cs d lo hi : NoDup (cube_shifts d lo hi).
Proof. apply NoDup_odometer. Qed.

Lemma inbox_mono lo hi lo' hi' v : lo' <= lo -> hi <= hi' -> inbox lo hi v = true -> inbox lo' hi' v = true.
Proof.
  intros H1 H2. rewrite !inbox_spec. apply Forall_impl. intros x Hx. lia.
Qed.

Lemma too_close_inbox v : too_close v = inbox (-1) 1 v.
Proof.
  unfold too_close, inbox. induction v as [|x v IH]; cbn [forallb]; [reflexivity|]. rewrite IH. f_equal. lia.
Qed.

(* nested boxes: what lies outside the small box is what lies outside the middle box plus the part of the middle box
   outside the small box *)
Lemma nested_split d lo hi a' b' a b :
  lo <= a' -> a' <= a -> b <= b' -> b' <= hi ->
  Permutation (filter (fun v => negb (inbox a b v)) (cube_shifts d lo hi))
              (filter (fun v => negb (inbox a' b' v)) (cube_shifts d lo hi)
               ++ filter (fun v => negb (inbox a b v)) (cube_shifts d a' b')).
Proof.
  intros H1 H2 H3 H4. apply NoDup_Permutation.
  - apply NoDup_filter, NoDup_cs.
  - apply NoDup_app_intro; try (apply NoDup_filter, NoDup_cs).
    intros x Hx1 Hx2. apply filter_In in Hx1, Hx2. destruct Hx1 as [_ Hx1]. destruct Hx2 as [Hx2 _].
    apply In_cs in Hx2. destruct Hx2 as [_ Hx2]. rewrite Hx2 in Hx1. discriminate.
  - intros v. rewrite in_app_iff, !filter_In, !In_cs. split.
    + intros [[Hlen Hin] Hout]. destruct (inbox a' b' v) eqn:E.
      * right. auto.
      * left. auto.
    + intros [[[Hlen Hin] Hout]|[[Hlen Hin] Hout]].
      * split; [auto|]. destruct (inbox a b v) eqn:E; [|reflexivity].
        apply (inbox_mono a b a' b') in E; [|lia|lia]. rewrite E in Hout. discriminate.
      * split; [|exact Hout]. split; [exact Hlen|]. apply (inbox_mono a' b' lo hi); [lia|lia|exact Hin].
Qed.

(* ------------------------------------------------------------------ *)
(* tiling: offset * size + remainder                                   *)
(* ------------------------------------------------------------------ *)
Definition comb (s : Z) (o r : list Z) : list Z := map2 Z.add (map (fun x => x * s) o) r.

Lemma div_bounds s a b x : 0 < s -> (a <= x / s <= b <-> a * s <= x <= (b + 1) * s - 1).
Proof.
  intros Hs. pose proof (Z.mul_div_le x s Hs) as H1. pose proof (Z.mul_succ_div_gt x s Hs) as H2.
  split; intros [Ha Hb]; split; nia.
Qed.

Lemma comb_length s o r : length o = length r -> length (comb s o r) = length o.
Proof.
  unfold comb. revert r. induction o as [|x o IH]; intros [|y r] H; cbn [map map2 length] in *; try lia.
  rewrite IH by lia. reflexivity.
Qed.

Lemma comb_div s o r : 0 < s -> length o = length r -> Forall (fun x => 0 <= x <= s - 1) r ->
  map (fun x => x / s) (comb s o r) = o.
Proof.
  intros Hs. unfold comb. revert r. induction o as [|x o IH]; intros [|y r] Hlen HF; cbn [map map2 length] in *; try lia.
  - reflexivity.
  - inversion HF as [|? ? Hy HF']; subst. rewrite IH by (try lia; exact HF'). f_equal.
    rewrite Z.add_comm, Z.div_add by lia. rewrite Z.div_small by lia. lia.
Qed.

Lemma comb_mod s o r : 0 < s -> length o = length r -> Forall (fun x => 0 <= x <= s - 1) r ->
  map (fun x => x mod s) (comb s o r) = r.
Proof.
  intros Hs. unfold comb. revert r. induction o as [|x o IH]; intros [|y r] Hlen HF; cbn [map map2 length] in *; try lia.
  - reflexivity.
  - inversion HF as [|? ? Hy HF']; subst. rewrite IH by (try lia; exact HF'). f_equal.
    rewrite Z.add_comm, Z.mod_add by lia. apply Z.mod_small. lia.
Qed.

Lemma comb_divmod s v : 0 < s -> comb s (map (fun x => x / s) v) (map (fun x => x mod s) v) = v.
Proof.
  intros Hs. unfold comb. induction v as [|x v IH]; cbn [map map2]; [reflexivity|]. rewrite IH. f_equal.
  pose proof (Z.div_mod x s). lia.
Qed.

Lemma inbox_div s a b v : 0 < s -> inbox a b (map (fun x => x / s) v) = inbox (a * s) ((b + 1) * s - 1) v.
Proof.
  intros Hs. apply eq_true_iff_eq. rewrite !inbox_spec, Forall_map. split; apply Forall_impl; intros x Hx.
  - apply div_bounds; assumption.
  - apply div_bounds in Hx; assumption.
Qed.

Lemma inbox_mod s v : 0 < s -> inbox 0 (s - 1) (map (fun x => x mod s) v) = true.
Proof.
  intros Hs. rewrite inbox_spec, Forall_map. apply Forall_forall. intros x _.
  pose proof (Z.mod_pos_bound x s Hs). lia.
Qed.

Lemma NoDup_map_in {A B} (f : A -> B) l :
  NoDup l -> (forall x y, In x l -> In y l -> f x = f y -> x = y) -> NoDup (map f l).
Proof.
  induction l as [|a l IH]; intros HN Hinj; cbn [map]; [constructor|].
  inversion HN as [|? ? Hna HN']; subst. constructor.
  - intros Hi. apply in_map_iff in Hi. destruct Hi as (x & Hx & Hxl).
    apply Hna. rewrite <- (Hinj x a); [exact Hxl|right; exact Hxl|left; reflexivity|exact Hx].
  - apply IH; [exact HN'|]. intros x y Hx Hy. apply Hinj; right; assumption.
Qed.

Section Tile.
Variable d : nat.
Variable s : Z.
Hypothesis Hs : 0 < s.
Variable M : shifts.
Hypothesis HMnd : NoDup M.
Hypothesis HMin : forall r, In r M <-> In r (cube_shifts d 0 (s - 1)).
Variable P : list Z -> bool.
Variables a b : Z.

Let F (o : list Z) : shifts := if P o then shift_by (map (fun x => x * s) o) M else [].

Lemma M_elem r : In r M -> length r = d /\ Forall (fun x => 0 <= x <= s - 1) r.
Proof. intros H. apply HMin, In_cs in H. rewrite inbox_spec in H. exact H. Qed.

Lemma F_elem o y : length o = d -> In y (F o) -> exists r, In r M /\ y = comb s o r /\ P o = true.
Proof.
  intros Hlen. unfold F. destruct (P o); [|intros []]. unfold shift_by. rewrite in_map_iff.
  intros (r & <- & Hr). exists r. auto.
Qed.

Lemma tile_gen :
  Permutation (flat_map F (cube_shifts d a b))
              (filter (fun v => P (map (fun x => x / s) v)) (cube_shifts d (a * s) ((b + 1) * s - 1))).
Proof.
  apply NoDup_Permutation.
  - apply NoDup_flat_map_g with (g := map (fun x => x / s)).
    + apply NoDup_cs.
    + intros o Ho. apply In_cs in Ho. destruct Ho as [Hlo _]. unfold F. destruct (P o); [|constructor].
      unfold shift_by. apply NoDup_map_in; [exact HMnd|].
      intros x y Hx Hy E. apply M_elem in Hx, Hy. destruct Hx as [Lx Fx]. destruct Hy as [Ly Fy].
      rewrite <- (comb_mod s o x Hs), <- (comb_mod s o y Hs); try assumption; try lia.
      unfold comb. rewrite E. reflexivity.
    + intros o y Ho Hy. apply In_cs in Ho. destruct Ho as [Hlo _].
      apply F_elem in Hy; [|exact Hlo]. destruct Hy as (r & Hr & -> & _). apply M_elem in Hr. destruct Hr as [Lr Fr].
      apply comb_div; [exact Hs|lia|exact Fr].
  - apply NoDup_filter, NoDup_cs.
  - intros v. rewrite in_flat_map, filter_In, In_cs. split.
    + intros (o & Ho & Hv). apply In_cs in Ho. destruct Ho as [Hlo Hbo].
      apply F_elem in Hv; [|exact Hlo]. destruct Hv as (r & Hr & -> & HP). apply M_elem in Hr. destruct Hr as [Lr Fr].
      assert (E : map (fun x => x / s) (comb s o r) = o) by (apply comb_div; [exact Hs|lia|exact Fr]).
      split; [split|].
      * rewrite comb_length by lia. exact Hlo.
      * rewrite <- inbox_div by exact Hs. rewrite E. exact Hbo.
      * rewrite E. exact HP.
    + intros [[Hlen Hbv] HP]. exists (map (fun x => x / s) v). split.
      * apply In_cs. split; [rewrite map_length; exact Hlen|]. rewrite inbox_div by exact Hs. exact Hbv.
      * unfold F. rewrite HP. unfold shift_by. apply in_map_iff. exists (map (fun x => x mod s) v). split.
        -- apply (comb_divmod s v Hs).
        -- apply HMin, In_cs. split; [rewrite map_length; exact Hlen|]. apply inbox_mod. exact Hs.
Qed.
End Tile.

(* ------------------------------------------------------------------ *)
(* children of a virtual cell, one M2M step, one M2L window            *)
(* ------------------------------------------------------------------ *)
Lemma filter_true_id {A} (l : list A) : filter (fun _ => true) l = l.
Proof. induction l as [|x l IH]; cbn [filter]; [reflexivity|]. rewrite IH. reflexivity. Qed.

Lemma children_perm d : (0 < d)%nat ->
  Permutation (map (unbox d) (zseq (2 ^ dz d))) (cube_shifts d 0 1).
Proof.
  intros Hd. apply NoDup_Permutation.
  - apply NoDup_map_in; [apply NoDup_zrange|]. intros x y Hx Hy E. apply In_zseq in Hx, Hy.
    rewrite <- (box_unbox d x Hd), <- (box_unbox d y Hd) by lia. rewrite E. reflexivity.
  - apply NoDup_cs.
  - intros v. rewrite in_map_iff. split.
    + intros (c & <- & Hc). apply In_zseq in Hc. apply In_cube.
      destruct (unbox_coords d 1 c Hd) as [Hlen Hb]; [lia|rewrite Z.mul_1_l; exact Hc|].
      split; [exact Hlen|]. intros j Hj. specialize (Hb j Hj). change (2 ^ 1) with 2 in Hb. lia.
    + intros Hv. apply In_cs in Hv. destruct Hv as [Hlen Hb]. rewrite inbox_spec in Hb.
      assert (Hnn : Forall (fun x => 0 <= x) v) by (revert Hb; apply Forall_impl; intros x Hx; lia).
      exists (box d v). split; [apply unbox_box; assumption|]. apply In_zseq. split.
      * apply box_nonneg_pos; assumption.
      * rewrite <- (Z.mul_1_l (dz d)). apply box_range; try assumption; [lia|].
        revert Hb. apply Forall_impl. intros x Hx. change (2 ^ 1) with 2. lia.
Qed.

Lemma perm_cs_nodup d lo hi M : Permutation M (cube_shifts d lo hi) -> NoDup M.
Proof. intros H. apply (Permutation_NoDup (Permutation_sym H)). apply NoDup_cs. Qed.

Lemma perm_cs_in d lo hi M : Permutation M (cube_shifts d lo hi) -> forall r, In r M <-> In r (cube_shifts d lo hi).
Proof. intros H r. split; apply Permutation_in; [exact H|apply Permutation_sym; exact H]. Qed.

(* tiling a window of cells of size s, each carrying the cube [0,s)^d *)
Lemma tile_all d s M a b : 0 < s -> Permutation M (cube_shifts d 0 (s - 1)) ->
  Permutation (flat_map (fun o => shift_by (map (fun x => x * s) o) M) (cube_shifts d a b))
              (cube_shifts d (a * s) ((b + 1) * s - 1)).
Proof.
  intros Hs HM.
  pose proof (tile_gen d s Hs M (perm_cs_nodup _ _ _ _ HM) (perm_cs_in _ _ _ _ HM) (fun _ => true) a b) as H.
  cbv beta in H. rewrite filter_true_id in H. exact H.
Qed.

Lemma m2m_step d s M : (0 < d)%nat -> 0 < s -> Permutation M (cube_shifts d 0 (s - 1)) ->
  Permutation (flat_map (fun c => shift_by (map (fun b => b * s) (unbox d c)) M) (zseq (2 ^ dz d)))
              (cube_shifts d 0 (2 * s - 1)).
Proof.
  intros Hd Hs HM.
  rewrite <- (flat_map_map (fun o => shift_by (map (fun b => b * s) o) M) (unbox d)).
  rewrite (Permutation_flat_map _ (children_perm d Hd)).
  replace (2 * s - 1) with ((1 + 1) * s - 1) by ring. replace 0 with (0 * s) at 2 by ring.
  apply tile_all; assumption.
Qed.

(* the region delivered by one M2L window [wl,wh] of cells of size s *)
Definition region (d : nat) (s wl wh : Z) : shifts :=
  filter (fun v => negb (inbox (- s) (2 * s - 1) v)) (cube_shifts d (wl * s) ((wh + 1) * s - 1)).

Lemma window_codes_flat d wl wh (f : list Z -> shifts) : -3 <= wl -> wh <= 3 ->
  flat_map (fun code => f (dec7 d code)) (window_codes d wl wh)
  = flat_map (fun o => if negb (too_close o) then f o else []) (cube_shifts d wl wh).
Proof.
  intros H1 H2. unfold window_codes, cube_shifts. rewrite flat_map_flat_map. apply flat_map_ext_in.
  intros o Ho. apply cube_Forall in Ho. destruct Ho as [Hlen Hb].
  destruct (too_close o); cbn [negb flat_map]; [reflexivity|]. rewrite app_nil_r.
  rewrite dec7_enc7; [reflexivity|exact Hlen|]. revert Hb. apply Forall_impl. intros x Hx. lia.
Qed.

Lemma m2l_window d s M wl wh : 0 < s -> -3 <= wl -> wh <= 3 -> Permutation M (cube_shifts d 0 (s - 1)) ->
  Permutation (flat_map (fun code => shift_by (map (fun o => o * s) (dec7 d code)) M) (window_codes d wl wh))
              (region d s wl wh).
Proof.
  intros Hs H1 H2 HM.
  rewrite (window_codes_flat d wl wh (fun o => shift_by (map (fun x => x * s) o) M)) by assumption.
  pose proof (tile_gen d s Hs M (perm_cs_nodup _ _ _ _ HM) (perm_cs_in _ _ _ _ HM) (fun o => negb (too_close o)) wl wh) as H.
  cbv beta in H. unfold region. erewrite filter_ext; [exact H|].
  intros v. cbv beta. rewrite too_close_inbox, inbox_div by exact Hs.
  replace (-1 * s) with (- s) by ring. replace ((1 + 1) * s - 1) with (2 * s - 1) by ring. reflexivity.
Qed.
