(* Image semantics of the periodic top tree: the call sequence [top_execute d k 63 t] delivers to the simulation box,
   exactly once, the image of the box at every shift of the reported repetition cube minus the adjacent cube [-1,1]^d. *)
From Tbfmm Require Import Base.Prelude Base.Search Index.MortonDefs Tree.GroupDefs Index.ListsDefs Tree.BuildDefs
  Index.ListsSpec Exec.ExecDefs Exec.ExecTsmDefs Exec.ExecPeriodicDefs
  Index.MortonProofs Index.MortonBits Index.ListsProofs.
From Coq Require Import ZifyBool Zify Permutation.
Local Open Scope Z_scope.
Ltac Zify.zify_post_hook ::= Z.div_mod_to_equations.

(* a value is the multiset (list) of box shifts (vectors of Z, in units of one box width) at which a copy of the
   box's multipole has been accumulated *)
Definition shifts := list (list Z).
Definition shift_by (v : list Z) (s : shifts) : shifts := map (map2 Z.add v) s.
(* child number c (bits, dimension 0 = most significant bit, as [unbox d c]) of a virtual cell of level j sits at
   offset bits(c) * 2^(k+2-j) boxes *)
Definition child_offset (d : nat) (k j c : Z) : list Z := map (fun b => b * 2 ^ (k + 2 - j)) (unbox d c).

Record tstate := { tM : Z -> shifts; tL : Z -> shifts; tres : shifts }.
Definition upd (f : Z -> shifts) (j : Z) (v : shifts) : Z -> shifts := fun i => if i =? j then v else f i.

Definition tstep (d : nat) (k : Z) (st : tstate) (c : tcall) : tstate :=
  match c with
  | TM2M_base l _ => {| tM := upd (tM st) l [repeat 0 d]; tL := tL st; tres := tres st |}
  | TM2M j codes =>
      {| tM := upd (tM st) j (tM st j ++ flat_map (fun c => shift_by (child_offset d k j c) (tM st (j + 1))) codes);
         tL := tL st; tres := tres st |}
  | TM2L j codes =>
      {| tM := tM st;
         tL := upd (tL st) j
                 (tL st j ++ flat_map (fun code => shift_by (map (fun o => o * 2 ^ (k + 3 - j)) (dec7 d code)) (tM st j)) codes);
         tres := tres st |}
  | TL2L j codes =>
      {| tM := tM st;
         tL := upd (tL st) (j + 1)
                 (tL st (j + 1) ++ flat_map (fun c => shift_by (map Z.opp (child_offset d k j c)) (tL st j)) codes);
         tres := tres st |}
  | TL2L_base l _ => {| tM := tM st; tL := tL st; tres := tL st l |}
  end.

Definition tinit : tstate := {| tM := fun _ => []; tL := fun _ => []; tres := [] |}.

Definition top_run (d : nat) (k : Z) (calls : list tcall) : shifts := tres (fold_left (tstep d k) calls tinit).

Definition cube_shifts (d : nat) (lo hi : Z) : shifts := odometer (repeat (lo, hi) d).

Definition far_shifts (d : nat) (lo hi : Z) : shifts :=
  filter (fun s => negb (forallb (fun x => Z.abs x <=? 1) s)) (cube_shifts d lo hi).

(* ------------------------------------------------------------------ *)
(* validation by computation                                           *)
(* ------------------------------------------------------------------ *)
Definition veqb (a b : list Z) : bool := list_eqb Z.eqb a b.
Definition vcount (x : list Z) (l : shifts) : nat := length (filter (veqb x) l).
Definition mseqb (l1 l2 : shifts) : bool :=
  (length l1 =? length l2)%nat && forallb (fun x => (vcount x l1 =? vcount x l2)%nat) l1.

Definition test_tree : tree := {| t_levels := [[]; []]; t_pgroups := [] |}.

Definition toptree_check (d : nat) (k : Z) : bool :=
  let (lo, hi) := repetition_interval k in
  mseqb (top_run d k (top_execute d k 63 test_tree)) (far_shifts d lo hi).

Example check_1_0 : toptree_check 1 0 = true. Proof. vm_compute. reflexivity. Qed.
Example check_1_1 : toptree_check 1 1 = true. Proof. vm_compute. reflexivity. Qed.
Example check_1_2 : toptree_check 1 2 = true. Proof. vm_compute. reflexivity. Qed.
Example check_1_3 : toptree_check 1 3 = true. Proof. vm_compute. reflexivity. Qed.
Example check_1_4 : toptree_check 1 4 = true. Proof. vm_compute. reflexivity. Qed.
Example check_2_0 : toptree_check 2 0 = true. Proof. vm_compute. reflexivity. Qed.
Example check_2_1 : toptree_check 2 1 = true. Proof. vm_compute. reflexivity. Qed.
Example check_2_2 : toptree_check 2 2 = true. Proof. vm_compute. reflexivity. Qed.
Example check_2_3 : toptree_check 2 3 = true. Proof. vm_compute. reflexivity. Qed.
Example check_3_0 : toptree_check 3 0 = true. Proof. vm_compute. reflexivity. Qed.
Example check_3_1 : toptree_check 3 1 = true. Proof. vm_compute. reflexivity. Qed.

(* ------------------------------------------------------------------ *)
(* the reported interval                                               *)
(* ------------------------------------------------------------------ *)
Lemma repetition_interval_pos k : 1 <= k -> repetition_interval k = (- 3 * 2 ^ k, 3 * 2 ^ k - 1).
Proof.
  intros Hk. unfold repetition_interval, nb_repetitions.
  destruct (k =? -1) eqn:E1; [lia|]. destruct (k =? 0) eqn:E0; [lia|].
  rewrite Z.shiftl_mul_pow2 by lia. rewrite Z.mul_1_l.
  replace (6 * 2 ^ k) with (3 * 2 ^ k * 2) by ring.
  rewrite Z.quot_mul by lia. f_equal. ring.
Qed.

Theorem interval_matches : forall k, 0 <= k ->
  let (lo, hi) := repetition_interval k in
  hi - lo + 1 = nb_repetitions k /\ (k = 0 -> lo = -3 /\ hi = 3) /\ (1 <= k -> lo = - 3 * 2 ^ k /\ hi = 3 * 2 ^ k - 1).
Proof.
  intros k Hk. destruct (Z.eq_dec k 0) as [->|Hne].
  - cbn. repeat split; lia.
  - rewrite repetition_interval_pos by lia. unfold nb_repetitions.
    destruct (k =? -1) eqn:E1; [lia|]. destruct (k =? 0) eqn:E0; [lia|].
    rewrite Z.shiftl_mul_pow2 by lia. repeat split; lia.
Qed.

(* ------------------------------------------------------------------ *)
(* boxes of vectors                                                    *)
(* ------------------------------------------------------------------ *)
Definition inbox (lo hi : Z) (v : list Z) : bool := forallb (fun x => (lo <=? x) && (x <=? hi)) v.

Lemma inbox_spec lo hi v : inbox lo hi v = true <-> Forall (fun x => lo <= x <= hi) v.
Proof.
  unfold inbox. rewrite forallb_forall, Forall_forall. split; intros H x Hx; specialize (H x Hx); lia.
Qed.

Lemma In_cs d lo hi v : In v (cube_shifts d lo hi) <-> length v = d /\ inbox lo hi v = true.
Proof.
  rewrite inbox_spec. split.
  - apply cube_Forall.
  - intros [Hlen HF]. apply In_cube. split; [exact Hlen|]. rewrite Forall_nthZ in HF. rewrite <- Hlen. exact HF.
Qed.

Lemma NoDup_cs d lo hi : NoDup (cube_shifts d lo hi).
Proof. apply NoDup_odometer. Qed.

Lemma inbox_mono lo hi lo' hi' v : lo' <= lo -> hi <= hi' -> inbox lo hi v = true -> inbox lo' hi' v = true.
Proof.
  intros H1 H2. rewrite !inbox_spec. apply Forall_impl. intros x Hx. lia.
Qed.

Lemma too_close_inbox v : too_close v = inbox (-1) 1 v.
Proof.
  unfold too_close, inbox. induction v as [|x v IH]; cbn [forallb]; [reflexivity|]. rewrite IH. f_equal. lia.
Qed.

(* nested boxes: what lies outside the small box is what lies outside the middle box plus the part of the middle box
   outside the small box *)
Lemma nested_split d lo hi a' b' a b :
  lo <= a' -> a' <= a -> b <= b' -> b' <= hi ->
  Permutation (filter (fun v => negb (inbox a b v)) (cube_shifts d lo hi))
              (filter (fun v => negb (inbox a' b' v)) (cube_shifts d lo hi)
               ++ filter (fun v => negb (inbox a b v)) (cube_shifts d a' b')).
Proof.
  intros H1 H2 H3 H4. apply NoDup_Permutation.
  - apply NoDup_filter, NoDup_cs.
  - apply NoDup_app_intro; try (apply NoDup_filter, NoDup_cs).
    intros x Hx1 Hx2. apply filter_In in Hx1, Hx2. destruct Hx1 as [_ Hx1]. destruct Hx2 as [Hx2 _].
    apply In_cs in Hx2. destruct Hx2 as [_ Hx2]. rewrite Hx2 in Hx1. discriminate.
  - intros v. rewrite in_app_iff, !filter_In, !In_cs. split.
    + intros [[Hlen Hin] Hout]. destruct (inbox a' b' v) eqn:E.
      * right. auto.
      * left. auto.
    + intros [[[Hlen Hin] Hout]|[[Hlen Hin] Hout]].
      * split; [auto|]. destruct (inbox a b v) eqn:E; [|reflexivity].
        apply (inbox_mono a b a' b') in E; [|lia|lia]. rewrite E in Hout. discriminate.
      * split; [|exact Hout]. split; [exact Hlen|]. apply (inbox_mono a' b' lo hi); [lia|lia|exact Hin].
Qed.

(* ------------------------------------------------------------------ *)
(* tiling: offset * size + remainder                                   *)
(* ------------------------------------------------------------------ *)
Definition comb (s : Z) (o r : list Z) : list Z := map2 Z.add (map (fun x => x * s) o) r.

Lemma div_bounds s a b x : 0 < s -> (a <= x / s <= b <-> a * s <= x <= (b + 1) * s - 1).
Proof.
  intros Hs. pose proof (Z.mul_div_le x s Hs) as H1. pose proof (Z.mul_succ_div_gt x s Hs) as H2.
  split; intros [Ha Hb]; split; nia.
Qed.

Lemma comb_length s o r : length o = length r -> length (comb s o r) = length o.
Proof.
  unfold comb. revert r. induction o as [|x o IH]; intros [|y r] H; cbn [map map2 length] in *; try lia.
  rewrite IH by lia. reflexivity.
Qed.

Lemma comb_div s o r : 0 < s -> length o = length r -> Forall (fun x => 0 <= x <= s - 1) r ->
  map (fun x => x / s) (comb s o r) = o.
Proof.
  intros Hs. unfold comb. revert r. induction o as [|x o IH]; intros [|y r] Hlen HF; cbn [map map2 length] in *; try lia.
  - reflexivity.
  - inversion HF as [|? ? Hy HF']; subst. rewrite IH by (try lia; exact HF'). f_equal.
    rewrite Z.add_comm, Z.div_add by lia. rewrite Z.div_small by lia. lia.
Qed.

Lemma comb_mod s o r : 0 < s -> length o = length r -> Forall (fun x => 0 <= x <= s - 1) r ->
  map (fun x => x mod s) (comb s o r) = r.
Proof.
  intros Hs. unfold comb. revert r. induction o as [|x o IH]; intros [|y r] Hlen HF; cbn [map map2 length] in *; try lia.
  - reflexivity.
  - inversion HF as [|? ? Hy HF']; subst. rewrite IH by (try lia; exact HF'). f_equal.
    rewrite Z.add_comm, Z.mod_add by lia. apply Z.mod_small. lia.
Qed.

Lemma comb_divmod s v : 0 < s -> comb s (map (fun x => x / s) v) (map (fun x => x mod s) v) = v.
Proof.
  intros Hs. unfold comb. induction v as [|x v IH]; cbn [map map2]; [reflexivity|]. rewrite IH. f_equal.
  pose proof (Z.div_mod x s). lia.
Qed.

Lemma inbox_div s a b v : 0 < s -> inbox a b (map (fun x => x / s) v) = inbox (a * s) ((b + 1) * s - 1) v.
Proof.
  intros Hs. apply eq_true_iff_eq. rewrite !inbox_spec, Forall_map. split; apply Forall_impl; intros x Hx.
  - apply div_bounds; assumption.
  - apply div_bounds in Hx; assumption.
Qed.

Lemma inbox_mod s v : 0 < s -> inbox 0 (s - 1) (map (fun x => x mod s) v) = true.
Proof.
  intros Hs. rewrite inbox_spec, Forall_map. apply Forall_forall. intros x _.
  pose proof (Z.mod_pos_bound x s Hs). lia.
Qed.

Lemma NoDup_map_in {A B} (f : A -> B) l :
  NoDup l -> (forall x y, In x l -> In y l -> f x = f y -> x = y) -> NoDup (map f l).
Proof.
  induction l as [|a l IH]; intros HN Hinj; cbn [map]; [constructor|].
  inversion HN as [|? ? Hna HN']; subst. constructor.
  - intros Hi. apply in_map_iff in Hi. destruct Hi as (x & Hx & Hxl).
    apply Hna. rewrite <- (Hinj x a); [exact Hxl|right; exact Hxl|left; reflexivity|exact Hx].
  - apply IH; [exact HN'|]. intros x y Hx Hy. apply Hinj; right; assumption.
Qed.

Section Tile.
Variable d : nat.
Variable s : Z.
Hypothesis Hs : 0 < s.
Variable M : shifts.
Hypothesis HMnd : NoDup M.
Hypothesis HMin : forall r, In r M <-> In r (cube_shifts d 0 (s - 1)).
Variable P : list Z -> bool.
Variables a b : Z.

Let F (o : list Z) : shifts := if P o then shift_by (map (fun x => x * s) o) M else [].

Lemma M_elem r : In r M -> length r = d /\ Forall (fun x => 0 <= x <= s - 1) r.
Proof. intros H. apply HMin, In_cs in H. rewrite inbox_spec in H. exact H. Qed.

Lemma F_elem o y : length o = d -> In y (F o) -> exists r, In r M /\ y = comb s o r /\ P o = true.
Proof.
  intros Hlen. unfold F. destruct (P o); [|intros []]. unfold shift_by. rewrite in_map_iff.
  intros (r & <- & Hr). exists r. auto.
Qed.

Lemma tile_gen :
  Permutation (flat_map F (cube_shifts d a b))
              (filter (fun v => P (map (fun x => x / s) v)) (cube_shifts d (a * s) ((b + 1) * s - 1))).
Proof.
  apply NoDup_Permutation.
  - apply NoDup_flat_map_g with (g := map (fun x => x / s)).
    + apply NoDup_cs.
    + intros o Ho. apply In_cs in Ho. destruct Ho as [Hlo _]. unfold F. destruct (P o); [|constructor].
      unfold shift_by. apply NoDup_map_in; [exact HMnd|].
      intros x y Hx Hy E. apply M_elem in Hx, Hy. destruct Hx as [Lx Fx]. destruct Hy as [Ly Fy].
      rewrite <- (comb_mod s o x Hs), <- (comb_mod s o y Hs); try assumption; try lia.
      unfold comb. rewrite E. reflexivity.
    + intros o y Ho Hy. apply In_cs in Ho. destruct Ho as [Hlo _].
      apply F_elem in Hy; [|exact Hlo]. destruct Hy as (r & Hr & -> & _). apply M_elem in Hr. destruct Hr as [Lr Fr].
      apply comb_div; [exact Hs|lia|exact Fr].
  - apply NoDup_filter, NoDup_cs.
  - intros v. rewrite in_flat_map, filter_In, In_cs. split.
    + intros (o & Ho & Hv). apply In_cs in Ho. destruct Ho as [Hlo Hbo].
      apply F_elem in Hv; [|exact Hlo]. destruct Hv as (r & Hr & -> & HP). apply M_elem in Hr. destruct Hr as [Lr Fr].
      assert (E : map (fun x => x / s) (comb s o r) = o) by (apply comb_div; [exact Hs|lia|exact Fr]).
      split; [split|].
      * rewrite comb_length by lia. exact Hlo.
      * rewrite <- inbox_div by exact Hs. rewrite E. exact Hbo.
      * rewrite E. exact HP.
    + intros [[Hlen Hbv] HP]. exists (map (fun x => x / s) v). split.
      * apply In_cs. split; [rewrite map_length; exact Hlen|]. rewrite inbox_div by exact Hs. exact Hbv.
      * unfold F. rewrite HP. unfold shift_by. apply in_map_iff. exists (map (fun x => x mod s) v). split.
        -- apply (comb_divmod s v Hs).
        -- apply HMin, In_cs. split; [rewrite map_length; exact Hlen|]. apply inbox_mod. exact Hs.
Qed.
End Tile.

(* ------------------------------------------------------------------ *)
(* children of a virtual cell, one M2M step, one M2L window            *)
(* ------------------------------------------------------------------ *)
Lemma filter_true_id {A} (l : list A) : filter (fun _ => true) l = l.
Proof. induction l as [|x l IH]; cbn [filter]; [reflexivity|]. rewrite IH. reflexivity. Qed.

Lemma children_perm d : (0 < d)%nat ->
  Permutation (map (unbox d) (zseq (2 ^ dz d))) (cube_shifts d 0 1).
Proof.
  intros Hd. apply NoDup_Permutation.
  - apply NoDup_map_in; [apply NoDup_zrange|]. intros x y Hx Hy E. apply In_zseq in Hx, Hy.
    rewrite <- (box_unbox d x Hd), <- (box_unbox d y Hd) by lia. rewrite E. reflexivity.
  - apply NoDup_cs.
  - intros v. rewrite in_map_iff. split.
    + intros (c & <- & Hc). apply In_zseq in Hc. apply In_cube.
      destruct (unbox_coords d 1 c Hd) as [Hlen Hb]; [lia|rewrite Z.mul_1_l; exact Hc|].
      split; [exact Hlen|]. intros j Hj. specialize (Hb j Hj). change (2 ^ 1) with 2 in Hb. lia.
    + intros Hv. apply In_cs in Hv. destruct Hv as [Hlen Hb]. rewrite inbox_spec in Hb.
      assert (Hnn : Forall (fun x => 0 <= x) v) by (revert Hb; apply Forall_impl; intros x Hx; lia).
      exists (box d v). split; [apply unbox_box; assumption|]. apply In_zseq. split.
      * apply box_nonneg_pos; assumption.
      * rewrite <- (Z.mul_1_l (dz d)). apply box_range; try assumption; [lia|].
        revert Hb. apply Forall_impl. intros x Hx. change (2 ^ 1) with 2. lia.
Qed.

Lemma perm_cs_nodup d lo hi M : Permutation M (cube_shifts d lo hi) -> NoDup M.
Proof. intros H. apply (Permutation_NoDup (Permutation_sym H)). apply NoDup_cs. Qed.

Lemma perm_cs_in d lo hi M : Permutation M (cube_shifts d lo hi) -> forall r, In r M <-> In r (cube_shifts d lo hi).
Proof. intros H r. split; apply Permutation_in; [exact H|apply Permutation_sym; exact H]. Qed.

(* tiling a window of cells of size s, each carrying the cube [0,s)^d *)
Lemma tile_all d s M a b : 0 < s -> Permutation M (cube_shifts d 0 (s - 1)) ->
  Permutation (flat_map (fun o => shift_by (map (fun x => x * s) o) M) (cube_shifts d a b))
              (cube_shifts d (a * s) ((b + 1) * s - 1)).
Proof.
  intros Hs HM.
  pose proof (tile_gen d s Hs M (perm_cs_nodup _ _ _ _ HM) (perm_cs_in _ _ _ _ HM) (fun _ => true) a b) as H.
  cbv beta in H. rewrite filter_true_id in H. exact H.
Qed.

Lemma m2m_step d s M : (0 < d)%nat -> 0 < s -> Permutation M (cube_shifts d 0 (s - 1)) ->
  Permutation (flat_map (fun c => shift_by (map (fun b => b * s) (unbox d c)) M) (zseq (2 ^ dz d)))
              (cube_shifts d 0 (2 * s - 1)).
Proof.
  intros Hd Hs HM.
  rewrite <- (flat_map_map (fun o => shift_by (map (fun b => b * s) o) M) (unbox d)).
  rewrite (Permutation_flat_map _ (children_perm d Hd)).
  replace (2 * s - 1) with ((1 + 1) * s - 1) by ring. replace 0 with (0 * s) at 2 by ring.
  apply tile_all; assumption.
Qed.

(* the region delivered by one M2L window [wl,wh] of cells of size s *)
Definition region (d : nat) (s wl wh : Z) : shifts :=
  filter (fun v => negb (inbox (- s) (2 * s - 1) v)) (cube_shifts d (wl * s) ((wh + 1) * s - 1)).

Lemma window_codes_flat d wl wh (f : list Z -> shifts) : -3 <= wl -> wh <= 3 ->
  flat_map (fun code => f (dec7 d code)) (window_codes d wl wh)
  = flat_map (fun o => if negb (too_close o) then f o else []) (cube_shifts d wl wh).
Proof.
  intros H1 H2. unfold window_codes, cube_shifts. rewrite flat_map_flat_map. apply flat_map_ext_in.
  intros o Ho. apply cube_Forall in Ho. destruct Ho as [Hlen Hb].
  destruct (too_close o); cbn [negb flat_map]; [reflexivity|]. rewrite app_nil_r.
  rewrite dec7_enc7; [reflexivity|exact Hlen|]. revert Hb. apply Forall_impl. intros x Hx. lia.
Qed.

Lemma m2l_tiles d s M wl wh : 0 < s -> Permutation M (cube_shifts d 0 (s - 1)) ->
  Permutation (flat_map (fun o => if negb (too_close o) then shift_by (map (fun x => x * s) o) M else []) (cube_shifts d wl wh))
              (region d s wl wh).
Proof.
  intros Hs HM.
  pose proof (tile_gen d s Hs M (perm_cs_nodup _ _ _ _ HM) (perm_cs_in _ _ _ _ HM) (fun o => negb (too_close o)) wl wh) as H.
  cbv beta in H. unfold region. erewrite filter_ext; [exact H|].
  intros v. cbv beta. rewrite too_close_inbox, inbox_div by exact Hs.
  replace (-1 * s) with (- s) by ring. replace ((1 + 1) * s - 1) with (2 * s - 1) by ring. reflexivity.
Qed.

Lemma m2l_window d s M wl wh : 0 < s -> -3 <= wl -> wh <= 3 -> Permutation M (cube_shifts d 0 (s - 1)) ->
  Permutation (flat_map (fun code => shift_by (map (fun o => o * s) (dec7 d code)) M) (window_codes d wl wh))
              (region d s wl wh).
Proof.
  intros Hs H1 H2 HM.
  rewrite (window_codes_flat d wl wh (fun o => shift_by (map (fun x => x * s) o) M)) by assumption.
  apply m2l_tiles; assumption.
Qed.

(* ------------------------------------------------------------------ *)
(* the telescope of the level regions                                  *)
(* ------------------------------------------------------------------ *)
Definition csize (k j : Z) : Z := 2 ^ (k + 3 - j).
Definition win_of (k j : Z) : Z * Z := if k =? 0 then (-3, 3) else if j =? 3 then (-3, 2) else (-2, 3).
Definition lvl_region (d : nat) (k j : Z) : shifts := region d (csize k j) (fst (win_of k j)) (snd (win_of k j)).
(* everything of the repetition cube that is not adjacent at level j *)
Definition acc_region (d : nat) (k j : Z) : shifts :=
  filter (fun v => negb (inbox (- csize k j) (2 * csize k j - 1) v))
         (cube_shifts d (fst (repetition_interval k)) (snd (repetition_interval k))).

Lemma zrange_nil lo hi : hi < lo -> zrange lo hi = [].
Proof. intros Hlt. unfold zrange. replace (Z.to_nat (hi - lo + 1)) with 0%nat by lia. reflexivity. Qed.

Lemma zrange_cons lo hi : lo <= hi -> zrange lo hi = lo :: zrange (lo + 1) hi.
Proof.
  intros Hle. unfold zrange.
  replace (Z.to_nat (hi - lo + 1)) with (S (Z.to_nat (hi - (lo + 1) + 1))) by lia.
  cbn [seq map]. f_equal; [lia|]. rewrite <- seq_shift, map_map. apply map_ext. intros k. lia.
Qed.

Lemma zrange_snoc lo hi : lo <= hi + 1 -> zrange lo (hi + 1) = zrange lo hi ++ [hi + 1].
Proof.
  intros Hle. unfold zrange.
  replace (Z.to_nat (hi + 1 - lo + 1)) with (S (Z.to_nat (hi - lo + 1))) by lia.
  rewrite seq_S, map_app. cbn [map]. f_equal. f_equal. lia.
Qed.

Lemma csize_pos k j : j <= k + 3 -> 0 < csize k j.
Proof. intros H. unfold csize. apply Z.pow_pos_nonneg; lia. Qed.

Lemma csize_double k j : j < k + 3 -> csize k j = 2 * csize k (j + 1).
Proof.
  intros H. unfold csize. replace (k + 3 - j) with (Z.succ (k + 3 - (j + 1))) by lia.
  rewrite Z.pow_succ_r by lia. reflexivity.
Qed.

Lemma csize_le k j : 3 <= j -> j <= k + 3 -> csize k j <= 2 ^ k.
Proof. intros H1 H2. unfold csize. apply Z.pow_le_mono_r; lia. Qed.

Lemma tele_base d k : 0 <= k -> lvl_region d k 3 = acc_region d k 3.
Proof.
  intros Hk. unfold lvl_region, acc_region, region, win_of, csize.
  replace (k + 3 - 3) with k by ring.
  destruct (Z.eq_dec k 0) as [->|Hne]; [reflexivity|].
  rewrite repetition_interval_pos by lia. destruct (k =? 0) eqn:E; [lia|]. cbn [Z.eqb fst snd].
  replace ((2 + 1) * 2 ^ k - 1) with (3 * 2 ^ k - 1) by ring. reflexivity.
Qed.

Lemma tele_regions d k n : 0 <= k -> Z.of_nat n <= k ->
  Permutation (flat_map (lvl_region d k) (zrange 3 (3 + Z.of_nat n))) (acc_region d k (3 + Z.of_nat n)).
Proof.
  intros Hk. induction n as [|n IH]; intros Hn.
  - cbn [Z.of_nat]. change (zrange 3 (3 + 0)) with [3]. cbn [flat_map]. rewrite app_nil_r, Z.add_0_r.
    rewrite tele_base by exact Hk. apply Permutation_refl.
  - rewrite Nat2Z.inj_succ in *. set (j := 3 + Z.of_nat n) in *.
    replace (3 + Z.succ (Z.of_nat n)) with (j + 1) by lia.
    rewrite zrange_snoc by lia. rewrite flat_map_app. cbn [flat_map]. rewrite app_nil_r.
    rewrite IH by lia. clear IH.
    assert (Hk1 : 1 <= k) by lia.
    pose proof (csize_pos k (j + 1) ltac:(lia)) as Hpos.
    pose proof (csize_double k j ltac:(lia)) as Hdbl.
    pose proof (csize_le k j ltac:(lia) ltac:(lia)) as Hle.
    unfold lvl_region, acc_region, region, win_of.
    destruct (k =? 0) eqn:E0; [lia|]. destruct (j + 1 =? 3) eqn:E3; [lia|]. cbn [fst snd].
    rewrite repetition_interval_pos by lia. cbn [fst snd].
    set (s := csize k (j + 1)) in *. rewrite Hdbl.
    replace (-2 * s) with (- (2 * s)) by ring. replace ((3 + 1) * s - 1) with (2 * (2 * s) - 1) by ring.
    apply Permutation_sym. apply nested_split; lia.
Qed.

Lemma perm_flat_map_pointwise {A B} (f g : A -> list B) l :
  (forall a, In a l -> Permutation (f a) (g a)) -> Permutation (flat_map f l) (flat_map g l).
Proof.
  induction l as [|a l IH]; intros H; cbn [flat_map]; [apply Permutation_refl|].
  apply Permutation_app; [apply H; left; reflexivity|]. apply IH. intros x Hx. apply H. right; exact Hx.
Qed.

(* the d-dimensional window telescope *)
Theorem window_telescope : forall d k, 0 <= k ->
  Permutation (flat_map (lvl_region d k) (zrange 3 (k + 3)))
              (far_shifts d (fst (repetition_interval k)) (snd (repetition_interval k))).
Proof.
  intros d k Hk. pose proof (tele_regions d k (Z.to_nat k) Hk ltac:(lia)) as H.
  replace (3 + Z.of_nat (Z.to_nat k)) with (k + 3) in H by lia.
  rewrite H. unfold acc_region, far_shifts, csize. replace (k + 3 - (k + 3)) with 0 by ring.
  change (2 ^ 0) with 1. change (2 * 1 - 1) with 1. change (- (1)) with (-1).
  erewrite filter_ext; [apply Permutation_refl|]. intros v. cbv beta. rewrite <- too_close_inbox. reflexivity.
Qed.

(* ------------------------------------------------------------------ *)
(* running the call sequence                                           *)
(* ------------------------------------------------------------------ *)
Lemma upd_same f j v : upd f j v j = v.
Proof. unfold upd. rewrite Z.eqb_refl. reflexivity. Qed.

Lemma upd_other f j v i : i <> j -> upd f j v i = f i.
Proof. intros H. unfold upd. destruct (i =? j) eqn:E; [lia|reflexivity]. Qed.

Lemma cube_zero d : cube_shifts d 0 0 = [repeat 0 d].
Proof.
  unfold cube_shifts. induction d as [|d IH]; [reflexivity|].
  cbn [repeat odometer]. change (zrange 0 0) with [0]. cbn [flat_map]. rewrite IH. reflexivity.
Qed.

Section Run.
Variable d : nat.
Hypothesis Hd : (0 < d)%nat.
Variable k : Z.
Hypothesis Hk : 0 <= k.

Let allc : list Z := zseq (Z.shiftl 1 (dz d)).

(* upward phase *)
Lemma m_phase ch n : Z.of_nat n <= k ->
  let st := fold_left (tstep d k) (map (fun l => TM2M l allc) (rev (zrange (k + 3 - Z.of_nat n) (k + 2))))
                      (tstep d k tinit (TM2M_base (k + 3) ch)) in
  (forall j, tL st j = []) /\ tres st = [] /\
  (forall j, j < k + 3 - Z.of_nat n -> tM st j = []) /\
  (forall j, k + 3 - Z.of_nat n <= j <= k + 3 -> Permutation (tM st j) (cube_shifts d 0 (csize k j - 1))).
Proof.
  induction n as [|n IH]; intros Hn.
  - cbn [Z.of_nat]. rewrite Z.sub_0_r. rewrite zrange_nil by lia. cbn [rev map fold_left tstep tinit tM tL tres].
    repeat split.
    + intros j Hj. apply upd_other. lia.
    + intros j Hj. assert (j = k + 3) as -> by lia. rewrite upd_same. unfold csize.
      replace (k + 3 - (k + 3)) with 0 by ring. change (2 ^ 0 - 1) with 0. rewrite cube_zero. apply Permutation_refl.
  - rewrite Nat2Z.inj_succ in *. specialize (IH ltac:(lia)).
    set (j0 := k + 3 - Z.of_nat n) in *.
    replace (k + 3 - Z.succ (Z.of_nat n)) with (j0 - 1) by lia.
    rewrite (zrange_cons (j0 - 1)) by lia. replace (j0 - 1 + 1) with j0 by ring.
    cbn [rev]. rewrite map_app, fold_left_app. cbn [map fold_left].
    set (st := fold_left _ _ _) in *. destruct IH as (HL & HR & HM0 & HM).
    cbn [tstep tM tL tres]. repeat split; try assumption.
    + intros j Hj. rewrite upd_other by lia. apply HM0. lia.
    + intros j Hj. destruct (Z.eq_dec j (j0 - 1)) as [->|Hne].
      * rewrite upd_same. rewrite HM0 by lia. cbn [app].
        unfold child_offset. replace (k + 2 - (j0 - 1)) with (k + 3 - j0) by ring. fold (csize k j0).
        rewrite (csize_double k (j0 - 1)) by lia. replace (j0 - 1 + 1) with j0 by ring.
        unfold allc. rewrite Z.shiftl_mul_pow2 by apply dz_nonneg. rewrite Z.mul_1_l.
        apply m2m_step; [exact Hd|apply csize_pos; lia|apply HM; lia].
      * rewrite upd_other by exact Hne. apply HM. lia.
Qed.

(* M2L phase: one call per level *)
Lemma m2l_fold (codes : Z -> list Z) ls : NoDup ls -> forall st,
  let st' := fold_left (tstep d k) (map (fun l => TM2L l (codes l)) ls) st in
  (forall j, tM st' j = tM st j) /\ tres st' = tres st /\
  (forall j, In j ls ->
     tL st' j = tL st j ++ flat_map (fun code => shift_by (map (fun o => o * 2 ^ (k + 3 - j)) (dec7 d code)) (tM st j)) (codes j)) /\
  (forall j, ~ In j ls -> tL st' j = tL st j).
Proof.
  induction ls as [|a ls IH]; intros HN st.
  - cbn [map fold_left]. repeat split; try reflexivity. intros j [].
  - inversion HN as [|? ? Hna HN']; subst. cbn [map fold_left].
    specialize (IH HN' (tstep d k st (TM2L a (codes a)))). cbv zeta in IH. cbv zeta.
    set (st' := fold_left _ _ _) in *. destruct IH as (HM & HR & HLin & HLout).
    cbn [tstep tM tL tres] in HM, HR, HLin, HLout. repeat split.
    + exact HM.
    + exact HR.
    + intros j [<-|Hj].
      * rewrite HLout by exact Hna. apply upd_same.
      * rewrite HLin by exact Hj. rewrite upd_other; [reflexivity|]. intros ->. contradiction.
    + intros j Hj. rewrite HLout by (intros H; apply Hj; right; exact H).
      apply upd_other. intros ->. apply Hj. left; reflexivity.
Qed.

(* downward phase: child 0 has the origin of its parent *)
Lemma shift_zero j L : (forall v, In v L -> length v = d) ->
  shift_by (map Z.opp (child_offset d k j 0)) L = L.
Proof.
  intros HL. unfold shift_by. rewrite <- (map_id L) at 2. apply map_ext_in. intros v Hv.
  specialize (HL v Hv). unfold child_offset. rewrite unbox_nonpos by lia.
  assert (HZ : Forall (fun x => x = 0) (map Z.opp (map (fun b => b * 2 ^ (k + 2 - j)) (rev (repeat 0 d))))).
  { rewrite !Forall_map. apply Forall_forall. intros x Hx. apply in_rev in Hx. apply repeat_spec in Hx. subst x. reflexivity. }
  assert (Hlen : length (map Z.opp (map (fun b => b * 2 ^ (k + 2 - j)) (rev (repeat 0 d)))) = length v).
  { rewrite !map_length, rev_length, repeat_length. symmetry. exact HL. }
  revert HZ Hlen. generalize (map Z.opp (map (fun b => b * 2 ^ (k + 2 - j)) (rev (repeat 0 d)))). clear.
  induction v as [|x v IH]; intros [|z zs] HZ Hlen; cbn [length map2] in *; try lia; [reflexivity|].
  inversion HZ as [|? ? Hz HZ']; subst. rewrite IH by (try assumption; lia). reflexivity.
Qed.

Lemma l2l_fold st n : (forall j v, In v (tL st j) -> length v = d) ->
  let st' := fold_left (tstep d k) (map (fun l => TL2L l [0]) (zrange 3 (2 + Z.of_nat n))) st in
  tres st' = tres st /\
  (forall j, 3 + Z.of_nat n < j -> tL st' j = tL st j) /\
  Permutation (tL st' (3 + Z.of_nat n)) (flat_map (tL st) (zrange 3 (3 + Z.of_nat n))).
Proof.
  intros Hlen. induction n as [|n IH].
  - cbn [Z.of_nat]. change (zrange 3 (2 + 0)) with (@nil Z). change (zrange 3 (3 + 0)) with [3].
    cbn [map fold_left flat_map]. rewrite app_nil_r. repeat split. apply Permutation_refl.
  - rewrite Nat2Z.inj_succ. cbv zeta in IH. set (j0 := 3 + Z.of_nat n) in *.
    replace (2 + Z.succ (Z.of_nat n)) with (2 + Z.of_nat n + 1) by lia.
    replace (3 + Z.succ (Z.of_nat n)) with (j0 + 1) by lia.
    rewrite zrange_snoc by lia. rewrite map_app, fold_left_app. replace (2 + Z.of_nat n + 1) with j0 by lia.
    cbn [map fold_left]. set (st1 := fold_left _ _ st) in *. destruct IH as (HR & Hout & HP).
    cbn [tstep tM tL tres]. repeat split.
    + exact HR.
    + intros j Hj. rewrite upd_other by lia. apply Hout. lia.
    + rewrite upd_same. cbn [flat_map]. rewrite app_nil_r.
      rewrite shift_zero.
      * rewrite Hout by lia. rewrite zrange_snoc by lia. rewrite flat_map_app. cbn [flat_map]. rewrite app_nil_r.
        rewrite Permutation_app_comm. apply Permutation_app_tail. exact HP.
      * intros v Hv. apply (Permutation_in _ HP) in Hv. apply in_flat_map in Hv.
        destruct Hv as (j & _ & Hv). apply (Hlen j v Hv).
Qed.
End Run.

(* ------------------------------------------------------------------ *)
(* the main theorem                                                    *)
(* ------------------------------------------------------------------ *)
Lemma top_M2L_eq d k : 0 <= k ->
  top_M2L d k = map (fun l => TM2L l (window_codes d (fst (win_of k l)) (snd (win_of k l)))) (zrange 3 (k + 3)).
Proof.
  intros Hk. unfold top_M2L, win_of. destruct (k =? 0) eqn:E.
  - assert (k = 0) as -> by lia. reflexivity.
  - apply map_ext. intros l. destruct (l =? 3); reflexivity.
Qed.

Lemma top_execute_eq d k t : 0 <= k -> height t <> 0 ->
  top_execute d k 63 t = top_M2M d k t ++ top_M2L d k ++ top_L2L d k t.
Proof.
  intros Hk Hh. unfold top_execute.
  destruct ((k <? 0) || (height t =? 0)) eqn:E; [lia|].
  change (has 63 F_M2M) with true. change (has 63 F_M2L) with true. change (has 63 F_L2L) with true. reflexivity.
Qed.

Lemma win_of_bounds k j : -3 <= fst (win_of k j) /\ snd (win_of k j) <= 3.
Proof. unfold win_of. destruct (k =? 0); [cbn; lia|]. destruct (j =? 3); cbn; lia. Qed.

Theorem toptree_images_gen : forall d k t, (0 < d)%nat -> 0 <= k -> height t <> 0 ->
  Permutation (top_run d k (top_execute d k 63 t))
              (far_shifts d (fst (repetition_interval k)) (snd (repetition_interval k))).
Proof.
  intros d k t Hd Hk Hh. unfold top_run. rewrite top_execute_eq by assumption.
  rewrite !fold_left_app.
  (* upward *)
  unfold top_M2M. cbn [fold_left].
  pose proof (m_phase d Hd k (level1_children d t) (Z.to_nat k) ltac:(lia)) as H1. cbv zeta in H1.
  replace (k + 3 - Z.of_nat (Z.to_nat k)) with 3 in H1 by lia.
  set (st1 := fold_left _ (map _ (rev _)) _) in *. destruct H1 as (HL1 & HR1 & _ & HM1).
  (* M2L *)
  rewrite top_M2L_eq by exact Hk.
  pose proof (m2l_fold d k (fun l => window_codes d (fst (win_of k l)) (snd (win_of k l))) (zrange 3 (k + 3))
                (NoDup_zrange _ _) st1) as H2. cbv zeta in H2.
  set (st2 := fold_left _ (map _ (zrange 3 (k + 3))) st1) in *. destruct H2 as (HM2 & HR2 & HLin & HLout).
  assert (HL2 : forall j, 3 <= j <= k + 3 -> Permutation (tL st2 j) (lvl_region d k j)).
  { intros j Hj. rewrite HLin by (apply In_zrange; exact Hj). rewrite HL1. cbn [app].
    fold (csize k j). unfold lvl_region. destruct (win_of_bounds k j) as [B1 B2].
    apply m2l_window; [apply csize_pos; lia|exact B1|exact B2|apply HM1; exact Hj]. }
  (* downward *)
  unfold top_L2L. rewrite fold_left_app. cbn [fold_left tstep tres].
  assert (Hlen : forall j v, In v (tL st2 j) -> length v = d).
  { intros j v Hv. destruct (Z_le_dec 3 j) as [Ha|Ha]; [destruct (Z_le_dec j (k + 3)) as [Hb|Hb]|].
    - apply (Permutation_in _ (HL2 j (conj Ha Hb))) in Hv. unfold lvl_region, region in Hv.
      apply filter_In in Hv. destruct Hv as [Hv _]. apply In_cs in Hv. apply Hv.
    - rewrite HLout, HL1 in Hv; [destruct Hv|]. rewrite In_zrange. lia.
    - rewrite HLout, HL1 in Hv; [destruct Hv|]. rewrite In_zrange. lia. }
  pose proof (l2l_fold d Hd k st2 (Z.to_nat k) Hlen) as H3. cbv zeta in H3.
  replace (2 + Z.of_nat (Z.to_nat k)) with (k + 2) in H3 by lia.
  replace (3 + Z.of_nat (Z.to_nat k)) with (k + 3) in H3 by lia.
  set (st3 := fold_left _ (map _ (zrange 3 (k + 2))) st2) in *. destruct H3 as (_ & _ & HP).
  rewrite HP. rewrite <- (window_telescope d k Hk).
  apply perm_flat_map_pointwise. intros j Hj. apply In_zrange in Hj. apply HL2. exact Hj.
Qed.

(* the statement in the requested form; a tree without levels produces no call at all, hence [height t <> 0] *)
Theorem toptree_images : forall d k t, (0 < d)%nat -> 0 <= k -> height t <> 0 ->
  let (lo, hi) := repetition_interval k in
  Permutation (top_run d k (top_execute d k 63 t))
              (filter (fun s => negb (forallb (fun x => Z.abs x <=? 1) s)) (cube_shifts d lo hi)).
Proof.
  intros d k t Hd Hk Hh. pose proof (toptree_images_gen d k t Hd Hk Hh) as H.
  unfold far_shifts in H. destruct (repetition_interval k) as [lo hi]. exact H.
Qed.

Theorem toptree_images_1d : forall k t, 0 <= k -> height t <> 0 ->
  let (lo, hi) := repetition_interval k in
  Permutation (top_run 1 k (top_execute 1 k 63 t))
              (filter (fun s => negb (forallb (fun x => Z.abs x <=? 1) s)) (cube_shifts 1 lo hi)).
Proof. intros k t. apply toptree_images. lia. Qed.

(* without the height hypothesis the statement is false: *)
Example toptree_images_needs_height :
  top_run 1 0 (top_execute 1 0 63 {| t_levels := []; t_pgroups := [] |}) = []
  /\ far_shifts 1 (-3) 3 = [[-3]; [-2]; [2]; [3]].
Proof. split; reflexivity. Qed.

(* ------------------------------------------------------------------ *)
(* the 1-D heart, on lists of integers                                 *)
(* ------------------------------------------------------------------ *)
(* window [wl,wh] of cells of size s (origin 0, each tiling [0,s)), minus the adjacent cells -1,0,1 *)
Definition win1 (wl wh s : Z) : list Z :=
  flat_map (fun o => if Z.abs o <=? 1 then [] else map (fun r => o * s + r) (zrange 0 (s - 1))) (zrange wl wh).
(* level 3 (size 2^k): window [-3,2]; levels 4..k+3 (sizes 2^(k-1)..1): window [-2,3]; k = 0: the single window [-3,3] *)
Definition tele1 (k : Z) : list Z :=
  if k =? 0 then win1 (-3) 3 1
  else flat_map (fun j => if j =? 3 then win1 (-3) 2 (2 ^ (k + 3 - j)) else win1 (-2) 3 (2 ^ (k + 3 - j))) (zrange 3 (k + 3)).

Definition sing (x : Z) : list Z := [x].

Lemma flat_map_sing {A B} (f : A -> B) l : flat_map (fun v => [f v]) l = map f l.
Proof. induction l as [|a l IH]; cbn [flat_map map app]; [reflexivity|]. rewrite IH. reflexivity. Qed.

Lemma map_flat_map {A B C} (f : B -> C) (g : A -> list B) l : map f (flat_map g l) = flat_map (fun a => map f (g a)) l.
Proof. induction l as [|a l IH]; cbn [flat_map map]; [reflexivity|]. rewrite map_app, IH. reflexivity. Qed.

Lemma filter_map_comm {A B} (p : B -> bool) (g : A -> B) l : filter p (map g l) = map g (filter (fun a => p (g a)) l).
Proof. induction l as [|a l IH]; cbn [filter map]; [reflexivity|]. rewrite IH. destruct (p (g a)); reflexivity. Qed.

Lemma cube1 a b : cube_shifts 1 a b = map sing (zrange a b).
Proof. unfold cube_shifts. cbn [repeat odometer map]. apply (flat_map_sing sing). Qed.

Lemma region_1 s wl wh : 0 < s -> Permutation (map sing (win1 wl wh s)) (region 1 s wl wh).
Proof.
  intros Hs. rewrite <- (m2l_tiles 1 s (cube_shifts 1 0 (s - 1)) wl wh Hs (Permutation_refl _)).
  rewrite !cube1. rewrite flat_map_map. unfold win1. rewrite map_flat_map.
  erewrite flat_map_ext_in; [apply Permutation_refl|]. intros o _. cbv beta.
  unfold too_close, sing. cbn [forallb map]. rewrite andb_true_r.
  destruct (Z.abs o <=? 1); cbn [negb map]; [reflexivity|].
  unfold shift_by. rewrite !map_map. apply map_ext. intros r. reflexivity.
Qed.

Lemma tele1_eq k : 0 <= k ->
  tele1 k = flat_map (fun j => win1 (fst (win_of k j)) (snd (win_of k j)) (csize k j)) (zrange 3 (k + 3)).
Proof.
  intros Hk. unfold tele1, win_of, csize. destruct (k =? 0) eqn:E.
  - assert (k = 0) as -> by lia. change (zrange 3 (0 + 3)) with [3]. cbn [flat_map]. rewrite app_nil_r. reflexivity.
  - apply flat_map_ext_in. intros j _. destruct (j =? 3); reflexivity.
Qed.

Theorem window_telescope_1d : forall k, 0 <= k ->
  let (lo, hi) := repetition_interval k in
  Permutation (tele1 k) (filter (fun x => negb (Z.abs x <=? 1)) (zrange lo hi)).
Proof.
  intros k Hk. pose proof (window_telescope 1 k Hk) as H. unfold far_shifts in H.
  destruct (repetition_interval k) as [lo hi]. cbn [fst snd] in H.
  assert (H1 : Permutation (map sing (tele1 k)) (map sing (filter (fun x => negb (Z.abs x <=? 1)) (zrange lo hi)))).
  { rewrite tele1_eq by exact Hk. rewrite map_flat_map.
    rewrite (perm_flat_map_pointwise _ (lvl_region 1 k)).
    - rewrite H. rewrite cube1, filter_map_comm.
      erewrite filter_ext; [apply Permutation_refl|]. intros x. unfold sing. cbn [forallb]. rewrite andb_true_r. reflexivity.
    - intros j Hj. apply In_zrange in Hj. apply region_1. apply csize_pos. lia. }
  apply (Permutation_map (hd 0)) in H1. rewrite !map_map in H1. unfold sing in H1. cbn [hd] in H1.
  rewrite !map_id in H1. exact H1.
Qed.

Print Assumptions interval_matches.
Print Assumptions window_telescope_1d.
Print Assumptions window_telescope.
Print Assumptions toptree_images_1d.
Print Assumptions toptree_images.
