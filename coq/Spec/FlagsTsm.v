(* Property C12 "operator flags compose" for the other two sequential models:
   (a) the target/source executor execute_tsm (Exec/ExecTsmDefs.v);
   (b) the periodic four-step sequence periodic_run (Exec/ExecPeriodicDefs.v), whose Real calls are a
       staged history of execute d true stop.
   Template: Spec/Flags.v.  op_flag (Flags.v) gives 1 for CP2PTsm, so it is reused unchanged. *)
From Tbfmm Require Import Base.Prelude Index.MortonDefs Tree.GroupDefs Index.ListsDefs Tree.BuildDefs
  Exec.ExecDefs Exec.ExecTsmDefs Exec.ExecPeriodicDefs Spec.Elem Spec.Kernel Spec.ExactlyOnce Spec.Flags.
From Coq Require Import ZifyBool Zify.
Local Open Scope Z_scope.

(* ------------------------------------------------------------------ *)
(* 1. shape of the calls issued by the two target/source passes        *)
(* ------------------------------------------------------------------ *)
Lemma in_p2p_between_tsm src tgt view c : In c (p2p_between CP2PTsm src tgt view) -> op_flag c = 1 \/ op_flag c = 0.
Proof.
  unfold p2p_between. intros H. apply in_flat_map in H. destruct H as (x & _ & H).
  destruct (pg_find src (x_src x)) as [ks|]; [|destruct H].
  apply in_app_or in H. destruct H as [H|H].
  - right. destruct (pg_find tgt (x_tgt x)) as [k|].
    + apply in_if_assert in H. subst c. reflexivity.
    + destruct H as [H|[]]. subst c. reflexivity.
  - apply in_app_or in H. destruct H as [H|H]; [apply in_if_assert in H; subst c; right; reflexivity|].
    destruct H as [H|[]]. subst c. left. reflexivity.
Qed.

Lemma in_tsm_pass_P2P d per s src tgt c : In c (tsm_pass_P2P d per src tgt) -> okc 1 s c.
Proof.
  unfold tsm_pass_P2P. intros H. apply in_flat_map in H. destruct H as (g & _ & H).
  destruct (nlist_block d per (height tgt - 1) false false g) as [internal external].
  apply in_flat_map in H. destruct H as (gv & _ & H). apply in_p2p_between_tsm in H.
  split; [exact H|]. destruct c; cbn [op_flag] in H; try exact I; destruct H; discriminate.
Qed.

Lemma in_tsm_pass_M2L d per s src tgt c : In c (tsm_pass_M2L d per s src tgt) -> okc 8 s c.
Proof.
  unfold tsm_pass_M2L. intros H. apply in_flat_map in H. destruct H as (l & Hl & H).
  apply in_zrange in Hl. apply in_flat_map in H. destruct H as (g & _ & H).
  destruct (ilist_block d per l false g) as [internal external].
  apply in_flat_map in H. destruct H as (gv & _ & H). apply in_m2l_between in H.
  destruct H as [(id & ->)|(t0 & sr & ->)]; [apply okc_assert|].
  split; [left; reflexivity|cbn [lvl_ok]; lia].
Qed.

(* the pass selected by one flag value *)
Definition passk_tsm (d : nat) (per : bool) (s : Z) (src tgt : tree) (k : Z) : list call :=
  if k =? 2 then pass_P2M s src else if k =? 4 then pass_M2M d s src else if k =? 8 then tsm_pass_M2L d per s src tgt
  else if k =? 16 then pass_L2L d s tgt else if k =? 32 then pass_L2P s tgt
  else if k =? 1 then tsm_pass_P2P d per src tgt else [].

Lemma in_passk_tsm d per s src tgt k c : In c (passk_tsm d per s src tgt k) -> okc k s c.
Proof.
  unfold passk_tsm.
  destruct (Z.eqb_spec k 2) as [->|_]; [apply in_pass_P2M|].
  destruct (Z.eqb_spec k 4) as [->|_]; [apply in_pass_M2M|].
  destruct (Z.eqb_spec k 8) as [->|_]; [apply in_tsm_pass_M2L|].
  destruct (Z.eqb_spec k 16) as [->|_]; [apply in_pass_L2L|].
  destruct (Z.eqb_spec k 32) as [->|_]; [apply in_pass_L2P|].
  destruct (Z.eqb_spec k 1) as [->|_]; [apply in_tsm_pass_P2P|]. intros [].
Qed.

(* the part of an execute call selected by flag k in the flag word f, for an arbitrary family of passes *)
Definition gsel (pk : Z -> list call) (k f : Z) : list call := if has f k then pk k else [].

Lemma execute_tsm_sel d per stop f src tgt :
  execute_tsm d per stop f src tgt = flat_map (fun k => gsel (passk_tsm d per (Z.max 0 stop) src tgt) k f) all_flags.
Proof. unfold all_flags. cbn [flat_map]. rewrite app_nil_r. reflexivity. Qed.

Lemma in_execute_tsm d per stop f src tgt c : In c (execute_tsm d per stop f src tgt) ->
  exists k, has f k = true /\ okc k (Z.max 0 stop) c.
Proof.
  rewrite execute_tsm_sel. intros H. apply in_flat_map in H. destruct H as (k & _ & H).
  unfold gsel in H. destruct (has f k) eqn:E; [|destruct H].
  exists k. split; [exact E|]. apply in_passk_tsm in H. exact H.
Qed.

(* each flag triggers only its own operator *)
Theorem single_flag_only_tsm : forall d per s flags src tgt c,
  In c (execute_tsm d per s flags src tgt) -> (forall id, c <> CAssert id) -> has flags (op_flag c) = true.
Proof.
  intros d per s flags src tgt c H Hna. apply in_execute_tsm in H. destruct H as (k & Hk & (Hf & _)).
  destruct Hf as [Hf|Hf]; [rewrite Hf; exact Hk|].
  destruct c; cbn [op_flag] in Hf; try discriminate. exfalso. apply (Hna id). reflexivity.
Qed.

(* nothing above the upper working level *)
Theorem nothing_above_s_tsm : forall d per s flags src tgt c, In c (execute_tsm d per s flags src tgt) ->
  match c with CM2M l _ _ | CL2L l _ _ | CM2L l _ _ => Z.max 0 s <= l | _ => True end.
Proof.
  intros d per s flags src tgt c H. apply in_execute_tsm in H. destruct H as (k & _ & (_ & Hl)). exact Hl.
Qed.

(* ------------------------------------------------------------------ *)
(* 2. staged runs, for an arbitrary family of passes whose flag-1 pass  *)
(*    issues only near-field calls                                      *)
(* ------------------------------------------------------------------ *)
Section GStaged.
Variable L : Z.
Variable pk : Z -> list call.
Hypothesis pk_near : forall c, In c (pk 1) -> near c.

Notation sl := (gsel pk).

Lemma gchain_split h : forall ks, chain_ok h ks ->
  flat_map (fun f => flat_map (fun k => sl k f) ks) h = flat_map (fun k => flat_map (sl k) h) ks.
Proof.
  induction ks as [|k rest IH]; intros Hok.
  - cbn [flat_map]. apply flat_map_all_nil. reflexivity.
  - destruct Hok as ((i & Hi & Hrest) & Hok). cbn [flat_map].
    rewrite (flat_map_split (sl k) (fun f => flat_map (fun k' => sl k' f) rest)).
    + rewrite (IH Hok). reflexivity.
    + intros a b Hab.
      destruct (has (nth b h 0) k) eqn:Ek; [|right; unfold gsel; rewrite Ek; reflexivity].
      left. apply flat_map_all_nil. intros kb Hkb. unfold gsel.
      destruct (has (nth a h 0) kb) eqn:Eb; [|reflexivity]. exfalso.
      destruct (Hrest kb Hkb) as (ib & Hib & Hle).
      assert (b = i) by (apply (pos_unique k h); [exact Hi|lia|exact Ek]).
      assert (a = ib) by (apply (pos_unique kb h); [exact Hib|lia|exact Eb]). lia.
Qed.

Lemma gnear_sel1 f c : In c (sl 1 f) -> near c.
Proof. unfold gsel. destruct (has f 1); [|intros []]. apply pk_near. Qed.

(* the near-field blocks can be collected at the end *)
Lemma gnear_to_end : forall h,
  teq L (flat_map (fun f => flat_map (fun k => sl k f) all_flags) h)
        (flat_map (fun f => flat_map (fun k => sl k f) far_flags) h ++ flat_map (sl 1) h).
Proof.
  assert (Hsplit : forall f, flat_map (fun k => sl k f) all_flags = flat_map (fun k => sl k f) far_flags ++ sl 1 f).
  { intros f. change all_flags with (far_flags ++ [1]). rewrite flat_map_app. cbn [flat_map]. rewrite app_nil_r. reflexivity. }
  induction h as [|f r IH]; [apply teq_refl|].
  cbn [flat_map]. rewrite Hsplit.
  set (A := flat_map (fun k => sl k f) far_flags).
  set (N := sl 1 f).
  set (FA := flat_map (fun f => flat_map (fun k => sl k f) far_flags) r) in *.
  set (FN := flat_map (sl 1) r) in *.
  rewrite <- !app_assoc.
  apply teq_app; [apply teq_refl|].
  apply (teq_trans L _ (N ++ FA ++ FN)); [apply teq_app; [apply teq_refl|exact IH]|].
  rewrite !app_assoc. apply teq_app; [|apply teq_refl].
  apply near_swap. intros c Hc. apply (gnear_sel1 f). exact Hc.
Qed.

Lemma gsel_once k h i : pos_of k h = Some i -> flat_map (sl k) h = pk k.
Proof. intros Hp. unfold gsel. apply (flat_map_pos k _ h i). exact Hp. Qed.

Lemma gstaged_trace h : history_ok h ->
  teq L (flat_map (fun f => flat_map (fun k => sl k f) all_flags) h) (flat_map (fun k => sl k 63) all_flags).
Proof.
  intros Hok. destruct (history_chain h Hok) as (Hch & i1 & H1).
  apply (teq_trans L _ _ _ (gnear_to_end h)).
  rewrite (gchain_split h far_flags Hch).
  destruct Hok as (j1 & i2 & i3 & i4 & i5 & i6 & H2 & H4 & H8 & H16 & H32 & _ & _).
  unfold far_flags, all_flags. cbn [flat_map].
  rewrite (gsel_once 2 h i2 H2), (gsel_once 4 h i3 H4), (gsel_once 8 h i4 H8), (gsel_once 16 h i5 H16),
    (gsel_once 32 h i6 H32), (gsel_once 1 h i1 H1).
  rewrite <- !app_assoc. cbn [app]. rewrite app_nil_r.
  change (sl 2 63) with (pk 2). change (sl 4 63) with (pk 4).
  change (sl 8 63) with (pk 8). change (sl 16 63) with (pk 16).
  change (sl 32 63) with (pk 32). change (sl 1 63) with (pk 1).
  apply teq_refl.
Qed.

End GStaged.

Lemma passk_tsm_near d per s src tgt c : In c (passk_tsm d per s src tgt 1) -> near c.
Proof. intros H. apply in_passk_tsm in H. destruct H as [H _]. exact H. Qed.

Theorem staged_equals_full_tsm : forall d per L s src tgt h, history_ok h ->
  st_eq (run L (flat_map (fun f => execute_tsm d per s f src tgt) h) st0) (run L (execute_tsm d per s 63 src tgt) st0).
Proof.
  intros d per L s src tgt h Hok.
  rewrite execute_tsm_sel.
  rewrite (flat_map_ext (fun f => execute_tsm d per s f src tgt)
             (fun f => flat_map (fun k => gsel (passk_tsm d per (Z.max 0 s) src tgt) k f) all_flags))
    by (intros f; apply execute_tsm_sel).
  apply (gstaged_trace L (passk_tsm d per (Z.max 0 s) src tgt) (passk_tsm_near d per (Z.max 0 s) src tgt) h Hok).
  apply st_eq_refl.
Qed.

(* ------------------------------------------------------------------ *)
(* 3. the periodic four-step sequence is a staged history              *)
(* ------------------------------------------------------------------ *)
(* keep the calls on the real tree, drop the calls on the virtual cells above the root *)
Definition map_real (l : list pcall) : list call :=
  flat_map (fun p => match p with Real c => [c] | Top _ => [] end) l.

Lemma map_real_app a b : map_real (a ++ b) = map_real a ++ map_real b.
Proof. unfold map_real. apply flat_map_app. Qed.

Lemma map_real_Real l : map_real (map Real l) = l.
Proof. induction l as [|c l IH]; [reflexivity|]. cbn [map]. unfold map_real in *. cbn [flat_map app]. rewrite IH. reflexivity. Qed.

Lemma map_real_Top l : map_real (map Top l) = [].
Proof. induction l as [|c l IH]; [reflexivity|]. cbn [map]. unfold map_real in *. cbn [flat_map app]. exact IH. Qed.

Theorem periodic_run_real_is_staged : forall d k s t,
  map_real (periodic_run d k s t)
  = flat_map (fun f => execute d true s f t) [F_P2M + F_M2M; F_M2L + F_P2P; F_L2L + F_L2P].
Proof.
  intros d k s t. unfold periodic_run.
  rewrite !map_real_app, !map_real_Real, map_real_Top.
  cbn [flat_map app]. rewrite app_nil_r. reflexivity.
Qed.

Theorem periodic_history_ok : history_ok [6; 9; 48].
Proof. exact (proj1 history_examples). Qed.

Lemma periodic_flags_values : [F_P2M + F_M2M; F_M2L + F_P2P; F_L2L + F_L2P] = [6; 9; 48].
Proof. reflexivity. Qed.

Theorem periodic_real_equals_full : forall d k L s t,
  st_eq (run L (map_real (periodic_run d k s t)) st0) (run L (execute d true s 63 t) st0).
Proof.
  intros d k L s t. rewrite periodic_run_real_is_staged, periodic_flags_values.
  apply staged_equals_full. exact periodic_history_ok.
Qed.

(* the same for the target/source periodic sequence *)
Theorem periodic_run_tsm_real_is_staged : forall d k s src tgt,
  map_real (periodic_run_tsm d k s src tgt)
  = flat_map (fun f => execute_tsm d true s f src tgt) [F_P2M + F_M2M; F_M2L + F_P2P; F_L2L + F_L2P].
Proof.
  intros d k s src tgt. unfold periodic_run_tsm.
  rewrite !map_real_app, !map_real_Real, map_real_Top.
  cbn [flat_map app]. rewrite app_nil_r. reflexivity.
Qed.

Theorem periodic_tsm_real_equals_full : forall d k L s src tgt,
  st_eq (run L (map_real (periodic_run_tsm d k s src tgt)) st0) (run L (execute_tsm d true s 63 src tgt) st0).
Proof.
  intros d k L s src tgt. rewrite periodic_run_tsm_real_is_staged, periodic_flags_values.
  apply staged_equals_full_tsm. exact periodic_history_ok.
Qed.

(* ------------------------------------------------------------------ *)
(* 4. computed checks on small built trees (d = 1, H = 3)              *)
(* ------------------------------------------------------------------ *)
Definition t_src1 : tree := build (parent 1) 3 2 false [0; 0; 1; 3; 2; 3].
Definition t_tgt1 : tree := build (parent 1) 3 1 false [3; 1; 1; 0; 2].

(* bounded boolean version of st_eq: levels 0..3, cells 0..7, particles and ids 0..7 *)
Definition rng8 : list Z := [0; 1; 2; 3; 4; 5; 6; 7].
Definition cnt_eqb (a b : list Z) : bool :=
  forallb (fun q => Nat.eqb (count_occ Z.eq_dec a q) (count_occ Z.eq_dec b q)) rng8.
Definition st_eqb (a b : st) : bool :=
  forallb (fun l => forallb (fun x => cnt_eqb (s_mult a l x) (s_mult b l x) && cnt_eqb (s_loc a l x) (s_loc b l x)) rng8)
          [0; 1; 2; 3]
  && forallb (fun p => cnt_eqb (s_rhs a p) (s_rhs b p)) rng8.

Definition flag_okb (flags : Z) (c : call) : bool :=
  match c with CAssert _ => true | _ => has flags (op_flag c) end.
Definition lvl_okb (s : Z) (c : call) : bool :=
  match c with CM2M l _ _ | CL2L l _ _ | CM2L l _ _ => s <=? l | _ => true end.

Example check_single_flag_tsm :
  forallb (fun f => forallb (flag_okb f) (execute_tsm 1 false 1 f t_src1 t_tgt1)
                    && forallb (lvl_okb 1) (execute_tsm 1 false 1 f t_src1 t_tgt1)
                    && forallb (flag_okb f) (execute_tsm 1 true 0 f t_src1 t_tgt1))
          [1; 2; 4; 8; 16; 32; 6; 9; 48; 63; 0; 21; 42] = true.
Proof. vm_compute. reflexivity. Qed.

(* the full run is not trivial: something reaches the targets by the far and by the near field *)
Example check_tsm_nontrivial :
  negb (st_eqb (run 2 (execute_tsm 1 true 0 63 t_src1 t_tgt1) st0) (run 2 (execute_tsm 1 true 0 62 t_src1 t_tgt1) st0)) = true
  /\ negb (st_eqb (run 2 (execute_tsm 1 true 0 63 t_src1 t_tgt1) st0) (run 2 (execute_tsm 1 true 0 1 t_src1 t_tgt1) st0)) = true.
Proof. vm_compute. split; reflexivity. Qed.

Example check_staged_tsm :
  forallb (fun h => st_eqb (run 2 (flat_map (fun f => execute_tsm 1 true 0 f t_src1 t_tgt1) h) st0)
                           (run 2 (execute_tsm 1 true 0 63 t_src1 t_tgt1) st0)
                    && st_eqb (run 2 (flat_map (fun f => execute_tsm 1 false 1 f t_src1 t_tgt1) h) st0)
                              (run 2 (execute_tsm 1 false 1 63 t_src1 t_tgt1) st0))
          [[6; 9; 48]; [1; 2; 4; 8; 16; 32]; [6; 8; 48; 1]; [63]] = true
  (* an inadmissible history (downward pass first) is told apart *)
  /\ st_eqb (run 2 (flat_map (fun f => execute_tsm 1 true 0 f t_src1 t_tgt1) [48; 9; 6]) st0)
            (run 2 (execute_tsm 1 true 0 63 t_src1 t_tgt1) st0) = false.
Proof. vm_compute. split; reflexivity. Qed.

Example check_periodic_real :
  forallb (fun k => st_eqb (run 2 (map_real (periodic_run 1 k 1 t_src1)) st0) (run 2 (execute 1 true 1 63 t_src1) st0)
                    && st_eqb (run 2 (map_real (periodic_run_tsm 1 k 1 t_src1 t_tgt1)) st0)
                              (run 2 (execute_tsm 1 true 1 63 t_src1 t_tgt1) st0)
                    && negb (Nat.eqb (length (periodic_run 1 k 1 t_src1)) (length (map_real (periodic_run 1 k 1 t_src1)))))
          [0; 2] = true.
Proof. vm_compute. reflexivity. Qed.

Print Assumptions single_flag_only_tsm.
Print Assumptions nothing_above_s_tsm.
Print Assumptions staged_equals_full_tsm.
Print Assumptions periodic_run_real_is_staged.
Print Assumptions periodic_history_ok.
Print Assumptions periodic_real_equals_full.
Print Assumptions periodic_run_tsm_real_is_staged.
Print Assumptions periodic_tsm_real_equals_full.
