(* Geometry of the interaction / neighbour lists in the non-periodic case:
   coordinate characterisations of list membership, uniqueness of the sources in a list,
   one-sidedness of the upper-half neighbour lists, and the partition theorem
   "two leaves are either equal/adjacent, or their ancestors interact at exactly one level". *)
From Tbfmm Require Import Base.Prelude Index.MortonDefs Index.ListsDefs Index.ListsSpec
  Index.MortonProofs Index.MortonBits Index.ListsProofs.
From Coq Require Import ZifyBool Zify.
Local Open Scope Z_scope.
Ltac Zify.zify_post_hook ::= Z.div_mod_to_equations.

(* ------------------------------------------------------------------ *)
(* Definitions                                                         *)
(* ------------------------------------------------------------------ *)
(* ancestor at level l of leaf x *)
Definition anc (d : nat) (L l x : Z) : Z := x / 2 ^ ((L - l) * dz d).
Definition adjacent (d : nat) (l a b : Z) : Prop :=
  exists code, In (b, code) (nlist_spec d false l false a).
Definition far_at (d : nat) (L l a b : Z) : Prop :=
  exists code, In (anc d L l b, code) (ilist_spec d false l (anc d L l a)).

(* ------------------------------------------------------------------ *)
(* List helpers                                                        *)
(* ------------------------------------------------------------------ *)
Lemma Forall2_nthZ (P : Z -> Z -> Prop) : forall p q,
  Forall2 P p q <->
  (length p = length q /\ forall j, (j < length p)%nat -> P (nth j p 0) (nth j q 0)).
Proof.
  induction p as [|x p IH]; intros [|y q].
  - split; [intros _; split; [reflexivity|intros j Hj; cbn [length] in Hj; lia]|intros _; constructor].
  - split; [intros H; inversion H|intros [H _]; discriminate].
  - split; [intros H; inversion H|intros [H _]; discriminate].
  - split.
    + intros H. inversion H as [|? ? ? ? Hxy Hpq]; subst.
      apply IH in Hpq. destruct Hpq as [Hlen Hn].
      split; [cbn [length]; lia|]. intros j Hj.
      destruct j as [|j]; cbn [nth]; [exact Hxy|]. apply Hn. cbn [length] in Hj. lia.
    + intros [Hlen Hn]. cbn [length] in Hlen. constructor.
      * apply (Hn 0%nat). cbn [length]. lia.
      * apply IH. split; [lia|]. intros j Hj. apply (Hn (S j)). cbn [length]. lia.
Qed.

Lemma map_flat_map {A B C} (g : B -> C) (f : A -> list B) L :
  map g (flat_map f L) = flat_map (fun x => map g (f x)) L.
Proof.
  induction L as [|a L IH]; cbn [flat_map map]; [reflexivity|].
  rewrite map_app, IH. reflexivity.
Qed.

Lemma bounded_forall_dec (P : nat -> Prop) :
  (forall j, P j \/ ~ P j) ->
  forall n, (forall j, (j < n)%nat -> P j) \/ ~ (forall j, (j < n)%nat -> P j).
Proof.
  intros Hdec. induction n as [|n IH].
  - left. intros j Hj. lia.
  - destruct IH as [IH|IH].
    + destruct (Hdec n) as [Hn|Hn].
      * left. intros j Hj. destruct (Nat.eq_dec j n) as [->|Hne]; [exact Hn|apply IH; lia].
      * right. intros H. apply Hn. apply H. lia.
    + right. intros H. apply IH. intros j Hj. apply H. lia.
Qed.

Lemma first_switch (P : nat -> Prop) :
  (forall n, P n \/ ~ P n) ->
  forall n0, ~ P 0%nat -> P n0 -> exists k, (k < n0)%nat /\ ~ P k /\ P (S k).
Proof.
  intros Hdec. induction n0 as [|n IH]; intros H0 Hn.
  - contradiction.
  - destruct (Hdec n) as [Hp|Hp].
    + destruct (IH H0 Hp) as (k & Hk & H1 & H2). exists k. repeat split; [lia|exact H1|exact H2].
    + exists n. repeat split; [lia|exact Hp|exact Hn].
Qed.

Lemma forallb_eqb0_false o :
  forallb (Z.eqb 0) o = false -> existsb (fun x => negb (x =? 0)) o = true.
Proof.
  induction o as [|x o IH]; cbn [forallb existsb]; intros H; [discriminate|].
  destruct (Z.eqb_spec 0 x) as [<-|Hne].
  - cbn [andb] in H. rewrite (IH H). apply orb_true_r.
  - destruct (Z.eqb_spec x 0) as [->|_]; [contradiction Hne; reflexivity|reflexivity].
Qed.

(* ------------------------------------------------------------------ *)
(* Scalar facts                                                        *)
(* ------------------------------------------------------------------ *)
Lemma abs_half_3 x y : Z.abs (x / 2 - y / 2) <= 1 -> Z.abs (x - y) <= 3.
Proof. lia. Qed.

Lemma div_adj x y m : 0 < m -> Z.abs (x - y) <= 1 -> Z.abs (x / m - y / m) <= 1.
Proof.
  intros Hm H.
  assert (H1 : x / m <= y / m + 1).
  { rewrite <- (Z.div_add y 1 m) by lia. apply Z.div_le_mono; lia. }
  assert (H2 : y / m <= x / m + 1).
  { rewrite <- (Z.div_add x 1 m) by lia. apply Z.div_le_mono; lia. }
  lia.
Qed.

Lemma pow2_pos k : 0 <= k -> 0 < 2 ^ k.
Proof. intros H. apply Z.pow_pos_nonneg; lia. Qed.

Lemma div_pow2_add x k k' : 0 <= k -> 0 <= k' -> x / 2 ^ k / 2 ^ k' = x / 2 ^ (k + k').
Proof.
  intros Hk Hk'. rewrite Z.pow_add_r by assumption.
  apply Z.div_div; [pose proof (pow2_pos k Hk); lia|apply pow2_pos; exact Hk'].
Qed.

Lemma div_pow2_half x k : 0 <= k -> x / 2 ^ k / 2 = x / 2 ^ (k + 1).
Proof. intros Hk. change 2 with (2 ^ 1) at 2. apply div_pow2_add; lia. Qed.

(* ------------------------------------------------------------------ *)
(* Offsets between two cells                                           *)
(* ------------------------------------------------------------------ *)
Definition off (d : nat) (a b : Z) : list Z := map2 Z.sub (unbox d b) (unbox d a).

Section Off.
Variable d : nat.
Hypothesis Hd : (0 < d)%nat.

Lemma off_length a b : length (off d a b) = d.
Proof.
  unfold off. rewrite map2_length by (rewrite !unbox_length; reflexivity). apply unbox_length.
Qed.

Lemma off_nth a b j : (j < d)%nat ->
  nth j (off d a b) 0 = nth j (unbox d b) 0 - nth j (unbox d a) 0.
Proof.
  intros Hj. unfold off.
  apply (map2_nth Z.sub 0 0 0); rewrite !unbox_length; [reflexivity|exact Hj].
Qed.

Lemma add_off a b : map2 Z.add (unbox d a) (off d a b) = unbox d b.
Proof.
  apply nth_ext with (d := 0) (d' := 0).
  - rewrite map2_length by (rewrite off_length, unbox_length; reflexivity).
    rewrite !unbox_length. reflexivity.
  - intros j Hj.
    rewrite map2_length in Hj by (rewrite off_length, unbox_length; reflexivity).
    rewrite unbox_length in Hj.
    rewrite (map2_nth Z.add 0 0 0) by (rewrite ?off_length, ?unbox_length; solve [reflexivity|exact Hj]).
    rewrite off_nth by exact Hj. lia.
Qed.

Lemma off_opp a b : off d b a = map Z.opp (off d a b).
Proof.
  apply nth_ext with (d := 0) (d' := 0).
  - rewrite map_length, !off_length. reflexivity.
  - intros j Hj. rewrite off_length in Hj.
    rewrite (nth_map0 Z.opp) by reflexivity.
    rewrite !off_nth by exact Hj. lia.
Qed.

Lemma unbox_inj a b : 0 <= a -> 0 <= b -> unbox d a = unbox d b -> a = b.
Proof.
  intros Ha Hb E. rewrite <- (box_unbox d a Hd Ha), <- (box_unbox d b Hd Hb), E. reflexivity.
Qed.

Lemma off_zero a b : 0 <= a -> 0 <= b ->
  (forallb (Z.eqb 0) (off d a b) = true <-> a = b).
Proof.
  intros Ha Hb. rewrite forallb_nth, off_length. split.
  - intros H. apply unbox_inj; [exact Ha|exact Hb|].
    apply nth_ext with (d := 0) (d' := 0); [rewrite !unbox_length; reflexivity|].
    intros j Hj. rewrite unbox_length in Hj. specialize (H j Hj).
    rewrite off_nth in H by exact Hj. lia.
  - intros <- j Hj. rewrite off_nth by exact Hj. lia.
Qed.

Lemma in_grid_nthZ l u :
  in_grid l u = true <-> forall j, (j < length u)%nat -> 0 <= nth j u 0 < 2 ^ l.
Proof.
  unfold in_grid. rewrite forallb_nth.
  split; intros H j Hj; specialize (H j Hj); cbv beta in *; lia.
Qed.

Lemma in_grid_unbox l b : 0 <= l -> 0 <= b < 2 ^ (l * dz d) -> in_grid l (unbox d b) = true.
Proof.
  intros Hl Hb. apply in_grid_nthZ. intros j Hj. rewrite unbox_length in Hj.
  apply (unbox_coords d l b Hd Hl Hb). exact Hj.
Qed.

(* the heart of list membership: a grid point [c + o] is cell [b] iff [o] is the offset to [b] *)
Lemma box_eq l a b o : 0 <= b -> length o = d ->
  in_grid l (map2 Z.add (unbox d a) o) = true ->
  (box d (map2 Z.add (unbox d a) o) = b <-> o = off d a b).
Proof.
  intros Hb Hlen Hg.
  assert (Hul : length (map2 Z.add (unbox d a) o) = d).
  { rewrite map2_length by (rewrite unbox_length; lia). apply unbox_length. }
  assert (Hnn : Forall (fun x => 0 <= x) (map2 Z.add (unbox d a) o)).
  { apply Forall_nthZ. intros j Hj. apply in_grid_nthZ with (j := j) in Hg; [lia|exact Hj]. }
  split.
  - intros E. unfold off. rewrite <- E. rewrite unbox_box by assumption.
    symmetry. apply map2_add_sub. rewrite unbox_length. lia.
  - intros ->. rewrite add_off. apply box_unbox; assumption.
Qed.

Lemma off_box l a o : length o = d ->
  in_grid l (map2 Z.add (unbox d a) o) = true ->
  off d a (box d (map2 Z.add (unbox d a) o)) = o.
Proof.
  intros Hlen Hg.
  assert (Hul : length (map2 Z.add (unbox d a) o) = d).
  { rewrite map2_length by (rewrite unbox_length; lia). apply unbox_length. }
  assert (Hnn : Forall (fun x => 0 <= x) (map2 Z.add (unbox d a) o)).
  { apply Forall_nthZ. intros j Hj. apply in_grid_nthZ with (j := j) in Hg; [lia|exact Hj]. }
  unfold off. rewrite unbox_box by assumption.
  apply map2_add_sub. rewrite unbox_length. lia.
Qed.

(* ------------------------------------------------------------------ *)
(* Membership in the specification lists                               *)
(* ------------------------------------------------------------------ *)
Lemma nlist_mem l upper a b code : 0 <= l -> 0 <= b < 2 ^ (l * dz d) ->
  In (b, code) (nlist_spec d false l upper a) <->
  (In (off d a b) (cube d (-1) 1) /\ forallb (Z.eqb 0) (off d a b) = false /\
   upper && negb (lex_positive d (off d a b)) = false /\ code = enc3 (off d a b)).
Proof.
  intros Hl Hb. unfold nlist_spec. rewrite in_flat_map. cbv beta iota zeta. split.
  - intros (o & Ho & Hin).
    destruct (forallb (Z.eqb 0) o) eqn:Ez; [destruct Hin|].
    destruct (upper && negb (lex_positive d o)) eqn:Eu; [destruct Hin|].
    destruct (in_grid l (map2 Z.add (unbox d a) o)) eqn:Eg; [|destruct Hin].
    destruct Hin as [E|[]]. injection E as E1 E2.
    assert (Hlen : length o = d) by (apply cube_Forall in Ho; tauto).
    apply (box_eq l a b o) in E1; [|lia|exact Hlen|exact Eg]. subst o.
    repeat split; [exact Ho|exact Ez|exact Eu|symmetry; exact E2].
  - intros (H1 & H2 & H3 & ->). exists (off d a b). split; [exact H1|].
    rewrite H2, H3, add_off, (in_grid_unbox l b Hl Hb).
    left. rewrite box_unbox by (try exact Hd; lia). reflexivity.
Qed.

Lemma ilist_mem l a b code : 0 <= l -> 0 <= b < 2 ^ (l * dz d) ->
  In (b, code) (ilist_spec d false l a) <->
  (2 <= l /\ In (off d a b) (cube d (-3) 3) /\ too_close (off d a b) = false /\
   parents_adjacent (unbox d a) (unbox d b) = true /\ code = enc7 (off d a b)).
Proof.
  intros Hl Hb. unfold ilist_spec, ilist_active. cbv beta iota zeta.
  destruct (Z.leb_spec 2 l) as [H2|H2]; cbn [negb].
  - rewrite in_flat_map. split.
    + intros (o & Ho & Hin).
      destruct (too_close o) eqn:Ez; [destruct Hin|].
      destruct (parents_adjacent (unbox d a) (map2 Z.add (unbox d a) o)) eqn:Ep;
        cbn [negb] in Hin; [|destruct Hin].
      destruct (in_grid l (map2 Z.add (unbox d a) o)) eqn:Eg; [|destruct Hin].
      destruct Hin as [E|[]]. injection E as E1 E2.
      assert (Hlen : length o = d) by (apply cube_Forall in Ho; tauto).
      apply (box_eq l a b o) in E1; [|lia|exact Hlen|exact Eg]. subst o.
      rewrite add_off in Ep.
      repeat split; [exact H2|exact Ho|exact Ez|exact Ep|symmetry; exact E2].
    + intros (_ & H1 & H3 & H4 & ->). exists (off d a b). split; [exact H1|].
      rewrite H3, add_off, H4, (in_grid_unbox l b Hl Hb). cbn [negb].
      left. rewrite box_unbox by (try exact Hd; lia). reflexivity.
  - split; [intros []|intros (H & _); lia].
Qed.

Lemma parents_adjacent_nth c u : length c = d -> length u = d ->
  (parents_adjacent c u = true <->
   forall j, (j < d)%nat -> Z.abs (nth j c 0 / 2 - nth j u 0 / 2) <= 1).
Proof.
  intros Hc Hu. unfold parents_adjacent. rewrite forallb_nth.
  rewrite map2_length by (rewrite !map_length; lia). rewrite map_length, Hu.
  split; intros H j Hj; specialize (H j Hj).
  - rewrite (map2_nth Z.sub 0 0 0) in H by (rewrite !map_length; lia).
    rewrite !(nth_map0 (fun x => x / 2)) in H by reflexivity. lia.
  - rewrite (map2_nth Z.sub 0 0 0) by (rewrite !map_length; lia).
    rewrite !(nth_map0 (fun x => x / 2)) by reflexivity. lia.
Qed.

Lemma too_close_nth o : length o = d ->
  (too_close o = true <-> forall j, (j < d)%nat -> Z.abs (nth j o 0) <= 1).
Proof.
  intros Ho. unfold too_close. rewrite forallb_nth, Ho.
  split; intros H j Hj; specialize (H j Hj); cbv beta in *; lia.
Qed.

(* ------------------------------------------------------------------ *)
(* Coordinate characterisations (nth form)                             *)
(* ------------------------------------------------------------------ *)
Definition near_n (a b : Z) : Prop :=
  forall j, (j < d)%nat -> Z.abs (nth j (unbox d a) 0 - nth j (unbox d b) 0) <= 1.
Definition pnear_n (a b : Z) : Prop :=
  forall j, (j < d)%nat -> Z.abs (nth j (unbox d a) 0 / 2 - nth j (unbox d b) 0 / 2) <= 1.

Lemma in_cube1_near a b : In (off d a b) (cube d (-1) 1) <-> near_n a b.
Proof.
  rewrite In_cube. unfold near_n. split.
  - intros [_ H] j Hj. specialize (H j Hj). rewrite off_nth in H by exact Hj. lia.
  - intros H. split; [apply off_length|]. intros j Hj. specialize (H j Hj).
    rewrite off_nth by exact Hj. lia.
Qed.

Lemma adjacent_nth l a b : 0 <= l -> 0 <= a < 2 ^ (l * dz d) -> 0 <= b < 2 ^ (l * dz d) ->
  (adjacent d l a b <-> (a <> b /\ near_n a b)).
Proof.
  intros Hl Ha Hb. unfold adjacent. split.
  - intros (code & Hin). apply nlist_mem in Hin; [|exact Hl|exact Hb].
    destruct Hin as (H1 & H2 & _ & _). split.
    + intros E. apply (off_zero a b) in E; [congruence|lia|lia].
    + apply in_cube1_near. exact H1.
  - intros [Hne Hn]. exists (enc3 (off d a b)). apply nlist_mem; [exact Hl|exact Hb|].
    split; [apply in_cube1_near; exact Hn|]. split; [|split; reflexivity].
    destruct (forallb (Z.eqb 0) (off d a b)) eqn:E; [|reflexivity].
    apply off_zero in E; [contradiction|lia|lia].
Qed.

Lemma ilist_member_nth l a b : 0 <= l -> 0 <= a < 2 ^ (l * dz d) -> 0 <= b < 2 ^ (l * dz d) ->
  ((exists code, In (b, code) (ilist_spec d false l a)) <->
   (pnear_n a b /\ ~ near_n a b /\ 2 <= l)).
Proof.
  intros Hl Ha Hb. split.
  - intros (code & Hin). apply ilist_mem in Hin; [|exact Hl|exact Hb].
    destruct Hin as (H2 & H1 & H3 & H4 & _).
    split; [|split; [|exact H2]].
    + unfold pnear_n. apply parents_adjacent_nth; [apply unbox_length|apply unbox_length|exact H4].
    + intros Hn. assert (E : too_close (off d a b) = true).
      { apply too_close_nth; [apply off_length|]. intros j Hj. specialize (Hn j Hj).
        rewrite off_nth by exact Hj. lia. }
      congruence.
  - intros (Hp & Hnn & H2). exists (enc7 (off d a b)).
    apply ilist_mem; [exact Hl|exact Hb|].
    split; [exact H2|]. split; [|split; [|split; [|reflexivity]]].
    + apply In_cube. split; [apply off_length|]. intros j Hj. specialize (Hp j Hj).
      rewrite off_nth by exact Hj. apply abs_half_3 in Hp. lia.
    + destruct (too_close (off d a b)) eqn:E; [|reflexivity]. exfalso. apply Hnn.
      intros j Hj. apply too_close_nth with (j := j) in E; [|apply off_length|exact Hj].
      rewrite off_nth in E by exact Hj. lia.
    + apply parents_adjacent_nth; [apply unbox_length|apply unbox_length|exact Hp].
Qed.

Lemma near_n_F2 a b :
  near_n a b <-> Forall2 (fun x y => Z.abs (x - y) <= 1) (unbox d a) (unbox d b).
Proof.
  rewrite Forall2_nthZ, !unbox_length. unfold near_n. tauto.
Qed.

Lemma pnear_n_F2 a b :
  pnear_n a b <-> Forall2 (fun x y => Z.abs (x / 2 - y / 2) <= 1) (unbox d a) (unbox d b).
Proof.
  rewrite Forall2_nthZ, !unbox_length. unfold pnear_n. tauto.
Qed.

End Off.

(* ------------------------------------------------------------------ *)
(* Theorems: coordinate characterisations                              *)
(* ------------------------------------------------------------------ *)
Theorem adjacent_coords : forall d l a b, (0 < d)%nat -> 0 <= l ->
  0 <= a < 2 ^ (l * dz d) -> 0 <= b < 2 ^ (l * dz d) ->
  (adjacent d l a b <->
   (a <> b /\ Forall2 (fun x y => Z.abs (x - y) <= 1) (unbox d a) (unbox d b))).
Proof.
  intros d l a b Hd Hl Ha Hb. rewrite <- near_n_F2. apply adjacent_nth; assumption.
Qed.

Theorem ilist_member_coords : forall d l a b, (0 < d)%nat -> 0 <= l ->
  0 <= a < 2 ^ (l * dz d) -> 0 <= b < 2 ^ (l * dz d) ->
  ((exists code, In (b, code) (ilist_spec d false l a)) <->
   (Forall2 (fun x y => Z.abs (x / 2 - y / 2) <= 1) (unbox d a) (unbox d b) /\
    ~ Forall2 (fun x y => Z.abs (x - y) <= 1) (unbox d a) (unbox d b) /\ 2 <= l)).
Proof.
  intros d l a b Hd Hl Ha Hb. rewrite <- near_n_F2, <- pnear_n_F2.
  apply ilist_member_nth; assumption.
Qed.

(* ------------------------------------------------------------------ *)
(* Each source appears once                                            *)
(* ------------------------------------------------------------------ *)
Theorem ilist_spec_nodup : forall d l a, (0 < d)%nat -> 0 <= l ->
  0 <= a < 2 ^ (l * dz d) -> NoDup (map fst (ilist_spec d false l a)).
Proof.
  intros d l a Hd Hl Ha. unfold ilist_spec. cbv beta iota zeta.
  destruct (negb (ilist_active false l)); [constructor|].
  rewrite map_flat_map.
  apply NoDup_flat_map_g with (g := off d a).
  - apply NoDup_odometer.
  - intros o _.
    destruct (too_close o); [constructor|].
    destruct (negb (parents_adjacent (unbox d a) (map2 Z.add (unbox d a) o))); [constructor|].
    destruct (in_grid l (map2 Z.add (unbox d a) o)); [|constructor].
    cbn [map]. constructor; [intros []|constructor].
  - intros o y Ho Hy.
    assert (Hlen : length o = d) by (apply cube_Forall in Ho; tauto).
    destruct (too_close o); [destruct Hy|].
    destruct (negb (parents_adjacent (unbox d a) (map2 Z.add (unbox d a) o))); [destruct Hy|].
    destruct (in_grid l (map2 Z.add (unbox d a) o)) eqn:Eg; [|destruct Hy].
    cbn [map fst In] in Hy. destruct Hy as [<-|[]].
    apply (off_box d Hd l); assumption.
Qed.

Theorem nlist_spec_nodup : forall d l upper a, (0 < d)%nat -> 0 <= l ->
  0 <= a < 2 ^ (l * dz d) -> NoDup (map fst (nlist_spec d false l upper a)).
Proof.
  intros d l upper a Hd Hl Ha. unfold nlist_spec. cbv beta iota zeta.
  rewrite map_flat_map.
  apply NoDup_flat_map_g with (g := off d a).
  - apply NoDup_odometer.
  - intros o _.
    destruct (forallb (Z.eqb 0) o); [constructor|].
    destruct (upper && negb (lex_positive d o)); [constructor|].
    destruct (in_grid l (map2 Z.add (unbox d a) o)); [|constructor].
    cbn [map]. constructor; [intros []|constructor].
  - intros o y Ho Hy.
    assert (Hlen : length o = d) by (apply cube_Forall in Ho; tauto).
    destruct (forallb (Z.eqb 0) o); [destruct Hy|].
    destruct (upper && negb (lex_positive d o)); [destruct Hy|].
    destruct (in_grid l (map2 Z.add (unbox d a) o)) eqn:Eg; [|destruct Hy].
    cbn [map fst In] in Hy. destruct Hy as [<-|[]].
    apply (off_box d Hd l); assumption.
Qed.

(* ------------------------------------------------------------------ *)
(* Upper-half lists see each adjacent pair from exactly one side       *)
(* ------------------------------------------------------------------ *)
Lemma upper_mem d l a b : (0 < d)%nat -> 0 <= l ->
  0 <= a < 2 ^ (l * dz d) -> 0 <= b < 2 ^ (l * dz d) -> adjacent d l a b ->
  ((exists code, In (b, code) (nlist_spec d false l true a)) <->
   lex_positive d (off d a b) = true).
Proof.
  intros Hd Hl Ha Hb (c0 & Hadj).
  apply (nlist_mem d Hd) in Hadj; [|exact Hl|exact Hb].
  destruct Hadj as (H1 & H2 & _ & _). split.
  - intros (code & Hin). apply (nlist_mem d Hd) in Hin; [|exact Hl|exact Hb].
    destruct Hin as (_ & _ & H3 & _). cbn [andb] in H3.
    destruct (lex_positive d (off d a b)); [reflexivity|discriminate].
  - intros Hp. exists (enc3 (off d a b)). apply (nlist_mem d Hd); [exact Hl|exact Hb|].
    repeat split; [exact H1|exact H2|]. rewrite Hp. reflexivity.
Qed.

Lemma adjacent_sym d l a b : (0 < d)%nat -> 0 <= l ->
  0 <= a < 2 ^ (l * dz d) -> 0 <= b < 2 ^ (l * dz d) -> adjacent d l a b -> adjacent d l b a.
Proof.
  intros Hd Hl Ha Hb H.
  apply (adjacent_nth d Hd l a b Hl Ha Hb) in H. destruct H as [Hne Hn].
  apply (adjacent_nth d Hd l b a Hl Hb Ha). split; [congruence|].
  intros j Hj. specialize (Hn j Hj). lia.
Qed.

Lemma lex_positive_opp d a b l : (0 < d)%nat -> 0 <= l ->
  0 <= b < 2 ^ (l * dz d) -> adjacent d l a b ->
  lex_positive d (off d b a) = negb (lex_positive d (off d a b)).
Proof.
  intros Hd Hl Hb (c0 & Hadj).
  apply (nlist_mem d Hd) in Hadj; [|exact Hl|exact Hb].
  destruct Hadj as (H1 & H2 & _ & _).
  apply cube_Forall in H1. destruct H1 as [Hlen HF].
  assert (HF' : Forall (fun x => -1 <= x <= 1) (map Z.opp (off d a b))).
  { apply Forall_forall. intros x Hx. apply in_map_iff in Hx. destruct Hx as (y & <- & Hy).
    rewrite Forall_forall in HF. specialize (HF y Hy). cbv beta in HF. lia. }
  rewrite (off_opp d Hd a b).
  rewrite (upper_half d _ ltac:(rewrite map_length; exact Hlen) HF').
  rewrite (upper_half d _ Hlen HF).
  apply upper_half_antisym; [exact HF|]. apply forallb_eqb0_false. exact H2.
Qed.

Theorem upper_one_side : forall d l a b, (0 < d)%nat -> 0 <= l ->
  0 <= a < 2 ^ (l * dz d) -> 0 <= b < 2 ^ (l * dz d) ->
  a <> b -> adjacent d l a b ->
  ((exists code, In (b, code) (nlist_spec d false l true a)) <->
   ~ (exists code, In (a, code) (nlist_spec d false l true b))).
Proof.
  intros d l a b Hd Hl Ha Hb Hne Hadj.
  pose proof (adjacent_sym d l a b Hd Hl Ha Hb Hadj) as Hadj'.
  rewrite (upper_mem d l a b Hd Hl Ha Hb Hadj).
  rewrite (upper_mem d l b a Hd Hl Hb Ha Hadj').
  rewrite (lex_positive_opp d a b l Hd Hl Hb Hadj).
  destruct (lex_positive d (off d a b)); cbn [negb]; split; intros H;
    try reflexivity; try discriminate; try (intros H'; discriminate); exfalso; apply H; reflexivity.
Qed.

(* ------------------------------------------------------------------ *)
(* Ancestors                                                           *)
(* ------------------------------------------------------------------ *)
Lemma unbox_div_pow d x : (0 < d)%nat -> 0 <= x -> forall n : nat,
  unbox d (x / 2 ^ (Z.of_nat n * dz d)) = map (fun c => c / 2 ^ Z.of_nat n) (unbox d x).
Proof.
  intros Hd Hx. pose proof (dz_nonneg d) as Hdz.
  induction n as [|n IH].
  - cbn [Z.of_nat]. rewrite Z.mul_0_l, Z.pow_0_r, Z.div_1_r.
    rewrite <- (map_id (unbox d x)) at 1. apply map_ext. intros c. rewrite Z.div_1_r. reflexivity.
  - replace (Z.of_nat (S n) * dz d) with (Z.of_nat n * dz d + dz d) by lia.
    rewrite <- div_pow2_add by nia.
    rewrite <- parent_div.
    rewrite parent_contains; [|exact Hd|apply Z.div_pos; [exact Hx|apply pow2_pos; nia]].
    rewrite IH, map_map. apply map_ext. intros c.
    rewrite div_pow2_half by lia. f_equal. f_equal. lia.
Qed.

Lemma anc_nth d L l x j : (0 < d)%nat -> 0 <= l <= L -> 0 <= x -> (j < d)%nat ->
  nth j (unbox d (anc d L l x)) 0 = nth j (unbox d x) 0 / 2 ^ (L - l).
Proof.
  intros Hd Hl Hx Hj. unfold anc.
  replace (L - l) with (Z.of_nat (Z.to_nat (L - l))) by lia.
  rewrite unbox_div_pow by assumption.
  apply (nth_map0 (fun c => c / 2 ^ Z.of_nat (Z.to_nat (L - l)))). apply Zdiv_0_l.
Qed.

Lemma anc_range d L l x : 0 <= l -> 0 <= x < 2 ^ (L * dz d) ->
  0 <= anc d L l x < 2 ^ (l * dz d).
Proof.
  intros Hl Hx. pose proof (dz_nonneg d) as Hdz. unfold anc.
  assert (Hpl : 0 < 2 ^ (l * dz d)) by (apply pow2_pos; nia).
  destruct (Z_le_gt_dec l L) as [HlL|HlL].
  - assert (Hp : 0 < 2 ^ ((L - l) * dz d)) by (apply pow2_pos; nia).
    split; [apply Z.div_pos; lia|].
    apply Z.div_lt_upper_bound; [exact Hp|].
    rewrite <- Z.pow_add_r by nia.
    replace ((L - l) * dz d + l * dz d) with (L * dz d) by lia. lia.
  - destruct (Z.eq_dec (dz d) 0) as [E|E].
    + rewrite E, !Z.mul_0_r in *. cbn in Hx |- *. rewrite Z.div_1_r. lia.
    + rewrite Z.pow_neg_r by nia. rewrite Zdiv_0_r. lia.
Qed.

(* ------------------------------------------------------------------ *)
(* Adjacency at height k above the leaves                              *)
(* ------------------------------------------------------------------ *)
Definition adjk (d : nat) (a b k : Z) : Prop :=
  forall j, (j < d)%nat ->
    Z.abs (nth j (unbox d a) 0 / 2 ^ k - nth j (unbox d b) 0 / 2 ^ k) <= 1.

Lemma adjk_dec d a b k : adjk d a b k \/ ~ adjk d a b k.
Proof.
  unfold adjk. apply bounded_forall_dec. intros j.
  destruct (Z_le_dec (Z.abs (nth j (unbox d a) 0 / 2 ^ k - nth j (unbox d b) 0 / 2 ^ k)) 1);
    [left|right]; assumption.
Qed.

Lemma adjk_mono d a b k k' : 0 <= k <= k' -> adjk d a b k -> adjk d a b k'.
Proof.
  intros Hk H j Hj. specialize (H j Hj).
  replace k' with (k + (k' - k)) by lia.
  rewrite <- !div_pow2_add by lia.
  apply div_adj; [apply pow2_pos; lia|exact H].
Qed.

Lemma adjk_sym d a b k : adjk d a b k -> adjk d b a k.
Proof. intros H j Hj. specialize (H j Hj). lia. Qed.

Lemma adjk_top d L a b k : (0 < d)%nat -> 0 <= L -> 0 <= k -> L - 1 <= k ->
  0 <= a < 2 ^ (L * dz d) -> 0 <= b < 2 ^ (L * dz d) -> adjk d a b k.
Proof.
  intros Hd HL Hk HLk Ha Hb j Hj.
  pose proof (proj2 (unbox_coords d L a Hd HL Ha) j Hj) as Hca.
  pose proof (proj2 (unbox_coords d L b Hd HL Hb) j Hj) as Hcb.
  assert (Hp : 0 < 2 ^ k) by (apply pow2_pos; exact Hk).
  assert (Hle : 2 ^ L <= 2 ^ k * 2).
  { replace (2 ^ k * 2) with (2 ^ (k + 1)) by (rewrite Z.pow_add_r by lia; reflexivity).
    apply Z.pow_le_mono_r; lia. }
  assert (Ha2 : 0 <= nth j (unbox d a) 0 / 2 ^ k < 2).
  { split; [apply Z.div_pos; lia|apply Z.div_lt_upper_bound; lia]. }
  assert (Hb2 : 0 <= nth j (unbox d b) 0 / 2 ^ k < 2).
  { split; [apply Z.div_pos; lia|apply Z.div_lt_upper_bound; lia]. }
  lia.
Qed.

Lemma adjk_0 d L a b : (0 < d)%nat -> 0 <= L ->
  0 <= a < 2 ^ (L * dz d) -> 0 <= b < 2 ^ (L * dz d) ->
  (adjk d a b 0 <-> (a = b \/ adjacent d L a b)).
Proof.
  intros Hd HL Ha Hb.
  assert (E : adjk d a b 0 <-> near_n d a b).
  { unfold adjk, near_n. split; intros H j Hj; specialize (H j Hj);
      rewrite ?Z.pow_0_r, ?Z.div_1_r in *; exact H. }
  rewrite E, (adjacent_nth d Hd L a b HL Ha Hb). split.
  - intros H. destruct (Z.eq_dec a b) as [Hab|Hab]; [left; exact Hab|right; split; assumption].
  - intros [<-|[_ H]]; [|exact H]. intros j Hj. lia.
Qed.

Lemma far_at_adjk d L l a b : (0 < d)%nat -> 0 <= l <= L ->
  0 <= a < 2 ^ (L * dz d) -> 0 <= b < 2 ^ (L * dz d) ->
  (far_at d L l a b <-> (adjk d a b (L - l + 1) /\ ~ adjk d a b (L - l) /\ 2 <= l)).
Proof.
  intros Hd Hl Ha Hb. unfold far_at.
  rewrite (ilist_member_nth d Hd l (anc d L l a) (anc d L l b));
    [|lia|apply anc_range; [lia|exact Ha]|apply anc_range; [lia|exact Hb]].
  assert (E1 : pnear_n d (anc d L l a) (anc d L l b) <-> adjk d a b (L - l + 1)).
  { unfold pnear_n, adjk. split; intros H j Hj; specialize (H j Hj).
    - rewrite !anc_nth in H by (try assumption; lia).
      rewrite !div_pow2_half in H by lia. exact H.
    - rewrite !anc_nth by (try assumption; lia).
      rewrite !div_pow2_half by lia. exact H. }
  assert (E2 : near_n d (anc d L l a) (anc d L l b) <-> adjk d a b (L - l)).
  { unfold near_n, adjk. split; intros H j Hj; specialize (H j Hj).
    - rewrite !anc_nth in H by (try assumption; lia). exact H.
    - rewrite !anc_nth by (try assumption; lia). exact H. }
  rewrite E1, E2. reflexivity.
Qed.

(* ------------------------------------------------------------------ *)
(* Main theorem                                                        *)
(* ------------------------------------------------------------------ *)
Theorem near_xor_far_once : forall d L s a b, (0 < d)%nat -> 0 <= L -> 0 <= s <= 2 ->
  0 <= a < 2 ^ (L * dz d) -> 0 <= b < 2 ^ (L * dz d) ->
  ((a = b \/ adjacent d L a b) /\ forall l, s <= l <= L -> ~ far_at d L l a b)
  \/ (~ (a = b \/ adjacent d L a b) /\
      exists l, s <= l <= L /\ far_at d L l a b /\
                forall l', s <= l' <= L -> far_at d L l' a b -> l' = l).
Proof.
  intros d L s a b Hd HL Hs Ha Hb.
  pose proof (adjk_0 d L a b Hd HL Ha Hb) as H0.
  destruct (adjk_dec d a b 0) as [Hadj|Hnadj].
  - left. split; [apply H0; exact Hadj|].
    intros l Hl Hfar. apply (far_at_adjk d L l a b Hd) in Hfar; [|lia|exact Ha|exact Hb].
    destruct Hfar as (_ & Hn & _). apply Hn.
    apply (adjk_mono d a b 0); [lia|exact Hadj].
  - right. split; [rewrite <- H0; exact Hnadj|].
    set (P := fun n : nat => adjk d a b (Z.of_nat n)).
    assert (Htop : P (Z.to_nat (L - 1))).
    { unfold P. apply (adjk_top d L); try assumption; lia. }
    destruct (first_switch P (fun n => adjk_dec d a b (Z.of_nat n)) _ Hnadj Htop)
      as (k & Hk & Hnk & HSk).
    unfold P in Hnk, HSk.
    exists (L - Z.of_nat k). split; [lia|]. split.
    + apply (proj2 (far_at_adjk d L (L - Z.of_nat k) a b Hd ltac:(lia) Ha Hb)).
      replace (L - (L - Z.of_nat k) + 1) with (Z.of_nat (S k)) by lia.
      replace (L - (L - Z.of_nat k)) with (Z.of_nat k) by lia.
      split; [exact HSk|]. split; [exact Hnk|lia].
    + intros l' Hl' Hfar. apply (far_at_adjk d L l' a b Hd) in Hfar; [|lia|exact Ha|exact Hb].
      destruct Hfar as (H1 & H2 & H3).
      destruct (Z_lt_le_dec (L - l') (Z.of_nat k)) as [Hlt|Hge].
      * exfalso. apply Hnk. apply (adjk_mono d a b (L - l' + 1)); [lia|exact H1].
      * destruct (Z.eq_dec (L - l') (Z.of_nat k)) as [E|E]; [lia|].
        exfalso. apply H2. apply (adjk_mono d a b (Z.of_nat (S k))); [lia|exact HSk].
Qed.

(* ------------------------------------------------------------------ *)
(* Symmetry                                                            *)
(* ------------------------------------------------------------------ *)
Lemma ilist_member_sym d l a b : (0 < d)%nat -> 0 <= l ->
  0 <= a < 2 ^ (l * dz d) -> 0 <= b < 2 ^ (l * dz d) ->
  ((exists code, In (b, code) (ilist_spec d false l a)) <->
   (exists code, In (a, code) (ilist_spec d false l b))).
Proof.
  intros Hd Hl Ha Hb.
  rewrite (ilist_member_nth d Hd l a b Hl Ha Hb), (ilist_member_nth d Hd l b a Hl Hb Ha).
  assert (E1 : pnear_n d a b <-> pnear_n d b a).
  { unfold pnear_n. split; intros H j Hj; specialize (H j Hj); lia. }
  assert (E2 : near_n d a b <-> near_n d b a).
  { unfold near_n. split; intros H j Hj; specialize (H j Hj); lia. }
  rewrite E1, E2. reflexivity.
Qed.

Theorem far_at_sym : forall d L l a b, (0 < d)%nat -> 0 <= l ->
  0 <= a < 2 ^ (L * dz d) -> 0 <= b < 2 ^ (L * dz d) ->
  (far_at d L l a b <-> far_at d L l b a).
Proof.
  intros d L l a b Hd Hl Ha Hb. unfold far_at.
  apply ilist_member_sym; [exact Hd|exact Hl|apply anc_range; assumption|apply anc_range; assumption].
Qed.

Print Assumptions adjacent_coords.
Print Assumptions ilist_member_coords.
Print Assumptions ilist_spec_nodup.
Print Assumptions nlist_spec_nodup.
Print Assumptions upper_one_side.
Print Assumptions near_xor_far_once.
Print Assumptions far_at_sym.
