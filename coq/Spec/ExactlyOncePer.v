(* Composition of the periodic halves (Spec/TopTree.v, Spec/GeometryPer.v) with the refinement theorems into one
   statement about the values a periodic run leaves in the particles: after [periodic_run d k 1 t] every particle
   holds exactly one contribution from every image of every particle inside the reported repetition cube,
   none from itself in the central box, and nothing else. *)
From Tbfmm Require Import Base.Prelude Base.Search Index.MortonDefs Tree.GroupDefs Index.ListsDefs Index.ListsSpec
  Tree.BuildDefs Tree.Invariant Tree.LookupProofs Tree.BuildProofs Index.MortonProofs Index.MortonBits Index.ListsProofs
  Index.ListsCapacity Exec.ExecDefs Exec.ExecTsmDefs Exec.ExecPeriodicDefs Spec.Elem Spec.Kernel Spec.Geometry
  Exec.RefineM2M Exec.RefineM2L Spec.ExactlyOnce Spec.Corollaries Spec.TopTree Spec.GeometryPer.
From Coq Require Import Sorting.Sorted Sorting.Permutation ZifyBool Zify.
Local Open Scope Z_scope.
Ltac Zify.zify_post_hook ::= Z.div_mod_to_equations.

(* ------------------------------------------------------------------ *)
(* 1. the image-aware free kernel                                      *)
(* ------------------------------------------------------------------ *)
(* (source particle, whole-box shift of the accumulated copy relative to the receiver's own copy of the box) *)
Definition ival : Type := (Z * list Z)%type.

Definition ival_eq_dec : forall a b : ival, {a = b} + {a <> b}.
Proof. decide equality; [apply (list_eq_dec Z.eq_dec)|apply Z.eq_dec]. Defined.

Record pst := { p_mult : Z -> Z -> list ival;    (* level -> cell index -> value *)
                p_loc : Z -> Z -> list ival;
                p_rhs : Z -> list ival;          (* particle id -> value *)
                p_top : tstate;                  (* the virtual cells above the box (Spec/TopTree.v) *)
                p_box : list ival }.             (* the multipole of the whole box handed to the top tree *)

Definition pst0 : pst :=
  {| p_mult := fun _ _ => []; p_loc := fun _ _ => []; p_rhs := fun _ => []; p_top := tinit; p_box := [] |}.

Definition shiftv (v : list Z) (x : list ival) : list ival := map (fun '(q, s) => (q, map2 Z.add v s)) x.
(* the particles [ps], all at shift [s] *)
Definition tag (s : list Z) (ps : list Z) : list ival := map (fun q => (q, s)) ps.

(* target cell [t] of level [l], source at unwrapped relative offset [o]: the source is the copy displaced by
   floor((t_j + o_j) / 2^l) boxes *)
Definition img_shift (d : nat) (l t : Z) (o : list Z) : list Z :=
  map2 (fun tj oj => (tj + oj) / 2 ^ l) (unbox d t) o.

Definition vupd2 (f : Z -> Z -> list ival) (l i : Z) (v : list ival) : Z -> Z -> list ival :=
  fun l' i' => if (l' =? l) && (i' =? i) then f l' i' ++ v else f l' i'.
Definition vupd1 (f : Z -> list ival) (p : Z) (v : list ival) : Z -> list ival :=
  fun p' => if p' =? p then f p' ++ v else f p'.
Definition vupd_all (f : Z -> list ival) (ps : list Z) (v : Z -> list ival) : Z -> list ival :=
  fold_left (fun g p => vupd1 g p (v p)) ps f.

(* a kernel call of the in-box executor; L = leaf level *)
Definition rstep (d : nat) (L : Z) (s : pst) (c : call) : pst :=
  match c with
  | CP2M leaf parts =>
      {| p_mult := vupd2 (p_mult s) L leaf (tag (repeat 0 d) parts); p_loc := p_loc s; p_rhs := p_rhs s;
         p_top := p_top s; p_box := p_box s |}
  | CM2M l p ch =>
      {| p_mult := vupd2 (p_mult s) l p (flat_map (fun cc => p_mult s (l + 1) (fst cc)) ch); p_loc := p_loc s;
         p_rhs := p_rhs s; p_top := p_top s; p_box := p_box s |}
  | CM2L l t sr =>
      {| p_mult := p_mult s;
         p_loc := vupd2 (p_loc s) l t
                    (flat_map (fun sc => shiftv (img_shift d l t (dec7 d (snd sc))) (p_mult s l (fst sc))) sr);
         p_rhs := p_rhs s; p_top := p_top s; p_box := p_box s |}
  | CL2L l p ch =>
      {| p_mult := p_mult s;
         p_loc := fold_left (fun f cc => vupd2 f (l + 1) (fst cc) (p_loc s l p)) ch (p_loc s);
         p_rhs := p_rhs s; p_top := p_top s; p_box := p_box s |}
  | CL2P leaf parts =>
      {| p_mult := p_mult s; p_loc := p_loc s; p_rhs := vupd_all (p_rhs s) parts (fun _ => p_loc s L leaf);
         p_top := p_top s; p_box := p_box s |}
  | CP2P _ tgt code sp tp =>
      let sg := img_shift d L tgt (dec3 d code) in
      {| p_mult := p_mult s; p_loc := p_loc s;
         p_rhs := vupd_all (vupd_all (p_rhs s) tp (fun _ => tag sg sp)) sp (fun _ => tag (map Z.opp sg) tp);
         p_top := p_top s; p_box := p_box s |}
  | CP2PInner _ parts =>
      {| p_mult := p_mult s; p_loc := p_loc s;
         p_rhs := vupd_all (p_rhs s) parts (fun p => tag (repeat 0 d) (rm p parts));
         p_top := p_top s; p_box := p_box s |}
  | CP2PTsm _ _ _ _ _ => s
  | CAssert _ => s
  end.

Definition pstep (d : nat) (k L : Z) (s : pst) (c : pcall) : pst :=
  match c with
  | Real c => rstep d L s c
  | Top tc =>
      let top' := tstep d k (p_top s) tc in
      match tc with
      | TM2M_base _ ch =>
          {| p_mult := p_mult s; p_loc := p_loc s; p_rhs := p_rhs s; p_top := top';
             p_box := flat_map (fun cc => p_mult s 1 (fst cc)) ch |}
      | TL2L_base _ ch =>
          {| p_mult := p_mult s;
             p_loc := fold_left (fun f cc => vupd2 f 1 (fst cc) (flat_map (fun sg => shiftv sg (p_box s)) (tres top')))
                                ch (p_loc s);
             p_rhs := p_rhs s; p_top := top'; p_box := p_box s |}
      | _ => {| p_mult := p_mult s; p_loc := p_loc s; p_rhs := p_rhs s; p_top := top'; p_box := p_box s |}
      end
  end.

Definition prun (d : nat) (k L : Z) (calls : list pcall) (s : pst) : pst := fold_left (pstep d k L) calls s.

(* the right-hand side of the main statement *)
Definition expected (d : nat) (n lo hi p q : Z) (sigma : list Z) : nat :=
  if (0 <=? q) && (q <? n) && (Nat.eqb (length sigma) d) && forallb (fun x => (lo <=? x) && (x <=? hi)) sigma
     && negb ((q =? p) && forallb (Z.eqb 0) sigma) then 1%nat else 0%nat.

(* ------------------------------------------------------------------ *)
(* 2. validation of the definitions and of the statement by computation *)
(* ------------------------------------------------------------------ *)
(* for every particle p: the number of values is (number of particles) * (images in the cube) - 1, and the count of
   (q, sigma) is the expected one for every q in [-1, n] and every sigma of a strictly larger cube (and two vectors
   of a wrong length) *)
Definition per_check (d : nat) (H B : Z) (mode : bool) (k : Z) (idx : list Z) : bool :=
  let t := build (parent d) H B mode idx in
  let st := prun d k (H - 1) (periodic_run d k 1 t) pst0 in
  let n := zlen idx in
  let (lo, hi) := repetition_interval k in
  let probes := cube d (lo - 1) (hi + 1) ++ [[]; repeat 0 (S d)] in
  forallb (fun p =>
    (zlen (p_rhs st p) =? n * (hi - lo + 1) ^ Z.of_nat d - 1)
    && forallb (fun q => forallb (fun sigma =>
         Nat.eqb (count_occ ival_eq_dec (p_rhs st p) (q, sigma)) (expected d n lo hi p q sigma)) probes)
         (zrange (-1) n)) (zseq n).

(* d = 1 *)
Example chk_1_2_m1 : per_check 1 2 2 false (-1) [0; 1; 1; 0; 1] = true. Proof. vm_compute. reflexivity. Qed.
Example chk_1_2_0 : per_check 1 2 1 false 0 [1; 0; 0] = true. Proof. vm_compute. reflexivity. Qed.
Example chk_1_2_1 : per_check 1 2 100 true 1 [0; 1] = true. Proof. vm_compute. reflexivity. Qed.
Example chk_1_2_2 : per_check 1 2 2 true 2 [1; 1; 0] = true. Proof. vm_compute. reflexivity. Qed.
Example chk_1_2_single : per_check 1 2 2 false 1 [1] = true. Proof. vm_compute. reflexivity. Qed.
Example chk_1_3_m1 : per_check 1 3 1 false (-1) [3; 0; 2; 2; 1; 0] = true. Proof. vm_compute. reflexivity. Qed.
Example chk_1_3_0 : per_check 1 3 2 true 0 [0; 1; 2; 3] = true. Proof. vm_compute. reflexivity. Qed.
Example chk_1_3_1 : per_check 1 3 100 false 1 [2; 2; 2; 0] = true. Proof. vm_compute. reflexivity. Qed.
Example chk_1_3_2 : per_check 1 3 2 false 2 [3; 1] = true. Proof. vm_compute. reflexivity. Qed.
Example chk_1_3_single : per_check 1 3 1 true 0 [2] = true. Proof. vm_compute. reflexivity. Qed.
Example chk_1_4_m1 : per_check 1 4 2 false (-1) [7; 0; 3; 4; 4; 1] = true. Proof. vm_compute. reflexivity. Qed.
Example chk_1_4_0 : per_check 1 4 1 true 0 [0; 1; 2; 3; 4; 5; 6; 7] = true. Proof. vm_compute. reflexivity. Qed.
Example chk_1_4_1 : per_check 1 4 100 false 1 [5; 5; 0; 7; 2] = true. Proof. vm_compute. reflexivity. Qed.
Example chk_1_4_2 : per_check 1 4 2 true 2 [6; 1; 1] = true. Proof. vm_compute. reflexivity. Qed.
Example chk_1_4_single : per_check 1 4 2 false 2 [0] = true. Proof. vm_compute. reflexivity. Qed.
(* d = 2 *)
Example chk_2_2_m1 : per_check 2 2 2 false (-1) [0; 3; 3; 1] = true. Proof. vm_compute. reflexivity. Qed.
Example chk_2_2_0 : per_check 2 2 1 true 0 [0; 1; 2; 3] = true. Proof. vm_compute. reflexivity. Qed.
Example chk_2_2_1 : per_check 2 2 100 false 1 [2; 2; 1] = true. Proof. vm_compute. reflexivity. Qed.
Example chk_2_2_single : per_check 2 2 2 true 1 [3] = true. Proof. vm_compute. reflexivity. Qed.
Example chk_2_3_m1 : per_check 2 3 2 true (-1) [0; 15; 6; 6; 9] = true. Proof. vm_compute. reflexivity. Qed.
Example chk_2_3_0 : per_check 2 3 1 false 0 [5; 10; 0; 3] = true. Proof. vm_compute. reflexivity. Qed.
Example chk_2_3_1 : per_check 2 3 100 true 1 [12; 1; 7] = true. Proof. vm_compute. reflexivity. Qed.

(* ------------------------------------------------------------------ *)
(* 3. counting image values                                            *)
(* ------------------------------------------------------------------ *)
Definition ci (v : list ival) (y : ival) : nat := count_occ ival_eq_dec v y.
Definition ieqb (a b : ival) : bool := (fst a =? fst b) && veqb (snd a) (snd b).

Lemma veqb_eq : forall a b, veqb a b = true <-> a = b.
Proof.
  unfold veqb. induction a as [|x a IH]; intros [|y b]; cbn [list_eqb]; split; intros E; try reflexivity; try discriminate.
  - apply andb_true_iff in E. destruct E as [E1 E2]. apply Z.eqb_eq in E1. apply IH in E2. congruence.
  - injection E as -> ->. rewrite Z.eqb_refl. apply IH. reflexivity.
Qed.

Lemma veqb_refl a : veqb a a = true.
Proof. apply veqb_eq. reflexivity. Qed.

Lemma veqb_sym a b : veqb a b = veqb b a.
Proof. apply eq_true_iff_eq. rewrite !veqb_eq. split; congruence. Qed.

Lemma veqb_neq a b : a <> b -> veqb a b = false.
Proof. intros Hne. destruct (veqb a b) eqn:E; [|reflexivity]. apply veqb_eq in E. contradiction. Qed.

Lemma ieqb_eq a b : ieqb a b = true <-> a = b.
Proof.
  destruct a as [q s], b as [q' s']. unfold ieqb. cbn [fst snd].
  rewrite andb_true_iff, Z.eqb_eq, veqb_eq. split; [intros [-> ->]; reflexivity|intros E; injection E; auto].
Qed.

Lemma ci_nil y : ci [] y = 0%nat.
Proof. reflexivity. Qed.

Lemma ci_app a b y : ci (a ++ b) y = (ci a y + ci b y)%nat.
Proof. apply count_occ_app. Qed.

Lemma ci_cons a v y : ci (a :: v) y = (b2n (ieqb a y) + ci v y)%nat.
Proof.
  unfold ci. cbn [count_occ]. destruct (ival_eq_dec a y) as [E|E].
  - rewrite (proj2 (ieqb_eq a y) E). reflexivity.
  - destruct (ieqb a y) eqn:E'; [apply ieqb_eq in E'; contradiction|reflexivity].
Qed.

Lemma ci_flat_map {A} (f : A -> list ival) l y : ci (flat_map f l) y = sumn (fun a => ci (f a) y) l.
Proof. induction l as [|a l IH]; [reflexivity|]. cbn [flat_map]. rewrite ci_app, sumn_cons, IH. reflexivity. Qed.

Lemma ci_perm v v' y : Permutation v v' -> ci v y = ci v' y.
Proof. intros HP. apply (proj1 (Permutation_count_occ ival_eq_dec v v') HP). Qed.

Lemma ci_ext_shiftv v m m' : (forall y, ci m y = ci m' y) -> forall y, ci (shiftv v m) y = ci (shiftv v m') y.
Proof.
  intros HE y. apply ci_perm. unfold shiftv. apply Permutation_map.
  apply (proj2 (Permutation_count_occ ival_eq_dec m m')). exact HE.
Qed.

Lemma ci_in v y : In y v -> (0 < ci v y)%nat.
Proof. intros Hin. apply (proj1 (count_occ_In ival_eq_dec v y) Hin). Qed.

Lemma ci_tag s ps q s' : ci (tag s ps) (q, s') = (cnt ps q * b2n (veqb s' s))%nat.
Proof.
  unfold tag. induction ps as [|a ps IH]; [reflexivity|]. cbn [map]. rewrite ci_cons, cnt_cons, IH.
  unfold ieqb. cbn [fst snd]. rewrite (veqb_sym s s').
  destruct (a =? q); destruct (veqb s' s); cbn [andb b2n]; lia.
Qed.

Lemma map2_add_zeros v : map2 Z.add v (repeat 0 (length v)) = v.
Proof. induction v as [|x v IH]; [reflexivity|]. cbn [length repeat map2]. rewrite IH. f_equal. lia. Qed.

(* shifting a value that only holds zero shifts *)
Lemma ci_shiftv_zero d v m q s : length v = d -> (forall a, In a m -> snd a = repeat 0 d) ->
  ci (shiftv v m) (q, s) = ci m (q, repeat 0 d) *n b2n (veqb s v).
Proof.
  intros Hv. induction m as [|a m IH]; intros Hz; [reflexivity|].
  unfold shiftv in *. cbn [map]. rewrite !ci_cons, IH by (intros b Hb; apply Hz; right; exact Hb).
  destruct a as [q0 s0]. assert (E : s0 = repeat 0 d) by (apply (Hz (q0, s0)); left; reflexivity). subst s0.
  rewrite <- Hv at 1. rewrite map2_add_zeros. unfold ieqb. cbn [fst snd]. rewrite veqb_refl, andb_true_r, (veqb_sym v s).
  destruct (q0 =? q); destruct (veqb s v); cbn [andb b2n]; lia.
Qed.

(* reading the state after an update *)
Lemma vupd2_ci f l i v l' i' y :
  ci (vupd2 f l i v l' i') y = (ci (f l' i') y + (if ((l' =? l) && (i' =? i))%Z then ci v y else 0))%nat.
Proof. unfold vupd2. destruct ((l' =? l) && (i' =? i)); [apply ci_app|lia]. Qed.

Lemma vupd1_ci f p v p' y :
  ci (vupd1 f p v p') y = (ci (f p') y + (if (p' =? p)%Z then ci v y else 0))%nat.
Proof. unfold vupd1. destruct (p' =? p); [apply ci_app|lia]. Qed.

Lemma vupd_all_ci : forall ps f v p' y,
  ci (vupd_all f ps v p') y = (ci (f p') y + cnt ps p' * ci (v p') y)%nat.
Proof.
  unfold vupd_all. induction ps as [|a ps IH]; intros f v p' y.
  - cbn [fold_left]. rewrite cnt_nil. lia.
  - cbn [fold_left]. rewrite IH, vupd1_ci, cnt_cons. rewrite (Z.eqb_sym p' a).
    destruct (Z.eqb_spec a p') as [->|E]; cbn [b2n]; lia.
Qed.

Lemma fold_vupd2_ci (l0 : Z) (v : list ival) : forall (ch : list (Z * Z)) f l' x y,
  ci (fold_left (fun g cc => vupd2 g l0 (fst cc) v) ch f l' x) y
  = (ci (f l' x) y + sumn (fun cc => if ((l' =? l0) && (x =? fst cc))%Z then ci v y else 0%nat) ch)%nat.
Proof.
  induction ch as [|c ch IH]; intros f l' x y.
  - cbn [fold_left]. rewrite sumn_nil. lia.
  - cbn [fold_left]. rewrite IH, vupd2_ci, sumn_cons. lia.
Qed.

(* ------------------------------------------------------------------ *)
(* 4. contribution of an elementary record, read in a given state      *)
(* ------------------------------------------------------------------ *)
Section Records.
Variable d : nat.
Variable L : Z.

Definition pcm (s : pst) (e : elem) (l x : Z) (y : ival) : nat :=
  match e with
  | EP2M leaf parts => if (l =? L) && (x =? leaf) then ci (tag (repeat 0 d) parts) y else 0%nat
  | EM2M l' p c _ => if (l =? l') && (x =? p) then ci (p_mult s (l' + 1) c) y else 0%nat
  | _ => 0%nat
  end.

Definition pcl (s : pst) (e : elem) (l x : Z) (y : ival) : nat :=
  match e with
  | EM2L l' t b code =>
      if (l =? l') && (x =? t) then ci (shiftv (img_shift d l' t (dec7 d code)) (p_mult s l' b)) y else 0%nat
  | EL2L l' p c _ => if (l =? l' + 1) && (x =? c) then ci (p_loc s l' p) y else 0%nat
  | _ => 0%nat
  end.

Definition pcr (s : pst) (e : elem) (p : Z) (y : ival) : nat :=
  match e with
  | EL2P leaf parts => cnt parts p *n ci (p_loc s L leaf) y
  | EP2P _ tgt code sp tp =>
      cnt tp p *n ci (tag (img_shift d L tgt (dec3 d code)) sp) y
      +n cnt sp p *n ci (tag (map Z.opp (img_shift d L tgt (dec3 d code))) tp) y
  | EP2PInner _ parts => cnt parts p *n ci (tag (repeat 0 d) (rm p parts)) y
  | _ => 0%nat
  end.

Definition rrun (tr : list call) (s : pst) : pst := fold_left (rstep d L) tr s.

Lemma rstep_mult s c l x y :
  ci (p_mult (rstep d L s c) l x) y
  = (ci (p_mult s l x) y + sumn (fun e => pcm s e l x y) (elems_of_call c))%nat.
Proof.
  destruct c; cbn [rstep p_mult elems_of_call];
    try (rewrite ?sumn_map, ?sumn_cons, ?sumn_nil; cbn [pcm]; rewrite ?sumn_zero by (intros; reflexivity); lia).
  - rewrite vupd2_ci. rewrite sumn_cons, sumn_nil. cbn [pcm]. lia.
  - rewrite vupd2_ci, sumn_map. cbn [pcm fst snd]. rewrite sumn_if, ci_flat_map. reflexivity.
Qed.

Lemma rstep_loc s c l x y :
  ci (p_loc (rstep d L s c) l x) y
  = (ci (p_loc s l x) y + sumn (fun e => pcl s e l x y) (elems_of_call c))%nat.
Proof.
  destruct c; cbn [rstep p_loc elems_of_call];
    try (rewrite ?sumn_map, ?sumn_cons, ?sumn_nil; cbn [pcl]; rewrite ?sumn_zero by (intros; reflexivity); lia).
  - rewrite vupd2_ci, sumn_map. cbn [pcl fst snd]. rewrite sumn_if, ci_flat_map. reflexivity.
  - rewrite fold_vupd2_ci, sumn_map. cbn [pcl fst snd]. reflexivity.
Qed.

Lemma rstep_rhs s c p y :
  ci (p_rhs (rstep d L s c) p) y
  = (ci (p_rhs s p) y + sumn (fun e => pcr s e p y) (elems_of_call c))%nat.
Proof.
  destruct c; cbn [rstep p_rhs elems_of_call];
    try (rewrite ?sumn_map, ?sumn_cons, ?sumn_nil; cbn [pcr]; rewrite ?sumn_zero by (intros; reflexivity); lia).
  - rewrite vupd_all_ci, sumn_cons, sumn_nil. cbn [pcr]. lia.
  - cbv zeta. cbn [p_rhs]. rewrite !vupd_all_ci, sumn_cons, sumn_nil. cbn [pcr]. lia.
  - rewrite vupd_all_ci, sumn_cons, sumn_nil. cbn [pcr]. lia.
Qed.

Lemma rstep_top s c : p_top (rstep d L s c) = p_top s /\ p_box (rstep d L s c) = p_box s.
Proof. destruct c; split; reflexivity. Qed.

Lemma rrun_app a b w : rrun (a ++ b) w = rrun b (rrun a w).
Proof. unfold rrun. apply fold_left_app. Qed.

Lemma rrun_top tr : forall s, p_top (rrun tr s) = p_top s /\ p_box (rrun tr s) = p_box s.
Proof.
  induction tr as [|c tr IH]; intros s; [split; reflexivity|].
  change (rrun (c :: tr) s) with (rrun tr (rstep d L s c)).
  destruct (IH (rstep d L s c)) as [H1 H2]. destruct (rstep_top s c) as [H3 H4]. split; congruence.
Qed.

(* a pass whose records never read what the pass writes *)
Section RunGen.
Variables RdM RdL : Z -> Z -> Prop.

Definition pagree (s s' : pst) : Prop :=
  (forall l x y, RdM l x -> ci (p_mult s' l x) y = ci (p_mult s l x) y) /\
  (forall l x y, RdL l x -> ci (p_loc s' l x) y = ci (p_loc s l x) y).

Definition peok (e : elem) : Prop :=
  (forall s s', pagree s s' ->
     (forall l x y, pcm s' e l x y = pcm s e l x y) /\
     (forall l x y, pcl s' e l x y = pcl s e l x y) /\
     (forall p y, pcr s' e p y = pcr s e p y)) /\
  (forall s l x y, RdM l x -> pcm s e l x y = 0%nat) /\
  (forall s l x y, RdL l x -> pcl s e l x y = 0%nat).

Lemma rstep_agree s c : Forall peok (elems_of_call c) -> pagree s (rstep d L s c).
Proof.
  intros Hok. rewrite Forall_forall in Hok. split; intros l x y Hr.
  - rewrite rstep_mult, sumn_zero; [lia|]. intros e He. apply (Hok e He). exact Hr.
  - rewrite rstep_loc, sumn_zero; [lia|]. intros e He. apply (Hok e He). exact Hr.
Qed.

Theorem rrun_counts : forall tr, Forall peok (elementary tr) -> forall s,
  (forall l x y, ci (p_mult (rrun tr s) l x) y
                 = (ci (p_mult s l x) y + sumn (fun e => pcm s e l x y) (elementary tr))%nat) /\
  (forall l x y, ci (p_loc (rrun tr s) l x) y
                 = (ci (p_loc s l x) y + sumn (fun e => pcl s e l x y) (elementary tr))%nat) /\
  (forall p y, ci (p_rhs (rrun tr s) p) y
                 = (ci (p_rhs s p) y + sumn (fun e => pcr s e p y) (elementary tr))%nat).
Proof.
  induction tr as [|c tr IH]; intros Hok s.
  - cbn. repeat split; intros; lia.
  - change (elementary (c :: tr)) with (elems_of_call c ++ elementary tr) in *.
    apply Forall_app in Hok. destruct Hok as [Hc Htr].
    change (rrun (c :: tr) s) with (rrun tr (rstep d L s c)).
    destruct (IH Htr (rstep d L s c)) as (IM & IL & IR).
    pose proof (rstep_agree s c Hc) as Hag.
    assert (Hsame : forall e, In e (elementary tr) ->
              (forall l x y, pcm (rstep d L s c) e l x y = pcm s e l x y) /\
              (forall l x y, pcl (rstep d L s c) e l x y = pcl s e l x y) /\
              (forall p y, pcr (rstep d L s c) e p y = pcr s e p y)).
    { intros e He. rewrite Forall_forall in Htr. apply (proj1 (Htr e He) s (rstep d L s c) Hag). }
    repeat split.
    + intros l x y. rewrite IM, rstep_mult, sumn_app.
      rewrite (sumn_ext_in _ (fun e => pcm s e l x y) (elementary tr)); [lia|].
      intros e He. apply (Hsame e He).
    + intros l x y. rewrite IL, rstep_loc, sumn_app.
      rewrite (sumn_ext_in _ (fun e => pcl s e l x y) (elementary tr)); [lia|].
      intros e He. apply (Hsame e He).
    + intros p y. rewrite IR, rstep_rhs, sumn_app.
      rewrite (sumn_ext_in _ (fun e => pcr s e p y) (elementary tr)); [lia|].
      intros e He. apply (Hsame e He).
Qed.

Lemma peok_P2M leaf parts : ~ RdM L leaf -> peok (EP2M leaf parts).
Proof.
  intros Hn. split; [|split].
  - intros s s' _. repeat split; reflexivity.
  - intros s l x y Hr. cbn [pcm]. destruct (Z.eqb_spec l L) as [->|]; [|reflexivity].
    destruct (Z.eqb_spec x leaf) as [->|]; [contradiction|reflexivity].
  - reflexivity.
Qed.

Lemma peok_M2M l p c code : RdM (l + 1) c -> ~ RdM l p -> peok (EM2M l p c code).
Proof.
  intros Hr Hn. split; [|split].
  - intros s s' (HM & _). repeat split; try reflexivity.
    intros l' x y. cbn [pcm]. rewrite (HM _ _ y Hr). reflexivity.
  - intros s l' x y Hr'. cbn [pcm]. destruct (Z.eqb_spec l' l) as [->|]; [|reflexivity].
    destruct (Z.eqb_spec x p) as [->|]; [contradiction|reflexivity].
  - reflexivity.
Qed.

Lemma peok_M2L l t b code : RdM l b -> ~ RdL l t -> peok (EM2L l t b code).
Proof.
  intros Hr Hn. split; [|split].
  - intros s s' (HM & _). repeat split; try reflexivity.
    intros l' x y. cbn [pcl]. rewrite (ci_ext_shiftv _ (p_mult s' l b) (p_mult s l b)); [reflexivity|].
    intros y'. apply HM. exact Hr.
  - reflexivity.
  - intros s l' x y Hr'. cbn [pcl]. destruct (Z.eqb_spec l' l) as [->|]; [|reflexivity].
    destruct (Z.eqb_spec x t) as [->|]; [contradiction|reflexivity].
Qed.

Lemma peok_L2L l p c code : RdL l p -> ~ RdL (l + 1) c -> peok (EL2L l p c code).
Proof.
  intros Hr Hn. split; [|split].
  - intros s s' (_ & HL). repeat split; try reflexivity.
    intros l' x y. cbn [pcl]. rewrite (HL _ _ y Hr). reflexivity.
  - reflexivity.
  - intros s l' x y Hr'. cbn [pcl]. destruct (Z.eqb_spec l' (l + 1)) as [->|]; [|reflexivity].
    destruct (Z.eqb_spec x c) as [->|]; [contradiction|reflexivity].
Qed.

Lemma peok_L2P leaf parts : RdL L leaf -> peok (EL2P leaf parts).
Proof.
  intros Hr. split; [|split]; try reflexivity.
  intros s s' (_ & HL). repeat split; try reflexivity.
  intros p y. cbn [pcr]. rewrite (HL _ _ y Hr). reflexivity.
Qed.

Lemma peok_P2P a b code sp tp : peok (EP2P a b code sp tp).
Proof. split; [|split]; try reflexivity. intros s s' _. repeat split; reflexivity. Qed.

Lemma peok_P2PInner leaf parts : peok (EP2PInner leaf parts).
Proof. split; [|split]; try reflexivity. intros s s' _. repeat split; reflexivity. Qed.

End RunGen.
End Records.

(* ------------------------------------------------------------------ *)
(* 5. a well-formed tree, periodic lists                               *)
(* ------------------------------------------------------------------ *)
Definition zb (d : nat) (s : list Z) : nat := b2n (veqb s (repeat 0 d)).

Section PerCompose.
Variable d : nat.
Hypothesis Hd : (0 < d)%nat.
Variables (H B : Z) (mode : bool) (t : tree) (idx : list Z).
Hypothesis HH : 2 <= H.
Hypothesis Hok : tree_ok (parent d) H B mode t.
Hypothesis Hpart : particles_ok idx t.
Hypothesis Hrange : Forall (fun i => 0 <= i < 2 ^ ((H - 1) * dz d)) idx.

Notation L := (H - 1).
Notation cells l := (level_cells (levels_of t l)).
Notation lvs := (all_leaves t).
Notation lo := (ExactlyOnce.lo idx).
Notation valid := (ExactlyOnce.valid idx).
Notation below := (ExactlyOnce.below d H idx).
Notation pc := (ExactlyOnce.pc idx).
Notation zv := (repeat 0 d).
Notation rrun := (rrun d L).
Notation peok := (peok d L).

Let Hcap := cap0 d Hd.
Let HH1 : 1 <= H. Proof. lia. Qed.

Lemma t_cells_nodup l : 0 <= l < H -> NoDup (cells l).
Proof. intros Hl. eapply cells_nodup; eassumption. Qed.

Lemma t_cells_range l c : 0 <= l < H -> In c (cells l) -> 0 <= c < 2 ^ (l * dz d).
Proof. intros Hl Hc. eapply cells_range; eassumption. Qed.

Lemma t_valid_iff q : valid q = true <-> 0 <= q < zlen idx.
Proof. unfold ExactlyOnce.valid. lia. Qed.

Lemma t_lo_leaf q : valid q = true -> In (lo q) (cells L).
Proof. intros Hv. eapply lo_leaf; eassumption. Qed.

Lemma t_lo_range q : valid q = true -> 0 <= lo q < 2 ^ (L * dz d).
Proof. intros Hv. apply t_cells_range; [lia|]. apply t_lo_leaf. exact Hv. Qed.

Lemma t_anc_in_cells l q : 0 <= l < H -> valid q = true -> In (anc d L l (lo q)) (cells l).
Proof. intros Hl Hv. eapply anc_in_cells; eassumption. Qed.

Lemma t_cnt_parts lf q : In lf lvs -> cnt (lf_parts lf) q = b2n (valid q && (lo q =? lf_index lf)).
Proof. intros Hlf. eapply cnt_parts; eassumption. Qed.

Lemma t_cnt_parts_of c p : In c (cells L) -> cnt (parts_of lvs c) p = pc c p.
Proof. intros Hc. eapply cnt_parts_of; eassumption. Qed.

Lemma t_parent_in_cells k x : 0 <= k <= H - 2 -> In x (cells (k + 1)) -> In (parent d x) (cells k).
Proof. intros Hk Hx. eapply parent_in_cells; eassumption. Qed.

Lemma t_sumn_leaves (G : Z -> nat) : sumn (fun lf => G (lf_index lf)) lvs = sumn G (cells L).
Proof. eapply sumn_leaves; eassumption. Qed.

Lemma t_below_leaf_sum x q :
  sumn (fun c => if c =? x then b2n (valid q && (lo q =? c)) else 0%nat) (cells L) = below L x q.
Proof. eapply below_leaf_sum; eassumption. Qed.

Lemma t_below_step l x q : 0 <= l <= H - 2 ->
  sumn (fun c => if parent d c =? x then below (l + 1) c q else 0%nat) (cells (l + 1)) = below l x q.
Proof. intros Hl. eapply below_step; eassumption. Qed.

Lemma t_pass_P2M : pass_P2M 1 t = map (fun lf => CP2M (lf_index lf) (lf_parts lf)) lvs.
Proof. rewrite (pass_P2M_eq d Hd Hcap H B mode t HH1 Hok 1). replace (1 <? H) with true by lia. reflexivity. Qed.

Lemma t_pass_L2P : pass_L2P 1 t = map (fun lf => CL2P (lf_index lf) (lf_parts lf)) lvs.
Proof. rewrite (pass_L2P_eq d H B mode t Hok 1). replace (1 <? H) with true by lia. reflexivity. Qed.

Lemma t_m2m_level_ok l : 0 <= l <= H - 2 ->
  elementary (m2m_level d t l) = spec_links d EM2M l (cells (l + 1)).
Proof. intros Hl. eapply m2m_level_ok; eassumption. Qed.

Lemma t_l2l_level_ok l : 0 <= l <= H - 2 ->
  elementary (l2l_level d t l) = spec_links d EL2L l (cells (l + 1)).
Proof. intros Hl. eapply l2l_level_ok; eassumption. Qed.

Lemma if_mul_r (b : bool) (a k : nat) : (if b then a *n k else 0%nat) = (if b then a else 0%nat) *n k.
Proof. destruct b; reflexivity. Qed.

(* ------------------------------------------------------------------ *)
(* 6. upward passes: P2M and M2M                                       *)
(* ------------------------------------------------------------------ *)
Lemma p2m_effect_p w :
  (forall l x q s, ci (p_mult (rrun (pass_P2M 1 t) w) l x) (q, s)
     = ci (p_mult w l x) (q, s) +n (if l =? L then below L x q *n zb d s else 0%nat)) /\
  (forall l x y, ci (p_loc (rrun (pass_P2M 1 t) w) l x) y = ci (p_loc w l x) y) /\
  (forall p y, ci (p_rhs (rrun (pass_P2M 1 t) w) p) y = ci (p_rhs w p) y).
Proof.
  rewrite t_pass_P2M.
  set (tr := map (fun lf => CP2M (lf_index lf) (lf_parts lf)) lvs).
  assert (Hel : elementary tr = map (fun lf => EP2M (lf_index lf) (lf_parts lf)) lvs).
  { apply elementary_map_single. reflexivity. }
  assert (Hok' : Forall (peok nordM nordM) (elementary tr)).
  { rewrite Hel. apply Forall_forall. intros e He. apply in_map_iff in He. destruct He as (lf & <- & _).
    apply peok_P2M. intros []. }
  destruct (rrun_counts d L nordM nordM tr Hok' w) as (HM & HL & HR). rewrite Hel in HM, HL, HR.
  repeat split.
  - intros l x q s. rewrite HM. f_equal. rewrite sumn_map. cbn [pcm].
    rewrite (sumn_ext_in _ (fun lf => (fun c => (if (l =? L) && (c =? x) then b2n (valid q && (lo q =? c)) else 0%nat) *n zb d s) (lf_index lf))).
    2:{ intros lf Hlf. cbv beta. rewrite ci_tag, (t_cnt_parts lf q Hlf), (Z.eqb_sym x). apply if_mul_r. }
    rewrite (t_sumn_leaves (fun c => (if (l =? L) && (c =? x) then b2n (valid q && (lo q =? c)) else 0%nat) *n zb d s)).
    rewrite sumn_mul_r. destruct (l =? L); cbn [andb].
    + rewrite t_below_leaf_sum. reflexivity.
    + rewrite sumn_zero by reflexivity. reflexivity.
  - intros l x y. rewrite HL, sumn_zero; [lia|]. intros e He. apply in_map_iff in He. destruct He as (lf & <- & _). reflexivity.
  - intros p y. rewrite HR, sumn_zero; [lia|]. intros e He. apply in_map_iff in He. destruct He as (lf & <- & _). reflexivity.
Qed.

Lemma m2m_level_effect_p l w : 0 <= l <= H - 2 ->
  (forall l' x y, ci (p_mult (rrun (m2m_level d t l) w) l' x) y
     = ci (p_mult w l' x) y
        +n (if l' =? l then sumn (fun c => if parent d c =? x then ci (p_mult w (l + 1) c) y else 0%nat) (cells (l + 1))
           else 0%nat)) /\
  (forall l' x y, ci (p_loc (rrun (m2m_level d t l) w) l' x) y = ci (p_loc w l' x) y) /\
  (forall p y, ci (p_rhs (rrun (m2m_level d t l) w) p) y = ci (p_rhs w p) y).
Proof.
  intros Hl. pose proof (t_m2m_level_ok l Hl) as Hel. unfold spec_links in Hel.
  assert (Hok' : Forall (peok (fun l' _ => l' = l + 1) nordM) (elementary (m2m_level d t l))).
  { rewrite Hel. apply Forall_forall. intros e He. apply in_map_iff in He. destruct He as (c & <- & _).
    apply peok_M2M; [reflexivity|lia]. }
  destruct (rrun_counts d L _ _ _ Hok' w) as (HM & HL & HR). rewrite Hel in HM, HL, HR.
  repeat split.
  - intros l' x y. rewrite HM. f_equal. rewrite sumn_map. cbn [pcm].
    destruct (l' =? l); cbn [andb].
    + apply sumn_ext_in. intros c _. rewrite (Z.eqb_sym x). reflexivity.
    + apply sumn_zero. reflexivity.
  - intros l' x y. rewrite HL, sumn_zero; [lia|]. intros e He. apply in_map_iff in He. destruct He as (c & <- & _). reflexivity.
  - intros p y. rewrite HR, sumn_zero; [lia|]. intros e He. apply in_map_iff in He. destruct He as (c & <- & _). reflexivity.
Qed.

(* every multipole of a level >= k holds exactly the particles below its cell, each once, at zero shift *)
Definition MultInvP (k : Z) (w : pst) : Prop :=
  (forall l x q s, k <= l <= L -> ci (p_mult w l x) (q, s) = below l x q *n zb d s) /\
  (forall l x y, l < k -> ci (p_mult w l x) y = 0%nat).

Lemma m2m_level_inv_p l w : 0 <= l <= H - 2 -> MultInvP (l + 1) w -> MultInvP l (rrun (m2m_level d t l) w).
Proof.
  intros Hl (Hhi & Hlo). destruct (m2m_level_effect_p l w Hl) as (HM & _). split.
  - intros l' x q s Hl'. rewrite HM. destruct (Z.eqb_spec l' l) as [->|Hne].
    + rewrite Hlo by lia. cbn [Nat.add]. rewrite <- t_below_step by exact Hl. rewrite <- sumn_mul_r.
      apply sumn_ext_in. intros c _. rewrite Hhi by lia. apply if_mul_r.
    + rewrite Hhi by lia. lia.
  - intros l' x y Hl'. rewrite HM, Hlo by lia. destruct (Z.eqb_spec l' l); [lia|reflexivity].
Qed.

Lemma m2m_pass_inv_p : forall n k w, k = L - Z.of_nat n -> 0 <= k -> MultInvP L w ->
  MultInvP k (rrun (flat_map (m2m_level d t) (rev (zrange k (H - 2)))) w) /\
  (forall l x y, ci (p_loc (rrun (flat_map (m2m_level d t) (rev (zrange k (H - 2)))) w) l x) y = ci (p_loc w l x) y) /\
  (forall p y, ci (p_rhs (rrun (flat_map (m2m_level d t) (rev (zrange k (H - 2)))) w) p) y = ci (p_rhs w p) y).
Proof.
  induction n as [|n IH]; intros k w Ek Hk Hinv.
  - rewrite ExactlyOnce.zrange_nil by lia. cbn [rev flat_map]. replace k with L by lia.
    repeat split; try apply Hinv; intros; reflexivity.
  - rewrite ExactlyOnce.zrange_cons by lia. cbn [rev]. rewrite flat_map_app, rrun_app. cbn [flat_map]. rewrite app_nil_r.
    destruct (IH (k + 1) w ltac:(lia) ltac:(lia) Hinv) as (I1 & I2 & I3).
    set (w1 := rrun (flat_map (m2m_level d t) (rev (zrange (k + 1) (H - 2)))) w) in *.
    destruct (m2m_level_effect_p k w1 ltac:(lia)) as (_ & E2 & E3).
    repeat split.
    + apply m2m_level_inv_p; [lia|exact I1].
    + apply m2m_level_inv_p; [lia|exact I1].
    + intros l x y. rewrite E2. apply I2.
    + intros p y. rewrite E3. apply I3.
Qed.

(* the state after the upward call execute(P2M + M2M), stop level 1 *)
Lemma up_eq : execute d true 1 (F_P2M + F_M2M) t = pass_P2M 1 t ++ pass_M2M d 1 t.
Proof. unfold execute. cbn. rewrite app_nil_r. reflexivity. Qed.

Lemma up_state w : (forall l x y, ci (p_mult w l x) y = 0%nat) ->
  let w1 := rrun (execute d true 1 (F_P2M + F_M2M) t) w in
  MultInvP 1 w1 /\
  (forall l x y, ci (p_loc w1 l x) y = ci (p_loc w l x) y) /\
  (forall p y, ci (p_rhs w1 p) y = ci (p_rhs w p) y).
Proof.
  intros Hz. cbv zeta. rewrite up_eq, rrun_app.
  destruct (p2m_effect_p w) as (M1 & L1 & R1).
  set (wa := rrun (pass_P2M 1 t) w) in *.
  assert (I1 : MultInvP L wa).
  { split.
    - intros l x q s Hl. rewrite M1, Hz. replace l with L by lia. rewrite Z.eqb_refl. reflexivity.
    - intros l x [q s] Hl. rewrite M1, Hz. destruct (Z.eqb_spec l L); [lia|reflexivity]. }
  rewrite (pass_M2M_eq d H B mode t Hok 1).
  destruct (m2m_pass_inv_p (Z.to_nat (L - 1)) 1 wa ltac:(lia) ltac:(lia) I1) as (I2 & L2 & R2).
  split; [exact I2|]. split.
  - intros l x y. rewrite L2. apply L1.
  - intros p y. rewrite R2. apply R1.
Qed.
