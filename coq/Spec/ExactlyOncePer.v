(* Composition of the periodic halves (Spec/TopTree.v, Spec/GeometryPer.v) with the refinement theorems into one
   statement about the values a periodic run leaves in the particles: after [periodic_run d k 1 t] every particle
   holds exactly one contribution from every image of every particle inside the reported repetition cube,
   none from itself in the central box, and nothing else. *)
From Tbfmm Require Import Base.Prelude Base.Search Index.MortonDefs Tree.GroupDefs Index.ListsDefs Index.ListsSpec
  Tree.BuildDefs Tree.Invariant Tree.LookupProofs Tree.BuildProofs Index.MortonProofs Index.MortonBits Index.ListsProofs
  Index.ListsCapacity Exec.ExecDefs Exec.ExecTsmDefs Exec.ExecPeriodicDefs Spec.Elem Spec.Kernel Spec.Geometry
  Exec.RefineM2M Exec.RefineM2L Spec.ExactlyOnce Spec.Corollaries Spec.TopTree Spec.GeometryPer.
From Coq Require Import Sorting.Sorted Sorting.Permutation ZifyBool Zify.
Local Open Scope Z_scope.
Ltac Zify.zify_post_hook ::= Z.div_mod_to_equations.

(* ------------------------------------------------------------------ *)
(* 1. the image-aware free kernel                                      *)
(* ------------------------------------------------------------------ *)
(* (source particle, whole-box shift of the accumulated copy relative to the receiver's own copy of the box) *)
Definition ival : Type := (Z * list Z)%type.

Definition ival_eq_dec : forall a b : ival, {a = b} + {a <> b}.
Proof. decide equality; [apply (list_eq_dec Z.eq_dec)|apply Z.eq_dec]. Defined.

Record pst := { p_mult : Z -> Z -> list ival;    (* level -> cell index -> value *)
                p_loc : Z -> Z -> list ival;
                p_rhs : Z -> list ival;          (* particle id -> value *)
                p_top : tstate;                  (* the virtual cells above the box (Spec/TopTree.v) *)
                p_box : list ival }.             (* the multipole of the whole box handed to the top tree *)

Definition pst0 : pst :=
  {| p_mult := fun _ _ => []; p_loc := fun _ _ => []; p_rhs := fun _ => []; p_top := tinit; p_box := [] |}.

Definition shiftv (v : list Z) (x : list ival) : list ival := map (fun '(q, s) => (q, map2 Z.add v s)) x.
(* the particles [ps], all at shift [s] *)
Definition tag (s : list Z) (ps : list Z) : list ival := map (fun q => (q, s)) ps.

(* target cell [t] of level [l], source at unwrapped relative offset [o]: the source is the copy displaced by
   floor((t_j + o_j) / 2^l) boxes *)
Definition img_shift (d : nat) (l t : Z) (o : list Z) : list Z :=
  map2 (fun tj oj => (tj + oj) / 2 ^ l) (unbox d t) o.

Definition vupd2 (f : Z -> Z -> list ival) (l i : Z) (v : list ival) : Z -> Z -> list ival :=
  fun l' i' => if (l' =? l) && (i' =? i) then f l' i' ++ v else f l' i'.
Definition vupd1 (f : Z -> list ival) (p : Z) (v : list ival) : Z -> list ival :=
  fun p' => if p' =? p then f p' ++ v else f p'.
Definition vupd_all (f : Z -> list ival) (ps : list Z) (v : Z -> list ival) : Z -> list ival :=
  fold_left (fun g p => vupd1 g p (v p)) ps f.

(* a kernel call of the in-box executor; L = leaf level *)
Definition rstep (d : nat) (L : Z) (s : pst) (c : call) : pst :=
  match c with
  | CP2M leaf parts =>
      {| p_mult := vupd2 (p_mult s) L leaf (tag (repeat 0 d) parts); p_loc := p_loc s; p_rhs := p_rhs s;
         p_top := p_top s; p_box := p_box s |}
  | CM2M l p ch =>
      {| p_mult := vupd2 (p_mult s) l p (flat_map (fun cc => p_mult s (l + 1) (fst cc)) ch); p_loc := p_loc s;
         p_rhs := p_rhs s; p_top := p_top s; p_box := p_box s |}
  | CM2L l t sr =>
      {| p_mult := p_mult s;
         p_loc := vupd2 (p_loc s) l t
                    (flat_map (fun sc => shiftv (img_shift d l t (dec7 d (snd sc))) (p_mult s l (fst sc))) sr);
         p_rhs := p_rhs s; p_top := p_top s; p_box := p_box s |}
  | CL2L l p ch =>
      {| p_mult := p_mult s;
         p_loc := fold_left (fun f cc => vupd2 f (l + 1) (fst cc) (p_loc s l p)) ch (p_loc s);
         p_rhs := p_rhs s; p_top := p_top s; p_box := p_box s |}
  | CL2P leaf parts =>
      {| p_mult := p_mult s; p_loc := p_loc s; p_rhs := vupd_all (p_rhs s) parts (fun _ => p_loc s L leaf);
         p_top := p_top s; p_box := p_box s |}
  | CP2P _ tgt code sp tp =>
      let sg := img_shift d L tgt (dec3 d code) in
      {| p_mult := p_mult s; p_loc := p_loc s;
         p_rhs := vupd_all (vupd_all (p_rhs s) tp (fun _ => tag sg sp)) sp (fun _ => tag (map Z.opp sg) tp);
         p_top := p_top s; p_box := p_box s |}
  | CP2PInner _ parts =>
      {| p_mult := p_mult s; p_loc := p_loc s;
         p_rhs := vupd_all (p_rhs s) parts (fun p => tag (repeat 0 d) (rm p parts));
         p_top := p_top s; p_box := p_box s |}
  | CP2PTsm _ _ _ _ _ => s
  | CAssert _ => s
  end.

Definition pstep (d : nat) (k L : Z) (s : pst) (c : pcall) : pst :=
  match c with
  | Real c => rstep d L s c
  | Top tc =>
      let top' := tstep d k (p_top s) tc in
      match tc with
      | TM2M_base _ ch =>
          {| p_mult := p_mult s; p_loc := p_loc s; p_rhs := p_rhs s; p_top := top';
             p_box := flat_map (fun cc => p_mult s 1 (fst cc)) ch |}
      | TL2L_base _ ch =>
          {| p_mult := p_mult s;
             p_loc := fold_left (fun f cc => vupd2 f 1 (fst cc) (flat_map (fun sg => shiftv sg (p_box s)) (tres top')))
                                ch (p_loc s);
             p_rhs := p_rhs s; p_top := top'; p_box := p_box s |}
      | _ => {| p_mult := p_mult s; p_loc := p_loc s; p_rhs := p_rhs s; p_top := top'; p_box := p_box s |}
      end
  end.

Definition prun (d : nat) (k L : Z) (calls : list pcall) (s : pst) : pst := fold_left (pstep d k L) calls s.

(* the right-hand side of the main statement *)
Definition expected (d : nat) (n lo hi p q : Z) (sigma : list Z) : nat :=
  if (0 <=? q) && (q <? n) && (Nat.eqb (length sigma) d) && forallb (fun x => (lo <=? x) && (x <=? hi)) sigma
     && negb ((q =? p) && forallb (Z.eqb 0) sigma) then 1%nat else 0%nat.

(* ------------------------------------------------------------------ *)
(* 2. validation of the definitions and of the statement by computation *)
(* ------------------------------------------------------------------ *)
(* for every particle p: the number of values is (number of particles) * (images in the cube) - 1, and the count of
   (q, sigma) is the expected one for every q in [-1, n] and every sigma of a strictly larger cube (and two vectors
   of a wrong length) *)
Definition per_check (d : nat) (H B : Z) (mode : bool) (k : Z) (idx : list Z) : bool :=
  let t := build (parent d) H B mode idx in
  let st := prun d k (H - 1) (periodic_run d k 1 t) pst0 in
  let n := zlen idx in
  let (lo, hi) := repetition_interval k in
  let probes := cube d (lo - 1) (hi + 1) ++ [[]; repeat 0 (S d)] in
  forallb (fun p =>
    (zlen (p_rhs st p) =? n * (hi - lo + 1) ^ Z.of_nat d - 1)
    && forallb (fun q => forallb (fun sigma =>
         Nat.eqb (count_occ ival_eq_dec (p_rhs st p) (q, sigma)) (expected d n lo hi p q sigma)) probes)
         (zrange (-1) n)) (zseq n).

(* d = 1 *)
Example chk_1_2_m1 : per_check 1 2 2 false (-1) [0; 1; 1; 0; 1] = true. Proof. vm_compute. reflexivity. Qed.
Example chk_1_2_0 : per_check 1 2 1 false 0 [1; 0; 0] = true. Proof. vm_compute. reflexivity. Qed.
Example chk_1_2_1 : per_check 1 2 100 true 1 [0; 1] = true. Proof. vm_compute. reflexivity. Qed.
Example chk_1_2_2 : per_check 1 2 2 true 2 [1; 1; 0] = true. Proof. vm_compute. reflexivity. Qed.
Example chk_1_2_single : per_check 1 2 2 false 1 [1] = true. Proof. vm_compute. reflexivity. Qed.
Example chk_1_3_m1 : per_check 1 3 1 false (-1) [3; 0; 2; 2; 1; 0] = true. Proof. vm_compute. reflexivity. Qed.
Example chk_1_3_0 : per_check 1 3 2 true 0 [0; 1; 2; 3] = true. Proof. vm_compute. reflexivity. Qed.
Example chk_1_3_1 : per_check 1 3 100 false 1 [2; 2; 2; 0] = true. Proof. vm_compute. reflexivity. Qed.
Example chk_1_3_2 : per_check 1 3 2 false 2 [3; 1] = true. Proof. vm_compute. reflexivity. Qed.
Example chk_1_3_single : per_check 1 3 1 true 0 [2] = true. Proof. vm_compute. reflexivity. Qed.
Example chk_1_4_m1 : per_check 1 4 2 false (-1) [7; 0; 3; 4; 4; 1] = true. Proof. vm_compute. reflexivity. Qed.
Example chk_1_4_0 : per_check 1 4 1 true 0 [0; 1; 2; 3; 4; 5; 6; 7] = true. Proof. vm_compute. reflexivity. Qed.
Example chk_1_4_1 : per_check 1 4 100 false 1 [5; 5; 0; 7; 2] = true. Proof. vm_compute. reflexivity. Qed.
Example chk_1_4_2 : per_check 1 4 2 true 2 [6; 1; 1] = true. Proof. vm_compute. reflexivity. Qed.
Example chk_1_4_single : per_check 1 4 2 false 2 [0] = true. Proof. vm_compute. reflexivity. Qed.
(* d = 2 *)
Example chk_2_2_m1 : per_check 2 2 2 false (-1) [0; 3; 3; 1] = true. Proof. vm_compute. reflexivity. Qed.
Example chk_2_2_0 : per_check 2 2 1 true 0 [0; 1; 2; 3] = true. Proof. vm_compute. reflexivity. Qed.
Example chk_2_2_1 : per_check 2 2 100 false 1 [2; 2; 1] = true. Proof. vm_compute. reflexivity. Qed.
Example chk_2_2_single : per_check 2 2 2 true 1 [3] = true. Proof. vm_compute. reflexivity. Qed.
Example chk_2_3_m1 : per_check 2 3 2 true (-1) [0; 15; 6; 6; 9] = true. Proof. vm_compute. reflexivity. Qed.
Example chk_2_3_0 : per_check 2 3 1 false 0 [5; 10; 0; 3] = true. Proof. vm_compute. reflexivity. Qed.
Example chk_2_3_1 : per_check 2 3 100 true 1 [12; 1; 7] = true. Proof. vm_compute. reflexivity. Qed.

(* ------------------------------------------------------------------ *)
(* 3. counting image values                                            *)
(* ------------------------------------------------------------------ *)
Definition ci (v : list ival) (y : ival) : nat := count_occ ival_eq_dec v y.
Definition ieqb (a b : ival) : bool := (fst a =? fst b) && veqb (snd a) (snd b).

Lemma veqb_eq : forall a b, veqb a b = true <-> a = b.
Proof.
  unfold veqb. induction a as [|x a IH]; intros [|y b]; cbn [list_eqb]; split; intros E; try reflexivity; try discriminate.
  - apply andb_true_iff in E. destruct E as [E1 E2]. apply Z.eqb_eq in E1. apply IH in E2. congruence.
  - injection E as -> ->. rewrite Z.eqb_refl. apply IH. reflexivity.
Qed.

Lemma veqb_refl a : veqb a a = true.
Proof. apply veqb_eq. reflexivity. Qed.

Lemma veqb_sym a b : veqb a b = veqb b a.
Proof. apply eq_true_iff_eq. rewrite !veqb_eq. split; congruence. Qed.

Lemma veqb_neq a b : a <> b -> veqb a b = false.
Proof. intros Hne. destruct (veqb a b) eqn:E; [|reflexivity]. apply veqb_eq in E. contradiction. Qed.

Lemma ieqb_eq a b : ieqb a b = true <-> a = b.
Proof.
  destruct a as [q s], b as [q' s']. unfold ieqb. cbn [fst snd].
  rewrite andb_true_iff, Z.eqb_eq, veqb_eq. split; [intros [-> ->]; reflexivity|intros E; injection E; auto].
Qed.

Lemma ci_nil y : ci [] y = 0%nat.
Proof. reflexivity. Qed.

Lemma ci_app a b y : ci (a ++ b) y = (ci a y + ci b y)%nat.
Proof. apply count_occ_app. Qed.

Lemma ci_cons a v y : ci (a :: v) y = (b2n (ieqb a y) + ci v y)%nat.
Proof.
  unfold ci. cbn [count_occ]. destruct (ival_eq_dec a y) as [E|E].
  - rewrite (proj2 (ieqb_eq a y) E). reflexivity.
  - destruct (ieqb a y) eqn:E'; [apply ieqb_eq in E'; contradiction|reflexivity].
Qed.

Lemma ci_flat_map {A} (f : A -> list ival) l y : ci (flat_map f l) y = sumn (fun a => ci (f a) y) l.
Proof. induction l as [|a l IH]; [reflexivity|]. cbn [flat_map]. rewrite ci_app, sumn_cons, IH. reflexivity. Qed.

Lemma ci_perm v v' y : Permutation v v' -> ci v y = ci v' y.
Proof. intros HP. apply (proj1 (Permutation_count_occ ival_eq_dec v v') HP). Qed.

Lemma ci_ext_shiftv v m m' : (forall y, ci m y = ci m' y) -> forall y, ci (shiftv v m) y = ci (shiftv v m') y.
Proof.
  intros HE y. apply ci_perm. unfold shiftv. apply Permutation_map.
  apply (proj2 (Permutation_count_occ ival_eq_dec m m')). exact HE.
Qed.

Lemma ci_in v y : In y v -> (0 < ci v y)%nat.
Proof. intros Hin. apply (proj1 (count_occ_In ival_eq_dec v y) Hin). Qed.

Lemma ci_tag s ps q s' : ci (tag s ps) (q, s') = (cnt ps q * b2n (veqb s' s))%nat.
Proof.
  unfold tag. induction ps as [|a ps IH]; [reflexivity|]. cbn [map]. rewrite ci_cons, cnt_cons, IH.
  unfold ieqb. cbn [fst snd]. rewrite (veqb_sym s s').
  destruct (a =? q); destruct (veqb s' s); cbn [andb b2n]; lia.
Qed.

Lemma map2_add_zeros v : map2 Z.add v (repeat 0 (length v)) = v.
Proof. induction v as [|x v IH]; [reflexivity|]. cbn [length repeat map2]. rewrite IH. f_equal. lia. Qed.

(* shifting a value that only holds zero shifts *)
Lemma ci_shiftv_zero d v m q s : length v = d -> (forall a, In a m -> snd a = repeat 0 d) ->
  ci (shiftv v m) (q, s) = ci m (q, repeat 0 d) *n b2n (veqb s v).
Proof.
  intros Hv. induction m as [|a m IH]; intros Hz; [reflexivity|].
  unfold shiftv in *. cbn [map]. rewrite !ci_cons, IH by (intros b Hb; apply Hz; right; exact Hb).
  destruct a as [q0 s0]. assert (E : s0 = repeat 0 d) by (apply (Hz (q0, s0)); left; reflexivity). subst s0.
  rewrite <- Hv at 1. rewrite map2_add_zeros. unfold ieqb. cbn [fst snd]. rewrite veqb_refl, andb_true_r, (veqb_sym v s).
  destruct (q0 =? q); destruct (veqb s v); cbn [andb b2n]; lia.
Qed.

(* reading the state after an update *)
Lemma vupd2_ci f l i v l' i' y :
  ci (vupd2 f l i v l' i') y = (ci (f l' i') y + (if ((l' =? l) && (i' =? i))%Z then ci v y else 0))%nat.
Proof. unfold vupd2. destruct ((l' =? l) && (i' =? i)); [apply ci_app|lia]. Qed.

Lemma vupd1_ci f p v p' y :
  ci (vupd1 f p v p') y = (ci (f p') y + (if (p' =? p)%Z then ci v y else 0))%nat.
Proof. unfold vupd1. destruct (p' =? p); [apply ci_app|lia]. Qed.

Lemma vupd_all_ci : forall ps f v p' y,
  ci (vupd_all f ps v p') y = (ci (f p') y + cnt ps p' * ci (v p') y)%nat.
Proof.
  unfold vupd_all. induction ps as [|a ps IH]; intros f v p' y.
  - cbn [fold_left]. rewrite cnt_nil. lia.
  - cbn [fold_left]. rewrite IH, vupd1_ci, cnt_cons. rewrite (Z.eqb_sym p' a).
    destruct (Z.eqb_spec a p') as [->|E]; cbn [b2n]; lia.
Qed.

Lemma fold_vupd2_ci (l0 : Z) (v : list ival) : forall (ch : list (Z * Z)) f l' x y,
  ci (fold_left (fun g cc => vupd2 g l0 (fst cc) v) ch f l' x) y
  = (ci (f l' x) y + sumn (fun cc => if ((l' =? l0) && (x =? fst cc))%Z then ci v y else 0%nat) ch)%nat.
Proof.
  induction ch as [|c ch IH]; intros f l' x y.
  - cbn [fold_left]. rewrite sumn_nil. lia.
  - cbn [fold_left]. rewrite IH, vupd2_ci, sumn_cons. lia.
Qed.

(* ------------------------------------------------------------------ *)
(* 4. contribution of an elementary record, read in a given state      *)
(* ------------------------------------------------------------------ *)
Section Records.
Variable d : nat.
Variable L : Z.

Definition pcm (s : pst) (e : elem) (l x : Z) (y : ival) : nat :=
  match e with
  | EP2M leaf parts => if (l =? L) && (x =? leaf) then ci (tag (repeat 0 d) parts) y else 0%nat
  | EM2M l' p c _ => if (l =? l') && (x =? p) then ci (p_mult s (l' + 1) c) y else 0%nat
  | _ => 0%nat
  end.

Definition pcl (s : pst) (e : elem) (l x : Z) (y : ival) : nat :=
  match e with
  | EM2L l' t b code =>
      if (l =? l') && (x =? t) then ci (shiftv (img_shift d l' t (dec7 d code)) (p_mult s l' b)) y else 0%nat
  | EL2L l' p c _ => if (l =? l' + 1) && (x =? c) then ci (p_loc s l' p) y else 0%nat
  | _ => 0%nat
  end.

Definition pcr (s : pst) (e : elem) (p : Z) (y : ival) : nat :=
  match e with
  | EL2P leaf parts => cnt parts p *n ci (p_loc s L leaf) y
  | EP2P _ tgt code sp tp =>
      cnt tp p *n ci (tag (img_shift d L tgt (dec3 d code)) sp) y
      +n cnt sp p *n ci (tag (map Z.opp (img_shift d L tgt (dec3 d code))) tp) y
  | EP2PInner _ parts => cnt parts p *n ci (tag (repeat 0 d) (rm p parts)) y
  | _ => 0%nat
  end.

Definition rrun (tr : list call) (s : pst) : pst := fold_left (rstep d L) tr s.

Lemma rstep_mult s c l x y :
  ci (p_mult (rstep d L s c) l x) y
  = (ci (p_mult s l x) y + sumn (fun e => pcm s e l x y) (elems_of_call c))%nat.
Proof.
  destruct c; cbn [rstep p_mult elems_of_call];
    try (rewrite ?sumn_map, ?sumn_cons, ?sumn_nil; cbn [pcm]; rewrite ?sumn_zero by (intros; reflexivity); lia).
  - rewrite vupd2_ci. rewrite sumn_cons, sumn_nil. cbn [pcm]. lia.
  - rewrite vupd2_ci, sumn_map. cbn [pcm fst snd]. rewrite sumn_if, ci_flat_map. reflexivity.
Qed.

Lemma rstep_loc s c l x y :
  ci (p_loc (rstep d L s c) l x) y
  = (ci (p_loc s l x) y + sumn (fun e => pcl s e l x y) (elems_of_call c))%nat.
Proof.
  destruct c; cbn [rstep p_loc elems_of_call];
    try (rewrite ?sumn_map, ?sumn_cons, ?sumn_nil; cbn [pcl]; rewrite ?sumn_zero by (intros; reflexivity); lia).
  - rewrite vupd2_ci, sumn_map. cbn [pcl fst snd]. rewrite sumn_if, ci_flat_map. reflexivity.
  - rewrite fold_vupd2_ci, sumn_map. cbn [pcl fst snd]. reflexivity.
Qed.

Lemma rstep_rhs s c p y :
  ci (p_rhs (rstep d L s c) p) y
  = (ci (p_rhs s p) y + sumn (fun e => pcr s e p y) (elems_of_call c))%nat.
Proof.
  destruct c; cbn [rstep p_rhs elems_of_call];
    try (rewrite ?sumn_map, ?sumn_cons, ?sumn_nil; cbn [pcr]; rewrite ?sumn_zero by (intros; reflexivity); lia).
  - rewrite vupd_all_ci, sumn_cons, sumn_nil. cbn [pcr]. lia.
  - cbv zeta. cbn [p_rhs]. rewrite !vupd_all_ci, sumn_cons, sumn_nil. cbn [pcr]. lia.
  - rewrite vupd_all_ci, sumn_cons, sumn_nil. cbn [pcr]. lia.
Qed.

Lemma rstep_top s c : p_top (rstep d L s c) = p_top s /\ p_box (rstep d L s c) = p_box s.
Proof. destruct c; split; reflexivity. Qed.

Lemma rrun_app a b w : rrun (a ++ b) w = rrun b (rrun a w).
Proof. unfold rrun. apply fold_left_app. Qed.

Lemma rrun_top tr : forall s, p_top (rrun tr s) = p_top s /\ p_box (rrun tr s) = p_box s.
Proof.
  induction tr as [|c tr IH]; intros s; [split; reflexivity|].
  change (rrun (c :: tr) s) with (rrun tr (rstep d L s c)).
  destruct (IH (rstep d L s c)) as [H1 H2]. destruct (rstep_top s c) as [H3 H4]. split; congruence.
Qed.

(* a pass whose records never read what the pass writes *)
Section RunGen.
Variables RdM RdL : Z -> Z -> Prop.

Definition pagree (s s' : pst) : Prop :=
  (forall l x y, RdM l x -> ci (p_mult s' l x) y = ci (p_mult s l x) y) /\
  (forall l x y, RdL l x -> ci (p_loc s' l x) y = ci (p_loc s l x) y).

Definition peok (e : elem) : Prop :=
  (forall s s', pagree s s' ->
     (forall l x y, pcm s' e l x y = pcm s e l x y) /\
     (forall l x y, pcl s' e l x y = pcl s e l x y) /\
     (forall p y, pcr s' e p y = pcr s e p y)) /\
  (forall s l x y, RdM l x -> pcm s e l x y = 0%nat) /\
  (forall s l x y, RdL l x -> pcl s e l x y = 0%nat).

Lemma rstep_agree s c : Forall peok (elems_of_call c) -> pagree s (rstep d L s c).
Proof.
  intros Hok. rewrite Forall_forall in Hok. split; intros l x y Hr.
  - rewrite rstep_mult, sumn_zero; [lia|]. intros e He. apply (Hok e He). exact Hr.
  - rewrite rstep_loc, sumn_zero; [lia|]. intros e He. apply (Hok e He). exact Hr.
Qed.

Theorem rrun_counts : forall tr, Forall peok (elementary tr) -> forall s,
  (forall l x y, ci (p_mult (rrun tr s) l x) y
                 = (ci (p_mult s l x) y + sumn (fun e => pcm s e l x y) (elementary tr))%nat) /\
  (forall l x y, ci (p_loc (rrun tr s) l x) y
                 = (ci (p_loc s l x) y + sumn (fun e => pcl s e l x y) (elementary tr))%nat) /\
  (forall p y, ci (p_rhs (rrun tr s) p) y
                 = (ci (p_rhs s p) y + sumn (fun e => pcr s e p y) (elementary tr))%nat).
Proof.
  induction tr as [|c tr IH]; intros Hok s.
  - cbn. repeat split; intros; lia.
  - change (elementary (c :: tr)) with (elems_of_call c ++ elementary tr) in *.
    apply Forall_app in Hok. destruct Hok as [Hc Htr].
    change (rrun (c :: tr) s) with (rrun tr (rstep d L s c)).
    destruct (IH Htr (rstep d L s c)) as (IM & IL & IR).
    pose proof (rstep_agree s c Hc) as Hag.
    assert (Hsame : forall e, In e (elementary tr) ->
              (forall l x y, pcm (rstep d L s c) e l x y = pcm s e l x y) /\
              (forall l x y, pcl (rstep d L s c) e l x y = pcl s e l x y) /\
              (forall p y, pcr (rstep d L s c) e p y = pcr s e p y)).
    { intros e He. rewrite Forall_forall in Htr. apply (proj1 (Htr e He) s (rstep d L s c) Hag). }
    repeat split.
    + intros l x y. rewrite IM, rstep_mult, sumn_app.
      rewrite (sumn_ext_in _ (fun e => pcm s e l x y) (elementary tr)); [lia|].
      intros e He. apply (Hsame e He).
    + intros l x y. rewrite IL, rstep_loc, sumn_app.
      rewrite (sumn_ext_in _ (fun e => pcl s e l x y) (elementary tr)); [lia|].
      intros e He. apply (Hsame e He).
    + intros p y. rewrite IR, rstep_rhs, sumn_app.
      rewrite (sumn_ext_in _ (fun e => pcr s e p y) (elementary tr)); [lia|].
      intros e He. apply (Hsame e He).
Qed.

Lemma peok_P2M leaf parts : ~ RdM L leaf -> peok (EP2M leaf parts).
Proof.
  intros Hn. split; [|split].
  - intros s s' _. repeat split; reflexivity.
  - intros s l x y Hr. cbn [pcm]. destruct (Z.eqb_spec l L) as [->|]; [|reflexivity].
    destruct (Z.eqb_spec x leaf) as [->|]; [contradiction|reflexivity].
  - reflexivity.
Qed.

Lemma peok_M2M l p c code : RdM (l + 1) c -> ~ RdM l p -> peok (EM2M l p c code).
Proof.
  intros Hr Hn. split; [|split].
  - intros s s' (HM & _). repeat split; try reflexivity.
    intros l' x y. cbn [pcm]. rewrite (HM _ _ y Hr). reflexivity.
  - intros s l' x y Hr'. cbn [pcm]. destruct (Z.eqb_spec l' l) as [->|]; [|reflexivity].
    destruct (Z.eqb_spec x p) as [->|]; [contradiction|reflexivity].
  - reflexivity.
Qed.

Lemma peok_M2L l t b code : RdM l b -> ~ RdL l t -> peok (EM2L l t b code).
Proof.
  intros Hr Hn. split; [|split].
  - intros s s' (HM & _). repeat split; try reflexivity.
    intros l' x y. cbn [pcl]. rewrite (ci_ext_shiftv _ (p_mult s' l b) (p_mult s l b)); [reflexivity|].
    intros y'. apply HM. exact Hr.
  - reflexivity.
  - intros s l' x y Hr'. cbn [pcl]. destruct (Z.eqb_spec l' l) as [->|]; [|reflexivity].
    destruct (Z.eqb_spec x t) as [->|]; [contradiction|reflexivity].
Qed.

Lemma peok_L2L l p c code : RdL l p -> ~ RdL (l + 1) c -> peok (EL2L l p c code).
Proof.
  intros Hr Hn. split; [|split].
  - intros s s' (_ & HL). repeat split; try reflexivity.
    intros l' x y. cbn [pcl]. rewrite (HL _ _ y Hr). reflexivity.
  - reflexivity.
  - intros s l' x y Hr'. cbn [pcl]. destruct (Z.eqb_spec l' (l + 1)) as [->|]; [|reflexivity].
    destruct (Z.eqb_spec x c) as [->|]; [contradiction|reflexivity].
Qed.

Lemma peok_L2P leaf parts : RdL L leaf -> peok (EL2P leaf parts).
Proof.
  intros Hr. split; [|split]; try reflexivity.
  intros s s' (_ & HL). repeat split; try reflexivity.
  intros p y. cbn [pcr]. rewrite (HL _ _ y Hr). reflexivity.
Qed.

Lemma peok_P2P a b code sp tp : peok (EP2P a b code sp tp).
Proof. split; [|split]; try reflexivity. intros s s' _. repeat split; reflexivity. Qed.

Lemma peok_P2PInner leaf parts : peok (EP2PInner leaf parts).
Proof. split; [|split]; try reflexivity. intros s s' _. repeat split; reflexivity. Qed.

End RunGen.
End Records.

(* ------------------------------------------------------------------ *)
(* 4b. geometry of the image shifts (uses Spec/GeometryPer.v)          *)
(* ------------------------------------------------------------------ *)
Section PerGeom.
Variable d : nat.
Hypothesis Hd : (0 < d)%nat.

(* unwrapped coordinates of the copy of cell c' displaced by s boxes, level l *)
Definition uimg (l : Z) (c' s : list Z) : list Z := map2 (fun cj sj => cj + 2 ^ l * sj) c' s.
Definition cubeb (r : Z) (o : list Z) : bool := Nat.eqb (length o) d && inbox (- r) r o.
(* the copy s of cell c' is in the interaction list of cell c (level l) / in the neighbour list of leaf c *)
Definition fimgb (l : Z) (c c' s : list Z) : bool :=
  Nat.eqb (length s) d && cubeb 3 (vsub (uimg l c' s) c) && negb (too_close (vsub (uimg l c' s) c))
  && parents_adjacent c (map2 Z.add c (vsub (uimg l c' s) c)).
Definition nimgb (l : Z) (c c' s : list Z) : bool :=
  Nat.eqb (length s) d && cubeb 1 (vsub (uimg l c' s) c) && negb (forallb (Z.eqb 0) (vsub (uimg l c' s) c)).

Definition farn (l x a : Z) (s : list Z) : nat :=
  sumn (fun sc => b2n ((fst sc =? a) && veqb s (img_shift d l x (dec7 d (snd sc))))) (ilist_spec d true l x).
Definition upn (L a b : Z) (s : list Z) : nat :=
  sumn (fun sc => b2n ((fst sc =? b) && veqb s (img_shift d L a (dec3 d (snd sc))))) (nlist_spec d true L true a).
Definition upn' (L a b : Z) (s : list Z) : nat :=
  sumn (fun sc => b2n ((fst sc =? b) && veqb s (map Z.opp (img_shift d L a (dec3 d (snd sc))))))
       (nlist_spec d true L true a).

Lemma cubeb_In r o : cubeb r o = true <-> In o (cube d (- r) r).
Proof.
  unfold cubeb. rewrite andb_true_iff, Nat.eqb_eq. symmetry. apply (In_cs d (- r) r o).
Qed.

Lemma img_shift_map l x o : img_shift d l x o = map (fun z => z / 2 ^ l) (map2 Z.add (unbox d x) o).
Proof.
  unfold img_shift. generalize (unbox d x). intros c. revert o.
  induction c as [|a c IH]; intros [|y o]; cbn [map2 map]; try reflexivity. rewrite IH. reflexivity.
Qed.

Lemma img_shift_length l x o : length o = d -> length (img_shift d l x o) = d.
Proof. intros Ho. unfold img_shift. rewrite map2_length; rewrite unbox_length; lia. Qed.

Lemma uimg_length l c' s : length c' = length s -> length (uimg l c' s) = length c'.
Proof. intros E. unfold uimg. apply map2_length. exact E. Qed.

Lemma uimg_nth l c' s j : length c' = length s -> (j < length c')%nat ->
  nth j (uimg l c' s) 0 = nth j c' 0 + 2 ^ l * nth j s 0.
Proof. intros E Hj. unfold uimg. apply (map2_nth (fun cj sj => cj + 2 ^ l * sj) 0 0 0); assumption. Qed.

Lemma floor_wrap_iff l : 0 <= l -> forall u c' s, length u = length c' -> Forall (fun z => 0 <= z < 2 ^ l) c' ->
  (wrap l u = c' /\ map (fun z => z / 2 ^ l) u = s) <-> (u = uimg l c' s /\ length s = length c').
Proof.
  intros Hl. pose proof (pow2_pos l Hl) as HP. unfold wrap, uimg.
  induction u as [|x u IH]; intros [|y c'] s Hlen HF; cbn [length] in Hlen; try lia.
  - cbn [map map2]. split.
    + intros [_ <-]. split; reflexivity.
    + intros [_ E]. destruct s; [split; reflexivity|discriminate].
  - inversion HF as [|? ? Hy HF']; subst. cbn [map].
    destruct s as [|z s]; [split; intros [E1 E2]; discriminate|].
    cbn [map2 length]. specialize (IH c' s ltac:(lia) HF'). split.
    + intros [E1 E2]. injection E1 as E1a E1b. injection E2 as E2a E2b.
      destruct (proj1 IH (conj E1b E2b)) as [Eu Es]. split; [|lia]. f_equal; [|exact Eu].
      subst y z. rewrite Z.add_comm. apply Z.div_mod. lia.
    + intros [E1 E2]. injection E1 as E1a E1b. assert (E2' : length s = length c') by lia.
      destruct (proj2 IH (conj E1b E2')) as [Ew Em].
      split; f_equal; try assumption.
      * subst x. replace (y + 2 ^ l * z) with (y + z * 2 ^ l) by ring. rewrite Z_mod_plus_full. apply Z.mod_small. lia.
      * subst x. replace (y + 2 ^ l * z) with (y + z * 2 ^ l) by ring. rewrite Z.div_add by lia. rewrite Z.div_small by lia. lia.
Qed.

Lemma Forall_range_of_nth l c : (forall j, (j < length c)%nat -> 0 <= nth j c 0 < 2 ^ l) -> Forall (fun z => 0 <= z < 2 ^ l) c.
Proof. intros Hn. apply Forall_nthZ. exact Hn. Qed.

(* the entry of offset o is the copy s of the cell c' iff o = (c' + 2^l s) - c *)
Lemma key_img l c c' o s : 0 <= l -> length c = d -> length c' = d -> length o = d ->
  Forall (fun z => 0 <= z < 2 ^ l) c' ->
  (box d (wrap l (map2 Z.add c o)) =? box d c') && veqb s (map (fun z => z / 2 ^ l) (map2 Z.add c o))
  = veqb o (vsub (uimg l c' s) c) && Nat.eqb (length s) d.
Proof.
  intros Hl Hc Hc' Ho HF. apply eq_true_iff_eq. rewrite !andb_true_iff, Z.eqb_eq, !veqb_eq, Nat.eqb_eq.
  assert (Hco : length (map2 Z.add c o) = d) by (rewrite map2_length; lia).
  assert (Hnn : Forall (fun z => 0 <= z) c') by (revert HF; apply Forall_impl; intros z Hz; lia).
  assert (Hlc : length (map2 Z.add c o) = length c') by lia.
  split.
  - intros [Eb Es]. apply box_inj in Eb;
      [|exact Hd|rewrite wrap_length; exact Hco|exact Hc'|apply wrap_nonneg; exact Hl|exact Hnn].
    destruct (proj1 (floor_wrap_iff l Hl _ c' s Hlc HF) (conj Eb (eq_sym Es))) as [Eu Hs].
    split; [|lia]. rewrite <- Eu. unfold vsub. symmetry. apply map2_add_sub. lia.
  - intros [Eo Hs]. assert (Eu : map2 Z.add c o = uimg l c' s).
    { rewrite Eo. apply add_vsub. rewrite uimg_length; lia. }
    assert (Hsc : length s = length c') by lia.
    destruct (proj2 (floor_wrap_iff l Hl _ c' s Hlc HF) (conj Eu Hsc)) as [Ew Em].
    split; [rewrite Ew; reflexivity|symmetry; exact Em].
Qed.

Lemma sumn_cube_pick r (o : list Z) (f : list Z -> nat) :
  sumn (fun a => if veqb a o then f a else 0%nat) (cube d (- r) r) = if cubeb r o then f o else 0%nat.
Proof.
  destruct (cubeb r o) eqn:E.
  - apply cubeb_In in E. rewrite (sumn_single _ _ o (NoDup_odometer _) E).
    + rewrite veqb_refl. reflexivity.
    + intros x _ Hne. rewrite veqb_neq by exact Hne. reflexivity.
  - apply sumn_zero. intros a Ha. rewrite veqb_neq; [reflexivity|]. intros ->.
    apply cubeb_In in Ha. congruence.
Qed.

Lemma unbox_range_F l x : 0 <= l -> 0 <= x < 2 ^ (l * dz d) ->
  length (unbox d x) = d /\ Forall (fun z => 0 <= z < 2 ^ l) (unbox d x).
Proof.
  intros Hl Hx. destruct (unbox_coords d l x Hd Hl Hx) as [Hlen Hr]. split; [exact Hlen|].
  apply Forall_nthZ. rewrite Hlen. exact Hr.
Qed.

Lemma farn_eval l x a s : 1 <= l -> 0 <= x < 2 ^ (l * dz d) -> 0 <= a < 2 ^ (l * dz d) ->
  farn l x a s = b2n (fimgb l (unbox d x) (unbox d a) s).
Proof.
  intros Hl Hx Ha. unfold farn. rewrite ilist_spec_sbi by (unfold ilist_active; lia).
  rewrite sumn_flat_map.
  destruct (unbox_range_F l x ltac:(lia) Hx) as [Hcl _].
  destruct (unbox_range_F l a ltac:(lia) Ha) as [Hal HaF].
  assert (Ea : a = box d (unbox d a)) by (symmetry; apply box_unbox; [exact Hd|lia]).
  set (c := unbox d x) in *. set (c' := unbox d a) in *.
  set (os := vsub (uimg l c' s) c).
  rewrite (sumn_ext_in _ (fun o => if veqb o os
     then b2n (Nat.eqb (length s) d && negb (too_close o) && parents_adjacent c (map2 Z.add c o)) else 0%nat)).
  2:{ intros o Ho. apply cube_Forall in Ho. destruct Ho as [Hol Hor].
      unfold sbi. cbv zeta.
      destruct (too_close o); [destruct (veqb o os); rewrite ?andb_false_r; reflexivity|].
      destruct (parents_adjacent c (map2 Z.add c o)); cbn [negb];
        [|destruct (veqb o os); rewrite ?andb_false_r; reflexivity].
      rewrite sumn_cons, sumn_nil. cbn [fst snd]. rewrite dec7_enc7 by assumption.
      rewrite img_shift_map. fold c. rewrite Ea. rewrite (key_img l c c' o s) by (try assumption; lia). fold os.
      destruct (veqb o os); destruct (Nat.eqb (length s) d); reflexivity. }
  rewrite (sumn_cube_pick 3). unfold fimgb. fold os.
  destruct (cubeb 3 os); destruct (Nat.eqb (length s) d); cbn [andb]; reflexivity.
Qed.

Lemma upn_eval L a b s : 0 <= L -> 0 <= a < 2 ^ (L * dz d) -> 0 <= b < 2 ^ (L * dz d) ->
  upn L a b s = b2n (nimgb L (unbox d a) (unbox d b) s && lex_positive d (vsub (uimg L (unbox d b) s) (unbox d a))).
Proof.
  intros HL Ha Hb. unfold upn. rewrite nlist_spec_sbn.
  rewrite sumn_flat_map.
  destruct (unbox_range_F L a HL Ha) as [Hcl _].
  destruct (unbox_range_F L b HL Hb) as [Hbl HbF].
  assert (Eb : b = box d (unbox d b)) by (symmetry; apply box_unbox; [exact Hd|lia]).
  set (c := unbox d a) in *. set (c' := unbox d b) in *.
  set (os := vsub (uimg L c' s) c).
  rewrite (sumn_ext_in _ (fun o => if veqb o os
     then b2n (Nat.eqb (length s) d && negb (forallb (Z.eqb 0) o) && lex_positive d o) else 0%nat)).
  2:{ intros o Ho. apply cube_Forall in Ho. destruct Ho as [Hol Hor].
      unfold sbn. cbv zeta.
      destruct (forallb (Z.eqb 0) o); [destruct (veqb o os); rewrite ?andb_false_r; reflexivity|].
      destruct (lex_positive d o); cbn [negb andb];
        [|destruct (veqb o os); rewrite ?andb_false_r; reflexivity].
      rewrite sumn_cons, sumn_nil. cbn [fst snd]. rewrite dec3_enc3 by assumption.
      rewrite img_shift_map. fold c. rewrite Eb. rewrite (key_img L c c' o s) by (try assumption; lia). fold os.
      destruct (veqb o os); destruct (Nat.eqb (length s) d); reflexivity. }
  rewrite (sumn_cube_pick 1). unfold nimgb. fold os.
  destruct (cubeb 1 os); destruct (Nat.eqb (length s) d); cbn [andb]; reflexivity.
Qed.

Lemma map_opp_invol s : map Z.opp (map Z.opp s) = s.
Proof. rewrite map_map. rewrite <- (map_id s) at 2. apply map_ext. intros x. lia. Qed.

Lemma veqb_opp s v : veqb s (map Z.opp v) = veqb (map Z.opp s) v.
Proof.
  apply eq_true_iff_eq. rewrite !veqb_eq. split.
  - intros ->. apply map_opp_invol.
  - intros <-. symmetry. apply map_opp_invol.
Qed.

Lemma upn'_upn L a b s : upn' L a b s = upn L a b (map Z.opp s).
Proof. unfold upn', upn. apply sumn_ext_in. intros sc _. rewrite veqb_opp. reflexivity. Qed.

Lemma vsub_uimg_opp L : forall ca cb s, length ca = length cb -> length cb = length s ->
  vsub (uimg L ca (map Z.opp s)) cb = map Z.opp (vsub (uimg L cb s) ca).
Proof.
  unfold vsub, uimg. induction ca as [|x ca IH]; intros [|y cb] [|z s] H1 H2; cbn [length] in *; try lia; [reflexivity|].
  cbn [map map2]. rewrite IH by lia. f_equal. ring.
Qed.

Lemma inbox_opp r o : inbox (- r) r (map Z.opp o) = inbox (- r) r o.
Proof. unfold inbox. induction o as [|x o IH]; [reflexivity|]. cbn [map forallb]. rewrite IH. f_equal. lia. Qed.

Lemma allzero_opp o : forallb (Z.eqb 0) (map Z.opp o) = forallb (Z.eqb 0) o.
Proof. induction o as [|x o IH]; [reflexivity|]. cbn [map forallb]. rewrite IH. f_equal. lia. Qed.

Lemma cubeb_opp r o : cubeb r (map Z.opp o) = cubeb r o.
Proof. unfold cubeb. rewrite map_length, inbox_opp. reflexivity. Qed.

(* the two half lists together see the image exactly when it is adjacent *)
Lemma near_total L a b s : 0 <= L -> 0 <= a < 2 ^ (L * dz d) -> 0 <= b < 2 ^ (L * dz d) ->
  upn L a b s +n upn' L b a s = b2n (nimgb L (unbox d a) (unbox d b) s).
Proof.
  intros HL Ha Hb. rewrite upn'_upn, !upn_eval by assumption.
  destruct (unbox_range_F L a HL Ha) as [Hal _]. destruct (unbox_range_F L b HL Hb) as [Hbl _].
  set (ca := unbox d a) in *. set (cb := unbox d b) in *.
  unfold nimgb. rewrite map_length.
  destruct (Nat.eqb (length s) d) eqn:Es; [|reflexivity]. apply Nat.eqb_eq in Es. cbn [andb].
  rewrite (vsub_uimg_opp L ca cb s) by lia. rewrite cubeb_opp, allzero_opp.
  set (o := vsub (uimg L cb s) ca).
  destruct (cubeb 1 o) eqn:Ec; [|reflexivity]. cbn [andb].
  destruct (forallb (Z.eqb 0) o) eqn:Ez; [reflexivity|]. cbn [negb andb].
  apply cubeb_In in Ec. apply cube_Forall in Ec. destruct Ec as [Hol Hor].
  assert (Hne : o <> repeat 0 d) by (apply (nonzero_eqb0 d o Hol); exact Ez).
  destruct (per_upper_one_side d o Hol Hor Hne) as [[E1 E2]|[E1 E2]]; rewrite E1, E2; reflexivity.
Qed.

(* ancestors of an image *)
Lemma ancv_uimg L l : 0 <= l <= L -> forall cb s, length cb = length s ->
  ancv L l (uimg L cb s) = uimg l (ancv L l cb) s.
Proof.
  intros Hl. unfold ancv, uimg.
  assert (HP : 0 < 2 ^ (L - l)) by (apply pow2_pos; lia).
  assert (E : 2 ^ L = 2 ^ l * 2 ^ (L - l)) by (rewrite <- Z.pow_add_r by lia; f_equal; lia).
  induction cb as [|y cb IH]; intros [|z s] Hlen; cbn [length] in Hlen; try lia; [reflexivity|].
  cbn [map map2]. rewrite IH by lia. f_equal.
  rewrite E. replace (y + 2 ^ l * 2 ^ (L - l) * z) with (y + 2 ^ l * z * 2 ^ (L - l)) by ring.
  rewrite Z.div_add by lia. reflexivity.
Qed.

Lemma unbox_anc L l x : 0 <= l <= L -> 0 <= x -> unbox d (anc d L l x) = ancv L l (unbox d x).
Proof.
  intros Hl Hx. unfold anc, ancv. replace (L - l) with (Z.of_nat (Z.to_nat (L - l))) by lia.
  apply unbox_div_pow; assumption.
Qed.

(* ------------------------------------------------------------------ *)
(* images inside the 3^d adjacent copies: link with Spec/GeometryPer.v  *)
(* ------------------------------------------------------------------ *)
Section Img.
Variables (L : Z) (ca cb s : list Z).
Hypothesis HL : 1 <= L.
Hypothesis Hca : length ca = d.
Hypothesis Hcb : length cb = d.
Hypothesis Hs : length s = d.
Hypothesis Rca : forall j, (j < d)%nat -> 0 <= nth j ca 0 < 2 ^ L.
Hypothesis Rcb : forall j, (j < d)%nat -> 0 <= nth j cb 0 < 2 ^ L.
Hypothesis Rs : forall j, (j < d)%nat -> -1 <= nth j s 0 <= 1.

Let u := uimg L cb s.

Let Hu : length u = d.
Proof. unfold u. rewrite uimg_length; lia. Qed.

Let Ru : forall j, (j < d)%nat -> - 2 ^ L <= nth j u 0 < 2 * 2 ^ L.
Proof.
  intros j Hj. unfold u. rewrite uimg_nth by lia. pose proof (Rcb j Hj). pose proof (Rs j Hj).
  assert (0 < 2 ^ L) by (apply pow2_pos; lia). nia.
Qed.

Lemma nimgb_near : nimgb L ca cb s = true <-> near_img d L ca u.
Proof.
  rewrite (near_img_iff d L ca u Hd HL Hca Hu Rca Ru).
  unfold nimgb. fold u. rewrite Hs, Nat.eqb_refl. cbn [andb].
  rewrite andb_true_iff, negb_true_iff. unfold cubeb. rewrite vsub_length by lia. rewrite Hu, Nat.eqb_refl. cbn [andb].
  rewrite adjv_0, inbox_spec, Forall_nthZ, vsub_length, Hu by lia.
  rewrite <- (vsub_zero_iff d L ca u Hd HL Hca Hu Rca Ru). split.
  - intros [HB HZ]. split; [rewrite HZ; discriminate|].
    intros j Hj. specialize (HB j Hj). rewrite vsub_nth in HB by lia. lia.
  - intros [HZ HB]. split; [|destruct (forallb (Z.eqb 0) (vsub u ca)); [exfalso; apply HZ; reflexivity|reflexivity]].
    intros j Hj. specialize (HB j Hj). rewrite vsub_nth by lia. lia.
Qed.

Lemma u_eq_ca : u = ca <-> (cb = ca /\ s = repeat 0 d).
Proof.
  split.
  - intros E.
    assert (Hj : forall j, (j < d)%nat -> nth j cb 0 = nth j ca 0 /\ nth j s 0 = 0).
    { intros j Hj. assert (Ej : nth j u 0 = nth j ca 0) by (rewrite E; reflexivity).
      unfold u in Ej. rewrite uimg_nth in Ej by lia.
      pose proof (Rca j Hj). pose proof (Rcb j Hj). pose proof (Rs j Hj).
      assert (0 < 2 ^ L) by (apply pow2_pos; lia).
      assert (Hc3 : nth j s 0 = -1 \/ nth j s 0 = 0 \/ nth j s 0 = 1) by lia.
      destruct Hc3 as [E3|[E3|E3]]; rewrite E3 in *; lia. }
    split.
    + apply nth_ext with (d := 0) (d' := 0); [lia|]. intros j Hj'. apply Hj. lia.
    + apply nth_ext with (d := 0) (d' := 0); [rewrite repeat_length; lia|].
      intros j Hj'. rewrite nth_repeat_lt by lia. apply Hj. lia.
  - intros [-> ->]. apply nth_ext with (d := 0) (d' := 0); [lia|].
    intros j Hj'. unfold u. rewrite uimg_nth by (rewrite ?repeat_length; lia).
    rewrite nth_repeat_lt by lia. lia.
Qed.

Section Lvl.
Variable l : Z.
Hypothesis Hl : 1 <= l <= L.

Let cal := ancv L l ca.
Let cbl := ancv L l cb.
Let ul := ancv L l u.

Let cal_len : length cal = d. Proof. unfold cal. rewrite ancv_length. exact Hca. Qed.
Let cbl_len : length cbl = d. Proof. unfold cbl. rewrite ancv_length. exact Hcb. Qed.
Let ul_eq : ul = uimg l cbl s. Proof. unfold ul, u, cbl. apply ancv_uimg; lia. Qed.
Let ul_len : length ul = d. Proof. unfold ul. rewrite ancv_length. exact Hu. Qed.
Let cal_rng : forall j, (j < d)%nat -> 0 <= nth j cal 0 < 2 ^ l.
Proof.
  intros j Hj. unfold cal. rewrite ancv_nth.
  pose proof (anc_rng L l (nth j ca 0) 0 1 ltac:(lia)) as HR. pose proof (Rca j Hj). lia.
Qed.
Let ul_rng : forall j, (j < d)%nat -> - 2 ^ l <= nth j ul 0 < 2 * 2 ^ l.
Proof.
  intros j Hj. unfold ul. rewrite ancv_nth.
  pose proof (anc_rng L l (nth j u 0) (-1) 2 ltac:(lia)) as HR. pose proof (Ru j Hj). lia.
Qed.
Let cal_nonneg : Forall (fun x => 0 <= x) cal.
Proof. apply Forall_nthZ. rewrite cal_len. intros j Hj. apply (cal_rng j Hj). Qed.

Lemma fimgb_far : fimgb l cal cbl s = true <-> far_img d L l ca u.
Proof.
  unfold far_img. fold cal ul.
  rewrite (per_ilist_mem d l cal _ _ Hd ltac:(lia) cal_len cal_nonneg).
  unfold fimgb. rewrite <- ul_eq. rewrite Hs, Nat.eqb_refl. cbn [andb].
  assert (H2 : 2 <= 2 ^ l).
  { change 2 with (2 ^ 1) at 1. apply Z.pow_le_mono_r; lia. }
  split.
  - intros HB. apply andb_true_iff in HB. destruct HB as [HB Hpa]. apply andb_true_iff in HB. destruct HB as [Hcu Htc].
    exists (vsub ul cal). split; [apply cubeb_In in Hcu; exact Hcu|].
    split; [apply negb_true_iff; exact Htc|]. split; [exact Hpa|].
    rewrite add_vsub by lia. split; reflexivity.
  - intros (o & Ho & Htc & Hpa & Ebox & Eenc).
    pose proof Ho as Ho'. apply cube_Forall in Ho'. destruct Ho' as [Hlen Hor]. rewrite Forall_nthZ, Hlen in Hor.
    assert (E : o = vsub ul cal).
    { apply (offset_recover 7 3 3 d l cal o ul Hd ltac:(lia) ltac:(lia) ltac:(lia) cal_len Hlen ul_len).
      - intros j Hj. specialize (Hor j Hj). pose proof (cal_rng j Hj). pose proof (ul_rng j Hj).
        cbv beta in Hor. lia.
      - symmetry. exact Ebox.
      - symmetry. exact Eenc. }
    subst o. rewrite Hpa, Htc. rewrite (proj2 (cubeb_In 3 _) Ho). reflexivity.
Qed.
End Lvl.
End Img.

Lemma pow2_double l : 1 <= l -> 2 ^ l = 2 * 2 ^ (l - 1).
Proof. intros Hl. replace l with (Z.succ (l - 1)) at 1 by lia. rewrite Z.pow_succ_r by lia. reflexivity. Qed.

(* whatever the lists deliver lies inside the 3^d adjacent copies *)
Lemma fimgb_range l c c' s : 1 <= l -> length c = d -> length c' = d ->
  (forall j, (j < d)%nat -> 0 <= nth j c 0 < 2 ^ l) -> (forall j, (j < d)%nat -> 0 <= nth j c' 0 < 2 ^ l) ->
  fimgb l c c' s = true -> length s = d /\ forall j, (j < d)%nat -> -1 <= nth j s 0 <= 1.
Proof.
  intros Hl Hc Hc' Rc Rc' HB. unfold fimgb in HB.
  apply andb_true_iff in HB. destruct HB as [HB Hpa]. apply andb_true_iff in HB. destruct HB as [HB _].
  apply andb_true_iff in HB. destruct HB as [Hs _]. apply Nat.eqb_eq in Hs. split; [exact Hs|].
  assert (Hul : length (uimg l c' s) = d) by (rewrite uimg_length; lia).
  rewrite add_vsub in Hpa by lia.
  rewrite (parents_adjacent_nth d Hd c _ Hc Hul) in Hpa.
  intros j Hj. specialize (Hpa j Hj). rewrite uimg_nth in Hpa by lia.
  pose proof (Rc j Hj) as R1. pose proof (Rc' j Hj) as R2.
  pose proof (pow2_double l Hl) as E2.
  assert (HP : 0 < 2 ^ (l - 1)) by (apply pow2_pos; lia).
  set (P := 2 ^ (l - 1)) in *. rewrite E2 in *.
  set (sj := nth j s 0) in *. set (cj := nth j c 0) in *. set (cj' := nth j c' 0) in *.
  destruct (Z_le_gt_dec 2 sj) as [Hbig|Hbig]; [exfalso; assert (2 * P * sj >= 4 * P) by nia; lia|].
  destruct (Z_le_gt_dec sj (-2)) as [Hsm|Hsm]; [exfalso; assert (2 * P * sj <= - 4 * P) by nia; lia|]. lia.
Qed.

Lemma nimgb_range L c c' s : 0 <= L -> length c = d -> length c' = d ->
  (forall j, (j < d)%nat -> 0 <= nth j c 0 < 2 ^ L) -> (forall j, (j < d)%nat -> 0 <= nth j c' 0 < 2 ^ L) ->
  nimgb L c c' s = true -> length s = d /\ forall j, (j < d)%nat -> -1 <= nth j s 0 <= 1.
Proof.
  intros HL Hc Hc' Rc Rc' HB. unfold nimgb in HB.
  apply andb_true_iff in HB. destruct HB as [HB _]. apply andb_true_iff in HB. destruct HB as [Hs Hcu].
  apply Nat.eqb_eq in Hs. split; [exact Hs|].
  assert (Hul : length (uimg L c' s) = d) by (rewrite uimg_length; lia).
  apply cubeb_In, In_cube in Hcu. destruct Hcu as [_ Hcu].
  intros j Hj. specialize (Hcu j Hj). rewrite vsub_nth, uimg_nth in Hcu by lia.
  pose proof (Rc j Hj) as R1. pose proof (Rc' j Hj) as R2.
  assert (HP : 0 < 2 ^ L) by (apply pow2_pos; lia).
  set (P := 2 ^ L) in *.
  set (sj := nth j s 0) in *. set (cj := nth j c 0) in *. set (cj' := nth j c' 0) in *.
  destruct (Z_le_gt_dec 2 sj) as [Hbig|Hbig]; [exfalso; assert (P * sj >= 2 * P) by nia; lia|].
  destruct (Z_le_gt_dec sj (-2)) as [Hsm|Hsm]; [exfalso; assert (P * sj <= - 2 * P) by nia; lia|]. lia.
Qed.

Lemma inbox_nth lo hi s : inbox lo hi s = true <-> forall j, (j < length s)%nat -> lo <= nth j s 0 <= hi.
Proof. rewrite inbox_spec, Forall_nthZ. reflexivity. Qed.

(* MAIN geometric statement: the level-l interaction lists (l = 1..L) of the ancestors of leaf a, the two half
   neighbour lists and the leaf itself deliver the copy s of leaf b exactly once when s is in [-1,1]^d
   (except the leaf's own particle p in the central box), and never otherwise *)
Theorem geom_once : forall L a b s p q, 1 <= L -> 0 <= a < 2 ^ (L * dz d) -> 0 <= b < 2 ^ (L * dz d) -> (p = q -> a = b) ->
  sumn (fun l => farn l (anc d L l a) (anc d L l b) s) (zrange 1 L) +n (upn L a b s +n upn' L b a s)
  +n b2n (negb (q =? p) && (b =? a)) *n b2n (veqb s (repeat 0 d))
  = b2n (Nat.eqb (length s) d && inbox (-1) 1 s && negb ((q =? p) && veqb s (repeat 0 d))).
Proof.
  intros L a b s p q HL Ha Hb Hpq.
  destruct (unbox_range_F L a ltac:(lia) Ha) as [Hca Fca]. destruct (unbox_range_F L b ltac:(lia) Hb) as [Hcb Fcb].
  pose proof Fca as Rca. rewrite Forall_nthZ, Hca in Rca. pose proof Fcb as Rcb. rewrite Forall_nthZ, Hcb in Rcb.
  rewrite near_total by (try assumption; lia).
  rewrite (sumn_ext_in _ (fun l => b2n (fimgb l (ancv L l (unbox d a)) (ancv L l (unbox d b)) s))).
  2:{ intros l Hl. apply In_zrange in Hl. rewrite farn_eval; [|lia|apply anc_range; [lia|exact Ha]|apply anc_range; [lia|exact Hb]].
      rewrite !unbox_anc by lia. reflexivity. }
  set (ca := unbox d a) in *. set (cb := unbox d b) in *.
  assert (Hrng : forall l, 1 <= l <= L -> forall c, length c = d -> (forall j, (j < d)%nat -> 0 <= nth j c 0 < 2 ^ L) ->
            forall j, (j < d)%nat -> 0 <= nth j (ancv L l c) 0 < 2 ^ l).
  { intros l Hl c Hc Rc j Hj. rewrite ancv_nth. pose proof (anc_rng L l (nth j c 0) 0 1 ltac:(lia)) as HR.
    pose proof (Rc j Hj). lia. }
  destruct (Nat.eqb (length s) d && inbox (-1) 1 s) eqn:Ein; cbn [andb].
  - apply andb_true_iff in Ein. destruct Ein as [Hs Rs]. apply Nat.eqb_eq in Hs.
    rewrite inbox_nth, Hs in Rs.
    pose proof (fun l Hl => fimgb_far L ca cb s HL Hca Hcb Hs Rca Rcb Rs l Hl) as Hfar.
    pose proof (nimgb_near L ca cb s HL Hca Hcb Hs Rca Rcb Rs) as Hnear.
    pose proof (u_eq_ca L ca cb s HL Hca Hcb Hs Rca Rcb Rs) as Hueq.
    set (u := uimg L cb s) in *.
    assert (Hu : length u = d) by (unfold u; rewrite uimg_length; lia).
    assert (Fu : Forall (fun x => - 2 ^ L <= x < 2 * 2 ^ L) u).
    { apply Forall_nthZ. rewrite Hu. intros j Hj. unfold u. rewrite uimg_nth by lia.
      pose proof (Rcb j Hj). pose proof (Rs j Hj). assert (0 < 2 ^ L) by (apply pow2_pos; lia). nia. }
    assert (Hab : cb = ca <-> b = a).
    { split; [|intros ->; reflexivity]. intros E. unfold ca, cb in E.
      rewrite <- (box_unbox d a Hd), <- (box_unbox d b Hd) by lia. rewrite E. reflexivity. }
    assert (Hfar0 : (forall l, 1 <= l <= L -> ~ far_img d L l ca u) ->
              sumn (fun l => b2n (fimgb l (ancv L l ca) (ancv L l cb) s)) (zrange 1 L) = 0%nat).
    { intros Hno. apply sumn_zero. intros l Hl. apply In_zrange in Hl. apply b2n_false.
      destruct (fimgb l (ancv L l ca) (ancv L l cb) s) eqn:E; [|reflexivity].
      exfalso. apply (Hno l Hl). apply (Hfar l Hl). exact E. }
    destruct (per_near_xor_far_once d L ca u Hd HL Hca Hu Fca Fu)
      as [(Eu & Hnn & Hnf)|[(Nu & Hn & Hnf)|(Nu & Hnn & l & Hl & Hf & Huniq)]].
    + rewrite (Hfar0 Hnf). apply Hueq in Eu. destruct Eu as [Ecb Es]. apply Hab in Ecb. subst b.
      rewrite Es, veqb_refl, Z.eqb_refl, !andb_true_r.
      destruct (nimgb L ca cb (repeat 0 d)) eqn:En; [exfalso; apply Hnn; apply Hnear; rewrite Es; exact En|].
      destruct (q =? p); reflexivity.
    + rewrite (Hfar0 Hnf). rewrite (proj2 Hnear Hn).
      assert (Hz : (b =? a) && veqb s (repeat 0 d) = false).
      { destruct ((b =? a) && veqb s (repeat 0 d)) eqn:E; [|reflexivity]. exfalso. apply Nu. apply Hueq.
        apply andb_true_iff in E. destruct E as [E1 E2]. apply Z.eqb_eq in E1. apply veqb_eq in E2.
        split; [apply Hab; exact E1|exact E2]. }
      assert (Hz2 : (q =? p) && veqb s (repeat 0 d) = false).
      { destruct (Z.eqb_spec q p) as [E|E]; [|reflexivity]. cbn [andb].
        rewrite (Hpq (eq_sym E)), Z.eqb_refl in Hz. exact Hz. }
      rewrite Hz2. cbn [negb].
      destruct (q =? p); destruct (b =? a); destruct (veqb s (repeat 0 d)); cbn in *; try discriminate; reflexivity.
    + rewrite (sumn_single _ (zrange 1 L) l (NoDup_zrange _ _)).
      * rewrite (proj2 (Hfar l Hl) Hf).
        destruct (nimgb L ca cb s) eqn:En; [exfalso; apply Hnn; apply Hnear; reflexivity|].
        assert (Hz : (b =? a) && veqb s (repeat 0 d) = false).
        { destruct ((b =? a) && veqb s (repeat 0 d)) eqn:E; [|reflexivity]. exfalso. apply Nu. apply Hueq.
          apply andb_true_iff in E. destruct E as [E1 E2]. apply Z.eqb_eq in E1. apply veqb_eq in E2.
          split; [apply Hab; exact E1|exact E2]. }
        assert (Hz2 : (q =? p) && veqb s (repeat 0 d) = false).
        { destruct (Z.eqb_spec q p) as [E|E]; [|reflexivity]. cbn [andb].
          rewrite (Hpq (eq_sym E)), Z.eqb_refl in Hz. exact Hz. }
        rewrite Hz2. cbn [negb].
        destruct (q =? p); destruct (b =? a); destruct (veqb s (repeat 0 d)); cbn in *; try discriminate; reflexivity.
      * apply In_zrange. exact Hl.
      * intros l' Hl' Hne. apply In_zrange in Hl'. apply b2n_false.
        destruct (fimgb l' (ancv L l' ca) (ancv L l' cb) s) eqn:E; [|reflexivity].
        exfalso. apply Hne. apply (Huniq l' Hl'). apply (Hfar l' Hl'). exact E.
  - assert (Hout : forall (P : Prop), (length s = d /\ (forall j, (j < d)%nat -> -1 <= nth j s 0 <= 1)) -> P).
    { intros P [Hs Rs]. exfalso. rewrite Hs, Nat.eqb_refl in Ein. cbn [andb] in Ein.
      rewrite (proj2 (inbox_nth (-1) 1 s)) in Ein; [discriminate|]. rewrite Hs. exact Rs. }
    rewrite sumn_zero.
    2:{ intros l Hl. apply In_zrange in Hl. apply b2n_false.
        destruct (fimgb l (ancv L l ca) (ancv L l cb) s) eqn:E; [|reflexivity].
        apply Hout. apply (fimgb_range l (ancv L l ca) (ancv L l cb) s); try assumption; try lia;
          try (rewrite ancv_length; assumption); apply Hrng; assumption. }
    destruct (nimgb L ca cb s) eqn:En.
    { apply Hout. apply (nimgb_range L ca cb s); try assumption; lia. }
    destruct (veqb s (repeat 0 d)) eqn:Ez.
    { apply Hout. apply veqb_eq in Ez. subst s. split; [apply repeat_length|].
      intros j Hj. rewrite nth_repeat_lt by exact Hj. lia. }
    cbn [b2n]. rewrite Nat.mul_0_r. reflexivity.
Qed.

End PerGeom.

(* ------------------------------------------------------------------ *)
(* 5. a well-formed tree, periodic lists                               *)
(* ------------------------------------------------------------------ *)
Definition zb (d : nat) (s : list Z) : nat := b2n (veqb s (repeat 0 d)).

Section PerCompose.
Variable d : nat.
Hypothesis Hd : (0 < d)%nat.
Variables (H B : Z) (mode : bool) (t : tree) (idx : list Z).
Hypothesis HH : 2 <= H.
Hypothesis Hok : tree_ok (parent d) H B mode t.
Hypothesis Hpart : particles_ok idx t.
Hypothesis Hrange : Forall (fun i => 0 <= i < 2 ^ ((H - 1) * dz d)) idx.

Notation L := (H - 1).
Notation cells l := (level_cells (levels_of t l)).
Notation lvs := (all_leaves t).
Notation lo := (ExactlyOnce.lo idx).
Notation valid := (ExactlyOnce.valid idx).
Notation below := (ExactlyOnce.below d H idx).
Notation pc := (ExactlyOnce.pc idx).
Notation zv := (repeat 0 d).
Notation rrun := (rrun d L).
Notation peok := (peok d L).

Let Hcap := cap0 d Hd.
Let HH1 : 1 <= H. Proof. lia. Qed.

Lemma t_cells_nodup l : 0 <= l < H -> NoDup (cells l).
Proof. intros Hl. eapply cells_nodup; eassumption. Qed.

Lemma t_cells_range l c : 0 <= l < H -> In c (cells l) -> 0 <= c < 2 ^ (l * dz d).
Proof. intros Hl Hc. eapply cells_range; eassumption. Qed.

Lemma t_valid_iff q : valid q = true <-> 0 <= q < zlen idx.
Proof. unfold ExactlyOnce.valid. lia. Qed.

Lemma t_lo_leaf q : valid q = true -> In (lo q) (cells L).
Proof. intros Hv. eapply lo_leaf; eassumption. Qed.

Lemma t_lo_range q : valid q = true -> 0 <= lo q < 2 ^ (L * dz d).
Proof. intros Hv. apply t_cells_range; [lia|]. apply t_lo_leaf. exact Hv. Qed.

Lemma t_anc_in_cells l q : 0 <= l < H -> valid q = true -> In (anc d L l (lo q)) (cells l).
Proof. intros Hl Hv. eapply anc_in_cells; eassumption. Qed.

Lemma t_cnt_parts lf q : In lf lvs -> cnt (lf_parts lf) q = b2n (valid q && (lo q =? lf_index lf)).
Proof. intros Hlf. eapply cnt_parts; eassumption. Qed.

Lemma t_cnt_parts_of c p : In c (cells L) -> cnt (parts_of lvs c) p = pc c p.
Proof. intros Hc. eapply cnt_parts_of; eassumption. Qed.

Lemma t_parent_in_cells k x : 0 <= k <= H - 2 -> In x (cells (k + 1)) -> In (parent d x) (cells k).
Proof. intros Hk Hx. eapply parent_in_cells; eassumption. Qed.

Lemma t_sumn_leaves (G : Z -> nat) : sumn (fun lf => G (lf_index lf)) lvs = sumn G (cells L).
Proof. eapply sumn_leaves; eassumption. Qed.

Lemma t_below_leaf_sum x q :
  sumn (fun c => if c =? x then b2n (valid q && (lo q =? c)) else 0%nat) (cells L) = below L x q.
Proof. eapply below_leaf_sum; eassumption. Qed.

Lemma t_below_step l x q : 0 <= l <= H - 2 ->
  sumn (fun c => if parent d c =? x then below (l + 1) c q else 0%nat) (cells (l + 1)) = below l x q.
Proof. intros Hl. eapply below_step; eassumption. Qed.

Lemma t_pass_P2M : pass_P2M 1 t = map (fun lf => CP2M (lf_index lf) (lf_parts lf)) lvs.
Proof. rewrite (pass_P2M_eq d Hd Hcap H B mode t HH1 Hok 1). replace (1 <? H) with true by lia. reflexivity. Qed.

Lemma t_pass_L2P : pass_L2P 1 t = map (fun lf => CL2P (lf_index lf) (lf_parts lf)) lvs.
Proof. rewrite (pass_L2P_eq d H B mode t Hok 1). replace (1 <? H) with true by lia. reflexivity. Qed.

Lemma t_m2m_level_ok l : 0 <= l <= H - 2 ->
  elementary (m2m_level d t l) = spec_links d EM2M l (cells (l + 1)).
Proof. intros Hl. eapply m2m_level_ok; eassumption. Qed.

Lemma t_l2l_level_ok l : 0 <= l <= H - 2 ->
  elementary (l2l_level d t l) = spec_links d EL2L l (cells (l + 1)).
Proof. intros Hl. eapply l2l_level_ok; eassumption. Qed.

Lemma if_mul_r (b : bool) (a k : nat) : (if b then a *n k else 0%nat) = (if b then a else 0%nat) *n k.
Proof. destruct b; reflexivity. Qed.

(* ------------------------------------------------------------------ *)
(* 6. upward passes: P2M and M2M                                       *)
(* ------------------------------------------------------------------ *)
Lemma p2m_effect_p w :
  (forall l x q s, ci (p_mult (rrun (pass_P2M 1 t) w) l x) (q, s)
     = ci (p_mult w l x) (q, s) +n (if l =? L then below L x q *n zb d s else 0%nat)) /\
  (forall l x y, ci (p_loc (rrun (pass_P2M 1 t) w) l x) y = ci (p_loc w l x) y) /\
  (forall p y, ci (p_rhs (rrun (pass_P2M 1 t) w) p) y = ci (p_rhs w p) y).
Proof.
  rewrite t_pass_P2M.
  set (tr := map (fun lf => CP2M (lf_index lf) (lf_parts lf)) lvs).
  assert (Hel : elementary tr = map (fun lf => EP2M (lf_index lf) (lf_parts lf)) lvs).
  { apply elementary_map_single. reflexivity. }
  assert (Hok' : Forall (peok nordM nordM) (elementary tr)).
  { rewrite Hel. apply Forall_forall. intros e He. apply in_map_iff in He. destruct He as (lf & <- & _).
    apply peok_P2M. intros []. }
  destruct (rrun_counts d L nordM nordM tr Hok' w) as (HM & HL & HR). rewrite Hel in HM, HL, HR.
  repeat split.
  - intros l x q s. rewrite HM. f_equal. rewrite sumn_map. cbn [pcm].
    rewrite (sumn_ext_in _ (fun lf => (fun c => (if (l =? L) && (c =? x) then b2n (valid q && (lo q =? c)) else 0%nat) *n zb d s) (lf_index lf))).
    2:{ intros lf Hlf. cbv beta. rewrite ci_tag, (t_cnt_parts lf q Hlf), (Z.eqb_sym x). apply if_mul_r. }
    rewrite (t_sumn_leaves (fun c => (if (l =? L) && (c =? x) then b2n (valid q && (lo q =? c)) else 0%nat) *n zb d s)).
    rewrite sumn_mul_r. destruct (l =? L); cbn [andb].
    + rewrite t_below_leaf_sum. reflexivity.
    + rewrite sumn_zero by reflexivity. reflexivity.
  - intros l x y. rewrite HL, sumn_zero; [lia|]. intros e He. apply in_map_iff in He. destruct He as (lf & <- & _). reflexivity.
  - intros p y. rewrite HR, sumn_zero; [lia|]. intros e He. apply in_map_iff in He. destruct He as (lf & <- & _). reflexivity.
Qed.

Lemma m2m_level_effect_p l w : 0 <= l <= H - 2 ->
  (forall l' x y, ci (p_mult (rrun (m2m_level d t l) w) l' x) y
     = ci (p_mult w l' x) y
        +n (if l' =? l then sumn (fun c => if parent d c =? x then ci (p_mult w (l + 1) c) y else 0%nat) (cells (l + 1))
           else 0%nat)) /\
  (forall l' x y, ci (p_loc (rrun (m2m_level d t l) w) l' x) y = ci (p_loc w l' x) y) /\
  (forall p y, ci (p_rhs (rrun (m2m_level d t l) w) p) y = ci (p_rhs w p) y).
Proof.
  intros Hl. pose proof (t_m2m_level_ok l Hl) as Hel. unfold spec_links in Hel.
  assert (Hok' : Forall (peok (fun l' _ => l' = l + 1) nordM) (elementary (m2m_level d t l))).
  { rewrite Hel. apply Forall_forall. intros e He. apply in_map_iff in He. destruct He as (c & <- & _).
    apply peok_M2M; [reflexivity|lia]. }
  destruct (rrun_counts d L _ _ _ Hok' w) as (HM & HL & HR). rewrite Hel in HM, HL, HR.
  repeat split.
  - intros l' x y. rewrite HM. f_equal. rewrite sumn_map. cbn [pcm].
    destruct (l' =? l); cbn [andb].
    + apply sumn_ext_in. intros c _. rewrite (Z.eqb_sym x). reflexivity.
    + apply sumn_zero. reflexivity.
  - intros l' x y. rewrite HL, sumn_zero; [lia|]. intros e He. apply in_map_iff in He. destruct He as (c & <- & _). reflexivity.
  - intros p y. rewrite HR, sumn_zero; [lia|]. intros e He. apply in_map_iff in He. destruct He as (c & <- & _). reflexivity.
Qed.

(* every multipole of a level >= k holds exactly the particles below its cell, each once, at zero shift *)
Definition MultInvP (k : Z) (w : pst) : Prop :=
  (forall l x q s, k <= l <= L -> ci (p_mult w l x) (q, s) = below l x q *n zb d s) /\
  (forall l x y, l < k -> ci (p_mult w l x) y = 0%nat).

Lemma m2m_level_inv_p l w : 0 <= l <= H - 2 -> MultInvP (l + 1) w -> MultInvP l (rrun (m2m_level d t l) w).
Proof.
  intros Hl (Hhi & Hlo). destruct (m2m_level_effect_p l w Hl) as (HM & _). split.
  - intros l' x q s Hl'. rewrite HM. destruct (Z.eqb_spec l' l) as [->|Hne].
    + rewrite Hlo by lia. cbn [Nat.add]. rewrite <- t_below_step by exact Hl. rewrite <- sumn_mul_r.
      apply sumn_ext_in. intros c _. rewrite Hhi by lia. apply if_mul_r.
    + rewrite Hhi by lia. lia.
  - intros l' x y Hl'. rewrite HM, Hlo by lia. destruct (Z.eqb_spec l' l); [lia|reflexivity].
Qed.

Lemma m2m_pass_inv_p : forall n k w, k = L - Z.of_nat n -> 0 <= k -> MultInvP L w ->
  MultInvP k (rrun (flat_map (m2m_level d t) (rev (zrange k (H - 2)))) w) /\
  (forall l x y, ci (p_loc (rrun (flat_map (m2m_level d t) (rev (zrange k (H - 2)))) w) l x) y = ci (p_loc w l x) y) /\
  (forall p y, ci (p_rhs (rrun (flat_map (m2m_level d t) (rev (zrange k (H - 2)))) w) p) y = ci (p_rhs w p) y).
Proof.
  induction n as [|n IH]; intros k w Ek Hk Hinv.
  - rewrite ExactlyOnce.zrange_nil by lia. cbn [rev flat_map]. replace k with L by lia.
    repeat split; try apply Hinv; intros; reflexivity.
  - rewrite ExactlyOnce.zrange_cons by lia. cbn [rev]. rewrite flat_map_app, rrun_app. cbn [flat_map]. rewrite app_nil_r.
    destruct (IH (k + 1) w ltac:(lia) ltac:(lia) Hinv) as (I1 & I2 & I3).
    set (w1 := rrun (flat_map (m2m_level d t) (rev (zrange (k + 1) (H - 2)))) w) in *.
    destruct (m2m_level_effect_p k w1 ltac:(lia)) as (_ & E2 & E3).
    repeat split.
    + apply m2m_level_inv_p; [lia|exact I1].
    + apply m2m_level_inv_p; [lia|exact I1].
    + intros l x y. rewrite E2. apply I2.
    + intros p y. rewrite E3. apply I3.
Qed.

(* the state after the upward call execute(P2M + M2M), stop level 1 *)
Lemma up_eq : execute d true 1 (F_P2M + F_M2M) t = pass_P2M 1 t ++ pass_M2M d 1 t.
Proof. unfold execute. cbn. rewrite app_nil_r. reflexivity. Qed.

Lemma up_state w : (forall l x y, ci (p_mult w l x) y = 0%nat) ->
  let w1 := rrun (execute d true 1 (F_P2M + F_M2M) t) w in
  MultInvP 1 w1 /\
  (forall l x y, ci (p_loc w1 l x) y = ci (p_loc w l x) y) /\
  (forall p y, ci (p_rhs w1 p) y = ci (p_rhs w p) y).
Proof.
  intros Hz. cbv zeta. rewrite up_eq, rrun_app.
  destruct (p2m_effect_p w) as (M1 & L1 & R1).
  set (wa := rrun (pass_P2M 1 t) w) in *.
  assert (I1 : MultInvP L wa).
  { split.
    - intros l x q s Hl. rewrite M1, Hz. replace l with L by lia. rewrite Z.eqb_refl. reflexivity.
    - intros l x [q s] Hl. rewrite M1, Hz. destruct (Z.eqb_spec l L); [lia|reflexivity]. }
  rewrite (pass_M2M_eq d H B mode t Hok 1).
  destruct (m2m_pass_inv_p (Z.to_nat (L - 1)) 1 wa ltac:(lia) ltac:(lia) I1) as (I2 & L2 & R2).
  split; [exact I2|]. split.
  - intros l x y. rewrite L2. apply L1.
  - intros p y. rewrite R2. apply R1.
Qed.

(* ------------------------------------------------------------------ *)
(* 7. the top tree                                                     *)
(* ------------------------------------------------------------------ *)
Definition is_base (c : tcall) : bool :=
  match c with TM2M_base _ _ => true | TL2L_base _ _ => true | _ => false end.

Lemma prun_app k a b w : prun d k L (a ++ b) w = prun d k L b (prun d k L a w).
Proof. unfold prun. apply fold_left_app. Qed.

Lemma prun_real k tr w : prun d k L (map Real tr) w = rrun tr w.
Proof. revert w. induction tr as [|c tr IH]; intros w; [reflexivity|]. cbn [map]. apply IH. Qed.

Lemma prun_top_state k cs : forall w, p_top (prun d k L (map Top cs) w) = fold_left (tstep d k) cs (p_top w).
Proof.
  induction cs as [|c cs IH]; intros w; [reflexivity|]. cbn [map fold_left].
  change (prun d k L (Top c :: map Top cs) w) with (prun d k L (map Top cs) (pstep d k L w (Top c))).
  rewrite IH. f_equal. destruct c; reflexivity.
Qed.

Lemma prun_mid k cs : Forall (fun c => is_base c = false) cs -> forall w,
  p_mult (prun d k L (map Top cs) w) = p_mult w /\ p_loc (prun d k L (map Top cs) w) = p_loc w /\
  p_rhs (prun d k L (map Top cs) w) = p_rhs w /\ p_box (prun d k L (map Top cs) w) = p_box w.
Proof.
  induction 1 as [|c cs Hc _ IH]; intros w; [repeat split|].
  change (prun d k L (map Top (c :: cs)) w) with (prun d k L (map Top cs) (pstep d k L w (Top c))).
  destruct (IH (pstep d k L w (Top c))) as (H1 & H2 & H3 & H4).
  rewrite H1, H2, H3, H4. destruct c; try discriminate; repeat split.
Qed.

Notation ch1 := (level1_children d t).

Lemma top_shape k : 0 <= k -> exists mid,
  top_execute d k 63 t = TM2M_base (k + 3) ch1 :: mid ++ [TL2L_base (k + 3) ch1] /\
  Forall (fun c => is_base c = false) mid.
Proof.
  intros Hk. rewrite top_execute_eq; [|exact Hk|rewrite (height_H d H B mode t Hok); lia].
  unfold top_M2M, top_L2L.
  exists (map (fun l => TM2M l (zseq (Z.shiftl 1 (dz d)))) (rev (zrange 3 (k + 2))) ++ top_M2L d k
          ++ map (fun l => TL2L l [0]) (zrange 3 (k + 2))).
  split; [cbn [app]; rewrite <- !app_assoc; reflexivity|].
  apply (proj2 (Forall_app _ _ _)); split.
  - apply Forall_forall. intros c Hc. apply in_map_iff in Hc. destruct Hc as (l & <- & _). reflexivity.
  - apply (proj2 (Forall_app _ _ _)); split.
    + rewrite top_M2L_eq by exact Hk. apply Forall_forall. intros c Hc. apply in_map_iff in Hc.
      destruct Hc as (l & <- & _). reflexivity.
    + apply Forall_forall. intros c Hc. apply in_map_iff in Hc. destruct Hc as (l & <- & _). reflexivity.
Qed.

(* what the final downward call of the top tree writes into every level-1 cell *)
Definition topv (k : Z) (w : pst) : list ival :=
  flat_map (fun sg => shiftv sg (flat_map (fun cc => p_mult w 1 (fst cc)) ch1)) (top_run d k (top_execute d k 63 t)).

Lemma top_effect k w : 0 <= k -> p_top w = tinit ->
  let w2 := prun d k L (map Top (top_execute d k 63 t)) w in
  p_mult w2 = p_mult w /\ p_rhs w2 = p_rhs w /\
  (forall l x y, ci (p_loc w2 l x) y
     = ci (p_loc w l x) y +n (if (l =? 1) && zmem x (cells 1) then ci (topv k w) y else 0%nat)).
Proof.
  intros Hk Htop. cbv zeta.
  assert (Htr : tres (p_top (prun d k L (map Top (top_execute d k 63 t)) w)) = top_run d k (top_execute d k 63 t)).
  { rewrite prun_top_state, Htop. reflexivity. }
  unfold topv. rewrite <- Htr. clear Htr.
  destruct (top_shape k Hk) as (mid & -> & Hmid).
  cbn [map]. rewrite map_app. cbn [map].
  change (prun d k L (Top (TM2M_base (k + 3) ch1) :: map Top mid ++ [Top (TL2L_base (k + 3) ch1)]) w)
    with (prun d k L (map Top mid ++ [Top (TL2L_base (k + 3) ch1)]) (pstep d k L w (Top (TM2M_base (k + 3) ch1)))).
  rewrite prun_app. set (wa := pstep d k L w (Top (TM2M_base (k + 3) ch1))).
  destruct (prun_mid k mid Hmid wa) as (M1 & L1 & R1 & B1).
  set (wb := prun d k L (map Top mid) wa) in *.
  cbn [prun fold_left pstep p_mult p_loc p_rhs p_top tres].
  rewrite M1, L1, R1, B1. repeat split.
  intros l x y. cbn [wa pstep p_loc p_box].
  rewrite fold_vupd2_ci. f_equal.
  unfold level1_children. rewrite sumn_map. cbn [fst].
  change (flat_map cg_cells (levels_of t 1)) with (cells 1).
  destruct (l =? 1); cbn [andb].
  - rewrite (sumn_ext_in _ (fun c => if c =? x then ci (flat_map (fun sg => shiftv sg (flat_map (fun cc => p_mult w 1 (fst cc)) (map (fun c => (c, child_code d c)) (cells 1)))) (tL (p_top wb) (k + 3))) y else 0%nat)).
    2:{ intros c _. rewrite (Z.eqb_sym x c). reflexivity. }
    rewrite sumn_pick by (apply t_cells_nodup; lia). reflexivity.
  - apply sumn_zero. reflexivity.
Qed.

(* the value handed to the top tree: every particle once, zero shift *)
Lemma below_sum_level l q : 0 <= l < H ->
  sumn (fun c => below l c q) (cells l) = b2n (valid q).
Proof.
  intros Hl. unfold ExactlyOnce.below. destruct (valid q) eqn:Hv; cbn [andb].
  - rewrite (sumn_ext_in _ (fun c => if c =? anc d L l (lo q) then 1%nat else 0%nat)).
    2:{ intros c _. rewrite (Z.eqb_sym c). destruct (anc d L l (lo q) =? c); reflexivity. }
    rewrite sumn_pick_in; [reflexivity|apply t_cells_nodup; exact Hl|apply t_anc_in_cells; assumption].
  - apply sumn_zero. reflexivity.
Qed.

Lemma box_count w : MultInvP 1 w -> forall q s,
  ci (flat_map (fun cc => p_mult w 1 (fst cc)) ch1) (q, s) = b2n (valid q) *n zb d s.
Proof.
  intros (Hhi & _) q s. rewrite ci_flat_map. unfold level1_children. rewrite sumn_map. cbn [fst].
  change (flat_map cg_cells (levels_of t 1)) with (cells 1).
  rewrite (sumn_ext_in _ (fun c => below 1 c q *n zb d s)) by (intros c _; apply Hhi; lia).
  rewrite sumn_mul_r, below_sum_level by lia. reflexivity.
Qed.

Lemma zb_one s : zb d s = 1%nat -> s = zv.
Proof. unfold zb. destruct (veqb s zv) eqn:E; [intros _; apply veqb_eq; exact E|discriminate]. Qed.

Lemma zb_zv : zb d zv = 1%nat.
Proof. unfold zb. rewrite veqb_refl. reflexivity. Qed.

Lemma box_zero w : MultInvP 1 w -> forall a, In a (flat_map (fun cc => p_mult w 1 (fst cc)) ch1) -> snd a = zv.
Proof.
  intros Hinv [q s] Hin. apply ci_in in Hin. rewrite (box_count w Hinv) in Hin. cbn [snd].
  apply zb_one. destruct (valid q); destruct (zb d s) as [|[|n]] eqn:E; cbn in Hin; try lia.
  unfold zb in E. destruct (veqb s zv); discriminate.
Qed.

Definition farsb (k : Z) (s : list Z) : bool :=
  Nat.eqb (length s) d && inbox (fst (repetition_interval k)) (snd (repetition_interval k)) s && negb (inbox (-1) 1 s).

Lemma In_far_shifts k s :
  In s (far_shifts d (fst (repetition_interval k)) (snd (repetition_interval k))) <-> farsb k s = true.
Proof.
  unfold far_shifts, farsb. rewrite filter_In, In_cs, !andb_true_iff, Nat.eqb_eq.
  change (forallb (fun x => Z.abs x <=? 1) s) with (too_close s). rewrite too_close_inbox. tauto.
Qed.

Lemma sumn_veqb (l : list (list Z)) s : NoDup l ->
  (In s l -> sumn (fun a => b2n (veqb s a)) l = 1%nat) /\ (~ In s l -> sumn (fun a => b2n (veqb s a)) l = 0%nat).
Proof.
  intros Hnd. split.
  - intros Hin. rewrite (sumn_single _ l s Hnd Hin); [rewrite veqb_refl; reflexivity|].
    intros x _ Hne. rewrite veqb_neq by congruence. reflexivity.
  - intros Hn. apply sumn_zero. intros a Ha. rewrite veqb_neq; [reflexivity|]. intros ->. contradiction.
Qed.

Lemma topv_count k w : 0 <= k -> MultInvP 1 w -> forall q s, ci (topv k w) (q, s) = b2n (valid q && farsb k s).
Proof.
  intros Hk Hinv q s. unfold topv. rewrite ci_flat_map.
  assert (Hh : height t <> 0) by (rewrite (height_H d H B mode t Hok); lia).
  pose proof (toptree_images_gen d k t Hd Hk Hh) as HP.
  set (tr := top_run d k (top_execute d k 63 t)) in *.
  rewrite (sumn_ext_in _ (fun sg => b2n (valid q) *n b2n (veqb s sg))).
  2:{ intros sg Hsg. apply (Permutation_in _ HP) in Hsg. unfold far_shifts in Hsg. apply filter_In in Hsg.
      destruct Hsg as [Hsg _]. apply In_cs in Hsg. destruct Hsg as [Hlen _].
      rewrite (ci_shiftv_zero d sg _ q s Hlen (box_zero w Hinv)), (box_count w Hinv), zb_zv. lia. }
  rewrite sumn_mul_l, (sumn_perm _ _ _ HP).
  assert (Hnd : NoDup (far_shifts d (fst (repetition_interval k)) (snd (repetition_interval k)))).
  { unfold far_shifts. apply NoDup_filter, NoDup_cs. }
  destruct (sumn_veqb _ s Hnd) as [Hin Hout].
  destruct (farsb k s) eqn:E.
  - rewrite Hin by (apply In_far_shifts; exact E). destruct (valid q); reflexivity.
  - rewrite Hout; [destruct (valid q); reflexivity|]. intros Hc. apply In_far_shifts in Hc. congruence.
Qed.

(* the state after the upward call and the top tree *)
Definition run_up_top (k : Z) : pst :=
  prun d k L (map Real (execute d true 1 (F_P2M + F_M2M) t) ++ map Top (top_execute d k 63 t)) pst0.

Lemma top_execute_neg k : k < 0 -> top_execute d k 63 t = [].
Proof. intros Hk. unfold top_execute. replace (k <? 0) with true by lia. reflexivity. Qed.

Lemma up_top_state k : -1 <= k ->
  MultInvP 1 (run_up_top k) /\
  (forall l x q s, ci (p_loc (run_up_top k) l x) (q, s)
     = if (l =? 1) && zmem x (cells 1) then b2n (valid q && (0 <=? k) && farsb k s) else 0%nat) /\
  (forall p y, ci (p_rhs (run_up_top k) p) y = 0%nat).
Proof.
  intros Hk. unfold run_up_top. rewrite prun_app, prun_real.
  destruct (up_state pst0 ltac:(reflexivity)) as (I1 & L1 & R1). cbv zeta in I1, L1, R1.
  set (w1 := rrun (execute d true 1 (F_P2M + F_M2M) t) pst0) in *.
  destruct (Z_lt_le_dec k 0) as [Hneg|Hpos].
  - rewrite top_execute_neg by exact Hneg. cbn [map prun fold_left]. split; [exact I1|]. split.
    + intros l x q s. rewrite L1. cbn [pst0 p_loc]. rewrite ci_nil.
      replace (0 <=? k) with false by lia. rewrite andb_false_r. destruct ((l =? 1) && zmem x (cells 1)); reflexivity.
    + intros p y. rewrite R1. reflexivity.
  - assert (Htop : p_top w1 = tinit) by (unfold w1; rewrite (proj1 (rrun_top d L _ pst0)); reflexivity).
    destruct (top_effect k w1 Hpos Htop) as (M2 & R2 & L2). cbv zeta in M2, R2, L2.
    set (w2 := prun d k L (map Top (top_execute d k 63 t)) w1) in *.
    split; [|split].
    + destruct I1 as [Ia Ib]. split; intros; rewrite M2; [apply Ia|apply Ib]; assumption.
    + intros l x q s. rewrite L2, L1. cbn [pst0 p_loc]. rewrite ci_nil. cbn [Nat.add].
      rewrite (topv_count k w1 Hpos I1). replace (0 <=? k) with true by lia. rewrite andb_true_r. reflexivity.
    + intros p y. rewrite R2, R1. reflexivity.
Qed.

(* ------------------------------------------------------------------ *)
(* 8. the transfer pass M2L with the periodic lists                    *)
(* ------------------------------------------------------------------ *)
(* what the level-l interaction list of cell x delivers *)
Definition farv (l x : Z) (y : ival) : nat :=
  if valid (fst y) then farn d l x (anc d L l (lo (fst y))) (snd y) else 0%nat.

Lemma dec_base_rev_length b off : forall n code, length (dec_base_rev n b off code) = n.
Proof. induction n as [|n IH]; intros code; [reflexivity|]. cbn [dec_base_rev length]. rewrite IH. reflexivity. Qed.

Lemma dec7_length code : length (dec7 d code) = d.
Proof. unfold dec7, dec_base. rewrite rev_length. apply dec_base_rev_length. Qed.

Lemma dec3_length code : length (dec3 d code) = d.
Proof. unfold dec3, dec_base. rewrite rev_length. apply dec_base_rev_length. Qed.

Lemma mult_zero w k l b : MultInvP k w -> k <= l <= L -> forall a, In a (p_mult w l b) -> snd a = zv.
Proof.
  intros (Hhi & _) Hl [q s] Hin. apply ci_in in Hin. rewrite (Hhi l b q s Hl) in Hin. cbn [snd].
  apply zb_one. destruct (below l b q) as [|n0]; destruct (zb d s) as [|[|n1]] eqn:E; cbn in Hin; try lia.
  unfold zb in E. destruct (veqb s zv); discriminate.
Qed.

Lemma shift_mult w k l b v q s : MultInvP k w -> k <= l <= L -> length v = d ->
  ci (shiftv v (p_mult w l b)) (q, s) = below l b q *n b2n (veqb s v).
Proof.
  intros Hinv Hl Hv. rewrite (ci_shiftv_zero d v _ q s Hv (mult_zero w k l b Hinv Hl)).
  rewrite (proj1 Hinv l b q zv Hl), zb_zv. lia.
Qed.

Lemma ilist_sum_p w l x q s : 1 <= l <= L -> In x (cells l) -> MultInvP 1 w ->
  sumn (fun sc => if zmem (fst sc) (cells l)
                  then ci (shiftv (img_shift d l x (dec7 d (snd sc))) (p_mult w l (fst sc))) (q, s) else 0%nat)
       (ilist_cell d true l x) = farv l x (q, s).
Proof.
  intros Hl Hx Hinv. pose proof (t_cells_range l x ltac:(lia) Hx) as Hr.
  rewrite (sumn_perm _ _ _ (ilist_exact d true l x Hd ltac:(lia) Hr)).
  unfold farv, farn. cbn [fst snd].
  assert (Hsh : forall sc, ci (shiftv (img_shift d l x (dec7 d (snd sc))) (p_mult w l (fst sc))) (q, s)
                  = below l (fst sc) q *n b2n (veqb s (img_shift d l x (dec7 d (snd sc))))).
  { intros sc. apply (shift_mult w 1); [exact Hinv|lia|]. apply img_shift_length; [exact Hd|apply dec7_length]. }
  destruct (valid q) eqn:Hv.
  - apply sumn_ext_in. intros sc _. rewrite Hsh. unfold ExactlyOnce.below. rewrite Hv. cbn [andb].
    destruct (Z.eqb_spec (anc d L l (lo q)) (fst sc)) as [E|E].
    + rewrite <- E. rewrite (proj2 (zmem_In _ _) (t_anc_in_cells l q ltac:(lia) Hv)). rewrite Z.eqb_refl.
      cbn [b2n andb]. lia.
    + rewrite (proj2 (Z.eqb_neq (fst sc) (anc d L l (lo q)))) by congruence.
      cbn [b2n andb]. destruct (zmem (fst sc) (cells l)); reflexivity.
  - apply sumn_zero. intros sc _. rewrite Hsh. unfold ExactlyOnce.below. rewrite Hv. cbn [andb b2n].
    destruct (zmem (fst sc) (cells l)); reflexivity.
Qed.

Lemma m2l_level_sum_p w l' l x q s : 1 <= l' <= L -> MultInvP 1 w ->
  sumn (fun e => pcl d w e l x (q, s)) (spec_m2l d true l' (cells l'))
  = if l' =? l then (if zmem x (cells l') then farv l' x (q, s) else 0%nat) else 0%nat.
Proof.
  intros Hl' Hm. unfold spec_m2l. rewrite sumn_flat_map.
  rewrite (sumn_ext_in _ (fun t' => if t' =? x then
            (if l' =? l then sumn (fun sc => if zmem (fst sc) (cells l')
                 then ci (shiftv (img_shift d l' t' (dec7 d (snd sc))) (p_mult w l' (fst sc))) (q, s) else 0%nat)
                                  (ilist_cell d true l' t') else 0%nat)
            else 0%nat)).
  2:{ intros t' _. rewrite sumn_flat_map.
      destruct (Z.eqb_spec t' x) as [->|Hne]; [destruct (Z.eqb_spec l' l) as [->|Hne]|].
      - apply sumn_ext_in. intros sc _. rewrite sumn_if_list. cbn [pcl]. rewrite !Z.eqb_refl. reflexivity.
      - apply sumn_zero. intros sc _. rewrite sumn_if_list. cbn [pcl].
        destruct (Z.eqb_spec l l'); [congruence|]. destruct (zmem (fst sc) (cells l')); reflexivity.
      - apply sumn_zero. intros sc _. rewrite sumn_if_list. cbn [pcl].
        destruct (Z.eqb_spec x t'); [congruence|]. rewrite andb_false_r. destruct (zmem (fst sc) (cells l')); reflexivity. }
  rewrite sumn_pick by (apply t_cells_nodup; lia).
  destruct (zmem x (cells l')) eqn:Ex; [|destruct (l' =? l); reflexivity].
  destruct (l' =? l); [|reflexivity]. apply ilist_sum_p; [exact Hl'|apply zmem_In; exact Ex|exact Hm].
Qed.

Definition m2l_spec_p : list elem := flat_map (fun l => spec_m2l d true l (cells l)) (zrange 1 L).

Lemma m2l_spec_shape_p e : In e m2l_spec_p -> exists l x b code, e = EM2L l x b code.
Proof.
  unfold m2l_spec_p, spec_m2l. intros He. apply in_flat_map in He. destruct He as (l & _ & He).
  apply in_flat_map in He. destruct He as (x & _ & He). apply in_flat_map in He. destruct He as (sc & _ & He).
  destruct (zmem (fst sc) (cells l)); [|destruct He]. destruct He as [<-|[]]. eauto.
Qed.

Lemma m2l_sum_p w l x q s : MultInvP 1 w ->
  sumn (fun e => pcl d w e l x (q, s)) m2l_spec_p
  = if (1 <=? l) && (l <=? L) && zmem x (cells l) then farv l x (q, s) else 0%nat.
Proof.
  intros Hinv. unfold m2l_spec_p. rewrite sumn_flat_map.
  rewrite (sumn_ext_in _ (fun l' => if l' =? l then (if zmem x (cells l') then farv l' x (q, s) else 0%nat) else 0%nat)).
  2:{ intros l' Hl'. apply In_zrange in Hl'. apply m2l_level_sum_p; [lia|exact Hinv]. }
  rewrite sumn_pick by apply NoDup_zrange. rewrite zmem_zrange.
  destruct ((1 <=? l) && (l <=? L)); reflexivity.
Qed.

Lemma m2l_effect_p w : MultInvP 1 w ->
  (forall l x y, ci (p_mult (rrun (pass_M2L d true 1 t) w) l x) y = ci (p_mult w l x) y) /\
  (forall l x q s, ci (p_loc (rrun (pass_M2L d true 1 t) w) l x) (q, s)
     = ci (p_loc w l x) (q, s) +n (if (1 <=? l) && (l <=? L) && zmem x (cells l) then farv l x (q, s) else 0%nat)) /\
  (forall p y, ci (p_rhs (rrun (pass_M2L d true 1 t) w) p) y = ci (p_rhs w p) y).
Proof.
  intros Hinv. pose proof (el_M2L d Hd true H B mode t idx Hok Hpart Hrange 1 ltac:(lia)) as Hperm.
  fold m2l_spec_p in Hperm.
  assert (Hok' : Forall (peok allrd nordM) (elementary (pass_M2L d true 1 t))).
  { apply Forall_forall. intros e He. apply (Permutation_in _ Hperm) in He.
    destruct (m2l_spec_shape_p e He) as (l & x & b & code & ->). apply peok_M2L; [exact I|intros []]. }
  destruct (rrun_counts d L _ _ _ Hok' w) as (HM & HL & HR).
  repeat split.
  - intros l x y. rewrite HM, (sumn_perm _ _ _ Hperm), sumn_zero; [lia|].
    intros e He. destruct (m2l_spec_shape_p e He) as (l1 & x1 & b & code & ->). reflexivity.
  - intros l x q s. rewrite HL, (sumn_perm _ _ _ Hperm), (m2l_sum_p w l x q s Hinv). reflexivity.
  - intros p y. rewrite HR, (sumn_perm _ _ _ Hperm), sumn_zero; [lia|].
    intros e He. destruct (m2l_spec_shape_p e He) as (l1 & x1 & b & code & ->). reflexivity.
Qed.

(* ------------------------------------------------------------------ *)
(* 9. the near-field pass P2P with the periodic lists                  *)
(* ------------------------------------------------------------------ *)
Lemma pick_pc (F : Z -> nat) p : sumn (fun t' => pc t' p *n F t') (cells L) = b2n (valid p) *n F (lo p).
Proof.
  unfold ExactlyOnce.pc. destruct (valid p) eqn:Hv; cbn [andb].
  - rewrite (sumn_ext_in _ (fun t' => if t' =? lo p then F t' else 0%nat)).
    2:{ intros t' _. rewrite (Z.eqb_sym t'). destruct (lo p =? t'); cbn [b2n]; lia. }
    rewrite sumn_pick_in; [cbn [b2n]; lia|apply t_cells_nodup; lia|apply t_lo_leaf; exact Hv].
  - rewrite sumn_zero; reflexivity.
Qed.

Lemma nlist_sum_gen (g : Z -> bool) x q : In x (cells L) ->
  sumn (fun sc => if zmem (fst sc) (cells L) then pc (fst sc) q *n b2n (g (snd sc)) else 0%nat)
       (nlist_cell d true L true x)
  = b2n (valid q) *n sumn (fun sc => b2n ((fst sc =? lo q) && g (snd sc))) (nlist_spec d true L true x).
Proof.
  intros Hx. pose proof (t_cells_range L x ltac:(lia) Hx) as Hr.
  rewrite (sumn_perm _ _ _ (nlist_exact d true L true x Hd ltac:(lia) Hr)).
  rewrite <- sumn_mul_l. apply sumn_ext_in. intros sc _. unfold ExactlyOnce.pc.
  destruct (valid q) eqn:Hv; cbn [andb].
  - destruct (Z.eqb_spec (lo q) (fst sc)) as [E|E].
    + rewrite <- E. rewrite (proj2 (zmem_In _ _) (t_lo_leaf q Hv)), Z.eqb_refl. reflexivity.
    + rewrite (proj2 (Z.eqb_neq (fst sc) (lo q))) by congruence. cbn [b2n andb].
      destruct (zmem (fst sc) (cells L)); reflexivity.
  - cbn [b2n]. destruct (zmem (fst sc) (cells L)); reflexivity.
Qed.

Lemma p2p_sum_p w p q s :
  sumn (fun e => pcr d L w e p (q, s)) (spec_p2p d true L lvs)
  = b2n (valid p && valid q) *n (upn d L (lo p) (lo q) s +n upn' d L (lo q) (lo p) s).
Proof.
  unfold spec_p2p. cbv zeta. rewrite <- (leaf_cells d H B mode t Hok). rewrite sumn_flat_map.
  set (g1 := fun t' code => veqb s (img_shift d L t' (dec3 d code))).
  set (g2 := fun t' code => veqb s (map Z.opp (img_shift d L t' (dec3 d code)))).
  rewrite (sumn_ext_in _ (fun t' =>
     pc t' p *n sumn (fun sc => if zmem (fst sc) (cells L) then pc (fst sc) q *n b2n (g1 t' (snd sc)) else 0%nat)
                     (nlist_cell d true L true t')
     +n pc t' q *n sumn (fun sc => if zmem (fst sc) (cells L) then pc (fst sc) p *n b2n (g2 t' (snd sc)) else 0%nat)
                     (nlist_cell d true L true t'))).
  2:{ intros t' Ht'. rewrite sumn_flat_map, <- !sumn_mul_l, <- sumn_add.
      apply sumn_ext_in. intros sc _. rewrite sumn_if_list.
      destruct (zmem (fst sc) (cells L)) eqn:Eb; [|lia]. apply zmem_In in Eb.
      cbn [pcr]. rewrite !ci_tag, !t_cnt_parts_of by assumption. unfold g1, g2. lia. }
  rewrite sumn_add, !pick_pc.
  assert (A1 : b2n (valid p) *n sumn (fun sc => if zmem (fst sc) (cells L) then pc (fst sc) q *n b2n (g1 (lo p) (snd sc)) else 0%nat)
                                     (nlist_cell d true L true (lo p))
               = b2n (valid p) *n (b2n (valid q) *n upn d L (lo p) (lo q) s)).
  { destruct (valid p) eqn:Hp; [|reflexivity].
    rewrite (nlist_sum_gen (g1 (lo p)) (lo p) q) by (apply t_lo_leaf; exact Hp). reflexivity. }
  assert (A2 : b2n (valid q) *n sumn (fun sc => if zmem (fst sc) (cells L) then pc (fst sc) p *n b2n (g2 (lo q) (snd sc)) else 0%nat)
                                     (nlist_cell d true L true (lo q))
               = b2n (valid q) *n (b2n (valid p) *n upn' d L (lo q) (lo p) s)).
  { destruct (valid q) eqn:Hq; [|reflexivity].
    rewrite (nlist_sum_gen (g2 (lo q)) (lo q) p) by (apply t_lo_leaf; exact Hq). reflexivity. }
  rewrite A1, A2. destruct (valid p); destruct (valid q); cbn [andb b2n]; lia.
Qed.

Lemma inner_sum_p w p q s :
  sumn (fun e => pcr d L w e p (q, s)) (spec_p2p_inner lvs) = innerv idx p q *n zb d s.
Proof.
  rewrite <- (inner_sum d Hd Hcap H B mode t idx HH1 Hok Hpart st0 p q), <- sumn_mul_r.
  apply sumn_ext_in. intros e He. unfold spec_p2p_inner in He. apply in_map_iff in He. destruct He as (lf & <- & _).
  cbn [pcr cr]. rewrite ci_tag. unfold zb. lia.
Qed.

Definition nearv (p : Z) (y : ival) : nat :=
  b2n (valid p && valid (fst y)) *n (upn d L (lo p) (lo (fst y)) (snd y) +n upn' d L (lo (fst y)) (lo p) (snd y))
  +n innerv idx p (fst y) *n zb d (snd y).

Lemma p2p_spec_shape_p e : In e (spec_p2p d true L lvs ++ spec_p2p_inner lvs) ->
  (exists a b c sp tp, e = EP2P a b c sp tp) \/ (exists a ps, e = EP2PInner a ps).
Proof.
  intros He. apply in_app_or in He. destruct He as [He|He].
  - left. apply (spec_p2p_only d true L lvs e He).
  - right. unfold spec_p2p_inner in He. apply in_map_iff in He. destruct He as (lf & <- & _). eauto.
Qed.

Lemma p2p_effect_p w :
  (forall l x y, ci (p_mult (rrun (pass_P2P d true t) w) l x) y = ci (p_mult w l x) y) /\
  (forall l x y, ci (p_loc (rrun (pass_P2P d true t) w) l x) y = ci (p_loc w l x) y) /\
  (forall p q s, ci (p_rhs (rrun (pass_P2P d true t) w) p) (q, s) = ci (p_rhs w p) (q, s) +n nearv p (q, s)).
Proof.
  destruct (c_P2P d Hd true H B mode t HH1 Hok) as (_ & Hperm).
  assert (Hok' : Forall (peok nordM nordM) (elementary (pass_P2P d true t))).
  { apply Forall_forall. intros e He. apply (Permutation_in _ Hperm) in He.
    destruct (p2p_spec_shape_p e He) as [(a & b & c & sp & tp & ->)|(a & ps & ->)];
      [apply peok_P2P|apply peok_P2PInner]. }
  destruct (rrun_counts d L _ _ _ Hok' w) as (HM & HL & HR).
  repeat split.
  - intros l x y. rewrite HM, (sumn_perm _ _ _ Hperm), sumn_zero; [lia|].
    intros e He. destruct (p2p_spec_shape_p e He) as [(a & b & c & sp & tp & ->)|(a & ps & ->)]; reflexivity.
  - intros l x y. rewrite HL, (sumn_perm _ _ _ Hperm), sumn_zero; [lia|].
    intros e He. destruct (p2p_spec_shape_p e He) as [(a & b & c & sp & tp & ->)|(a & ps & ->)]; reflexivity.
  - intros p q s. rewrite HR, (sumn_perm _ _ _ Hperm), sumn_app, p2p_sum_p, inner_sum_p. reflexivity.
Qed.

(* ------------------------------------------------------------------ *)
(* 10. downward passes: L2L and L2P                                    *)
(* ------------------------------------------------------------------ *)
Lemma l2l_level_effect_p l w : 0 <= l <= H - 2 ->
  (forall l' x y, ci (p_mult (rrun (l2l_level d t l) w) l' x) y = ci (p_mult w l' x) y) /\
  (forall l' x y, ci (p_loc (rrun (l2l_level d t l) w) l' x) y
     = ci (p_loc w l' x) y
       +n (if (l' =? l + 1) && zmem x (cells (l + 1)) then ci (p_loc w l (parent d x)) y else 0%nat)) /\
  (forall p y, ci (p_rhs (rrun (l2l_level d t l) w) p) y = ci (p_rhs w p) y).
Proof.
  intros Hl. pose proof (t_l2l_level_ok l Hl) as Hel. unfold spec_links in Hel.
  assert (Hok' : Forall (peok nordM (fun l' _ => l' = l)) (elementary (l2l_level d t l))).
  { rewrite Hel. apply Forall_forall. intros e He. apply in_map_iff in He. destruct He as (c & <- & _).
    apply peok_L2L; [reflexivity|lia]. }
  destruct (rrun_counts d L _ _ _ Hok' w) as (HM & HL & HR). rewrite Hel in HM, HL, HR.
  repeat split.
  - intros l' x y. rewrite HM, sumn_zero; [lia|]. intros e He. apply in_map_iff in He. destruct He as (c & <- & _). reflexivity.
  - intros l' x y. rewrite HL. f_equal. rewrite sumn_map. cbn [pcl].
    destruct (l' =? l + 1); cbn [andb].
    + rewrite (sumn_ext_in _ (fun c => if c =? x then ci (p_loc w l (parent d c)) y else 0%nat)).
      2:{ intros c _. rewrite (Z.eqb_sym x). reflexivity. }
      apply (sumn_pick _ x (fun c => ci (p_loc w l (parent d c)) y)). apply t_cells_nodup. lia.
    + apply sumn_zero. reflexivity.
  - intros p y. rewrite HR, sumn_zero; [lia|]. intros e He. apply in_map_iff in He. destruct He as (c & <- & _). reflexivity.
Qed.

(* accumulated in-box far field of cell x of level k: one term per level 1..k *)
Definition Fsum_p (k x : Z) (y : ival) : nat := sumn (fun l' => farv l' (anc d k l' x) y) (zrange 1 k).

(* T = what the top tree has put into every level-1 local *)
Definition LocInvP (T : ival -> nat) (k : Z) (w : pst) : Prop :=
  (forall x y, In x (cells k) -> ci (p_loc w k x) y = T y +n Fsum_p k x y) /\
  (forall l x y, k < l <= L -> In x (cells l) -> ci (p_loc w l x) y = farv l x y).

Lemma Fsum_step_p k x y : 1 <= k + 1 -> Fsum_p (k + 1) x y = Fsum_p k (parent d x) y +n farv (k + 1) x y.
Proof.
  intros Hs. unfold Fsum_p. rewrite ExactlyOnce.zrange_snoc by exact Hs. rewrite sumn_app, sumn_cons, sumn_nil.
  rewrite anc_self. rewrite Nat.add_0_r. f_equal.
  apply sumn_ext_in. intros l' Hl'. apply In_zrange in Hl'. rewrite (anc_child d Hd Hcap) by lia. reflexivity.
Qed.

Lemma Fsum_base_p x y : Fsum_p 1 x y = farv 1 x y.
Proof. unfold Fsum_p. change (zrange 1 1) with [1]. rewrite sumn_cons, sumn_nil, anc_self. lia. Qed.

Lemma l2l_level_inv_p T k w : 1 <= k <= H - 2 -> LocInvP T k w -> LocInvP T (k + 1) (rrun (l2l_level d t k) w).
Proof.
  intros Hk (Ha & Hb). destruct (l2l_level_effect_p k w ltac:(lia)) as (_ & HLc & _). split.
  - intros x y Hx. rewrite HLc, Z.eqb_refl. cbn [andb]. rewrite (proj2 (zmem_In x _) Hx).
    rewrite (Hb (k + 1) x y ltac:(lia) Hx), (Ha (parent d x) y (t_parent_in_cells k x ltac:(lia) Hx)).
    rewrite Fsum_step_p by lia. lia.
  - intros l x y Hl Hx. rewrite HLc. destruct (Z.eqb_spec l (k + 1)); [lia|]. cbn [andb].
    rewrite (Hb l x y ltac:(lia) Hx). lia.
Qed.

Lemma l2l_pass_inv_p T : forall n k w, k = L - Z.of_nat n -> 1 <= k -> LocInvP T k w ->
  LocInvP T L (rrun (flat_map (l2l_level d t) (zrange k (H - 2))) w) /\
  (forall l x y, ci (p_mult (rrun (flat_map (l2l_level d t) (zrange k (H - 2))) w) l x) y = ci (p_mult w l x) y) /\
  (forall p y, ci (p_rhs (rrun (flat_map (l2l_level d t) (zrange k (H - 2))) w) p) y = ci (p_rhs w p) y).
Proof.
  induction n as [|n IH]; intros k w Ek Hk Hinv.
  - rewrite ExactlyOnce.zrange_nil by lia. cbn [flat_map]. replace k with L in Hinv by lia.
    repeat split; try apply Hinv; intros; reflexivity.
  - rewrite ExactlyOnce.zrange_cons by lia. cbn [flat_map]. rewrite rrun_app.
    destruct (l2l_level_effect_p k w ltac:(lia)) as (E1 & _ & E3).
    pose proof (l2l_level_inv_p T k w ltac:(lia) Hinv) as Hinv1.
    set (w1 := rrun (l2l_level d t k) w) in *.
    destruct (IH (k + 1) w1 ltac:(lia) ltac:(lia) Hinv1) as (I1 & I2 & I3).
    repeat split; try apply I1.
    + intros l x y. rewrite I2. apply E1.
    + intros p y. rewrite I3. apply E3.
Qed.

Lemma l2p_effect_p w :
  (forall l x y, ci (p_mult (rrun (pass_L2P 1 t) w) l x) y = ci (p_mult w l x) y) /\
  (forall l x y, ci (p_loc (rrun (pass_L2P 1 t) w) l x) y = ci (p_loc w l x) y) /\
  (forall p y, ci (p_rhs (rrun (pass_L2P 1 t) w) p) y
     = ci (p_rhs w p) y +n (if valid p then ci (p_loc w L (lo p)) y else 0%nat)).
Proof.
  rewrite t_pass_L2P.
  set (tr := map (fun lf => CL2P (lf_index lf) (lf_parts lf)) lvs).
  assert (Hel : elementary tr = map (fun lf => EL2P (lf_index lf) (lf_parts lf)) lvs).
  { apply elementary_map_single. reflexivity. }
  assert (Hok' : Forall (peok nordM allrd) (elementary tr)).
  { rewrite Hel. apply Forall_forall. intros e He. apply in_map_iff in He. destruct He as (lf & <- & _).
    apply peok_L2P. exact I. }
  destruct (rrun_counts d L _ _ tr Hok' w) as (HM & HL & HR). rewrite Hel in HM, HL, HR.
  repeat split.
  - intros l x y. rewrite HM, sumn_zero; [lia|]. intros e He. apply in_map_iff in He. destruct He as (lf & <- & _). reflexivity.
  - intros l x y. rewrite HL, sumn_zero; [lia|]. intros e He. apply in_map_iff in He. destruct He as (lf & <- & _). reflexivity.
  - intros p y. rewrite HR. f_equal. rewrite sumn_map. cbn [pcr].
    rewrite (sumn_ext_in _ (fun lf => (fun c => if c =? lo p then (if valid p then ci (p_loc w L c) y else 0%nat) else 0%nat) (lf_index lf))).
    2:{ intros lf Hlf. cbv beta. rewrite (t_cnt_parts lf p Hlf). rewrite (Z.eqb_sym (lo p)).
        destruct (valid p); destruct (lf_index lf =? lo p); cbn [andb b2n]; lia. }
    rewrite (t_sumn_leaves (fun c => if c =? lo p then (if valid p then ci (p_loc w L c) y else 0%nat) else 0%nat)).
    destruct (valid p) eqn:Hv.
    + apply (sumn_pick_in _ (lo p) (fun c => ci (p_loc w L c) y)); [apply t_cells_nodup; lia|apply t_lo_leaf; exact Hv].
    + apply sumn_zero. intros c _. destruct (c =? lo p); reflexivity.
Qed.

(* ------------------------------------------------------------------ *)
(* 11. the complete periodic sequence                                  *)
(* ------------------------------------------------------------------ *)
Lemma mid_eq : execute d true 1 (F_M2L + F_P2P) t = pass_M2L d true 1 t ++ pass_P2P d true t.
Proof. unfold execute. cbn. reflexivity. Qed.

Lemma down_eq : execute d true 1 (F_L2L + F_L2P) t = pass_L2L d 1 t ++ pass_L2P 1 t.
Proof. unfold execute. cbn. rewrite app_nil_r. reflexivity. Qed.

Definition topT (k : Z) (y : ival) : nat := b2n (valid (fst y) && (0 <=? k) && farsb k (snd y)).

Lemma run_split k :
  prun d k L (periodic_run d k 1 t) pst0
  = rrun (pass_L2P 1 t) (rrun (pass_L2L d 1 t) (rrun (pass_P2P d true t) (rrun (pass_M2L d true 1 t) (run_up_top k)))).
Proof.
  unfold periodic_run, run_up_top. rewrite !prun_app, !prun_real, mid_eq, down_eq, !rrun_app. reflexivity.
Qed.

Lemma final_state k : -1 <= k ->
  MultInvP 1 (prun d k L (periodic_run d k 1 t) pst0) /\
  (forall p q s, valid p = true ->
     ci (p_rhs (prun d k L (periodic_run d k 1 t) pst0) p) (q, s)
     = nearv p (q, s) +n (topT k (q, s) +n Fsum_p L (lo p) (q, s))).
Proof.
  intros Hk. rewrite run_split.
  destruct (up_top_state k Hk) as (I2 & L2 & R2). set (w2 := run_up_top k) in *.
  destruct (m2l_effect_p w2 I2) as (M3 & L3 & R3). set (w3 := rrun (pass_M2L d true 1 t) w2) in *.
  destruct (p2p_effect_p w3) as (M4 & L4 & R4). set (w4 := rrun (pass_P2P d true t) w3) in *.
  assert (I4 : LocInvP (topT k) 1 w4).
  { split.
    - intros x [q' s'] Hx. rewrite L4, L3, L2, Fsum_base_p. rewrite Z.eqb_refl, (proj2 (zmem_In x _) Hx).
      replace ((1 <=? 1) && (1 <=? L)) with true by lia. reflexivity.
    - intros l x [q' s'] Hl Hx. rewrite L4, L3, L2. rewrite (proj2 (zmem_In x _) Hx).
      replace ((1 <=? l) && (l <=? L)) with true by lia. replace (l =? 1) with false by lia. reflexivity. }
  rewrite (pass_L2L_eq d H B mode t Hok 1).
  destruct (l2l_pass_inv_p (topT k) (Z.to_nat (L - 1)) 1 w4 ltac:(lia) ltac:(lia) I4) as (I5 & M5 & R5).
  set (w5 := rrun (flat_map (l2l_level d t) (zrange 1 (H - 2))) w4) in *.
  destruct (l2p_effect_p w5) as (M6 & L6 & R6).
  split.
  - destruct I2 as [Ia Ib]. split.
    + intros l x q s Hl. rewrite M6, M5, M4, M3. apply Ia. exact Hl.
    + intros l x y Hl. rewrite M6, M5, M4, M3. apply Ib. exact Hl.
  - intros p q s Hp. rewrite R6, R5, R4, R3, R2, Hp. cbn [Nat.add].
    rewrite (proj1 I5 (lo p) (q, s) (t_lo_leaf p Hp)). reflexivity.
Qed.

Lemma final_rhs k p q s : -1 <= k -> valid p = true ->
  ci (p_rhs (prun d k L (periodic_run d k 1 t) pst0) p) (q, s)
  = nearv p (q, s) +n (topT k (q, s) +n Fsum_p L (lo p) (q, s)).
Proof. intros Hk Hp. apply (proj2 (final_state k Hk)). exact Hp. Qed.

(* the multipoles of the levels 1..L are not touched after the upward call *)
Lemma final_mult k : -1 <= k -> MultInvP 1 (prun d k L (periodic_run d k 1 t) pst0).
Proof. intros Hk. apply (final_state k Hk). Qed.

Lemma allzero_veqb s : length s = d -> forallb (Z.eqb 0) s = veqb s zv.
Proof.
  intros Hs. apply eq_true_iff_eq. rewrite veqb_eq. split.
  - intros E. rewrite <- Hs. apply forallb_eqb0_repeat. exact E.
  - intros ->. apply forallb_eqb0_of_repeat.
Qed.

Lemma rep_interval_bounds k : 0 <= k -> fst (repetition_interval k) <= -1 /\ 1 <= snd (repetition_interval k).
Proof.
  intros Hk. destruct (Z.eq_dec k 0) as [->|Hne]; [cbn; lia|].
  rewrite repetition_interval_pos by lia. cbn [fst snd].
  assert (2 <= 2 ^ k) by (change 2 with (2 ^ 1) at 1; apply Z.pow_le_mono_r; lia). lia.
Qed.

Lemma zv_inbox : inbox (-1) 1 zv = true.
Proof. apply inbox_spec. apply Forall_forall. intros x Hx. apply repeat_spec in Hx. lia. Qed.

(* MAIN, inside the section: the count of (q, s) in particle p *)
Lemma final_count k p q s : -1 <= k -> 0 <= p < zlen idx ->
  ci (p_rhs (prun d k L (periodic_run d k 1 t) pst0) p) (q, s)
  = expected d (zlen idx) (fst (repetition_interval k)) (snd (repetition_interval k)) p q s.
Proof.
  intros Hk Hp. assert (Hvp : valid p = true) by (apply t_valid_iff; exact Hp).
  rewrite (final_rhs k p q s Hk Hvp). unfold expected. fold (valid q).
  change ((0 <=? q) && (q <? zlen idx)) with (valid q).
  change (forallb (fun x => (fst (repetition_interval k) <=? x) && (x <=? snd (repetition_interval k))) s)
    with (inbox (fst (repetition_interval k)) (snd (repetition_interval k)) s).
  unfold nearv, topT, Fsum_p, farv. cbn [fst snd]. rewrite Hvp.
  destruct (valid q) eqn:Hvq; cbn [andb].
  2:{ unfold innerv. fold (valid p) (valid q). rewrite Hvp, Hvq. cbn [andb b2n]. rewrite sumn_zero by reflexivity. reflexivity. }
  assert (Hin : innerv idx p q = b2n (negb (q =? p) && (lo q =? lo p))).
  { unfold innerv. fold (valid p) (valid q). rewrite Hvp, Hvq. reflexivity. }
  rewrite Hin.
  pose proof (geom_once d Hd L (lo p) (lo q) s p q ltac:(lia) (t_lo_range p Hvp) (t_lo_range q Hvq)
                ltac:(intros ->; reflexivity)) as HG.
  cbn [b2n] in *. unfold zb.
  set (S1 := sumn (fun l' => farn d l' (anc d L l' (lo p)) (anc d L l' (lo q)) s) (zrange 1 L)) in *.
  set (N1 := upn d L (lo p) (lo q) s +n upn' d L (lo q) (lo p) s) in *.
  set (I1 := b2n (negb (q =? p) && (lo q =? lo p)) *n b2n (veqb s zv)) in *.
  replace (1 *n N1 +n I1 +n (b2n ((0 <=? k) && farsb k s) +n S1))
    with (S1 +n N1 +n I1 +n b2n ((0 <=? k) && farsb k s)) by lia.
  rewrite HG. clear HG S1 N1 I1 Hin.
  destruct (Nat.eqb (length s) d) eqn:Hs; cbn [andb].
  2:{ unfold farsb. rewrite Hs. cbn [andb]. rewrite andb_false_r. reflexivity. }
  apply Nat.eqb_eq in Hs. rewrite (allzero_veqb s Hs). unfold farsb. rewrite (proj2 (Nat.eqb_eq _ _) Hs). cbn [andb].
  destruct (Z_lt_le_dec k 0) as [Hneg|Hpos].
  - assert (k = -1) as -> by lia. cbn [repetition_interval Z.eqb fst snd Z.leb Z.compare andb b2n].
    change (repetition_interval (-1)) with (-1, 1). cbn [fst snd].
    destruct (inbox (-1) 1 s && negb ((q =? p) && veqb s zv)); reflexivity.
  - replace (0 <=? k) with true by lia. cbn [andb].
    destruct (rep_interval_bounds k Hpos) as [Blo Bhi].
    set (rlo := fst (repetition_interval k)) in *. set (rhi := snd (repetition_interval k)) in *.
    destruct (inbox (-1) 1 s) eqn:E1; cbn [andb negb].
    + rewrite (inbox_mono (-1) 1 rlo rhi s Blo Bhi E1). rewrite andb_false_r. cbn [b2n andb].
      destruct (negb ((q =? p) && veqb s zv)); reflexivity.
    + assert (Ez : veqb s zv = false).
      { destruct (veqb s zv) eqn:E; [|reflexivity]. apply veqb_eq in E. rewrite E, zv_inbox in E1. discriminate. }
      rewrite Ez, andb_false_r, andb_true_r. cbn [negb andb b2n]. destruct (inbox rlo rhi s); reflexivity.
Qed.


End PerCompose.

(* ------------------------------------------------------------------ *)
(* 12. the top-level theorems                                          *)
(* ------------------------------------------------------------------ *)
(* (a) the top tree: after the upward call and the top-tree calls, every level-1 local holds every particle at every
   whole-box shift of the reported repetition cube minus [-1,1]^d, each exactly once, and nothing else *)
Theorem top_part_images : forall d H B mode k t idx, (0 < d)%nat -> 2 <= H -> 0 <= k ->
  tree_ok (parent d) H B mode t -> particles_ok idx t -> Forall (fun i => 0 <= i < 2 ^ ((H - 1) * dz d)) idx -> idx <> [] ->
  let st := prun d k (H - 1) (map Real (execute d true 1 (F_P2M + F_M2M) t) ++ map Top (top_execute d k 63 t)) pst0 in
  let (lo, hi) := repetition_interval k in
  forall c1 q sigma, In c1 (level_cells (levels_of t 1)) ->
    count_occ ival_eq_dec (p_loc st 1 c1) (q, sigma)
    = if (0 <=? q) && (q <? zlen idx) && Nat.eqb (length sigma) d && forallb (fun x => (lo <=? x) && (x <=? hi)) sigma
         && negb (forallb (fun x => (-1 <=? x) && (x <=? 1)) sigma) then 1%nat else 0%nat.
Proof.
  intros d H B mode k t idx Hd HH Hk Hok Hpart Hrange _ st.
  destruct (up_top_state d Hd H B mode t idx HH Hok Hpart k ltac:(lia)) as (_ & HL & _).
  fold (run_up_top d H t k) in st. unfold run_up_top in HL. fold st in HL.
  destruct (repetition_interval k) as [lo hi] eqn:Ek.
  intros c1 q sigma Hc. change (count_occ ival_eq_dec ?v ?y) with (ci v y). rewrite HL.
  rewrite Z.eqb_refl, (proj2 (zmem_In c1 _) Hc). cbn [andb].
  replace (0 <=? k) with true by lia. unfold farsb, inbox, ExactlyOnce.valid. rewrite Ek. cbn [fst snd].
  rewrite andb_true_r, !andb_assoc. reflexivity.
Qed.

(* the multipole invariant: after the whole periodic sequence every multipole of a level 1..H-1 holds exactly the
   particles below its cell, each once, at zero shift *)
Theorem per_multipoles : forall d H B mode k t idx, (0 < d)%nat -> 2 <= H -> -1 <= k ->
  tree_ok (parent d) H B mode t -> particles_ok idx t -> Forall (fun i => 0 <= i < 2 ^ ((H - 1) * dz d)) idx -> idx <> [] ->
  let st := prun d k (H - 1) (periodic_run d k 1 t) pst0 in
  forall l c q sigma, 1 <= l < H ->
    count_occ ival_eq_dec (p_mult st l c) (q, sigma)
    = if (0 <=? q) && (q <? zlen idx) && (anc d (H - 1) l (znth idx q (-1)) =? c) && list_eqb Z.eqb sigma (repeat 0 d)
      then 1%nat else 0%nat.
Proof.
  intros d H B mode k t idx Hd HH Hk Hok Hpart Hrange _ st l c q sigma Hl.
  destruct (final_mult d Hd H B mode t idx HH Hok Hpart Hrange k Hk) as [Hhi _]. fold st in Hhi.
  change (count_occ ival_eq_dec ?v ?y) with (ci v y). rewrite Hhi by lia.
  unfold ExactlyOnce.below, zb, ExactlyOnce.valid, ExactlyOnce.lo, veqb.
  destruct ((0 <=? q) && (q <? zlen idx) && (anc d (H - 1) l (znth idx q (-1)) =? c));
    destruct (list_eqb Z.eqb sigma (repeat 0 d)); reflexivity.
Qed.

(* MAIN *)
Theorem periodic_exactly_once : forall d H B mode k t idx, (0 < d)%nat -> 2 <= H -> -1 <= k ->
  tree_ok (parent d) H B mode t -> particles_ok idx t -> Forall (fun i => 0 <= i < 2 ^ ((H - 1) * dz d)) idx -> idx <> [] ->
  let st := prun d k (H - 1) (periodic_run d k 1 t) pst0 in
  let (lo, hi) := repetition_interval k in
  forall p q sigma, 0 <= p < zlen idx ->
    count_occ ival_eq_dec (p_rhs st p) (q, sigma)
    = if (0 <=? q) && (q <? zlen idx) && (Nat.eqb (length sigma) d) && forallb (fun x => (lo <=? x) && (x <=? hi)) sigma
         && negb ((q =? p) && forallb (Z.eqb 0) sigma) then 1%nat else 0%nat.
Proof.
  intros d H B mode k t idx Hd HH Hk Hok Hpart Hrange _ st.
  pose proof (final_count d Hd H B mode t idx HH Hok Hpart Hrange k) as HF. fold st in HF.
  destruct (repetition_interval k) as [lo hi]. cbn [fst snd] in HF.
  intros p q sigma Hp. apply (HF p q sigma Hk Hp).
Qed.

(* (b) the in-box part alone: without extra levels (k = -1, the top tree makes no call) the wrapped lists deliver every
   image of the 3^d adjacent copies exactly once *)
Theorem inbox_images_once : forall d H B mode t idx, (0 < d)%nat -> 2 <= H ->
  tree_ok (parent d) H B mode t -> particles_ok idx t -> Forall (fun i => 0 <= i < 2 ^ ((H - 1) * dz d)) idx -> idx <> [] ->
  let st := prun d (-1) (H - 1) (periodic_run d (-1) 1 t) pst0 in
  forall p q sigma, 0 <= p < zlen idx ->
    count_occ ival_eq_dec (p_rhs st p) (q, sigma)
    = if (0 <=? q) && (q <? zlen idx) && (Nat.eqb (length sigma) d) && forallb (fun x => (-1 <=? x) && (x <=? 1)) sigma
         && negb ((q =? p) && forallb (Z.eqb 0) sigma) then 1%nat else 0%nat.
Proof.
  intros d H B mode t idx Hd HH Hok Hpart Hrange Hne.
  exact (periodic_exactly_once d H B mode (-1) t idx Hd HH ltac:(lia) Hok Hpart Hrange Hne).
Qed.

(* corollary for the tree built by the model of the constructor *)
Theorem periodic_exactly_once_build : forall d H B mode k idx, (0 < d)%nat -> 2 <= H -> 1 <= B -> -1 <= k ->
  idx <> [] -> Forall (fun i => 0 <= i < 2 ^ ((H - 1) * dz d)) idx ->
  let t := build (parent d) H B mode idx in
  let st := prun d k (H - 1) (periodic_run d k 1 t) pst0 in
  let (lo, hi) := repetition_interval k in
  forall p q sigma, 0 <= p < zlen idx ->
    count_occ ival_eq_dec (p_rhs st p) (q, sigma) = expected d (zlen idx) lo hi p q sigma.
Proof.
  intros d H B mode k idx Hd HH HB Hk Hne Hrange t.
  assert (Hnn : Forall (fun c => 0 <= c) idx).
  { eapply Forall_impl; [|exact Hrange]. cbv beta. intros a Ha. lia. }
  assert (Hok : tree_ok (parent d) H B mode t).
  { apply build_ok; try assumption; try lia.
    - apply par_mono.
    - intros a Ha. rewrite parent_div. apply Z.div_pos; [exact Ha|apply pow_dz_pos]. }
  assert (Hpart : particles_ok idx t) by (apply build_particles; try assumption; lia).
  exact (periodic_exactly_once d H B mode k t idx Hd HH Hk Hok Hpart Hrange Hne).
Qed.

Print Assumptions rrun_counts.
Print Assumptions geom_once.
Print Assumptions top_part_images.
Print Assumptions per_multipoles.
Print Assumptions inbox_images_once.
Print Assumptions periodic_exactly_once.
Print Assumptions periodic_exactly_once_build.
