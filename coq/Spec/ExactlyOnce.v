(* Composition of the refinement, geometry and construction theorems into the top-level statement:
   after one complete execution of the FMM executor on a well-formed tree, every particle has
   accumulated exactly one contribution from every other particle and none from itself. *)
From Tbfmm Require Import Base.Prelude Base.Search Index.MortonDefs Tree.GroupDefs Index.ListsDefs Index.ListsSpec
  Tree.BuildDefs Tree.Invariant Tree.LookupProofs Tree.BuildProofs Index.MortonProofs Index.MortonBits Index.ListsProofs
  Exec.ExecDefs Spec.Elem Spec.Kernel Spec.Geometry Exec.RefineM2M Exec.RefineM2L.
From Coq Require Import Sorting.Sorted Sorting.Permutation ZifyBool Zify.
Local Open Scope Z_scope.
Ltac Zify.zify_post_hook ::= Z.div_mod_to_equations.

(* ------------------------------------------------------------------ *)
(* 1. counting                                                         *)
(* ------------------------------------------------------------------ *)
Definition cnt (v : list Z) (q : Z) : nat := count_occ Z.eq_dec v q.
Infix "+n" := Nat.add (at level 50, left associativity).
Infix "*n" := Nat.mul (at level 40, left associativity).
Definition b2n (b : bool) : nat := if b then 1%nat else 0%nat.

Lemma cnt_nil q : cnt [] q = 0%nat.
Proof. reflexivity. Qed.

Lemma cnt_app a b q : cnt (a ++ b) q = (cnt a q + cnt b q)%nat.
Proof. apply count_occ_app. Qed.

Lemma cnt_cons a v q : cnt (a :: v) q = (b2n (a =? q)%Z + cnt v q)%nat.
Proof.
  unfold cnt. cbn [count_occ]. destruct (Z.eq_dec a q) as [E|E].
  - rewrite (proj2 (Z.eqb_eq a q) E). reflexivity.
  - rewrite (proj2 (Z.eqb_neq a q) E). reflexivity.
Qed.

Definition sumn {A} (f : A -> nat) (l : list A) : nat := fold_right (fun a acc => (f a + acc)%nat) 0%nat l.

Lemma sumn_nil {A} (f : A -> nat) : sumn f [] = 0%nat.
Proof. reflexivity. Qed.

Lemma sumn_cons {A} (f : A -> nat) a l : sumn f (a :: l) = (f a + sumn f l)%nat.
Proof. reflexivity. Qed.

Lemma sumn_app {A} (f : A -> nat) l1 l2 : sumn f (l1 ++ l2) = (sumn f l1 + sumn f l2)%nat.
Proof. induction l1 as [|a l1 IH]; [reflexivity|]. cbn [app]. rewrite !sumn_cons, IH. lia. Qed.

Lemma sumn_ext_in {A} (f g : A -> nat) l : (forall a, In a l -> f a = g a) -> sumn f l = sumn g l.
Proof.
  induction l as [|a l IH]; intros H; [reflexivity|]. rewrite !sumn_cons.
  rewrite (H a (or_introl eq_refl)), IH; [reflexivity|]. intros b Hb. apply H. right. exact Hb.
Qed.

Lemma sumn_zero {A} (f : A -> nat) l : (forall a, In a l -> f a = 0%nat) -> sumn f l = 0%nat.
Proof.
  induction l as [|a l IH]; intros H; [reflexivity|]. rewrite sumn_cons.
  rewrite (H a (or_introl eq_refl)), IH; [reflexivity|]. intros b Hb. apply H. right. exact Hb.
Qed.

Lemma sumn_perm {A} (f : A -> nat) l l' : Permutation l l' -> sumn f l = sumn f l'.
Proof.
  intros H. induction H as [|x l l' H IH|x y l|l l' l'' H1 IH1 H2 IH2].
  - reflexivity.
  - rewrite !sumn_cons, IH. reflexivity.
  - rewrite !sumn_cons. lia.
  - rewrite IH1. exact IH2.
Qed.

Lemma sumn_map {A B} (f : B -> nat) (g : A -> B) l : sumn f (map g l) = sumn (fun a => f (g a)) l.
Proof. induction l as [|a l IH]; [reflexivity|]. cbn [map]. rewrite !sumn_cons, IH. reflexivity. Qed.

Lemma sumn_flat_map {A B} (f : B -> nat) (g : A -> list B) l :
  sumn f (flat_map g l) = sumn (fun a => sumn f (g a)) l.
Proof. induction l as [|a l IH]; [reflexivity|]. cbn [flat_map]. rewrite sumn_app, sumn_cons, IH. reflexivity. Qed.

Lemma sumn_add {A} (f g : A -> nat) l : sumn (fun a => (f a + g a)%nat) l = (sumn f l + sumn g l)%nat.
Proof. induction l as [|a l IH]; [reflexivity|]. rewrite !sumn_cons, IH. lia. Qed.

Lemma sumn_if {A} (b : bool) (f : A -> nat) l :
  sumn (fun a => if b then f a else 0%nat) l = if b then sumn f l else 0%nat.
Proof. destruct b; [reflexivity|]. apply sumn_zero. reflexivity. Qed.

Lemma sumn_mul_l {A} (k : nat) (f : A -> nat) l : sumn (fun a => (k * f a)%nat) l = (k * sumn f l)%nat.
Proof. induction l as [|a l IH]; [cbn; lia|]. rewrite !sumn_cons, IH. lia. Qed.

Lemma sumn_mul_r {A} (k : nat) (f : A -> nat) l : sumn (fun a => (f a * k)%nat) l = (sumn f l * k)%nat.
Proof. induction l as [|a l IH]; [reflexivity|]. rewrite !sumn_cons, IH. lia. Qed.

Lemma cnt_flat_map {A} (f : A -> list Z) l q : cnt (flat_map f l) q = sumn (fun a => cnt (f a) q) l.
Proof. induction l as [|a l IH]; [reflexivity|]. cbn [flat_map]. rewrite cnt_app, sumn_cons, IH. reflexivity. Qed.

(* a sum with at most one non-zero term *)
Lemma sumn_single {A} (f : A -> nat) l a : NoDup l -> In a l ->
  (forall x, In x l -> x <> a -> f x = 0%nat) -> sumn f l = f a.
Proof.
  induction l as [|y l IH]; intros Hnd Hin Hz; [destruct Hin|].
  rewrite sumn_cons. inversion Hnd as [|y' l' Hny Hnd']; subst.
  destruct Hin as [->|Hin].
  - rewrite sumn_zero; [lia|]. intros x Hx. apply Hz; [right; exact Hx|]. intros ->. contradiction.
  - rewrite (Hz y (or_introl eq_refl)); [|intros ->; contradiction].
    rewrite IH; [reflexivity|exact Hnd'|exact Hin|]. intros x Hx. apply Hz. right. exact Hx.
Qed.

Lemma cnt_not_in v q : ~ In q v -> cnt v q = 0%nat.
Proof. intros H. apply count_occ_not_In. exact H. Qed.

Lemma cnt_nodup v q : NoDup v -> cnt v q = b2n (zmem q v).
Proof.
  intros Hnd. destruct (zmem q v) eqn:E.
  - apply zmem_In in E. pose proof (proj1 (NoDup_count_occ Z.eq_dec v) Hnd q) as H1.
    pose proof (proj1 (count_occ_In Z.eq_dec v q) E) as H2. unfold cnt, b2n. lia.
  - apply zmem_false in E. apply cnt_not_in. exact E.
Qed.

Lemma cnt_eq_sumn v q : cnt v q = sumn (fun a => b2n (a =? q)) v.
Proof. induction v as [|a v IH]; [reflexivity|]. rewrite cnt_cons, sumn_cons, IH. reflexivity. Qed.

(* ------------------------------------------------------------------ *)
(* 2. reading the state after an update                                *)
(* ------------------------------------------------------------------ *)
Lemma upd2_cnt f l i v l' i' q :
  cnt (upd2 f l i v l' i') q = (cnt (f l' i') q + (if ((l' =? l) && (i' =? i))%Z then cnt v q else 0))%nat.
Proof. unfold upd2. destruct ((l' =? l) && (i' =? i)); [apply cnt_app|lia]. Qed.

Lemma upd1_cnt f p v p' q :
  cnt (upd1 f p v p') q = (cnt (f p') q + (if (p' =? p)%Z then cnt v q else 0))%nat.
Proof. unfold upd1. destruct (p' =? p); [apply cnt_app|lia]. Qed.

Lemma upd_all_cnt : forall ps f v p' q,
  cnt (upd_all f ps v p') q = (cnt (f p') q + cnt ps p' * cnt (v p') q)%nat.
Proof.
  unfold upd_all. induction ps as [|a ps IH]; intros f v p' q.
  - cbn [fold_left]. rewrite cnt_nil. lia.
  - cbn [fold_left]. rewrite IH, upd1_cnt, cnt_cons. rewrite (Z.eqb_sym p' a).
    destruct (Z.eqb_spec a p') as [->|E]; cbn [b2n]; lia.
Qed.

Lemma fold_upd2_cnt (l0 : Z) (v : list Z) : forall (ch : list (Z * Z)) f l' x q,
  cnt (fold_left (fun g cc => upd2 g l0 (fst cc) v) ch f l' x) q
  = (cnt (f l' x) q + sumn (fun cc => if ((l' =? l0) && (x =? fst cc))%Z then cnt v q else 0%nat) ch)%nat.
Proof.
  induction ch as [|c ch IH]; intros f l' x q.
  - cbn [fold_left]. rewrite sumn_nil. lia.
  - cbn [fold_left]. rewrite IH, upd2_cnt, sumn_cons. lia.
Qed.

Lemma cnt_rm p v q : cnt (rm p v) q = if q =? p then 0%nat else cnt v q.
Proof.
  unfold rm. induction v as [|a v IH]; [destruct (q =? p); reflexivity|].
  cbn [filter]. rewrite cnt_cons.
  destruct (Z.eqb_spec a p) as [E|E]; cbn [negb]; [|rewrite cnt_cons]; rewrite IH;
    destruct (Z.eqb_spec q p) as [E2|E2]; destruct (Z.eqb_spec a q) as [E3|E3]; cbn [b2n]; lia.
Qed.

(* ------------------------------------------------------------------ *)
(* 3. contribution of an elementary record, read in a given state      *)
(* ------------------------------------------------------------------ *)
Definition cm (L : Z) (s : st) (e : elem) (l x q : Z) : nat :=
  match e with
  | EP2M leaf parts => if (l =? L) && (x =? leaf) then cnt parts q else 0%nat
  | EM2M l' p c _ => if (l =? l') && (x =? p) then cnt (s_mult s (l' + 1) c) q else 0%nat
  | _ => 0%nat
  end.

Definition cl (s : st) (e : elem) (l x q : Z) : nat :=
  match e with
  | EM2L l' t b _ => if (l =? l') && (x =? t) then cnt (s_mult s l' b) q else 0%nat
  | EL2L l' p c _ => if (l =? l' + 1) && (x =? c) then cnt (s_loc s l' p) q else 0%nat
  | _ => 0%nat
  end.

Definition cr (L : Z) (s : st) (e : elem) (p q : Z) : nat :=
  match e with
  | EL2P leaf parts => (cnt parts p * cnt (s_loc s L leaf) q)%nat
  | EP2P _ _ _ sp tp => (cnt tp p * cnt sp q + cnt sp p * cnt tp q)%nat
  | EP2PTsm _ _ _ sp tp => (cnt tp p * cnt sp q)%nat
  | EP2PInner _ parts => (cnt parts p * cnt (rm p parts) q)%nat
  | _ => 0%nat
  end.

Lemma step_mult L s c l x q :
  cnt (s_mult (step L s c) l x) q
  = (cnt (s_mult s l x) q + sumn (fun e => cm L s e l x q) (elems_of_call c))%nat.
Proof.
  destruct c; cbn [step s_mult elems_of_call]; try (rewrite ?sumn_map, ?sumn_cons, ?sumn_nil; cbn [cm]; rewrite ?sumn_zero by (intros; reflexivity); lia).
  - rewrite upd2_cnt. rewrite sumn_cons, sumn_nil. cbn [cm]. lia.
  - rewrite upd2_cnt, sumn_map. cbn [cm fst snd]. rewrite sumn_if, cnt_flat_map. reflexivity.
Qed.

Lemma step_loc L s c l x q :
  cnt (s_loc (step L s c) l x) q
  = (cnt (s_loc s l x) q + sumn (fun e => cl s e l x q) (elems_of_call c))%nat.
Proof.
  destruct c; cbn [step s_loc elems_of_call]; try (rewrite ?sumn_map, ?sumn_cons, ?sumn_nil; cbn [cl]; rewrite ?sumn_zero by (intros; reflexivity); lia).
  - rewrite upd2_cnt, sumn_map. cbn [cl fst snd]. rewrite sumn_if, cnt_flat_map. reflexivity.
  - rewrite fold_upd2_cnt, sumn_map. cbn [cl fst snd]. reflexivity.
Qed.

Lemma step_rhs L s c p q :
  cnt (s_rhs (step L s c) p) q
  = (cnt (s_rhs s p) q + sumn (fun e => cr L s e p q) (elems_of_call c))%nat.
Proof.
  destruct c; cbn [step s_rhs elems_of_call]; try (rewrite ?sumn_map, ?sumn_cons, ?sumn_nil; cbn [cr]; rewrite ?sumn_zero by (intros; reflexivity); lia).
  - rewrite upd_all_cnt, sumn_cons, sumn_nil. cbn [cr]. lia.
  - rewrite !upd_all_cnt, sumn_cons, sumn_nil. cbn [cr]. lia.
  - rewrite upd_all_cnt, sumn_cons, sumn_nil. cbn [cr]. lia.
  - rewrite upd_all_cnt, sumn_cons, sumn_nil. cbn [cr]. lia.
Qed.

(* ------------------------------------------------------------------ *)
(* 4. a pass whose records never read what the pass writes             *)
(* ------------------------------------------------------------------ *)
Section RunGen.
Variable L : Z.
Variables RdM RdL : Z -> Z -> Prop.   (* the (level, cell) multipole / local locations read by the pass *)

Definition agree (s s' : st) : Prop :=
  (forall l x q, RdM l x -> cnt (s_mult s' l x) q = cnt (s_mult s l x) q) /\
  (forall l x q, RdL l x -> cnt (s_loc s' l x) q = cnt (s_loc s l x) q).

Definition eok (e : elem) : Prop :=
  (forall s s', agree s s' ->
     (forall l x q, cm L s' e l x q = cm L s e l x q) /\
     (forall l x q, cl s' e l x q = cl s e l x q) /\
     (forall p q, cr L s' e p q = cr L s e p q)) /\
  (forall s l x q, RdM l x -> cm L s e l x q = 0%nat) /\
  (forall s l x q, RdL l x -> cl s e l x q = 0%nat).

Lemma step_agree s c : Forall eok (elems_of_call c) -> agree s (step L s c).
Proof.
  intros Hok. rewrite Forall_forall in Hok. split; intros l x q Hr.
  - rewrite step_mult, sumn_zero; [lia|]. intros e He. apply (Hok e He). exact Hr.
  - rewrite step_loc, sumn_zero; [lia|]. intros e He. apply (Hok e He). exact Hr.
Qed.

Theorem run_counts : forall tr, Forall eok (elementary tr) -> forall s,
  (forall l x q, cnt (s_mult (run L tr s) l x) q
                 = (cnt (s_mult s l x) q + sumn (fun e => cm L s e l x q) (elementary tr))%nat) /\
  (forall l x q, cnt (s_loc (run L tr s) l x) q
                 = (cnt (s_loc s l x) q + sumn (fun e => cl s e l x q) (elementary tr))%nat) /\
  (forall p q, cnt (s_rhs (run L tr s) p) q
                 = (cnt (s_rhs s p) q + sumn (fun e => cr L s e p q) (elementary tr))%nat).
Proof.
  induction tr as [|c tr IH]; intros Hok s.
  - cbn. repeat split; intros; lia.
  - change (elementary (c :: tr)) with (elems_of_call c ++ elementary tr) in *.
    apply Forall_app in Hok. destruct Hok as [Hc Htr].
    change (run L (c :: tr) s) with (run L tr (step L s c)).
    destruct (IH Htr (step L s c)) as (IM & IL & IR).
    pose proof (step_agree s c Hc) as Hag.
    assert (Hsame : forall e, In e (elementary tr) ->
              (forall l x q, cm L (step L s c) e l x q = cm L s e l x q) /\
              (forall l x q, cl (step L s c) e l x q = cl s e l x q) /\
              (forall p q, cr L (step L s c) e p q = cr L s e p q)).
    { intros e He. rewrite Forall_forall in Htr. apply (proj1 (Htr e He) s (step L s c) Hag). }
    repeat split.
    + intros l x q. rewrite IM, step_mult, sumn_app.
      rewrite (sumn_ext_in _ (fun e => cm L s e l x q) (elementary tr)); [lia|].
      intros e He. apply (Hsame e He).
    + intros l x q. rewrite IL, step_loc, sumn_app.
      rewrite (sumn_ext_in _ (fun e => cl s e l x q) (elementary tr)); [lia|].
      intros e He. apply (Hsame e He).
    + intros p q. rewrite IR, step_rhs, sumn_app.
      rewrite (sumn_ext_in _ (fun e => cr L s e p q) (elementary tr)); [lia|].
      intros e He. apply (Hsame e He).
Qed.

(* the records, kind by kind *)
Lemma eok_P2M leaf parts : ~ RdM L leaf -> eok (EP2M leaf parts).
Proof.
  intros Hn. split; [|split].
  - intros s s' _. repeat split; reflexivity.
  - intros s l x q Hr. cbn [cm]. destruct (Z.eqb_spec l L) as [->|]; [|reflexivity].
    destruct (Z.eqb_spec x leaf) as [->|]; [contradiction|reflexivity].
  - reflexivity.
Qed.

Lemma eok_M2M l p c code : RdM (l + 1) c -> ~ RdM l p -> eok (EM2M l p c code).
Proof.
  intros Hr Hn. split; [|split].
  - intros s s' (HM & _). repeat split; try reflexivity.
    intros l' x q. cbn [cm]. rewrite (HM _ _ q Hr). reflexivity.
  - intros s l' x q Hr'. cbn [cm]. destruct (Z.eqb_spec l' l) as [->|]; [|reflexivity].
    destruct (Z.eqb_spec x p) as [->|]; [contradiction|reflexivity].
  - reflexivity.
Qed.

Lemma eok_M2L l t b code : RdM l b -> ~ RdL l t -> eok (EM2L l t b code).
Proof.
  intros Hr Hn. split; [|split].
  - intros s s' (HM & _). repeat split; try reflexivity.
    intros l' x q. cbn [cl]. rewrite (HM _ _ q Hr). reflexivity.
  - reflexivity.
  - intros s l' x q Hr'. cbn [cl]. destruct (Z.eqb_spec l' l) as [->|]; [|reflexivity].
    destruct (Z.eqb_spec x t) as [->|]; [contradiction|reflexivity].
Qed.

Lemma eok_L2L l p c code : RdL l p -> ~ RdL (l + 1) c -> eok (EL2L l p c code).
Proof.
  intros Hr Hn. split; [|split].
  - intros s s' (_ & HL). repeat split; try reflexivity.
    intros l' x q. cbn [cl]. rewrite (HL _ _ q Hr). reflexivity.
  - reflexivity.
  - intros s l' x q Hr'. cbn [cl]. destruct (Z.eqb_spec l' (l + 1)) as [->|]; [|reflexivity].
    destruct (Z.eqb_spec x c) as [->|]; [contradiction|reflexivity].
Qed.

Lemma eok_L2P leaf parts : RdL L leaf -> eok (EL2P leaf parts).
Proof.
  intros Hr. split; [|split]; try reflexivity.
  intros s s' (_ & HL). repeat split; try reflexivity.
  intros p q. cbn [cr]. rewrite (HL _ _ q Hr). reflexivity.
Qed.

Lemma eok_P2P a b code sp tp : eok (EP2P a b code sp tp).
Proof. split; [|split]; try reflexivity. intros s s' _. repeat split; reflexivity. Qed.

Lemma eok_P2PInner leaf parts : eok (EP2PInner leaf parts).
Proof. split; [|split]; try reflexivity. intros s s' _. repeat split; reflexivity. Qed.

End RunGen.

(* ------------------------------------------------------------------ *)
(* 5. small list facts                                                 *)
(* ------------------------------------------------------------------ *)
Lemma NoDup_app_parts {A} (a b : list A) : NoDup (a ++ b) -> NoDup a /\ NoDup b.
Proof.
  induction a as [|x a IH]; intros Hnd; [split; [constructor|exact Hnd]|].
  cbn [app] in Hnd. inversion Hnd as [|y r Hny Hnd']; subst. destruct (IH Hnd') as [Ha Hb].
  split; [|exact Hb]. constructor; [|exact Ha]. intros Hin. apply Hny. apply in_or_app. left. exact Hin.
Qed.

Lemma NoDup_flat_map_in {A B} (f : A -> list B) l a : NoDup (flat_map f l) -> In a l -> NoDup (f a).
Proof.
  induction l as [|x l IH]; intros Hnd Hin; [destruct Hin|]. cbn [flat_map] in Hnd.
  apply NoDup_app_parts in Hnd. destruct Hnd as [H1 H2].
  destruct Hin as [->|Hin]; [exact H1|apply IH; assumption].
Qed.

Lemma NoDup_map_inj {A B} (f : A -> B) l a b : NoDup (map f l) -> In a l -> In b l -> f a = f b -> a = b.
Proof.
  induction l as [|x l IH]; intros Hnd Ha Hb E; [destruct Ha|]. cbn [map] in Hnd.
  inversion Hnd as [|y r Hny Hnd']; subst.
  destruct Ha as [->|Ha]; destruct Hb as [->|Hb].
  - reflexivity.
  - exfalso. apply Hny. rewrite E. apply in_map. exact Hb.
  - exfalso. apply Hny. rewrite <- E. apply in_map. exact Ha.
  - apply IH; assumption.
Qed.

Lemma offsets_ok_parts : forall ls off, offsets_ok off ls -> Forall (fun lf => lf_parts lf <> []) ls.
Proof.
  induction ls as [|lf ls IH]; intros off Hoff; [constructor|].
  cbn [offsets_ok] in Hoff. destruct Hoff as (_ & Hn & H1 & Hr). constructor.
  - intros E. rewrite E in Hn. unfold zlen in Hn. cbn in Hn. lia.
  - apply (IH _ Hr).
Qed.

Lemma level_cells_concat gs : level_cells gs = concat (map cg_cells gs).
Proof. unfold level_cells. apply flat_map_concat_map. Qed.

Lemma sumn_pick_in (cs : list Z) (x : Z) (f : Z -> nat) : NoDup cs -> In x cs ->
  sumn (fun c => if c =? x then f c else 0%nat) cs = f x.
Proof.
  intros Hnd Hin. rewrite (sumn_single _ cs x Hnd Hin).
  - rewrite Z.eqb_refl. reflexivity.
  - intros c _ Hne. destruct (Z.eqb_spec c x); [contradiction|reflexivity].
Qed.

Lemma sumn_pick_notin (cs : list Z) (x : Z) (f : Z -> nat) : ~ In x cs ->
  sumn (fun c => if c =? x then f c else 0%nat) cs = 0%nat.
Proof.
  intros Hn. apply sumn_zero. intros c Hc. destruct (Z.eqb_spec c x) as [->|]; [contradiction|reflexivity].
Qed.

Lemma sumn_pick (cs : list Z) (x : Z) (f : Z -> nat) : NoDup cs ->
  sumn (fun c => if c =? x then f c else 0%nat) cs = if zmem x cs then f x else 0%nat.
Proof.
  intros Hnd. destruct (zmem x cs) eqn:E.
  - apply zmem_In in E. apply sumn_pick_in; assumption.
  - apply zmem_false in E. apply sumn_pick_notin. exact E.
Qed.

Lemma zrange_nil lo hi : hi < lo -> zrange lo hi = [].
Proof. intros Hlt. unfold zrange. replace (Z.to_nat (hi - lo + 1)) with 0%nat by lia. reflexivity. Qed.

Lemma zrange_cons lo hi : lo <= hi -> zrange lo hi = lo :: zrange (lo + 1) hi.
Proof.
  intros Hle. unfold zrange.
  replace (Z.to_nat (hi - lo + 1)) with (S (Z.to_nat (hi - (lo + 1) + 1))) by lia.
  cbn [seq map]. f_equal; [lia|]. rewrite <- seq_shift, map_map. apply map_ext. intros k. lia.
Qed.

Lemma zrange_snoc lo hi : lo <= hi + 1 -> zrange lo (hi + 1) = zrange lo hi ++ [hi + 1].
Proof.
  intros Hle. unfold zrange.
  replace (Z.to_nat (hi + 1 - lo + 1)) with (S (Z.to_nat (hi - lo + 1))) by lia.
  rewrite seq_S, map_app. cbn [map]. f_equal. f_equal. lia.
Qed.

Lemma run_app L a b w : run L (a ++ b) w = run L b (run L a w).
Proof. unfold run. apply fold_left_app. Qed.

Lemma sumn_if_list {A} (f : A -> nat) (b : bool) (e : A) : sumn f (if b then [e] else []) = if b then f e else 0%nat.
Proof. destruct b; [cbn; lia|reflexivity]. Qed.

(* a list of (cell, code) pairs with distinct cells, filtered by membership in [cs], hits [a] at most once *)
Lemma list_pick_sum (lst : list (Z * Z)) (cs : list Z) (a : Z) : NoDup (map fst lst) -> In a cs ->
  sumn (fun sc => if zmem (fst sc) cs then b2n (a =? fst sc) else 0%nat) lst = b2n (zmem a (map fst lst)).
Proof.
  intros Hnd Ha.
  rewrite <- (sumn_map (fun b => if zmem b cs then b2n (a =? b) else 0%nat) fst lst).
  rewrite (sumn_ext_in _ (fun b => if b =? a then b2n (zmem b cs) else 0%nat)).
  2:{ intros b _. rewrite (Z.eqb_sym a b). destruct (b =? a); destruct (zmem b cs); reflexivity. }
  rewrite (sumn_pick _ _ _ Hnd). apply zmem_In in Ha. rewrite Ha. reflexivity.
Qed.

Lemma zmem_zrange l lo hi : zmem l (zrange lo hi) = (lo <=? l) && (l <=? hi).
Proof. apply eq_true_iff_eq. rewrite zmem_In, ListsProofs.In_zrange. lia. Qed.

Lemma in_map_fst (l : list (Z * Z)) b : In b (map fst l) <-> exists c, In (b, c) l.
Proof.
  rewrite in_map_iff. split.
  - intros ((b', c) & E & Hin). cbn in E. subst b'. exists c. exact Hin.
  - intros (c & Hin). exists (b, c). split; [reflexivity|exact Hin].
Qed.

Lemma b2n_true b : b = true -> b2n b = 1%nat.
Proof. intros ->. reflexivity. Qed.

Lemma b2n_false b : b = false -> b2n b = 0%nat.
Proof. intros ->. reflexivity. Qed.

(* ------------------------------------------------------------------ *)
(* 6. facts about a well-formed tree                                   *)
(* ------------------------------------------------------------------ *)
Section Compose.
Variable d : nat.
Hypothesis Hd : (0 < d)%nat.
Hypothesis Hcap : forall l t, 0 <= l -> 0 <= t < 2 ^ (l * dz d) ->
  zlen (ilist_cell d false l t) <= nb_interactions d.

Section Tree.
Variables (H B : Z) (mode : bool) (t : tree) (idx : list Z).
Hypothesis HH : 1 <= H.
Hypothesis Hok : tree_ok (parent d) H B mode t.
Hypothesis Hpart : particles_ok idx t.
Hypothesis Hrange : Forall (fun i => 0 <= i < 2 ^ ((H - 1) * dz d)) idx.

Notation L := (H - 1).
Notation cells l := (level_cells (levels_of t l)).
Notation lvs := (all_leaves t).
Definition lo (q : Z) : Z := znth idx q (-1).
Definition valid (q : Z) : bool := (0 <=? q) && (q <? zlen idx).

Lemma height_H : height t = H.
Proof. unfold height. apply Hok. Qed.

Lemma level_ok_at l : 0 <= l < H -> level_ok (levels_of t l).
Proof.
  intros Hl. destruct Hok as (Hlen & Hlev & _). rewrite Forall_forall in Hlev. apply Hlev.
  unfold levels_of. apply znth_In. lia.
Qed.

Lemma cells_parents l : 0 <= l < H - 1 -> cells l = parents_of (parent d) (cells (l + 1)).
Proof. intros Hl. destruct Hok as (_ & _ & Hp & _). apply (Hp l Hl). Qed.

Lemma pgs_ok : Forall pgroup_ok (t_pgroups t).
Proof. apply Hok. Qed.

Lemma leaf_cells_pgs : cells L = flat_map pg_indices (t_pgroups t).
Proof.
  destruct Hok as (_ & _ & _ & Hm & _). rewrite level_cells_concat. unfold levels_of. rewrite Hm.
  symmetry. apply flat_map_concat_map.
Qed.

Lemma leaf_cells : cells L = map lf_index lvs.
Proof. rewrite leaf_cells_pgs. unfold all_leaves, pg_indices. symmetry. apply map_fm. Qed.

Lemma cells_sorted l : 0 <= l < H -> StronglySorted Z.lt (cells l).
Proof. intros Hl. apply (level_ok_at l Hl). Qed.

Lemma cells_nodup l : 0 <= l < H -> NoDup (cells l).
Proof. intros Hl. apply ss_lt_NoDup. apply cells_sorted. exact Hl. Qed.

Lemma pgs_sorted : StronglySorted Z.lt (flat_map pg_indices (t_pgroups t)).
Proof. rewrite <- leaf_cells_pgs. apply cells_sorted. lia. Qed.

Lemma lvs_nodup : NoDup (map lf_index lvs).
Proof. rewrite <- leaf_cells. apply cells_nodup. lia. Qed.

Lemma leaf_nonempty lf : In lf lvs -> lf_parts lf <> [].
Proof.
  intros Hin. unfold all_leaves in Hin. apply in_flat_map in Hin. destruct Hin as (g & Hg & Hlf).
  pose proof pgs_ok as Hp. rewrite Forall_forall in Hp. destruct (Hp g Hg) as (_ & _ & _ & _ & _ & Hoff).
  apply offsets_ok_parts in Hoff. rewrite Forall_forall in Hoff. apply Hoff. exact Hlf.
Qed.

Lemma parts_nodup : NoDup (flat_map lf_parts lvs).
Proof.
  destruct Hpart as (Hp & _). apply (Permutation_NoDup (Permutation_sym Hp)).
  unfold zseq. apply NoDup_zrange.
Qed.

Lemma valid_iff q : valid q = true <-> 0 <= q < zlen idx.
Proof. unfold valid. lia. Qed.

Lemma part_valid lf p : In lf lvs -> In p (lf_parts lf) -> valid p = true /\ lo p = lf_index lf.
Proof.
  intros Hlf Hp. destruct Hpart as (Hperm & Hidx). split.
  - apply valid_iff. apply (ListsProofs.In_zseq p (zlen idx)). apply (Permutation_in _ Hperm).
    apply in_flat_map. exists lf. split; assumption.
  - rewrite Forall_forall in Hidx. specialize (Hidx lf Hlf). rewrite Forall_forall in Hidx. apply (Hidx p Hp).
Qed.

Lemma valid_part q : valid q = true -> exists lf, In lf lvs /\ In q (lf_parts lf).
Proof.
  intros Hv. destruct Hpart as (Hperm & _). apply valid_iff in Hv.
  apply (ListsProofs.In_zseq q (zlen idx)) in Hv. apply (Permutation_in _ (Permutation_sym Hperm)) in Hv.
  apply in_flat_map in Hv. exact Hv.
Qed.

Lemma zmem_parts lf q : In lf lvs -> zmem q (lf_parts lf) = valid q && (lo q =? lf_index lf).
Proof.
  intros Hlf. apply eq_true_iff_eq. rewrite zmem_In, andb_true_iff, Z.eqb_eq. split.
  - intros Hq. apply (part_valid lf q Hlf Hq).
  - intros (Hv & Hlo). destruct (valid_part q Hv) as (lf' & Hlf' & Hq).
    destruct (part_valid lf' q Hlf' Hq) as (_ & Hlo').
    assert (E : lf' = lf). { apply (NoDup_map_inj lf_index lvs); [exact lvs_nodup|assumption|assumption|congruence]. }
    subst lf'. exact Hq.
Qed.

Lemma cnt_parts lf q : In lf lvs -> cnt (lf_parts lf) q = b2n (valid q && (lo q =? lf_index lf)).
Proof.
  intros Hlf. rewrite cnt_nodup; [rewrite (zmem_parts lf q Hlf); reflexivity|].
  apply (NoDup_flat_map_in lf_parts lvs lf parts_nodup Hlf).
Qed.

Lemma lo_range q : valid q = true -> 0 <= lo q < 2 ^ (L * dz d).
Proof.
  intros Hv. apply valid_iff in Hv. rewrite Forall_forall in Hrange. apply Hrange.
  unfold lo. apply znth_In. exact Hv.
Qed.

Lemma lo_leaf q : valid q = true -> In (lo q) (cells L).
Proof.
  intros Hv. destruct (valid_part q Hv) as (lf & Hlf & Hq). destruct (part_valid lf q Hlf Hq) as (_ & ->).
  rewrite leaf_cells. apply in_map. exact Hlf.
Qed.

Lemma leaf_cell_range c : In c (cells L) -> 0 <= c < 2 ^ (L * dz d).
Proof.
  rewrite leaf_cells. intros Hc. apply in_map_iff in Hc. destruct Hc as (lf & <- & Hlf).
  pose proof (leaf_nonempty lf Hlf) as Hne. destruct (lf_parts lf) as [|p r] eqn:E; [congruence|].
  destruct (part_valid lf p Hlf) as (Hv & Hlo); [rewrite E; left; reflexivity|].
  rewrite <- Hlo. apply lo_range. exact Hv.
Qed.

Lemma parent_range l c : 0 <= l -> 0 <= c < 2 ^ ((l + 1) * dz d) -> 0 <= parent d c < 2 ^ (l * dz d).
Proof.
  intros Hl Hc. pose proof (dz_nonneg d) as Hdz. rewrite parent_div.
  assert (Hp : 0 < 2 ^ dz d) by (apply pow2_pos; lia).
  split; [apply Z.div_pos; lia|]. apply Z.div_lt_upper_bound; [exact Hp|].
  rewrite <- Z.pow_add_r by nia. replace (dz d + l * dz d) with ((l + 1) * dz d) by lia. lia.
Qed.

Lemma in_parents_of cs p : In p (parents_of (parent d) cs) <-> exists c, In c cs /\ parent d c = p.
Proof.
  unfold parents_of. rewrite In_dedup_adj_iff, in_map_iff. split; intros (c & H1 & H2); exists c; tauto.
Qed.

Lemma cells_range_n : forall n l, l = L - Z.of_nat n -> 0 <= l -> forall c, In c (cells l) -> 0 <= c < 2 ^ (l * dz d).
Proof.
  induction n as [|n IH]; intros l El Hl c Hc.
  - replace l with L in * by lia. apply leaf_cell_range. exact Hc.
  - rewrite (cells_parents l) in Hc by lia. apply in_parents_of in Hc. destruct Hc as (c' & Hc' & <-).
    apply parent_range; [exact Hl|]. apply (IH (l + 1)); [lia|lia|exact Hc'].
Qed.

Lemma cells_range l c : 0 <= l < H -> In c (cells l) -> 0 <= c < 2 ^ (l * dz d).
Proof. intros Hl. apply (cells_range_n (Z.to_nat (L - l))); lia. Qed.

Lemma anc_top x : anc d L L x = x.
Proof. unfold anc. rewrite Z.sub_diag, Z.mul_0_l, Z.pow_0_r. apply Z.div_1_r. Qed.

Lemma anc_parent L0 l x : 0 <= l < L0 -> parent d (anc d L0 (l + 1) x) = anc d L0 l x.
Proof.
  intros Hl. pose proof (dz_nonneg d) as Hdz. unfold anc. rewrite parent_div.
  rewrite div_pow2_add by nia. f_equal. f_equal. lia.
Qed.

Lemma anc_in_cells_n : forall n l, l = L - Z.of_nat n -> 0 <= l -> forall q, valid q = true ->
  In (anc d L l (lo q)) (cells l).
Proof.
  induction n as [|n IH]; intros l El Hl q Hv.
  - replace l with L in * by lia. rewrite anc_top. apply lo_leaf. exact Hv.
  - rewrite (cells_parents l) by lia. apply in_parents_of. exists (anc d L (l + 1) (lo q)). split.
    + apply (IH (l + 1)); [lia|lia|exact Hv].
    + apply anc_parent. lia.
Qed.

Lemma anc_in_cells l q : 0 <= l < H -> valid q = true -> In (anc d L l (lo q)) (cells l).
Proof. intros Hl. apply (anc_in_cells_n (Z.to_nat (L - l))); lia. Qed.


(* ------------------------------------------------------------------ *)
(* 7. the two leaf passes as lists of records                          *)
(* ------------------------------------------------------------------ *)
Lemma leaf_body (mk : Z -> list Z -> call) (id : Z) : forall ls,
  flat_map (fun cl : Z * leaf => let '(c, lf) := cl in
              (if lf_index lf =? c then [] else [CAssert id]) ++ [mk c (lf_parts lf)])
           (combine (map lf_index ls) ls)
  = map (fun lf => mk (lf_index lf) (lf_parts lf)) ls.
Proof.
  induction ls as [|lf ls IH]; [reflexivity|].
  cbn [map combine flat_map]. rewrite Z.eqb_refl, IH. reflexivity.
Qed.

Lemma group_headers cg pg : cgroup_ok cg -> pgroup_ok pg -> cg_cells cg = pg_indices pg ->
  (pg_first pg =? cg_first cg) && (pg_last pg =? cg_last cg) && (pg_nl pg =? cg_n cg) = true.
Proof.
  intros (_ & Hf & Hl & Hn) (_ & Hpf & Hpl & Hpn & _) E.
  rewrite Hf, Hl, Hn, Hpf, Hpl, Hpn, E, pg_indices_len, !Z.eqb_refl. reflexivity.
Qed.

Lemma p2m_groups : forall cgs pgs, map cg_cells cgs = map pg_indices pgs ->
  Forall cgroup_ok cgs -> Forall pgroup_ok pgs ->
  flat_map (fun cp : cgroup * pgroup => let '(cg, pg) := cp in
      (if (pg_first pg =? cg_first cg) && (pg_last pg =? cg_last cg) && (pg_nl pg =? cg_n cg) then [] else [CAssert 45])
      ++ flat_map (fun cl : Z * leaf => let '(c, lf) := cl in
                     (if lf_index lf =? c then [] else [CAssert 21]) ++ [CP2M c (lf_parts lf)])
                  (combine (cg_cells cg) (pg_leaves pg)))
    (combine cgs pgs)
  = map (fun lf => CP2M (lf_index lf) (lf_parts lf)) (flat_map pg_leaves pgs).
Proof.
  induction cgs as [|cg cgs IH]; intros pgs E Hc Hp.
  - destruct pgs; [reflexivity|discriminate].
  - destruct pgs as [|pg pgs]; [discriminate|]. cbn [map] in E. injection E as E1 E2.
    inversion Hc as [|? ? Hc1 Hc2]; subst. inversion Hp as [|? ? Hp1 Hp2]; subst.
    cbn [combine flat_map]. rewrite (group_headers cg pg Hc1 Hp1 E1), (IH pgs E2 Hc2 Hp2), map_app.
    cbn [app]. f_equal. rewrite E1. unfold pg_indices. apply leaf_body.
Qed.

Lemma l2p_groups : forall cgs pgs, map cg_cells cgs = map pg_indices pgs ->
  flat_map (fun cp : cgroup * pgroup => let '(cg, pg) := cp in
      flat_map (fun cl : Z * leaf => let '(c, lf) := cl in
                     (if lf_index lf =? c then [] else [CAssert 229]) ++ [CL2P c (lf_parts lf)])
                  (combine (cg_cells cg) (pg_leaves pg)))
    (combine cgs pgs)
  = map (fun lf => CL2P (lf_index lf) (lf_parts lf)) (flat_map pg_leaves pgs).
Proof.
  induction cgs as [|cg cgs IH]; intros pgs E.
  - destruct pgs; [reflexivity|discriminate].
  - destruct pgs as [|pg pgs]; [discriminate|]. cbn [map] in E. injection E as E1 E2.
    cbn [combine flat_map]. rewrite (IH pgs E2), map_app.
    f_equal. rewrite E1. unfold pg_indices. apply leaf_body.
Qed.

Lemma leaf_groups_eq : map cg_cells (levels_of t L) = map pg_indices (t_pgroups t).
Proof. apply Hok. Qed.

Lemma pass_P2M_eq s0 : pass_P2M s0 t
  = if s0 <? H then map (fun lf => CP2M (lf_index lf) (lf_parts lf)) lvs else [].
Proof.
  unfold pass_P2M. rewrite height_H. destruct (s0 <? H); [|reflexivity].
  assert (E : zlen (levels_of t L) = zlen (t_pgroups t)).
  { unfold zlen. f_equal. rewrite <- (map_length cg_cells), leaf_groups_eq. apply map_length. }
  rewrite E, Z.eqb_refl. cbn [app]. apply p2m_groups.
  - exact leaf_groups_eq.
  - apply (level_ok_at L). lia.
  - exact pgs_ok.
Qed.

Lemma pass_L2P_eq s0 : pass_L2P s0 t
  = if s0 <? H then map (fun lf => CL2P (lf_index lf) (lf_parts lf)) lvs else [].
Proof.
  unfold pass_L2P. rewrite height_H. destruct (s0 <? H); [|reflexivity].
  apply l2p_groups. exact leaf_groups_eq.
Qed.

Lemma no_assert_map {A} (f : A -> call) l : (forall a i, f a <> CAssert i) -> no_assert (map f l).
Proof. intros Hf i Hin. apply in_map_iff in Hin. destruct Hin as (a & E & _). apply (Hf a i E). Qed.

Lemma pass_P2M_na s0 : no_assert (pass_P2M s0 t).
Proof.
  rewrite pass_P2M_eq. destruct (s0 <? H); [|apply no_assert_nil]. apply no_assert_map. intros; discriminate.
Qed.

Lemma pass_L2P_na s0 : no_assert (pass_L2P s0 t).
Proof.
  rewrite pass_L2P_eq. destruct (s0 <? H); [|apply no_assert_nil]. apply no_assert_map. intros; discriminate.
Qed.

Lemma elementary_map_single {A} (f : A -> call) (g : A -> elem) l :
  (forall a, elems_of_call (f a) = [g a]) -> elementary (map f l) = map g l.
Proof.
  intros Hf. unfold elementary. rewrite fm_map. rewrite (fm_ext_in _ (fun a => [g a])); [apply fm_single|].
  intros a _. apply Hf.
Qed.


(* ------------------------------------------------------------------ *)
(* 8. upward passes: P2M and M2M                                       *)
(* ------------------------------------------------------------------ *)
Definition nordM : Z -> Z -> Prop := fun _ _ => False.
Definition allrd : Z -> Z -> Prop := fun _ _ => True.

(* q is one of the particles below cell x of level l *)
Definition below (l x q : Z) : nat := b2n (valid q && (anc d L l (lo q) =? x)).

Lemma sumn_leaves (G : Z -> nat) : sumn (fun lf => G (lf_index lf)) lvs = sumn G (cells L).
Proof. rewrite leaf_cells, sumn_map. reflexivity. Qed.

Lemma below_leaf_sum x q :
  sumn (fun c => if c =? x then b2n (valid q && (lo q =? c)) else 0%nat) (cells L) = below L x q.
Proof.
  unfold below. rewrite anc_top. rewrite sumn_pick by (apply cells_nodup; lia).
  destruct (zmem x (cells L)) eqn:E; [reflexivity|]. apply zmem_false in E.
  destruct (valid q) eqn:Hv; [|reflexivity]. cbn [andb].
  destruct (Z.eqb_spec (lo q) x) as [<-|]; [|reflexivity]. exfalso. apply E. apply lo_leaf. exact Hv.
Qed.

Lemma p2m_effect s0 w :
  (forall l x q, cnt (s_mult (run L (pass_P2M s0 t) w) l x) q
     = cnt (s_mult w l x) q +n (if (s0 <? H) && (l =? L) then below L x q else 0%nat)) /\
  (forall l x q, cnt (s_loc (run L (pass_P2M s0 t) w) l x) q = cnt (s_loc w l x) q) /\
  (forall p q, cnt (s_rhs (run L (pass_P2M s0 t) w) p) q = cnt (s_rhs w p) q).
Proof.
  rewrite pass_P2M_eq. destruct (s0 <? H); cbn [andb].
  2:{ cbn [run fold_left]. repeat split; intros; lia. }
  set (tr := map (fun lf => CP2M (lf_index lf) (lf_parts lf)) lvs).
  assert (Hel : elementary tr = map (fun lf => EP2M (lf_index lf) (lf_parts lf)) lvs).
  { apply elementary_map_single. reflexivity. }
  assert (Hok' : Forall (eok L nordM nordM) (elementary tr)).
  { rewrite Hel. apply Forall_forall. intros e He. apply in_map_iff in He. destruct He as (lf & <- & _).
    apply eok_P2M. intros []. }
  destruct (run_counts L nordM nordM tr Hok' w) as (HM & HL & HR). rewrite Hel in HM, HL, HR.
  repeat split.
  - intros l x q. rewrite HM. f_equal. rewrite sumn_map. cbn [cm].
    rewrite (sumn_ext_in _ (fun lf => (fun c => if (l =? L) && (x =? c) then b2n (valid q && (lo q =? c)) else 0%nat) (lf_index lf))).
    2:{ intros lf Hlf. cbv beta. rewrite (cnt_parts lf q Hlf). reflexivity. }
    rewrite (sumn_leaves (fun c => if (l =? L) && (x =? c) then b2n (valid q && (lo q =? c)) else 0%nat)).
    destruct (l =? L); cbn [andb].
    + rewrite <- below_leaf_sum. apply sumn_ext_in. intros c _. rewrite (Z.eqb_sym x c). reflexivity.
    + apply sumn_zero. reflexivity.
  - intros l x q. rewrite HL, sumn_zero; [lia|]. intros e He. apply in_map_iff in He. destruct He as (lf & <- & _). reflexivity.
  - intros p q. rewrite HR, sumn_zero; [lia|]. intros e He. apply in_map_iff in He. destruct He as (lf & <- & _). reflexivity.
Qed.

Definition m2m_level (l : Z) : list call :=
  staircase d (staircase_fuel (levels_of t (l + 1)) (levels_of t l)) (CM2M l) (levels_of t (l + 1)) (levels_of t l).
Definition l2l_level (l : Z) : list call :=
  staircase d (staircase_fuel (levels_of t (l + 1)) (levels_of t l)) (CL2L l) (levels_of t (l + 1)) (levels_of t l).

Lemma pass_M2M_eq s0 : pass_M2M d s0 t = flat_map m2m_level (rev (zrange s0 (H - 2))).
Proof. unfold pass_M2M. rewrite height_H. reflexivity. Qed.

Lemma pass_L2L_eq s0 : pass_L2L d s0 t = flat_map l2l_level (zrange s0 (H - 2)).
Proof. unfold pass_L2L. rewrite height_H. reflexivity. Qed.

Lemma m2m_level_ok l : 0 <= l <= H - 2 ->
  no_assert (m2m_level l) /\ elementary (m2m_level l) = spec_links d EM2M l (cells (l + 1)).
Proof.
  intros Hl. apply staircase_m2m_exact_ordered.
  - apply level_ok_at. lia.
  - apply level_ok_at. lia.
  - apply cells_parents. lia.
Qed.

Lemma l2l_level_ok l : 0 <= l <= H - 2 ->
  no_assert (l2l_level l) /\ elementary (l2l_level l) = spec_links d EL2L l (cells (l + 1)).
Proof.
  intros Hl. apply staircase_l2l_exact_ordered.
  - apply level_ok_at. lia.
  - apply level_ok_at. lia.
  - apply cells_parents. lia.
Qed.

Lemma pass_M2M_na s0 : 0 <= s0 -> no_assert (pass_M2M d s0 t).
Proof.
  intros Hs. rewrite pass_M2M_eq. apply no_assert_fm. intros l Hl. apply in_rev in Hl.
  apply ListsProofs.In_zrange in Hl. apply m2m_level_ok. lia.
Qed.

Lemma pass_L2L_na s0 : 0 <= s0 -> no_assert (pass_L2L d s0 t).
Proof.
  intros Hs. rewrite pass_L2L_eq. apply no_assert_fm. intros l Hl.
  apply ListsProofs.In_zrange in Hl. apply l2l_level_ok. lia.
Qed.

Lemma m2m_level_effect l w : 0 <= l <= H - 2 ->
  (forall l' x q, cnt (s_mult (run L (m2m_level l) w) l' x) q
     = cnt (s_mult w l' x) q
        +n (if l' =? l then sumn (fun c => if parent d c =? x then cnt (s_mult w (l + 1) c) q else 0%nat) (cells (l + 1))
           else 0%nat)) /\
  (forall l' x q, cnt (s_loc (run L (m2m_level l) w) l' x) q = cnt (s_loc w l' x) q) /\
  (forall p q, cnt (s_rhs (run L (m2m_level l) w) p) q = cnt (s_rhs w p) q).
Proof.
  intros Hl. destruct (m2m_level_ok l Hl) as (_ & Hel). unfold spec_links in Hel.
  assert (Hok' : Forall (eok L (fun l' _ => l' = l + 1) nordM) (elementary (m2m_level l))).
  { rewrite Hel. apply Forall_forall. intros e He. apply in_map_iff in He. destruct He as (c & <- & _).
    apply eok_M2M; [reflexivity|lia]. }
  destruct (run_counts L _ _ _ Hok' w) as (HM & HL & HR). rewrite Hel in HM, HL, HR.
  repeat split.
  - intros l' x q. rewrite HM. f_equal. rewrite sumn_map. cbn [cm].
    destruct (l' =? l); cbn [andb].
    + apply sumn_ext_in. intros c _. rewrite (Z.eqb_sym x). reflexivity.
    + apply sumn_zero. reflexivity.
  - intros l' x q. rewrite HL, sumn_zero; [lia|]. intros e He. apply in_map_iff in He. destruct He as (c & <- & _). reflexivity.
  - intros p q. rewrite HR, sumn_zero; [lia|]. intros e He. apply in_map_iff in He. destruct He as (c & <- & _). reflexivity.
Qed.

Definition MultInv (k : Z) (w : st) : Prop :=
  (forall l x q, k <= l <= L -> cnt (s_mult w l x) q = below l x q) /\
  (forall l x q, l < k -> cnt (s_mult w l x) q = 0%nat).

Lemma below_step l x q : 0 <= l <= H - 2 ->
  sumn (fun c => if parent d c =? x then below (l + 1) c q else 0%nat) (cells (l + 1)) = below l x q.
Proof.
  intros Hl. unfold below. destruct (valid q) eqn:Hv; cbn [andb].
  2:{ apply sumn_zero. intros c _. destruct (parent d c =? x); reflexivity. }
  set (a := anc d L (l + 1) (lo q)).
  rewrite (sumn_ext_in _ (fun c => if c =? a then b2n (parent d c =? x) else 0%nat)).
  2:{ intros c _. rewrite (Z.eqb_sym a c). destruct (c =? a); destruct (parent d c =? x); reflexivity. }
  rewrite sumn_pick_in.
  - unfold a. rewrite anc_parent by lia. reflexivity.
  - apply cells_nodup. lia.
  - apply anc_in_cells; [lia|exact Hv].
Qed.

Lemma m2m_level_inv l w : 0 <= l <= H - 2 -> MultInv (l + 1) w -> MultInv l (run L (m2m_level l) w).
Proof.
  intros Hl (Hhi & Hlo). destruct (m2m_level_effect l w Hl) as (HM & _). split.
  - intros l' x q Hl'. rewrite HM. destruct (Z.eqb_spec l' l) as [->|Hne].
    + rewrite Hlo by lia. cbn [Nat.add]. rewrite <- below_step by exact Hl.
      apply sumn_ext_in. intros c _. rewrite Hhi by lia. reflexivity.
    + rewrite Hhi by lia. lia.
  - intros l' x q Hl'. rewrite HM, Hlo by lia. destruct (Z.eqb_spec l' l); [lia|reflexivity].
Qed.

Lemma m2m_pass_inv : forall n k w, k = L - Z.of_nat n -> 0 <= k -> MultInv L w ->
  MultInv k (run L (flat_map m2m_level (rev (zrange k (H - 2)))) w) /\
  (forall l x q, cnt (s_loc (run L (flat_map m2m_level (rev (zrange k (H - 2)))) w) l x) q = cnt (s_loc w l x) q) /\
  (forall p q, cnt (s_rhs (run L (flat_map m2m_level (rev (zrange k (H - 2)))) w) p) q = cnt (s_rhs w p) q).
Proof.
  induction n as [|n IH]; intros k w Ek Hk Hinv.
  - rewrite zrange_nil by lia. cbn [rev flat_map run fold_left]. replace k with L by lia.
    repeat split; try apply Hinv; intros; reflexivity.
  - rewrite zrange_cons by lia. cbn [rev]. rewrite flat_map_app, run_app. cbn [flat_map]. rewrite app_nil_r.
    destruct (IH (k + 1) w ltac:(lia) ltac:(lia) Hinv) as (I1 & I2 & I3).
    set (w1 := run L (flat_map m2m_level (rev (zrange (k + 1) (H - 2)))) w) in *.
    destruct (m2m_level_effect k w1 ltac:(lia)) as (_ & E2 & E3).
    repeat split.
    + apply m2m_level_inv; [lia|exact I1].
    + apply m2m_level_inv; [lia|exact I1].
    + intros l x q. rewrite E2. apply I2.
    + intros p q. rewrite E3. apply I3.
Qed.


(* ------------------------------------------------------------------ *)
(* 9. the transfer pass M2L                                            *)
(* ------------------------------------------------------------------ *)
(* cell a is in the interaction list of cell x at level l *)
Definition farb (l x a : Z) : bool := zmem a (map fst (ilist_spec d false l x)).
Definition farv (l x q : Z) : nat := b2n (valid q && farb l x (anc d L l (lo q))).

Lemma pass_M2L_eq s0 : pass_M2L d false s0 t = flat_map (fun l => m2l_level d false l (levels_of t l)) (zrange s0 L).
Proof. rewrite pass_M2L_unfold, height_H. reflexivity. Qed.

Lemma m2l_level_ok l : 0 <= l < H ->
  no_assert (m2l_level d false l (levels_of t l)) /\
  Permutation (elementary (m2l_level d false l (levels_of t l))) (spec_m2l d false l (cells l)).
Proof.
  intros Hl. apply m2l_level_exact; [apply level_ok_at; exact Hl|].
  intros c Hc. apply Hcap; [lia|]. apply cells_range; assumption.
Qed.

Definition m2l_spec (s0 : Z) : list elem := flat_map (fun l => spec_m2l d false l (cells l)) (zrange s0 L).

Lemma pass_M2L_ok s0 : 0 <= s0 ->
  no_assert (pass_M2L d false s0 t) /\ Permutation (elementary (pass_M2L d false s0 t)) (m2l_spec s0).
Proof.
  intros Hs. rewrite pass_M2L_eq. split.
  - apply no_assert_fm. intros l Hl. apply ListsProofs.In_zrange in Hl. apply m2l_level_ok. lia.
  - rewrite elementary_fm. apply perm_fm_pointwise. intros l Hl. apply ListsProofs.In_zrange in Hl.
    apply m2l_level_ok. lia.
Qed.

Lemma m2l_spec_shape s0 e : In e (m2l_spec s0) -> exists l x b code, e = EM2L l x b code.
Proof.
  unfold m2l_spec, spec_m2l. intros He. apply in_flat_map in He. destruct He as (l & _ & He).
  apply in_flat_map in He. destruct He as (x & _ & He). apply in_flat_map in He. destruct He as (sc & _ & He).
  destruct (zmem (fst sc) (cells l)); [|destruct He]. destruct He as [<-|[]]. eauto.
Qed.

Lemma ilist_sum l x q : 0 <= l < H -> In x (cells l) ->
  sumn (fun sc => if zmem (fst sc) (cells l) then below l (fst sc) q else 0%nat) (ilist_cell d false l x) = farv l x q.
Proof.
  intros Hl Hx. pose proof (cells_range l x Hl Hx) as Hr.
  rewrite (sumn_perm _ _ _ (ilist_exact d false l x Hd ltac:(lia) Hr)).
  unfold farv, below. destruct (valid q) eqn:Hv; cbn [andb].
  2:{ apply sumn_zero. intros sc _. destruct (zmem (fst sc) (cells l)); reflexivity. }
  apply list_pick_sum.
  - apply ilist_spec_nodup; [exact Hd|lia|exact Hr].
  - apply anc_in_cells; assumption.
Qed.

Lemma m2l_level_sum w l' l x q : 0 <= l' < H -> (forall b, cnt (s_mult w l' b) q = below l' b q) ->
  sumn (fun e => cl w e l x q) (spec_m2l d false l' (cells l'))
  = if l' =? l then (if zmem x (cells l') then farv l' x q else 0%nat) else 0%nat.
Proof.
  intros Hl' Hm. unfold spec_m2l. rewrite sumn_flat_map.
  rewrite (sumn_ext_in _ (fun t' => if t' =? x then
            (if l' =? l then sumn (fun sc => if zmem (fst sc) (cells l') then below l' (fst sc) q else 0%nat) (ilist_cell d false l' t') else 0%nat)
            else 0%nat)).
  2:{ intros t' _. rewrite sumn_flat_map.
      destruct (Z.eqb_spec t' x) as [->|Hne]; [destruct (Z.eqb_spec l' l) as [->|Hne]|].
      - apply sumn_ext_in. intros sc _. rewrite sumn_if_list. cbn [cl]. rewrite !Z.eqb_refl, Hm. reflexivity.
      - apply sumn_zero. intros sc _. rewrite sumn_if_list. cbn [cl].
        destruct (Z.eqb_spec l l'); [congruence|]. destruct (zmem (fst sc) (cells l')); reflexivity.
      - apply sumn_zero. intros sc _. rewrite sumn_if_list. cbn [cl].
        destruct (Z.eqb_spec x t'); [congruence|]. rewrite andb_false_r. destruct (zmem (fst sc) (cells l')); reflexivity. }
  rewrite sumn_pick by (apply cells_nodup; exact Hl').
  destruct (zmem x (cells l')) eqn:Ex; [|destruct (l' =? l); reflexivity].
  destruct (l' =? l); [|reflexivity]. apply ilist_sum; [exact Hl'|]. apply zmem_In. exact Ex.
Qed.

Lemma m2l_sum w s0 l x q : 0 <= s0 -> MultInv s0 w ->
  sumn (fun e => cl w e l x q) (m2l_spec s0)
  = if (s0 <=? l) && (l <=? L) && zmem x (cells l) then farv l x q else 0%nat.
Proof.
  intros Hs (Hhi & _). unfold m2l_spec. rewrite sumn_flat_map.
  rewrite (sumn_ext_in _ (fun l' => if l' =? l then (if zmem x (cells l') then farv l' x q else 0%nat) else 0%nat)).
  2:{ intros l' Hl'. apply ListsProofs.In_zrange in Hl'. apply m2l_level_sum; [lia|].
      intros b. apply Hhi. lia. }
  rewrite sumn_pick by apply NoDup_zrange. rewrite zmem_zrange.
  destruct ((s0 <=? l) && (l <=? L)); reflexivity.
Qed.

Lemma m2l_effect s0 w : 0 <= s0 -> MultInv s0 w ->
  (forall l x q, cnt (s_mult (run L (pass_M2L d false s0 t) w) l x) q = cnt (s_mult w l x) q) /\
  (forall l x q, cnt (s_loc (run L (pass_M2L d false s0 t) w) l x) q
     = cnt (s_loc w l x) q +n (if (s0 <=? l) && (l <=? L) && zmem x (cells l) then farv l x q else 0%nat)) /\
  (forall p q, cnt (s_rhs (run L (pass_M2L d false s0 t) w) p) q = cnt (s_rhs w p) q).
Proof.
  intros Hs Hinv. destruct (pass_M2L_ok s0 Hs) as (_ & Hperm).
  assert (Hok' : Forall (eok L allrd nordM) (elementary (pass_M2L d false s0 t))).
  { apply Forall_forall. intros e He. apply (Permutation_in _ Hperm) in He.
    destruct (m2l_spec_shape s0 e He) as (l & x & b & code & ->). apply eok_M2L; [exact I|intros []]. }
  destruct (run_counts L _ _ _ Hok' w) as (HM & HL & HR).
  repeat split.
  - intros l x q. rewrite HM, (sumn_perm _ _ _ Hperm), sumn_zero; [lia|].
    intros e He. destruct (m2l_spec_shape s0 e He) as (l1 & x1 & b & code & ->). reflexivity.
  - intros l x q. rewrite HL, (sumn_perm _ _ _ Hperm), (m2l_sum w s0 l x q Hs Hinv). reflexivity.
  - intros p q. rewrite HR, (sumn_perm _ _ _ Hperm), sumn_zero; [lia|].
    intros e He. destruct (m2l_spec_shape s0 e He) as (l1 & x1 & b & code & ->). reflexivity.
Qed.


(* ------------------------------------------------------------------ *)
(* 10. downward passes: L2L and L2P                                    *)
(* ------------------------------------------------------------------ *)
Lemma l2l_level_effect l w : 0 <= l <= H - 2 ->
  (forall l' x q, cnt (s_mult (run L (l2l_level l) w) l' x) q = cnt (s_mult w l' x) q) /\
  (forall l' x q, cnt (s_loc (run L (l2l_level l) w) l' x) q
     = cnt (s_loc w l' x) q
       +n (if (l' =? l + 1) && zmem x (cells (l + 1)) then cnt (s_loc w l (parent d x)) q else 0%nat)) /\
  (forall p q, cnt (s_rhs (run L (l2l_level l) w) p) q = cnt (s_rhs w p) q).
Proof.
  intros Hl. destruct (l2l_level_ok l Hl) as (_ & Hel). unfold spec_links in Hel.
  assert (Hok' : Forall (eok L nordM (fun l' _ => l' = l)) (elementary (l2l_level l))).
  { rewrite Hel. apply Forall_forall. intros e He. apply in_map_iff in He. destruct He as (c & <- & _).
    apply eok_L2L; [reflexivity|lia]. }
  destruct (run_counts L _ _ _ Hok' w) as (HM & HL & HR). rewrite Hel in HM, HL, HR.
  repeat split.
  - intros l' x q. rewrite HM, sumn_zero; [lia|]. intros e He. apply in_map_iff in He. destruct He as (c & <- & _). reflexivity.
  - intros l' x q. rewrite HL. f_equal. rewrite sumn_map. cbn [cl].
    destruct (l' =? l + 1); cbn [andb].
    + rewrite (sumn_ext_in _ (fun c => if c =? x then cnt (s_loc w l (parent d c)) q else 0%nat)).
      2:{ intros c _. rewrite (Z.eqb_sym x). reflexivity. }
      apply (sumn_pick _ x (fun c => cnt (s_loc w l (parent d c)) q)). apply cells_nodup. lia.
    + apply sumn_zero. reflexivity.
  - intros p q. rewrite HR, sumn_zero; [lia|]. intros e He. apply in_map_iff in He. destruct He as (c & <- & _). reflexivity.
Qed.

(* accumulated far field of cell x of level k: one term per level s0..k *)
Definition Fsum (s0 k x q : Z) : nat :=
  sumn (fun l' => b2n (valid q && farb l' (anc d k l' x) (anc d L l' (lo q)))) (zrange s0 k).

Definition LocInv (s0 k : Z) (w : st) : Prop :=
  (forall x q, In x (cells k) -> cnt (s_loc w k x) q = Fsum s0 k x q) /\
  (forall l x q, k < l <= L -> In x (cells l) -> cnt (s_loc w l x) q = farv l x q).

Lemma anc_self L0 x : anc d L0 L0 x = x.
Proof. unfold anc. rewrite Z.sub_diag, Z.mul_0_l, Z.pow_0_r. apply Z.div_1_r. Qed.

Lemma anc_child k l' x : l' <= k -> anc d (k + 1) l' x = anc d k l' (parent d x).
Proof.
  intros Hle. pose proof (dz_nonneg d) as Hdz. unfold anc. rewrite parent_div.
  rewrite div_pow2_add by nia. f_equal. f_equal. lia.
Qed.

Lemma Fsum_step s0 k x q : s0 <= k + 1 ->
  Fsum s0 (k + 1) x q = Fsum s0 k (parent d x) q +n farv (k + 1) x q.
Proof.
  intros Hs. unfold Fsum. rewrite zrange_snoc by exact Hs. rewrite sumn_app, sumn_cons, sumn_nil.
  rewrite anc_self. unfold farv. rewrite Nat.add_0_r. f_equal.
  apply sumn_ext_in. intros l' Hl'. apply ListsProofs.In_zrange in Hl'. rewrite anc_child by lia. reflexivity.
Qed.

Lemma Fsum_base s0 x q : Fsum s0 s0 x q = farv s0 x q.
Proof.
  unfold Fsum. rewrite zrange_cons by lia. rewrite zrange_nil by lia. rewrite sumn_cons, sumn_nil, anc_self.
  unfold farv. lia.
Qed.

Lemma parent_in_cells k x : 0 <= k <= H - 2 -> In x (cells (k + 1)) -> In (parent d x) (cells k).
Proof. intros Hk Hx. rewrite (cells_parents k) by lia. apply in_parents_of. exists x. split; [exact Hx|reflexivity]. Qed.

Lemma l2l_level_inv s0 k w : 0 <= s0 <= k -> k <= H - 2 -> LocInv s0 k w -> LocInv s0 (k + 1) (run L (l2l_level k) w).
Proof.
  intros Hs Hk (Ha & Hb). destruct (l2l_level_effect k w ltac:(lia)) as (_ & HLc & _). split.
  - intros x q Hx. rewrite HLc, Z.eqb_refl. cbn [andb]. rewrite (proj2 (zmem_In x _) Hx).
    rewrite (Hb (k + 1) x q ltac:(lia) Hx), (Ha (parent d x) q (parent_in_cells k x ltac:(lia) Hx)).
    rewrite Fsum_step by lia. lia.
  - intros l x q Hl Hx. rewrite HLc. destruct (Z.eqb_spec l (k + 1)); [lia|]. cbn [andb].
    rewrite (Hb l x q ltac:(lia) Hx). lia.
Qed.

Lemma l2l_pass_inv s0 : 0 <= s0 -> forall n k w, k = L - Z.of_nat n -> s0 <= k -> LocInv s0 k w ->
  LocInv s0 L (run L (flat_map l2l_level (zrange k (H - 2))) w) /\
  (forall l x q, cnt (s_mult (run L (flat_map l2l_level (zrange k (H - 2))) w) l x) q = cnt (s_mult w l x) q) /\
  (forall p q, cnt (s_rhs (run L (flat_map l2l_level (zrange k (H - 2))) w) p) q = cnt (s_rhs w p) q).
Proof.
  intros Hs. induction n as [|n IH]; intros k w Ek Hk Hinv.
  - rewrite zrange_nil by lia. cbn [flat_map run fold_left]. replace k with L in Hinv by lia.
    repeat split; try apply Hinv; intros; reflexivity.
  - rewrite zrange_cons by lia. cbn [flat_map]. rewrite run_app.
    destruct (l2l_level_effect k w ltac:(lia)) as (E1 & _ & E3).
    pose proof (l2l_level_inv s0 k w ltac:(lia) ltac:(lia) Hinv) as Hinv1.
    set (w1 := run L (l2l_level k) w) in *.
    destruct (IH (k + 1) w1 ltac:(lia) ltac:(lia) Hinv1) as (I1 & I2 & I3).
    repeat split; try apply I1.
    + intros l x q. rewrite I2. apply E1.
    + intros p q. rewrite I3. apply E3.
Qed.

Lemma l2p_effect s0 w :
  (forall l x q, cnt (s_mult (run L (pass_L2P s0 t) w) l x) q = cnt (s_mult w l x) q) /\
  (forall l x q, cnt (s_loc (run L (pass_L2P s0 t) w) l x) q = cnt (s_loc w l x) q) /\
  (forall p q, cnt (s_rhs (run L (pass_L2P s0 t) w) p) q
     = cnt (s_rhs w p) q +n (if (s0 <? H) && valid p then cnt (s_loc w L (lo p)) q else 0%nat)).
Proof.
  rewrite pass_L2P_eq. destruct (s0 <? H); cbn [andb].
  2:{ cbn [run fold_left]. repeat split; intros; lia. }
  set (tr := map (fun lf => CL2P (lf_index lf) (lf_parts lf)) lvs).
  assert (Hel : elementary tr = map (fun lf => EL2P (lf_index lf) (lf_parts lf)) lvs).
  { apply elementary_map_single. reflexivity. }
  assert (Hok' : Forall (eok L nordM allrd) (elementary tr)).
  { rewrite Hel. apply Forall_forall. intros e He. apply in_map_iff in He. destruct He as (lf & <- & _).
    apply eok_L2P. exact I. }
  destruct (run_counts L _ _ tr Hok' w) as (HM & HL & HR). rewrite Hel in HM, HL, HR.
  repeat split.
  - intros l x q. rewrite HM, sumn_zero; [lia|]. intros e He. apply in_map_iff in He. destruct He as (lf & <- & _). reflexivity.
  - intros l x q. rewrite HL, sumn_zero; [lia|]. intros e He. apply in_map_iff in He. destruct He as (lf & <- & _). reflexivity.
  - intros p q. rewrite HR. f_equal. rewrite sumn_map. cbn [cr].
    rewrite (sumn_ext_in _ (fun lf => (fun c => if c =? lo p then (if valid p then cnt (s_loc w L c) q else 0%nat) else 0%nat) (lf_index lf))).
    2:{ intros lf Hlf. cbv beta. rewrite (cnt_parts lf p Hlf). rewrite (Z.eqb_sym (lo p)).
        destruct (valid p); destruct (lf_index lf =? lo p); cbn [andb b2n]; lia. }
    rewrite (sumn_leaves (fun c => if c =? lo p then (if valid p then cnt (s_loc w L c) q else 0%nat) else 0%nat)).
    destruct (valid p) eqn:Hv.
    + apply (sumn_pick_in _ (lo p) (fun c => cnt (s_loc w L c) q)); [apply cells_nodup; lia|apply lo_leaf; exact Hv].
    + apply sumn_zero. intros c _. destruct (c =? lo p); reflexivity.
Qed.


(* ------------------------------------------------------------------ *)
(* 11. the near-field pass P2P                                         *)
(* ------------------------------------------------------------------ *)
Definition pc (c p : Z) : nat := b2n (valid p && (lo p =? c)).
(* leaf b is in the upper-half neighbour list of leaf a *)
Definition upb (a b : Z) : bool := zmem b (map fst (nlist_spec d false L true a)).
Definition innerv (p q : Z) : nat := b2n (valid p && valid q && negb (q =? p) && (lo q =? lo p)).

Lemma cnt_parts_of c p : In c (cells L) -> cnt (parts_of lvs c) p = pc c p.
Proof.
  rewrite leaf_cells. intros Hc. apply in_map_iff in Hc. destruct Hc as (lf & <- & Hlf).
  rewrite (parts_of_leaf lvs lf lvs_nodup Hlf). apply cnt_parts. exact Hlf.
Qed.

Lemma nlist_sum x q : In x (cells L) ->
  sumn (fun sc => if zmem (fst sc) (cells L) then pc (fst sc) q else 0%nat) (nlist_cell d false L true x)
  = b2n (valid q && upb x (lo q)).
Proof.
  intros Hx. pose proof (cells_range L x ltac:(lia) Hx) as Hr.
  rewrite (sumn_perm _ _ _ (nlist_exact d false L true x Hd ltac:(lia) Hr)).
  unfold pc, upb. destruct (valid q) eqn:Hv; cbn [andb].
  2:{ apply sumn_zero. intros sc _. destruct (zmem (fst sc) (cells L)); reflexivity. }
  apply list_pick_sum.
  - apply nlist_spec_nodup; [exact Hd|lia|exact Hr].
  - apply lo_leaf. exact Hv.
Qed.

Lemma p2p_half p q :
  sumn (fun t' => sumn (fun sc => if zmem (fst sc) (cells L) then pc t' p *n pc (fst sc) q else 0%nat)
                       (nlist_cell d false L true t')) (cells L)
  = b2n (valid p && valid q && upb (lo p) (lo q)).
Proof.
  rewrite (sumn_ext_in _ (fun t' => if t' =? lo p then
      (if valid p then sumn (fun sc => if zmem (fst sc) (cells L) then pc (fst sc) q else 0%nat) (nlist_cell d false L true t') else 0%nat)
      else 0%nat)).
  2:{ intros t' _. unfold pc at 1. rewrite (Z.eqb_sym t'). destruct (valid p); cbn [andb b2n].
      - destruct (lo p =? t'); cbn [b2n].
        + apply sumn_ext_in. intros sc _. destruct (zmem (fst sc) (cells L)); lia.
        + apply sumn_zero. intros sc _. destruct (zmem (fst sc) (cells L)); lia.
      - rewrite sumn_zero; [destruct (lo p =? t'); reflexivity|].
        intros sc _. destruct (zmem (fst sc) (cells L)); lia. }
  destruct (valid p) eqn:Hv; cbn [andb].
  - rewrite (sumn_pick_in _ (lo p) (fun t' => sumn (fun sc => if zmem (fst sc) (cells L) then pc (fst sc) q else 0%nat) (nlist_cell d false L true t'))).
    + apply nlist_sum. apply lo_leaf. exact Hv.
    + apply cells_nodup. lia.
    + apply lo_leaf. exact Hv.
  - apply sumn_zero. intros c _. destruct (c =? lo p); reflexivity.
Qed.

Lemma p2p_sum w p q :
  sumn (fun e => cr L w e p q) (spec_p2p d false L lvs)
  = b2n (valid p && valid q && upb (lo p) (lo q)) +n b2n (valid q && valid p && upb (lo q) (lo p)).
Proof.
  unfold spec_p2p. cbv zeta. rewrite <- leaf_cells. rewrite sumn_flat_map.
  rewrite <- (p2p_half p q), <- (p2p_half q p), <- sumn_add.
  apply sumn_ext_in. intros t' Ht'. rewrite sumn_flat_map, <- sumn_add.
  apply sumn_ext_in. intros sc _. rewrite sumn_if_list.
  destruct (zmem (fst sc) (cells L)) eqn:Eb; [|reflexivity]. apply zmem_In in Eb.
  cbn [cr]. rewrite !cnt_parts_of by assumption. lia.
Qed.

Lemma inner_sum w p q : sumn (fun e => cr L w e p q) (spec_p2p_inner lvs) = innerv p q.
Proof.
  unfold spec_p2p_inner. rewrite sumn_map. cbn [cr].
  rewrite (sumn_ext_in _ (fun lf => (fun c => if c =? lo p then
             (if valid p then (if q =? p then 0%nat else pc c q) else 0%nat) else 0%nat) (lf_index lf))).
  2:{ intros lf Hlf. cbv beta. rewrite (cnt_parts lf p Hlf), cnt_rm, (cnt_parts lf q Hlf).
      rewrite (Z.eqb_sym (lo p)). unfold pc.
      destruct (valid p); destruct (lf_index lf =? lo p); destruct (q =? p); cbn [andb b2n]; lia. }
  rewrite (sumn_leaves (fun c => if c =? lo p then (if valid p then (if q =? p then 0%nat else pc c q) else 0%nat) else 0%nat)).
  unfold innerv. destruct (valid p) eqn:Hv; cbn [andb].
  - rewrite (sumn_pick_in _ (lo p) (fun c => if q =? p then 0%nat else pc c q)).
    + unfold pc. destruct (q =? p); destruct (valid q); cbn [andb negb b2n]; reflexivity.
    + apply cells_nodup. lia.
    + apply lo_leaf. exact Hv.
  - apply sumn_zero. intros c _. destruct (c =? lo p); reflexivity.
Qed.

Lemma pass_P2P_ok :
  no_assert (pass_P2P d false t) /\
  Permutation (elementary (pass_P2P d false t)) (spec_p2p d false L lvs ++ spec_p2p_inner lvs).
Proof.
  rewrite pass_P2P_unfold, height_H. apply p2p_groups_exact; [exact pgs_ok|exact pgs_sorted].
Qed.

Lemma p2p_spec_shape e : In e (spec_p2p d false L lvs ++ spec_p2p_inner lvs) ->
  (exists a b c sp tp, e = EP2P a b c sp tp) \/ (exists a ps, e = EP2PInner a ps).
Proof.
  intros He. apply in_app_or in He. destruct He as [He|He].
  - left. unfold spec_p2p in He. apply in_flat_map in He. destruct He as (x & _ & He).
    apply in_flat_map in He. destruct He as (sc & _ & He).
    destruct (zmem (fst sc) (map lf_index lvs)); [|destruct He]. destruct He as [<-|[]]. eauto 6.
  - right. unfold spec_p2p_inner in He. apply in_map_iff in He. destruct He as (lf & <- & _). eauto.
Qed.

Lemma p2p_effect w :
  (forall l x q, cnt (s_mult (run L (pass_P2P d false t) w) l x) q = cnt (s_mult w l x) q) /\
  (forall l x q, cnt (s_loc (run L (pass_P2P d false t) w) l x) q = cnt (s_loc w l x) q) /\
  (forall p q, cnt (s_rhs (run L (pass_P2P d false t) w) p) q
     = cnt (s_rhs w p) q +n (b2n (valid p && valid q && upb (lo p) (lo q))
                             +n b2n (valid q && valid p && upb (lo q) (lo p)) +n innerv p q)).
Proof.
  destruct pass_P2P_ok as (_ & Hperm).
  assert (Hok' : Forall (eok L nordM nordM) (elementary (pass_P2P d false t))).
  { apply Forall_forall. intros e He. apply (Permutation_in _ Hperm) in He.
    destruct (p2p_spec_shape e He) as [(a & b & c & sp & tp & ->)|(a & ps & ->)];
      [apply eok_P2P|apply eok_P2PInner]. }
  destruct (run_counts L _ _ _ Hok' w) as (HM & HL & HR).
  repeat split.
  - intros l x q. rewrite HM, (sumn_perm _ _ _ Hperm), sumn_zero; [lia|].
    intros e He. destruct (p2p_spec_shape e He) as [(a & b & c & sp & tp & ->)|(a & ps & ->)]; reflexivity.
  - intros l x q. rewrite HL, (sumn_perm _ _ _ Hperm), sumn_zero; [lia|].
    intros e He. destruct (p2p_spec_shape e He) as [(a & b & c & sp & tp & ->)|(a & ps & ->)]; reflexivity.
  - intros p q. rewrite HR, (sumn_perm _ _ _ Hperm), sumn_app, p2p_sum, inner_sum. reflexivity.
Qed.


(* ------------------------------------------------------------------ *)
(* 12. geometry: near field + far field = exactly once                 *)
(* ------------------------------------------------------------------ *)
Lemma farb_far_at l a b : farb l (anc d L l a) (anc d L l b) = true <-> far_at d L l a b.
Proof. unfold farb, far_at. rewrite zmem_In. apply in_map_fst. Qed.

Lemma upb_iff a b : upb a b = true <-> exists code, In (b, code) (nlist_spec d false L true a).
Proof. unfold upb. rewrite zmem_In. apply in_map_fst. Qed.

Lemma upb_adjacent a b : 0 <= b < 2 ^ (L * dz d) -> upb a b = true -> adjacent d L a b.
Proof.
  intros Hb Hu. apply upb_iff in Hu. destruct Hu as (code & Hin).
  apply (nlist_mem d Hd L true a b code ltac:(lia) Hb) in Hin. destruct Hin as (H1 & H2 & _ & H4).
  exists code. apply (nlist_mem d Hd L false a b code ltac:(lia) Hb). repeat split; assumption.
Qed.

Lemma not_self_adjacent a : 0 <= a < 2 ^ (L * dz d) -> ~ adjacent d L a a.
Proof. intros Ha Hadj. apply (adjacent_coords d L a a Hd ltac:(lia) Ha Ha) in Hadj. destruct Hadj as [Hne _]. congruence. Qed.

Lemma once_geometry s0 a b p q : 0 <= s0 <= 2 ->
  0 <= a < 2 ^ (L * dz d) -> 0 <= b < 2 ^ (L * dz d) -> (p = q -> a = b) ->
  sumn (fun l' => b2n (farb l' (anc d L l' a) (anc d L l' b))) (zrange s0 L)
  +n (b2n (upb a b) +n b2n (upb b a) +n b2n (negb (q =? p) && (b =? a)))
  = if p =? q then 0%nat else 1%nat.
Proof.
  intros Hs Ha Hb Hpq.
  destruct (near_xor_far_once d L s0 a b Hd ltac:(lia) Hs Ha Hb) as [(Hnear & Hnofar)|(Hnn & l & Hl & Hfar & Huniq)].
  - rewrite sumn_zero.
    2:{ intros l' Hl'. apply ListsProofs.In_zrange in Hl'. apply b2n_false.
        destruct (farb l' (anc d L l' a) (anc d L l' b)) eqn:E; [|reflexivity].
        exfalso. apply (Hnofar l' Hl'). apply farb_far_at. exact E. }
    destruct (Z.eq_dec a b) as [Eab|Nab].
    + subst b. rewrite Z.eqb_refl, andb_true_r.
      assert (Hu : upb a a = false).
      { destruct (upb a a) eqn:E; [|reflexivity]. exfalso. apply (not_self_adjacent a Ha). apply upb_adjacent; assumption. }
      rewrite Hu, (Z.eqb_sym q p). destruct (p =? q); reflexivity.
    + destruct Hnear as [Eab|Hadj]; [contradiction|].
      assert (Hpq' : (p =? q) = false) by (apply Z.eqb_neq; intros E; apply Nab; apply Hpq; exact E).
      rewrite Hpq'. rewrite (proj2 (Z.eqb_neq b a)) by congruence. rewrite andb_false_r.
      pose proof (upper_one_side d L a b Hd ltac:(lia) Ha Hb Nab Hadj) as Hone.
      rewrite <- !upb_iff in Hone. destruct (upb a b); destruct (upb b a); cbn [b2n]; try lia.
  - assert (Nab : a <> b) by tauto.
    assert (Hpq' : (p =? q) = false) by (apply Z.eqb_neq; intros E; apply Nab; apply Hpq; exact E).
    rewrite Hpq'. rewrite (proj2 (Z.eqb_neq b a)) by congruence. rewrite andb_false_r.
    assert (Hu1 : upb a b = false).
    { destruct (upb a b) eqn:E; [|reflexivity]. exfalso. apply Hnn. right. apply upb_adjacent; assumption. }
    assert (Hu2 : upb b a = false).
    { destruct (upb b a) eqn:E; [|reflexivity]. exfalso. apply Hnn. right.
      apply (adjacent_sym d L b a Hd ltac:(lia) Hb Ha). apply upb_adjacent; assumption. }
    rewrite Hu1, Hu2.
    rewrite (sumn_single _ (zrange s0 L) l).
    + rewrite (proj2 (farb_far_at l a b) Hfar). reflexivity.
    + apply NoDup_zrange.
    + apply ListsProofs.In_zrange. exact Hl.
    + intros l' Hl' Hne. apply ListsProofs.In_zrange in Hl'. apply b2n_false.
      destruct (farb l' (anc d L l' a) (anc d L l' b)) eqn:E; [|reflexivity].
      exfalso. apply Hne. apply (Huniq l' Hl'). apply farb_far_at. exact E.
Qed.


(* ------------------------------------------------------------------ *)
(* 13. the complete execution                                          *)
(* ------------------------------------------------------------------ *)
Lemma MultInv_ext k w w' : (forall l x q, cnt (s_mult w' l x) q = cnt (s_mult w l x) q) -> MultInv k w -> MultInv k w'.
Proof. intros E (Ha & Hb). split; intros l x q Hl; rewrite E; [apply Ha|apply Hb]; exact Hl. Qed.

Definition far_tr (s0 : Z) : list call :=
  pass_P2M s0 t ++ pass_M2M d s0 t ++ pass_M2L d false s0 t ++ pass_L2L d s0 t ++ pass_L2P s0 t.

Lemma execute_63 s : execute d false s 63 t = far_tr (Z.max 0 s) ++ pass_P2P d false t.
Proof. unfold far_tr. rewrite <- !app_assoc. reflexivity. Qed.

Lemma far_stage_A s0 : 0 <= s0 < H ->
  MultInv s0 (run L (far_tr s0) st0) /\
  (forall p q, cnt (s_rhs (run L (far_tr s0) st0) p) q = if valid p then Fsum s0 L (lo p) q else 0%nat).
Proof.
  intros Hs. unfold far_tr. rewrite !run_app.
  assert (Hlt : (s0 <? H) = true) by lia.
  destruct (p2m_effect s0 st0) as (M1 & L1 & R1). rewrite Hlt in M1. cbn [andb] in M1.
  set (w1 := run L (pass_P2M s0 t) st0) in *.
  assert (I1 : MultInv L w1).
  { split; intros l x q Hl; rewrite M1; cbn [st0 s_mult]; rewrite cnt_nil.
    - replace l with L by lia. rewrite Z.eqb_refl. reflexivity.
    - destruct (Z.eqb_spec l L); [lia|reflexivity]. }
  rewrite pass_M2M_eq.
  destruct (m2m_pass_inv (Z.to_nat (L - s0)) s0 w1 ltac:(lia) ltac:(lia) I1) as (I2 & L2 & R2).
  set (w2 := run L (flat_map m2m_level (rev (zrange s0 (H - 2)))) w1) in *.
  destruct (m2l_effect s0 w2 ltac:(lia) I2) as (M3 & L3 & R3).
  set (w3 := run L (pass_M2L d false s0 t) w2) in *.
  assert (Z3 : forall l x q, cnt (s_loc w2 l x) q = 0%nat).
  { intros l x q. rewrite L2, L1. reflexivity. }
  assert (I3 : LocInv s0 s0 w3).
  { split.
    - intros x q Hx. rewrite L3, Z3, Fsum_base. rewrite (proj2 (zmem_In x _) Hx).
      replace ((s0 <=? s0) && (s0 <=? L)) with true by lia. reflexivity.
    - intros l x q Hl Hx. rewrite L3, Z3. rewrite (proj2 (zmem_In x _) Hx).
      replace ((s0 <=? l) && (l <=? L)) with true by lia. reflexivity. }
  rewrite pass_L2L_eq.
  destruct (l2l_pass_inv s0 ltac:(lia) (Z.to_nat (L - s0)) s0 w3 ltac:(lia) ltac:(lia) I3) as (I4 & M4 & R4).
  set (w4 := run L (flat_map l2l_level (zrange s0 (H - 2))) w3) in *.
  destruct (l2p_effect s0 w4) as (M5 & L5 & R5).
  split.
  - apply (MultInv_ext s0 w2); [|exact I2]. intros l x q. rewrite M5, M4, M3. reflexivity.
  - intros p q. rewrite R5, R4, R3, R2, R1, Hlt. cbn [andb st0 s_rhs]. rewrite cnt_nil.
    destruct (valid p) eqn:Hv; [|reflexivity]. cbn [Nat.add].
    apply (proj1 I4). apply lo_leaf. exact Hv.
Qed.

Lemma far_stage_B s0 : H <= s0 -> far_tr s0 = [].
Proof.
  intros Hs. unfold far_tr. rewrite pass_P2M_eq, pass_M2M_eq, pass_M2L_eq, pass_L2L_eq, pass_L2P_eq.
  replace (s0 <? H) with false by lia. rewrite !zrange_nil by lia. reflexivity.
Qed.

Definition nearv (p q : Z) : nat :=
  b2n (valid p && valid q && upb (lo p) (lo q)) +n b2n (valid q && valid p && upb (lo q) (lo p)) +n innerv p q.

Lemma final_state s0 : 0 <= s0 ->
  (s0 < H -> MultInv s0 (run L (far_tr s0 ++ pass_P2P d false t) st0)) /\
  (forall p q, cnt (s_rhs (run L (far_tr s0 ++ pass_P2P d false t) st0) p) q
     = (if valid p then Fsum s0 L (lo p) q else 0%nat) +n nearv p q).
Proof.
  intros Hs. rewrite run_app.
  destruct (p2p_effect (run L (far_tr s0) st0)) as (M6 & _ & R6).
  destruct (Z_lt_le_dec s0 H) as [Hlt|Hge].
  - destruct (far_stage_A s0 ltac:(lia)) as (I5 & R5). split.
    + intros _. apply (MultInv_ext s0 _ _ M6 I5).
    + intros p q. rewrite R6, R5. reflexivity.
  - split; [lia|]. intros p q. rewrite R6. rewrite far_stage_B by exact Hge.
    cbn [run fold_left st0 s_rhs]. rewrite cnt_nil. unfold Fsum. rewrite zrange_nil by lia.
    cbn [sumn fold_right]. unfold nearv. destruct (valid p); reflexivity.
Qed.

Lemma below_existsb l c q :
  existsb (fun lf => (anc d L l (lf_index lf) =? c) && zmem q (lf_parts lf)) lvs
  = valid q && (anc d L l (lo q) =? c).
Proof.
  apply eq_true_iff_eq. rewrite existsb_exists, andb_true_iff, Z.eqb_eq. split.
  - intros (lf & Hlf & Hb). apply andb_true_iff in Hb. destruct Hb as [Ha Hq].
    apply Z.eqb_eq in Ha. apply zmem_In in Hq. destruct (part_valid lf q Hlf Hq) as (Hv & Hlo).
    split; [exact Hv|]. rewrite Hlo. exact Ha.
  - intros (Hv & Ha). destruct (valid_part q Hv) as (lf & Hlf & Hq). exists lf. split; [exact Hlf|].
    destruct (part_valid lf q Hlf Hq) as (_ & Hlo). rewrite <- Hlo, Ha, Z.eqb_refl.
    apply zmem_In in Hq. rewrite Hq. reflexivity.
Qed.

Theorem tree_no_assert s flags : no_assert (execute d false s flags t).
Proof.
  unfold execute. cbv zeta. assert (Hs : 0 <= Z.max 0 s) by lia.
  repeat apply no_assert_app.
  - destruct (has flags F_P2M); [apply pass_P2M_na|apply no_assert_nil].
  - destruct (has flags F_M2M); [apply pass_M2M_na; exact Hs|apply no_assert_nil].
  - destruct (has flags F_M2L); [apply pass_M2L_ok; exact Hs|apply no_assert_nil].
  - destruct (has flags F_L2L); [apply pass_L2L_na; exact Hs|apply no_assert_nil].
  - destruct (has flags F_L2P); [apply pass_L2P_na|apply no_assert_nil].
  - destruct (has flags F_P2P); [apply pass_P2P_ok|apply no_assert_nil].
Qed.

Theorem tree_multipoles s l c q : Z.max 0 s <= l < H ->
  count_occ Z.eq_dec (s_mult (run L (execute d false s 63 t) st0) l c) q
  = if existsb (fun lf => (anc d L l (lf_index lf) =? c) && zmem q (lf_parts lf)) lvs then 1%nat else 0%nat.
Proof.
  intros Hl. rewrite execute_63, below_existsb.
  destruct (final_state (Z.max 0 s) ltac:(lia)) as (HI & _).
  destruct (HI ltac:(lia)) as (Ha & _). apply (Ha l c q). lia.
Qed.

Theorem tree_exactly_once s p q : s <= 2 -> 0 <= p < zlen idx -> 0 <= q < zlen idx ->
  reached (run L (execute d false s 63 t) st0) p q = if p =? q then 0%nat else 1%nat.
Proof.
  intros Hs Hp Hq. unfold reached. rewrite execute_63.
  destruct (final_state (Z.max 0 s) ltac:(lia)) as (_ & HR).
  change (count_occ Z.eq_dec ?v q) with (cnt v q). rewrite HR.
  assert (Hvp : valid p = true) by (apply valid_iff; exact Hp).
  assert (Hvq : valid q = true) by (apply valid_iff; exact Hq).
  unfold nearv, innerv, Fsum. rewrite Hvp, Hvq. cbn [andb].
  apply once_geometry.
  - lia.
  - apply lo_range. exact Hvp.
  - apply lo_range. exact Hvq.
  - intros ->. reflexivity.
Qed.

End Tree.

(* ------------------------------------------------------------------ *)
(* 14. the top-level theorems                                          *)
(* ------------------------------------------------------------------ *)
(* no internal assertion fires during a full execution of any well-formed tree *)
Theorem execute_no_assert : forall H B mode s flags t idx,
  1 <= H -> tree_ok (parent d) H B mode t -> particles_ok idx t ->
  Forall (fun i => 0 <= i < 2 ^ ((H - 1) * dz d)) idx -> idx <> [] ->
  no_assert (execute d false s flags t).
Proof.
  intros H B mode s flags t idx HH Hok Hpart Hrange _.
  apply (tree_no_assert H B mode t idx HH Hok Hpart Hrange).
Qed.

(* the cell equations: after a full run every multipole at a level >= max 0 s holds exactly the particles below the cell *)
Theorem fmm_multipoles : forall H B mode s t idx l c,
  1 <= H -> tree_ok (parent d) H B mode t -> particles_ok idx t ->
  Forall (fun i => 0 <= i < 2 ^ ((H - 1) * dz d)) idx -> idx <> [] ->
  let st := run (H - 1) (execute d false s 63 t) st0 in
  Z.max 0 s <= l < H -> In c (level_cells (levels_of t l)) ->
  forall q, count_occ Z.eq_dec (s_mult st l c) q
            = (if existsb (fun lf => (anc d (H - 1) l (lf_index lf) =? c) && zmem q (lf_parts lf)) (all_leaves t)
               then 1%nat else 0%nat).
Proof.
  intros H B mode s t idx l c HH Hok Hpart Hrange _ st Hl _ q.
  apply (tree_multipoles H B mode t idx HH Hok Hpart Hrange s l c q Hl).
Qed.

(* MAIN: exactly once *)
Theorem fmm_exactly_once : forall H B mode s t idx,
  1 <= H -> tree_ok (parent d) H B mode t -> particles_ok idx t ->
  Forall (fun i => 0 <= i < 2 ^ ((H - 1) * dz d)) idx -> idx <> [] -> s <= 2 ->
  let st := run (H - 1) (execute d false s 63 t) st0 in
  forall p q, 0 <= p < zlen idx -> 0 <= q < zlen idx ->
    reached st p q = (if p =? q then 0%nat else 1%nat).
Proof.
  intros H B mode s t idx HH Hok Hpart Hrange _ Hs st p q Hp Hq.
  apply (tree_exactly_once H B mode t idx HH Hok Hpart Hrange s p q Hs Hp Hq).
Qed.

End Compose.

(* corollary for the tree built by the model of the constructor *)
Theorem fmm_exactly_once_build : forall d H B mode s idx, (0 < d)%nat ->
  (forall l t, 0 <= l -> 0 <= t < 2 ^ (l * dz d) -> zlen (ilist_cell d false l t) <= nb_interactions d) ->
  1 <= H -> 1 <= B -> idx <> [] -> Forall (fun i => 0 <= i < 2 ^ ((H - 1) * dz d)) idx -> s <= 2 ->
  let t := build (parent d) H B mode idx in
  no_assert (execute d false s 63 t) /\
  forall p q, 0 <= p < zlen idx -> 0 <= q < zlen idx ->
    reached (run (H - 1) (execute d false s 63 t) st0) p q = (if p =? q then 0%nat else 1%nat).
Proof.
  intros d H B mode s idx Hd Hcap HH HB Hne Hrange Hs t.
  assert (Hnn : Forall (fun c => 0 <= c) idx).
  { eapply Forall_impl; [|exact Hrange]. cbv beta. intros a Ha. lia. }
  assert (Hok : tree_ok (parent d) H B mode t).
  { apply build_ok; try assumption.
    - apply par_mono.
    - intros a Ha. rewrite parent_div. apply Z.div_pos; [exact Ha|apply pow_dz_pos]. }
  assert (Hpart : particles_ok idx t) by (apply build_particles; assumption).
  split.
  - apply (execute_no_assert d Hd Hcap H B mode s 63 t idx); assumption.
  - apply (fmm_exactly_once d Hd Hcap H B mode s t idx); assumption.
Qed.

Print Assumptions execute_no_assert.
Print Assumptions fmm_multipoles.
Print Assumptions fmm_exactly_once.
Print Assumptions fmm_exactly_once_build.
