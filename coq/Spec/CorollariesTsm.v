(* Property C08 for the TARGET/SOURCE executor (two trees, TbfAlgorithmTsm):
   a full run refines a specification written on the two leaf tables only (no reference to the groupings), hence two
   pairs of trees over the same leaves with arbitrary, independent block sizes and grouping modes perform the same
   elementary interactions and report the same interaction counters. *)
From Tbfmm Require Import Base.Prelude Base.Search Index.MortonDefs Tree.GroupDefs Index.ListsDefs Index.ListsSpec
  Tree.BuildDefs Tree.Invariant Tree.LookupProofs Tree.BuildProofs Index.MortonProofs Index.MortonBits Index.ListsProofs
  Index.ListsCapacity Exec.ExecDefs Exec.ExecTsmDefs Exec.CounterDefs Spec.Elem Spec.Kernel Spec.Geometry Exec.RefineM2M
  Exec.RefineM2L Exec.RefineTsm Spec.ExactlyOnce Spec.ExactlyOnceTsm Spec.Corollaries Exec.CounterProofs.
From Coq Require Import Sorting.Sorted Sorting.Permutation ZifyBool Zify.
Local Open Scope Z_scope.
Ltac Zify.zify_post_hook ::= Z.div_mod_to_equations.

(* ------------------------------------------------------------------ *)
(* 0. the specification                                                *)
(* ------------------------------------------------------------------ *)
(* the particles of the row of index i of a leaf table (empty when there is no such row) *)
Definition tab_parts (lt : list (Z * list Z)) (i : Z) : list Z :=
  match find (fun ip => fst ip =? i) lt with Some ip => snd ip | None => [] end.

(* transfers of one level: for every TARGET cell t, every member of its interaction list that is a SOURCE cell *)
Definition spec_m2l_tab (d : nat) (per : bool) (l : Z) (scells tcells : list Z) : list elem :=
  flat_map (fun t => flat_map (fun sc => if zmem (fst sc) scells then [EM2L l t (fst sc) (snd sc)] else [])
                              (ilist_spec d per l t)) tcells.

(* one-sided near field: for every target leaf, the source leaves among its FULL neighbour list, then the source leaf
   of the same index (code of the null offset) *)
Definition spec_p2p_tab (d : nat) (per : bool) (L : Z) (lts ltt : list (Z * list Z)) : list elem :=
  flat_map (fun tp => flat_map (fun sc => if zmem (fst sc) (map fst lts)
                                          then [EP2PTsm (fst sc) (fst tp) (snd sc) (tab_parts lts (fst sc)) (snd tp)] else [])
                               (nlist_spec d per L false (fst tp) ++ [(fst tp, enc3 (repeat 0 d))])) ltt.

(* the full target/source run, in terms of d, per, s' = max 0 s, H and the two leaf tables only *)
Definition spec_all_tsm (d : nat) (per : bool) (s H : Z) (lts ltt : list (Z * list Z)) : list elem :=
  let s' := Z.max 0 s in
  let cls := fun l => cells_from d (Z.to_nat (H - 1 - l)) (map fst lts) in
  let clt := fun l => cells_from d (Z.to_nat (H - 1 - l)) (map fst ltt) in
  (if s' <? H then map (fun ip => EP2M (fst ip) (snd ip)) lts else [])
  ++ flat_map (fun l => spec_links d EM2M l (cls (l + 1))) (rev (zrange s' (H - 2)))
  ++ flat_map (fun l => spec_m2l_tab d per l (cls l) (clt l)) (zrange s' (H - 1))
  ++ flat_map (fun l => spec_links d EL2L l (clt (l + 1))) (zrange s' (H - 2))
  ++ (if s' <? H then map (fun ip => EL2P (fst ip) (snd ip)) ltt else [])
  ++ spec_p2p_tab d per (H - 1) lts ltt.

(* ------------------------------------------------------------------ *)
(* 1. validation of the specification on built trees (vm_compute)      *)
(* ------------------------------------------------------------------ *)
Module Validation.
Fixpoint lzeqb (a b : list Z) : bool :=
  match a, b with [], [] => true | x :: a, y :: b => (x =? y) && lzeqb a b | _, _ => false end.

Definition enc_elem (e : elem) : list Z * list Z * list Z :=
  match e with
  | EP2M l p => ([0; l], p, [])
  | EM2M l p c k => ([1; l; p; c; k], [], [])
  | EM2L l t s k => ([2; l; t; s; k], [], [])
  | EL2L l p c k => ([3; l; p; c; k], [], [])
  | EL2P l p => ([4; l], p, [])
  | EP2P s t k sp tp => ([5; s; t; k], sp, tp)
  | EP2PTsm s t k sp tp => ([6; s; t; k], sp, tp)
  | EP2PInner l p => ([7; l], p, [])
  | EAssert i => ([8; i], [], [])
  end.

Definition elem_eqb (a b : elem) : bool :=
  let '(a1, a2, a3) := enc_elem a in let '(b1, b2, b3) := enc_elem b in lzeqb a1 b1 && lzeqb a2 b2 && lzeqb a3 b3.

Definition cnte (e : elem) (l : list elem) : nat := length (filter (elem_eqb e) l).

(* equality of multisets *)
Definition mseqb (a b : list elem) : bool :=
  Nat.eqb (length a) (length b) && forallb (fun e => Nat.eqb (cnte e a) (cnte e b)) a.

Definition check (d : nat) (per : bool) (s H Bs Bt : Z) (ms mt : bool) (idxs idxt : list Z) : bool :=
  let src := build (parent d) H Bs ms idxs in
  let tgt := build (parent d) H Bt mt idxt in
  mseqb (elementary (execute_tsm d per s 63 src tgt)) (spec_all_tsm d per s H (leaf_table src) (leaf_table tgt)).

Example v1 : check 1 false 2 5 2 3 false true [0;1;3;3;7;8;12;15] [2;3;4;9;15;15;0] = true.
Proof. vm_compute. reflexivity. Qed.
Example v2 : check 1 true 0 5 1 4 true false [0;1;3;3;7;8;12;15] [2;3;4;9;15;15;0] = true.
Proof. vm_compute. reflexivity. Qed.
Example v3 : check 2 false 2 4 2 5 false true [0;5;5;17;33;40;63;21;22] [1;5;18;19;62;63;30;45] = true.
Proof. vm_compute. reflexivity. Qed.
Example v4 : check 2 true 1 4 3 1 true false [0;5;5;17;33;40;63;21;22] [1;5;18;19;62;63;30;45] = true.
Proof. vm_compute. reflexivity. Qed.
Example v5 : check 3 false 2 4 1 7 false true [5;5;63;0;9;12;9;300;301;511] [5;64;63;1;8;200;301;510;448] = true.
Proof. vm_compute. reflexivity. Qed.
Example v6 : check 3 true 1 3 4 2 true true [5;5;63;0;9;12;9;30;31;51] [5;62;63;1;8;20;31;51;44] = true.
Proof. vm_compute. reflexivity. Qed.
(* negative control: exchanging the two tables is detected *)
Example v7 :
  let src := build (parent 2) 4 2 false [0;5;5;17;33] in
  let tgt := build (parent 2) 4 3 true [1;5;18;19] in
  mseqb (elementary (execute_tsm 2 false 2 63 src tgt)) (spec_all_tsm 2 false 2 4 (leaf_table tgt) (leaf_table src)) = false.
Proof. vm_compute. reflexivity. Qed.
End Validation.

(* ------------------------------------------------------------------ *)
(* 2. reading a leaf table                                             *)
(* ------------------------------------------------------------------ *)
Lemma tab_parts_tab i : forall lvs, tab_parts (map tab lvs) i = parts_of lvs i.
Proof.
  unfold tab_parts, parts_of. induction lvs as [|lf lvs IH]; [reflexivity|].
  cbn [map find]. change (fst (tab lf)) with (lf_index lf).
  destruct (lf_index lf =? i); [reflexivity|exact IH].
Qed.

Lemma execute_tsm_63_gen d per s src tgt : execute_tsm d per s 63 src tgt
  = pass_P2M (Z.max 0 s) src ++ pass_M2M d (Z.max 0 s) src ++ tsm_pass_M2L d per (Z.max 0 s) src tgt
    ++ pass_L2L d (Z.max 0 s) tgt ++ pass_L2P (Z.max 0 s) tgt ++ tsm_pass_P2P d per src tgt.
Proof. reflexivity. Qed.

(* ------------------------------------------------------------------ *)
(* 3. the two trees                                                    *)
(* ------------------------------------------------------------------ *)
Section TwoTrees.
Variable d : nat.
Hypothesis Hd : (0 < d)%nat.
Variables (per : bool) (H Bs Bt : Z) (ms mt : bool) (src tgt : tree) (idxs idxt : list Z).
Hypothesis HH : 1 <= H.
Hypothesis Hsok : tree_ok (parent d) H Bs ms src.
Hypothesis Htok : tree_ok (parent d) H Bt mt tgt.
Hypothesis Hspart : particles_ok idxs src.
Hypothesis Htpart : particles_ok idxt tgt.
Hypothesis Hsrange : Forall (fun i => 0 <= i < 2 ^ ((H - 1) * dz d)) idxs.
Hypothesis Htrange : Forall (fun i => 0 <= i < 2 ^ ((H - 1) * dz d)) idxt.

Notation L := (H - 1).
Notation scells l := (level_cells (levels_of src l)).
Notation tcells l := (level_cells (levels_of tgt l)).
Notation slvs := (all_leaves src).
Notation tlvs := (all_leaves tgt).

Lemma s_table l : 0 <= l <= L -> cells_from d (Z.to_nat (L - l)) (map fst (leaf_table src)) = scells l.
Proof. exact (cells_from_table d Hd H Bs ms src HH Hsok l). Qed.

Lemma t_table l : 0 <= l <= L -> cells_from d (Z.to_nat (L - l)) (map fst (leaf_table tgt)) = tcells l.
Proof. exact (cells_from_table d Hd H Bt mt tgt HH Htok l). Qed.

Lemma t_range l c : 0 <= l < H -> In c (tcells l) -> 0 <= c < 2 ^ (l * dz d).
Proof. exact (t_cells_range d Hd H Bt mt tgt idxt Htok Htpart Htrange l c). Qed.

(* transfers of one level: executable lists -> specification lists *)
Lemma m2l_level_tab l : 0 <= l < H ->
  Permutation (spec_m2l_tsm d per l (scells l) (tcells l)) (spec_m2l_tab d per l (scells l) (tcells l)).
Proof.
  intros Hl. unfold spec_m2l_tsm, spec_m2l_tab. apply perm_fm_pointwise. intros t Ht.
  apply Permutation_flat_map. apply ilist_exact; [exact Hd|lia|]. apply t_range; assumption.
Qed.

Lemma el_tsm_M2L s0 : 0 <= s0 ->
  Permutation (elementary (tsm_pass_M2L d per s0 src tgt))
    (flat_map (fun l => spec_m2l_tab d per l (cells_from d (Z.to_nat (L - l)) (map fst (leaf_table src)))
                                            (cells_from d (Z.to_nat (L - l)) (map fst (leaf_table tgt))))
              (zrange s0 L)).
Proof.
  intros Hs.
  apply (Permutation_trans
           (proj2 (tsm_pass_M2L_ok d Hd H Bs Bt ms mt src tgt idxt Hsok Htok Htpart Htrange per s0 Hs))).
  unfold tsm_m2l_spec. apply perm_fm_pointwise. intros l Hl. apply ListsProofs.In_zrange in Hl.
  rewrite s_table, t_table by lia. apply m2l_level_tab. lia.
Qed.

(* near field: executable lists and leaf records -> specification lists and table rows *)
Lemma p2p_tab : Permutation (spec_p2p_tsm d per L slvs tlvs) (spec_p2p_tab d per L (leaf_table src) (leaf_table tgt)).
Proof.
  unfold spec_p2p_tsm, spec_p2p_tab. cbv zeta.
  rewrite !leaf_table_tab, fst_tab, !fm_map.
  apply perm_fm_pointwise. intros lf Hlf.
  change (fst (tab lf)) with (lf_index lf). change (snd (tab lf)) with (lf_parts lf).
  rewrite (parts_of_leaf tlvs lf (c_lvs_nodup d Hd H Bt mt tgt HH Htok) Hlf).
  assert (Hr : 0 <= lf_index lf < 2 ^ (L * dz d)).
  { apply (t_range L); [lia|]. rewrite (t_leaf_cells d H Bt mt tgt Htok). apply in_map. exact Hlf. }
  eapply Permutation_trans.
  { apply Permutation_flat_map. apply Permutation_app_tail. apply (nlist_exact d per L false (lf_index lf) Hd); [lia|exact Hr]. }
  match goal with |- Permutation ?a ?b => replace b with a; [apply Permutation_refl|] end.
  apply flat_map_ext. intros sc. rewrite tab_parts_tab. reflexivity.
Qed.

Theorem tsm_trees_refine_spec s :
  Permutation (elementary (execute_tsm d per s 63 src tgt)) (spec_all_tsm d per s H (leaf_table src) (leaf_table tgt)).
Proof.
  rewrite execute_tsm_63_gen. unfold spec_all_tsm. cbv zeta.
  assert (Hs : 0 <= Z.max 0 s) by lia. set (s' := Z.max 0 s) in *.
  rewrite !RefineM2L.elementary_app.
  rewrite (el_P2M d Hd H Bs ms src HH Hsok s'), (el_L2P d H Bt mt tgt Htok s').
  rewrite (el_M2M d Hd H Bs ms src Hsok s' Hs), (el_L2L d Hd H Bt mt tgt Htok s' Hs).
  apply Permutation_app; [apply Permutation_refl|].
  apply Permutation_app.
  { perm_eq. apply fm_ext_in. intros l Hl. apply in_rev in Hl. apply ListsProofs.In_zrange in Hl.
    replace (H - 1 - (l + 1)) with (L - (l + 1)) by lia. rewrite s_table by lia. reflexivity. }
  apply Permutation_app; [exact (el_tsm_M2L s' Hs)|].
  apply Permutation_app.
  { perm_eq. apply fm_ext_in. intros l Hl. apply ListsProofs.In_zrange in Hl.
    replace (H - 1 - (l + 1)) with (L - (l + 1)) by lia. rewrite t_table by lia. reflexivity. }
  apply Permutation_app; [apply Permutation_refl|].
  apply (Permutation_trans (proj2 (tsm_pass_P2P_ok d Hd H Bs Bt ms mt src tgt HH Hsok Htok per))).
  exact p2p_tab.
Qed.
End TwoTrees.

(* ------------------------------------------------------------------ *)
(* 4. property C08 for the target/source executor                      *)
(* ------------------------------------------------------------------ *)
Theorem tsm_exec_refines_spec : forall d per H Bs Bt ms mt s src tgt idxs idxt, (0 < d)%nat -> 1 <= H ->
  tree_ok (parent d) H Bs ms src -> tree_ok (parent d) H Bt mt tgt -> particles_ok idxs src -> particles_ok idxt tgt ->
  Forall (fun i => 0 <= i < 2 ^ ((H - 1) * dz d)) idxs -> Forall (fun i => 0 <= i < 2 ^ ((H - 1) * dz d)) idxt ->
  Permutation (elementary (execute_tsm d per s 63 src tgt)) (spec_all_tsm d per s H (leaf_table src) (leaf_table tgt)).
Proof.
  intros d per H Bs Bt ms mt s src tgt idxs idxt Hd HH Hsok Htok _ Htp _ Htr.
  exact (tsm_trees_refine_spec d Hd per H Bs Bt ms mt src tgt idxt HH Hsok Htok Htp Htr s).
Qed.

(* two pairs of trees over the same leaves: the block sizes Bs1, Bt1, Bs2, Bt2 and the modes ms1, mt1, ms2, mt2 are
   arbitrary and independent *)
Theorem tsm_grouping_independent : forall d per H Bs1 ms1 Bt1 mt1 Bs2 ms2 Bt2 mt2 s src1 tgt1 src2 tgt2 idxs idxt,
  (0 < d)%nat -> 1 <= H ->
  tree_ok (parent d) H Bs1 ms1 src1 -> tree_ok (parent d) H Bt1 mt1 tgt1 ->
  tree_ok (parent d) H Bs2 ms2 src2 -> tree_ok (parent d) H Bt2 mt2 tgt2 ->
  particles_ok idxs src1 -> particles_ok idxt tgt1 -> particles_ok idxs src2 -> particles_ok idxt tgt2 ->
  Forall (fun i => 0 <= i < 2 ^ ((H - 1) * dz d)) idxs -> Forall (fun i => 0 <= i < 2 ^ ((H - 1) * dz d)) idxt ->
  leaf_table src1 = leaf_table src2 -> leaf_table tgt1 = leaf_table tgt2 ->
  Permutation (elementary (execute_tsm d per s 63 src1 tgt1)) (elementary (execute_tsm d per s 63 src2 tgt2)).
Proof.
  intros d per H Bs1 ms1 Bt1 mt1 Bs2 ms2 Bt2 mt2 s src1 tgt1 src2 tgt2 idxs idxt Hd HH
         Hs1 Ht1 Hs2 Ht2 Ps1 Pt1 Ps2 Pt2 Hsr Htr Es Et.
  apply (Permutation_trans (tsm_exec_refines_spec d per H Bs1 Bt1 ms1 mt1 s src1 tgt1 idxs idxt Hd HH Hs1 Ht1 Ps1 Pt1 Hsr Htr)).
  rewrite Es, Et. apply Permutation_sym.
  exact (tsm_exec_refines_spec d per H Bs2 Bt2 ms2 mt2 s src2 tgt2 idxs idxt Hd HH Hs2 Ht2 Ps2 Pt2 Hsr Htr).
Qed.

(* the interaction counters of a full run are those of the specification *)
Theorem tsm_counts_spec : forall d per H Bs Bt ms mt s src tgt idxs idxt, (0 < d)%nat -> 1 <= H ->
  tree_ok (parent d) H Bs ms src -> tree_ok (parent d) H Bt mt tgt -> particles_ok idxs src -> particles_ok idxt tgt ->
  Forall (fun i => 0 <= i < 2 ^ ((H - 1) * dz d)) idxs -> Forall (fun i => 0 <= i < 2 ^ ((H - 1) * dz d)) idxt ->
  count_trace (execute_tsm d per s 63 src tgt) = count_elems (spec_all_tsm d per s H (leaf_table src) (leaf_table tgt)).
Proof.
  intros d per H Bs Bt ms mt s src tgt idxs idxt Hd HH Hsok Htok Hsp Htp Hsr Htr.
  rewrite count_trace_elementary. apply count_elems_perm.
  exact (tsm_exec_refines_spec d per H Bs Bt ms mt s src tgt idxs idxt Hd HH Hsok Htok Hsp Htp Hsr Htr).
Qed.

Theorem tsm_counts_grouping_independent : forall d per H Bs1 ms1 Bt1 mt1 Bs2 ms2 Bt2 mt2 s src1 tgt1 src2 tgt2 idxs idxt,
  (0 < d)%nat -> 1 <= H ->
  tree_ok (parent d) H Bs1 ms1 src1 -> tree_ok (parent d) H Bt1 mt1 tgt1 ->
  tree_ok (parent d) H Bs2 ms2 src2 -> tree_ok (parent d) H Bt2 mt2 tgt2 ->
  particles_ok idxs src1 -> particles_ok idxt tgt1 -> particles_ok idxs src2 -> particles_ok idxt tgt2 ->
  Forall (fun i => 0 <= i < 2 ^ ((H - 1) * dz d)) idxs -> Forall (fun i => 0 <= i < 2 ^ ((H - 1) * dz d)) idxt ->
  leaf_table src1 = leaf_table src2 -> leaf_table tgt1 = leaf_table tgt2 ->
  count_trace (execute_tsm d per s 63 src1 tgt1) = count_trace (execute_tsm d per s 63 src2 tgt2).
Proof.
  intros d per H Bs1 ms1 Bt1 mt1 Bs2 ms2 Bt2 mt2 s src1 tgt1 src2 tgt2 idxs idxt Hd HH
         Hs1 Ht1 Hs2 Ht2 Ps1 Pt1 Ps2 Pt2 Hsr Htr Es Et.
  rewrite !count_trace_elementary. apply count_elems_perm.
  exact (tsm_grouping_independent d per H Bs1 ms1 Bt1 mt1 Bs2 ms2 Bt2 mt2 s src1 tgt1 src2 tgt2 idxs idxt Hd HH
           Hs1 Ht1 Hs2 Ht2 Ps1 Pt1 Ps2 Pt2 Hsr Htr Es Et).
Qed.

Print Assumptions tsm_exec_refines_spec.
Print Assumptions tsm_grouping_independent.
Print Assumptions tsm_counts_spec.
Print Assumptions tsm_counts_grouping_independent.
