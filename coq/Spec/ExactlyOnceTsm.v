(* Top-level statement for the TARGET/SOURCE executor (two trees, TbfAlgorithmTsm):
   after one complete execution on two well-formed trees of the same height, every TARGET particle has
   accumulated exactly one contribution from every SOURCE particle, and nothing else.
   Source and target particles are numbered independently: [s_rhs p] is indexed by target ids and holds
   source ids; multipoles hold source ids.  The development follows Spec/ExactlyOnce.v pass by pass and
   reuses its per-tree lemmas (instantiated on the source tree for P2M/M2M and on the target tree for L2L/L2P). *)
From Tbfmm Require Import Base.Prelude Base.Search Index.MortonDefs Tree.GroupDefs Index.ListsDefs Index.ListsSpec
  Tree.BuildDefs Tree.Invariant Tree.LookupProofs Tree.BuildProofs Index.MortonProofs Index.MortonBits Index.ListsProofs
  Index.ListsCapacity Exec.ExecDefs Exec.ExecTsmDefs Spec.Elem Spec.Kernel Spec.Geometry Exec.RefineM2M Exec.RefineM2L
  Exec.RefineTsm Spec.ExactlyOnce.
From Coq Require Import Sorting.Sorted Sorting.Permutation ZifyBool Zify.
Local Open Scope Z_scope.
Ltac Zify.zify_post_hook ::= Z.div_mod_to_equations.

(* ------------------------------------------------------------------ *)
(* 0. generic facts                                                    *)
(* ------------------------------------------------------------------ *)
(* the capacity hypothesis of Spec/ExactlyOnce.v is a theorem *)
Lemma cap d : (0 < d)%nat -> forall l t, 0 <= l -> 0 <= t < 2 ^ (l * dz d) ->
  zlen (ilist_cell d false l t) <= nb_interactions d.
Proof. intros Hd l t Hl Ht. apply ilist_cell_capacity; assumption. Qed.

Lemma eok_P2PTsm L RdM RdL a b code sp tp : eok L RdM RdL (EP2PTsm a b code sp tp).
Proof. split; [|split]; try reflexivity. intros s s' _. repeat split; reflexivity. Qed.

Lemma vld_iff idx q : valid idx q = true <-> 0 <= q < zlen idx.
Proof. unfold valid. lia. Qed.

Lemma vld_false idx q : ~ (0 <= q < zlen idx) -> valid idx q = false.
Proof. unfold valid. lia. Qed.

(* ------------------------------------------------------------------ *)
(* 1. the two trees                                                    *)
(* ------------------------------------------------------------------ *)
Section TwoTrees.
Variable d : nat.
Hypothesis Hd : (0 < d)%nat.
Variables (H Bs Bt : Z) (ms mt : bool) (src tgt : tree) (idxs idxt : list Z).
Hypothesis HH : 1 <= H.
Hypothesis Hsok : tree_ok (parent d) H Bs ms src.
Hypothesis Htok : tree_ok (parent d) H Bt mt tgt.
Hypothesis Hspart : particles_ok idxs src.
Hypothesis Htpart : particles_ok idxt tgt.
Hypothesis Hsrange : Forall (fun i => 0 <= i < 2 ^ ((H - 1) * dz d)) idxs.
Hypothesis Htrange : Forall (fun i => 0 <= i < 2 ^ ((H - 1) * dz d)) idxt.

Notation L := (H - 1).
Notation scells l := (level_cells (levels_of src l)).
Notation tcells l := (level_cells (levels_of tgt l)).
Notation vs := (valid idxs).
Notation vt := (valid idxt).
Notation los := (lo idxs).
Notation lot := (lo idxt).
Notation slvs := (all_leaves src).
Notation tlvs := (all_leaves tgt).

(* instances of the per-tree facts *)
Lemma s_level_ok l : 0 <= l < H -> level_ok (levels_of src l).
Proof. intros Hl. exact (level_ok_at d Hd (cap d Hd) H Bs ms src Hsok l Hl). Qed.

Lemma t_level_ok l : 0 <= l < H -> level_ok (levels_of tgt l).
Proof. intros Hl. exact (level_ok_at d Hd (cap d Hd) H Bt mt tgt Htok l Hl). Qed.

Lemma s_cells_range l c : 0 <= l < H -> In c (scells l) -> 0 <= c < 2 ^ (l * dz d).
Proof. intros Hl Hc. exact (cells_range d Hd (cap d Hd) H Bs ms src idxs Hsok Hspart Hsrange l c Hl Hc). Qed.

Lemma t_cells_range l c : 0 <= l < H -> In c (tcells l) -> 0 <= c < 2 ^ (l * dz d).
Proof. intros Hl Hc. exact (cells_range d Hd (cap d Hd) H Bt mt tgt idxt Htok Htpart Htrange l c Hl Hc). Qed.

Lemma s_cells_nodup l : 0 <= l < H -> NoDup (scells l).
Proof. intros Hl. exact (cells_nodup d Hd (cap d Hd) H Bs ms src Hsok l Hl). Qed.

Lemma t_cells_nodup l : 0 <= l < H -> NoDup (tcells l).
Proof. intros Hl. exact (cells_nodup d Hd (cap d Hd) H Bt mt tgt Htok l Hl). Qed.

Lemma s_anc_in_cells l q : 0 <= l < H -> vs q = true -> In (anc d L l (los q)) (scells l).
Proof. intros Hl Hv. exact (anc_in_cells d Hd (cap d Hd) H Bs ms src idxs Hsok Hspart l q Hl Hv). Qed.

Lemma s_lo_leaf q : vs q = true -> In (los q) (scells L).
Proof. intros Hv. exact (lo_leaf d Hd (cap d Hd) H Bs ms src idxs Hsok Hspart q Hv). Qed.

Lemma t_lo_leaf p : vt p = true -> In (lot p) (tcells L).
Proof. intros Hv. exact (lo_leaf d Hd (cap d Hd) H Bt mt tgt idxt Htok Htpart p Hv). Qed.

Lemma s_lo_range q : vs q = true -> 0 <= los q < 2 ^ (L * dz d).
Proof. intros Hv. apply (s_cells_range L); [lia|]. apply s_lo_leaf. exact Hv. Qed.

Lemma t_lo_range p : vt p = true -> 0 <= lot p < 2 ^ (L * dz d).
Proof. intros Hv. apply (t_cells_range L); [lia|]. apply t_lo_leaf. exact Hv. Qed.

Lemma s_height : height src = H.
Proof. exact (height_H d H Bs ms src Hsok). Qed.

Lemma t_height : height tgt = H.
Proof. exact (height_H d H Bt mt tgt Htok). Qed.

Lemma s_leaf_cells : scells L = map lf_index slvs.
Proof. exact (leaf_cells d H Bs ms src Hsok). Qed.

Lemma t_leaf_cells : tcells L = map lf_index tlvs.
Proof. exact (leaf_cells d H Bt mt tgt Htok). Qed.

Lemma s_cnt_parts_of c q : In c (scells L) -> cnt (parts_of slvs c) q = pc idxs c q.
Proof. intros Hc. exact (cnt_parts_of d Hd (cap d Hd) H Bs ms src idxs HH Hsok Hspart c q Hc). Qed.

Lemma t_cnt_parts_of c p : In c (tcells L) -> cnt (parts_of tlvs c) p = pc idxt c p.
Proof. intros Hc. exact (cnt_parts_of d Hd (cap d Hd) H Bt mt tgt idxt HH Htok Htpart c p Hc). Qed.

(* ------------------------------------------------------------------ *)
(* 2. the transfer pass: locals of TARGET cells from multipoles of SOURCE cells *)
(* ------------------------------------------------------------------ *)
Lemma tsm_pass_M2L_eq per s0 : tsm_pass_M2L d per s0 src tgt
  = flat_map (fun l => tsm_m2l_level d per l (levels_of src l) (levels_of tgt l)) (zrange s0 L).
Proof. rewrite tsm_pass_M2L_unfold, t_height. reflexivity. Qed.

Lemma tsm_m2l_level_ok per l : 0 <= l < H ->
  no_assert (tsm_m2l_level d per l (levels_of src l) (levels_of tgt l)) /\
  Permutation (elementary (tsm_m2l_level d per l (levels_of src l) (levels_of tgt l)))
              (spec_m2l_tsm d per l (scells l) (tcells l)).
Proof.
  intros Hl. apply tsm_m2l_level_exact; [apply s_level_ok; exact Hl|apply t_level_ok; exact Hl|].
  intros c Hc. apply ilist_cell_capacity; [exact Hd|lia|]. apply t_cells_range; assumption.
Qed.

Definition tsm_m2l_spec (per : bool) (s0 : Z) : list elem :=
  flat_map (fun l => spec_m2l_tsm d per l (scells l) (tcells l)) (zrange s0 L).

Lemma tsm_pass_M2L_ok per s0 : 0 <= s0 ->
  no_assert (tsm_pass_M2L d per s0 src tgt) /\
  Permutation (elementary (tsm_pass_M2L d per s0 src tgt)) (tsm_m2l_spec per s0).
Proof.
  intros Hs. rewrite tsm_pass_M2L_eq. split.
  - apply no_assert_fm. intros l Hl. apply ListsProofs.In_zrange in Hl. apply tsm_m2l_level_ok. lia.
  - rewrite elementary_fm. apply perm_fm_pointwise. intros l Hl. apply ListsProofs.In_zrange in Hl.
    apply tsm_m2l_level_ok. lia.
Qed.

Lemma tsm_m2l_spec_shape per s0 e : In e (tsm_m2l_spec per s0) -> exists l x b code, e = EM2L l x b code.
Proof.
  unfold tsm_m2l_spec, spec_m2l_tsm. intros He. apply in_flat_map in He. destruct He as (l & _ & He).
  apply in_flat_map in He. destruct He as (x & _ & He). apply in_flat_map in He. destruct He as (sc & _ & He).
  destruct (zmem (fst sc) (scells l)); [|destruct He]. destruct He as [<-|[]]. eauto.
Qed.

(* target cell x of level l: the members of its interaction list that exist in the SOURCE tree *)
Lemma tsm_ilist_sum l x q : 0 <= l < H -> In x (tcells l) ->
  sumn (fun sc => if zmem (fst sc) (scells l) then below d H idxs l (fst sc) q else 0%nat) (ilist_cell d false l x)
  = farv d H idxs l x q.
Proof.
  intros Hl Hx. pose proof (t_cells_range l x Hl Hx) as Hr.
  rewrite (sumn_perm _ _ _ (ilist_exact d false l x Hd ltac:(lia) Hr)).
  unfold farv, below. destruct (vs q) eqn:Hv; cbn [andb].
  2:{ apply sumn_zero. intros sc _. destruct (zmem (fst sc) (scells l)); reflexivity. }
  apply list_pick_sum.
  - apply ilist_spec_nodup; [exact Hd|lia|exact Hr].
  - apply s_anc_in_cells; assumption.
Qed.

Lemma tsm_m2l_level_sum w l' l x q : 0 <= l' < H -> (forall b, cnt (s_mult w l' b) q = below d H idxs l' b q) ->
  sumn (fun e => cl w e l x q) (spec_m2l_tsm d false l' (scells l') (tcells l'))
  = if l' =? l then (if zmem x (tcells l') then farv d H idxs l' x q else 0%nat) else 0%nat.
Proof.
  intros Hl' Hm. unfold spec_m2l_tsm. rewrite sumn_flat_map.
  rewrite (sumn_ext_in _ (fun t' => if t' =? x then
            (if l' =? l then sumn (fun sc => if zmem (fst sc) (scells l') then below d H idxs l' (fst sc) q else 0%nat)
                                  (ilist_cell d false l' t') else 0%nat)
            else 0%nat)).
  2:{ intros t' _. rewrite sumn_flat_map.
      destruct (Z.eqb_spec t' x) as [->|Hne]; [destruct (Z.eqb_spec l' l) as [->|Hne]|].
      - apply sumn_ext_in. intros sc _. rewrite sumn_if_list. cbn [cl]. rewrite !Z.eqb_refl, Hm. reflexivity.
      - apply sumn_zero. intros sc _. rewrite sumn_if_list. cbn [cl].
        destruct (Z.eqb_spec l l'); [congruence|]. destruct (zmem (fst sc) (scells l')); reflexivity.
      - apply sumn_zero. intros sc _. rewrite sumn_if_list. cbn [cl].
        destruct (Z.eqb_spec x t'); [congruence|]. rewrite andb_false_r. destruct (zmem (fst sc) (scells l')); reflexivity. }
  rewrite sumn_pick by (apply t_cells_nodup; exact Hl').
  destruct (zmem x (tcells l')) eqn:Ex; [|destruct (l' =? l); reflexivity].
  destruct (l' =? l); [|reflexivity]. apply tsm_ilist_sum; [exact Hl'|]. apply zmem_In. exact Ex.
Qed.

Lemma tsm_m2l_sum w s0 l x q : 0 <= s0 -> MultInv d H idxs s0 w ->
  sumn (fun e => cl w e l x q) (tsm_m2l_spec false s0)
  = if (s0 <=? l) && (l <=? L) && zmem x (tcells l) then farv d H idxs l x q else 0%nat.
Proof.
  intros Hs (Hhi & _). unfold tsm_m2l_spec. rewrite sumn_flat_map.
  rewrite (sumn_ext_in _ (fun l' => if l' =? l then (if zmem x (tcells l') then farv d H idxs l' x q else 0%nat) else 0%nat)).
  2:{ intros l' Hl'. apply ListsProofs.In_zrange in Hl'. apply tsm_m2l_level_sum; [lia|].
      intros b. apply Hhi. lia. }
  rewrite sumn_pick by apply NoDup_zrange. rewrite zmem_zrange.
  destruct ((s0 <=? l) && (l <=? L)); reflexivity.
Qed.

Lemma tsm_m2l_effect s0 w : 0 <= s0 -> MultInv d H idxs s0 w ->
  (forall l x q, cnt (s_mult (run L (tsm_pass_M2L d false s0 src tgt) w) l x) q = cnt (s_mult w l x) q) /\
  (forall l x q, cnt (s_loc (run L (tsm_pass_M2L d false s0 src tgt) w) l x) q
     = cnt (s_loc w l x) q +n (if (s0 <=? l) && (l <=? L) && zmem x (tcells l) then farv d H idxs l x q else 0%nat)) /\
  (forall p q, cnt (s_rhs (run L (tsm_pass_M2L d false s0 src tgt) w) p) q = cnt (s_rhs w p) q).
Proof.
  intros Hs Hinv. destruct (tsm_pass_M2L_ok false s0 Hs) as (_ & Hperm).
  assert (Hok' : Forall (eok L allrd nordM) (elementary (tsm_pass_M2L d false s0 src tgt))).
  { apply Forall_forall. intros e He. apply (Permutation_in _ Hperm) in He.
    destruct (tsm_m2l_spec_shape false s0 e He) as (l & x & b & code & ->). apply eok_M2L; [exact I|intros []]. }
  destruct (run_counts L _ _ _ Hok' w) as (HM & HL & HR).
  repeat split.
  - intros l x q. rewrite HM, (sumn_perm _ _ _ Hperm), sumn_zero; [lia|].
    intros e He. destruct (tsm_m2l_spec_shape false s0 e He) as (l1 & x1 & b & code & ->). reflexivity.
  - intros l x q. rewrite HL, (sumn_perm _ _ _ Hperm), (tsm_m2l_sum w s0 l x q Hs Hinv). reflexivity.
  - intros p q. rewrite HR, (sumn_perm _ _ _ Hperm), sumn_zero; [lia|].
    intros e He. destruct (tsm_m2l_spec_shape false s0 e He) as (l1 & x1 & b & code & ->). reflexivity.
Qed.

(* ------------------------------------------------------------------ *)
(* 3. the near-field pass: every target leaf with the source leaves among itself and its neighbours *)
(* ------------------------------------------------------------------ *)
(* leaf b is in the full neighbour list of leaf a *)
Definition adjb (a b : Z) : bool := zmem b (map fst (nlist_spec d false L false a)).
Definition nearv (p q : Z) : nat :=
  b2n (vt p && vs q && adjb (lot p) (los q)) +n b2n (vt p && vs q && (los q =? lot p)).

Lemma tsm_pass_P2P_ok per :
  no_assert (tsm_pass_P2P d per src tgt) /\
  Permutation (elementary (tsm_pass_P2P d per src tgt)) (spec_p2p_tsm d per L slvs tlvs).
Proof.
  rewrite tsm_pass_P2P_unfold, t_height. apply tsm_p2p_groups_exact.
  - exact (pgs_ok d H Bs ms src Hsok).
  - exact (pgs_ok d H Bt mt tgt Htok).
  - exact (pgs_sorted d Hd (cap d Hd) H Bs ms src HH Hsok).
  - exact (pgs_sorted d Hd (cap d Hd) H Bt mt tgt HH Htok).
Qed.

Lemma tsm_p2p_spec_shape per e : In e (spec_p2p_tsm d per L slvs tlvs) -> exists a b c sp tp, e = EP2PTsm a b c sp tp.
Proof.
  unfold spec_p2p_tsm. cbv zeta. intros He. apply in_flat_map in He. destruct He as (x & _ & He).
  apply in_flat_map in He. destruct He as (sc & _ & He).
  destruct (zmem (fst sc) (map lf_index slvs)); [|destruct He]. destruct He as [<-|[]]. eauto 6.
Qed.

(* the neighbours of target leaf x that exist in the source tree *)
Lemma tsm_nlist_sum x q : In x (tcells L) ->
  sumn (fun sc => if zmem (fst sc) (scells L) then pc idxs (fst sc) q else 0%nat) (nlist_cell d false L false x)
  = b2n (vs q && adjb x (los q)).
Proof.
  intros Hx. pose proof (t_cells_range L x ltac:(lia) Hx) as Hr.
  rewrite (sumn_perm _ _ _ (nlist_exact d false L false x Hd ltac:(lia) Hr)).
  unfold pc, adjb. destruct (vs q) eqn:Hv; cbn [andb].
  2:{ apply sumn_zero. intros sc _. destruct (zmem (fst sc) (scells L)); reflexivity. }
  apply list_pick_sum.
  - apply nlist_spec_nodup; [exact Hd|lia|exact Hr].
  - apply s_lo_leaf. exact Hv.
Qed.

(* the source leaf with the index of target leaf x, if it exists *)
Lemma tsm_self_sum x q :
  (if zmem x (scells L) then pc idxs x q else 0%nat) = b2n (vs q && (los q =? x)).
Proof.
  unfold pc. destruct (zmem x (scells L)) eqn:E; [reflexivity|]. apply zmem_false in E.
  destruct (vs q) eqn:Hv; [|reflexivity]. cbn [andb].
  destruct (Z.eqb_spec (los q) x) as [<-|]; [|reflexivity]. exfalso. apply E. apply s_lo_leaf. exact Hv.
Qed.

Lemma tsm_leaf_sum x q : In x (tcells L) ->
  sumn (fun sc => if zmem (fst sc) (scells L) then pc idxs (fst sc) q else 0%nat)
       (nlist_cell d false L false x ++ [(x, enc3 (repeat 0 d))])
  = b2n (vs q && adjb x (los q)) +n b2n (vs q && (los q =? x)).
Proof.
  intros Hx. rewrite sumn_app, sumn_cons, sumn_nil, (tsm_nlist_sum x q Hx). cbn [fst].
  rewrite tsm_self_sum. lia.
Qed.

Lemma tsm_p2p_sum w p q : sumn (fun e => cr L w e p q) (spec_p2p_tsm d false L slvs tlvs) = nearv p q.
Proof.
  unfold spec_p2p_tsm. cbv zeta. rewrite <- s_leaf_cells, <- t_leaf_cells. rewrite sumn_flat_map.
  rewrite (sumn_ext_in _ (fun t' => if t' =? lot p then
      (if vt p then sumn (fun sc => if zmem (fst sc) (scells L) then pc idxs (fst sc) q else 0%nat)
                         (nlist_cell d false L false t' ++ [(t', enc3 (repeat 0 d))]) else 0%nat)
      else 0%nat)).
  2:{ intros t' Ht'. rewrite sumn_flat_map.
      rewrite (sumn_ext_in _ (fun sc => pc idxt t' p *n (if zmem (fst sc) (scells L) then pc idxs (fst sc) q else 0%nat))).
      2:{ intros sc _. rewrite sumn_if_list. destruct (zmem (fst sc) (scells L)) eqn:Eb; [|lia].
          apply zmem_In in Eb. cbn [cr]. rewrite (t_cnt_parts_of t' p Ht'), (s_cnt_parts_of (fst sc) q Eb). reflexivity. }
      rewrite sumn_mul_l. unfold pc at 1. rewrite (Z.eqb_sym t').
      destruct (vt p); destruct (lot p =? t'); cbn [andb b2n]; lia. }
  unfold nearv. destruct (vt p) eqn:Hv; cbn [andb].
  - rewrite (sumn_pick_in _ (lot p) (fun t' => sumn (fun sc => if zmem (fst sc) (scells L) then pc idxs (fst sc) q else 0%nat)
                                                     (nlist_cell d false L false t' ++ [(t', enc3 (repeat 0 d))]))).
    + apply tsm_leaf_sum. apply t_lo_leaf. exact Hv.
    + apply t_cells_nodup. lia.
    + apply t_lo_leaf. exact Hv.
  - apply sumn_zero. intros c _. destruct (c =? lot p); reflexivity.
Qed.

Lemma tsm_p2p_effect w :
  (forall l x q, cnt (s_mult (run L (tsm_pass_P2P d false src tgt) w) l x) q = cnt (s_mult w l x) q) /\
  (forall l x q, cnt (s_loc (run L (tsm_pass_P2P d false src tgt) w) l x) q = cnt (s_loc w l x) q) /\
  (forall p q, cnt (s_rhs (run L (tsm_pass_P2P d false src tgt) w) p) q = cnt (s_rhs w p) q +n nearv p q).
Proof.
  destruct (tsm_pass_P2P_ok false) as (_ & Hperm).
  assert (Hok' : Forall (eok L nordM nordM) (elementary (tsm_pass_P2P d false src tgt))).
  { apply Forall_forall. intros e He. apply (Permutation_in _ Hperm) in He.
    destruct (tsm_p2p_spec_shape false e He) as (a & b & c & sp & tp & ->). apply eok_P2PTsm. }
  destruct (run_counts L _ _ _ Hok' w) as (HM & HL & HR).
  repeat split.
  - intros l x q. rewrite HM, (sumn_perm _ _ _ Hperm), sumn_zero; [lia|].
    intros e He. destruct (tsm_p2p_spec_shape false e He) as (a & b & c & sp & tp & ->). reflexivity.
  - intros l x q. rewrite HL, (sumn_perm _ _ _ Hperm), sumn_zero; [lia|].
    intros e He. destruct (tsm_p2p_spec_shape false e He) as (a & b & c & sp & tp & ->). reflexivity.
  - intros p q. rewrite HR, (sumn_perm _ _ _ Hperm), tsm_p2p_sum. reflexivity.
Qed.

(* ------------------------------------------------------------------ *)
(* 4. geometry: near field + far field = exactly once                  *)
(* ------------------------------------------------------------------ *)
Lemma adjb_iff a b : adjb a b = true <-> adjacent d L a b.
Proof. unfold adjb, adjacent. rewrite zmem_In. apply in_map_fst. Qed.

Lemma adjacent_neq a b : 0 <= a < 2 ^ (L * dz d) -> 0 <= b < 2 ^ (L * dz d) -> adjacent d L a b -> a <> b.
Proof. intros Ha Hb Hadj. apply (adjacent_coords d L a b Hd ltac:(lia) Ha Hb) in Hadj. apply Hadj. Qed.

Lemma once_geometry_tsm s0 a b : 0 <= s0 <= 2 ->
  0 <= a < 2 ^ (L * dz d) -> 0 <= b < 2 ^ (L * dz d) ->
  sumn (fun l' => b2n (farb d l' (anc d L l' a) (anc d L l' b))) (zrange s0 L)
  +n (b2n (adjb a b) +n b2n (b =? a)) = 1%nat.
Proof.
  intros Hs Ha Hb.
  destruct (near_xor_far_once d L s0 a b Hd ltac:(lia) Hs Ha Hb) as [(Hnear & Hnofar)|(Hnn & l & Hl & Hfar & Huniq)].
  - rewrite sumn_zero.
    2:{ intros l' Hl'. apply ListsProofs.In_zrange in Hl'. apply b2n_false.
        destruct (farb d l' (anc d L l' a) (anc d L l' b)) eqn:E; [|reflexivity].
        exfalso. apply (Hnofar l' Hl'). apply farb_far_at. exact E. }
    destruct (Z.eq_dec a b) as [Eab|Nab].
    + subst b. rewrite Z.eqb_refl.
      assert (Hu : adjb a a = false).
      { destruct (adjb a a) eqn:E; [|reflexivity]. exfalso. apply adjb_iff in E.
        apply (adjacent_neq a a Ha Ha E). reflexivity. }
      rewrite Hu. reflexivity.
    + destruct Hnear as [Eab|Hadj]; [contradiction|].
      rewrite (proj2 (Z.eqb_neq b a)) by congruence.
      rewrite (proj2 (adjb_iff a b) Hadj). reflexivity.
  - assert (Nab : a <> b) by tauto.
    rewrite (proj2 (Z.eqb_neq b a)) by congruence.
    assert (Hu : adjb a b = false).
    { destruct (adjb a b) eqn:E; [|reflexivity]. exfalso. apply Hnn. right. apply adjb_iff. exact E. }
    rewrite Hu.
    rewrite (sumn_single _ (zrange s0 L) l).
    + rewrite (proj2 (farb_far_at d H l a b) Hfar). reflexivity.
    + apply NoDup_zrange.
    + apply ListsProofs.In_zrange. exact Hl.
    + intros l' Hl' Hne. apply ListsProofs.In_zrange in Hl'. apply b2n_false.
      destruct (farb d l' (anc d L l' a) (anc d L l' b)) eqn:E; [|reflexivity].
      exfalso. apply Hne. apply (Huniq l' Hl'). apply farb_far_at. exact E.
Qed.

(* ------------------------------------------------------------------ *)
(* 5. the complete execution                                           *)
(* ------------------------------------------------------------------ *)
Definition far_tr (s0 : Z) : list call :=
  pass_P2M s0 src ++ pass_M2M d s0 src ++ tsm_pass_M2L d false s0 src tgt ++ pass_L2L d s0 tgt ++ pass_L2P s0 tgt.

Lemma execute_tsm_63 s : execute_tsm d false s 63 src tgt = far_tr (Z.max 0 s) ++ tsm_pass_P2P d false src tgt.
Proof. unfold far_tr. rewrite <- !app_assoc. reflexivity. Qed.

Lemma far_stage_A s0 : 0 <= s0 < H ->
  MultInv d H idxs s0 (run L (far_tr s0) st0) /\
  (forall p q, cnt (s_rhs (run L (far_tr s0) st0) p) q = if vt p then Fsum d H idxs s0 L (lot p) q else 0%nat).
Proof.
  intros Hs. unfold far_tr. rewrite !run_app.
  assert (Hlt : (s0 <? H) = true) by lia.
  destruct (p2m_effect d Hd (cap d Hd) H Bs ms src idxs HH Hsok Hspart s0 st0) as (M1 & L1 & R1).
  rewrite Hlt in M1. cbn [andb] in M1.
  set (w1 := run L (pass_P2M s0 src) st0) in *.
  assert (I1 : MultInv d H idxs L w1).
  { split; intros l x q Hl; rewrite M1; cbn [st0 s_mult]; rewrite cnt_nil.
    - replace l with L by lia. rewrite Z.eqb_refl. reflexivity.
    - destruct (Z.eqb_spec l L); [lia|reflexivity]. }
  rewrite (pass_M2M_eq d H Bs ms src Hsok).
  destruct (m2m_pass_inv d Hd (cap d Hd) H Bs ms src idxs Hsok Hspart (Z.to_nat (L - s0)) s0 w1 ltac:(lia) ltac:(lia) I1)
    as (I2 & L2 & R2).
  set (w2 := run L (flat_map (m2m_level d src) (rev (zrange s0 (H - 2)))) w1) in *.
  destruct (tsm_m2l_effect s0 w2 ltac:(lia) I2) as (M3 & L3 & R3).
  set (w3 := run L (tsm_pass_M2L d false s0 src tgt) w2) in *.
  assert (Z3 : forall l x q, cnt (s_loc w2 l x) q = 0%nat).
  { intros l x q. rewrite L2, L1. reflexivity. }
  assert (I3 : LocInv d H tgt idxs s0 s0 w3).
  { split.
    - intros x q Hx. rewrite L3, Z3, (Fsum_base d Hd (cap d Hd)). rewrite (proj2 (zmem_In x _) Hx).
      replace ((s0 <=? s0) && (s0 <=? L)) with true by lia. reflexivity.
    - intros l x q Hl Hx. rewrite L3, Z3. rewrite (proj2 (zmem_In x _) Hx).
      replace ((s0 <=? l) && (l <=? L)) with true by lia. reflexivity. }
  rewrite (pass_L2L_eq d H Bt mt tgt Htok).
  destruct (l2l_pass_inv d Hd (cap d Hd) H Bt mt tgt idxs Htok s0 ltac:(lia) (Z.to_nat (L - s0)) s0 w3 ltac:(lia) ltac:(lia) I3)
    as (I4 & M4 & R4).
  set (w4 := run L (flat_map (l2l_level d tgt) (zrange s0 (H - 2))) w3) in *.
  destruct (l2p_effect d Hd (cap d Hd) H Bt mt tgt idxt HH Htok Htpart s0 w4) as (M5 & L5 & R5).
  split.
  - apply (MultInv_ext d H idxs s0 w2); [|exact I2]. intros l x q. rewrite M5, M4, M3. reflexivity.
  - intros p q. rewrite R5, R4, R3, R2, R1, Hlt. cbn [andb st0 s_rhs]. rewrite cnt_nil.
    destruct (vt p) eqn:Hv; [|reflexivity]. cbn [Nat.add].
    apply (proj1 I4). apply t_lo_leaf. exact Hv.
Qed.

Lemma far_stage_B s0 : H <= s0 -> far_tr s0 = [].
Proof.
  intros Hs. unfold far_tr.
  rewrite (pass_P2M_eq d Hd (cap d Hd) H Bs ms src HH Hsok), (pass_M2M_eq d H Bs ms src Hsok), tsm_pass_M2L_eq,
    (pass_L2L_eq d H Bt mt tgt Htok).
  unfold pass_L2P. rewrite t_height.
  replace (s0 <? H) with false by lia. rewrite !zrange_nil by lia. reflexivity.
Qed.

Lemma final_state s0 : 0 <= s0 ->
  (s0 < H -> MultInv d H idxs s0 (run L (far_tr s0 ++ tsm_pass_P2P d false src tgt) st0)) /\
  (forall p q, cnt (s_rhs (run L (far_tr s0 ++ tsm_pass_P2P d false src tgt) st0) p) q
     = (if vt p then Fsum d H idxs s0 L (lot p) q else 0%nat) +n nearv p q).
Proof.
  intros Hs. rewrite run_app.
  destruct (tsm_p2p_effect (run L (far_tr s0) st0)) as (M6 & _ & R6).
  destruct (Z_lt_le_dec s0 H) as [Hlt|Hge].
  - destruct (far_stage_A s0 ltac:(lia)) as (I5 & R5). split.
    + intros _. apply (MultInv_ext d H idxs s0 _ _ M6 I5).
    + intros p q. rewrite R6, R5. reflexivity.
  - split; [lia|]. intros p q. rewrite R6. rewrite far_stage_B by exact Hge.
    cbn [run fold_left st0 s_rhs]. rewrite cnt_nil. unfold Fsum. rewrite zrange_nil by lia.
    cbn [sumn fold_right]. destruct (vt p); reflexivity.
Qed.

(* no internal assertion fires, whatever the periodic flag, the stop level and the set of enabled passes *)
Theorem tsm_tree_no_assert per s flags : no_assert (execute_tsm d per s flags src tgt).
Proof.
  unfold execute_tsm. cbv zeta. assert (Hs : 0 <= Z.max 0 s) by lia.
  repeat apply no_assert_app.
  - destruct (has flags F_P2M); [exact (pass_P2M_na d Hd (cap d Hd) H Bs ms src HH Hsok _)|apply no_assert_nil].
  - destruct (has flags F_M2M); [exact (pass_M2M_na d Hd (cap d Hd) H Bs ms src Hsok _ Hs)|apply no_assert_nil].
  - destruct (has flags F_M2L); [apply tsm_pass_M2L_ok; exact Hs|apply no_assert_nil].
  - destruct (has flags F_L2L); [exact (pass_L2L_na d Hd (cap d Hd) H Bt mt tgt Htok _ Hs)|apply no_assert_nil].
  - destruct (has flags F_L2P); [exact (pass_L2P_na d H Bt mt tgt Htok _)|apply no_assert_nil].
  - destruct (has flags F_P2P); [apply tsm_pass_P2P_ok|apply no_assert_nil].
Qed.

(* the cell equations of the source tree: every multipole holds exactly the source particles below the cell *)
Theorem tsm_tree_multipoles s l c q : Z.max 0 s <= l < H ->
  cnt (s_mult (run L (execute_tsm d false s 63 src tgt) st0) l c) q = below d H idxs l c q.
Proof.
  intros Hl. rewrite execute_tsm_63.
  destruct (final_state (Z.max 0 s) ltac:(lia)) as (HI & _).
  destruct (HI ltac:(lia)) as (Ha & _). apply (Ha l c q). lia.
Qed.

(* the complete right-hand side: far part + near part, for ANY pair of ids *)
Lemma tsm_tree_rhs s p q :
  reached (run L (execute_tsm d false s 63 src tgt) st0) p q
  = (if vt p then Fsum d H idxs (Z.max 0 s) L (lot p) q else 0%nat) +n nearv p q.
Proof.
  unfold reached. rewrite execute_tsm_63.
  destruct (final_state (Z.max 0 s) ltac:(lia)) as (_ & HR).
  change (count_occ Z.eq_dec ?v q) with (cnt v q). apply HR.
Qed.

Theorem tsm_tree_exactly_once s p q : s <= 2 -> 0 <= p < zlen idxt -> 0 <= q < zlen idxs ->
  reached (run L (execute_tsm d false s 63 src tgt) st0) p q = 1%nat.
Proof.
  intros Hs Hp Hq. rewrite tsm_tree_rhs.
  assert (Hvp : vt p = true) by (apply vld_iff; exact Hp).
  assert (Hvq : vs q = true) by (apply vld_iff; exact Hq).
  unfold nearv, Fsum. rewrite Hvp, Hvq. cbn [andb].
  apply once_geometry_tsm.
  - lia.
  - apply t_lo_range. exact Hvp.
  - apply s_lo_range. exact Hvq.
Qed.

(* a target never receives anything that is not a source particle (in particular no target particle as such) *)
Theorem tsm_tree_only_sources s p q : ~ (0 <= q < zlen idxs) ->
  reached (run L (execute_tsm d false s 63 src tgt) st0) p q = 0%nat.
Proof.
  intros Hq. rewrite tsm_tree_rhs. pose proof (vld_false idxs q Hq) as Hvq.
  unfold nearv. rewrite Hvq, !andb_false_r. cbn [andb b2n].
  destruct (vt p); [|reflexivity]. unfold Fsum. rewrite sumn_zero; [reflexivity|].
  intros l' _. rewrite Hvq. reflexivity.
Qed.

(* nothing is written outside the target particles (the sources receive nothing) *)
Theorem tsm_tree_only_targets s p q : ~ (0 <= p < zlen idxt) ->
  reached (run L (execute_tsm d false s 63 src tgt) st0) p q = 0%nat.
Proof.
  intros Hp. rewrite tsm_tree_rhs. pose proof (vld_false idxt p Hp) as Hvp.
  unfold nearv. rewrite Hvp. reflexivity.
Qed.

End TwoTrees.

(* ------------------------------------------------------------------ *)
(* 6. the top-level theorems                                           *)
(* ------------------------------------------------------------------ *)
(* generalised: the two trees may have different block sizes and grouping modes *)
Theorem tsm_no_assert_gen : forall d per H Bs Bt ms mt stop flags src tgt idxs idxt, (0 < d)%nat -> 1 <= H ->
  tree_ok (parent d) H Bs ms src -> tree_ok (parent d) H Bt mt tgt -> particles_ok idxs src -> particles_ok idxt tgt ->
  Forall (fun i => 0 <= i < 2 ^ ((H - 1) * dz d)) idxs -> Forall (fun i => 0 <= i < 2 ^ ((H - 1) * dz d)) idxt ->
  no_assert (execute_tsm d per stop flags src tgt).
Proof.
  intros d per H Bs Bt ms mt stop flags src tgt idxs idxt Hd HH Hsok Htok Hsp Htp Hsr Htr.
  eapply tsm_tree_no_assert; eassumption.
Qed.

Theorem tsm_exactly_once_gen : forall d H Bs Bt ms mt s src tgt idxs idxt, (0 < d)%nat -> 1 <= H ->
  tree_ok (parent d) H Bs ms src -> tree_ok (parent d) H Bt mt tgt -> particles_ok idxs src -> particles_ok idxt tgt ->
  Forall (fun i => 0 <= i < 2 ^ ((H - 1) * dz d)) idxs -> Forall (fun i => 0 <= i < 2 ^ ((H - 1) * dz d)) idxt -> s <= 2 ->
  let st := run (H - 1) (execute_tsm d false s 63 src tgt) st0 in
  (forall p q, 0 <= p < zlen idxt -> 0 <= q < zlen idxs -> reached st p q = 1%nat) /\
  (forall p q, ~ (0 <= q < zlen idxs) -> reached st p q = 0%nat) /\
  (forall p q, ~ (0 <= p < zlen idxt) -> reached st p q = 0%nat).
Proof.
  intros d H Bs Bt ms mt s src tgt idxs idxt Hd HH Hsok Htok Hsp Htp Hsr Htr Hs st. repeat split.
  - intros p q Hp Hq.
    eapply tsm_tree_exactly_once; eassumption.
  - intros p q Hq.
    eapply tsm_tree_only_sources; eassumption.
  - intros p q Hp.
    eapply tsm_tree_only_targets; eassumption.
Qed.

(* the statements as requested (same block size / mode for both trees, as in the C++ TbfTreeTsm) *)
Theorem tsm_no_assert : forall d per H B mode stop flags src tgt idxs idxt, (0 < d)%nat -> 1 <= H ->
  tree_ok (parent d) H B mode src -> tree_ok (parent d) H B mode tgt -> particles_ok idxs src -> particles_ok idxt tgt ->
  Forall (fun i => 0 <= i < 2 ^ ((H - 1) * dz d)) idxs -> Forall (fun i => 0 <= i < 2 ^ ((H - 1) * dz d)) idxt ->
  idxs <> [] -> idxt <> [] ->
  no_assert (execute_tsm d per stop flags src tgt).
Proof.
  intros d per H B mode stop flags src tgt idxs idxt Hd HH Hsok Htok Hsp Htp Hsr Htr _ _.
  exact (tsm_no_assert_gen d per H B B mode mode stop flags src tgt idxs idxt Hd HH Hsok Htok Hsp Htp Hsr Htr).
Qed.

(* MAIN: every target particle receives every source particle exactly once *)
Theorem tsm_exactly_once : forall d H B mode s src tgt idxs idxt, (0 < d)%nat -> 1 <= H ->
  tree_ok (parent d) H B mode src -> tree_ok (parent d) H B mode tgt -> particles_ok idxs src -> particles_ok idxt tgt ->
  Forall (fun i => 0 <= i < 2 ^ ((H - 1) * dz d)) idxs -> Forall (fun i => 0 <= i < 2 ^ ((H - 1) * dz d)) idxt ->
  idxs <> [] -> idxt <> [] -> s <= 2 ->
  let st := run (H - 1) (execute_tsm d false s 63 src tgt) st0 in
  forall p q, 0 <= p < zlen idxt -> 0 <= q < zlen idxs -> reached st p q = 1%nat.
Proof.
  intros d H B mode s src tgt idxs idxt Hd HH Hsok Htok Hsp Htp Hsr Htr _ _ Hs st.
  exact (proj1 (tsm_exactly_once_gen d H B B mode mode s src tgt idxs idxt Hd HH Hsok Htok Hsp Htp Hsr Htr Hs)).
Qed.

(* targets never receive targets / nothing outside: the rhs of a target contains only valid source ids *)
Theorem tsm_only_sources : forall d H B mode s src tgt idxs idxt, (0 < d)%nat -> 1 <= H ->
  tree_ok (parent d) H B mode src -> tree_ok (parent d) H B mode tgt -> particles_ok idxs src -> particles_ok idxt tgt ->
  Forall (fun i => 0 <= i < 2 ^ ((H - 1) * dz d)) idxs -> Forall (fun i => 0 <= i < 2 ^ ((H - 1) * dz d)) idxt ->
  idxs <> [] -> idxt <> [] -> s <= 2 ->
  let st := run (H - 1) (execute_tsm d false s 63 src tgt) st0 in
  forall p q, 0 <= p < zlen idxt -> ~ (0 <= q < zlen idxs) -> reached st p q = 0%nat.
Proof.
  intros d H B mode s src tgt idxs idxt Hd HH Hsok Htok Hsp Htp Hsr Htr _ _ Hs st p q _ Hq.
  exact (proj1 (proj2 (tsm_exactly_once_gen d H B B mode mode s src tgt idxs idxt Hd HH Hsok Htok Hsp Htp Hsr Htr Hs)) p q Hq).
Qed.

(* nothing is accumulated outside the target particles *)
Theorem tsm_only_targets : forall d H B mode s src tgt idxs idxt, (0 < d)%nat -> 1 <= H ->
  tree_ok (parent d) H B mode src -> tree_ok (parent d) H B mode tgt -> particles_ok idxs src -> particles_ok idxt tgt ->
  Forall (fun i => 0 <= i < 2 ^ ((H - 1) * dz d)) idxs -> Forall (fun i => 0 <= i < 2 ^ ((H - 1) * dz d)) idxt ->
  idxs <> [] -> idxt <> [] -> s <= 2 ->
  let st := run (H - 1) (execute_tsm d false s 63 src tgt) st0 in
  forall p q, ~ (0 <= p < zlen idxt) -> reached st p q = 0%nat.
Proof.
  intros d H B mode s src tgt idxs idxt Hd HH Hsok Htok Hsp Htp Hsr Htr _ _ Hs st p q Hp.
  exact (proj2 (proj2 (tsm_exactly_once_gen d H B B mode mode s src tgt idxs idxt Hd HH Hsok Htok Hsp Htp Hsr Htr Hs)) p q Hp).
Qed.

(* corollary for the trees built by the model of the constructor *)
Lemma build_tree_ok d H B mode idx : 1 <= H -> 1 <= B -> idx <> [] ->
  Forall (fun i => 0 <= i < 2 ^ ((H - 1) * dz d)) idx ->
  tree_ok (parent d) H B mode (build (parent d) H B mode idx) /\ particles_ok idx (build (parent d) H B mode idx).
Proof.
  intros HH HB Hne Hrange.
  assert (Hnn : Forall (fun c => 0 <= c) idx).
  { eapply Forall_impl; [|exact Hrange]. cbv beta. intros a Ha. lia. }
  split.
  - apply build_ok; try assumption.
    + apply par_mono.
    + intros a Ha. rewrite parent_div. apply Z.div_pos; [exact Ha|apply pow_dz_pos].
  - apply build_particles; assumption.
Qed.

Theorem tsm_exactly_once_build : forall d H B mode s idxs idxt, (0 < d)%nat -> 1 <= H -> 1 <= B ->
  idxs <> [] -> idxt <> [] ->
  Forall (fun i => 0 <= i < 2 ^ ((H - 1) * dz d)) idxs -> Forall (fun i => 0 <= i < 2 ^ ((H - 1) * dz d)) idxt -> s <= 2 ->
  let src := build (parent d) H B mode idxs in
  let tgt := build (parent d) H B mode idxt in
  let st := run (H - 1) (execute_tsm d false s 63 src tgt) st0 in
  no_assert (execute_tsm d false s 63 src tgt) /\
  (forall p q, 0 <= p < zlen idxt -> 0 <= q < zlen idxs -> reached st p q = 1%nat) /\
  (forall p q, 0 <= p < zlen idxt -> ~ (0 <= q < zlen idxs) -> reached st p q = 0%nat).
Proof.
  intros d H B mode s idxs idxt Hd HH HB Hsne Htne Hsr Htr Hs src tgt st.
  destruct (build_tree_ok d H B mode idxs HH HB Hsne Hsr) as (Hsok & Hsp).
  destruct (build_tree_ok d H B mode idxt HH HB Htne Htr) as (Htok & Htp).
  split; [|split].
  - exact (tsm_no_assert d false H B mode s 63 src tgt idxs idxt Hd HH Hsok Htok Hsp Htp Hsr Htr Hsne Htne).
  - exact (tsm_exactly_once d H B mode s src tgt idxs idxt Hd HH Hsok Htok Hsp Htp Hsr Htr Hsne Htne Hs).
  - exact (tsm_only_sources d H B mode s src tgt idxs idxt Hd HH Hsok Htok Hsp Htp Hsr Htr Hsne Htne Hs).
Qed.

Print Assumptions tsm_no_assert.
Print Assumptions tsm_exactly_once.
Print Assumptions tsm_only_sources.
Print Assumptions tsm_only_targets.
Print Assumptions tsm_exactly_once_build.
