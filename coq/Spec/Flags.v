(* Property C12 "operator flags compose".
   - each flag of execute(tree, flags) triggers only its own operator, at levels >= the upper working level;
   - write sets of the operators (frame lemmas);
   - a staged run (several execute calls whose flags partition the six operators, far-field chain in
     order, near field anywhere) leaves the same values as the single full run, for ANY tree. *)
From Tbfmm Require Import Base.Prelude Index.MortonDefs Tree.GroupDefs Index.ListsDefs Tree.BuildDefs
  Exec.ExecDefs Spec.Elem Spec.Kernel Spec.ExactlyOnce.
From Coq Require Import ZifyBool Zify.
Local Open Scope Z_scope.

(* ------------------------------------------------------------------ *)
(* 0. statements                                                       *)
(* ------------------------------------------------------------------ *)
(* observational equality of states: same multiset (counts) in every multipole, local and particle result *)
Definition st_eq (a b : st) : Prop :=
  (forall l x q, count_occ Z.eq_dec (s_mult a l x) q = count_occ Z.eq_dec (s_mult b l x) q) /\
  (forall l x q, count_occ Z.eq_dec (s_loc a l x) q = count_occ Z.eq_dec (s_loc b l x) q) /\
  (forall p q, count_occ Z.eq_dec (s_rhs a p) q = count_occ Z.eq_dec (s_rhs b p) q).

(* which operator a call belongs to *)
Definition op_flag (c : call) : Z :=
  match c with
  | CP2M _ _ => 2 | CM2M _ _ _ => 4 | CM2L _ _ _ => 8 | CL2L _ _ _ => 16 | CL2P _ _ => 32
  | CP2P _ _ _ _ _ | CP2PTsm _ _ _ _ _ | CP2PInner _ _ => 1
  | CAssert _ => 0
  end.

(* ------------------------------------------------------------------ *)
(* 1. shape of the calls issued by each pass                           *)
(* ------------------------------------------------------------------ *)
Definition lvl_ok (s : Z) (c : call) : Prop :=
  match c with CM2M l _ _ | CL2L l _ _ | CM2L l _ _ => s <= l | _ => True end.

(* a call of the pass with flag k: its operator is k (or it is an assertion record), level >= s *)
Definition okc (k s : Z) (c : call) : Prop := (op_flag c = k \/ op_flag c = 0) /\ lvl_ok s c.

Lemma okc_assert k s id : okc k s (CAssert id).
Proof. split; [right; reflexivity|exact I]. Qed.

Lemma in_if_assert (b : bool) id c : In c (if b then [] else [CAssert id]) -> c = CAssert id.
Proof. destruct b; intros H; [destruct H|]. destruct H as [H|[]]. symmetry. exact H. Qed.

Lemma in_zrange l lo hi : In l (zrange lo hi) -> lo <= l <= hi.
Proof.
  unfold zrange. intros H. apply in_map_iff in H. destruct H as (k & Hk & Hin).
  apply in_seq in Hin. lia.
Qed.

Lemma in_pass_P2M s t c : In c (pass_P2M s t) -> okc 2 s c.
Proof.
  unfold pass_P2M. destruct (s <? height t); [|intros []].
  intros H. apply in_app_or in H. destruct H as [H|H].
  - apply in_if_assert in H. subst c. apply okc_assert.
  - apply in_flat_map in H. destruct H as ([cg pg] & _ & H).
    apply in_app_or in H. destruct H as [H|H].
    + apply in_if_assert in H. subst c. apply okc_assert.
    + apply in_flat_map in H. destruct H as ([c0 lf] & _ & H).
      apply in_app_or in H. destruct H as [H|H].
      * apply in_if_assert in H. subst c. apply okc_assert.
      * destruct H as [H|[]]. subst c. split; [left; reflexivity|exact I].
Qed.

Lemma in_pass_L2P s t c : In c (pass_L2P s t) -> okc 32 s c.
Proof.
  unfold pass_L2P. destruct (s <? height t); [|intros []].
  intros H. apply in_flat_map in H. destruct H as ([cg pg] & _ & H).
  apply in_flat_map in H. destruct H as ([c0 lf] & _ & H).
  apply in_app_or in H. destruct H as [H|H].
  - apply in_if_assert in H. subst c. apply okc_assert.
  - destruct H as [H|[]]. subst c. split; [left; reflexivity|exact I].
Qed.

(* calls of the sibling wrapper: assertion records or [mk p ch] *)
Definition mk_or_assert (mk : Z -> list (Z * Z) -> call) (c : call) : Prop :=
  (exists id, c = CAssert id) \/ (exists p ch, c = mk p ch).

Lemma in_sibling_loop d mk : forall lower upper cur c,
  In c (sibling_loop d mk lower upper cur) -> mk_or_assert mk c.
Proof.
  induction lower as [|c0 lrest IH]; intros upper cur c H.
  - destruct upper as [|p urest]; [destruct H|]. cbn [sibling_loop] in H.
    destruct cur as [|x cur]; [destruct H|]. destruct H as [H|[]]. right. eexists _, _. symmetry. exact H.
  - destruct upper as [|p urest]; [destruct H|]. cbn [sibling_loop] in H.
    destruct lrest as [|c2 lr].
    + apply in_app_or in H. destruct H as [H|H]; [apply in_if_assert in H; left; eexists; exact H|].
      apply in_app_or in H. destruct H as [H|H]; [apply in_if_assert in H; left; eexists; exact H|].
      destruct H as [H|[]]. right. eexists _, _. symmetry. exact H.
    + destruct (parent d c2 =? p).
      * apply in_app_or in H. destruct H as [H|H]; [apply in_if_assert in H; left; eexists; exact H|].
        apply in_app_or in H. destruct H as [H|H]; [apply in_if_assert in H; left; eexists; exact H|].
        apply IH in H. exact H.
      * apply in_app_or in H. destruct H as [H|H]; [apply in_if_assert in H; left; eexists; exact H|].
        apply in_app_or in H. destruct H as [H|H]; [apply in_if_assert in H; left; eexists; exact H|].
        destruct H as [H|H]; [right; eexists _, _; symmetry; exact H|].
        apply in_app_or in H. destruct H as [H|H].
        -- destruct urest as [|p2 ur]; [destruct H|]. apply in_if_assert in H. left. eexists. exact H.
        -- apply IH in H. exact H.
Qed.

Lemma in_sibling_wrapper d mk l u c : In c (sibling_wrapper d mk l u) -> mk_or_assert mk c.
Proof.
  unfold sibling_wrapper. intros H.
  destruct (cg_find u _) as [ip|].
  - destruct (cg_find_parent _ l _) as [ic|].
    + apply in_sibling_loop in H. exact H.
    + destruct H as [H|[]]. left. eexists. symmetry. exact H.
  - destruct H as [H|[]]. left. eexists. symmetry. exact H.
Qed.

Lemma in_staircase d mk : forall fuel lowers uppers c,
  In c (staircase d fuel mk lowers uppers) -> mk_or_assert mk c.
Proof.
  induction fuel as [|f IH]; intros lowers uppers c H.
  - destruct H as [H|[]]. left. eexists. symmetry. exact H.
  - cbn [staircase] in H. destruct uppers as [|u urest]; [destruct H|]. destruct lowers as [|l lrest]; [destruct H|].
    assert (Hhead : forall r, In c ((if (parent d (cg_first l) <=? cg_last u) || (cg_first u <=? parent d (cg_last l))
                                     then [] else [CAssert 68]) ++ sibling_wrapper d mk l u ++ r) ->
                              In c r \/ mk_or_assert mk c).
    { intros r Hr. apply in_app_or in Hr. destruct Hr as [Hr|Hr]; [apply in_if_assert in Hr; right; left; eexists; exact Hr|].
      apply in_app_or in Hr. destruct Hr as [Hr|Hr]; [right; apply in_sibling_wrapper in Hr; exact Hr|left; exact Hr]. }
    destruct (parent d (cg_last l) <=? cg_last u).
    + destruct lrest as [|l2 lr].
      * rewrite <- (app_nil_r (sibling_wrapper d mk l u)) in H. apply Hhead in H. destruct H as [[]|H]. exact H.
      * destruct (cg_last u <? parent d (cg_first l2)); apply Hhead in H; destruct H as [H|H]; try exact H; apply IH in H; exact H.
    + apply Hhead in H. destruct H as [H|H]; [apply IH in H|]; exact H.
Qed.

Lemma in_pass_M2M d s t c : In c (pass_M2M d s t) -> okc 4 s c.
Proof.
  unfold pass_M2M. intros H. apply in_flat_map in H. destruct H as (l & Hl & H).
  apply in_rev in Hl. apply in_zrange in Hl. apply in_staircase in H.
  destruct H as [(id & ->)|(p & ch & ->)]; [apply okc_assert|].
  split; [left; reflexivity|cbn [lvl_ok]; lia].
Qed.

Lemma in_pass_L2L d s t c : In c (pass_L2L d s t) -> okc 16 s c.
Proof.
  unfold pass_L2L. intros H. apply in_flat_map in H. destruct H as (l & Hl & H).
  apply in_zrange in Hl. apply in_staircase in H.
  destruct H as [(id & ->)|(p & ch & ->)]; [apply okc_assert|].
  split; [left; reflexivity|cbn [lvl_ok]; lia].
Qed.

Lemma in_m2l_between d lvl tgt src view c : In c (m2l_between d lvl tgt src view) ->
  (exists id, c = CAssert id) \/ (exists t sr, c = CM2L lvl t sr).
Proof.
  unfold m2l_between. intros H. apply in_flat_map in H. destruct H as (run & _ & H).
  destruct run as [|x0 run]; [destruct H|].
  match type of H with In _ (match ?S with [] => _ | _ :: _ => _ end) => destruct S as [|s0 S'] end.
  - apply in_if_assert in H. left. eexists. exact H.
  - apply in_app_or in H. destruct H as [H|H]; [apply in_if_assert in H; left; eexists; exact H|].
    apply in_app_or in H. destruct H as [H|H]; [apply in_if_assert in H; left; eexists; exact H|].
    destruct H as [H|[]]. right. eexists _, _. symmetry. exact H.
Qed.

Lemma in_m2l_in_group d lvl g lst c : In c (m2l_in_group d lvl g lst) ->
  (exists id, c = CAssert id) \/ (exists t sr, c = CM2L lvl t sr).
Proof.
  unfold m2l_in_group. intros H. apply in_flat_map in H. destruct H as (run & _ & H).
  destruct run as [|x0 run]; [destruct H|].
  apply in_app_or in H. destruct H as [H|H]; [apply in_if_assert in H; left; eexists; exact H|].
  apply in_app_or in H. destruct H as [H|H]; [apply in_if_assert in H; left; eexists; exact H|].
  apply in_app_or in H. destruct H as [H|H]; [apply in_if_assert in H; left; eexists; exact H|].
  destruct H as [H|[]]. right. eexists _, _. symmetry. exact H.
Qed.

Lemma in_pass_M2L d per s t c : In c (pass_M2L d per s t) -> okc 8 s c.
Proof.
  unfold pass_M2L. intros H. apply in_flat_map in H. destruct H as (l & Hl & H).
  apply in_zrange in Hl. apply in_flat_map in H. destruct H as (g & _ & H).
  destruct (ilist_block d per l true g) as [internal external].
  assert (Hc : (exists id, c = CAssert id) \/ (exists t0 sr, c = CM2L l t0 sr)).
  { apply in_app_or in H. destruct H as [H|H].
    - apply in_flat_map in H. destruct H as (gv & _ & H). apply in_m2l_between in H. exact H.
    - apply in_m2l_in_group in H. exact H. }
  destruct Hc as [(id & ->)|(t0 & sr & ->)]; [apply okc_assert|].
  split; [left; reflexivity|cbn [lvl_ok]; lia].
Qed.

Lemma in_p2p_between src tgt view c : In c (p2p_between CP2P src tgt view) -> op_flag c = 1 \/ op_flag c = 0.
Proof.
  unfold p2p_between. intros H. apply in_flat_map in H. destruct H as (x & _ & H).
  destruct (pg_find src (x_src x)) as [ks|]; [|destruct H].
  apply in_app_or in H. destruct H as [H|H].
  - right. destruct (pg_find tgt (x_tgt x)) as [k|].
    + apply in_if_assert in H. subst c. reflexivity.
    + destruct H as [H|[]]. subst c. reflexivity.
  - apply in_app_or in H. destruct H as [H|H]; [apply in_if_assert in H; subst c; right; reflexivity|].
    destruct H as [H|[]]. subst c. left. reflexivity.
Qed.

Lemma in_p2p_in_group g lst c : In c (p2p_in_group g lst) -> op_flag c = 1 \/ op_flag c = 0.
Proof.
  unfold p2p_in_group. intros H. apply in_flat_map in H. destruct H as (x & _ & H).
  destruct (pg_find g (x_src x)) as [ks|].
  - apply in_app_or in H. destruct H as [H|H].
    + right. destruct (pg_find g (x_tgt x)) as [k|].
      * apply in_if_assert in H. subst c. reflexivity.
      * destruct H as [H|[]]. subst c. reflexivity.
    + destruct H as [H|[]]. subst c. left. reflexivity.
  - destruct H as [H|[]]. subst c. right. reflexivity.
Qed.

Lemma in_pass_P2P d per s t c : In c (pass_P2P d per t) -> okc 1 s c.
Proof.
  unfold pass_P2P. intros H. apply in_flat_map in H. destruct H as (g & _ & H).
  destruct (nlist_block d per (height t - 1) true true g) as [internal external].
  assert (Hc : op_flag c = 1 \/ op_flag c = 0).
  { apply in_app_or in H. destruct H as [H|H].
    - apply in_flat_map in H. destruct H as (gv & _ & H). apply in_p2p_between in H. exact H.
    - apply in_app_or in H. destruct H as [H|H]; [apply in_p2p_in_group in H; exact H|].
      unfold p2p_inner in H. apply in_map_iff in H. destruct H as (lf & <- & _). left. reflexivity. }
  split; [exact Hc|]. destruct c; cbn [op_flag] in Hc; try exact I; destruct Hc; discriminate.
Qed.

(* the pass selected by one flag value *)
Definition passk (d : nat) (per : bool) (s : Z) (t : tree) (k : Z) : list call :=
  if k =? 2 then pass_P2M s t else if k =? 4 then pass_M2M d s t else if k =? 8 then pass_M2L d per s t
  else if k =? 16 then pass_L2L d s t else if k =? 32 then pass_L2P s t else if k =? 1 then pass_P2P d per t else [].

Lemma in_passk d per s t k c : In c (passk d per s t k) -> okc k s c.
Proof.
  unfold passk.
  destruct (Z.eqb_spec k 2) as [->|_]; [apply in_pass_P2M|].
  destruct (Z.eqb_spec k 4) as [->|_]; [apply in_pass_M2M|].
  destruct (Z.eqb_spec k 8) as [->|_]; [apply in_pass_M2L|].
  destruct (Z.eqb_spec k 16) as [->|_]; [apply in_pass_L2L|].
  destruct (Z.eqb_spec k 32) as [->|_]; [apply in_pass_L2P|].
  destruct (Z.eqb_spec k 1) as [->|_]; [apply in_pass_P2P|]. intros [].
Qed.

(* the part of execute selected by flag k in the flag word f *)
Definition sel (d : nat) (per : bool) (s : Z) (t : tree) (k f : Z) : list call :=
  if has f k then passk d per s t k else [].

Definition all_flags : list Z := [2; 4; 8; 16; 32; 1].
Definition far_flags : list Z := [2; 4; 8; 16; 32].

Lemma execute_sel d per stop f t :
  execute d per stop f t = flat_map (fun k => sel d per (Z.max 0 stop) t k f) all_flags.
Proof. unfold all_flags. cbn [flat_map]. rewrite app_nil_r. reflexivity. Qed.

Lemma in_execute d per stop f t c : In c (execute d per stop f t) ->
  exists k, has f k = true /\ okc k (Z.max 0 stop) c.
Proof.
  rewrite execute_sel. intros H. apply in_flat_map in H. destruct H as (k & _ & H).
  unfold sel in H. destruct (has f k) eqn:E; [|destruct H].
  exists k. split; [exact E|]. apply in_passk in H. exact H.
Qed.

(* each flag triggers only its own operator *)
Theorem single_flag_only : forall d per s flags t c,
  In c (execute d per s flags t) -> (forall id, c <> CAssert id) -> has flags (op_flag c) = true.
Proof.
  intros d per s flags t c H Hna. apply in_execute in H. destruct H as (k & Hk & (Hf & _)).
  destruct Hf as [Hf|Hf]; [rewrite Hf; exact Hk|].
  destruct c; cbn [op_flag] in Hf; try discriminate. exfalso. apply (Hna id). reflexivity.
Qed.

(* nothing above the upper working level *)
Theorem nothing_above_s : forall d per s flags t c, In c (execute d per s flags t) ->
  match c with CM2M l _ _ | CL2L l _ _ | CM2L l _ _ => Z.max 0 s <= l | _ => True end.
Proof.
  intros d per s flags t c H. apply in_execute in H. destruct H as (k & _ & (_ & Hl)). exact Hl.
Qed.

(* ------------------------------------------------------------------ *)
(* 2. write sets                                                       *)
(* ------------------------------------------------------------------ *)
Theorem step_frame : forall L s c,
  (op_flag c <> 2 -> op_flag c <> 4 -> s_mult (step L s c) = s_mult s) /\
  (op_flag c <> 8 -> op_flag c <> 16 -> s_loc (step L s c) = s_loc s) /\
  (op_flag c <> 32 -> op_flag c <> 1 -> s_rhs (step L s c) = s_rhs s).
Proof.
  intros L s c. destruct c; cbn [op_flag step s_mult s_loc s_rhs];
    (split; [|split]); intros H1 H2; try reflexivity; exfalso; try (apply H1; reflexivity); apply H2; reflexivity.
Qed.

Theorem run_frame : forall L tr s,
  ((forall c, In c tr -> op_flag c <> 2 /\ op_flag c <> 4) -> s_mult (run L tr s) = s_mult s) /\
  ((forall c, In c tr -> op_flag c <> 8 /\ op_flag c <> 16) -> s_loc (run L tr s) = s_loc s) /\
  ((forall c, In c tr -> op_flag c <> 32 /\ op_flag c <> 1) -> s_rhs (run L tr s) = s_rhs s).
Proof.
  intros L. induction tr as [|c tr IH]; intros s.
  - cbn. repeat split; reflexivity.
  - change (run L (c :: tr) s) with (run L tr (step L s c)).
    destruct (IH (step L s c)) as (IM & IL & IR). destruct (step_frame L s c) as (FM & FL & FR).
    split; [|split]; intros H.
    + rewrite IM by (intros c' Hc'; apply H; right; exact Hc').
      destruct (H c (or_introl eq_refl)) as [H1 H2]. apply FM; assumption.
    + rewrite IL by (intros c' Hc'; apply H; right; exact Hc').
      destruct (H c (or_introl eq_refl)) as [H1 H2]. apply FL; assumption.
    + rewrite IR by (intros c' Hc'; apply H; right; exact Hc').
      destruct (H c (or_introl eq_refl)) as [H1 H2]. apply FR; assumption.
Qed.

(* ------------------------------------------------------------------ *)
(* 3. states that differ by a fixed amount in the particle results     *)
(* ------------------------------------------------------------------ *)
Definition shifted (dl : Z -> Z -> nat) (a b : st) : Prop :=
  (forall l x q, cnt (s_mult b l x) q = cnt (s_mult a l x) q) /\
  (forall l x q, cnt (s_loc b l x) q = cnt (s_loc a l x) q) /\
  (forall p q, cnt (s_rhs b p) q = (cnt (s_rhs a p) q + dl p q)%nat).

Definition zero2 : Z -> Z -> nat := fun _ _ => 0%nat.

Lemma st_eq_shifted a b : st_eq a b <-> shifted zero2 a b.
Proof.
  unfold st_eq, shifted, zero2, cnt.
  split; intros (H1 & H2 & H3); (split; [|split]); intros; rewrite ?H1, ?H2, ?H3; lia.
Qed.

Lemma st_eq_refl a : st_eq a a.
Proof. repeat split. Qed.

Section Shift.
Variable L : Z.

Lemma cm_shift a b e l x q : (forall l x q, cnt (s_mult b l x) q = cnt (s_mult a l x) q) ->
  cm L b e l x q = cm L a e l x q.
Proof. intros HM. destruct e; cbn [cm]; try reflexivity. rewrite HM. reflexivity. Qed.

Lemma cl_shift a b e l x q : (forall l x q, cnt (s_mult b l x) q = cnt (s_mult a l x) q) ->
  (forall l x q, cnt (s_loc b l x) q = cnt (s_loc a l x) q) -> cl b e l x q = cl a e l x q.
Proof. intros HM HL. destruct e; cbn [cl]; try reflexivity; [rewrite HM|rewrite HL]; reflexivity. Qed.

Lemma cr_shift a b e p q : (forall l x q, cnt (s_loc b l x) q = cnt (s_loc a l x) q) ->
  cr L b e p q = cr L a e p q.
Proof. intros HL. destruct e; cbn [cr]; try reflexivity. rewrite HL. reflexivity. Qed.

Lemma step_shift dl a b c : shifted dl a b -> shifted dl (step L a c) (step L b c).
Proof.
  intros (HM & HL & HR). split; [|split].
  - intros l x q. rewrite !step_mult, HM. f_equal. apply sumn_ext_in. intros e _. apply cm_shift. exact HM.
  - intros l x q. rewrite !step_loc, HL. f_equal. apply sumn_ext_in. intros e _. apply cl_shift; assumption.
  - intros p q. rewrite !step_rhs, HR.
    rewrite (sumn_ext_in (fun e => cr L b e p q) (fun e => cr L a e p q)); [lia|]. intros e _. apply cr_shift. exact HL.
Qed.

Lemma run_shift dl : forall tr a b, shifted dl a b -> shifted dl (run L tr a) (run L tr b).
Proof.
  induction tr as [|c tr IH]; intros a b H; [exact H|].
  change (shifted dl (run L tr (step L a c)) (run L tr (step L b c))). apply IH. apply step_shift. exact H.
Qed.

(* [run] respects observational equality *)
Lemma step_st_eq a b c : st_eq a b -> st_eq (step L a c) (step L b c).
Proof. rewrite !st_eq_shifted. apply step_shift. Qed.

Lemma run_st_eq tr a b : st_eq a b -> st_eq (run L tr a) (run L tr b).
Proof. rewrite !st_eq_shifted. apply run_shift. Qed.

(* near-field calls (and assertion records) only add a state-independent amount to the particle results *)
Definition near (c : call) : Prop := op_flag c = 1 \/ op_flag c = 0.

Definition nd (c : call) (p q : Z) : nat := sumn (fun e => cr L st0 e p q) (elems_of_call c).
Definition nds (N : list call) (p q : Z) : nat := sumn (fun c => nd c p q) N.

Lemma near_step s c : near c -> shifted (nd c) s (step L s c).
Proof.
  intros Hc. destruct (step_frame L s c) as (FM & FL & _).
  assert (HM : s_mult (step L s c) = s_mult s) by (apply FM; destruct Hc as [Hc|Hc]; rewrite Hc; discriminate).
  assert (HL : s_loc (step L s c) = s_loc s) by (apply FL; destruct Hc as [Hc|Hc]; rewrite Hc; discriminate).
  split; [|split].
  - intros l x q. rewrite HM. reflexivity.
  - intros l x q. rewrite HL. reflexivity.
  - intros p q. rewrite step_rhs. unfold nd. f_equal. apply sumn_ext_in. intros e He.
    destruct c; destruct Hc as [Hc|Hc]; cbn [op_flag] in Hc; try discriminate; cbn [elems_of_call] in He;
      destruct He as [<-|[]]; reflexivity.
Qed.

Lemma near_run : forall N s, (forall c, In c N -> near c) -> shifted (nds N) s (run L N s).
Proof.
  induction N as [|c N IH]; intros s HN.
  - cbn. repeat split; intros; unfold nds; rewrite ?sumn_nil; lia.
  - change (run L (c :: N) s) with (run L N (step L s c)).
    destruct (IH (step L s c) (fun c' Hc' => HN c' (or_intror Hc'))) as (IM & IL & IR).
    destruct (near_step s c (HN c (or_introl eq_refl))) as (SM & SL & SR).
    split; [|split].
    + intros l x q. rewrite IM, SM. reflexivity.
    + intros l x q. rewrite IL, SL. reflexivity.
    + intros p q. rewrite IR, SR. unfold nds. rewrite sumn_cons. lia.
Qed.

(* trace equivalence: equal observations from observationally equal states *)
Definition teq (t1 t2 : list call) : Prop := forall a b, st_eq a b -> st_eq (run L t1 a) (run L t2 b).

Lemma teq_refl tr : teq tr tr.
Proof. intros a b H. apply run_st_eq. exact H. Qed.

Lemma st_eq_trans a b c : st_eq a b -> st_eq b c -> st_eq a c.
Proof.
  intros (A1 & A2 & A3) (B1 & B2 & B3). split; [|split]; intros.
  - rewrite A1. apply B1.
  - rewrite A2. apply B2.
  - rewrite A3. apply B3.
Qed.

Lemma teq_trans t1 t2 t3 : teq t1 t2 -> teq t2 t3 -> teq t1 t3.
Proof.
  intros H12 H23 a b Hab. apply (st_eq_trans _ (run L t2 b)).
  - apply H12. exact Hab.
  - apply H23. apply st_eq_refl.
Qed.

Lemma teq_app a a' b b' : teq a a' -> teq b b' -> teq (a ++ b) (a' ++ b').
Proof. intros Ha Hb x y Hxy. rewrite !run_app. apply Hb. apply Ha. exact Hxy. Qed.

(* a block of near-field calls can be moved behind any other block *)
Lemma near_swap N B : (forall c, In c N -> near c) -> teq (N ++ B) (B ++ N).
Proof.
  intros HN a b Hab. rewrite !run_app.
  pose proof (run_shift _ B _ _ (near_run N a HN)) as (M1 & L1 & R1).
  pose proof (near_run N (run L B b) HN) as (M2 & L2 & R2).
  pose proof (run_st_eq B a b Hab) as (M3 & L3 & R3).
  fold (cnt) in *.
  split; [|split]; intros.
  - change (cnt (s_mult (run L B (run L N a)) l x) q = cnt (s_mult (run L N (run L B b)) l x) q).
    rewrite M1, M2. apply M3.
  - change (cnt (s_loc (run L B (run L N a)) l x) q = cnt (s_loc (run L N (run L B b)) l x) q).
    rewrite L1, L2. apply L3.
  - change (cnt (s_rhs (run L B (run L N a)) p) q = cnt (s_rhs (run L N (run L B b)) p) q).
    rewrite R1, R2. f_equal. apply R3.
Qed.

(* a near-field call commutes with any call *)
Lemma near_commute s n c : near n -> st_eq (step L (step L s n) c) (step L (step L s c) n).
Proof.
  intros Hn. apply (near_swap [n] [c]); [|apply st_eq_refl].
  intros c' [<-|[]]. exact Hn.
Qed.

End Shift.

(* ------------------------------------------------------------------ *)
(* 4. staged runs                                                      *)
(* ------------------------------------------------------------------ *)
(* indices (counted from i) of the elements of the history that carry flag k *)
Fixpoint positions (k : Z) (h : list Z) (i : nat) : list nat :=
  match h with
  | [] => []
  | f :: r => if has f k then i :: positions k r (S i) else positions k r (S i)
  end.

(* index of the unique element of h that has flag f; None if zero or several *)
Definition pos_of (f : Z) (h : list Z) : option nat :=
  match positions f h 0 with [i] => Some i | _ => None end.

(* the six flags are partitioned among the elements of the history (each flag in exactly one element)
   and the far-field chain P2M, M2M, M2L, L2L, L2P appears in this order (P2P anywhere) *)
Definition history_ok (h : list Z) : Prop :=
  exists i1 i2 i3 i4 i5 i6,
    pos_of 2 h = Some i2 /\ pos_of 4 h = Some i3 /\ pos_of 8 h = Some i4 /\ pos_of 16 h = Some i5 /\
    pos_of 32 h = Some i6 /\ pos_of 1 h = Some i1 /\
    (i2 <= i3 /\ i3 <= i4 /\ i4 <= i5 /\ i5 <= i6)%nat.

Example history_examples :
  history_ok [6; 9; 48] /\ history_ok [2; 4; 8; 16; 32; 1] /\ history_ok [1; 2; 4; 8; 16; 32] /\
  history_ok [63] /\ history_ok [6; 8; 48; 1].
Proof.
  repeat split; unfold history_ok; do 6 eexists;
    (split; [reflexivity|]); (split; [reflexivity|]); (split; [reflexivity|]); (split; [reflexivity|]);
    (split; [reflexivity|]); (split; [reflexivity|]); lia.
Qed.

(* inadmissible histories are rejected: chain out of order, a flag missing, a flag twice *)
Example history_counterexamples :
  ~ history_ok [48; 9; 6] /\ ~ history_ok [2; 4; 8; 16; 32] /\ ~ history_ok [63; 1] /\ ~ history_ok [].
Proof.
  repeat split; intros (i1 & i2 & i3 & i4 & i5 & i6 & H2 & H4 & H8 & H16 & H32 & H1 & Hle);
    cbv in H2, H4, H8, H16, H32, H1; try discriminate.
  injection H2 as <-. injection H4 as <-. injection H8 as <-. injection H16 as <-. injection H32 as <-. lia.
Qed.

Lemma positions_in k : forall h i0 j, (j < length h)%nat -> has (nth j h 0) k = true ->
  In (i0 + j)%nat (positions k h i0).
Proof.
  induction h as [|f r IH]; intros i0 j Hj Hk; [cbn in Hj; lia|].
  cbn [positions]. destruct j as [|j].
  - cbn [nth] in Hk. rewrite Hk. left. lia.
  - cbn [nth] in Hk. cbn [length] in Hj.
    assert (Hin : In (S i0 + j)%nat (positions k r (S i0))) by (apply IH; [lia|exact Hk]).
    replace (i0 + S j)%nat with (S i0 + j)%nat by lia.
    destruct (has f k); [right|]; exact Hin.
Qed.

Lemma pos_unique k h i j : pos_of k h = Some i -> (j < length h)%nat -> has (nth j h 0) k = true -> j = i.
Proof.
  unfold pos_of. intros Hp Hj Hk. pose proof (positions_in k h 0%nat j Hj Hk) as Hin.
  destruct (positions k h 0) as [|i' [|i'' r]]; try discriminate.
  injection Hp as <-. destruct Hin as [Hin|[]]. cbn in Hin. lia.
Qed.

Lemma flat_map_positions {A} k (P : list A) : forall h i0,
  flat_map (fun f => if has f k then P else []) h = flat_map (fun _ => P) (positions k h i0).
Proof.
  induction h as [|f r IH]; intros i0; [reflexivity|].
  cbn [flat_map positions]. rewrite (IH (S i0)). destruct (has f k); reflexivity.
Qed.

Lemma flat_map_pos {A} k (P : list A) h i : pos_of k h = Some i ->
  flat_map (fun f => if has f k then P else []) h = P.
Proof.
  unfold pos_of. intros Hp. rewrite (flat_map_positions k P h 0%nat).
  destruct (positions k h 0) as [|i' [|i'' r]]; try discriminate. cbn [flat_map]. apply app_nil_r.
Qed.

Lemma flat_map_all_nil {A B} (f : A -> list B) l : (forall a, In a l -> f a = []) -> flat_map f l = [].
Proof.
  induction l as [|a l IH]; intros H; [reflexivity|]. cbn [flat_map].
  rewrite (H a (or_introl eq_refl)), IH; [reflexivity|]. intros b Hb. apply H. right. exact Hb.
Qed.

(* if nothing produced by B comes strictly before something produced by A, the interleaving is the concatenation *)
Lemma flat_map_split {C} (A B : Z -> list C) : forall h,
  (forall i j, (i < j < length h)%nat -> B (nth i h 0) = [] \/ A (nth j h 0) = []) ->
  flat_map (fun f => A f ++ B f) h = flat_map A h ++ flat_map B h.
Proof.
  induction h as [|f r IH]; intros Hc; [reflexivity|].
  cbn [flat_map]. rewrite IH.
  2:{ intros i j Hij. apply (Hc (S i) (S j)). cbn [length]. lia. }
  destruct (B f) as [|b0 Bf] eqn:EB.
  - rewrite !app_nil_r. cbn [app]. rewrite <- app_assoc. reflexivity.
  - assert (HA : flat_map A r = []).
    { apply flat_map_all_nil. intros a Ha. apply (In_nth r a 0) in Ha. destruct Ha as (j & Hj & <-).
      destruct (Hc 0%nat (S j)) as [H|H]; [cbn [length]; lia| |exact H].
      cbn [nth] in H. rewrite EB in H. discriminate. }
    rewrite HA, app_nil_r. cbn [app]. rewrite <- app_assoc. reflexivity.
Qed.

Section Staged.
Variable d : nat.
Variable per : bool.
Variable L : Z.
Variable s : Z.     (* the working upper level, already max 0 stop *)
Variable t : tree.

Notation sl := (sel d per s t).

(* a chain of flags whose positions in the history are ordered *)
Fixpoint chain_ok (h : list Z) (ks : list Z) : Prop :=
  match ks with
  | [] => True
  | k :: rest =>
      (exists i, pos_of k h = Some i /\
                 forall kb, In kb rest -> exists ib, pos_of kb h = Some ib /\ (i <= ib)%nat) /\
      chain_ok h rest
  end.

Lemma chain_split h : forall ks, chain_ok h ks ->
  flat_map (fun f => flat_map (fun k => sl k f) ks) h = flat_map (fun k => flat_map (sl k) h) ks.
Proof.
  induction ks as [|k rest IH]; intros Hok.
  - cbn [flat_map]. apply flat_map_all_nil. reflexivity.
  - destruct Hok as ((i & Hi & Hrest) & Hok). cbn [flat_map].
    rewrite (flat_map_split (sl k) (fun f => flat_map (fun k' => sl k' f) rest)).
    + rewrite (IH Hok). reflexivity.
    + intros a b Hab.
      destruct (has (nth b h 0) k) eqn:Ek; [|right; unfold sel; rewrite Ek; reflexivity].
      left. apply flat_map_all_nil. intros kb Hkb. unfold sel.
      destruct (has (nth a h 0) kb) eqn:Eb; [|reflexivity]. exfalso.
      destruct (Hrest kb Hkb) as (ib & Hib & Hle).
      assert (b = i) by (apply (pos_unique k h); [exact Hi|lia|exact Ek]).
      assert (a = ib) by (apply (pos_unique kb h); [exact Hib|lia|exact Eb]). lia.
Qed.

Lemma near_sel1 f c : In c (sl 1 f) -> near c.
Proof.
  unfold sel. destruct (has f 1); [|intros []]. intros H. apply in_passk in H. destruct H as [H _]. exact H.
Qed.

(* the near-field blocks can be collected at the end *)
Lemma near_to_end : forall h,
  teq L (flat_map (fun f => flat_map (fun k => sl k f) all_flags) h)
        (flat_map (fun f => flat_map (fun k => sl k f) far_flags) h ++ flat_map (sl 1) h).
Proof.
  assert (Hsplit : forall f, flat_map (fun k => sl k f) all_flags = flat_map (fun k => sl k f) far_flags ++ sl 1 f).
  { intros f. change all_flags with (far_flags ++ [1]). rewrite flat_map_app. cbn [flat_map]. rewrite app_nil_r. reflexivity. }
  induction h as [|f r IH]; [apply teq_refl|].
  cbn [flat_map]. rewrite Hsplit.
  set (A := flat_map (fun k => sl k f) far_flags).
  set (N := sl 1 f).
  set (FA := flat_map (fun f => flat_map (fun k => sl k f) far_flags) r) in *.
  set (FN := flat_map (sl 1) r) in *.
  rewrite <- !app_assoc.
  apply teq_app; [apply teq_refl|].
  apply (teq_trans L _ (N ++ FA ++ FN)); [apply teq_app; [apply teq_refl|exact IH]|].
  rewrite !app_assoc. apply teq_app; [|apply teq_refl].
  apply near_swap. intros c Hc. apply (near_sel1 f). exact Hc.
Qed.

Lemma history_chain h : history_ok h -> chain_ok h far_flags /\ exists i1, pos_of 1 h = Some i1.
Proof.
  intros (i1 & i2 & i3 & i4 & i5 & i6 & H2 & H4 & H8 & H16 & H32 & H1 & Hle).
  split; [|exists i1; exact H1].
  unfold far_flags. cbn [chain_ok].
  repeat split.
  - exists i2. split; [exact H2|]. intros kb Hkb. cbn [In] in Hkb.
    destruct Hkb as [<-|[<-|[<-|[<-|[]]]]]; eexists; (split; [eassumption|lia]).
  - exists i3. split; [exact H4|]. intros kb Hkb. cbn [In] in Hkb.
    destruct Hkb as [<-|[<-|[<-|[]]]]; eexists; (split; [eassumption|lia]).
  - exists i4. split; [exact H8|]. intros kb Hkb. cbn [In] in Hkb.
    destruct Hkb as [<-|[<-|[]]]; eexists; (split; [eassumption|lia]).
  - exists i5. split; [exact H16|]. intros kb Hkb. cbn [In] in Hkb.
    destruct Hkb as [<-|[]]; eexists; (split; [eassumption|lia]).
  - exists i6. split; [exact H32|]. intros kb [].
Qed.

Lemma sel_once k h i : pos_of k h = Some i -> flat_map (sl k) h = passk d per s t k.
Proof. intros Hp. unfold sel. apply (flat_map_pos k _ h i). exact Hp. Qed.

Lemma staged_trace h : history_ok h ->
  teq L (flat_map (fun f => flat_map (fun k => sl k f) all_flags) h) (flat_map (fun k => sl k 63) all_flags).
Proof.
  intros Hok. destruct (history_chain h Hok) as (Hch & i1 & H1).
  apply (teq_trans L _ _ _ (near_to_end h)).
  rewrite (chain_split h far_flags Hch).
  destruct Hok as (j1 & i2 & i3 & i4 & i5 & i6 & H2 & H4 & H8 & H16 & H32 & _ & _).
  unfold far_flags, all_flags. cbn [flat_map].
  rewrite (sel_once 2 h i2 H2), (sel_once 4 h i3 H4), (sel_once 8 h i4 H8), (sel_once 16 h i5 H16),
    (sel_once 32 h i6 H32), (sel_once 1 h i1 H1).
  rewrite <- !app_assoc. cbn [app]. rewrite app_nil_r.
  change (sl 2 63) with (passk d per s t 2). change (sl 4 63) with (passk d per s t 4).
  change (sl 8 63) with (passk d per s t 8). change (sl 16 63) with (passk d per s t 16).
  change (sl 32 63) with (passk d per s t 32). change (sl 1 63) with (passk d per s t 1).
  apply teq_refl.
Qed.

End Staged.

Theorem staged_equals_full : forall d per L s t h, history_ok h ->
  st_eq (run L (flat_map (fun f => execute d per s f t) h) st0) (run L (execute d per s 63 t) st0).
Proof.
  intros d per L s t h Hok.
  rewrite execute_sel.
  rewrite (flat_map_ext (fun f => execute d per s f t)
             (fun f => flat_map (fun k => sel d per (Z.max 0 s) t k f) all_flags))
    by (intros f; apply execute_sel).
  apply (staged_trace d per L (Z.max 0 s) t h Hok). apply st_eq_refl.
Qed.

Print Assumptions single_flag_only.
Print Assumptions nothing_above_s.
Print Assumptions step_frame.
Print Assumptions run_frame.
Print Assumptions step_st_eq.
Print Assumptions near_commute.
Print Assumptions history_examples.
Print Assumptions history_counterexamples.
Print Assumptions staged_equals_full.
