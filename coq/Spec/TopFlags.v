(* C12 for the periodic top tree: each flag of TbfAlgorithmPeriodicTopTree(Tsm)::execute triggers only its own operator.
   top_execute / top_execute_tsm are the executable models (Exec/ExecPeriodicDefs.v) compared with the C++ per flag mask
   (checks/algocheck.py, family "topflags"). *)
From Coq Require Import ZArith List Bool Lia.
From Tbfmm Require Import Base.Prelude Exec.ExecDefs Exec.ExecTsmDefs Exec.ExecPeriodicDefs.
Import ListNotations.
Local Open Scope Z_scope.

Definition tcall_op (c : tcall) : Z :=
  match c with
  | TM2M_base _ _ | TM2M _ _ => F_M2M
  | TM2L _ _ => F_M2L
  | TL2L _ _ | TL2L_base _ _ => F_L2L
  end.

Lemma in_top_M2M d k t c : In c (top_M2M d k t) -> tcall_op c = F_M2M.
Proof.
  unfold top_M2M. intros [H | H]; [subst; reflexivity|].
  apply in_map_iff in H. destruct H as (l & H & _). subst. reflexivity.
Qed.

Lemma in_top_M2L d k c : In c (top_M2L d k) -> tcall_op c = F_M2L.
Proof.
  unfold top_M2L. destruct (k =? 0).
  - intros [H | []]. subst. reflexivity.
  - intros H. apply in_map_iff in H. destruct H as (l & H & _). subst. destruct (l =? 3); reflexivity.
Qed.

Lemma in_top_L2L d k t c : In c (top_L2L d k t) -> tcall_op c = F_L2L.
Proof.
  unfold top_L2L. intros H. apply in_app_or in H. destruct H as [H | [H | []]].
  - apply in_map_iff in H. destruct H as (l & H & _). subst. reflexivity.
  - subst. reflexivity.
Qed.

(* every call made by execute(flags) on the top tree belongs to an operator whose flag is set *)
Theorem top_single_flag_only : forall d k flags t c, In c (top_execute d k flags t) -> has flags (tcall_op c) = true.
Proof.
  intros d k flags t c. unfold top_execute.
  destruct ((k <? 0) || (height t =? 0)); [intros []|].
  intros H. apply in_app_or in H. destruct H as [H | H]; [|apply in_app_or in H; destruct H as [H | H]].
  - destruct (has flags F_M2M) eqn:E; [|destruct H]. rewrite (in_top_M2M _ _ _ _ H). exact E.
  - destruct (has flags F_M2L) eqn:E; [|destruct H]. rewrite (in_top_M2L _ _ _ H). exact E.
  - destruct (has flags F_L2L) eqn:E; [|destruct H]. rewrite (in_top_L2L _ _ _ _ H). exact E.
Qed.

Theorem top_single_flag_only_tsm : forall d k flags src tgt c, In c (top_execute_tsm d k flags src tgt) -> has flags (tcall_op c) = true.
Proof.
  intros d k flags src tgt c. unfold top_execute_tsm.
  destruct ((k <? 0) || (height src =? 0)); [intros []|].
  intros H. apply in_app_or in H. destruct H as [H | H]; [|apply in_app_or in H; destruct H as [H | H]].
  - destruct (has flags F_M2M) eqn:E; [|destruct H]. rewrite (in_top_M2M _ _ _ _ H). exact E.
  - destruct (has flags F_M2L) eqn:E; [|destruct H]. rewrite (in_top_M2L _ _ _ H). exact E.
  - destruct (has flags F_L2L) eqn:E; [|destruct H]. rewrite (in_top_L2L _ _ _ _ H). exact E.
Qed.

(* the leaf-level and near-field flags trigger nothing on the top tree *)
Theorem top_leaf_flags_nothing : forall d k flags t,
  has flags F_M2M = false -> has flags F_M2L = false -> has flags F_L2L = false -> top_execute d k flags t = [].
Proof.
  intros d k flags t H1 H2 H3. unfold top_execute. rewrite H1, H2, H3.
  destruct ((k <? 0) || (height t =? 0)); reflexivity.
Qed.

Example top_leaf_flags_examples : forall d k t,
  top_execute d k F_P2M t = [] /\ top_execute d k F_L2P t = [] /\ top_execute d k F_P2P t = [] /\ top_execute d k (F_P2M + F_L2P + F_P2P) t = [].
Proof. intros; repeat split; apply top_leaf_flags_nothing; reflexivity. Qed.

(* one call per flag, in the order M2M, M2L, L2L, equals the single full call *)
Theorem top_staged_equals_full : forall d k t,
  top_execute d k F_M2M t ++ top_execute d k F_M2L t ++ top_execute d k F_L2L t = top_execute d k 63 t.
Proof.
  intros d k t. unfold top_execute. destruct ((k <? 0) || (height t =? 0)); [reflexivity|].
  change (has F_M2M F_M2M) with true. change (has F_M2M F_M2L) with false. change (has F_M2M F_L2L) with false.
  change (has F_M2L F_M2M) with false. change (has F_M2L F_M2L) with true. change (has F_M2L F_L2L) with false.
  change (has F_L2L F_M2M) with false. change (has F_L2L F_M2L) with false. change (has F_L2L F_L2L) with true.
  change (has 63 F_M2M) with true. change (has 63 F_M2L) with true. change (has 63 F_L2L) with true.
  cbn [app]. rewrite !app_nil_r. reflexivity.
Qed.

Theorem top_staged_equals_full_tsm : forall d k src tgt,
  top_execute_tsm d k F_M2M src tgt ++ top_execute_tsm d k F_M2L src tgt ++ top_execute_tsm d k F_L2L src tgt = top_execute_tsm d k 63 src tgt.
Proof.
  intros d k src tgt. unfold top_execute_tsm. destruct ((k <? 0) || (height src =? 0)); [reflexivity|].
  change (has F_M2M F_M2M) with true. change (has F_M2M F_M2L) with false. change (has F_M2M F_L2L) with false.
  change (has F_M2L F_M2M) with false. change (has F_M2L F_M2L) with true. change (has F_M2L F_L2L) with false.
  change (has F_L2L F_M2M) with false. change (has F_L2L F_M2L) with false. change (has F_L2L F_L2L) with true.
  change (has 63 F_M2M) with true. change (has 63 F_M2L) with true. change (has 63 F_L2L) with true.
  cbn [app]. rewrite !app_nil_r. reflexivity.
Qed.
