(* Elementary interactions (the objects property C08 talks about) and the per-cell
   specification of the FMM passes over the set of occupied cells of each level. *)
From Tbfmm Require Import Base.Prelude Index.MortonDefs Tree.GroupDefs Index.ListsDefs Tree.BuildDefs Tree.Invariant Exec.ExecDefs.
Local Open Scope Z_scope.

Inductive elem :=
| EP2M (leaf : Z) (parts : list Z)
| EM2M (lvl parent child code : Z)
| EM2L (lvl tgt src code : Z)
| EL2L (lvl parent child code : Z)
| EL2P (leaf : Z) (parts : list Z)
| EP2P (src tgt code : Z) (sparts tparts : list Z)
| EP2PTsm (src tgt code : Z) (sparts tparts : list Z)
| EP2PInner (leaf : Z) (parts : list Z)
| EAssert (id : Z).

(* flatten batched calls *)
Definition elems_of_call (c : call) : list elem :=
  match c with
  | CP2M leaf parts => [EP2M leaf parts]
  | CM2M l p ch => map (fun cc => EM2M l p (fst cc) (snd cc)) ch
  | CM2L l t sr => map (fun sc => EM2L l t (fst sc) (snd sc)) sr
  | CL2L l p ch => map (fun cc => EL2L l p (fst cc) (snd cc)) ch
  | CL2P leaf parts => [EL2P leaf parts]
  | CP2P s t code sp tp => [EP2P s t code sp tp]
  | CP2PTsm s t code sp tp => [EP2PTsm s t code sp tp]
  | CP2PInner leaf parts => [EP2PInner leaf parts]
  | CAssert id => [EAssert id]
  end.
Definition elementary (tr : list call) : list elem := flat_map elems_of_call tr.

Definition no_assert (tr : list call) : Prop := forall id, ~ In (CAssert id) tr.

Section Spec.
Variable d : nat.
Variable per : bool.

(* upward / downward links of one level: every cell of the lower level with its parent *)
Definition spec_links (mk : Z -> Z -> Z -> Z -> elem) (l : Z) (lower_cells : list Z) : list elem :=
  map (fun c => mk l (parent d c) c (child_code d c)) lower_cells.

(* transfers of one level: for every cell t, every member of its interaction list that exists *)
Definition spec_m2l (l : Z) (cells : list Z) : list elem :=
  flat_map (fun t => flat_map (fun sc => if zmem (fst sc) cells then [EM2L l t (fst sc) (snd sc)] else [])
                              (ilist_cell d per l t)) cells.

(* direct interactions: every adjacent pair of occupied leaves once (upper-half side), then every leaf with itself *)
Definition parts_of (lvs : list leaf) (i : Z) : list Z :=
  match find (fun lf => lf_index lf =? i) lvs with Some lf => lf_parts lf | None => [] end.

Definition spec_p2p (L : Z) (lvs : list leaf) : list elem :=
  let cells := map lf_index lvs in
  flat_map (fun t => flat_map (fun sc => if zmem (fst sc) cells
                                         then [EP2P (fst sc) t (snd sc) (parts_of lvs (fst sc)) (parts_of lvs t)] else [])
                              (nlist_cell d per L true t)) cells.
Definition spec_p2p_inner (lvs : list leaf) : list elem := map (fun lf => EP2PInner (lf_index lf) (lf_parts lf)) lvs.

End Spec.
