(* Executable model of the flat memory blocks:
   TbfMemoryBlock (src/containers/tbfmemoryblock.hpp), TbfMemoryScalar / Vector / MultiRVector / MultiVVector,
   TbfUtils::GetLeadingDim (src/utils/tbfutils.hpp:51-55).
   All quantities are byte counts / byte offsets relative to the buffer base. *)
From Tbfmm Require Import Base.Prelude.
Local Open Scope Z_scope.

(* block kinds with sizeof(DataType) (and the fixed number of rows), alignment a = MemoryAlignementBytes *)
Inductive bkind :=
| Scalar (sz : Z)
| Vector (sz : Z)
| MultiR (sz rows : Z)
| MultiV (sz rows : Z).

Section Layout.
Variable a : Z.   (* TbfDefaultMemoryAlignement = 64 *)

(* GetLeadingDim<T>(n, a) = ((sizeof(T)*n + a - 1)/a)*a *)
Definition leading (sz n : Z) : Z := ((sz * n + a - 1) / a) * a.

(* BlockType::GetMemorySizeFromNbItems *)
Definition block_bytes (k : bkind) (n : Z) : Z :=
  match k with
  | Scalar sz => leading sz n
  | Vector sz => leading sz n
  | MultiR sz rows => rows * leading sz n
  | MultiV sz rows => n * leading sz rows
  end.

(* GetSizeAndOffsetOfBlocks: offsets are the running sums of the block sizes *)
Fixpoint offsets_from (off : Z) (ks : list bkind) (ns : list Z) : list Z :=
  match ks, ns with
  | k :: kr, n :: nr => off :: offsets_from (off + block_bytes k n) kr nr
  | _, _ => []
  end.
Definition offsets (ks : list bkind) (ns : list Z) : list Z := offsets_from 0 ks ns.
Definition blocks_end (ks : list bkind) (ns : list Z) : Z := zsum (map2 block_bytes ks ns).
Definition nbk (ks : list bkind) : Z := zlen ks.
(* totalMemoryToAlloc = end + sizeof(long)*NbBlocks + sizeof(long)*NbBlocks *)
Definition total (ks : list bkind) (ns : list Z) : Z := blocks_end ks ns + 8 * nbk ks + 8 * nbk ks.

(* object state: allocatedMemorySizeInByte, objectOwnData, and the trailer words stored in the buffer
   (word k of nbItemsInBlocks / offsetOfBlocksForPtrs), addressed by byte offset from the base *)
Record mblock := { mb_alloc : Z; mb_owns : bool; mb_words : list (Z * Z) (* (byte offset, value) last write first *) }.

Definition mb_empty : mblock := {| mb_alloc := 0; mb_owns := false; mb_words := [] |}.

Definition items_pos (ks : list bkind) (alloc k : Z) : Z := alloc - 8 * nbk ks + 8 * k.
Definition offs_pos (ks : list bkind) (alloc k : Z) : Z := alloc - 8 * nbk ks - 8 * nbk ks + 8 * k.

Fixpoint read_word (ws : list (Z * Z)) (pos : Z) : Z :=
  match ws with
  | [] => 0      (* memset 0 *)
  | (p, v) :: r => if p =? pos then v else read_word r pos
  end.

(* resetBlocksFromSizes *)
Definition reset (ks : list bkind) (st : mblock) (ns : list Z) : mblock :=
  let tot := total ks ns in
  let alloc' := if (mb_alloc st <? tot) || negb (mb_owns st) then tot else mb_alloc st in
  let offs := offsets ks ns in
  let idxs := zseq (nbk ks) in
  (* memset(raw, 0, tot) wipes what lies below tot; words at or above tot survive a reuse, then the trailer is rewritten *)
  let kept := if (mb_alloc st <? tot) || negb (mb_owns st) then []
              else filter (fun pv => tot <=? fst pv) (mb_words st) in
  let w_items := map2 (fun k n => (items_pos ks alloc' k, n)) idxs ns in
  let w_offs := map2 (fun k o => (offs_pos ks alloc' k, o)) idxs offs in
  {| mb_alloc := alloc'; mb_owns := true; mb_words := rev w_offs ++ rev w_items ++ kept |}.

(* initHeader on a raw copy of the bytes: (nbItems, offsets) as re-read from the trailer *)
Definition init_header (ks : list bkind) (st : mblock) : list Z * list Z :=
  let idxs := zseq (nbk ks) in
  (map (fun k => read_word (mb_words st) (items_pos ks (mb_alloc st) k)) idxs,
   map (fun k => read_word (mb_words st) (offs_pos ks (mb_alloc st) k)) idxs).

(* byte offset (from the buffer base) of element (i, row) of block b, as the viewers compute it *)
Definition elem_offset (k : bkind) (blockoff n i row : Z) : Z :=
  match k with
  | Scalar sz => blockoff
  | Vector sz => blockoff + i * sz
  | MultiR sz rows => blockoff + row * leading sz n + i * sz
  | MultiV sz rows => blockoff + i * leading sz rows + row * sz
  end.
Definition elem_size (k : bkind) : Z :=
  match k with Scalar sz | Vector sz | MultiR sz _ | MultiV sz _ => sz end.
Definition rows_of (k : bkind) : Z :=
  match k with Scalar _ | Vector _ => 1 | MultiR _ r | MultiV _ r => r end.

End Layout.
